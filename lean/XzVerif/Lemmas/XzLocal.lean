/-
  Locality of acceptance for the .xz container decoder model: an answer LZMA_STREAM_END depends only on the bytes that
  were consumed (given the same property of the payload decoder, `PayloadLocal`).  Proved stage by stage in lock step:
  completeness of the primitive loops (`padCheck`, `matchBytes`, `indexVli`), then `indexFinish`, `indexRecords`,
  `indexHashDecode`, `blockDecode`, `indexAndFooter`, `blocksLoop`, `streamOne`.
  Consequences (Props/C05.lean): no proper prefix of an accepted Stream is accepted; bytes after a Stream are irrelevant.
  Kernel proofs, core Lean only.
-/
import XzVerif.Lemmas.XzDecodeStream
import XzVerif.Lemmas.XzFlip
namespace XzVerif.XzDecode
open XzVerif XzVerif.Vli XzVerif.Container

/-! ## completeness of the primitive loops -/

theorem padCheck_complete (k : Nat) (r : List UInt8) : padCheck k (List.replicate k 0 ++ r) = (.streamEnd, k, r) := by
  induction k with
  | zero => simp [padCheck]
  | succ k ih => simp [List.replicate_succ, padCheck, ih]

theorem matchBytes_complete (e r : List UInt8) : matchBytes e (e ++ r) = (.streamEnd, e.length) := by
  induction e with
  | nil => simp [matchBytes]
  | cons x xs ih => simp [matchBytes, ih]

theorem take_eq_append_drop {l l' : List UInt8} {n : Nat} {x : List UInt8} (hx : l.take n = x)
    (h : l'.take n = l.take n) : l' = x ++ l'.drop n := by
  rw [← hx, ← h, List.take_append_drop]

theorem padCheck_local (k : Nat) (l l' : List UInt8) (n : Nat) (rest : List UInt8)
    (h : padCheck k l = (.streamEnd, n, rest)) (hl : l'.take n = l.take n) :
    padCheck k l' = (.streamEnd, n, l'.drop n) := by
  obtain ⟨hn, hd⟩ := padCheck_streamEnd k l n rest h
  subst hn
  have ht : l.take n = List.replicate n 0 := by rw [hd, List.take_left']; simp
  have := take_eq_append_drop ht hl
  conv => lhs; rw [this]
  exact padCheck_complete _ _

theorem matchBytes_local (e l l' : List UInt8) (n : Nat) (h : matchBytes e l = (.streamEnd, n)) (hl : l'.take n = l.take n) :
    matchBytes e l' = (.streamEnd, n) := by
  obtain ⟨hn, ht⟩ := matchBytes_streamEnd e l n h
  have := take_eq_append_drop ht hl
  rw [this, matchBytes_complete, hn]

theorem indexVli_complete (v : Nat) (hv : v ≤ VLI_MAX) (t : List UInt8) :
    indexVli (vliEncode v ++ t) = .ok (v, (vliEncode v).length) := by
  have hdec : vliDecodeAux 0 (vliEncode v ++ t) = some (v, t) := by
    have := vliDecodeAux_encodeAux 8 v 0 t (by omega) (by rw [pow128_9]; unfold VLI_MAX at hv; omega) (by omega)
    exact this
  obtain ⟨hloop, _⟩ := vliDecLoop_of_decodeAux (vliEncode v ++ t) 0 0 0 v t hdec
  unfold indexVli
  simp only [hloop]
  simp

theorem indexVli_local (l l' : List UInt8) (v n : Nat) (h : indexVli l = .ok (v, n)) (hl : l'.take n = l.take n) :
    indexVli l' = .ok (v, n) := by
  obtain ⟨e1, l1, _, m1⟩ := indexVli_ok l v n h
  have ht : l.take n = vliEncode v := by rw [e1, ← l1, List.take_left']; rfl
  have := take_eq_append_drop ht hl
  rw [this, indexVli_complete v m1, l1]


/-! ## locality of the Index decoder -/

theorem take_of_take_eq {l l' : List UInt8} {n m : Nat} (h : l'.take n = l.take n) (hm : m ≤ n) : l'.take m = l.take m := by
  have := congrArg (List.take m) h
  rwa [List.take_take, List.take_take, Nat.min_eq_left hm] at this

theorem drop_take_of_take_eq {l l' : List UInt8} {n a b : Nat} (h : l'.take n = l.take n) (hab : a + b ≤ n) :
    (l'.drop a).take b = (l.drop a).take b := by
  have h1 := take_of_take_eq h hab
  have := congrArg (List.drop a) h1
  rwa [List.drop_take, List.drop_take, Nat.add_sub_cancel_left] at this

theorem length_ge_of_take_eq {l l' : List UInt8} {n : Nat} (h : l'.take n = l.take n) (hn : n ≤ l.length) : n ≤ l'.length := by
  have := congrArg List.length h
  rw [List.length_take, List.length_take] at this
  omega

theorem indexFinish_local (blocks records : HashInfo) (all all' : List UInt8) (used : Nat) (ic : Nat)
    (h : indexFinish blocks records all used (all.drop used) = ⟨.streamEnd, ic⟩)
    (hic : ic ≤ all.length) (hall : all'.take ic = all.take ic) :
    indexFinish blocks records all' used (all'.drop used) = ⟨.streamEnd, ic⟩ := by
  obtain ⟨heq, hicv, _⟩ := indexFinish_streamEnd blocks records all used _ ic rfl h
  have hic' := length_ge_of_take_eq hall hic
  -- redo the computation on all'
  unfold indexFinish at h ⊢
  have hne : (all.drop used).isEmpty = false := by
    cases hd : all.drop used with
    | nil => rw [hd] at h; simp at h
    | cons _ _ => rfl
  have hne' : (all'.drop used).isEmpty = false := by
    cases hd : all'.drop used with
    | nil => have := congrArg List.length hd; rw [List.length_drop] at this; simp at this; unfold indexPad at hicv; omega
    | cons _ _ => rfl
  rw [hne] at h
  rw [hne']
  simp only [Bool.false_eq_true, if_false] at h ⊢
  generalize hp : padCheck ((4 - indexSizeUnpadded (hCount records) (hIndexListSize records) % 4) % 4) (all.drop used) = p at h
  obtain ⟨pr, pn, prest⟩ := p
  simp only [] at h
  split at h
  · obtain ⟨hn, hl⟩ := padCheck_streamEnd _ _ _ _ hp
    have hpn : pn = indexPad records := hn
    have hp' := padCheck_local _ _ (all'.drop used) _ _ hp (drop_take_of_take_eq hall (by omega))
    rw [hp']
    simp only []
    -- the CRC bytes
    have hdd : (all.drop used).drop pn = all.drop (used + pn) := by rw [List.drop_drop]
    have hdd' : (all'.drop used).drop pn = all'.drop (used + pn) := by rw [List.drop_drop]
    have hprest : prest = all.drop (used + pn) := by
      rw [← hdd, hl, hn, List.drop_left']; simp
    rw [hdd']
    rw [hprest] at h
    have hne2 : (all'.drop (used + pn)).isEmpty = false := by
      cases hd : all'.drop (used + pn) with
      | nil => have := congrArg List.length hd; rw [List.length_drop] at this; simp at this; omega
      | cons _ _ => rfl
    split at h
    · simp at h
    · rw [hne2]
      simp only [Bool.false_eq_true, if_false]
      split at h
      · simp at h
      · rename_i hs
        rw [if_neg hs]
        split at h
        · simp at h
        · rename_i hb
          rw [if_neg hb]
          simp only [IRes.mk.injEq] at h ⊢
          obtain ⟨h1, h2⟩ := h
          have hm : matchBytes (le32 (crc32 (List.take (used + pn) all))) (all.drop (used + pn))
              = (.streamEnd, (matchBytes (le32 (crc32 (List.take (used + pn) all))) (all.drop (used + pn))).2) := by
            rw [← h1]
          have hm4 := (matchBytes_streamEnd _ _ _ hm).1
          rw [le32_length] at hm4
          have hloc := matchBytes_local _ _ (all'.drop (used + pn)) _ hm
            (by rw [hm4]; exact drop_take_of_take_eq hall (by omega))
          rw [take_of_take_eq hall (by omega : used + pn ≤ ic), hloc]
          exact ⟨rfl, h2⟩
  · simp only [IRes.mk.injEq] at h
    rename_i hne3
    exact absurd h.1 (by simpa using hne3)


theorem isEmpty_drop_false {l : List UInt8} {a : Nat} (h : a < l.length) : (l.drop a).isEmpty = false := by
  cases hd : l.drop a with
  | nil => have := congrArg List.length hd; rw [List.length_drop] at this; simp at this; omega
  | cons _ _ => rfl

theorem indexRecords_local (blocks : HashInfo) (all all' : List UInt8) :
    ∀ (remaining : Nat) (records : HashInfo) (used ic : Nat),
      indexRecords blocks all remaining records used (all.drop used) = ⟨.streamEnd, ic⟩ →
      ic ≤ all.length → all'.take ic = all.take ic →
      indexRecords blocks all' remaining records used (all'.drop used) = ⟨.streamEnd, ic⟩ := by
  intro remaining
  induction remaining with
  | zero =>
    intro records used ic h hic hall
    simp only [indexRecords] at h ⊢
    exact indexFinish_local blocks records all all' used ic h hic hall
  | succ remaining ih =>
    intro records used ic h hic hall
    have hic' := length_ge_of_take_eq hall hic
    obtain ⟨more, _, _, hicv, _, _⟩ := indexRecords_streamEnd blocks all (remaining + 1) records used _ ic rfl h
    simp only [indexRecords] at h ⊢
    by_cases he : (all.drop used).isEmpty = true
    · rw [if_pos he] at h; simp at h
    rw [if_neg he] at h
    rw [isEmpty_drop_false (by omega : used < all'.length)]
    simp only [Bool.false_eq_true, if_false]
    cases hv1 : indexVli (all.drop used) with
    | error e =>
      obtain ⟨r, n⟩ := e
      rw [hv1] at h
      simp only [IRes.mk.injEq] at h
      exact absurd h.1 (indexVli_error_ne _ _ _ hv1)
    | ok p =>
      obtain ⟨u, n1⟩ := p
      rw [hv1] at h
      simp only [] at h
      by_cases hr : u < UNPADDED_SIZE_MIN ∨ u > UNPADDED_SIZE_MAX
      · rw [if_pos hr] at h; simp at h
      rw [if_neg hr] at h
      by_cases he2 : (List.drop n1 (all.drop used)).isEmpty = true
      · rw [if_pos he2] at h; simp at h
      rw [if_neg he2] at h
      cases hv2 : indexVli (List.drop n1 (all.drop used)) with
      | error e =>
        obtain ⟨r, n⟩ := e
        rw [hv2] at h
        simp only [IRes.mk.injEq] at h
        exact absurd h.1 (indexVli_error_ne _ _ _ hv2)
      | ok p =>
        obtain ⟨c, n2⟩ := p
        rw [hv2] at h
        simp only [] at h
        by_cases hs : hBlocksSize blocks < hBlocksSize (records ++ [⟨u, c⟩]) ∨ hUncompressedSize blocks < hUncompressedSize (records ++ [⟨u, c⟩])
            ∨ hIndexListSize blocks < hIndexListSize (records ++ [⟨u, c⟩])
        · rw [if_pos hs] at h; simp at h
        rw [if_neg hs] at h
        rw [List.drop_drop, List.drop_drop, ← Nat.add_assoc] at h
        obtain ⟨_, _, _, hicv2, _, _⟩ := indexRecords_streamEnd blocks all remaining _ (used + n1 + n2) _ ic rfl h
        obtain ⟨_, _, le1, _⟩ := indexVli_ok _ _ _ hv1
        obtain ⟨_, _, le2, _⟩ := indexVli_ok _ _ _ hv2
        rw [List.length_drop] at le1
        rw [List.length_drop, List.length_drop] at le2
        -- the same two integers are read from all'
        have hv1' := indexVli_local _ (all'.drop used) _ _ hv1 (drop_take_of_take_eq hall (by omega))
        rw [hv1']
        simp only []
        rw [if_neg hr]
        rw [List.drop_drop] at hv2 ⊢
        rw [isEmpty_drop_false (by omega : used + n1 < all'.length)]
        simp only [Bool.false_eq_true, if_false]
        have hv2' := indexVli_local _ (all'.drop (used + n1)) _ _ hv2 (drop_take_of_take_eq hall (by omega))
        rw [hv2']
        simp only []
        rw [if_neg hs, List.drop_drop]
        exact ih _ _ ic h hic hall


/-- The Index decoder's LZMA_STREAM_END depends only on the bytes it consumed. -/
theorem indexHashDecode_local (blocks : HashInfo) (inp inp' : List UInt8) (ic : Nat)
    (h : indexHashDecode blocks inp = ⟨.streamEnd, ic⟩) (hall : inp'.take ic = inp.take ic) :
    indexHashDecode blocks inp' = ⟨.streamEnd, ic⟩ := by
  obtain ⟨_, _, hic⟩ := indexHashDecode_streamEnd blocks inp ic h
  have hic' := length_ge_of_take_eq hall hic
  unfold indexHashDecode at h
  cases inp with
  | nil => simp at h
  | cons ind r0 =>
    simp only [] at h
    by_cases hind : ind.toNat ≠ INDEX_INDICATOR
    · rw [if_pos hind] at h; simp at h
    rw [if_neg hind] at h
    by_cases he : r0.isEmpty = true
    · rw [if_pos he] at h; simp at h
    rw [if_neg he] at h
    cases hv : indexVli r0 with
    | error e =>
      obtain ⟨r, n⟩ := e
      rw [hv] at h
      simp only [IRes.mk.injEq] at h
      exact absurd h.1 (indexVli_error_ne _ _ _ hv)
    | ok p =>
      obtain ⟨count, n⟩ := p
      rw [hv] at h
      simp only [] at h
      by_cases hc : count ≠ hCount blocks
      · rw [if_pos hc] at h; simp at h
      rw [if_neg hc] at h
      have hd : List.drop n r0 = List.drop (1 + n) (ind :: r0) := by rw [Nat.add_comm]; rfl
      rw [hd] at h
      obtain ⟨_, _, _, hicv, _, _⟩ := indexRecords_streamEnd blocks (ind :: r0) count [] (1 + n) _ ic rfl h
      obtain ⟨_, _, len, _⟩ := indexVli_ok _ _ _ hv
      cases inp' with
      | nil => simp at hic'; omega
      | cons ind' r0' =>
        have hh : ind' = ind := by
          have := take_of_take_eq hall (by omega : 1 ≤ ic)
          simpa using this
        subst hh
        unfold indexHashDecode
        simp only []
        rw [if_neg hind]
        have hr0 : r0'.take n = r0.take n := by
          have := drop_take_of_take_eq (a := 1) (b := n) hall (by omega)
          simpa using this
        simp only [List.length_cons] at hic'
        have hne : r0'.isEmpty = false := by
          cases r0' with
          | nil => simp at hic'; omega
          | cons _ _ => rfl
        rw [hne]
        simp only [Bool.false_eq_true, if_false]
        rw [indexVli_local _ _ _ _ hv hr0]
        simp only []
        rw [if_neg hc]
        have hd' : List.drop n r0' = List.drop (1 + n) (ind' :: r0') := by rw [Nat.add_comm]; rfl
        rw [hd']
        exact indexRecords_local blocks _ _ count [] (1 + n) ic h hic hall


/-! ## locality of the Block decoder -/

theorem blockDecode_local (E : Env) (hloc : PayloadLocal E) (check : Nat) (ign : Bool) (hs : Nat) (h : BlockHeader)
    (inp inp' : List UInt8) (cap : Nat) (b : BRes)
    (hdef : blockDecode E check ign hs h inp cap = b) (hb : b.ret = .streamEnd)
    (hwf : b.compressed ≤ (inp.take (min inp.length (compressedLimit hs check h.compressedSize))).length)
    (hall : inp'.take b.consumed = inp.take b.consumed) :
    blockDecode E check ign hs h inp' cap = b := by
  have F := blockDecode_streamEnd E check ign hs h inp cap b hdef hb
  have hcons := F.consumed_eq
  have hcl : b.consumed ≤ inp.length := by
    have hbytes := congrArg List.length F.bytes
    have hlen := F.check_len
    rw [List.length_take] at hwf
    simp only [List.length_append, List.length_replicate, List.length_drop, hlen] at hbytes
    omega
  have hcl' := length_ge_of_take_eq hall hcl
  -- the payload decoder sees the same consumed prefix
  have hpay : payloadCall E check hs h inp' cap = payloadCall E check hs h inp cap := by
    unfold payloadCall
    apply hloc
    · exact F.payload_end
    · have := F.compressed_eq; unfold payloadCall at this; rw [← this]; exact hwf
    · have hce := F.compressed_eq; unfold payloadCall at hce
      rw [← hce, List.take_take, List.take_take]
      rw [List.length_take] at hwf
      rw [Nat.min_eq_left (by omega), Nat.min_eq_left (by omega)]
      exact (take_of_take_eq hall (by omega)).symm
  unfold blockDecode at hdef ⊢
  simp only [] at hdef ⊢
  have hp1 : E.payload h.filters (List.take (min inp'.length (compressedLimit hs check h.compressedSize)) inp')
      (min cap (uncompressedLimit h.uncompressedSize))
      = E.payload h.filters (List.take (min inp.length (compressedLimit hs check h.compressedSize)) inp)
      (min cap (uncompressedLimit h.uncompressedSize)) := hpay
  rw [hp1]
  have hce := F.compressed_eq
  unfold payloadCall at hce
  generalize E.payload h.filters (List.take (min inp.length (compressedLimit hs check h.compressedSize)) inp)
      (min cap (uncompressedLimit h.uncompressedSize)) = r at hdef hce ⊢
  split at hdef
  · split at hdef <;> (subst hdef; simp at hb)
  · rename_i hret
    split at hdef
    · subst hdef; simp at hb
    · rename_i hsz
      rw [if_neg hsz]
      generalize hp : padCheck (blockPadLen r.consumed) (List.drop r.consumed inp) = p at hdef
      obtain ⟨pr, pn, prest⟩ := p
      simp only [] at hdef
      split at hdef
      · obtain ⟨hn, hl⟩ := padCheck_streamEnd _ _ _ _ hp
        subst hn
        have hprest : prest = inp.drop (r.consumed + blockPadLen r.consumed) := by
          rw [← List.drop_drop, hl, List.drop_left']; simp
        have hp' := padCheck_local _ _ (inp'.drop r.consumed) _ _ hp
          (drop_take_of_take_eq hall (by rw [hcons, hce]; omega))
        rw [hp']
        simp only []
        rw [List.drop_drop]
        split at hdef
        · rename_i hc0
          rw [if_pos hc0]
          exact hdef
        · rename_i hc0
          rw [if_neg hc0]
          rw [hprest] at hdef
          have hcs : b.consumed = r.consumed + blockPadLen r.consumed + checkSize check := by
            rw [hcons, hce]; simp [hc0]
          split at hdef
          · subst hdef; simp at hb
          · rename_i hlen
            rw [if_neg (by rw [List.length_drop] at hlen ⊢; omega)]
            have htk : (inp'.drop (r.consumed + blockPadLen r.consumed)).take (checkSize check)
                = (inp.drop (r.consumed + blockPadLen r.consumed)).take (checkSize check) :=
              drop_take_of_take_eq hall (by omega)
            rw [htk]
            exact hdef
      · subst hdef
        rename_i hne
        exact absurd hb (by simpa using hne)
  · subst hdef
    rename_i h1 h2
    exact absurd hb h2


/-! ## locality of a whole Stream -/

theorem indexAndFooter_local (hdr : StreamFlags) (blocks : HashInfo) (inp inp' : List UInt8) (s : SRes)
    (hdef : indexAndFooter hdr blocks inp = s) (hs : s.ret = .streamEnd)
    (hall : inp'.take s.consumed = inp.take s.consumed) : indexAndFooter hdr blocks inp' = s := by
  have F := indexAndFooter_streamEnd hdr blocks inp s hdef hs
  have hcl := F.consumed_le
  have hcl' := length_ge_of_take_eq hall hcl
  have hce := F.consumed_eq
  unfold indexAndFooter at hdef ⊢
  simp only [] at hdef ⊢
  generalize hi : indexHashDecode blocks inp = i at hdef
  obtain ⟨iret, ic⟩ := i
  simp only [] at hdef
  by_cases hir : iret ≠ .streamEnd
  · rw [if_pos hir] at hdef; subst hdef; exact absurd hs hir
  rw [if_neg hir] at hdef
  have hir' : iret = .streamEnd := Decidable.of_not_not hir
  subst hir'
  obtain ⟨_, hic, _⟩ := indexHashDecode_streamEnd blocks inp ic hi
  have hi' := indexHashDecode_local blocks inp inp' ic hi (take_of_take_eq hall (by omega))
  rw [hi']
  simp only []
  rw [if_neg hir]
  by_cases hlen : (List.drop ic inp).length < STREAM_HEADER_SIZE
  · rw [if_pos hlen] at hdef; subst hdef; simp at hs
  rw [if_neg hlen] at hdef
  rw [if_neg (by rw [List.length_drop]; omega)]
  have htk : (inp'.drop ic).take STREAM_HEADER_SIZE = (inp.drop ic).take STREAM_HEADER_SIZE :=
    drop_take_of_take_eq hall (by omega)
  rw [htk]
  -- everything after the footer bytes is a function of values already shown equal, except `consumed := inp.length`
  -- in the truncated branch, which is not taken
  exact hdef

theorem blocksLoop_local (E : Env) (hloc : PayloadLocal E)
    (hbd : ∀ fs x cap, (E.payload fs x cap).consumed ≤ x.length) (fl : Flags) (hdr : StreamFlags) :
    ∀ (fuel : Nat) (blocks : HashInfo) (inp : List UInt8) (cap : Nat) (r : SRes),
      blocksLoop E fl hdr fuel blocks inp cap = r → r.ret = .streamEnd →
      ∀ (fuel' : Nat) (inp' : List UInt8), r.consumed < fuel' → inp'.take r.consumed = inp.take r.consumed →
        blocksLoop E fl hdr fuel' blocks inp' cap = r := by
  intro fuel
  induction fuel with
  | zero =>
    intro blocks inp cap r hdef hr
    simp only [blocksLoop] at hdef; subst hdef; simp at hr
  | succ fuel ih =>
    intro blocks inp cap r hdef hr fuel' inp' hf hall
    cases fuel' with
    | zero => omega
    | succ fuel' =>
    simp only [blocksLoop] at hdef ⊢
    cases inp with
    | nil => simp only [] at hdef; subst hdef; simp at hr
    | cons b0 tl =>
      simp only [] at hdef
      by_cases h0 : b0.toNat = INDEX_INDICATOR
      · rw [if_pos h0] at hdef
        have F := indexAndFooter_streamEnd hdr blocks (b0 :: tl) r hdef hr
        have hpos : 1 ≤ r.consumed := by rw [F.consumed_eq]; unfold STREAM_HEADER_SIZE; omega
        cases inp' with
        | nil => have := length_ge_of_take_eq hall F.consumed_le; simp at this; omega
        | cons b0' tl' =>
          have hb : b0' = b0 := by simpa using take_of_take_eq hall hpos
          subst hb
          simp only []
          rw [if_pos h0]
          exact indexAndFooter_local hdr blocks _ _ r hdef hr hall
      rw [if_neg h0] at hdef
      by_cases hlen : (b0 :: tl).length < (b0.toNat + 1) * 4
      · rw [if_pos hlen] at hdef; subst hdef; simp at hr
      rw [if_neg hlen] at hdef
      cases hh : blockHeaderDecodeWith ((b0.toNat + 1) * 4) hdr.check (List.take ((b0.toNat + 1) * 4) (b0 :: tl)) with
      | error e =>
        rw [hh] at hdef; simp only [] at hdef; subst hdef
        exact absurd hr (blockHeaderDecodeWith_error_ne _ _ _ _ hh)
      | ok h =>
        rw [hh] at hdef; simp only [] at hdef
        cases hv : validateChain (List.map (fun x => x.id) h.filters) with
        | error e => rw [hv] at hdef; simp only [] at hdef; subst hdef; simp at hr
        | ok n =>
          rw [hv] at hdef; simp only [] at hdef
          generalize hbdef : blockDecode E hdr.check fl.ignoreCheck ((b0.toNat + 1) * 4) h
              (List.drop ((b0.toNat + 1) * 4) (b0 :: tl)) cap = b at hdef
          by_cases hbr : b.ret ≠ .streamEnd
          · rw [if_pos hbr] at hdef; subst hdef; exact absurd hr hbr
          rw [if_neg hbr] at hdef
          have hbr' : b.ret = .streamEnd := Decidable.of_not_not hbr
          cases ha : indexHashAppend blocks (blockUnpaddedSize 1 ((b0.toNat + 1) * 4) hdr.check (some b.compressed)) b.out.length with
          | error e =>
            rw [ha] at hdef; simp only [] at hdef; subst hdef
            exact absurd hr (indexHashAppend_error_ne _ _ _ _ ha)
          | ok blocks' =>
            rw [ha] at hdef; simp only [] at hdef
            generalize hrec : blocksLoop E fl hdr fuel blocks' _ _ = r' at hdef
            subst hdef
            simp only [] at hr hf hall
            -- the prefix that was consumed
            have hhs : 4 ≤ (b0.toNat + 1) * 4 := by omega
            cases inp' with
            | nil =>
              have := congrArg List.length hall
              simp only [List.take_nil, List.length_nil, List.length_take] at this
              simp only [List.length_cons] at hlen this
              omega
            | cons b0' tl' =>
              have hb : b0' = b0 := by simpa using take_of_take_eq hall (by omega : 1 ≤ (b0.toNat + 1) * 4 + b.consumed + r'.consumed)
              subst hb
              simp only []
              rw [if_neg h0]
              have hlen' : ¬ (b0' :: tl').length < (b0'.toNat + 1) * 4 := by
                have := congrArg List.length (take_of_take_eq hall (by omega : (b0'.toNat + 1) * 4 ≤ (b0'.toNat + 1) * 4 + b.consumed + r'.consumed))
                rw [List.length_take, List.length_take] at this
                omega
              rw [if_neg hlen']
              rw [take_of_take_eq hall (by omega : (b0'.toNat + 1) * 4 ≤ (b0'.toNat + 1) * 4 + b.consumed + r'.consumed), hh]
              simp only []
              rw [hv]
              simp only []
              have hbl := blockDecode_local E hloc hdr.check fl.ignoreCheck _ h _ (List.drop ((b0'.toNat + 1) * 4) (b0' :: tl')) cap b hbdef hbr'
                (by
                  have F := blockDecode_streamEnd _ _ _ _ _ _ _ _ hbdef hbr'
                  rw [F.compressed_eq]; unfold payloadCall; exact hbd _ _ _)
                (drop_take_of_take_eq hall (by omega))
              rw [hbl, if_neg hbr, ha]
              simp only []
              have hsub := ih blocks' _ _ r' hrec hr fuel' (List.drop ((b0'.toNat + 1) * 4 + b.consumed) (b0' :: tl')) (by omega)
                (drop_take_of_take_eq hall (by omega))
              rw [hsub]


/-- The payload decoder never claims more input than it was given. -/
def PayloadBounded (E : Env) : Prop := ∀ (fs : List Filter) (x : List UInt8) (cap : Nat), (E.payload fs x cap).consumed ≤ x.length

/-- **Locality of acceptance.**  If a Stream is accepted, every input that agrees with it on the bytes the decoder
    consumed gets the very same answer (same output, same length, same informational returns). -/
theorem streamOne_local (E : Env) (hloc : PayloadLocal E) (hbd : PayloadBounded E) (fl : Flags) (first : Bool)
    (inp inp' : List UInt8) (cap : Nat) (hs : (streamOne E fl first inp cap).ret = .streamEnd)
    (hall : inp'.take (streamOne E fl first inp cap).consumed = inp.take (streamOne E fl first inp cap).consumed) :
    streamOne E fl first inp' cap = streamOne E fl first inp cap := by
  obtain ⟨_, _, _, _, hl12, _, _, _, _, hle⟩ := streamOne_streamEnd E fl first inp cap _ rfl hs
  generalize hsdef : streamOne E fl first inp cap = s at hs hall hle
  have hle' := length_ge_of_take_eq hall hle
  unfold streamOne at hsdef ⊢
  by_cases hlen : inp.length < STREAM_HEADER_SIZE
  · rw [if_pos hlen] at hsdef; subst hsdef; simp at hs
  rw [if_neg hlen] at hsdef
  cases hh : streamHeaderDecode (List.take STREAM_HEADER_SIZE inp) with
  | error e =>
    rw [hh] at hsdef; simp only [] at hsdef; subst hsdef
    simp only [] at hs
    split at hs
    · simp at hs
    · exact absurd hs (streamHeaderDecode_error_ne _ _ hh)
  | ok hdr =>
    rw [hh] at hsdef; simp only [] at hsdef
    generalize hb : blocksLoop E fl hdr (inp.length + 1) [] (List.drop STREAM_HEADER_SIZE inp) cap = r at hsdef
    subst hsdef
    simp only [] at hs hall hle hle'
    have h12 : STREAM_HEADER_SIZE ≤ STREAM_HEADER_SIZE + r.consumed := by omega
    rw [if_neg (by omega), take_of_take_eq hall h12, hh]
    simp only []
    have hloc' := blocksLoop_local E hloc hbd fl hdr _ _ _ _ r hb hs (inp'.length + 1) (List.drop STREAM_HEADER_SIZE inp')
      (by unfold STREAM_HEADER_SIZE at hle'; omega)
      (drop_take_of_take_eq hall (by omega))
    rw [hloc']

end XzVerif.XzDecode
