/-
  The data invariant of the threaded-decoder model and its preservation by every transition that does not go through
  read_output_and_wait (that one is in MtDecRow.lean).
-/
import XzVerif.Lemmas.MtDecBasic

namespace XzVerif.MtDec

/-- Item number of the head of the queue (= `cur` when the queue is empty). -/
def hd (s : State) : Nat := s.cur - s.queue.length

/-- Output of the item that is currently being delivered. -/
def partialOut (s : State) : List UInt8 :=
  match s.queue with
  | h :: _ => (blk s h.blk).data.take s.readPos
  | [] => (blk s s.cur).data.take s.directPos

def idlePc : WPc → Prop
  | .top | .wait | .cleanup | .exited => True
  | _ => False

/-- Per-worker invariant. -/
structure WInv (s : State) (w : Worker) : Prop where
  outLe : w.outPos ≤ dataLen s w.blk
  fillLe : w.inFilled ≤ w.inSize
  has : w.hasOut = true → w.inSize = (blk s w.blk).inSize ∧ (∃ o ∈ s.queue, o.blk = w.blk) ∧
          ∀ o ∈ s.queue, o.blk = w.blk → o.finished = false ∧ o.pos ≤ w.outPos
  pcInv : match w.pc with
    | .decode lim _ => w.hasOut = true ∧ lim ≤ w.inFilled
    | .publish => w.hasOut = true
    | .fin1 r => w.hasOut = true ∧ w.outPos = dataLen s w.blk ∧ r = (blk s w.blk).ret ∧ (r = END → w.inFilled = w.inSize)
    | .fin2 r => w.hasOut = true ∧ w.outPos = dataLen s w.blk ∧ r = (blk s w.blk).ret ∧ (r = END → w.inFilled = w.inSize) ∧ w.st ≠ .run
    | .fin3 r => w.hasOut = true ∧ w.outPos = dataLen s w.blk ∧ r = (blk s w.blk).ret ∧ (r = END → w.inFilled = w.inSize) ∧ w.st ≠ .run
    | _ => True
  run : w.st = .run → w.hasOut = true

/-- The data invariant: queue order = Block order; everything before the head is delivered and was good; a finished
    outbuf is complete and carries its Block's verdict; every worker that owns an outbuf owns an unfinished one in the
    queue, and no two workers own the same; free-list members are idle, own nothing and have not failed. -/
structure DataInv (s : State) : Prop where
  wf : ∀ b ∈ s.blocks, b.WF
  curLe : s.cur ≤ s.blocks.length
  lenLe : s.queue.length ≤ s.cur
  consec : Consec (hd s) s.queue
  good : ∀ j, j < hd s → (blk s j).ret = END
  deliv : s.delivered = outOf s.blocks (hd s) ++ partialOut s
  posLe : ∀ o ∈ s.queue, o.pos ≤ dataLen s o.blk
  readLe : match s.queue with | h :: _ => s.readPos ≤ h.pos | [] => s.readPos = 0
  fin : ∀ o ∈ s.queue, o.finished = true → o.pos = dataLen s o.blk ∧ o.finishRet = (blk s o.blk).ret
  wk : ∀ i, i < s.workers.length → WInv s (getW s i)
  distinct : ∀ i j, i < s.workers.length → j < s.workers.length → i ≠ j →
      (getW s i).hasOut = true → (getW s j).hasOut = true → (getW s i).blk ≠ (getW s j).blk
  free : ∀ i ∈ s.threadsFree, i < s.workers.length ∧ (getW s i).hasOut = false ∧ idlePc (getW s i).pc ∧
      (getW s i).failed = false ∧ (getW s i).st ≠ .run
  freeNodup : s.threadsFree.Nodup
  dirLe : s.directPos ≤ dataLen s s.cur
  dirQ : s.directPos ≠ 0 → s.queue = []

theorem blk_wf {s : State} (h : DataInv s) (j : Nat) : (blk s j).WF := by
  unfold blk
  by_cases hj : j < s.blocks.length
  · have : s.blocks.getD j default = s.blocks[j] := by simp [List.getD, List.getElem?_eq_getElem hj]
    rw [this]; exact h.wf _ (List.getElem_mem hj)
  · have : s.blocks.getD j default = default := by simp [List.getD, List.getElem?_eq_none (by omega : s.blocks.length ≤ j)]
    rw [this]
    refine ⟨by decide, by decide, Nat.le_refl _, fun _ => rfl, ?_, fun _ => rfl, ?_⟩
    · intro hk; cases hk
    · intro hk; cases hk

/-- The main theorem's data part: in a state satisfying the data invariant the delivered bytes are a prefix of the
    single-threaded output. -/
theorem DataInv.prefix {s : State} (h : DataInv s) : s.delivered <+: stOutput s.blocks := by
  rw [h.deliv]
  have hk : hd s ≤ s.blocks.length := by unfold hd; have := h.curLe; omega
  unfold partialOut
  split
  · rename_i hh t hq
    have hc := h.consec
    rw [hq] at hc
    simp only [Consec] at hc
    rw [hc.1]
    exact prefix_of_good s.blocks (hd s) s.readPos hk h.good
  · rename_i hq
    have : hd s = s.cur := by unfold hd; simp [hq]
    rw [this] at hk ⊢
    exact prefix_of_good s.blocks s.cur s.directPos hk (by rw [← this]; exact h.good)

theorem DataInv.init (cfg : Cfg) (blocks : List Block) (hwf : ∀ b ∈ blocks, b.WF) : DataInv (init cfg blocks) := by
  refine { wf := hwf, curLe := by simp [MtDec.init], lenLe := by simp [MtDec.init], consec := by simp [MtDec.init, Consec],
           good := by intro j hj; simp [hd, MtDec.init] at hj, deliv := by simp [MtDec.init, State.delivered, hd, partialOut],
           posLe := by simp [MtDec.init], readLe := by simp [MtDec.init], fin := by simp [MtDec.init],
           wk := by simp [MtDec.init], distinct := by simp [MtDec.init], free := by simp [MtDec.init],
           freeNodup := by simp [MtDec.init], dirLe := by simp [MtDec.init], dirQ := by simp [MtDec.init] }

-- ---------------------------------------------------------------------------------------------
-- frame lemmas
-- ---------------------------------------------------------------------------------------------

/-- WInv only looks at the Blocks and the queue. -/
theorem WInv.congr {s s' : State} {w : Worker} (hb : s'.blocks = s.blocks) (hq : s'.queue = s.queue) (h : WInv s w) :
    WInv s' w := by
  have e1 : ∀ j, blk s' j = blk s j := fun j => by simp [blk, hb]
  have e2 : ∀ j, dataLen s' j = dataLen s j := fun j => by simp [dataLen, e1]
  refine ⟨by rw [e2]; exact h.outLe, h.fillLe, ?_, ?_, h.run⟩
  · intro hh; rw [e1, hq]; exact h.has hh
  · have := h.pcInv
    revert this
    cases w.pc <;> simp [e1, e2]

/-- DataInv only looks at these fields. -/
theorem DataInv.congr {s s' : State} (h : DataInv s) (hb : s'.blocks = s.blocks) (hc : s'.cur = s.cur)
    (hq : s'.queue = s.queue) (ho : s'.outRev = s.outRev) (hr : s'.readPos = s.readPos) (hp : s'.directPos = s.directPos)
    (hw : s'.workers = s.workers) (hf : s'.threadsFree = s.threadsFree) : DataInv s' := by
  have e1 : ∀ j, blk s' j = blk s j := fun j => by simp [blk, hb]
  have e2 : ∀ j, dataLen s' j = dataLen s j := fun j => by simp [dataLen, e1]
  have eh : hd s' = hd s := by simp [hd, hc, hq]
  have ep : partialOut s' = partialOut s := by simp only [partialOut, hq, hr, hp, hc, e1]
  have ed : s'.delivered = s.delivered := by simp [State.delivered, ho]
  have eg : ∀ j, getW s' j = getW s j := fun j => by simp [getW, hw]
  refine { wf := by rw [hb]; exact h.wf, curLe := by rw [hc, hb]; exact h.curLe, lenLe := by rw [hc, hq]; exact h.lenLe,
           consec := by rw [eh, hq]; exact h.consec, good := by intro j hj; rw [eh] at hj; rw [e1]; exact h.good j hj,
           deliv := by rw [ed, eh, ep, hb]; exact h.deliv,
           posLe := by intro o ho'; rw [hq] at ho'; rw [e2]; exact h.posLe o ho',
           readLe := by rw [hq, hr]; exact h.readLe,
           fin := by intro o ho' hfin; rw [hq] at ho'; rw [e2, e1]; exact h.fin o ho' hfin,
           wk := by intro i hi; rw [hw] at hi; rw [eg]; exact WInv.congr (s := s) (s' := s') hb hq (h.wk i hi),
           distinct := by intro i j hi hj; rw [hw] at hi hj; simp only [eg]; exact h.distinct i j hi hj,
           free := by intro i hi; rw [hf] at hi; rw [hw, eg]; exact h.free i hi,
           freeNodup := by rw [hf]; exact h.freeNodup,
           dirLe := by rw [hp, hc, e2]; exact h.dirLe, dirQ := by rw [hp, hq]; exact h.dirQ }

/-- A step that leaves Blocks, cursor, queue, output and read positions alone and only replaces worker `i`. -/
theorem DataInv.setW {s : State} (h : DataInv s) (i : Nat) (hi : i < s.workers.length) (w : Worker)
    (hw : WInv s w)
    (hout : w.hasOut = (getW s i).hasOut) (hblk : w.blk = (getW s i).blk)
    (hfree : i ∈ s.threadsFree → idlePc w.pc ∧ w.failed = false ∧ w.st ≠ .run) :
    DataInv (setW s i w) := by
  refine { wf := h.wf, curLe := h.curLe, lenLe := h.lenLe, consec := h.consec, good := h.good, deliv := h.deliv,
           posLe := h.posLe, readLe := h.readLe, fin := h.fin, wk := ?_, distinct := ?_, free := ?_,
           freeNodup := h.freeNodup, dirLe := h.dirLe, dirQ := h.dirQ }
  · intro j hj
    simp only [setW_workers_length] at hj
    rw [getW_setW s i j w hi]
    split
    · exact WInv.congr (s := s) (s' := MtDec.setW s i w) rfl rfl hw
    · exact WInv.congr (s := s) (s' := MtDec.setW s i w) rfl rfl (h.wk j hj)
  · intro a b ha hb hab
    simp only [setW_workers_length] at ha hb
    rw [getW_setW s i a w hi, getW_setW s i b w hi]
    by_cases ea : i = a <;> by_cases eb : i = b
    · omega
    · subst ea; simp only [if_true, eb, if_false, hout, hblk]; exact h.distinct i b ha hb hab
    · subst eb; simp only [if_true, ea, if_false, hout, hblk]; exact h.distinct a i ha hb hab
    · simp only [ea, eb, if_false]; exact h.distinct a b ha hb hab
  · intro j hj
    have := h.free j hj
    simp only [setW_workers_length, setW_threadsFree] at hj ⊢
    rw [getW_setW s i j w hi]
    by_cases e : i = j
    · subst e
      have hf := hfree hj
      simp only [if_true, hout]
      exact ⟨this.1, this.2.1, hf.1, hf.2.1, hf.2.2⟩
    · simpa [e] using this

end XzVerif.MtDec
