/-
  Memory accounting bound of the threaded-decoder model: coder->mem_in_use plus the memory of the queued outbufs, plus what
  the Block that has been let in but not yet queued costs, never exceeds memlimit_threading. Consequently the truncated
  subtraction in `canStartNow` (uint64_t arithmetic in the C code) never truncates.
-/
import XzVerif.Lemmas.MtDecBasic

namespace XzVerif.MtDec

/-- Memory the accepted-but-not-yet-queued Block will take. -/
def pendMem (s : State) : Nat :=
  match s.pc with
  | .rowDone _ _ true => (blk s s.cur).memThr + (blk s s.cur).memOut
  | .rowOk _ true => (blk s s.cur).memThr + (blk s s.cur).memOut
  | .init1 => (blk s s.cur).memThr + (blk s s.cur).memOut
  | .init2 => (blk s s.cur).memOut
  | .init3 => (blk s s.cur).memOut
  | _ => 0

def MemInv (s : State) : Prop := s.memInUse + outqMem s + pendMem s ≤ s.cfg.memLimit

/-- memory of a queue, as a function of the Block list -/
def qMem (bs : List Block) (q : List Outbuf) : Nat := (q.map fun o => (bs.getD o.blk default).memOut).sum

theorem outqMem_eq (s : State) : outqMem s = qMem s.blocks s.queue := rfl

theorem qMem_updOut (bs : List Block) (q : List Outbuf) (b : Nat) (f : Outbuf → Outbuf) (hf : ∀ o, (f o).blk = o.blk) :
    qMem bs (updOut q b f) = qMem bs q := by
  unfold qMem updOut
  rw [List.map_map]
  congr 1
  apply List.map_congr_left
  intro o _
  simp only [Function.comp]
  split <;> simp [hf]

theorem qMem_append (bs : List Block) (q : List Outbuf) (o : Outbuf) :
    qMem bs (q ++ [o]) = qMem bs q + (bs.getD o.blk default).memOut := by
  simp [qMem]

/-- What the steps inside read_output_and_wait do to the quantities of the bound. -/
structure MemCore (a b : State) : Prop where
  blocks : b.blocks = a.blocks
  cfg : b.cfg = a.cfg
  cur : b.cur = a.cur
  mem : b.memInUse = a.memInUse
  outq : outqMem b ≤ outqMem a

theorem MemCore.refl (a : State) : MemCore a a := ⟨rfl, rfl, rfl, rfl, Nat.le_refl _⟩

theorem MemCore.trans {a b c : State} (h1 : MemCore a b) (h2 : MemCore b c) : MemCore a c :=
  ⟨h2.blocks.trans h1.blocks, h2.cfg.trans h1.cfg, h2.cur.trans h1.cur, h2.mem.trans h1.mem, Nat.le_trans h2.outq h1.outq⟩

theorem enablePartialHead_mem (s : State) : MemCore s (enablePartialHead s) := by
  unfold enablePartialHead
  split
  · rename_i h t hq
    split
    · split
      · refine ⟨rfl, rfl, rfl, rfl, ?_⟩
        rw [outqMem_eq, outqMem_eq]
        show qMem s.blocks _ ≤ qMem s.blocks s.queue
        rw [hq]
        simp [qMem]
      · exact MemCore.refl s
    · exact MemCore.refl s
  · exact MemCore.refl s

theorem outqRead_mem (s : State) : MemCore s (outqRead s).1 := by
  unfold outqRead
  split
  · exact MemCore.refl s
  · rename_i h t hq
    dsimp only
    split
    · exact ⟨rfl, rfl, rfl, rfl, Nat.le_refl _⟩
    · refine ⟨rfl, rfl, rfl, rfl, ?_⟩
      rw [outqMem_eq, outqMem_eq]
      show qMem s.blocks t ≤ qMem s.blocks s.queue
      rw [hq]
      simp [qMem]

theorem readLoop_mem : ∀ (n : Nat) (s : State), MemCore s (readLoop n s).1
  | 0, s => MemCore.refl s
  | n + 1, s => by
    unfold readLoop
    have h1 := outqRead_mem s
    generalize outqRead s = p at h1 ⊢
    obtain ⟨s1, r⟩ := p
    dsimp only at h1 ⊢
    split
    · exact (h1.trans (enablePartialHead_mem s1)).trans (readLoop_mem n (enablePartialHead s1))
    · exact h1

theorem markFilled_mem (s : State) (c : Nat) : MemCore s (markFilled s c) := by
  unfold markFilled; split
  · exact ⟨rfl, rfl, rfl, rfl, Nat.le_refl _⟩
  · exact MemCore.refl s

theorem flagPend_mem (s : State) : MemCore s (flagPend s) := by
  unfold flagPend; split
  · exact ⟨rfl, rfl, rfl, rfl, Nat.le_refl _⟩
  · exact MemCore.refl s

/-- The bound for a state with no accepted Block pending, transported along `MemCore`. -/
theorem MemInv.core {a b : State} (h : a.memInUse + outqMem a ≤ a.cfg.memLimit) (c : MemCore a b) :
    b.memInUse + outqMem b ≤ b.cfg.memLimit := by
  rw [c.mem, c.cfg]; have := c.outq; omega

theorem rowLeaveOrWait_mem (s : State) (k : RowK) (w : Bool) (h : s.memInUse + outqMem s ≤ s.cfg.memLimit) :
    MemInv (rowLeaveOrWait s k w) := by
  unfold rowLeaveOrWait
  split
  · rename_i hc
    simp only [Bool.and_eq_true] at hc
    have hcs := hc.2
    unfold canStartNow at hcs
    simp only [Bool.and_eq_true, decide_eq_true_eq] at hcs
    have := hcs.1.1
    show s.memInUse + qMem s.blocks s.queue + ((blk s s.cur).memThr + (blk s s.cur).memOut) ≤ s.cfg.memLimit
    rw [outqMem_eq] at h this
    omega
  all_goals (repeat' split)
  all_goals (show s.memInUse + qMem s.blocks s.queue + 0 ≤ s.cfg.memLimit; rw [outqMem_eq] at h; omega)

theorem rowIterate_mem (s : State) (k : RowK) (w : Bool) (h : s.memInUse + outqMem s ≤ s.cfg.memLimit) :
    MemInv (rowIterate s k w) := by
  have r := readLoop_mem (s.queue.length + 1) s
  have hr := MemInv.core h r
  unfold rowIterate
  dsimp only
  split
  · show (readLoop (s.queue.length + 1) s).1.memInUse + qMem _ (readLoop (s.queue.length + 1) s).1.queue + 0 ≤ _
    rw [outqMem_eq] at hr; omega
  · have m := markFilled_mem (readLoop (s.queue.length + 1) s).1 s.outCap
    have hm := MemInv.core hr m
    split
    · show (markFilled _ _).memInUse + qMem _ (markFilled _ _).queue + 0 ≤ _
      rw [outqMem_eq] at hm; omega
    · exact rowLeaveOrWait_mem _ k w (MemInv.core hm (flagPend_mem _))

theorem MemInv.init (cfg : Cfg) (blocks : List Block) : MemInv (init cfg blocks) := by
  simp [MemInv, MtDec.init, outqMem, pendMem]

theorem MemInv.of_le {s s' : State} (h : MemInv s) (e1 : s'.pc = s.pc) (e2 : s'.blocks = s.blocks) (e3 : s'.cur = s.cur)
    (e4 : s'.cfg = s.cfg) (e5 : s'.memInUse ≤ s.memInUse) (e6 : qMem s'.blocks s'.queue ≤ qMem s.blocks s.queue) : MemInv s' := by
  have hp : pendMem s' = pendMem s := by unfold pendMem blk; rw [e1, e2, e3]
  unfold MemInv at h ⊢
  rw [outqMem_eq] at h ⊢
  rw [hp, e4]
  omega

theorem MemInv.step {s s' : State} {l : Label} (h : MemInv s) (hs : step s l = some s') : MemInv s' := by
  cases l <;> simp only [MtDec.step] at hs
  case rowIter c =>
    have key : ∀ k w, (s.pc = .row k w ∨ s.pc = .rowWait k w) → MemInv (rowIterate s k w) := by
      intro k w hp
      apply rowIterate_mem
      unfold MemInv pendMem at h
      rcases hp with hp | hp <;> rw [hp] at h <;> simpa using h
    split at hs
    · rename_i hp; cases hs; exact key _ _ (Or.inl hp)
    · rename_i hp; split at hs
      · cases hs; exact key _ _ (Or.inr hp)
      · cases hs
    · rename_i hp; cases hs; exact key _ _ (Or.inr hp)
    · cases hs
  case enablePartial =>
    split at hs
    · rename_i hp
      cases hs
      have c := enablePartialHead_mem s
      unfold MemInv pendMem at h ⊢
      simp only [hp] at h
      show (enablePartialHead s).memInUse + qMem (enablePartialHead s).blocks (enablePartialHead s).queue + 0 ≤ (enablePartialHead s).cfg.memLimit
      have := c.outq
      rw [outqMem_eq, outqMem_eq] at this
      rw [c.mem, c.cfg]
      rw [outqMem_eq] at h
      omega
    · cases hs
  case rowDone =>
    split at hs
    case h_2 => cases hs
    rename_i k r cs hp
    unfold MemInv pendMem at h
    rw [hp] at h
    repeat' split at hs
    all_goals (cases hs)
    all_goals (unfold MemInv pendMem)
    all_goals (cases cs <;> simp_all [outqMem, blk] <;> omega)
  case rowOk =>
    split at hs
    all_goals first | (cases hs; done) | skip
    all_goals (rename_i hp; unfold MemInv pendMem at h; rw [hp] at h)
    all_goals (repeat' split at hs)
    all_goals first | (cases hs; done) | skip
    all_goals (cases hs)
    all_goals (unfold MemInv pendMem)
    all_goals first
      | (simp_all [outqMem, blk]; done)
      | (simp_all [outqMem, blk]; omega)
      | (rename_i cs _ _ ; cases cs <;> simp_all [outqMem, blk] <;> omega)
      | (rename_i cs _ ; cases cs <;> simp_all [outqMem, blk] <;> omega)
      | (rename_i cs ; cases cs <;> simp_all [outqMem, blk] <;> omega)
  case wPublish i =>
    repeat' split at hs
    all_goals first | (cases hs; done) | skip
    all_goals (cases hs)
    all_goals (apply MemInv.of_le h)
    all_goals first
      | rfl
      | exact Nat.le_refl _
      | (simp only [signalMain, setW_blocks, setW_queue]
         rw [qMem_updOut]
         · exact Nat.le_refl _
         · intro o; rfl)
  case wFin3 i =>
    repeat' split at hs
    all_goals first | (cases hs; done) | skip
    all_goals (cases hs)
    all_goals (apply MemInv.of_le h)
    all_goals (simp only [signalMain])
    all_goals (repeat' split)
    all_goals first
      | rfl
      | exact Nat.le_refl _
      | exact Nat.sub_le _ _
      | (simp only [setW_blocks, setW_queue]
         rw [qMem_updOut]
         · exact Nat.le_refl _
         · intro o; rfl)
  all_goals (repeat' split at hs)
  all_goals first | (cases hs; done) | skip
  all_goals (cases hs)
  all_goals (unfold MemInv pendMem outqMem blk at h ⊢)
  all_goals first
    | (simp_all; done)
    | (simp_all; omega)

theorem MemInv.reachable {cfg : Cfg} {blocks : List Block} {s : State} (h : Reachable cfg blocks s) : MemInv s := by
  induction h with
  | init => exact MemInv.init cfg blocks
  | step l _ hs ih => exact ih.step hs

end XzVerif.MtDec
