/-
  Channel theorem for decision trees: if a tree, run against an operation list, consumes a prefix of it and returns `a`,
  then run against the range decoder that is in step with the range ENCODER of that operation list (`Sync`), it returns
  the same `a`, ends with the encoder's probabilities, and stays in step for the remaining operations.
  (Generic bridge from `rc_roundtrip`'s channel laws to any symbol grammar written as a `Prog`.)
-/
import XzVerif.Lemmas.RangeCoderAdaptive
import XzVerif.Model.LzmaSymDec

namespace XzVerif.LzmaSym
open XzVerif.RangeDec XzVerif.RangeEnc XzVerif.RangeCoder XzVerif.LzmaSymDec

theorem prog_sync {α : Type} (prog : Prog α) : ∀ (ops opsRest : List Op) (a : α) (ps : Probs) (e : Enc)
    (tail : List UInt8) (rc : Rc) (rest : List UInt8),
    prog.runOps ops = some (a, opsRest) → ProbsOk ps ops → Inv e → Sync e (resolve ps ops).1 tail rc rest →
    ∃ consumed ps' e' rc' rest', ops = consumed ++ opsRest ∧ encOps ps e consumed = (ps', e') ∧
      prog.runRc ps rc rest = some (a, ps', rc', rest') ∧ ProbsOk ps' opsRest ∧ Inv e' ∧
      Sync e' (resolve ps' opsRest).1 tail rc' rest' := by
  induction prog with
  | ret a0 =>
    intro ops opsRest a ps e tail rc rest h hok hI hs
    simp only [Prog.runOps, Option.some.injEq, Prod.mk.injEq] at h
    obtain ⟨rfl, rfl⟩ := h
    exact ⟨[], ps, e, rc, rest, rfl, rfl, rfl, hok, hI, hs⟩
  | bit ctx k ih =>
    intro ops opsRest a ps e tail rc rest h hok hI hs
    cases ops with
    | nil => simp [Prog.runOps] at h
    | cons op ops' =>
      cases op with
      | direct b => simp [Prog.runOps] at h
      | bit ctx' b =>
        simp only [Prog.runOps] at h
        by_cases hc : ctx = ctx'
        · subst hc
          simp only [if_true] at h
          have hctx : ctx < ps.size := hok.ctx_lt
          have hp : ProbInv (ps.getD ctx 0) := hok.1 ctx hctx
          have hok' := probsOk_set (probsOk_tail hok) ctx _ (probInv_update hp b)
          simp only [resolve] at hs
          obtain ⟨rc1, rest1, hd, hs1⟩ := sync_bit hI hp b (resolve_ok ops' _ hok') hs
          obtain ⟨consumed, ps', e', rc', rest', hcons, henc, hrun, hok2, hI2, hs2⟩ :=
            ih b ops' opsRest a _ (encBit e (ps.getD ctx 0) b) tail rc1 rest1 h hok' (encBit_spec hI hp b).1 hs1
          refine ⟨.bit ctx b :: consumed, ps', e', rc', rest', by rw [hcons]; rfl, ?_, ?_, hok2, hI2, hs2⟩
          · simp only [encOps, List.foldl_cons, encOp] at henc ⊢
            exact henc
          · simp only [Prog.runRc, hd]
            have : (b.toNat == 1) = b := by cases b <;> rfl
            rw [this]; exact hrun
        · simp [hc] at h
  | direct k ih =>
    intro ops opsRest a ps e tail rc rest h hok hI hs
    cases ops with
    | nil => simp [Prog.runOps] at h
    | cons op ops' =>
      cases op with
      | bit ctx' b => simp [Prog.runOps] at h
      | direct b =>
        simp only [Prog.runOps] at h
        have hok' := probsOk_tail hok
        simp only [resolve] at hs
        obtain ⟨rc1, rest1, rc2, hn, hd, hs1⟩ := sync_direct hI b (resolve_ok ops' _ hok') hs
        obtain ⟨consumed, ps', e', rc', rest', hcons, henc, hrun, hok2, hI2, hs2⟩ :=
          ih b ops' opsRest a ps (encDirect e b) tail rc2 rest1 h hok' (encDirect_spec hI b).1 hs1
        refine ⟨.direct b :: consumed, ps', e', rc', rest', by rw [hcons]; rfl, ?_, ?_, hok2, hI2, hs2⟩
        · simp only [encOps, List.foldl_cons, encOp] at henc ⊢
          exact henc
        · simp only [Prog.runRc, hn, hd]
          have : (b.toNat == 1) = b := by cases b <;> rfl
          rw [this]; exact hrun
  | fail =>
    intro ops opsRest a ps e tail rc rest h
    simp [Prog.runOps] at h

end XzVerif.LzmaSym
