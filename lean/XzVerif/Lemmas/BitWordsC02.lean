/-
  Fixed-width word facts for C02 proved by `bv_decide` (allowed only in Lemmas/BitWords*.lean, namespace XzVerif.BitWords).
  `smear32` is the bit smearing of `lzma_lzma2_props_encode` (lzma2_encoder.c) on a `uint32_t`:
      d |= d >> 2; d |= d >> 3; d |= d >> 4; d |= d >> 8; d |= d >> 16;
-/
import Std.Tactic.BVDecide

namespace XzVerif.BitWords

def smear32 (d : BitVec 32) : BitVec 32 :=
  let d := d ||| (d >>> 2)
  let d := d ||| (d >>> 3)
  let d := d ||| (d >>> 4)
  let d := d ||| (d >>> 8)
  d ||| (d >>> 16)

/-- Smearing never decreases the value. -/
theorem dictSmear_ge (x : BitVec 32) : x ≤ smear32 x := by
  unfold smear32
  bv_decide

/-- For `x ≥ 4095` the result is one of the 41 values 2^n − 1, 2^n + 2^(n−1) − 1 (n = 12 … 32) that have a
    dictionary-size code. -/
theorem dictSmear_form (x : BitVec 32) (h : 4095#32 ≤ x) :
    smear32 x = 4095#32 ∨
    smear32 x = 6143#32 ∨
    smear32 x = 8191#32 ∨
    smear32 x = 12287#32 ∨
    smear32 x = 16383#32 ∨
    smear32 x = 24575#32 ∨
    smear32 x = 32767#32 ∨
    smear32 x = 49151#32 ∨
    smear32 x = 65535#32 ∨
    smear32 x = 98303#32 ∨
    smear32 x = 131071#32 ∨
    smear32 x = 196607#32 ∨
    smear32 x = 262143#32 ∨
    smear32 x = 393215#32 ∨
    smear32 x = 524287#32 ∨
    smear32 x = 786431#32 ∨
    smear32 x = 1048575#32 ∨
    smear32 x = 1572863#32 ∨
    smear32 x = 2097151#32 ∨
    smear32 x = 3145727#32 ∨
    smear32 x = 4194303#32 ∨
    smear32 x = 6291455#32 ∨
    smear32 x = 8388607#32 ∨
    smear32 x = 12582911#32 ∨
    smear32 x = 16777215#32 ∨
    smear32 x = 25165823#32 ∨
    smear32 x = 33554431#32 ∨
    smear32 x = 50331647#32 ∨
    smear32 x = 67108863#32 ∨
    smear32 x = 100663295#32 ∨
    smear32 x = 134217727#32 ∨
    smear32 x = 201326591#32 ∨
    smear32 x = 268435455#32 ∨
    smear32 x = 402653183#32 ∨
    smear32 x = 536870911#32 ∨
    smear32 x = 805306367#32 ∨
    smear32 x = 1073741823#32 ∨
    smear32 x = 1610612735#32 ∨
    smear32 x = 2147483647#32 ∨
    smear32 x = 3221225471#32 ∨
    smear32 x = 4294967295#32 := by
  unfold smear32
  bv_decide

/-- The same fact as list membership. -/
def smearValues : List (BitVec 32) := [4095#32, 6143#32, 8191#32, 12287#32, 16383#32, 24575#32, 32767#32, 49151#32, 65535#32, 98303#32, 131071#32, 196607#32, 262143#32, 393215#32, 524287#32, 786431#32, 1048575#32, 1572863#32, 2097151#32, 3145727#32, 4194303#32, 6291455#32, 8388607#32, 12582911#32, 16777215#32, 25165823#32, 33554431#32, 50331647#32, 67108863#32, 100663295#32, 134217727#32, 201326591#32, 268435455#32, 402653183#32, 536870911#32, 805306367#32, 1073741823#32, 1610612735#32, 2147483647#32, 3221225471#32, 4294967295#32]

theorem dictSmear_mem (x : BitVec 32) (h : 4095#32 ≤ x) : smear32 x ∈ smearValues := by
  have := dictSmear_form x h
  simp only [smearValues, List.mem_cons, List.mem_nil_iff, or_false]
  exact this

end XzVerif.BitWords
