/-
  C12, LZMA2 decoder side: the executable decoder `Lzma2.lzma2Decode` on chunk sequences in which lc/lp/pb CHANGE at chunk
  boundaries (`ChunksP`, Lemmas/FlushChunksP.lean: what `lzma_filters_update` -> `lzma2_encoder_options_update` makes the
  encoder emit), with the end marker (LZMA_STREAM_END) and without it (LZMA_OK after everything was produced).

  The decoder's own flags are not the encoder's after a switch: the encoder has `need_properties = need_state_reset = true`
  while the decoder may still have `need_properties = false` and the OLD lc/lp/pb stored. `DV p C pd Cd` ("decoder view")
  relates the encoder's `(p, C)` to a pair `(pd, Cd)` for which the C01 boundary invariant `BSt pd … Cd s` holds: either the
  same pair, or the encoder is in the switched condition (the next LZMA chunk carries new properties and resets the state,
  so nothing of the decoder's LZMA state matters).  Uncompressed chunks in the switched condition are run with `(pd, Cd)`.
-/
import XzVerif.Lemmas.FlushTrunc
import XzVerif.Lemmas.FlushChunksP

namespace XzVerif.LzmaExec
open XzVerif.RangeDec XzVerif.RangeEnc XzVerif.RangeCoder XzVerif.LzDict XzVerif.Lzma XzVerif.LzmaEnc XzVerif.LzmaSymDec
open XzVerif.LzmaSym XzVerif.LzmaSpec XzVerif.Lzma2Enc XzVerif.Lzma2

/-! ### end marker or not -/

/-- what follows the chunks: the end marker (`em = true`) or nothing -/
def tlOf (em : Bool) : List UInt8 := if em then [0] else []
/-- the return value after the last chunk -/
def retOf (em : Bool) : Ret := if em then .streamEnd else .ok

theorem tlOf_true : tlOf true = [0] := rfl
theorem tlOf_false : tlOf false = [] := rfl
theorem retOf_true : retOf true = .streamEnd := rfl
theorem retOf_false : retOf false = .ok := rfl

/-! ### the control byte of an LZMA chunk with new properties, whatever the decoder's `need_properties` is -/

theorem ctl_newprops (np : Bool) (x : Nat) (hx : x < 32) :
    controlStep (0x80 + 2 * 32 + x) np false =
      { isLzma := true, newProps := true, stateResetNow := false, uncompHigh := x, dictReset := false,
        needProps' := false, needDictReset' := false } := by
  cases np <;> interval_cases x <;> rfl

/-- the decoder's view of the encoder configuration -/
structure DV (p : Props) (C : L2Cfg) (pd : Props) (Cd : L2Cfg) : Prop where
  off : Cd.off = C.off
  ndr : Cd.needDictReset = C.needDictReset
  same : (pd = p ∧ Cd = C) ∨ (C.needProps = true ∧ C.needStateReset = true)

theorem DV.refl (p : Props) (C : L2Cfg) : DV p C p C := ⟨rfl, rfl, Or.inl ⟨rfl, rfl⟩⟩

/-- THE SWITCH LEMMA: a boundary state that is fine for `(p, C)` is fine for `(p2, C.switched)` -/
theorem DV.switch {p pd : Props} {C Cd : L2Cfg} (h : DV p C pd Cd) (p2 : Props) : DV p2 C.switched pd Cd :=
  ⟨h.off, h.ndr, Or.inr ⟨rfl, rfl⟩⟩

/-- the control byte of an LZMA chunk that carries new properties and resets the state (no dictionary reset), from a
    boundary state of ANY decoder view -/
theorem ctlL_stepP (p : Props) (dictSize : Nat) (buf : ByteArray) (base : Nat) (C : L2Cfg) (pd : Props) (Cd : L2Cfg) (s : St)
    (syms : List Sym) (ops : List Op) (encPos' : Nat) (st' : SymSt) (usize : Nat) (rest : List UInt8)
    (hb : BSt pd dictSize buf base Cd s) (hoffeq : Cd.off = C.off) (hnp : C.needProps = true) (hsr : C.needStateReset = true)
    (hndr : C.needDictReset = false)
    (henc : encSyms p dictSize syms C.encPos C.st0 (win buf (base + C.off)) = some (ops, encPos', st', win buf (base + C.off + usize)))
    (hlen : symsLen syms = usize) (hu1 : 1 ≤ usize) (hu2 : usize ≤ LZMA2_UNCOMPRESSED_MAX)
    (hoff : base + C.off + usize ≤ buf.size)
    (hc2 : (encFlush (encOps (C.ps0 p) Enc.init ops).2).out.length ≤ LZMA2_CHUNK_MAX)
    (hin : In s (headerLzma C.needProps C.needStateReset C.needDictReset usize
        (encFlush (encOps (C.ps0 p) Enc.init ops).2).out.length p ++ (encFlush (encOps (C.ps0 p) Enc.init ops).2).out ++ rest))
    (f : Nat) :
    ∃ t, lzma2Loop (f + 1) s = lzma2Loop f t ∧ AfterCtlL p dictSize buf base t C syms ops encPos' st' usize rest ∧ t.dp = s.dp ∧
      t.hist = s.hist ∧ t.outBase = s.outBase ∧ t.inp = s.inp ∧ t.inPos = s.inPos + 1 := by
  simp only [LZMA2_UNCOMPRESSED_MAX] at hu2
  have hx : (usize - 1) / 65536 < 32 := by omega
  simp only [headerLzma, hnp, hndr, if_true, Bool.false_eq_true, if_false, List.cons_append, List.nil_append] at hin
  obtain ⟨hlt, hbyte, hd⟩ := curByte_of_drop hin
  rw [loop_control f s hlt hb.seq]
  have hcb : curByte s = 0x80 + 2 * 32 + (usize - 1) / 65536 := by
    rw [hbyte, ofNat_toNat_of_lt]
    omega
  rw [hcb, hb.ndr, ctl_newprops _ _ hx]
  simp only [Bool.false_eq_true, if_false, if_true, controlApply]
  refine ⟨_, rfl, ?_, rfl, rfl, rfl, rfl, rfl⟩
  refine ⟨rfl, rfl, (by rw [if_pos hnp]; rfl), rfl, rfl, (fun h => by rw [hnp] at h; cases h), ?_,
    (by rw [← hoffeq]; exact hb.win.congr rfl rfl), hb.nr, (by rw [← hoffeq]; exact hb.prod),
    henc, hlen, hu1, (by simp only [LZMA2_UNCOMPRESSED_MAX]; exact hu2), hoff, hc2, ?_⟩
  · intro _
    simp [L2Cfg.st0, L2Cfg.ps0, hsr]
  · simp only [hnp, if_true]
    exact hd

/-! ### composition over a chunk sequence with switches -/

theorem chunksP_off_le {dictSize : Nat} {buf : ByteArray} {base : Nat} {sw : Bool} {p p' : Props} {C CF : L2Cfg}
    {bytes : List UInt8} (h : ChunksP dictSize buf base sw p C bytes p' CF) : C.off ≤ CF.off := by
  induction h with
  | nil => exact Nat.le_refl _
  | chunk hc _ ih => exact Nat.le_trans (chunkOk_off_le hc) ih
  | switch _ _ ih => exact ih

/-- paused inside a chunk (dictionary full), with what follows -/
def PausedP (dictSize : Nat) (buf : ByteArray) (base : Nat) (p' : Props) (CF : L2Cfg) (em : Bool) (s : St) : Prop :=
  ∃ n sw p1 C' bytes', ChunksP dictSize buf base sw p1 C' bytes' p' CF ∧ PropsOk p1 ∧
    (LRdy p1 dictSize buf base s s n C' (bytes' ++ tlOf em) ∨
     ∃ pd Cd, DV p1 C' pd Cd ∧ URdy pd dictSize buf base s n Cd (bytes' ++ tlOf em))

/-- the outcome of `lzma2_decode` run on `sRun` (`s0` = the state the call started from) -/
def ResP (dictSize : Nat) (buf : ByteArray) (base : Nat) (p' : Props) (CF : L2Cfg) (em : Bool) (f : Nat) (s0 sRun : St) : Prop :=
  (∃ sF, lzma2Loop f sRun = (retOf em, sF) ∧ Win sF (win buf (base + CF.off)) dictSize ∧
    sF.hist.size = sF.outBase + CF.off ∧ In sF [] ∧ Keep2 s0 sF ∧ (em = false → ∃ pd Cd, BSt pd dictSize buf base Cd sF)) ∨
  (∃ s', lzma2Loop f sRun = (.ok, s') ∧ PausedP dictSize buf base p' CF em s' ∧ Keep2 s0 s' ∧ s'.dp.pos = s0.dp.limit)

theorem ResP.of_eq {dictSize : Nat} {buf : ByteArray} {base : Nat} {p' : Props} {CF : L2Cfg} {em : Bool} {f f' : Nat}
    {s0 s1 sRun sRun' : St} (h : ResP dictSize buf base p' CF em f' s1 sRun') (heq : lzma2Loop f sRun = lzma2Loop f' sRun')
    (hk : Keep2 s0 s1) : ResP dictSize buf base p' CF em f s0 sRun := by
  rcases h with ⟨sF, hr, hw, hpr, hi, hk2, hb⟩ | ⟨s', hr, hpa, hk2, hpos⟩
  · exact Or.inl ⟨sF, by rw [heq]; exact hr, hw, hpr, hi, hk.trans hk2, hb⟩
  · exact Or.inr ⟨s', by rw [heq]; exact hr, hpa, hk.trans hk2, by rw [hpos, hk.limit]⟩

theorem lrdy_thenP (p1 : Props) (hp1 : PropsOk p1) (dictSize : Nat) (hd : dictSize ≤ 4294967295) (buf : ByteArray) (base : Nat)
    (p' : Props) (CF : L2Cfg) (em : Bool) (t t' : St) (n : Nat) (C' : L2Cfg) (sw : Bool) (bytes' : List UInt8)
    (h : LRdy p1 dictSize buf base t t' n C' (bytes' ++ tlOf em)) (hch : ChunksP dictSize buf base sw p1 C' bytes' p' CF) (f : Nat)
    (k : ∀ sB pd Cd, BSt pd dictSize buf base Cd sB → DV p1 C' pd Cd → In sB (bytes' ++ tlOf em) →
      ResP dictSize buf base p' CF em f sB sB) :
    ResP dictSize buf base p' CF em (f + 1) t' t := by
  rcases lrdy_step p1 hp1 dictSize hd buf base t t' n C' _ h f with ⟨_, sB, hrun, hb, hin, hk2, _⟩ | ⟨_, s2, hrun, hl2, hpos, hk2⟩
  · exact (k sB p1 C' hb (DV.refl _ _) hin).of_eq hrun hk2
  · exact Or.inr ⟨s2, hrun, ⟨_, sw, p1, C', bytes', hch, hp1, Or.inl hl2⟩, hk2, hpos⟩

theorem urdy_thenP (p1 : Props) (hp1 : PropsOk p1) (dictSize : Nat) (buf : ByteArray) (base : Nat)
    (p' : Props) (CF : L2Cfg) (em : Bool) (t : St) (n : Nat) (C' : L2Cfg) (pd : Props) (Cd : L2Cfg) (sw : Bool) (bytes' : List UInt8)
    (h : URdy pd dictSize buf base t n Cd (bytes' ++ tlOf em)) (hdv : DV p1 C' pd Cd)
    (hch : ChunksP dictSize buf base sw p1 C' bytes' p' CF) (f : Nat)
    (k : ∀ sB pd Cd, BSt pd dictSize buf base Cd sB → DV p1 C' pd Cd → In sB (bytes' ++ tlOf em) →
      ResP dictSize buf base p' CF em f sB sB) :
    ResP dictSize buf base p' CF em (f + 1) t t := by
  rcases urdy_step pd dictSize buf base t n Cd _ h (fun _ h2 => by rw [h.flags.1] at h2; cases h2) f with
    ⟨_, sB, hrun, hb, hin, hk2, _⟩ | ⟨_, s2, hrun, hu2, hpos, hk2⟩
  · exact (k sB pd Cd hb hdv hin).of_eq hrun hk2
  · exact Or.inr ⟨s2, hrun, ⟨_, sw, p1, C', bytes', hch, hp1, Or.inr ⟨pd, Cd, hdv, hu2⟩⟩, hk2, hpos⟩

/-- from a chunk boundary over the remaining chunks and switches -/
theorem run_boundaryP (dictSize : Nat) (hd : dictSize ≤ 4294967295) (buf : ByteArray) (base : Nat) (em : Bool)
    {sw : Bool} {p p' : Props} {C CF : L2Cfg} {bytes : List UInt8} (hch : ChunksP dictSize buf base sw p C bytes p' CF) :
    ∀ (s : St) (pd : Props) (Cd : L2Cfg) (f : Nat), PropsOk p → BSt pd dictSize buf base Cd s → DV p C pd Cd →
      In s (bytes ++ tlOf em) → bytes.length + 2 ≤ f → ResP dictSize buf base p' CF em f s s := by
  induction hch with
  | nil p C =>
    intro s pd Cd f hp hb hdv hin hf
    obtain ⟨f', rfl⟩ : ∃ f', f = f' + 1 := ⟨f - 1, by omega⟩
    cases em with
    | true =>
      obtain ⟨sF, hrun, hw, hpr, hi, hk, _, hle⟩ := ctlEnd_step pd dictSize buf base Cd s [] hb hin f'
      rw [hdv.off] at hw hpr
      exact Or.inl ⟨sF, hrun, hw, hpr, hi, hk, fun h => by cases h⟩
    | false =>
      have hin' : In s [] := hin
      have hw := hb.win
      have hpr := hb.prod
      rw [hdv.off] at hw hpr
      exact Or.inl ⟨s, loop_starve f' s (in_nil_ge hin') hb.seq, hw, hpr, hin', Keep2.refl s, fun _ => ⟨pd, Cd, hb⟩⟩
  | @chunk sw p p' C C1 C2 b bs hc hrest ih =>
    intro s pd Cd f hp hb hdv hin hf
    have hin' : In s (b ++ (bs ++ tlOf em)) := by rw [← List.append_assoc]; exact hin
    have hndrC : C.needDictReset = false := by rw [← hdv.ndr]; exact hb.cndr
    cases hc with
    | lzma syms ops encPos' st' usize henc hlen hu1 hu2 hoff hcs =>
      have hc5 : 5 ≤ (encFlush (encOps (C.ps0 p) Enc.init ops).2).out.length :=
        flush_len5 (outOk2_encOps ops _ _ outOk2_init).2
      have hblen : 10 ≤ (headerLzma C.needProps C.needStateReset C.needDictReset usize
          (encFlush (encOps (C.ps0 p) Enc.init ops).2).out.length p ++ (encFlush (encOps (C.ps0 p) Enc.init ops).2).out).length := by
        simp only [headerLzma, List.length_append, List.length_cons]; omega
      have hhl : (headerLzma C.needProps C.needStateReset C.needDictReset usize
          (encFlush (encOps (C.ps0 p) Enc.init ops).2).out.length p).length = 5 + (if C.needProps = true then 1 else 0) := by
        simp only [headerLzma, List.length_append, List.length_cons, List.length_nil]; split <;> rfl
      simp only [List.length_append] at hf hblen
      obtain ⟨f3, rfl⟩ : ∃ f3, f = ((f3 + 1) + (4 + if C.needProps = true then 1 else 0)) + 1 :=
        ⟨f - 1 - (4 + if C.needProps = true then 1 else 0) - 1, by split <;> omega⟩
      have hf3 : bs.length + 2 ≤ f3 := by
        rw [hhl] at hf hblen
        split at hf <;> split at hblen <;> omega
      -- the control byte: with the decoder in step, or with new properties
      have hstep : ∃ t, lzma2Loop ((f3 + 1) + (4 + if C.needProps = true then 1 else 0) + 1) s =
            lzma2Loop ((f3 + 1) + (4 + if C.needProps = true then 1 else 0)) t ∧
          AfterCtlL p dictSize buf base t C syms ops encPos' st' usize (bs ++ tlOf em) ∧ t.dp = s.dp ∧
          t.hist = s.hist ∧ t.outBase = s.outBase ∧ t.inp = s.inp ∧ t.inPos = s.inPos + 1 := by
        rcases hdv.same with ⟨rfl, rfl⟩ | ⟨hnp, hsr⟩
        · exact ctlL_step pd hp dictSize buf base Cd s syms ops encPos' st' usize (bs ++ tlOf em) hb henc hlen hu1 hu2 hoff hcs
            hin' _
        · exact ctlL_stepP p dictSize buf base C pd Cd s syms ops encPos' st' usize (bs ++ tlOf em) hb hdv.off hnp hsr hndrC
            henc hlen hu1 hu2 hoff hcs hin' _
      obtain ⟨t, hrun1, hact, hdp1, hh1, hob1, hinp1, hpos1⟩ := hstep
      obtain ⟨t5, t5', hrun2, hlr, hdp5, hh5, hob5, hinp5, hpos5⟩ :=
        sizesL p hp dictSize hd buf base t C syms ops encPos' st' usize (bs ++ tlOf em) hact (f3 + 1)
      have hres := lrdy_thenP p hp dictSize hd buf base p' C2 em t5 t5' usize _ sw bs hlr hrest f3
        (fun sB pd' Cd' hbB hdvB hinB => ih sB pd' Cd' f3 hp hbB hdvB hinB hf3)
      have hk : Keep2 s t5' := keep2_of_eq (by rw [hdp5, hdp1]) (by rw [hh5, hh1]) (by rw [hob5, hob1]) (by rw [hinp5, hinp1])
        (by omega)
      exact hres.of_eq (by rw [hrun1, hrun2]) hk
    | uncomp usize encPos' st' ps' hu1 hu2 hoff =>
      have hsl := sliceList_length buf (base + C.off) usize hoff
      simp only [List.length_append, headerUncompressed, List.length_cons, List.length_nil, hsl] at hf
      obtain ⟨f3, rfl⟩ : ∃ f3, f = ((f3 + 1) + 2) + 1 := ⟨f - 4, by omega⟩
      have hf3 : bs.length + 2 ≤ f3 := by omega
      -- run with the decoder's view
      obtain ⟨t, hrun1, hact, hdp1, hh1, hob1, hinp1, hpos1⟩ := ctlU_step pd dictSize buf base Cd s usize (bs ++ tlOf em) hb hu1 hu2
        (by rw [hdv.off]; exact hoff) (by rw [hdv.ndr, hdv.off]; exact hin') _
      obtain ⟨t2, hrun2, hur, hdp2, hh2, hob2, hinp2, hpos2⟩ := sizesU pd dictSize buf base t Cd usize (bs ++ tlOf em) hact encPos'
        st' ps' (f3 + 1)
      have hdv' : DV p (cfgAfterU C usize encPos' st' ps') pd (cfgAfterU Cd usize encPos' st' ps') := by
        refine ⟨?_, rfl, ?_⟩
        · show Cd.off + usize = C.off + usize
          rw [hdv.off]
        · rcases hdv.same with ⟨rfl, rfl⟩ | ⟨h1, _⟩
          · exact Or.inl ⟨rfl, rfl⟩
          · exact Or.inr ⟨h1, rfl⟩
      have hres := urdy_thenP p hp dictSize buf base p' C2 em t2 usize _ pd _ sw bs hur hdv' hrest f3
        (fun sB pd' Cd' hbB hdvB hinB => ih sB pd' Cd' f3 hp hbB hdvB hinB hf3)
      have hk : Keep2 s t2 := keep2_of_eq (by rw [hdp2, hdp1]) (by rw [hh2, hh1]) (by rw [hob2, hob1]) (by rw [hinp2, hinp1])
        (by omega)
      exact hres.of_eq (by rw [hrun1, hrun2]) hk
  | @switch sw p p2 p' C C2 bs hp2 hrest ih =>
    intro s pd Cd f _ hb hdv hin hf
    exact ih s pd Cd f hp2 hb (hdv.switch p2) hin hf

/-! ### states a `decode_buffer` iteration can start from -/

inductive ReadyP (dictSize : Nat) (buf : ByteArray) (base : Nat) (p' : Props) (CF : L2Cfg) (em : Bool) : St → Prop
  | boundary {sw : Bool} {p pd : Props} {C Cd : L2Cfg} {bytes : List UInt8} {s : St} : BSt pd dictSize buf base Cd s →
      DV p C pd Cd → PropsOk p → ChunksP dictSize buf base sw p C bytes p' CF → In s (bytes ++ tlOf em) →
      ReadyP dictSize buf base p' CF em s
  | paused {s : St} : PausedP dictSize buf base p' CF em s → ReadyP dictSize buf base p' CF em s
  | afterU {sw : Bool} {p : Props} {t : St} {C : L2Cfg} {usize encPos' : Nat} {st' : SymSt} {ps' : Probs} {bytes' : List UInt8} :
      AfterCtlU p dictSize buf base t C usize (bytes' ++ tlOf em) → PropsOk p →
      ChunksP dictSize buf base sw p (cfgAfterU C usize encPos' st' ps') bytes' p' CF → ReadyP dictSize buf base p' CF em t
  | afterL {sw : Bool} {p : Props} {t : St} {C : L2Cfg} {syms : List Sym} {ops : List Op} {encPos' : Nat} {st' : SymSt}
      {usize : Nat} {bytes' : List UInt8} : AfterCtlL p dictSize buf base t C syms ops encPos' st' usize (bytes' ++ tlOf em) →
      PropsOk p → ChunksP dictSize buf base sw p (cfgAfterL p C ops encPos' st' usize) bytes' p' CF →
      ReadyP dictSize buf base p' CF em t

/-- `lzma2_decode` from any such state, with the fuel `lzma2Call` provides -/
theorem run_readyP (dictSize : Nat) (hd : dictSize ≤ 4294967295) (buf : ByteArray) (base : Nat) (p' : Props)
    (CF : L2Cfg) (em : Bool) (s : St) (h : ReadyP dictSize buf base p' CF em s) :
    ResP dictSize buf base p' CF em (2 * (s.inp.size - s.inPos) + 4) s s := by
  cases h with
  | @boundary sw p pd C Cd bytes _ hb hdv hp hch hin =>
    have hlen : bytes.length ≤ s.inp.size - s.inPos := by
      rcases in_length hin with h1 | ⟨h1, _⟩
      · simp only [List.length_append] at h1; omega
      · have := congrArg List.length h1
        simp only [List.length_append, List.length_nil] at this
        omega
    exact run_boundaryP dictSize hd buf base em hch s pd Cd _ hp hb hdv hin (by omega)
  | paused hpa =>
    obtain ⟨n, sw, p1, C', bytes', hch, hp1, hl | ⟨pd, Cd, hdv, hu⟩⟩ := hpa
    · have hcs := hl.cs
      simp only [List.length_append] at hcs
      obtain ⟨f, hf⟩ : ∃ f, 2 * (s.inp.size - s.inPos) + 4 = f + 1 := ⟨_, rfl⟩
      rw [hf]
      exact lrdy_thenP p1 hp1 dictSize hd buf base p' CF em s s n C' sw bytes' hl hch f
        (fun sB pd' Cd' hbB hdvB hinB => run_boundaryP dictSize hd buf base em hch sB pd' Cd' f hp1 hbB hdvB hinB (by omega))
    · have hsl := sliceList_length buf (base + (Cd.off - n)) n (by have := hu.le; have := hu.off; omega)
      have hnpos := hu.npos
      have hlen := in_len hu.inp (by
        intro h0
        have h1 := congrArg List.length h0
        simp only [List.length_append, List.length_nil, hsl] at h1
        omega)
      simp only [List.length_append, hsl] at hlen
      obtain ⟨f, hf⟩ : ∃ f, 2 * (s.inp.size - s.inPos) + 4 = f + 1 := ⟨_, rfl⟩
      rw [hf]
      exact urdy_thenP p1 hp1 dictSize buf base p' CF em s n C' pd Cd sw bytes' hu hdv hch f
        (fun sB pd' Cd' hbB hdvB hinB => run_boundaryP dictSize hd buf base em hch sB pd' Cd' f hp1 hbB hdvB hinB (by omega))
  | @afterU sw p t C usize encPos' st' ps' bytes' hact hp hch =>
    have hlen := in_len hact.inp (by simp)
    simp only [List.length_append, List.length_cons] at hlen
    obtain ⟨f, hf⟩ : ∃ f, 2 * (s.inp.size - s.inPos) + 4 = (f + 1) + 2 := ⟨2 * (s.inp.size - s.inPos) + 1, by omega⟩
    rw [hf]
    obtain ⟨t2, hrun2, hur, hdp2, hh2, hob2, hinp2, hpos2⟩ := sizesU p dictSize buf base s C usize (bytes' ++ tlOf em) hact encPos'
      st' ps' (f + 1)
    have hres := urdy_thenP p hp dictSize buf base p' CF em t2 usize _ p _ sw bytes' hur (DV.refl _ _) hch f
      (fun sB pd' Cd' hbB hdvB hinB => run_boundaryP dictSize hd buf base em hch sB pd' Cd' f hp hbB hdvB hinB (by omega))
    exact hres.of_eq hrun2 (keep2_of_eq hdp2 hh2 hob2 hinp2 (by omega))
  | @afterL sw p t C syms ops encPos' st' usize bytes' hact hp hch =>
    have hlen := in_len hact.inp (by simp)
    simp only [List.length_append, List.length_cons] at hlen
    obtain ⟨f, hf⟩ : ∃ f, 2 * (s.inp.size - s.inPos) + 4 = (f + 1) + (4 + if C.needProps = true then 1 else 0) :=
      ⟨2 * (s.inp.size - s.inPos) + 4 - 1 - (4 + if C.needProps = true then 1 else 0), by split <;> omega⟩
    have hfb : bytes'.length + 2 ≤ f := by split at hf <;> omega
    rw [hf]
    obtain ⟨t5, t5', hrun2, hlr, hdp5, hh5, hob5, hinp5, hpos5⟩ :=
      sizesL p hp dictSize hd buf base s C syms ops encPos' st' usize (bytes' ++ tlOf em) hact (f + 1)
    have hres := lrdy_thenP p hp dictSize hd buf base p' CF em t5 t5' usize _ sw bytes' hlr hch f
      (fun sB pd' Cd' hbB hdvB hinB => run_boundaryP dictSize hd buf base em hch sB pd' Cd' f hp hbB hdvB hinB hfb)
    exact hres.of_eq hrun2 (keep2_of_eq hdp5 hh5 hob5 hinp5 hpos5)

/-! ### the top of the `decode_buffer` loop keeps every kind of ready state -/

theorem readyP_relimit {dictSize : Nat} {buf : ByteArray} {base : Nat} {p' : Props} {CF : L2Cfg} {em : Bool} {s : St}
    (h : ReadyP dictSize buf base p' CF em s) (avail : Nat) : ReadyP dictSize buf base p' CF em (relimit s avail) := by
  cases h with
  | boundary hb hdv hp hch hin => exact ReadyP.boundary (bst_relimit hb avail) hdv hp hch hin
  | paused hpa =>
    obtain ⟨n, sw, p1, C', bytes', hch, hp1, hl | ⟨pd, Cd, hdv, hu⟩⟩ := hpa
    · exact ReadyP.paused ⟨n, sw, p1, C', bytes', hch, hp1, Or.inl (lrdy_relimit hl avail)⟩
    · exact ReadyP.paused ⟨n, sw, p1, C', bytes', hch, hp1, Or.inr ⟨pd, Cd, hdv, urdy_relimit hu avail⟩⟩
  | afterU hact hp hch => exact ReadyP.afterU (afterU_relimit hact avail) hp hch
  | afterL hact hp hch => exact ReadyP.afterL (afterL_relimit hact avail) hp hch

/-- facts every ready state provides -/
theorem readyP_facts {dictSize : Nat} {buf : ByteArray} {base : Nat} {p' : Props} {CF : L2Cfg} {em : Bool} {s : St}
    (h : ReadyP dictSize buf base p' CF em s) :
    (∃ rb, Win s rb dictSize) ∧ s.dp.needReset = false ∧ s.hist.size ≤ s.outBase + CF.off := by
  cases h with
  | boundary hb hdv hp hch hin =>
    have := chunksP_off_le hch
    have := hdv.off
    exact ⟨⟨_, hb.win⟩, hb.nr, by rw [hb.prod]; omega⟩
  | paused hpa =>
    obtain ⟨n, sw, p1, C', bytes', hch, hp1, hl | ⟨pd, Cd, hdv, hu⟩⟩ := hpa
    · obtain ⟨k, psF, hcs, _⟩ := hl.ex
      obtain ⟨_, _, _, _, _, _, _, _, _, _, hsim, _⟩ := hcs.work
      have := chunksP_off_le hch
      have := hl.prod
      exact ⟨⟨_, hsim.win⟩, hl.nr, by omega⟩
    · have := chunksP_off_le hch
      have := hu.prod
      have := hdv.off
      exact ⟨⟨_, hu.win⟩, hu.nr, by omega⟩
  | afterU hact hp hch =>
    have h1 := chunksP_off_le hch
    simp only [cfgAfterU] at h1
    exact ⟨⟨_, hact.win⟩, hact.nr, by rw [hact.prod]; omega⟩
  | afterL hact hp hch =>
    have h1 := chunksP_off_le hch
    simp only [cfgAfterL] at h1
    exact ⟨⟨_, hact.win⟩, hact.nr, by rw [hact.prod]; omega⟩

/-- paused states have output left -/
theorem pausedP_facts {dictSize : Nat} {buf : ByteArray} {base : Nat} {p' : Props} {CF : L2Cfg} {em : Bool} {s : St}
    (h : PausedP dictSize buf base p' CF em s) : s.hist.size < s.outBase + CF.off := by
  obtain ⟨n, sw, p1, C', bytes', hch, hp1, hl | ⟨pd, Cd, hdv, hu⟩⟩ := h
  · have := chunksP_off_le hch
    have := hl.prod
    have := hl.npos
    omega
  · have := chunksP_off_le hch
    have := hu.prod
    have := hu.npos
    have := hdv.off
    omega

/-! ### `decode_buffer` -/

/-- `decode_buffer` around `lzma2_decode`, from any ready state: `retOf em` (LZMA_STREAM_END with the end marker, LZMA_OK
    without) after everything was produced -/
theorem db2_runP (dictSize : Nat) (hd : dictSize ≤ 4294967295) (buf : ByteArray) (base : Nat) (p' : Props)
    (CF : L2Cfg) (em : Bool) (outSize : Nat) :
    ∀ (n fuel : Nat) (s : St), ReadyP dictSize buf base p' CF em s → s.outBase + CF.off - s.hist.size = n →
      s.outBase ≤ s.hist.size → CF.off < outSize → n + 1 < fuel →
      ∃ sF, decodeBuffer lzma2Call fuel outSize s = (retOf em, sF) ∧ Win sF (win buf (base + CF.off)) dictSize ∧
        sF.hist.size = sF.outBase + CF.off ∧ In sF [] ∧ sF.outBase = s.outBase ∧ sF.inp = s.inp := by
  intro n
  induction n using Nat.strong_induction_on with
  | _ n ih =>
    intro fuel s hr hn hob hcap hfuel
    obtain ⟨f, rfl⟩ : ∃ f, fuel = f + 1 := ⟨fuel - 1, by omega⟩
    obtain ⟨⟨rb, hwin⟩, hnr, hle⟩ := readyP_facts hr
    obtain ⟨_, _, _, hroom, hlt, hsz, hnr1⟩ := win_relimit hwin (outSize - s.produced)
    have hr1 := readyP_relimit hr (outSize - s.produced)
    rw [decodeBuffer_succ]
    generalize hs1 : relimit s (outSize - s.produced) = s1 at *
    have hh1 : s1.hist = s.hist := by rw [← hs1]; rfl
    have hob1 : s1.outBase = s.outBase := by rw [← hs1]; rfl
    have hinp1 : s1.inp = s.inp := by rw [← hs1]; rfl
    rcases run_readyP dictSize hd buf base p' CF em s1 hr1 with ⟨sF, hrun, hwF, hpF, hiF, hkF, hbF⟩ | ⟨s', hrun, hpa, hk, hpos⟩
    · rw [lzma2Call_eq, hrun]
      have hnrF : sF.dp.needReset = false := by rw [hkF.needReset, hnr1]; exact hnr
      have hobF : sF.outBase = s.outBase := by rw [hkF.outBase, hob1]
      have hinpF : sF.inp = s.inp := by rw [hkF.inp, hinp1]
      cases em with
      | true =>
        rw [retOf_true]
        simp only [hnrF, Bool.false_eq_true, if_false, show (Ret.streamEnd != Ret.ok) = true from rfl, Bool.true_or, if_true]
        exact ⟨sF, rfl, hwF, hpF, hiF, hobF, hinpF⟩
      | false =>
        rw [retOf_false]
        obtain ⟨pd, Cd, hbst⟩ := hbF rfl
        have hprodF : sF.produced = CF.off := by
          simp only [St.produced]; omega
        have hne : (sF.produced == outSize) = false := by
          rw [hprodF]; simp only [beq_eq_false_iff_ne, ne_eq]; omega
        by_cases hposlt : sF.dp.pos < sF.dp.size
        · simp only [hnrF, Bool.false_eq_true, if_false, show (Ret.ok != Ret.ok) = false from rfl, hne, Bool.false_or,
            decide_eq_true_eq, if_pos hposlt]
          exact ⟨sF, rfl, hwF, hpF, hiF, hobF, hinpF⟩
        · simp only [hnrF, Bool.false_eq_true, if_false, show (Ret.ok != Ret.ok) = false from rfl, hne, Bool.false_or,
            decide_eq_true_eq, if_neg hposlt]
          -- the dictionary is full exactly at the end of the data: `decode_buffer` wraps and calls `lzma2_decode` once more
          obtain ⟨f', rfl⟩ : ∃ f', f = f' + 1 := ⟨f - 1, by omega⟩
          rw [db2_final pd dictSize buf base Cd outSize f' sF hbst hiF (by rw [hprodF]; exact hcap)]
          obtain ⟨hw2, _⟩ := win_relimit hwF (outSize - sF.produced)
          exact ⟨_, rfl, hw2, hpF, hiF, hobF, hinpF⟩
    · rw [lzma2Call_eq, hrun]
      have hnr' : s'.dp.needReset = false := by rw [hk.needReset, hnr1]; exact hnr
      have hlt' := pausedP_facts hpa
      have hob' : s'.outBase = s.outBase := by rw [hk.outBase, hob1]
      have hgrow := hk.grow
      rw [hh1] at hgrow
      have hne : (s'.produced == outSize) = false := by
        simp only [St.produced, beq_eq_false_iff_ne, ne_eq]; omega
      -- the pause is because the dictionary (not the output space) is full
      have hhp := hk.histpos
      rw [hh1] at hhp
      have hposlt : ¬ s'.dp.pos < s'.dp.size := by
        rw [hpos, hk.size]
        intro hlt2
        have hlim : s1.dp.limit - s1.dp.pos = outSize - s.produced := by omega
        simp only [St.produced] at hlim
        omega
      simp only [hnr', Bool.false_eq_true, if_false, show (Ret.ok != Ret.ok) = false from rfl, hne, Bool.false_or,
        decide_eq_true_eq, hposlt]
      have hsize' : s1.dp.pos < s'.dp.pos := by
        have : s'.dp.pos = s1.dp.size := by have := hk.size; omega
        omega
      obtain ⟨sF, hrunF, hwF, hpF, hiF, hobF, hinpF⟩ := ih (s'.outBase + CF.off - s'.hist.size) (by omega) f s'
        (ReadyP.paused hpa) rfl (by omega) hcap (by omega)
      exact ⟨sF, hrunF, hwF, hpF, hiF, by rw [hobF, hob'], by rw [hinpF, hk.inp, hinp1]⟩

/-! ### the first chunk of a stream without preset dictionary -/

/-- the configuration before the first chunk of a stream without preset dictionary (possibly after switches) -/
structure Start (p : Props) (C : L2Cfg) : Prop where
  off : C.off = 0
  np : C.needProps = true
  ndr : C.needDictReset = true
  fresh : C.st0 = {} ∧ C.ps0 p = initProbs p

theorem start_cfg0 (p : Props) : Start p (cfg0 p 0) := ⟨rfl, rfl, rfl, rfl, rfl⟩

theorem Start.switch {p : Props} {C : L2Cfg} (h : Start p C) (p2 : Props) : Start p2 C.switched :=
  ⟨h.off, rfl, h.ndr, rfl, rfl⟩

/-- strip the switches in front of the first chunk -/
theorem chunksP_head {dictSize : Nat} {buf : ByteArray} {base : Nat} {sw : Bool} {p p' : Props} {C CF : L2Cfg}
    {bytes : List UInt8} (h : ChunksP dictSize buf base sw p C bytes p' CF) (hs : Start p C) (hp : PropsOk p) :
    (bytes = [] ∧ CF.off = 0) ∨
    ∃ sw' p1 C1 C2 b bs, PropsOk p1 ∧ Start p1 C1 ∧ ChunkOk p1 dictSize buf base C1 b C2 ∧
      ChunksP dictSize buf base sw' p1 C2 bs p' CF ∧ bytes = b ++ bs := by
  induction h with
  | nil p C => exact Or.inl ⟨rfl, hs.off⟩
  | @chunk sw p p' C C1 C2 b bs hc hrest _ => exact Or.inr ⟨sw, p, C, C1, b, bs, hp, hs, hc, hrest, rfl⟩
  | @switch sw p p2 p' C C2 bs hp2 _ ih => exact ih (hs.switch p2) hp2

/-! ### the whole decoder -/

/-- The executable LZMA2 decoder on a chunk sequence with lc/lp/pb changes (`ChunksP`), followed by the end marker
    (`em = true`) or by nothing (`em = false`), with the `base` bytes before the data as preset dictionary. -/
theorem lzma2Decode_of_chunksP_gen (em : Bool) (p : Props) (hp : PropsOk p) (dictSize : Nat) (hd : dictSize ≤ 4294967295)
    (buf : ByteArray) (base : Nat) (hbase : base ≤ buf.size) (sw : Bool) (bytes : List UInt8) (p' : Props) (CF : L2Cfg)
    (hch : ChunksP dictSize buf base sw p (cfg0 p base) bytes p' CF) (hoff : CF.off = buf.size - base) (outCap : Nat)
    (hcap : buf.size - base < outCap) :
    lzma2Decode dictSize (bytes ++ tlOf em) ((hl buf).take base) outCap =
      { ret := retOf em, out := (hl buf).drop base, consumed := bytes.length + (tlOf em).length } := by
  obtain ⟨c0off, c0pos, c0st, c0ps, c0np, c0sr, c0dr⟩ := cfg0_fields p base
  generalize hpreset : (hl buf).take base = preset
  have hplen : preset.length = base := by rw [← hpreset]; simp [hl_length]; omega
  unfold lzma2Decode Coder.code Coder.initLzma2
  simp only []
  generalize hs0 : initLzma2 dictSize preset (ByteArray.mk (bytes ++ tlOf em).toArray) = s0
  have hinp : s0.inp.data.toList = bytes ++ tlOf em := by rw [← hs0]; simp [initLzma2]
  have hf0 : s0.l2.seq = .control ∧ s0.l2.needProperties = true ∧ s0.l2.needDictionaryReset = preset.isEmpty ∧
      s0.initLeft = 5 ∧ s0.range = UINT32_MAX ∧ s0.code = 0 ∧ s0.pending = Pending.none ∧ s0.inPos = 0 ∧
      s0.dp = DictPos.init dictSize preset.length ∧ hl s0.hist = presetTail dictSize preset ∧
      s0.outBase = (presetTail dictSize preset).length := by
    rw [← hs0]
    refine ⟨rfl, rfl, rfl, rfl, rfl, rfl, rfl, rfl, rfl, ?_, rfl⟩
    simp [initLzma2, hl]
  obtain ⟨hseq0, hnp0, hndr0, hil0, hrg0, hcd0, hpd0, hip0, hdp0, hhl0, hob0⟩ := hf0
  have hwin0 : Win s0 (win buf base) dictSize := by
    have : win buf base = preset.reverse := by rw [← hpreset]; rfl
    rw [this]; exact win_init dictSize preset s0 hhl0 hdp0
  have hprod0 : s0.hist.size = s0.outBase + 0 := by rw [← hl_length, hhl0, hob0]; rfl
  have hin0 : In s0 (bytes ++ tlOf em) := by
    show s0.inp.data.toList.drop s0.inPos = _
    rw [hip0, hinp]; simp
  have hproduced0 : s0.produced = 0 := by simp only [St.produced]; omega
  have hsize0 : s0.inp.size = bytes.length + (tlOf em).length := by
    rw [← ByteArray.size_data, ← Array.length_toList, hinp, List.length_append]
  rw [hproduced0, Nat.zero_add]
  obtain ⟨fu, hfu⟩ : ∃ fu, decodeBufferFuel s0 outCap = fu + 2 := ⟨(s0.inp.size - s0.inPos) + (outCap - s0.produced) + 2, by
    simp only [decodeBufferFuel]⟩
  have hfuel : buf.size - base + 1 < fu + 1 := by
    have : decodeBufferFuel s0 outCap = (s0.inp.size - s0.inPos) + (outCap - s0.produced) + 4 := rfl
    rw [hproduced0] at this
    omega
  -- the cursor never leaves the input (coder law of `decode_buffer`)
  have hlaw := (decodeBuffer_spec lzma2Call (fun s hi hl => lzma2Call_spec s hi hl) (decodeBufferFuel s0 outCap) outCap s0
    ⟨by rw [hip0]; exact Nat.zero_le _, by omega, by omega⟩).1.inp_ok
  rw [hfu] at hlaw ⊢
  -- the claim, once `decode_buffer` has been run
  suffices hmain : ∃ sF, decodeBuffer lzma2Call (fu + 2) outCap s0 = (retOf em, sF) ∧
      Win sF (win buf (base + CF.off)) dictSize ∧ sF.hist.size = sF.outBase + CF.off ∧ In sF [] ∧ sF.outBase = s0.outBase ∧
      sF.inp = s0.inp by
    obtain ⟨sF, hrun, hwF, hpF, hiF, hobF, hinpF⟩ := hmain
    rw [hrun] at hlaw ⊢
    have hleF : sF.inPos ≤ sF.inp.size := hlaw
    have hout : histFrom sF.hist sF.outBase = (hl buf).drop base := by
      obtain ⟨extra, hpre⟩ := hwF.pre
      show (hl sF.hist).drop sF.outBase = _
      have hfull : base + CF.off = buf.size := by omega
      rw [hfull, win_full] at hpre
      have hsplit : (hl buf).reverse = ((hl buf).drop base).reverse ++ ((hl buf).take base).reverse := by
        rw [← List.reverse_append, List.take_append_drop]
      rw [hsplit] at hpre
      have hdl : ((hl buf).drop base).length = CF.off := by simp [hl_length]; omega
      have htl : (presetTail dictSize preset).length ≤ ((hl buf).take base).length := by
        rw [hpreset]; simp only [presetTail, List.length_drop]; omega
      exact out_of_win (hl sF.hist) extra _ _ sF.outBase (by rw [hobF, hob0]; exact htl) hpre
        (by rw [hl_length, hpF, hdl])
    have hcons : sF.inPos = bytes.length + (tlOf em).length := by
      have := in_nil_ge hiF
      rw [hinpF] at this hleF
      omega
    simp only [Coder.output, Coder.consumed]
    rw [hout, hcons]
  by_cases hb0 : base = 0
  · -- no preset dictionary: the first control byte resets the dictionary
    subst hb0
    have hpe : preset = [] := List.eq_nil_of_length_eq_zero hplen
    have hndr0' : s0.l2.needDictionaryReset = true := by rw [hndr0, hpe]; rfl
    have hhist0 : s0.hist.size = 0 := by
      rw [← hl_length, hhl0, hpe]; simp [presetTail]
    have hob00 : s0.outBase = 0 := by rw [hob0, hpe]; simp [presetTail]
    have hdp00 : s0.dp = DictPos.init dictSize 0 := by rw [hdp0, hpe]; rfl
    obtain ⟨hm, hge, hal⟩ := allocSize_mod dictSize
    -- the first iteration
    rw [decodeBuffer_succ]
    generalize hs1 : relimit s0 (outCap - s0.produced) = s1
    have hs1f : s1.l2 = s0.l2 ∧ s1.inp = s0.inp ∧ s1.inPos = s0.inPos ∧ s1.hist = s0.hist ∧ s1.outBase = s0.outBase ∧
        s1.initLeft = 5 ∧ s1.range = UINT32_MAX ∧ s1.code = 0 ∧ s1.pending = Pending.none ∧
        s1.dp.pos = 576 ∧ s1.dp.full = 0 ∧ s1.dp.hasWrapped = false ∧ s1.dp.size = allocSize dictSize ∧
        576 ≤ s1.dp.limit ∧ s1.dp.limit ≤ s1.dp.size := by
      rw [← hs1]
      refine ⟨rfl, rfl, rfl, rfl, rfl, hil0, hrg0, hcd0, hpd0, ?_, ?_, ?_, ?_, ?_, ?_⟩
      all_goals simp only [relimit, hdp00, DictPos.init, DictPos.wrap, DictPos.setLimit, LZ_DICT_INIT_POS,
        Nat.zero_min, Nat.add_zero]
      all_goals (have : ((576 : Nat) == allocSize dictSize) = false := by simp; omega)
      all_goals simp only [this, Bool.false_eq_true, if_false]
      all_goals omega
    obtain ⟨h1l2, h1inp, h1ip, h1h, h1ob, h1il, h1rg, h1cd, h1pd, h1pos, h1full, h1wr, h1sz, h1lim, h1lim2⟩ := hs1f
    have hin1 : In s1 (bytes ++ tlOf em) := by
      show s1.inp.data.toList.drop s1.inPos = _; rw [h1inp, h1ip]; exact hin0
    -- the window of a state with empty history at the initial dictionary position
    have hwin_empty : ∀ t : St, t.hist = s1.hist → t.dp.pos = 576 → t.dp.full = 0 → t.dp.hasWrapped = false →
        t.dp.size = allocSize dictSize → 576 ≤ t.dp.limit → t.dp.limit ≤ t.dp.size → Win t (win buf (0 + 0)) dictSize := by
      intro t e1 e2 e3 e4 e5 e6 e7
      have hw0 : win buf (0 + 0) = [] := by simp [win]
      rw [hw0]
      have hts : t.hist.size = 0 := by rw [e1, h1h]; exact hhist0
      have hhl : hl t.hist = [] := List.eq_nil_of_length_eq_zero (by rw [hl_length]; exact hts)
      refine ⟨⟨[], by rw [hhl]; rfl⟩, by omega, Or.inl (by simp), e5, ?_, ?_, by omega, e7⟩
      · intro _; simp only [LZ_DICT_INIT_POS]; omega
      · intro h; rw [e4] at h; cases h
    have key : ∀ t : St, t.outBase = s0.outBase → t.inp = s0.inp → ReadyP dictSize buf 0 p' CF em t →
        t.outBase + CF.off - t.hist.size = buf.size - 0 → t.outBase ≤ t.hist.size →
        ∃ sF, decodeBuffer lzma2Call (fu + 1) outCap t = (retOf em, sF) ∧ Win sF (win buf (0 + CF.off)) dictSize ∧
          sF.hist.size = sF.outBase + CF.off ∧ In sF [] ∧ sF.outBase = s0.outBase ∧ sF.inp = s0.inp := by
      intro t e1 e2 hr hn hob
      obtain ⟨sF, a, b', c, d, e, g⟩ := db2_runP dictSize hd buf 0 p' CF em outCap (buf.size - 0) (fu + 1) t hr hn hob
        (by omega) hfuel
      exact ⟨sF, a, b', c, d, by rw [e, e1], by rw [g, e2]⟩
    have hnotfull : (s1.hist.size - s1.outBase == outCap) = false := by
      simp only [h1h, h1ob, hhist0, hob00]; simp; omega
    have hnr1 : s1.dp.needReset = false := by
      rw [← hs1]; simp only [relimit, DictPos.setLimit, DictPos.wrap]; split <;> (rw [hdp00]; rfl)
    rcases chunksP_head hch (start_cfg0 p) hp with ⟨hbe, hcf0⟩ | ⟨sw', p1, C1, C2, b, bs, hp1, hst, hc, hrest, hbytes⟩
    · -- no chunk at all
      subst hbe
      have hin1' : In s1 (tlOf em) := hin1
      rw [lzma2Call_eq]
      obtain ⟨f1, hf1⟩ : ∃ f1, 2 * (s1.inp.size - s1.inPos) + 4 = f1 + 1 := ⟨_, rfl⟩
      have hwe : Win s1 (win buf (0 + CF.off)) dictSize := by
        rw [hcf0]; exact hwin_empty s1 rfl h1pos h1full h1wr h1sz h1lim h1lim2
      have hpe1 : s1.hist.size = s1.outBase + CF.off := by rw [h1h, h1ob, hcf0, hhist0, hob00]
      cases em with
      | true =>
        -- the stream is just the end marker
        rw [tlOf_true] at hin1'
        obtain ⟨hlt, hbyte, hdrop⟩ := curByte_of_drop (s := s1) (b := 0) (rest := []) hin1'
        have hcb : curByte s1 = 0 := by rw [hbyte]; rfl
        rw [hf1, loop_control f1 s1 hlt (by rw [h1l2]; exact hseq0)]
        simp only [hcb, ctl_end, if_true]
        simp only [hnr1, Bool.false_eq_true, if_false, show (Ret.streamEnd != Ret.ok) = true from rfl, Bool.true_or, if_true]
        exact ⟨_, rfl, hwe.congr rfl rfl, hpe1, hdrop, h1ob, h1inp⟩
      | false =>
        -- empty input: the decoder returns at once
        rw [tlOf_false] at hin1'
        rw [hf1, loop_starve f1 s1 (in_nil_ge hin1') (by rw [h1l2]; exact hseq0)]
        have hlt1 : s1.dp.pos < s1.dp.size := by rw [h1pos, h1sz]; omega
        simp only [hnr1, Bool.false_eq_true, if_false, show (Ret.ok != Ret.ok) = false from rfl, St.produced, hnotfull, Bool.false_or,
          decide_eq_true_eq, if_pos hlt1]
        exact ⟨_, rfl, hwe, hpe1, hin1', h1ob, h1inp⟩
    · subst hbytes
      have hin1' : In s1 (b ++ (bs ++ tlOf em)) := by rw [← List.append_assoc]; exact hin1
      obtain ⟨hsoff, hsnp, hsndr, hsfresh⟩ := hst
      -- the state after the dictionary reset requested by the first control byte
      cases hc with
      | lzma syms ops encPos' st' usize henc hlen hu1 hu2 hoffc hcs =>
        simp only [LZMA2_UNCOMPRESSED_MAX] at hu2
        have hx : (usize - 1) / 65536 < 32 := by omega
        simp only [headerLzma, hsnp, hsndr, if_true, List.cons_append, List.nil_append] at hin1'
        obtain ⟨hlt, hbyte, hdrop⟩ := curByte_of_drop hin1'
        have hcb : curByte s1 = (if true = true then (if true = true then 0x80 + 3 * 32 else 0x80 + 2 * 32)
            else (if C1.needStateReset = true then 0x80 + 32 else 0x80)) + (usize - 1) / 65536 := by
          rw [hbyte, ofNat_toNat_of_lt]
          · simp
          · simp; omega
        rw [lzma2Call_eq]
        obtain ⟨f1, hf1⟩ : ∃ f1, 2 * (s1.inp.size - s1.inPos) + 4 = f1 + 1 := ⟨_, rfl⟩
        rw [hf1, loop_control f1 s1 hlt (by rw [h1l2]; exact hseq0), hcb, h1l2, hnp0, hndr0',
          ctl_lzma true C1.needStateReset true _ hx (fun _ => rfl)]
        simp only [Bool.false_eq_true, if_false, if_true, controlApply, Bool.not_true, Bool.false_and]
        simp only [setL2, St.produced, hnotfull, show (Ret.ok != Ret.ok) = false from rfl, Bool.false_or, Bool.false_eq_true,
          if_false]
        -- now a ready state: after the control byte of the first LZMA chunk
        refine key _ h1ob h1inp
          (ReadyP.afterL (sw := sw') (p := p1) (C := C1) (syms := syms) (ops := ops) (encPos' := encPos') (st' := st')
            (usize := usize) (bytes' := bs) ?_ hp1 hrest) ?_ ?_
        · refine ⟨rfl, rfl, (by rw [if_pos hsnp]), rfl, rfl, (fun h => by rw [hsnp] at h; cases h), ?_, ?_, rfl, ?_, henc, hlen, hu1,
            (by simp only [LZMA2_UNCOMPRESSED_MAX]; exact hu2), hoffc, hcs, ?_⟩
          · intro _
            exact hsfresh
          · rw [hsoff]
            exact hwin_empty _ rfl rfl rfl rfl h1sz h1lim h1lim2
          · show s1.hist.size = s1.outBase + C1.off
            rw [h1h, h1ob, hsoff, hhist0, hob00]
          · simp only [hsnp, if_true]
            exact hdrop
        · show s1.outBase + CF.off - s1.hist.size = buf.size - 0
          rw [h1h, h1ob, hhist0, hob00, hoff]; omega
        · show s1.outBase ≤ s1.hist.size
          rw [h1h, h1ob, hhist0, hob00]
      | uncomp usize encPos' st' ps' hu1 hu2 hoffc =>
        simp only [headerUncompressed, hsndr, if_true, List.cons_append, List.nil_append] at hin1'
        obtain ⟨hlt, hbyte, hdrop⟩ := curByte_of_drop hin1'
        have hcb : curByte s1 = if true = true then 1 else 2 := by rw [hbyte]; rfl
        rw [lzma2Call_eq]
        obtain ⟨f1, hf1⟩ : ∃ f1, 2 * (s1.inp.size - s1.inPos) + 4 = f1 + 1 := ⟨_, rfl⟩
        rw [hf1, loop_control f1 s1 hlt (by rw [h1l2]; exact hseq0), hcb, h1l2, hnp0, hndr0', ctl_uncomp]
        simp only [Bool.false_eq_true, if_false, if_true, controlApply]
        simp only [setL2, St.produced, hnotfull, show (Ret.ok != Ret.ok) = false from rfl, Bool.false_or, Bool.false_eq_true,
          if_false]
        refine key _ h1ob h1inp
          (ReadyP.afterU (sw := sw') (p := p1) (C := C1) (usize := usize) (encPos' := encPos') (st' := st') (ps' := ps')
            (bytes' := bs) ?_ hp1 hrest) ?_ ?_
        · refine ⟨rfl, rfl, hsnp.symm, rfl, (fun h => by rw [hsnp] at h; cases h), h1il, h1rg, h1cd, h1pd, ?_, rfl, ?_, ?_, hu1, hu2,
            hoffc⟩
          · rw [hsoff]
            exact hwin_empty _ rfl rfl rfl rfl h1sz h1lim h1lim2
          · show s1.hist.size = s1.outBase + C1.off
            rw [h1h, h1ob, hsoff, hhist0, hob00]
          · exact hdrop
        · show s1.outBase + CF.off - s1.hist.size = buf.size - 0
          rw [h1h, h1ob, hhist0, hob00, hoff]; omega
        · show s1.outBase ≤ s1.hist.size
          rw [h1h, h1ob, hhist0, hob00]
  · -- preset dictionary: no dictionary reset; the initial state is a chunk boundary
    have hbpos : base > 0 := by omega
    have hc0dr : (cfg0 p base).needDictReset = false := by rw [c0dr]; simp [hbpos]
    have hpne : preset.isEmpty = false := by
      cases preset with
      | nil => simp at hplen; omega
      | cons _ _ => rfl
    have hb : BSt p dictSize buf base (cfg0 p base) s0 :=
      ⟨hseq0, hnp0.trans c0np.symm, (by rw [hndr0, hpne]), hc0dr, (fun h => by rw [c0np] at h; cases h), hil0, hrg0, hcd0, hpd0,
        (by rw [c0off]; exact hwin0), (fun h => by rw [c0np] at h; cases h), (by rw [hdp0]; rfl), (fun _ _ => ⟨c0st, c0ps⟩),
        (by rw [c0off]; omega), (by rw [c0off]; exact hprod0)⟩
    exact db2_runP dictSize hd buf base p' CF em outCap (buf.size - base) (fu + 2) s0
      (ReadyP.boundary hb (DV.refl _ _) hp hch hin0) (by rw [hprod0, hoff]; omega) (by omega) (by omega) (by omega)

/-- Chunk sequence with lc/lp/pb changes + end marker, no preset dictionary: all the data, LZMA_STREAM_END, every byte
    consumed. -/
theorem lzma2Decode_of_chunksP (p : Props) (hp : PropsOk p) (dictSize : Nat) (hd : dictSize ≤ 4294967295) (buf : ByteArray)
    (sw : Bool) (bytes : List UInt8) (p' : Props) (CF : L2Cfg)
    (hch : ChunksP dictSize buf 0 sw p (cfg0 p 0) bytes p' CF) (hoff : CF.off = buf.size) (outCap : Nat)
    (hcap : buf.size < outCap) :
    lzma2Decode dictSize (bytes ++ [0]) [] outCap = { ret := .streamEnd, out := hl buf, consumed := bytes.length + 1 } := by
  have := lzma2Decode_of_chunksP_gen true p hp dictSize hd buf 0 (Nat.zero_le _) sw bytes p' CF hch (by omega) outCap (by omega)
  simpa [tlOf_true, retOf_true] using this

/-- Chunk sequence with lc/lp/pb changes WITHOUT end marker (the input stops at a chunk boundary), no preset dictionary:
    all the data, LZMA_OK, every byte consumed.  No side condition on `bytes`. -/
theorem lzma2Decode_of_chunksP_trunc (p : Props) (hp : PropsOk p) (dictSize : Nat) (hd : dictSize ≤ 4294967295) (buf : ByteArray)
    (sw : Bool) (bytes : List UInt8) (p' : Props) (CF : L2Cfg)
    (hch : ChunksP dictSize buf 0 sw p (cfg0 p 0) bytes p' CF) (hoff : CF.off = buf.size) (outCap : Nat)
    (hcap : buf.size < outCap) :
    lzma2Decode dictSize bytes [] outCap = { ret := .ok, out := hl buf, consumed := bytes.length } := by
  have := lzma2Decode_of_chunksP_gen false p hp dictSize hd buf 0 (Nat.zero_le _) sw bytes p' CF hch (by omega) outCap (by omega)
  simpa [tlOf_false, retOf_false] using this

end XzVerif.LzmaExec
