/-
  C13 helper lemmas: a full iteration of the concrete iterator is the specification's listing; an iterator survives
  `lzma_index_append` / `lzma_index_cat` (and anything else that only lets the index grow) between two `next` calls.
-/
import XzVerif.Lemmas.IndexIterImpl
import XzVerif.Lemmas.IndexHist

namespace XzVerif.Index
namespace Impl

/-! ### full iteration -/

theorem iterAllGo_sim {i : Index} (hi : Inv i) (mode : Nat) : ∀ (n : Nat) (it : Iter), IterOk i it →
    iterAllGo i mode n it
      = (Spec.iterSeq (abs i) mode n (specPos i it)).filterMap fun p => Spec.infoAt (abs i) p.1 p.2
  | 0, _, _ => rfl
  | n + 1, it, hwf => by
    obtain ⟨h1, h2⟩ := iterNext_sim hi hwf mode
    unfold iterAllGo Spec.iterSeq
    cases hn : iterNext i it mode with
    | none => rw [h1 hn]; rfl
    | some x =>
      obtain ⟨it', info⟩ := x
      obtain ⟨p, e1, e2, e3, e4, _⟩ := h2 it' info hn
      rw [e1]
      simp only [List.filterMap_cons, e3]
      rw [iterAllGo_sim hi mode n it' e4, e2]

/-- a full iteration with a fresh concrete iterator shows exactly the specification's listing, in every mode -/
theorem iterAll_refines {i : Index} (hi : Inv i) (mode : Nat) : Impl.iterAll i mode = Spec.iterAll (abs i) mode := by
  unfold Impl.iterAll
  rw [iterAllGo_sim hi mode _ _ (iterOk_rewind i), specPos_rewind, iterFuel_eq hi]
  exact Spec.iterSeq_infos (abs i) mode

/-- the iterator `lzma_index_iter_locate` leaves behind is a valid one -/
theorem iterLocate_ok {i : Index} (hi : Inv i) {t : Nat} {it : Iter} {info : Spec.IterInfo}
    (h : iterLocate i t = some (it, info)) : IterOk i it ∧ IterCanon i it := by
  by_cases ht : i.uncompressedSize ≤ t
  · unfold iterLocate at h; rw [if_pos ht] at h; cases h
  · obtain ⟨si, s, gi, g, rec, hloc, hs, hg, hrec, _⟩ := iterLocate_some hi ht
    rw [hloc] at h
    have hit : it = (iterSetInfo i si s (some gi) rec).1 := by cases h; rfl
    have hpos : PosOk i (some si) (some gi) rec := ⟨s, hs, g, hg, hrec⟩
    obtain ⟨d1, d2, d3⟩ := iterSetInfo_decode hi hs hpos
    rw [hit]
    refine ⟨?_, iterCanon_setInfo si s (some gi) rec d3⟩
    unfold IterOk; rw [d1, d2, d3]; exact hpos

/-! ### the index grows under the iterator -/

/-- every group of `s` is still there in `s'`, at the same place, with at least the same Records -/
def GroupsGrow (s s' : Stream) : Prop :=
  ∀ (gi : Nat) (g : Group), s.groups.toList[gi]? = some g → ∃ g', s'.groups.toList[gi]? = some g' ∧ g.records.size ≤ g'.records.size
    ∧ (recsBefore s'.groups.toList gi).length = (recsBefore s.groups.toList gi).length

/-- every Stream of `i` is still there in `i'`, at the same place, and its groups have only grown -/
def Grows (i i' : Index) : Prop :=
  ∀ (si : Nat) (s : Stream), i.streams.toList[si]? = some s → ∃ s', i'.streams.toList[si]? = some s' ∧ GroupsGrow s s'

theorem groupsGrow_refl (s : Stream) : GroupsGrow s s := fun _ g hg => ⟨g, hg, Nat.le_refl _, rfl⟩

theorem groupsGrow_of_eq {s s' : Stream} (h : s'.groups = s.groups) : GroupsGrow s s' := by
  intro gi g hg; rw [h]; exact ⟨g, hg, Nat.le_refl _, rfl⟩

theorem grows_refl (i : Index) : Grows i i := fun _ s hs => ⟨s, hs, groupsGrow_refl s⟩

theorem recsBefore_prefix (a b : List Group) {k : Nat} (hk : k ≤ a.length) : recsBefore (a ++ b) k = recsBefore a k := by
  unfold recsBefore; rw [List.take_append_of_le_length hk]

/-- the last group is replaced by one with at least as many Records, further groups may follow -/
theorem groupsGrow_core {s s' : Stream} {gfront more : List Group} {g g' : Group}
    (h : s.groups.toList = gfront ++ [g]) (h' : s'.groups.toList = gfront ++ [g'] ++ more)
    (hsz : g.records.size ≤ g'.records.size) : GroupsGrow s s' := by
  unfold GroupsGrow
  intro gi x hx
  rw [h] at hx
  have hlt := (List.getElem?_eq_some_iff.mp hx).1
  simp only [List.length_append, List.length_cons, List.length_nil] at hlt
  have hrb : (recsBefore s'.groups.toList gi).length = (recsBefore s.groups.toList gi).length := by
    rw [h, h', List.append_assoc, recsBefore_prefix gfront _ (by omega), recsBefore_prefix gfront _ (by omega)]
  by_cases hk : gi < gfront.length
  · rw [List.getElem?_append_left hk] at hx
    refine ⟨x, ?_, Nat.le_refl _, hrb⟩
    rw [h', List.append_assoc, List.getElem?_append_left hk]; exact hx
  · have hke : gi = gfront.length := by omega
    subst hke
    have : x = g := by simpa using hx.symm
    subst this
    refine ⟨g', ?_, hsz, hrb⟩
    rw [h', List.append_assoc, List.getElem?_append_right (Nat.le_refl _)]; simp

theorem groupsGrow_nil {s s' : Stream} (h : s.groups.toList = []) : GroupsGrow s s' := by
  intro gi g hg; rw [h] at hg; simp at hg

/-- the last Stream is replaced by a grown one, further Streams may follow -/
theorem grows_of_last {i i' : Index} {front more : List Stream} {last last' : Stream}
    (h : i.streams.root.toList = front ++ [last]) (h' : i'.streams.root.toList = front ++ [last'] ++ more)
    (hg : GroupsGrow last last') : Grows i i' := by
  unfold Grows
  intro si s hs
  unfold CTree.toList at hs ⊢
  rw [h] at hs
  have hlt := (List.getElem?_eq_some_iff.mp hs).1
  simp only [List.length_append, List.length_cons, List.length_nil] at hlt
  by_cases hk : si < front.length
  · rw [List.getElem?_append_left hk] at hs
    refine ⟨s, ?_, groupsGrow_refl s⟩
    rw [h', List.append_assoc, List.getElem?_append_left hk]; exact hs
  · have hke : si = front.length := by omega
    subst hke
    have : s = last := by simpa using hs.symm
    subst this
    refine ⟨last', ?_, hg⟩
    rw [h', List.append_assoc, List.getElem?_append_right (Nat.le_refl _)]; simp

/-- the two successful branches of `lzma_index_append` let the last Stream grow -/
theorem appendOk_grows {i : Index} (hi : Inv i) {front : List Stream} {last : Stream}
    (h : i.streams.root.toList = front ++ [last]) (u c : Nat) : Grows i (appendOk i last u c).2 := by
  have hs : StreamInv last := hi.streams last (by unfold CTree.toList; rw [h]; simp)
  unfold appendOk
  simp only
  split
  · next hroom =>
    -- the new Record goes to the last group
    unfold Stream.hasRoom at hroom
    rw [Tree.rightmost?_eq_getLast?] at hroom
    cases hl : last.groups.root.toList.getLast? with
    | none => simp [hl] at hroom
    | some g =>
      obtain ⟨gfront, hg⟩ : ∃ gfront, last.groups.root.toList = gfront ++ [g] := by
        have hne' : last.groups.root.toList ≠ [] := by intro h; simp [h] at hl
        obtain ⟨init, z, hz⟩ := exists_snoc hne'
        rw [hz] at hl; simp at hl; subst hl; exact ⟨init, hz⟩
      apply grows_of_last (more := []) h (by simpa using setLast_toList h _)
      apply groupsGrow_core (more := []) (g := g) hg
      · show (last.groups.root.modifyRightmost _).toList = _
        rw [Tree.toList_modifyRightmost, hg, Spec.modifyLast_append_singleton]; simp; rfl
      · simp
  · split
    · exact grows_refl i
    · -- a new group
      apply grows_of_last (more := []) h (by simpa using setLast_toList h _)
      by_cases hne : last.groups.root.toList = []
      · exact groupsGrow_nil hne
      · obtain ⟨gfront, g, hg⟩ := exists_snoc hne
        refine groupsGrow_core (g := g) (g' := g) (more := [?G]) hg ?h (Nat.le_refl _)
        case h =>
          show (last.groups.append _).toList = _
          rw [CTree.toList_append]
          unfold CTree.toList; rw [hg]

/-- `lzma_index_append` (whatever it answers) lets the index grow -/
theorem append_grows {i : Index} (hi : Inv i) (u c : Nat) : Grows i (Impl.append i u c).2 := by
  obtain ⟨front, last, h⟩ := exists_snoc hi.ne
  unfold CTree.toList at h
  rw [append_eq hi h]
  cases Spec.appendCheck (abs i) u c with
  | some r => exact grows_refl i
  | none => exact appendOk_grows hi h u c

/-- `lzma_index_cat` (whatever it answers) lets the destination grow -/
theorem cat_grows {dest src : Index} (hd : Inv dest) : Grows dest (Impl.cat dest src).2 := by
  rw [cat_eq]
  split
  · exact grows_refl dest
  · split
    · exact grows_refl dest
    · obtain ⟨front, last, h⟩ := exists_snoc hd.ne
      unfold CTree.toList at h
      have h1 : (setLastStream dest shrinkLast).streams.root.toList = front ++ [shrinkLast last] := setLast_toList h shrinkLast
      let info : CatInfo := { uncompressedSize := dest.uncompressedSize, fileSize := Impl.fileSize dest,
                              streamNumberAdd := dest.streams.count, blockNumberAdd := dest.recordCount }
      obtain ⟨c1, _⟩ := catHelper_spec info src.streams.root (setLastStream dest shrinkLast).streams
      have hres : (catOk dest src).streams.root.toList
          = front ++ [shrinkLast last] ++ src.streams.root.toList.map (rebase info) := by
        have := c1; unfold CTree.toList at this; rw [← h1]; exact this
      apply grows_of_last h hres
      by_cases hne : last.groups.root.toList = []
      · exact groupsGrow_nil hne
      · obtain ⟨gfront, g, hg⟩ := exists_snoc hne
        apply groupsGrow_core (more := []) (g := g) hg
        · show ((shrinkLast last).groups.root).toList = _
          unfold shrinkLast
          simp only [Tree.toList_modifyRightmost]
          rw [hg, Spec.modifyLast_append_singleton]; simp; rfl
        · split <;> exact Nat.le_refl _

/-! ### the iterator after the index has grown -/

/-! ### the iterator after the index has grown -/

/-- for the specification iterator "parked on a Stream without Blocks" and "on Block 0 of the Stream" are the same
    current position (finding F6b: this is what the code does) -/
theorem iterNextPos_none_zero (a : SpecIndex) (mode fuel si : Nat) :
    Spec.iterNextPos a mode fuel (some (si, none)) = Spec.iterNextPos a mode fuel (some (si, some 0)) := by
  cases fuel with
  | zero => rfl
  | succ fuel =>
    unfold Spec.iterNextPos
    have : Spec.advance a mode (some (si, none)) = Spec.advance a mode (some (si, some 0)) := rfl
    rw [this]

theorem above_none_zero (si : Nat) (y : Spec.Pos) :
    Spec.above (some (si, none)) y = Spec.above (some (si, some 0)) y := rfl

theorem specPos_curOk {i : Index} {it : Iter} (hok : IterOk i it) : Spec.CurOk (abs i) (specPos i it) := by
  intro c hc
  unfold specPos toSpecPos at hc
  unfold IterOk PosOk at hok
  cases hst : it.stream with
  | none => rw [hst] at hc; cases hc
  | some si =>
    rw [hst] at hc hok
    obtain ⟨s, hs, _⟩ := hok
    simp only [Option.map_some, Option.some.injEq] at hc
    subst hc
    show si < (abs i).length
    have := (List.getElem?_eq_some_iff.mp hs).1
    unfold abs CTree.toList at *; simpa using this

/-- An iterator that is valid for `i` is valid for the grown index `i'`, and names the same specification position —
    except when it was parked on a Stream without Blocks that has Blocks now: then it names Block 0 of that Stream. -/
theorem survive_pos {i i' : Index} (hi' : Inv i') (hg : Grows i i') {it : Iter} (hok : IterOk i it) (hc : IterCanon i it) :
    IterOk i' it ∧ IterCanon i' it
    ∧ (specPos i' it = specPos i it
       ∨ ∃ si, specPos i it = some (si, none) ∧ specPos i' it = some (si, some 0)) := by
  unfold IterOk PosOk at hok
  unfold IterOk IterCanon specPos toSpecPos PosOk
  unfold IterCanon at hc
  cases hst : it.stream with
  | none => exact ⟨trivial, fun h => absurd rfl h, Or.inl rfl⟩
  | some si =>
    rw [hst] at hok hc
    simp only at hok
    obtain ⟨s, hs, hpos⟩ := hok
    obtain ⟨s', hs', hgg⟩ := hg si s hs
    have hsi' : StreamInv s' := hi'.streams s' (List.mem_of_getElem? hs')
    cases hd : decodeGroup i it with
    | some gi =>
      rw [hd] at hpos
      obtain ⟨g, hgi, hrec⟩ := hpos
      obtain ⟨g', hgi', hsz, hnb⟩ := hgg gi g hgi
      have hd' : decodeGroup i' it = some gi := by
        unfold decodeGroup at hd ⊢
        cases hm : it.method with
        | normal => rw [hm] at hd; exact hd
        | next => rw [hm] at hd; exact hd
        | leftmost =>
          rw [hm] at hd
          simp only [hst, Option.bind_some] at hd ⊢
          unfold leftmostGroup at hd ⊢
          rw [streamAt_eq, hs] at hd
          rw [streamAt_eq, hs']
          simp only at hd ⊢
          split at hd
          · cases hd
            have : hasGroups s' = true := by
              rw [hasGroups_iff]; intro hnil
              unfold CTree.toList at hgi'; rw [hnil] at hgi'; simp at hgi'
            rw [if_pos this]
          · cases hd
      rw [hd']
      refine ⟨⟨s', hs', g', hgi', ?_⟩, ?_, Or.inl ?_⟩
      · omega
      · intro _ h; cases h
      · simp only [Option.map_some, specOf, nBefore_eq hs, nBefore_eq hs', hnb]
    | none =>
      rw [hd] at hpos
      obtain ⟨hnil, hrec0⟩ := hpos
      have hm : it.method = .leftmost := hc (by simp) hd
      have hd' : decodeGroup i' it = if hasGroups s' then some 0 else none := by
        unfold decodeGroup
        rw [hm]
        simp only [hst, Option.bind_some]
        unfold leftmostGroup
        rw [streamAt_eq, hs']
      rw [hd']
      by_cases hgs : hasGroups s' = true
      · rw [if_pos hgs]
        have hne := (hasGroups_iff s').mp hgs
        cases hl : s'.groups.root.toList with
        | nil => exact absurd hl hne
        | cons g0 r =>
          have h0 : s'.groups.toList[0]? = some g0 := by unfold CTree.toList; rw [hl]; simp
          have hsz := hsi'.groupsNe g0 (List.mem_of_getElem? h0)
          refine ⟨⟨s', hs', g0, h0, ?_⟩, ?_, Or.inr ⟨si, ?_, ?_⟩⟩
          · omega
          · intro _ h; cases h
          · simp [specOf]
          · simp [specOf, nBefore_zero, hrec0]
      · rw [if_neg hgs]
        have hnil' : s'.groups.root.toList = [] := by
          apply Classical.byContradiction
          intro hne; exact hgs ((hasGroups_iff s').mpr hne)
        exact ⟨⟨s', hs', hnil', hrec0⟩, fun _ _ => hm, Or.inl (by simp [specOf])⟩

/-- **`lzma_index_iter_next` after the index has grown** (by `lzma_index_append`, `lzma_index_cat`, … between two calls):
    the old iterator, used on the new index, does what the specification's `next` does on the new index from the
    position the iterator had. -/
theorem iterNext_survives {i i' : Index} (hi' : Inv i') (hg : Grows i i') {it : Iter} (hok : IterOk i it)
    (hc : IterCanon i it) (mode : Nat) :
    (iterNext i' it mode = none → Spec.iterNextPos (abs i') mode (Spec.iterFuel (abs i')) (specPos i it) = none)
    ∧ ∀ it' info, iterNext i' it mode = some (it', info) →
        ∃ p, Spec.iterNextPos (abs i') mode (Spec.iterFuel (abs i')) (specPos i it) = some p
          ∧ specPos i' it' = some p ∧ Spec.infoAt (abs i') p.1 p.2 = some info ∧ IterOk i' it' ∧ IterCanon i' it' := by
  obtain ⟨hok', _, hpos⟩ := survive_pos hi' hg hok hc
  have hsim := iterNext_sim hi' hok' mode
  have heq : Spec.iterNextPos (abs i') mode (Spec.iterFuel (abs i')) (specPos i' it)
      = Spec.iterNextPos (abs i') mode (Spec.iterFuel (abs i')) (specPos i it) := by
    rcases hpos with h | ⟨si, h1, h2⟩
    · rw [h]
    · rw [h1, h2, iterNextPos_none_zero]
  rw [heq] at hsim
  exact hsim

/-- the rest of the iteration on the grown index: exactly the positions of the new listing after the position the
    iterator had, in order (a parked iterator — `(si, none)` — continues after Block 0 of its Stream: finding F6b) -/
theorem iterRest_survives {i i' : Index} (hi' : Inv i') (hg : Grows i i') {it : Iter} (hok : IterOk i it)
    (hc : IterCanon i it) (mode : Nat) :
    iterAllGo i' mode (iterFuel i') it
      = ((Spec.listingM (abs i') mode).filter fun y => decide (Spec.above (specPos i it) y)).filterMap
          fun p => Spec.infoAt (abs i') p.1 p.2 := by
  obtain ⟨hok', _, hpos⟩ := survive_pos hi' hg hok hc
  rw [iterAllGo_sim hi' mode _ it hok', iterFuel_eq hi', Spec.iterSeq_from _ _ _ (specPos_curOk hok')]
  rcases hpos with h | ⟨si, h1, h2⟩
  · rw [h]
  · rw [h1, h2]; rfl

end Impl
end XzVerif.Index
