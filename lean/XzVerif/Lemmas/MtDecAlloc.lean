/-
  The CVE-2025-31115 shape: the input buffer of the worker the main thread is feeding (coder->thr) is never freed while the
  main thread may still write into it. Two invariants: no worker is exiting unless threads_end is running (`NoExit`), and
  coder->thr's buffer is allocated or already completely filled (`AllocInv`).
-/
import XzVerif.Lemmas.MtDecWake2

namespace XzVerif.MtDec

def Exiting (w : Worker) : Prop := w.st = .exit ∨ w.pc = .cleanup ∨ w.pc = .exited

def isEnding : MPc → Prop
  | .endSet _ _ | .endJoin _ _ => True
  | _ => False

/-- The main thread is at a point from which it may still write to thr->in of coder->thr. -/
def feeding (s : State) : Prop :=
  s.seq = .thrRun ∨ (s.seq = .thrInit ∧ (s.pc = .init4 ∨ s.pc = .init5))

structure AllocInv (s : State) : Prop where
  noExit : (∃ i, i < s.workers.length ∧ Exiting (getW s i)) → isEnding s.pc
  alloc : ¬ isEnding s.pc → s.pc ≠ .ended → feeding s → ∀ t, s.thr = some t →
    (getW s t).inAlloc = true ∨ (getW s t).inFilled = (getW s t).inSize

theorem AllocInv.init (cfg : Cfg) (blocks : List Block) : AllocInv (init cfg blocks) := by
  constructor <;> simp [MtDec.init, feeding]

/-- Transfer along a step that replaces worker `i` by `w'` and leaves pc, seq, thr alone. -/
theorem AllocInv.setW {s s' : State} (h : AllocInv s) (i : Nat) (hi : i < s.workers.length) (w' : Worker)
    (e1 : s'.workers = (MtDec.setW s i w').workers) (e2 : s'.pc = s.pc) (e3 : s'.seq = s.seq) (e4 : s'.thr = s.thr)
    (hx : Exiting w' → Exiting (getW s i))
    (ha : ¬ isEnding s.pc → ((getW s i).inAlloc = true ∨ (getW s i).inFilled = (getW s i).inSize) →
          (w'.inAlloc = true ∨ w'.inFilled = w'.inSize)) : AllocInv s' := by
  have eg : ∀ j, getW s' j = if i = j then w' else getW s j := by
    intro j
    have : getW s' j = getW (MtDec.setW s i w') j := by simp [getW, e1]
    rw [this, getW_setW s i j w' hi]
  have el : s'.workers.length = s.workers.length := by rw [e1]; simp
  refine ⟨?_, ?_⟩
  · rintro ⟨j, hj, hex⟩
    rw [e2]
    apply h.noExit
    rw [el] at hj
    rw [eg] at hex
    by_cases e : i = j
    · subst e; simp only [if_true] at hex; exact ⟨i, hj, hx hex⟩
    · simp only [e, if_false] at hex; exact ⟨j, hj, hex⟩
  · intro hne hned hf t ht
    rw [e2] at hne hned
    have hf' : feeding s := by unfold feeding at hf ⊢; rw [e2, e3] at hf; exact hf
    have := h.alloc hne hned hf' t (e4 ▸ ht)
    rw [eg]
    by_cases e : i = t
    · subst e; simp only [if_true]; exact ha hne this
    · simp only [e, if_false]; exact this

theorem exiting_decide (w : Worker) (h : Exiting (workerDecide w)) : Exiting w := by
  unfold workerDecide at h
  split at h
  · rename_i hst; rcases h with h | h | h <;> simp_all
  · rename_i hst; exact Or.inl hst
  · rename_i hst
    split at h <;> (rcases h with h | h | h <;> simp_all)

theorem workerDecide_inAlloc (w : Worker) : (workerDecide w).inAlloc = w.inAlloc := by
  unfold workerDecide; split <;> (try split) <;> rfl

theorem AllocInv.worker {s s' : State} {l : Label} (h : AllocInv s) (hD : DataInv s) (hl : l.worker?.isSome = true)
    (hs : step s l = some s') : AllocInv s' := by
  cases l <;> simp only [Label.worker?, Option.isSome, reduceCtorEq] at hl <;> simp only [step] at hs
  case wLoop i c =>
    split at hs
    · rename_i hi
      have key : s' = MtDec.setW s i (workerDecide (getW s i)) := by
        split at hs <;> first
          | (injection hs with hs; exact hs.symm)
          | (split at hs <;> first | (injection hs with hs; exact hs.symm) | cases hs)
          | cases hs
      subst key
      refine h.setW i hi _ rfl rfl rfl rfl (exiting_decide _) ?_
      intro _ ha
      rw [workerDecide_inAlloc, workerDecide_inFilled, workerDecide_inSize]; exact ha
    · cases hs
  case wDecode i a b v =>
    split at hs
    case isFalse => cases hs
    rename_i hi
    split at hs
    case h_2 => cases hs
    rename_i lim pu hpc
    have hnx : ∀ w' : Worker, w'.st = (getW s i).st → (w'.pc = .top ∨ w'.pc = .publish ∨ ∃ r, w'.pc = .fin1 r) →
        Exiting w' → Exiting (getW s i) := by
      intro w' e1 e2 hx
      rcases hx with hx | hx | hx
      · exact Or.inl (e1 ▸ hx)
      · rcases e2 with e | e | ⟨r, e⟩ <;> (rw [e] at hx; cases hx)
      · rcases e2 with e | e | ⟨r, e⟩ <;> (rw [e] at hx; cases hx)
    split at hs
    case isFalse => cases hs
    split at hs
    · split at hs
      case isFalse => cases hs
      cases hs
      exact h.setW i hi _ rfl rfl rfl rfl (hnx _ rfl (Or.inr (Or.inr ⟨_, rfl⟩))) (fun _ ha => ha)
    · split at hs
      · cases hs
        exact h.setW i hi _ rfl rfl rfl rfl (hnx _ rfl (Or.inr (Or.inl rfl))) (fun _ ha => ha)
      · cases hs
        exact h.setW i hi _ rfl rfl rfl rfl (hnx _ rfl (Or.inl rfl)) (fun _ ha => ha)
  case wPublish i =>
    split at hs
    case isFalse => cases hs
    rename_i hg
    simp only [Bool.and_eq_true, decide_eq_true_eq] at hg
    cases hs
    refine h.setW i hg.1 { getW s i with pc := .top } rfl rfl rfl rfl ?_ (fun _ ha => ha)
    intro hx
    rcases hx with hx | hx | hx
    · exact Or.inl hx
    · cases hx
    · cases hx
  case wFin1 i =>
    split at hs
    case isFalse => cases hs
    rename_i hi
    split at hs
    case h_2 => cases hs
    rename_i r hpc
    cases hs
    refine h.setW i hi _ rfl rfl rfl rfl ?_ (fun _ ha => ha)
    intro hx
    rcases hx with hx | hx | hx
    · left
      by_cases e : (getW s i).st = .exit
      · exact e
      · simp [e] at hx
    · cases hx
    · cases hx
  case wFin2 i =>
    split at hs
    case isFalse => cases hs
    rename_i hi
    split at hs
    case h_2 => cases hs
    rename_i r hpc
    cases hs
    have hpcI := (hD.wk i hi).pcInv
    rw [hpc] at hpcI
    simp only at hpcI
    refine h.setW i hi _ rfl rfl rfl rfl ?_ ?_
    · intro hx
      rcases hx with hx | hx | hx
      · exact Or.inl hx
      · cases hx
      · cases hx
    · intro _ ha
      by_cases e : r = END
      · exact Or.inr (hpcI.2.2.2.1 e)
      · simpa [e] using ha
  case wFin3 i =>
    split at hs
    case isFalse => cases hs
    rename_i hi
    split at hs
    case h_2 => cases hs
    rename_i r hpc
    have fin : ∀ s2 : State, s2.workers = (MtDec.setW s i { getW s i with hasOut := false, failed := r != END, pc := .top }).workers →
        s2.pc = s.pc → s2.seq = s.seq → s2.thr = s.thr → AllocInv s2 := by
      intro s2 e1 e2 e3 e4
      refine h.setW i hi _ e1 e2 e3 e4 ?_ (fun _ ha => ha)
      intro hx
      rcases hx with hx | hx | hx
      · exact Or.inl hx
      · cases hx
      · cases hx
    by_cases hend : r = END
    · simp only [hend, bne_self_eq_false, Bool.false_and, Bool.false_eq_true, if_false, if_true] at hs
      cases hs
      subst hend
      exact fin _ rfl rfl rfl rfl
    · simp only [hend, if_false] at hs
      cases hs
      split <;> exact fin _ rfl rfl rfl rfl
  case wCleanup i =>
    split at hs
    case isFalse => cases hs
    rename_i hg
    simp only [Bool.and_eq_true, decide_eq_true_eq] at hg
    cases hs
    have hend : isEnding s.pc := h.noExit ⟨i, hg.1, Or.inr (Or.inl hg.2)⟩
    refine h.setW i hg.1 _ rfl rfl rfl rfl (fun _ => Or.inr (Or.inl hg.2)) (fun hne => absurd hend hne)

end XzVerif.MtDec
