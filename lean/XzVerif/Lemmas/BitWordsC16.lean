/-
  Fixed-width word fact for C16, closed by `bv_decide` (policy: DESIGN section 3 — only quantifier-free fixed-width facts,
  only in `Lemmas/BitWords*.lean`, namespace `XzVerif.BitWords`).

  The fixed points of the rounding used by the "picky" dictionary-size test of alone_decoder.c / auto detection
  (`d = ds - 1; d |= d >> 2; d |= d >> 3; d |= d >> 4; d |= d >> 8; d |= d >> 16; ++d; d == ds`, all in uint32_t)
  are exactly 0, the 32 powers of two and the 31 values 2^n + 2^(n-1).
-/
import XzVerif.Model.Alone
import Std.Tactic.BVDecide

namespace XzVerif.BitWords
open XzVerif.Alone

/-- 0, 2^0 … 2^31, 2^1 + 2^0 … 2^31 + 2^30 -/
def pickyFixedLit : List (BitVec 32) := [0#32, 1#32, 2#32, 4#32, 8#32, 16#32, 32#32, 64#32, 128#32, 256#32, 512#32, 1024#32, 2048#32, 4096#32, 8192#32, 16384#32, 32768#32, 65536#32, 131072#32, 262144#32, 524288#32, 1048576#32, 2097152#32, 4194304#32, 8388608#32, 16777216#32, 33554432#32, 67108864#32, 134217728#32, 268435456#32, 536870912#32, 1073741824#32, 2147483648#32, 3#32, 6#32, 12#32, 24#32, 48#32, 96#32, 192#32, 384#32, 768#32, 1536#32, 3072#32, 6144#32, 12288#32, 24576#32, 49152#32, 98304#32, 196608#32, 393216#32, 786432#32, 1572864#32, 3145728#32, 6291456#32, 12582912#32, 25165824#32, 50331648#32, 100663296#32, 201326592#32, 402653184#32, 805306368#32, 1610612736#32, 3221225472#32]

theorem picky_round_fixed (d : BitVec 32) :
    (pickyRoundBV d == d) = pickyFixedLit.any (fun c => d == c) := by
  simp only [pickyFixedLit, List.any_cons, List.any_nil, pickyRoundBV]
  bv_decide

end XzVerif.BitWords
