/-
  Helper lemmas for C02: little-endian words, CRC range, list slicing.
-/
import XzVerif.Model.Container
import XzVerif.Lemmas.C02Vli

namespace XzVerif.Container
open XzVerif XzVerif.Vli

theorem le32_length (n : Nat) : (le32 n).length = 4 := by simp [le32]

theorem rd32_le32 (n : Nat) (h : n < 4294967296) (t : List UInt8) : rd32 (le32 n ++ t) = n := by
  simp only [rd32, le32, List.cons_append, List.nil_append, List.getD_cons_zero, List.getD_cons_succ]
  rw [u8_toNat_ofNat _ (by omega), u8_toNat_ofNat _ (by omega), u8_toNat_ofNat _ (by omega), u8_toNat_ofNat _ (by omega)]
  omega

theorem crc32_lt (b : List UInt8) : crc32 b < 4294967296 := by
  unfold crc32
  exact (Crc.crc32Ref b 0).isLt

theorem rd32_le32_crc (b t : List UInt8) : rd32 (le32 (crc32 b) ++ t) = crc32 b := rd32_le32 _ (crc32_lt b) t

theorem checkSize_le (c : Nat) (h : c ≤ 15) : checkSize c ≤ 64 := by
  have : c = 0 ∨ c = 1 ∨ c = 2 ∨ c = 3 ∨ c = 4 ∨ c = 5 ∨ c = 6 ∨ c = 7 ∨ c = 8 ∨ c = 9 ∨ c = 10 ∨ c = 11 ∨ c = 12
      ∨ c = 13 ∨ c = 14 ∨ c = 15 := by omega
  rcases this with h | h | h | h | h | h | h | h | h | h | h | h | h | h | h | h <;> subst h <;> decide

theorem ceil4_mod (n : Nat) : ceil4 n % 4 = 0 := by unfold ceil4; omega
theorem ceil4_ge (n : Nat) : n ≤ ceil4 n := by unfold ceil4; omega
theorem ceil4_lt (n : Nat) : ceil4 n < n + 4 := by unfold ceil4; omega

end XzVerif.Container
