/-
  C01, LZMA2 decoder side, part 2: `dict_write` (uncompressed chunks) on the window, and the decoder invariant at a chunk
  boundary (`BSt`): sequence = SEQ_CONTROL, the need_* flags agree with the encoder's, the range decoder is reset, the
  window is the data so far, and — when the next LZMA chunk does not reset the state — probabilities / state / reps /
  position agree with the encoder's up to the context renaming `ctxMap p k`.
-/
import XzVerif.Lemmas.Lzma2ExecLoop

namespace XzVerif.LzmaExec
open XzVerif.RangeDec XzVerif.RangeEnc XzVerif.RangeCoder XzVerif.LzDict XzVerif.Lzma XzVerif.LzmaEnc XzVerif.LzmaSymDec
open XzVerif.LzmaSym XzVerif.LzmaSpec XzVerif.Lzma2Enc XzVerif.Lzma2

/-! ### `dict_write` -/

theorem hl_appendSlice (src : ByteArray) : ∀ (n off : Nat) (h : ByteArray), off + n ≤ src.size →
    hl (appendSlice src n off h) = hl h ++ ((hl src).drop off).take n
  | 0, off, h, _ => by simp [appendSlice]
  | n + 1, off, h, hle => by
    have hlt : off < src.size := by omega
    have hlt' : off < (hl src).length := by rw [hl_length]; exact hlt
    unfold appendSlice
    rw [dif_pos hlt, hl_appendSlice src n (off + 1) _ (by omega), hl_push]
    have hb : (hl src)[off] = src[off] := rfl
    rw [List.drop_eq_getElem_cons hlt', List.take_succ_cons, hb]
    simp only [List.append_assoc, List.cons_append, List.nil_append]
    rfl

theorem size_appendSlice (src : ByteArray) : ∀ (n off : Nat) (h : ByteArray), (appendSlice src n off h).size = h.size + n
  | 0, _, _ => rfl
  | n + 1, off, h => by
    unfold appendSlice
    rw [size_appendSlice src n, ByteArray.size_push]; omega

/-- appending `n` bytes `bs` to the history: the window gets them in front (reversed) -/
theorem Win.append {s t : St} {rb : List UInt8} {dictSize : Nat} (h : Win s rb dictSize) (bs : List UInt8)
    (hhist : hl t.hist = hl s.hist ++ bs) (hdp : t.dp = s.dp.advance bs.length) (hroom : s.dp.pos + bs.length ≤ s.dp.limit) :
    Win t (bs.reverse ++ rb) dictSize := by
  obtain ⟨⟨extra, hpre⟩, hfl, hfg, hsz, hun, hwr, hpl, hll⟩ := h
  have htsz : t.hist.size = s.hist.size + bs.length := by
    rw [← hl_length, hhist, List.length_append, hl_length]
  simp only [LZ_DICT_INIT_POS, LZ_DICT_REPEAT_MAX] at hun hwr ⊢
  refine ⟨⟨extra, ?_⟩, ?_, ?_, ?_, ?_, ?_, ?_, ?_⟩
  · rw [hhist, hpre]; simp
  · rw [hdp, htsz]
    simp only [DictPos.advance, LZ_DICT_INIT_POS]
    by_cases hw : s.dp.hasWrapped = true
    · simp only [hw, if_true]; omega
    · have hw' : s.dp.hasWrapped = false := by simpa using hw
      have := hun hw'
      simp only [hw', Bool.false_eq_true, if_false]; omega
  · rw [hdp]
    simp only [DictPos.advance, LZ_DICT_INIT_POS, List.length_append, List.length_reverse]
    by_cases hw : s.dp.hasWrapped = true
    · have := hwr hw
      simp only [hw, if_true]; right; omega
    · have hw' : s.dp.hasWrapped = false := by simpa using hw
      have := hun hw'
      simp only [hw', Bool.false_eq_true, if_false]
      rcases hfg with hh | hh
      · left; omega
      · right; omega
  · rw [hdp]; exact hsz
  · rw [hdp]
    intro hw
    have hw' : s.dp.hasWrapped = false := hw
    have := hun hw'
    simp only [DictPos.advance, LZ_DICT_INIT_POS, hw', Bool.false_eq_true, if_false, and_true]; omega
  · rw [hdp]
    intro hw
    have hw' : s.dp.hasWrapped = true := hw
    have := hwr hw'
    simp only [DictPos.advance, hw', if_true, LZ_DICT_REPEAT_MAX]; omega
  · rw [hdp]; simp only [DictPos.advance]; omega
  · rw [hdp]; exact hll

/-- the window after `n` more bytes of the data -/
theorem win_add (buf : ByteArray) (i n : Nat) :
    win buf (i + n) = (((hl buf).drop i).take n).reverse ++ win buf i := by
  simp only [win]
  rw [← List.reverse_append]
  congr 1
  rw [List.take_add]

theorem sliceList_eq (buf : ByteArray) (i n : Nat) : sliceList buf i n = ((hl buf).drop i).take n := by
  simp [sliceList, toList_eq, hl, ByteArray.data_extract]

theorem sliceList_length (buf : ByteArray) (i n : Nat) (h : i + n ≤ buf.size) : (sliceList buf i n).length = n := by
  rw [sliceList_eq]
  simp [hl_length]; omega

/-! ### invariants -/

/-- the decoder's LZMA state in step with the encoder's (up to the context renaming) -/
structure LzOk (p : Props) (encPos : Nat) (st : SymSt) (ps : Probs) (s : St) : Prop where
  lc : s.lc = p.lc
  lp : s.lp = p.lp
  pb : s.pb = p.pb
  stOk : StOk s st
  stlt : st.state < 12
  rep : RepOk s st
  ren : ∃ k, s.dp.pos % 16 = (encPos + k) % 16 ∧ RenamedT (ctxMap p k) ps s.probs
  psok : PsOk p s.probs

/-- the decoder at a chunk boundary -/
structure BSt (p : Props) (dictSize : Nat) (buf : ByteArray) (base : Nat) (C : L2Cfg) (s : St) : Prop where
  seq : s.l2.seq = .control
  np : s.l2.needProperties = C.needProps
  ndr : s.l2.needDictionaryReset = false
  cndr : C.needDictReset = false
  props : C.needProps = false → s.l2.props = p
  initLeft : s.initLeft = 5
  range : s.range = UINT32_MAX
  code : s.code = 0
  pending : s.pending = Pending.none
  win : Win s (win buf (base + C.off)) dictSize
  lz : C.needProps = false → C.needStateReset = false → LzOk p C.encPos C.st C.ps s
  nr : s.dp.needReset = false
  cfg2 : C.needProps = true → C.needStateReset = false → C.st = {} ∧ C.ps = initProbs p
  off : base + C.off ≤ buf.size
  prod : s.hist.size = s.outBase + C.off

/-! ### renaming through a chunk -/

theorem renamedT_resolve {f : Nat → Nat} (hinj : ∀ a b, f a = f b → a = b) : ∀ (ops : List Op) (ps1 ps2 : Probs),
    RenamedT f ps1 ps2 → RenamedT f (resolve ps1 ops).2 (resolve ps2 (ops.map (opRename f))).2
  | [], _, _, h => h
  | .bit c b :: ops, ps1, ps2, h => by
    simp only [List.map_cons, opRename, resolve]
    rw [(h.2 c).2]
    exact renamedT_resolve hinj ops _ _ (renamedT_set hinj h c _)
  | .direct b :: ops, ps1, ps2, h => by
    simp only [List.map_cons, opRename, resolve]
    exact renamedT_resolve hinj ops _ _ h

theorem renamedT_encOps {f : Nat → Nat} (hinj : ∀ a b, f a = f b → a = b) (ops : List Op) (ps1 ps2 : Probs)
    (h : RenamedT f ps1 ps2) : RenamedT f (encOps ps1 Enc.init ops).1 (encOps ps2 Enc.init (ops.map (opRename f))).1 := by
  rw [encOps_resolve, encOps_resolve]; exact renamedT_resolve hinj ops ps1 ps2 h

/-- the operations of a successful `encSyms` use existing contexts only -/
theorem encSyms_allLt (p : Props) (hp : PropsOk p) (dictSize : Nat) (hd : dictSize ≤ 4294967295) (syms : List Sym)
    (pos : Nat) (st : SymSt) (hst : st.state < 12) (rb : List UInt8) {ops : List Op} {posF : Nat} {stF : SymSt}
    {rbF : List UInt8} (h : encSyms p dictSize syms pos st rb = some (ops, posF, stF, rbF)) :
    AllLt (probsSize p.lc p.lp) ops ∧ stF.state < 12 := by
  have hexp := encSyms_expand p dictSize hd syms pos st rb h
  obtain ⟨ops', pos', st', henc', hs', hall⟩ := encSyms_of_expand p hp dictSize hd syms pos st rb rbF hst hexp
  rw [h] at henc'
  simp only [Option.some.injEq, Prod.mk.injEq] at henc'
  obtain ⟨rfl, _, rfl, _⟩ := henc'
  exact ⟨hall, hs'⟩

theorem chan_tail {ps psF : Probs} {rc : Rc} {rest tail : List UInt8} {ops : List Op}
    (h : Chan ps rc rest ops tail psF) : ∃ re, rest = re ++ tail := by
  obtain ⟨e, _, _, hs, _⟩ := h
  obtain ⟨re, hre, _⟩ := hs
  exact ⟨re, hre⟩

/-! ### the first `lzma_decode` call of an LZMA chunk -/

theorem psOk_encOps (p : Props) (ps : Probs) (ops : List Op) (h : PsOk p ps) (hall : AllLt (probsSize p.lc p.lp) ops) :
    ProbsOk ps ops ∧ PsOk p (encOps ps Enc.init ops).1 := by
  have hok : ProbsOk ps ops := ⟨h.2, by rw [h.1]; exact hall⟩
  refine ⟨hok, ?_⟩
  rw [encOps_resolve]
  exact ⟨by rw [resolve_size]; exact h.1, resolve_probsOk ops ps hok⟩

/-- At SEQ_LZMA with a reset range decoder and the chunk's payload ahead: after `rc_read_init` the decoder is in
    `CallSt` for the chunk's symbols (mode "known size, no end marker"). -/
theorem lz_start (p : Props) (hp : PropsOk p) (dictSize : Nat) (hd : dictSize ≤ 4294967295) (buf : ByteArray)
    (base off encPos : Nat) (st0 : SymSt) (ps0 : Probs) (t : St) (hlz : LzOk p encPos st0 ps0 t)
    (hwin : Win t (win buf (base + off)) dictSize) (hinit : t.initLeft = 5) (hrange : t.range = UINT32_MAX)
    (hcode : t.code = 0) (hpend : t.pending = Pending.none)
    (syms : List Sym) (ops : List Op) (encPos' : Nat) (st' : SymSt) (usize : Nat)
    (henc : encSyms p dictSize syms encPos st0 (win buf (base + off)) = some (ops, encPos', st', win buf (base + off + usize)))
    (hlen : symsLen syms = usize) (rest : List UInt8)
    (hin : t.inp.data.toList.drop t.inPos = (encFlush (encOps ps0 Enc.init ops).2).out ++ rest)
    (hunc : t.uncomp = some usize) :
    ∃ k t' psF, lzmaCall t = lzmaCall t' ∧
      CallSt p dictSize k false rest psF t' usize encPos' st' (win buf (base + off + usize)) ∧
      RenamedT (ctxMap p k) (encOps ps0 Enc.init ops).1 psF ∧ PsOk p psF ∧ t.dp.pos % 16 = (encPos + k) % 16 ∧
      t'.inPos = t.inPos + 5 ∧ t'.l2 = t.l2 ∧ t'.dp = t.dp ∧ t'.hist = t.hist ∧ t'.outBase = t.outBase ∧ t'.inp = t.inp ∧
      5 ≤ (encFlush (encOps ps0 Enc.init ops).2).out.length := by
  obtain ⟨hlc, hlp, hpb, hst, hstlt, hrep, ⟨k, hk, hren⟩, hpsok⟩ := hlz
  obtain ⟨hall, hst'lt⟩ := encSyms_allLt p hp dictSize hd syms encPos st0 hstlt _ henc
  have hallD := allLt_rename p k hp ops hall
  obtain ⟨hokD, hpsF⟩ := psOk_encOps p t.probs _ hpsok hallD
  have hsz : ps0.size = probsSize p.lc p.lp := by rw [hren.1, hpsok.1]
  -- the payload, seen with the decoder's contexts
  have hbytes : (encFlush (encOps t.probs Enc.init (ops.map (opRename (ctxMap p k)))).2).out
      = (encFlush (encOps ps0 Enc.init ops).2).out :=
    rcEncode_rename _ (ctxMap_inj p k hp) ops ps0 t.probs hren.toRenamed (by rw [hsz]; exact hall)
  obtain ⟨rc, rest1, hri, hchan, _⟩ := chan_init t.probs (ops.map (opRename (ctxMap p k))) rest hokD
  rw [hbytes] at hri
  obtain ⟨hcall, hrcr, pre5, hpre5, hpre5len⟩ := rcReadInit_five t hinit hrange hcode hin hri
  have hplen : 5 ≤ (encFlush (encOps ps0 Enc.init ops).2).out.length := by
    have h1 := congrArg List.length hpre5
    obtain ⟨re, hre⟩ := chan_tail hchan
    rw [hre] at h1
    simp only [List.length_append] at h1
    omega
  refine ⟨k, { t with code := rc.code, inPos := t.inPos + 5, initLeft := 0 }, _, ?_, ?_,
    renamedT_encOps (ctxMap_inj p k hp) ops ps0 t.probs hren, hpsF, hk, rfl, rfl, rfl, rfl, rfl, rfl, hplen⟩
  · exact lzmaCall_of_init _ _ (by rw [hpend]; rfl) hcall rfl rfl
  · have hlenin : t.inp.size - t.inPos = (encFlush (encOps ps0 Enc.init ops).2).out.length + rest.length := by
      have := congrArg List.length hin
      simp only [List.length_drop, Array.length_toList, ByteArray.size_data, List.length_append] at this
      exact this
    have hle5 : pre5.length + rest1.length = (encFlush (encOps ps0 Enc.init ops).2).out.length + rest.length := by
      have := congrArg List.length hpre5
      simp only [List.length_append] at this
      omega
    refine ⟨⟨encPos, st0, win buf (base + off), 0, win buf (base + off), syms, t.probs, rc, rest1, _, ?_, ?_, hrep, ?_, henc,
      ?_, by omega⟩, rfl, (fun h => by cases h), fun _ => hunc⟩
    · exact ⟨hlc, hlp, hpb, ⟨hst.state, hst.rep0, hst.rep1, hst.rep2, hst.rep3⟩, hstlt, hwin.congr rfl rfl, hk⟩
    · show PendOk _ st0 _ t.pending 0 _
      rw [hpend]; exact ⟨rfl, rfl⟩
    · refine ⟨rfl, hrange.trans hrcr.symm, rfl, ?_, ?_⟩
      · show t.inPos + 5 + rest1.length = t.inp.size
        omega
      · show rest1 = t.inp.data.toList.drop (t.inPos + 5)
        rw [← List.drop_drop, hin, hpre5, List.drop_left' hpre5len]
    · simp only [endOps, Bool.false_eq_true, if_false, List.append_nil]
      exact hchan

/-! ### SEQ_LZMA: one `lzma_decode` call inside `lzma2_decode` -/

/-- One SEQ_LZMA iteration. `t` is the state the iteration starts from, `t'` the same state with the init bytes read
    (`t' = t` for a resumed call). Either the chunk ends here and the loop goes on at SEQ_CONTROL, or the dictionary is
    full and `lzma2_decode` returns LZMA_OK, to be resumed. -/
theorem lbody_step (p : Props) (hp : PropsOk p) (dictSize : Nat) (hd : dictSize ≤ 4294967295) (k : Nat) (rest : List UInt8)
    (psF : Probs) (t t' : St) (n posF : Nat) (stF : SymSt) (rbF : List UInt8)
    (hcall : lzmaCall t = lzmaCall t') (hst : CallSt p dictSize k false rest psF t' n posF stF rbF)
    (hseq : t.l2.seq = .lzma) (hl2 : t'.l2 = t.l2) (hpos : t.inPos ≤ t'.inPos)
    (hcs : t.l2.compressedSize + rest.length = t.inp.size - t.inPos) (hinp : t'.inp = t.inp) (f : Nat) :
    (n ≤ t'.dp.limit - t'.dp.pos ∧ ∃ sF, EndSt p dictSize k false rest psF t' sF n posF stF rbF ∧
      lzma2Loop (f + 1) t = lzma2Loop f (setL2 sF fun l => { l with compressedSize := 0, seq := .control })) ∨
    (t'.dp.limit - t'.dp.pos < n ∧ ∃ s2, lzma2Loop (f + 1) t = (.ok, s2) ∧
      CallSt p dictSize k false rest psF s2 (n - (t'.dp.limit - t'.dp.pos)) posF stF rbF ∧ s2.dp.pos = t'.dp.limit ∧
      s2.l2.seq = .lzma ∧ s2.l2.compressedSize + rest.length = s2.inp.size - s2.inPos ∧ KeepC t' { s2 with l2 := t'.l2 } ∧
      s2.l2.needProperties = t.l2.needProperties ∧ s2.l2.needDictionaryReset = t.l2.needDictionaryReset ∧
      s2.l2.props = t.l2.props) := by
  rw [loop_lzma f t hseq, hcall]
  rcases call_run p hp dictSize hd k false rest psF t' n posF stF rbF hst with ⟨hfit, sF, hc, hend⟩ | ⟨hnofit, s2, hc, hst2, hp2, hk2⟩
  · left
    refine ⟨hfit, sF, hend, ?_⟩
    rw [hc]
    simp only []
    have hl2F : sF.l2 = t.l2 := by rw [hend.keep.l2, hl2]
    have hinF : sF.inp = t.inp := by rw [hend.keep.inp, hinp]
    have hused : sF.inPos - t.inPos = t.l2.compressedSize := by
      have := hend.inPos
      rw [hinF] at this
      omega
    have h1 : ¬ (sF.inPos - t.inPos > sF.l2.compressedSize) := by rw [hused, hl2F]; omega
    rw [if_neg h1]
    simp only [show (Ret.streamEnd != Ret.streamEnd) = false from rfl, Bool.false_eq_true, if_false]
    have h2 : ((setL2 sF fun l => { l with compressedSize := l.compressedSize - (sF.inPos - t.inPos) }).l2.compressedSize != 0)
        = false := by
      show (sF.l2.compressedSize - (sF.inPos - t.inPos) != 0) = false
      rw [hused, hl2F]; simp
    rw [h2]
    simp only [Bool.false_eq_true, if_false]
    congr 1
    show setL2 (setL2 sF _) _ = setL2 sF _
    simp only [setL2]
    rw [hused, hl2F]
    simp
  · right
    obtain ⟨pos2, st2, rb2, m2, rb4, syms2, ps2, rc2, rest2, ops2, hs2, hpd2, hr2, hv2, henc2, hch2, hn2⟩ := hst2.work
    obtain ⟨re, hre⟩ := chan_tail hch2
    have hin2 : s2.inp = t.inp := by rw [hk2.inp, hinp]
    have hl22 : s2.l2 = t.l2 := by rw [hk2.l2, hl2]
    have hv2pos := hv2.pos
    rw [hre, List.length_append, hin2] at hv2pos
    have hmono := hk2.inPosMono
    have hle : s2.inPos - t.inPos ≤ t.l2.compressedSize := by omega
    refine ⟨hnofit, setL2 s2 fun l => { l with compressedSize := l.compressedSize - (s2.inPos - t.inPos) }, ?_, ?_, hp2,
      ?_, ?_, ?_, ?_, ?_, ?_⟩
    · rw [hc]
      simp only []
      have h1 : ¬ (s2.inPos - t.inPos > s2.l2.compressedSize) := by rw [hl22]; omega
      rw [if_neg h1]
      simp only [show (Ret.ok != Ret.streamEnd) = true from rfl, if_true]
    · -- CallSt is indifferent to the LZMA2 bookkeeping
      exact ⟨⟨pos2, st2, rb2, m2, rb4, syms2, ps2, rc2, rest2, ops2,
        ⟨hs2.lc, hs2.lp, hs2.pb, ⟨hs2.stOk.state, hs2.stOk.rep0, hs2.stOk.rep1, hs2.stOk.rep2, hs2.stOk.rep3⟩, hs2.stlt,
          hs2.win.congr rfl rfl, hs2.hk⟩, hpd2.congr (Nat.le_refl _), hr2, hv2.congr rfl rfl rfl rfl rfl, henc2, hch2, hn2⟩,
        hst2.initLeft, hst2.modeA, hst2.modeB⟩
    · show s2.l2.seq = .lzma; rw [hl22]; exact hseq
    · show s2.l2.compressedSize - (s2.inPos - t.inPos) + rest.length = s2.inp.size - s2.inPos
      rw [hl22, hin2]
      omega
    · exact ⟨hk2.inp, hk2.allowEopm, hk2.eopmValid, hk2.outBase, rfl, hk2.limit, hk2.size, hk2.needReset, hk2.grow, hk2.histpos, hk2.inPosMono⟩
    · show s2.l2.needProperties = _; rw [hl22]
    · show s2.l2.needDictionaryReset = _; rw [hl22]
    · show s2.l2.props = _; rw [hl22]

end XzVerif.LzmaExec
