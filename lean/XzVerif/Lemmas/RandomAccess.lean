/-
  C13 `random_access`, part 1: Blocks.

  A file is described Block by Block (`BlockDesc`: Block Header bytes, the decoded header, Compressed Data, its decoded
  output, Block Padding, Check) and Stream by Stream (`XStream`: Check ID, Blocks, Stream Padding).  The description is tied
  to the declarative grammar of Lemmas/XzGrammar.lean (`DBlock`: the payload premise, the size fields, padding, Check) and to
  the specification-level file of Lemmas/FileInfoFile.lean (`StreamDesc`: Records + abstract Block bytes).

  This file: completeness of `blockAt` (Model/RandomAccess.lean: what a random-access reader does at a Block's offset — Block
  Header size byte, Block Header, chain validation, `block_decode`) on a declarative Block (`blockAt_complete`), the length of a Block
  (= `vli_ceil4(Unpadded Size)`), the limits of `lzma_index_hash_append` for every prefix of a Stream's Records
  (`hashLimits_prefix`) and the Blocks of one Stream as `DBlocks` (`dblocks_of_list`).
  Kernel proofs.
-/
import XzVerif.Lemmas.XzComplete
import XzVerif.Lemmas.FileInfoMain
import XzVerif.Model.RandomAccess

namespace XzVerif.RandomAccess
open XzVerif XzVerif.XzDecode XzVerif.Container

/-- One Block of a file, field by field. -/
structure BlockDesc where
  /-- the bytes of the Block Header (size byte … CRC32) -/
  hb : List UInt8
  /-- what they decode to -/
  h : BlockHeader
  /-- Compressed Data -/
  c : List UInt8
  /-- the data the Block holds -/
  o : List UInt8
  /-- Block Padding -/
  pad : List UInt8
  /-- Check field -/
  chk : List UInt8

namespace BlockDesc

def bytes (B : BlockDesc) : List UInt8 := B.hb ++ B.c ++ B.pad ++ B.chk
/-- Unpadded Size: Block Header + Compressed Data + Check -/
def unpadded (check : Nat) (B : BlockDesc) : Nat := B.c.length + B.hb.length + checkSize check
/-- the Record of the Block in the Index -/
def record (check : Nat) (B : BlockDesc) : Index.Block := ⟨B.unpadded check, B.o.length⟩

/-- the parts of a valid Block that do not depend on the payload decoder -/
structure Wf (check : Nat) (B : BlockDesc) : Prop where
  hb_cons : ∃ b0 tl, B.hb = b0 :: tl ∧ b0.toNat ≠ 0
  hdr : blockHeaderDecodeWith B.hb.length check B.hb = .ok B.h
  chain : ∃ n, validateChain (B.h.filters.map (·.id)) = .ok n
  clen_pos : B.c.length ≠ 0

/-- the declarative Block of Lemmas/XzGrammar.lean for output capacity `cap` (the capacity enters only through the
    allowance `min cap uncompressed_limit` given to the payload decoder) -/
def DecodesAt (E : Env) (check : Nat) (ign : Bool) (cap : Nat) (B : BlockDesc) : Prop :=
  DBlock E check ign B.h cap B.c B.o B.pad B.chk

/-- `DecodesAt` depends on the capacity only through the output allowance. -/
theorem DecodesAt.congr {E : Env} {check : Nat} {ign : Bool} {cap cap' : Nat} {B : BlockDesc}
    (h : B.DecodesAt E check ign cap) (ha : outAllowance cap' B.h = outAllowance cap B.h) : B.DecodesAt E check ign cap' := by
  unfold DecodesAt at *
  exact ⟨by rw [ha]; exact h.payload, h.csize, h.usize, h.pad_eq, h.chk_len, h.chk_ok⟩

/-- a Block whose header states the Uncompressed Size decodes with every capacity that holds its data -/
theorem DecodesAt.of_usize {E : Env} {check : Nat} {ign : Bool} {cap cap' : Nat} {B : BlockDesc}
    (h : B.DecodesAt E check ign cap) {u : Nat} (hu : B.h.uncompressedSize = some u) (h1 : B.o.length ≤ cap)
    (h2 : B.o.length ≤ cap') : B.DecodesAt E check ign cap' := by
  apply h.congr
  have := h.usize u hu
  unfold outAllowance uncompressedLimit
  rw [hu]
  simp only []
  omega

end BlockDesc

theorem checkSize_mod4 : ∀ c, c < 16 → checkSize c % 4 = 0 := by decide

theorem checkSize_zero : checkSize 0 = 0 := by decide

/-- length of a Block = `vli_ceil4(Unpadded Size)` -/
theorem bytes_length {E : Env} {check : Nat} {ign : Bool} {cap : Nat} {B : BlockDesc} (hw : B.Wf check)
    (hd : B.DecodesAt E check ign cap) : B.bytes.length = Index.vliCeil4 (B.unpadded check) := by
  obtain ⟨hsz, hck⟩ := blockHeaderDecodeWith_size _ _ _ _ hw.hdr
  have hc4 := checkSize_mod4 check (by unfold CHECK_ID_MAX at hck; omega)
  have hpad : B.pad.length = blockPadLen B.c.length := by rw [hd.pad_eq, List.length_replicate]
  have hchk : B.chk.length = checkSize check := by
    have := hd.chk_len
    by_cases h0 : check = 0
    · rw [if_pos h0] at this; rw [this, h0, checkSize_zero]
    · rw [if_neg h0] at this; exact this
  unfold BlockDesc.bytes BlockDesc.unpadded Index.vliCeil4
  simp only [List.length_append, hpad, hchk]
  unfold blockPadLen
  omega

/-! ### decoding the Block found at an offset -/

/-- the size limit of the Block decoder is respected by every Block whose Unpadded Size is in range -/
theorem clen_le_limit {E : Env} {check : Nat} {ign : Bool} {cap : Nat} {B : BlockDesc} (_hw : B.Wf check)
    (hd : B.DecodesAt E check ign cap) (hu : B.unpadded check ≤ Container.UNPADDED_SIZE_MAX) :
    B.c.length ≤ compressedLimit B.hb.length check B.h.compressedSize := by
  cases hcs : B.h.compressedSize with
  | some x => rw [hd.csize x hcs]; exact Nat.le_refl _
  | none =>
    unfold BlockDesc.unpadded at hu
    unfold compressedLimit Container.UNPADDED_SIZE_MAX Vli.VLI_MAX at *
    simp only []
    omega

/-- **The Block decoder started at the first byte of a declaratively valid Block returns the Block's data**, consumes
    exactly the Block and reports its Compressed Size, whatever follows the Block. -/
theorem blockAt_complete (E : Env) (hloc : PayloadLocal E) (check : Nat) (ign : Bool) (cap : Nat) (B : BlockDesc)
    (hw : B.Wf check) (hd : B.DecodesAt E check ign cap) (hu : B.unpadded check ≤ Container.UNPADDED_SIZE_MAX)
    (rest : List UInt8) :
    blockAt E check ign (B.bytes ++ rest) cap
      = { ret := .streamEnd, out := B.o, consumed := B.bytes.length, compressed := B.c.length } := by
  obtain ⟨b0, tl, hhb, hb0⟩ := hw.hb_cons
  obtain ⟨hsz, hck⟩ := blockHeaderDecodeWith_size _ _ _ _ hw.hdr
  have hg : B.hb.getD 0 0 = b0 := by rw [hhb]; rfl
  rw [hg] at hsz
  have hlim := clen_le_limit hw hd hu
  have hbd := blockDecode_complete E hloc check ign B.hb.length B.h cap B.c B.o B.pad B.chk rest hd hlim
  have hhdr := hw.hdr
  obtain ⟨n, hn⟩ := hw.chain
  generalize hhs : B.hb.length = hs at hsz hbd hhdr
  have hinp : B.bytes ++ rest = b0 :: (tl ++ (B.c ++ B.pad ++ B.chk ++ rest)) := by
    unfold BlockDesc.bytes; rw [hhb]; simp only [List.append_assoc, List.cons_append]
  have htake : List.take hs (b0 :: (tl ++ (B.c ++ B.pad ++ B.chk ++ rest))) = B.hb := by
    rw [← List.cons_append, ← hhb, ← hhs]; exact List.take_left' rfl
  have hdrop : List.drop hs (b0 :: (tl ++ (B.c ++ B.pad ++ B.chk ++ rest))) = B.c ++ B.pad ++ B.chk ++ rest := by
    rw [← List.cons_append, ← hhb, ← hhs]; exact List.drop_left' rfl
  have hlen : hs ≤ (b0 :: (tl ++ (B.c ++ B.pad ++ B.chk ++ rest))).length := by
    rw [← List.cons_append, ← hhb, List.length_append, hhs]; omega
  have hblen : B.bytes.length = hs + (B.c.length + B.pad.length + B.chk.length) := by
    unfold BlockDesc.bytes; simp only [List.length_append, hhs]; omega
  rw [hinp]
  simp only [blockAt]
  rw [hsz, if_neg (by omega), htake, hhdr]
  simp only []
  rw [hn]
  simp only []
  rw [hdrop, hbd, hblen]

/-! ### the limits of `lzma_index_hash_append` follow from the limits of the Stream's Records -/

theorem hBlocksSize_map (p : List Index.Block) : hBlocksSize (p.map Index.toRecord) = Index.blocksSize p := by
  unfold hBlocksSize Index.blocksSize
  rw [List.map_map]
  rfl

theorem hUncompressedSize_map (p : List Index.Block) : hUncompressedSize (p.map Index.toRecord) = Index.uncompSize p := by
  unfold hUncompressedSize Index.uncompSize
  rw [List.map_map]
  rfl

theorem hIndexListSize_map (p : List Index.Block) : hIndexListSize (p.map Index.toRecord) = Index.listSize p :=
  Index.container_listSize_eq p

theorem hashLimits_of_blocksOk {p : List Index.Block} (h : Index.BlocksOk p) : HashLimits (p.map Index.toRecord) := by
  unfold HashLimits
  rw [hBlocksSize_map, hUncompressedSize_map, hIndexListSize_map]
  unfold hCount
  rw [List.length_map, Index.container_indexSize_eq]
  have h1 := h.bsize; have h2 := h.usize; have h3 := h.fsize; have h4 := h.isize
  unfold Container.indexStreamSize
  rw [Index.container_indexSize_eq]
  unfold Vli.VLI_MAX Container.BACKWARD_SIZE_MAX Container.STREAM_HEADER_SIZE
  unfold Index.UNPADDED_SIZE_MAX Index.VLI_MAX Index.BACKWARD_SIZE_MAX Index.STREAM_HEADER_SIZE at *
  omega

/-- every prefix of an acceptable list of Records is acceptable -/
theorem blocksOk_prefix {bs p q : List Index.Block} (h : Index.BlocksOk bs) (hs : bs = p ++ q) : Index.BlocksOk p := by
  have hlen := h.length_le
  have h1 : Index.blocksSize p ≤ Index.blocksSize bs := by rw [hs, Index.blocksSize_append]; omega
  have h2 : Index.uncompSize p ≤ Index.uncompSize bs := by rw [hs, Index.uncompSize_append]; omega
  have h3 : Index.listSize p ≤ Index.listSize bs := by rw [hs, Index.listSize_append]; omega
  have h4 : p.length ≤ bs.length := by rw [hs]; simp
  have hidx := Index.indexSize_mono h4 hlen h3
  refine ⟨fun b hb => h.blocks b (by rw [hs]; exact List.mem_append_left _ hb), ?_, ?_, ?_, ?_⟩
  · have := h.bsize; omega
  · have := h.usize; omega
  · have := h.fsize; omega
  · have := h.isize; omega

theorem hashLimits_prefix {bs p q : List Index.Block} (h : Index.BlocksOk bs) (hs : bs = p ++ q) :
    HashLimits (p.map Index.toRecord) := hashLimits_of_blocksOk (blocksOk_prefix h hs)

/-! ### the Blocks of one Stream -/

/-- the Blocks decode one after the other when the decoder starts with capacity `cap` (each Block leaves
    `cap - |its data|` to the next) -/
def SeqDec (E : Env) (check : Nat) (ign : Bool) : Nat → List BlockDesc → Prop
  | _, [] => True
  | cap, B :: r => B.DecodesAt E check ign cap ∧ SeqDec E check ign (cap - B.o.length) r

def blocksBytes (Bs : List BlockDesc) : List UInt8 := Bs.flatMap BlockDesc.bytes
def blocksOut (Bs : List BlockDesc) : List UInt8 := Bs.flatMap (·.o)
def records (check : Nat) (Bs : List BlockDesc) : List Index.Block := Bs.map (BlockDesc.record check)

theorem blocksBytes_length {E : Env} {check : Nat} {ign : Bool} : ∀ (Bs : List BlockDesc) (cap : Nat),
    (∀ B ∈ Bs, B.Wf check) → SeqDec E check ign cap Bs → (blocksBytes Bs).length = Index.blocksSize (records check Bs)
  | [], _, _, _ => rfl
  | B :: r, cap, hw, hs => by
    have ih := blocksBytes_length r (cap - B.o.length) (fun x hx => hw x (List.mem_cons_of_mem _ hx)) hs.2
    have hb := bytes_length (hw B (List.mem_cons_self ..)) hs.1
    unfold blocksBytes records Index.blocksSize at *
    simp only [List.flatMap_cons, List.length_append, List.map_cons, List.sum_cons, List.map_map] at ih ⊢
    rw [ih, hb]
    rfl

theorem blocksOut_length (check : Nat) : ∀ (Bs : List BlockDesc), (blocksOut Bs).length = Index.uncompSize (records check Bs)
  | [] => rfl
  | B :: r => by
    have ih := blocksOut_length check r
    unfold blocksOut records Index.uncompSize at *
    simp only [List.flatMap_cons, List.length_append, List.map_cons, List.sum_cons] at ih ⊢
    rw [ih]
    rfl

/-- The Blocks of a Stream, given one by one, form the `DBlocks` of the declarative grammar: `done` are the Blocks
    already decoded, `todo` the Blocks at the front of the input. -/
theorem dblocks_of_list (E : Env) (fl : Flags) (hdr : StreamFlags) {bs : List Index.Block} (hok : Index.BlocksOk bs) :
    ∀ (todo done : List BlockDesc) (cap : Nat) (rest : List UInt8),
      bs = records hdr.check done ++ records hdr.check todo → (∀ B ∈ todo, B.Wf hdr.check) →
      SeqDec E hdr.check fl.ignoreCheck cap todo →
      DBlocks E fl hdr ((records hdr.check done).map Index.toRecord) (blocksBytes todo ++ rest) cap (blocksOut todo)
        (blocksBytes todo).length (bs.map Index.toRecord)
  | [], done, cap, rest, hsplit, _, _ => by
    simp only [records, List.map_nil, List.append_nil] at hsplit
    rw [hsplit]
    exact DBlocks.done _ _ _
  | B :: r, done, cap, rest, hsplit, hw, hs => by
    have hwB := hw B (List.mem_cons_self ..)
    obtain ⟨b0, tl, hhb, hb0⟩ := hwB.hb_cons
    have hsplit' : bs = records hdr.check (done ++ [B]) ++ records hdr.check r := by
      rw [hsplit]; simp [records]
    have ih := dblocks_of_list E fl hdr hok r (done ++ [B]) (cap - B.o.length) rest hsplit'
      (fun x hx => hw x (List.mem_cons_of_mem _ hx)) hs.2
    have hmem : B.record hdr.check ∈ bs := by rw [hsplit]; simp [records]
    have hrec := hok.blocks _ hmem
    have hdone : (records hdr.check (done ++ [B])).map Index.toRecord
        = (records hdr.check done).map Index.toRecord
          ++ [⟨B.c.length + (b0 :: tl).length + checkSize hdr.check, B.o.length⟩] := by
      simp [records, Index.toRecord, BlockDesc.record, BlockDesc.unpadded, hhb]
    have hlim : BlockLimits ((records hdr.check done).map Index.toRecord) (b0 :: tl).length hdr.check B.c.length B.o.length := by
      refine ⟨hwB.clen_pos, ?_, ?_, ?_⟩
      · have := hrec.2.1
        simp only [BlockDesc.record, BlockDesc.unpadded, hhb] at this
        unfold Index.UNPADDED_SIZE_MAX at this; unfold Container.UNPADDED_SIZE_MAX; exact this
      · have := hrec.2.2
        simp only [BlockDesc.record] at this
        unfold Index.VLI_MAX at this; unfold Vli.VLI_MAX; exact this
      · rw [← hdone]
        exact hashLimits_prefix hok hsplit'
    rw [hdone] at ih
    have hD : DBlock E hdr.check fl.ignoreCheck B.h cap B.c B.o B.pad B.chk := hs.1
    have hh : blockHeaderDecodeWith (b0 :: tl).length hdr.check (b0 :: tl) = .ok B.h := by rw [← hhb]; exact hwB.hdr
    have key := DBlocks.block ((records hdr.check done).map Index.toRecord)
      ((b0 :: tl) ++ B.c ++ B.pad ++ B.chk ++ (blocksBytes r ++ rest)) cap b0 tl B.h B.c B.o B.pad B.chk (blocksBytes r ++ rest)
      (blocksOut r) (blocksBytes r).length (bs.map Index.toRecord) rfl hb0 hh hwB.chain hD hlim ih
    have e1 : blocksBytes (B :: r) ++ rest = (b0 :: tl) ++ B.c ++ B.pad ++ B.chk ++ (blocksBytes r ++ rest) := by
      simp only [blocksBytes, List.flatMap_cons, BlockDesc.bytes, hhb, List.append_assoc]
    have e2 : blocksOut (B :: r) = B.o ++ blocksOut r := by simp [blocksOut]
    have e3 : (blocksBytes (B :: r)).length
        = (b0 :: tl).length + B.c.length + B.pad.length + B.chk.length + (blocksBytes r).length := by
      simp only [blocksBytes, List.flatMap_cons, BlockDesc.bytes, hhb, List.length_append]
    rw [e1, e2, e3]
    exact key

end XzVerif.RandomAccess
