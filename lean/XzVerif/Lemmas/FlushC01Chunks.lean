/-
  C12 <-> C01/C03, part 2: what the flush model's LZMA2 encoder writes (with C01's chunk codec, any parser) is a chunk
  sequence in the sense of C01's chunk specification `LzmaExec.Chunks`; hence the EXECUTABLE decoder model
  `Lzma2.lzma2Decode` (Model/Lzma2.lean, the decoder C01 and C03 are about) decodes it (`lzma2Decode_of_chunks`).
-/
import XzVerif.Lemmas.FlushC01
import XzVerif.Lemmas.Lzma2ExecTop
import XzVerif.Lemmas.FlushRaw
set_option linter.unusedVariables false
set_option linter.unusedSimpArgs false
namespace XzVerif.FlushC01
open XzVerif XzVerif.Flush
open XzVerif.RangeDec XzVerif.RangeEnc XzVerif.RangeCoder XzVerif.Lzma XzVerif.LzmaEnc XzVerif.LzmaSymDec XzVerif.LzmaSpec XzVerif.LzmaSym
open XzVerif.Lzma2Enc XzVerif.LzmaExec

theorem encSyms_pos (p : Lzma.Props) (dictSize : Nat) : ∀ (syms : List Sym) (pos : Nat) (s : SymSt) (rb : List UInt8)
    (ops : List RangeEnc.Op) (pos' : Nat) (s' : SymSt) (rb' : List UInt8),
    encSyms p dictSize syms pos s rb = some (ops, pos', s', rb') → pos' = pos + symsLen syms
  | [], pos, s, rb, ops, pos', s', rb', h => by
    simp only [encSyms, Option.some.injEq, Prod.mk.injEq] at h
    obtain ⟨_, rfl, _, _⟩ := h
    simp [symsLen]
  | sym :: rest, pos, s, rb, ops, pos', s', rb', h => by
    simp only [encSyms] at h
    split at h
    · cases h
    · rename_i rb1 happ
      split at h
      · cases h
      · rename_i ops1 fin hrec
        obtain ⟨p1, s1, r1⟩ := fin
        simp only [Option.some.injEq, Prod.mk.injEq] at h
        obtain ⟨_, rfl, rfl, rfl⟩ := h
        have e1 := encSyms_pos p dictSize rest _ _ _ _ _ _ _ hrec
        rw [e1]; simp only [symsLen]; omega

theorem ofNat_mod (x : Nat) : UInt8.ofNat (x % 256) = UInt8.ofNat x := by
  apply UInt8.toNat.inj; simp

/-- the chunk headers of the flush model are those of C01's chunker model -/
theorem lzmaHeader_eq (np ns nd : Bool) (opt : Flush.Props) (n cs : Nat) (hc : cs - 1 < 65536) :
    lzmaHeader np ns nd opt n cs = headerLzma np ns nd n cs (toProps opt) := by
  have h1 : (cs - 1) / 256 % 256 = (cs - 1) / 256 := by omega
  cases np <;> cases ns <;> cases nd <;>
    simp [lzmaHeader, lzmaControl, headerLzma, byte, ofNat_mod, h1, toProps, Lzma.Props.encode, Flush.Props.byte]

theorem storedHeader_eq (nd : Bool) (n : Nat) : storedHeader nd n = headerUncompressed nd n := by
  cases nd <;> simp [storedHeader, storedControl, headerUncompressed, byte, ofNat_mod]


/-- the flush model's LZMA2 encoder state as the configuration of C01's chunk specification -/
def cfgOfL2 (l : L2 St) : L2Cfg :=
  { off := l.hist.length, encPos := l.hist.length, st := l.st.2, ps := l.st.1,
    needProps := l.needProps, needStateReset := l.needStateReset, needDictReset := l.needDictReset }

theorem hl_take_size {buf : ByteArray} {k : Nat} {x : Bytes} (h : (hl buf).take k = x) (hk : x.length = k) : k ≤ buf.size := by
  have := congrArg List.length h
  simp only [List.length_take, hl_length] at this
  omega

theorem take_len_add {α : Type} : ∀ (a b : List α) (n : Nat), (a ++ b).take (a.length + n) = a ++ b.take n
  | [], b, n => by simp
  | x :: a, b, n => by
    simp only [List.cons_append, List.length_cons]
    rw [show a.length + 1 + n = (a.length + n) + 1 by omega, List.take_succ_cons, take_len_add a b n]

/-- One chunk of the flush model (with the C01 codec) is a chunk in the sense of C01's chunk specification. -/
theorem emit_chunkOk (dictSize : Nat) (hd : dictSize ≤ 4294967295) (P : Parser) (hS : (lzmaCodec dictSize P).Sound) (l : L2 St)
    {fl : Bool} {ch : Choice} {st1 : St}
    (hch : (lzmaCodec dictSize P).choose fl l.opt (l.startState (lzmaCodec dictSize P)) l.hist l.unenc = some (ch, st1))
    (buf : ByteArray) (hbuf : (hl buf).take (l.hist.length + l.unenc.length) = l.hist ++ l.unenc) :
    ChunkOk (toProps l.opt) dictSize buf 0 (cfgOfL2 l) (l.emit (l.startState (lzmaCodec dictSize P)) ch st1).2
      (cfgOfL2 (l.emit (l.startState (lzmaCodec dictSize P)) ch st1).1) := by
  obtain ⟨w1, w2, w3, w4, w5⟩ := hS.wf _ _ _ _ _ _ _ hch
  obtain ⟨syms, ops, pos', rb', hpick, hn, hps, hst, _, _, hpo, hexp, henc, hpay, hs1⟩ := lzmaCodec_choose_inv dictSize P hch
  have hsz := hl_take_size hbuf (by simp)
  have hpos := encSyms_pos _ _ _ _ _ _ _ _ _ _ henc
  have hwin0 : win buf (0 + (cfgOfL2 l).off) = l.hist.reverse := by
    simp only [cfgOfL2, Nat.zero_add, win]
    have : (hl buf).take l.hist.length = l.hist := by
      have := congrArg (List.take l.hist.length) hbuf
      simpa [List.take_take, List.take_append_of_le_length] using this
    rw [this]
  have htake : (hl buf).take (l.hist.length + ch.n) = l.hist ++ l.unenc.take ch.n := by
    have := congrArg (List.take (l.hist.length + ch.n)) hbuf
    rw [List.take_take, Nat.min_eq_left (by omega)] at this
    rw [this, take_len_add]
  have hwin1 : win buf (0 + (cfgOfL2 l).off + ch.n) = (l.unenc.take ch.n).reverse ++ l.hist.reverse := by
    simp only [cfgOfL2, Nat.zero_add, win]
    rw [htake]; simp
  have hst0 : (l.startState (lzmaCodec dictSize P)).2 = (cfgOfL2 l).st0 := by
    simp only [L2.startState, L2Cfg.st0, cfgOfL2]
    by_cases h : l.needStateReset = true <;> simp [h, lzmaCodec]
  have hps0 : (l.startState (lzmaCodec dictSize P)).1 = (cfgOfL2 l).ps0 (toProps l.opt) := by
    simp only [L2.startState, L2Cfg.ps0, cfgOfL2]
    by_cases h : l.needStateReset = true <;> simp [h, lzmaCodec]
  obtain ⟨ops2, pos2, st2, henc2, _, _⟩ := encSyms_of_expand (toProps l.opt) hpo dictSize hd syms l.hist.length
    (l.startState (lzmaCodec dictSize P)).2 l.hist.reverse _ hst hexp
  rw [henc] at henc2
  simp only [Option.some.injEq, Prod.mk.injEq] at henc2
  obtain ⟨_, _, _, hrb⟩ := henc2
  by_cases hz : ch.isLzma = true
  · obtain ⟨hp1, hp2⟩ := w4 hz
    have hem : l.emit (l.startState (lzmaCodec dictSize P)) ch st1 =
        ({ l with needProps := false, needStateReset := false, needDictReset := false, st := st1,
                  hist := l.hist ++ l.unenc.take ch.n, unenc := l.unenc.drop ch.n },
         lzmaHeader l.needProps l.needStateReset l.needDictReset l.opt ch.n ch.payload.length ++ ch.payload) := by
      simp [L2.emit, hz]
    rw [hem]
    simp only
    rw [lzmaHeader_eq _ _ _ _ _ _ (by unfold Flush.LZMA2_CHUNK_MAX at hp2; omega), hpay]
    have key := ChunkOk.lzma (p := toProps l.opt) (dictSize := dictSize) (buf := buf) (base := 0) (cfgOfL2 l) syms ops pos' st1.2 ch.n
      (by rw [hwin0, hwin1, ← hst0, ← hrb]
          exact henc)
      hn.symm w1 (by exact w3) (by simp only [cfgOfL2, Nat.zero_add]; have := hl_take_size htake (by simp; omega); omega)
      (by rw [← hps0, ← hpay]; exact hp2)
    rw [← hps0] at key
    convert key using 2 <;> (try simp only [cfgOfL2, List.length_append, List.length_take, Nat.min_eq_left w2])
    · rw [hpos, hn]
    · exact hs1
  · have hz' : ch.isLzma = false := by simpa using hz
    have hem : l.emit (l.startState (lzmaCodec dictSize P)) ch st1 =
        ({ l with needStateReset := true, needDictReset := false, st := l.startState (lzmaCodec dictSize P),
                  hist := l.hist ++ l.unenc.take ch.n, unenc := l.unenc.drop ch.n },
         storedHeader l.needDictReset ch.n ++ l.unenc.take ch.n) := by
      simp [L2.emit, hz']
    rw [hem]
    simp only
    rw [storedHeader_eq]
    have hsl : sliceList buf (0 + (cfgOfL2 l).off) ch.n = l.unenc.take ch.n := by
      rw [sliceList_eq]
      simp only [cfgOfL2, Nat.zero_add]
      have hsplit : hl buf = l.hist ++ (l.unenc ++ (hl buf).drop (l.hist.length + l.unenc.length)) := by
        conv_lhs => rw [← List.take_append_drop (l.hist.length + l.unenc.length) (hl buf), hbuf]
        simp
      rw [hsplit]
      simp [List.take_append_of_le_length w2]
    have key := ChunkOk.uncomp (p := toProps l.opt) (dictSize := dictSize) (buf := buf) (base := 0) (cfgOfL2 l) ch.n
      (l.hist.length + ch.n) (l.startState (lzmaCodec dictSize P)).2 (l.startState (lzmaCodec dictSize P)).1
      w1 (w5 hz') (by simp only [cfgOfL2, Nat.zero_add]; have := hl_take_size htake (by simp; omega); omega)
    rw [hsl] at key
    convert key using 2 <;> (try simp only [cfgOfL2, List.length_append, List.length_take, Nat.min_eq_left w2])

/-- What the bytes written so far are in terms of C01's chunk specification: for EVERY data buffer that starts with the
    bytes the encoder has taken so far (covered `hist` ++ still unencoded `unenc`), `out` is a valid chunk sequence from
    the initial configuration to the encoder's current one. lc/lp/pb are the fixed `p0` (C01's specification has no
    mid-stream change of lc/lp/pb). -/
def ChunkInv (p0 : Flush.Props) (dictSize : Nat) (l : L2 St) (out : Bytes) : Prop :=
  l.opt = p0 ∧ ∀ buf : ByteArray, (hl buf).take (l.hist.length + l.unenc.length) = l.hist ++ l.unenc →
    Chunks (toProps p0) dictSize buf 0 (cfg0 (toProps p0) 0) out (cfgOfL2 l)

theorem ChunkInv.init (p0 : Flush.Props) (dictSize : Nat) (P : Parser) :
    ChunkInv p0 dictSize (L2.init (lzmaCodec dictSize P) p0) [] := by
  refine ⟨rfl, fun buf _ => ?_⟩
  have : cfgOfL2 (L2.init (lzmaCodec dictSize P) p0) = cfg0 (toProps p0) 0 := rfl
  rw [this]; exact Chunks.nil _

theorem ChunkInv.feed {p0 : Flush.Props} {dictSize : Nat} {l : L2 St} {out : Bytes} (h : ChunkInv p0 dictSize l out) (inp : Bytes) :
    ChunkInv p0 dictSize { l with unenc := l.unenc ++ inp } out := by
  refine ⟨h.1, fun buf hbuf => ?_⟩
  have := h.2 buf (by
    have := congrArg (List.take (l.hist.length + l.unenc.length)) hbuf
    simp only [List.length_append, List.take_take] at this
    rw [Nat.min_eq_left (by omega)] at this
    rw [this, ← List.append_assoc, List.take_append_of_le_length (by simp), List.take_of_length_le (by simp)])
  exact this

theorem closeChunks_chunks (dictSize : Nat) (hd : dictSize ≤ 4294967295) (P : Parser) (hS : (lzmaCodec dictSize P).Sound)
    (p0 : Flush.Props) (fl : Bool) : ∀ (fuel : Nat) (l : L2 St) (out : Bytes), ChunkInv p0 dictSize l out →
      ChunkInv p0 dictSize (L2.closeChunks (lzmaCodec dictSize P) fl fuel l).1
        (out ++ (L2.closeChunks (lzmaCodec dictSize P) fl fuel l).2) := by
  intro fuel
  induction fuel with
  | zero => intro l out h; simpa [L2.closeChunks] using h
  | succ fuel ih =>
    intro l out h
    unfold L2.closeChunks
    by_cases he : l.unenc.isEmpty = true
    · simp only [he, if_true]; simpa using h
    · simp only [he]
      cases hch : (lzmaCodec dictSize P).choose fl l.opt (l.startState (lzmaCodec dictSize P)) l.hist l.unenc with
      | none => simp only [Bool.false_eq_true, if_false]; simpa using h
      | some pr =>
        obtain ⟨ch, st1⟩ := pr
        have hwf := hS.wf _ _ _ _ _ _ _ hch
        have hn0 : ¬ ch.n = 0 := by omega
        simp only [Bool.false_eq_true, if_false, hn0]
        obtain ⟨f1, f2, f3⟩ := emit_fields (l := l) (l.startState (lzmaCodec dictSize P)) ch st1
        have hnext : ChunkInv p0 dictSize (l.emit (l.startState (lzmaCodec dictSize P)) ch st1).1
            (out ++ (l.emit (l.startState (lzmaCodec dictSize P)) ch st1).2) := by
          refine ⟨by rw [f1]; exact h.1, fun buf hbuf => ?_⟩
          have hsame : (l.emit (l.startState (lzmaCodec dictSize P)) ch st1).1.hist ++ (l.emit (l.startState (lzmaCodec dictSize P)) ch st1).1.unenc
              = l.hist ++ l.unenc := by rw [f2, f3, List.append_assoc, List.take_append_drop]
          have hlen : (l.emit (l.startState (lzmaCodec dictSize P)) ch st1).1.hist.length + (l.emit (l.startState (lzmaCodec dictSize P)) ch st1).1.unenc.length
              = l.hist.length + l.unenc.length := by
            have := congrArg List.length hsame; simpa using this
          rw [hlen, hsame] at hbuf
          have hok := emit_chunkOk dictSize hd P hS l hch buf hbuf
          rw [h.1] at hok
          exact Chunks.snoc (h.2 buf hbuf) hok
        have := ih _ _ hnext
        simpa [List.append_assoc] using this

theorem L2.code_eq {σ : Type} (C : Codec σ) (l : L2 σ) (inp : Bytes) (a : Action) (cc : L2 σ × Bytes)
    (hcc : L2.closeChunks C (lzFlushing a true) ((l.unenc ++ inp).length + 1) { l with unenc := l.unenc ++ inp } = cc) :
    l.code C inp a =
      if !cc.1.unenc.isEmpty then (cc.1, cc.2, if a == .run then .ok else .progError)
      else (cc.1, if (lzma2SeqInitNoInput a).2 then cc.2 ++ [0] else cc.2, (lzma2SeqInitNoInput a).1) := by
  subst hcc
  unfold L2.code
  rfl

/-- `L2.code` in terms of the chunk loop -/
theorem l2_code_chunks (dictSize : Nat) (hd : dictSize ≤ 4294967295) (P : Parser) (hS : (lzmaCodec dictSize P).Sound)
    (p0 : Flush.Props) {l : L2 St} {out : Bytes} (h : ChunkInv p0 dictSize l out) (inp : Bytes) (a : Action) :
    (a ≠ .finish → ChunkInv p0 dictSize (l.code (lzmaCodec dictSize P) inp a).1 (out ++ (l.code (lzmaCodec dictSize P) inp a).2.1)) ∧
    (a = .finish → (l.code (lzmaCodec dictSize P) inp a).2.2 = .streamEnd →
      ∃ bytes, out ++ (l.code (lzmaCodec dictSize P) inp a).2.1 = bytes ++ [0] ∧
        ChunkInv p0 dictSize (l.code (lzmaCodec dictSize P) inp a).1 bytes) := by
  have h0 := h.feed inp
  have hcc := closeChunks_chunks dictSize hd P hS p0 (lzFlushing a true) ((l.unenc ++ inp).length + 1) _ out h0
  obtain ⟨cc, hcce⟩ : ∃ cc, L2.closeChunks (lzmaCodec dictSize P) (lzFlushing a true) ((l.unenc ++ inp).length + 1)
      { l with unenc := l.unenc ++ inp } = cc := ⟨_, rfl⟩
  rw [hcce] at hcc
  rw [L2.code_eq _ l inp a cc hcce]
  obtain ⟨l1, o1⟩ := cc
  simp only at hcc ⊢
  by_cases hne : (!l1.unenc.isEmpty) = true
  · rw [if_pos hne]
    refine ⟨fun _ => hcc, fun haf hret => ?_⟩
    subst haf
    simp at hret
  · rw [if_neg hne]
    constructor
    · intro hanf
      have : (lzma2SeqInitNoInput a).2 = false := by cases a <;> simp [lzma2SeqInitNoInput] at hanf ⊢
      simp only [this, Bool.false_eq_true, if_false]; exact hcc
    · intro haf _
      subst haf
      have : (lzma2SeqInitNoInput Action.finish).2 = true := rfl
      simp only [this, if_true]
      exact ⟨out ++ o1, by simp [List.append_assoc], hcc⟩

/-- the environment of the flush model with C01's chunk codec for every Block / raw stream -/
def lzmaEnv (dictSize : Nat) (P : Parser) : Env St :=
  { codec := fun _ => lzmaCodec dictSize P, hold := fun _ _ => 0, checkBytes := fun id _ => List.replicate (checkSize id) 0,
    mtStored := fun _ _ => false, mtHeaderSize := fun _ _ => 16 }

/-- operations that leave lc/lp/pb alone (C01's chunk specification is for fixed lc/lp/pb) -/
def KeepsProps (p0 : Flush.Props) : Flush.Op → Prop
  | .update fs => ∀ f, fs.getLast? = some f → f.props = p0
  | .code _ _ => True

theorem optionsUpdate_same {σ : Type} (l : L2 σ) : (l.optionsUpdate l.opt).1 = l := by
  unfold L2.optionsUpdate
  by_cases h : l.atSeqInit = true <;> simp [h]

theorem RawEnc.update_l2_same {σ : Type} (r : RawEnc σ) (fs : Chain) (h : ∀ f, fs.getLast? = some f → f.props = r.l2.opt) :
    (r.update fs).1.l2 = r.l2 := by
  unfold RawEnc.update
  cases hrev : fs.reverse with
  | nil => rfl
  | cons f rest =>
    have hl : fs.getLast? = some f := by
      rw [List.getLast?_eq_head?_reverse, hrev]; rfl
    have hp := h f hl
    simp only
    by_cases h1 : r.isLzma1 = true
    · simp [h1]
    · simp only [h1, Bool.false_eq_true, if_false, hp]
      have := optionsUpdate_same r.l2
      split
      · rfl
      · simp [this]

structure RawChunkInv (dictSize : Nat) (P : Parser) (p0 : Flush.Props) (e : Enc St) (t : Trace) : Prop where
  raw : RawInv (lzmaEnv dictSize P) e t
  running : e.finished = false → ∃ r, e.core = .raw r ∧ ChunkInv p0 dictSize r.l2 (bodies t.segs)
  ended : e.finished = true → ∃ bytes l, bodies t.segs = bytes ++ [0] ∧ ChunkInv p0 dictSize l bytes ∧ l.unenc = [] ∧ l.hist = t.input

theorem RawChunkInv.step (dictSize : Nat) (hd : dictSize ≤ 4294967295) (P : Parser) (hS : (lzmaCodec dictSize P).Sound)
    (p0 : Flush.Props) {e : Enc St} {t : Trace} (h : RawChunkInv dictSize P p0 e t) (op : Flush.Op) (hk : KeepsProps p0 op) :
    RawChunkInv dictSize P p0 (Enc.exec (lzmaEnv dictSize P) (e, t) op).1 (Enc.exec (lzmaEnv dictSize P) (e, t) op).2 := by
  have hE : ∀ i, ((lzmaEnv dictSize P).codec i).Sound := fun _ => hS
  have hraw' := RawInv.step hE h.raw op
  obtain ⟨⟨r, hcore, hok⟩, hsup, halive⟩ := h.raw
  have hcodec : (lzmaEnv dictSize P).codec 0 = lzmaCodec dictSize P := rfl
  cases op with
  | update fs =>
    by_cases hm : memusageOk fs = true
    · refine ⟨hraw', ?_, ?_⟩
      · simp only [Enc.exec, Enc.step, Enc.updateOp, Flush.Op.data, List.take_nil, List.append_nil, hm, Bool.not_true,
          Bool.false_eq_true, if_false, hcore]
        intro hf
        obtain ⟨r0, hc0, hci⟩ := h.running hf
        rw [hcore] at hc0; cases hc0
        refine ⟨_, rfl, ?_⟩
        rw [RawEnc.update_l2_same r fs (by rw [hci.1]; exact hk)]
        exact hci
      · simp only [Enc.exec, Enc.step, Enc.updateOp, Flush.Op.data, List.take_nil, List.append_nil, hm, Bool.not_true,
          Bool.false_eq_true, if_false, hcore]
        intro hf; exact h.ended hf
    · refine ⟨hraw', ?_, ?_⟩
      · simp only [Enc.exec, Enc.step, Enc.updateOp, Flush.Op.data, List.take_nil, List.append_nil, hm, Bool.not_false, if_true]
        intro hf; exact h.running hf
      · simp only [Enc.exec, Enc.step, Enc.updateOp, Flush.Op.data, List.take_nil, List.append_nil, hm, Bool.not_false, if_true]
        intro hf; exact h.ended hf
  | code a data =>
    by_cases hs : e.supported.testBit a.code = true
    · by_cases hfin : e.finished = true
      · refine ⟨hraw', ?_, ?_⟩
        · simp only [Enc.exec, Enc.step, Enc.codeOp, halive, Bool.false_eq_true, if_false, Flush.Op.data, hs, Bool.not_true,
            hfin, if_true, List.take_zero, List.append_nil]
          intro hf; cases hf
        · simp only [Enc.exec, Enc.step, Enc.codeOp, halive, Bool.false_eq_true, if_false, Flush.Op.data, hs, Bool.not_true,
            hfin, if_true, List.take_zero, List.append_nil]
          intro _; exact h.ended hfin
      · have hfin' : e.finished = false := by simpa using hfin
        obtain ⟨r0, hc0, hci⟩ := h.running hfin'
        rw [hcore] at hc0; cases hc0
        obtain ⟨d, hd0, hag, hh⟩ := hok.running hfin' []
        rw [hcodec] at hag
        obtain ⟨c1, _, c3, c4, _, _⟩ := l2_code_spec hS r.l2 d hag data a []
        obtain ⟨k1, k2⟩ := l2_code_chunks dictSize hd P hS p0 hci data a
        have hex : Enc.exec (lzmaEnv dictSize P) (e, t) (.code a data) =
            ({ e with core := .raw { r with l2 := (r.l2.code (lzmaCodec dictSize P) data a).1 },
                      dead := (r.l2.code (lzmaCodec dictSize P) data a).2.2 != .ok && (r.l2.code (lzmaCodec dictSize P) data a).2.2 != .streamEnd,
                      finished := (r.l2.code (lzmaCodec dictSize P) data a).2.2 == .streamEnd && a == .finish },
             { segs := t.segs ++ [Seg.body (r.l2.code (lzmaCodec dictSize P) data a).2.1], input := t.input ++ data,
               rets := t.rets ++ [(r.l2.code (lzmaCodec dictSize P) data a).2.2] }) := by
          simp only [Enc.exec, Enc.step, Enc.codeOp, halive, Bool.false_eq_true, if_false, Flush.Op.data, hs, Bool.not_true,
            hfin', hcore]
          rw [RawEnc.code_sync (lzmaEnv dictSize P) ((lzmaEnv dictSize P).codec 0) r hok.lzma2 hok.pre data a]
          simp [hcodec]
        rw [hex] at hraw' ⊢
        refine ⟨hraw', ?_, ?_⟩
        · simp only [bodies_append, bodies_body]
          intro hf
          by_cases haf : a = .finish
          · subst haf
            obtain ⟨hret, _⟩ := c4 (by decide)
            simp [hret] at hf
          · exact ⟨_, rfl, k1 haf⟩
        · simp only [bodies_append, bodies_body]
          intro hf
          have haf : a = .finish := by
            by_contra hne
            have : (a == Action.finish) = false := by cases a <;> simp at hne ⊢
            simp [this] at hf
          subst haf
          obtain ⟨hret, hun⟩ := c4 (by decide)
          obtain ⟨bytes, hb, hcb⟩ := k2 rfl hret
          refine ⟨bytes, _, hb, hcb, hun, ?_⟩
          rw [hun, List.append_nil] at c1
          rw [c1, hh]
    · refine ⟨hraw', ?_, ?_⟩
      · simp only [Enc.exec, Enc.step, Enc.codeOp, halive, Bool.false_eq_true, if_false, Flush.Op.data, hs, Bool.not_false,
          if_true, List.take_zero, List.append_nil]
        intro hf; exact h.running hf
      · simp only [Enc.exec, Enc.step, Enc.codeOp, halive, Bool.false_eq_true, if_false, Flush.Op.data, hs, Bool.not_false,
          if_true, List.take_zero, List.append_nil]
        intro hf; exact h.ended hf

theorem RawChunkInv.execAll (dictSize : Nat) (hd : dictSize ≤ 4294967295) (P : Parser) (hS : (lzmaCodec dictSize P).Sound)
    (p0 : Flush.Props) : ∀ (ops : List Flush.Op) (e : Enc St) (t : Trace), (∀ op ∈ ops, KeepsProps p0 op) →
      RawChunkInv dictSize P p0 e t →
      RawChunkInv dictSize P p0 (ops.foldl (Enc.exec (lzmaEnv dictSize P)) (e, t)).1 (ops.foldl (Enc.exec (lzmaEnv dictSize P)) (e, t)).2
  | [], e, t, _, h => h
  | op :: rest, e, t, hk, h => by
    simp only [List.foldl_cons]
    exact RawChunkInv.execAll dictSize hd P hS p0 rest _ _ (fun o ho => hk o (List.mem_cons_of_mem _ ho))
      (RawChunkInv.step dictSize hd P hS p0 h op (hk op List.mem_cons_self))

theorem RawChunkInv.init (dictSize : Nat) (P : Parser) {fs : Chain} (hfs : SyncChain fs) :
    RawChunkInv dictSize P (lastProps fs) (Enc.rawInit (lzmaEnv dictSize P) fs) {} := by
  refine ⟨RawInv.init _ hfs, fun _ => ⟨_, rfl, ?_⟩, fun h => by cases h⟩
  exact ChunkInv.init (lastProps fs) dictSize P

theorem hl_mk (l : Bytes) : hl (ByteArray.mk l.toArray) = l := by simp [hl]

/-- from the chunk invariant of a fully flushed encoder to the executable LZMA2 decoder of C01/C03 -/
theorem chunkInv_decodes (dictSize : Nat) (hd : dictSize ≤ 4294967295) (p0 : Flush.Props) (hp : p0.valid = true)
    {l : L2 St} {bytes : Bytes} (h : ChunkInv p0 dictSize l bytes) (hun : l.unenc = []) (cap : Nat) (hcap : l.hist.length < cap) :
    Lzma2.lzma2Decode dictSize (bytes ++ [0]) [] cap = { ret := .streamEnd, out := l.hist, consumed := bytes.length + 1 } := by
  have hpo : PropsOk (toProps p0) := by
    simp only [Flush.Props.valid, Bool.and_eq_true, decide_eq_true_eq] at hp
    exact ⟨hp.1.2, hp.2⟩
  have hbuf : (hl (ByteArray.mk l.hist.toArray)).take (l.hist.length + l.unenc.length) = l.hist ++ l.unenc := by
    rw [hl_mk, hun]; simp
  have hch := h.2 _ hbuf
  have hsz : (ByteArray.mk l.hist.toArray).size = l.hist.length := by rw [← hl_length, hl_mk]
  have := lzma2Decode_of_chunks (toProps p0) hpo dictSize hd (ByteArray.mk l.hist.toArray) 0 (Nat.zero_le _) bytes _ hch
    (by simp [cfgOfL2, hsz]) cap (by rw [hsz]; simpa using hcap)
  simpa [hl_mk] using this

end XzVerif.FlushC01
