/-
  C01, LZMA2 decoder side, part 4: from a chunk boundary over a whole valid chunk sequence (`run_boundary`), resuming
  after a full dictionary, and the LZ layer `decode_buffer` around `lzma2_decode`.
-/
import XzVerif.Lemmas.Lzma2ExecRun

namespace XzVerif.LzmaExec
open XzVerif.RangeDec XzVerif.RangeEnc XzVerif.RangeCoder XzVerif.LzDict XzVerif.Lzma XzVerif.LzmaEnc XzVerif.LzmaSymDec
open XzVerif.LzmaSym XzVerif.LzmaSpec XzVerif.Lzma2Enc XzVerif.Lzma2

/-! ### the control byte at a boundary -/

/-- the end marker -/
theorem ctlEnd_step (p : Props) (dictSize : Nat) (buf : ByteArray) (base : Nat) (C : L2Cfg) (s : St) (tail : List UInt8)
    (hb : BSt p dictSize buf base C s) (hin : In s (0 :: tail)) (f : Nat) :
    ∃ sF, lzma2Loop (f + 1) s = (.streamEnd, sF) ∧ Win sF (win buf (base + C.off)) dictSize ∧
      sF.hist.size = sF.outBase + C.off ∧ In sF tail ∧ Keep2 s sF ∧ sF.inPos = s.inPos + 1 ∧ sF.inPos ≤ sF.inp.size := by
  obtain ⟨hlt, hbyte, hd⟩ := curByte_of_drop hin
  rw [loop_control f s hlt hb.seq]
  have : curByte s = 0 := by rw [hbyte]; rfl
  simp only [this, ctl_end, if_true]
  exact ⟨_, rfl, hb.win.congr rfl rfl, hb.prod, hd, ⟨rfl, rfl, rfl, rfl, rfl, Nat.le_refl _, rfl, by show s.inPos ≤ s.inPos + 1; omega⟩, rfl,
    (by show s.inPos + 1 ≤ s.inp.size; omega)⟩

/-- the control byte of an uncompressed chunk (no dictionary reset) -/
theorem ctlU_step (p : Props) (dictSize : Nat) (buf : ByteArray) (base : Nat) (C : L2Cfg) (s : St) (usize : Nat)
    (rest : List UInt8) (hb : BSt p dictSize buf base C s) (hu1 : 1 ≤ usize) (hu2 : usize ≤ LZMA2_CHUNK_MAX)
    (hoff : base + C.off + usize ≤ buf.size)
    (hin : In s (headerUncompressed C.needDictReset usize ++ sliceList buf (base + C.off) usize ++ rest)) (f : Nat) :
    ∃ t, lzma2Loop (f + 1) s = lzma2Loop f t ∧ AfterCtlU p dictSize buf base t C usize rest ∧ t.dp = s.dp ∧ t.hist = s.hist ∧
      t.outBase = s.outBase ∧ t.inp = s.inp ∧ t.inPos = s.inPos + 1 := by
  have hndr := hb.cndr
  simp only [headerUncompressed, hndr, Bool.false_eq_true, if_false, List.cons_append, List.nil_append] at hin
  obtain ⟨hlt, hbyte, hd⟩ := curByte_of_drop hin
  rw [loop_control f s hlt hb.seq]
  have hcb : curByte s = if false = true then 1 else 2 := by rw [hbyte]; rfl
  rw [hcb, hb.ndr, ctl_uncomp]
  simp only [Bool.false_eq_true, if_false]
  refine ⟨_, rfl, ?_, rfl, rfl, rfl, rfl, rfl⟩
  exact ⟨rfl, rfl, hb.np, rfl, hb.props, hb.initLeft, hb.range, hb.code, hb.pending, hb.win.congr rfl rfl, hb.nr, hb.prod,
    hd, hu1, hu2, hoff⟩

/-- the control byte of an LZMA chunk (no dictionary reset) -/
theorem ctlL_step (p : Props) (hp : PropsOk p) (dictSize : Nat) (buf : ByteArray) (base : Nat) (C : L2Cfg) (s : St)
    (syms : List Sym) (ops : List Op) (encPos' : Nat) (st' : SymSt) (usize : Nat) (rest : List UInt8)
    (hb : BSt p dictSize buf base C s)
    (henc : encSyms p dictSize syms C.encPos C.st0 (win buf (base + C.off)) = some (ops, encPos', st', win buf (base + C.off + usize)))
    (hlen : symsLen syms = usize) (hu1 : 1 ≤ usize) (hu2 : usize ≤ LZMA2_UNCOMPRESSED_MAX)
    (hoff : base + C.off + usize ≤ buf.size)
    (hc2 : (encFlush (encOps (C.ps0 p) Enc.init ops).2).out.length ≤ LZMA2_CHUNK_MAX)
    (hin : In s (headerLzma C.needProps C.needStateReset C.needDictReset usize
        (encFlush (encOps (C.ps0 p) Enc.init ops).2).out.length p ++ (encFlush (encOps (C.ps0 p) Enc.init ops).2).out ++ rest))
    (f : Nat) :
    ∃ t, lzma2Loop (f + 1) s = lzma2Loop f t ∧ AfterCtlL p dictSize buf base t C syms ops encPos' st' usize rest ∧ t.dp = s.dp ∧
      t.hist = s.hist ∧ t.outBase = s.outBase ∧ t.inp = s.inp ∧ t.inPos = s.inPos + 1 := by
  have hndr := hb.cndr
  simp only [LZMA2_UNCOMPRESSED_MAX] at hu2
  have hx : (usize - 1) / 65536 < 32 := by omega
  simp only [headerLzma, hndr, Bool.false_eq_true, if_false, List.cons_append, List.nil_append, List.append_assoc] at hin
  obtain ⟨hlt, hbyte, hd⟩ := curByte_of_drop hin
  rw [loop_control f s hlt hb.seq]
  have hcb : curByte s = (if C.needProps = true then (if false = true then 0x80 + 3 * 32 else 0x80 + 2 * 32)
      else (if C.needStateReset = true then 0x80 + 32 else 0x80)) + (usize - 1) / 65536 := by
    rw [hbyte, ofNat_toNat_of_lt]
    · cases C.needProps <;> cases C.needStateReset <;> simp
    · cases C.needProps <;> cases C.needStateReset <;> simp <;> omega
  rw [hcb, hb.np, hb.ndr, ctl_lzma C.needProps C.needStateReset false _ hx (by intro h; cases h)]
  simp only [Bool.false_eq_true, if_false]
  refine ⟨_, rfl, ?_, ?_, ?_, ?_, ?_, ?_⟩
  · -- the state after `controlApply`
    by_cases hnp : C.needProps = true
    · simp only [controlApply, hnp, if_true, Bool.not_true, Bool.false_and, Bool.false_eq_true, if_false]
      refine ⟨rfl, rfl, (by rw [if_pos hnp]; rfl), rfl, rfl, (fun h => by rw [hnp] at h; cases h), ?_, hb.win.congr rfl rfl, hb.nr, hb.prod,
        henc, hlen, hu1, (by simp only [LZMA2_UNCOMPRESSED_MAX]; exact hu2), hoff, hc2, ?_⟩
      · intro _
        by_cases hsr : C.needStateReset = true
        · simp [L2Cfg.st0, L2Cfg.ps0, hsr]
        · have hsr' : C.needStateReset = false := by simpa using hsr
          obtain ⟨h1, h2⟩ := hb.cfg2 hnp hsr'
          simp [L2Cfg.st0, L2Cfg.ps0, hsr', h1, h2]
      · simp only [hnp, if_true] at hd ⊢
        exact hd
    · have hnp' : C.needProps = false := by simpa using hnp
      have hprops := hb.props hnp'
      by_cases hsr : C.needStateReset = true
      · simp only [controlApply, hnp', hsr, Bool.not_false, Bool.true_and, if_true, Bool.false_eq_true, if_false]
        refine ⟨rfl, rfl, (by rw [if_neg hnp]; rfl), rfl, rfl, ?_, (fun h => by rw [hnp'] at h; cases h), hb.win.congr rfl rfl, hb.nr, hb.prod,
          henc, hlen, hu1, (by simp only [LZMA2_UNCOMPRESSED_MAX]; exact hu2), hoff, hc2, ?_⟩
        · intro _
          refine ⟨hprops, ?_, rfl, rfl, rfl, rfl⟩
          have e1 : C.st0 = {} := by simp [L2Cfg.st0, hsr]
          have e2 : C.ps0 p = initProbs p := by simp [L2Cfg.ps0, hsr]
          rw [e1, e2]
          have : (setL2 (setL2 ({ s with inPos := s.inPos + 1 } : St) fun l =>
              { l with needProperties := false, needDictionaryReset := false }) fun l =>
              { l with uncompressedSize := ((usize - 1) / 65536) <<< 16, seq := L2Seq.uncompressed1,
                       nextSeq := L2Seq.lzma }).l2.props = p := hprops
          rw [this]
          exact lzOk_fresh p hp _ _
        · simp only [hnp', Bool.false_eq_true, if_false, List.nil_append] at hd ⊢
          exact hd
      · have hsr' : C.needStateReset = false := by simpa using hsr
        simp only [controlApply, hnp', hsr', Bool.not_false, Bool.true_and, Bool.false_eq_true, if_false, if_true]
        refine ⟨rfl, rfl, (by rw [if_neg hnp]; rfl), rfl, rfl, ?_, (fun h => by rw [hnp'] at h; cases h), hb.win.congr rfl rfl, hb.nr, hb.prod,
          henc, hlen, hu1, (by simp only [LZMA2_UNCOMPRESSED_MAX]; exact hu2), hoff, hc2, ?_⟩
        · intro _
          have hlz := hb.lz hnp' hsr'
          have e1 : C.st0 = C.st := by simp [L2Cfg.st0, hsr']
          have e2 : C.ps0 p = C.ps := by simp [L2Cfg.ps0, hsr']
          rw [e1, e2]
          obtain ⟨a, b, c, d, e, g, hk, i⟩ := hlz
          exact ⟨hprops, ⟨a, b, c, ⟨d.state, d.rep0, d.rep1, d.rep2, d.rep3⟩, e, g, hk, i⟩, hb.initLeft, hb.range, hb.code, hb.pending⟩
        · simp only [hnp', Bool.false_eq_true, if_false, List.nil_append] at hd ⊢
          exact hd
  all_goals (simp only [controlApply]; split <;> (try split) <;> rfl)

/-! ### a whole chunk sequence from a boundary -/

/-- the configuration invariant the encoder keeps: with `need_properties` and without a pending state reset the encoder
    state is the initial one -/
def Cfg2 (p : Props) (C : L2Cfg) : Prop := C.needProps = true → C.needStateReset = false → C.st = {} ∧ C.ps = initProbs p

/-- paused inside a chunk (dictionary full), with the chunks that follow -/
def Paused (p : Props) (dictSize : Nat) (buf : ByteArray) (base : Nat) (tail : List UInt8) (CF : L2Cfg) (s : St) : Prop :=
  ∃ n C' bytes', Chunks p dictSize buf base C' bytes' CF ∧ Cfg2 p C' ∧
    (LRdy p dictSize buf base s s n C' (bytes' ++ 0 :: tail) ∨ URdy p dictSize buf base s n C' (bytes' ++ 0 :: tail))

/-- the outcome of `lzma2_decode` run on `sRun` (`s0` = the state the call started from) -/
def Res2 (p : Props) (dictSize : Nat) (buf : ByteArray) (base : Nat) (tail : List UInt8) (CF : L2Cfg) (f : Nat)
    (s0 sRun : St) : Prop :=
  (∃ sF, lzma2Loop f sRun = (.streamEnd, sF) ∧ Win sF (win buf (base + CF.off)) dictSize ∧
    sF.hist.size = sF.outBase + CF.off ∧ In sF tail ∧ Keep2 s0 sF ∧ sF.inPos ≤ sF.inp.size) ∨
  (∃ s', lzma2Loop f sRun = (.ok, s') ∧ Paused p dictSize buf base tail CF s' ∧ Keep2 s0 s' ∧ s'.dp.pos = s0.dp.limit)

theorem keep2_of_eq {s t : St} (h1 : t.dp = s.dp) (h2 : t.hist = s.hist) (h3 : t.outBase = s.outBase) (h4 : t.inp = s.inp)
    (h5 : s.inPos ≤ t.inPos) : Keep2 s t :=
  ⟨h4, h3, by rw [h1], by rw [h1], by rw [h1], by rw [h2], by rw [h1, h2], h5⟩

theorem Res2.of_eq {p : Props} {dictSize : Nat} {buf : ByteArray} {base : Nat} {tail : List UInt8} {CF : L2Cfg} {f f' : Nat}
    {s0 s1 sRun sRun' : St} (h : Res2 p dictSize buf base tail CF f' s1 sRun') (heq : lzma2Loop f sRun = lzma2Loop f' sRun')
    (hk : Keep2 s0 s1) : Res2 p dictSize buf base tail CF f s0 sRun := by
  rcases h with ⟨sF, hr, hw, hp, hi, hk2, hle⟩ | ⟨s', hr, hpa, hk2, hpos⟩
  · exact Or.inl ⟨sF, by rw [heq]; exact hr, hw, hp, hi, hk.trans hk2, hle⟩
  · exact Or.inr ⟨s', by rw [heq]; exact hr, hpa, hk.trans hk2, by rw [hpos, hk.limit]⟩

theorem cfg2_after {p : Props} {dictSize : Nat} {buf : ByteArray} {base : Nat} {C C' : L2Cfg} {b : List UInt8}
    (h : ChunkOk p dictSize buf base C b C') : Cfg2 p C' ∧ C'.needDictReset = false := by
  cases h with
  | lzma => exact ⟨(fun h1 => by cases h1), rfl⟩
  | uncomp => exact ⟨(fun _ h2 => by cases h2), rfl⟩

/-- finishing the current LZMA chunk, then whatever the continuation `k` proves from the next boundary -/
theorem lrdy_then (p : Props) (hp : PropsOk p) (dictSize : Nat) (hd : dictSize ≤ 4294967295) (buf : ByteArray) (base : Nat)
    (tail : List UInt8) (CF : L2Cfg) (t t' : St) (n : Nat) (C' : L2Cfg) (bytes' : List UInt8)
    (h : LRdy p dictSize buf base t t' n C' (bytes' ++ 0 :: tail)) (hch : Chunks p dictSize buf base C' bytes' CF)
    (hc2 : Cfg2 p C') (f : Nat)
    (k : ∀ sB, BSt p dictSize buf base C' sB → In sB (bytes' ++ 0 :: tail) → Res2 p dictSize buf base tail CF f sB sB) :
    Res2 p dictSize buf base tail CF (f + 1) t' t := by
  rcases lrdy_step p hp dictSize hd buf base t t' n C' _ h f with ⟨_, sB, hrun, hb, hin, hk2, _⟩ | ⟨_, s2, hrun, hl2, hpos, hk2⟩
  · exact (k sB hb hin).of_eq hrun hk2
  · exact Or.inr ⟨s2, hrun, ⟨_, C', bytes', hch, hc2, Or.inl hl2⟩, hk2, hpos⟩

theorem urdy_then (p : Props) (dictSize : Nat) (buf : ByteArray) (base : Nat)
    (tail : List UInt8) (CF : L2Cfg) (t : St) (n : Nat) (C' : L2Cfg) (bytes' : List UInt8)
    (h : URdy p dictSize buf base t n C' (bytes' ++ 0 :: tail)) (hch : Chunks p dictSize buf base C' bytes' CF)
    (hc2 : Cfg2 p C') (f : Nat)
    (k : ∀ sB, BSt p dictSize buf base C' sB → In sB (bytes' ++ 0 :: tail) → Res2 p dictSize buf base tail CF f sB sB) :
    Res2 p dictSize buf base tail CF (f + 1) t t := by
  rcases urdy_step p dictSize buf base t n C' _ h hc2 f with ⟨_, sB, hrun, hb, hin, hk2, _⟩ | ⟨_, s2, hrun, hu2, hpos, hk2⟩
  · exact (k sB hb hin).of_eq hrun hk2
  · exact Or.inr ⟨s2, hrun, ⟨_, C', bytes', hch, hc2, Or.inr hu2⟩, hk2, hpos⟩

theorem run_boundary (p : Props) (hp : PropsOk p) (dictSize : Nat) (hd : dictSize ≤ 4294967295) (buf : ByteArray) (base : Nat)
    (tail : List UInt8) (CF : L2Cfg) {C : L2Cfg} {bytes : List UInt8} (hch : Chunks p dictSize buf base C bytes CF) :
    ∀ (s : St) (f : Nat), BSt p dictSize buf base C s → In s (bytes ++ 0 :: tail) → bytes.length + 2 ≤ f →
      Res2 p dictSize buf base tail CF f s s := by
  induction hch with
  | nil C =>
    intro s f hb hin hf
    obtain ⟨f', rfl⟩ : ∃ f', f = f' + 1 := ⟨f - 1, by omega⟩
    obtain ⟨sF, hrun, hw, hpr, hi, hk, _, hle⟩ := ctlEnd_step p dictSize buf base C s tail hb (by simpa using hin) f'
    exact Or.inl ⟨sF, hrun, hw, hpr, hi, hk, hle⟩
  | @cons C C1 C2 b bs hc hrest ih =>
    intro s f hb hin hf
    obtain ⟨hc21, _⟩ := cfg2_after hc
    have hin' : In s (b ++ (bs ++ 0 :: tail)) := by simpa [List.append_assoc] using hin
    cases hc with
    | lzma syms ops encPos' st' usize henc hlen hu1 hu2 hoff hcs =>
      have hc5 : 5 ≤ (encFlush (encOps (C.ps0 p) Enc.init ops).2).out.length :=
        flush_len5 (outOk2_encOps ops _ _ outOk2_init).2
      have hblen : 10 ≤ (headerLzma C.needProps C.needStateReset C.needDictReset usize
          (encFlush (encOps (C.ps0 p) Enc.init ops).2).out.length p ++ (encFlush (encOps (C.ps0 p) Enc.init ops).2).out).length := by
        simp only [headerLzma, List.length_append, List.length_cons]; omega
      have hhl : (headerLzma C.needProps C.needStateReset C.needDictReset usize
          (encFlush (encOps (C.ps0 p) Enc.init ops).2).out.length p).length = 5 + (if C.needProps = true then 1 else 0) := by
        simp only [headerLzma, List.length_append, List.length_cons, List.length_nil]; split <;> rfl
      simp only [List.length_append] at hf hblen
      -- fuel: control byte, the other header bytes, the SEQ_LZMA iteration
      obtain ⟨f3, rfl⟩ : ∃ f3, f = ((f3 + 1) + (4 + if C.needProps = true then 1 else 0)) + 1 :=
        ⟨f - 1 - (4 + if C.needProps = true then 1 else 0) - 1, by split <;> omega⟩
      have hf3 : bs.length + 2 ≤ f3 := by
        rw [hhl] at hf hblen
        split at hf <;> split at hblen <;> omega
      obtain ⟨t, hrun1, hact, hdp1, hh1, hob1, hinp1, hpos1⟩ := ctlL_step p hp dictSize buf base C s syms ops encPos' st' usize
        (bs ++ 0 :: tail) hb henc hlen hu1 hu2 hoff hcs (by simpa [List.append_assoc] using hin') _
      obtain ⟨t5, t5', hrun2, hlr, hdp5, hh5, hob5, hinp5, hpos5⟩ :=
        sizesL p hp dictSize hd buf base t C syms ops encPos' st' usize (bs ++ 0 :: tail) hact (f3 + 1)
      have hres := lrdy_then p hp dictSize hd buf base tail C2 t5 t5' usize _ bs hlr hrest hc21 f3
        (fun sB hbB hinB => ih sB f3 hbB hinB hf3)
      have hk : Keep2 s t5' := keep2_of_eq (by rw [hdp5, hdp1]) (by rw [hh5, hh1]) (by rw [hob5, hob1]) (by rw [hinp5, hinp1])
        (by omega)
      exact hres.of_eq (by rw [hrun1, hrun2]) hk
    | uncomp usize encPos' st' ps' hu1 hu2 hoff =>
      have hsl := sliceList_length buf (base + C.off) usize hoff
      simp only [List.length_append, headerUncompressed, List.length_cons, List.length_nil, hsl] at hf
      obtain ⟨f3, rfl⟩ : ∃ f3, f = ((f3 + 1) + 2) + 1 := ⟨f - 4, by omega⟩
      have hf3 : bs.length + 2 ≤ f3 := by omega
      obtain ⟨t, hrun1, hact, hdp1, hh1, hob1, hinp1, hpos1⟩ := ctlU_step p dictSize buf base C s usize (bs ++ 0 :: tail) hb hu1 hu2
        hoff (by simpa [List.append_assoc] using hin') _
      obtain ⟨t2, hrun2, hur, hdp2, hh2, hob2, hinp2, hpos2⟩ := sizesU p dictSize buf base t C usize (bs ++ 0 :: tail) hact encPos'
        st' ps' (f3 + 1)
      have hres := urdy_then p dictSize buf base tail C2 t2 usize _ bs hur hrest hc21 f3
        (fun sB hbB hinB => ih sB f3 hbB hinB hf3)
      have hk : Keep2 s t2 := keep2_of_eq (by rw [hdp2, hdp1]) (by rw [hh2, hh1]) (by rw [hob2, hob1]) (by rw [hinp2, hinp1])
        (by omega)
      exact hres.of_eq (by rw [hrun1, hrun2]) hk

/-! ### states a `decode_buffer` iteration can start from -/

inductive Ready (p : Props) (dictSize : Nat) (buf : ByteArray) (base : Nat) (tail : List UInt8) (CF : L2Cfg) : St → Prop
  | boundary {C : L2Cfg} {bytes : List UInt8} {s : St} : BSt p dictSize buf base C s → Chunks p dictSize buf base C bytes CF →
      In s (bytes ++ 0 :: tail) → Ready p dictSize buf base tail CF s
  | paused {s : St} : Paused p dictSize buf base tail CF s → Ready p dictSize buf base tail CF s
  | afterU {t : St} {C : L2Cfg} {usize encPos' : Nat} {st' : SymSt} {ps' : Probs} {bytes' : List UInt8} :
      AfterCtlU p dictSize buf base t C usize (bytes' ++ 0 :: tail) →
      Chunks p dictSize buf base (cfgAfterU C usize encPos' st' ps') bytes' CF → Ready p dictSize buf base tail CF t
  | afterL {t : St} {C : L2Cfg} {syms : List Sym} {ops : List Op} {encPos' : Nat} {st' : SymSt} {usize : Nat}
      {bytes' : List UInt8} : AfterCtlL p dictSize buf base t C syms ops encPos' st' usize (bytes' ++ 0 :: tail) →
      Chunks p dictSize buf base (cfgAfterL p C ops encPos' st' usize) bytes' CF → Ready p dictSize buf base tail CF t

theorem in_len {s : St} {bs : List UInt8} (h : In s bs) (hne : bs ≠ []) : s.inPos + bs.length = s.inp.size := by
  rcases in_length h with h1 | ⟨h1, _⟩
  · exact h1
  · exact absurd h1 hne

/-- `lzma2_decode` from any such state, with the fuel `lzma2Call` provides -/
theorem run_ready (p : Props) (hp : PropsOk p) (dictSize : Nat) (hd : dictSize ≤ 4294967295) (buf : ByteArray) (base : Nat)
    (tail : List UInt8) (CF : L2Cfg) (s : St) (h : Ready p dictSize buf base tail CF s) :
    Res2 p dictSize buf base tail CF (2 * (s.inp.size - s.inPos) + 4) s s := by
  cases h with
  | boundary hb hch hin =>
    have := in_len hin (by simp)
    simp only [List.length_append, List.length_cons] at this
    exact run_boundary p hp dictSize hd buf base tail CF hch s _ hb hin (by omega)
  | paused hpa =>
    obtain ⟨n, C', bytes', hch, hc2, hl | hu⟩ := hpa
    · have hcs := hl.cs
      simp only [List.length_append, List.length_cons] at hcs
      obtain ⟨f, hf⟩ : ∃ f, 2 * (s.inp.size - s.inPos) + 4 = f + 1 := ⟨_, rfl⟩
      rw [hf]
      exact lrdy_then p hp dictSize hd buf base tail CF s s n C' bytes' hl hch hc2 f
        (fun sB hbB hinB => run_boundary p hp dictSize hd buf base tail CF hch sB f hbB hinB (by omega))
    · have hlen := in_len hu.inp (by
        intro h0
        have h1 := congrArg List.length h0
        simp only [List.length_append, List.length_cons, List.length_nil] at h1
        omega)
      simp only [List.length_append, List.length_cons] at hlen
      obtain ⟨f, hf⟩ : ∃ f, 2 * (s.inp.size - s.inPos) + 4 = f + 1 := ⟨_, rfl⟩
      rw [hf]
      exact urdy_then p dictSize buf base tail CF s n C' bytes' hu hch hc2 f
        (fun sB hbB hinB => run_boundary p hp dictSize hd buf base tail CF hch sB f hbB hinB (by omega))
  | @afterU t C usize encPos' st' ps' bytes' hact hch =>
    have hlen := in_len hact.inp (by simp)
    simp only [List.length_append, List.length_cons] at hlen
    obtain ⟨f, hf⟩ : ∃ f, 2 * (s.inp.size - s.inPos) + 4 = (f + 1) + 2 := ⟨2 * (s.inp.size - s.inPos) + 1, by omega⟩
    rw [hf]
    obtain ⟨t2, hrun2, hur, hdp2, hh2, hob2, hinp2, hpos2⟩ := sizesU p dictSize buf base s C usize (bytes' ++ 0 :: tail) hact encPos'
      st' ps' (f + 1)
    have hc2 : Cfg2 p (cfgAfterU C usize encPos' st' ps') := fun _ h2 => by cases h2
    have hres := urdy_then p dictSize buf base tail CF t2 usize _ bytes' hur hch hc2 f
      (fun sB hbB hinB => run_boundary p hp dictSize hd buf base tail CF hch sB f hbB hinB (by omega))
    exact hres.of_eq hrun2 (keep2_of_eq hdp2 hh2 hob2 hinp2 (by omega))
  | @afterL t C syms ops encPos' st' usize bytes' hact hch =>
    have hlen := in_len hact.inp (by simp)
    simp only [List.length_append, List.length_cons] at hlen
    obtain ⟨f, hf⟩ : ∃ f, 2 * (s.inp.size - s.inPos) + 4 = (f + 1) + (4 + if C.needProps = true then 1 else 0) :=
      ⟨2 * (s.inp.size - s.inPos) + 4 - 1 - (4 + if C.needProps = true then 1 else 0), by split <;> omega⟩
    have hfb : bytes'.length + 2 ≤ f := by split at hf <;> omega
    rw [hf]
    obtain ⟨t5, t5', hrun2, hlr, hdp5, hh5, hob5, hinp5, hpos5⟩ :=
      sizesL p hp dictSize hd buf base s C syms ops encPos' st' usize (bytes' ++ 0 :: tail) hact (f + 1)
    have hc2 : Cfg2 p (cfgAfterL p C ops encPos' st' usize) := fun h1 => by cases h1
    have hres := lrdy_then p hp dictSize hd buf base tail CF t5 t5' usize _ bytes' hlr hch hc2 f
      (fun sB hbB hinB => run_boundary p hp dictSize hd buf base tail CF hch sB f hbB hinB hfb)
    exact hres.of_eq hrun2 (keep2_of_eq hdp5 hh5 hob5 hinp5 hpos5)

end XzVerif.LzmaExec
