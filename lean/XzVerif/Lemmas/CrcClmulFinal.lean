/-
  CLMUL CRC model = reference CRC, for every buffer and initial value (CRC32 and CRC64), for the parameter sets defined
  by crc_clmul_consts_gen.c (`p32`, `p64`).  Combines the kernel-evaluated identities (CrcClmulId*.lean) with the
  structural proof (`acc_all`) and the fact that zero-extension commutes with the reference shift register.
-/
import XzVerif.Lemmas.CrcClmulLarge
import XzVerif.Lemmas.CrcClmulId32a
import XzVerif.Lemmas.CrcClmulId32b
import XzVerif.Lemmas.CrcClmulId64a
import XzVerif.Lemmas.CrcClmulId64b
namespace XzVerif.Clmul
open XzVerif.Crc

attribute [local irreducible] stepN fold

theorem world32 : World p32 P32' (fun v => (v.setWidth 32).setWidth 64) :=
  ⟨rfl, fold128_32_eq, fold512_32_eq, barrett32_eq, final32_eq⟩

theorem world64 : World p64 P64' (fun v => v.setWidth 64) :=
  ⟨rfl, fold128_64_eq, fold512_64_eq, barrett64_eq, final64_eq⟩

/-! ### zero-extension commutes with the reference register -/

theorem zext_shr {w : Nat} (c : BitVec w) (k : Nat) (hw : w ≤ 128) : (c >>> k).setWidth 128 = c.setWidth 128 >>> k := by
  apply BitVec.eq_of_toNat_eq
  simp only [BitVec.toNat_setWidth, BitVec.toNat_ushiftRight]
  have h1 : c.toNat < 2 ^ 128 := Nat.lt_of_lt_of_le c.isLt (Nat.pow_le_pow_right (by decide) hw)
  have h2 : c.toNat >>> k < 2 ^ 128 := Nat.lt_of_le_of_lt (by rw [Nat.shiftRight_eq_div_pow]; exact Nat.div_le_self _ _) h1
  rw [Nat.mod_eq_of_lt h1, Nat.mod_eq_of_lt h2]

theorem zext_step1 {w : Nat} (P c : BitVec w) (hw : w ≤ 128) :
    (step1 P c).setWidth 128 = step1 (P.setWidth 128) (c.setWidth 128) := by
  unfold step1
  have h0 : (c.setWidth 128).getLsbD 0 = c.getLsbD 0 := by
    rw [BitVec.getLsbD_setWidth]; simp
  rw [h0]
  split
  · rw [BitVec.setWidth_xor, zext_shr c 1 hw]
  · rw [zext_shr c 1 hw]

theorem zext_stepN {w : Nat} (P : BitVec w) (hw : w ≤ 128) (n : Nat) (c : BitVec w) :
    (stepN P n c).setWidth 128 = stepN (P.setWidth 128) n (c.setWidth 128) := by
  unfold stepN
  induction n generalizing c with
  | zero => rfl
  | succ n ih => unfold stepN; rw [ih, zext_step1 P c hw]

theorem zext_ofNat_byte {w : Nat} (b : UInt8) (hw8 : 8 ≤ w) :
    (BitVec.ofNat w b.toNat).setWidth 128 = BitVec.ofNat 128 b.toNat := by
  apply BitVec.eq_of_toNat_eq
  simp only [BitVec.toNat_setWidth, BitVec.toNat_ofNat]
  have h1 : b.toNat < 2 ^ w := Nat.lt_of_lt_of_le b.toNat_lt (Nat.pow_le_pow_right (by decide) hw8)
  have h2 : b.toNat < 2 ^ 128 := Nat.lt_of_lt_of_le b.toNat_lt (by decide)
  rw [Nat.mod_eq_of_lt h1, Nat.mod_eq_of_lt h2]

theorem zext_refRaw {w : Nat} (P : BitVec w) (hw8 : 8 ≤ w) (hw : w ≤ 128) (bs : List UInt8) (c : BitVec w) :
    (refRaw P bs c).setWidth 128 = refRaw (P.setWidth 128) bs (c.setWidth 128) := by
  induction bs generalizing c with
  | nil => rfl
  | cons b t ih =>
    rw [refRaw_cons, refRaw_cons, ih]
    congr 1
    unfold byteStep step8
    rw [zext_stepN P hw, BitVec.setWidth_xor, zext_ofNat_byte b hw8]

theorem setWidth_zext {w : Nat} (x : BitVec w) (hw : w ≤ 128) : (x.setWidth 128).setWidth w = x := by
  apply BitVec.eq_of_toNat_eq
  simp only [BitVec.toNat_setWidth]
  have h1 : x.toNat < 2 ^ 128 := Nat.lt_of_lt_of_le x.isLt (Nat.pow_le_pow_right (by decide) hw)
  rw [Nat.mod_eq_of_lt h1, Nat.mod_eq_of_lt x.isLt]

/-- `crc64_arch_optimized` (model) is CRC-64/XZ for every buffer and every initial value. -/
theorem crc64Clmul_eq_ref (bs : List UInt8) (crc : BitVec 64) : crc64Clmul p64 bs crc = crc64Ref bs crc := by
  unfold crc64Clmul crc64Ref
  by_cases h : bs.length = 0
  · have : bs = [] := List.eq_nil_of_length_eq_zero h
    subst this
    simp [refRaw]
  · rw [if_neg h, acc_all world64 bs _ (by omega)]
    rw [show P64' = P64.setWidth 128 by decide, ← zext_refRaw P64 (by decide) (by decide), setWidth_zext _ (by decide)]

/-- `crc32_arch_optimized` (model) is the standard CRC-32 for every buffer and every initial value. -/
theorem crc32Clmul_eq_ref (bs : List UInt8) (crc : BitVec 32) : crc32Clmul p32 bs crc = crc32Ref bs crc := by
  unfold crc32Clmul crc32Ref
  by_cases h : bs.length = 0
  · have : bs = [] := List.eq_nil_of_length_eq_zero h
    subst this
    simp [refRaw]
  · rw [if_neg h, acc_all world32 bs _ (by omega)]
    have e : ((~~~crc).setWidth 64).setWidth 128 = (~~~crc).setWidth 128 := by
      apply BitVec.eq_of_toNat_eq
      simp only [BitVec.toNat_setWidth]
      have := (~~~crc).isLt
      omega
    rw [e, show P32' = P32.setWidth 128 by decide, ← zext_refRaw P32 (by decide) (by decide)]
    congr 1
    apply BitVec.eq_of_toNat_eq
    simp only [BitVec.toNat_setWidth]
    have := (refRaw P32 bs (~~~crc)).isLt
    omega

end XzVerif.Clmul
