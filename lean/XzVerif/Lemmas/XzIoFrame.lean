/-
  Frame facts for the internal dispatchers of the C17 model: they make no system call, so trace, file system,
  call counter, stat results and user_abort are unchanged, and they can only stop at certain program counters.
-/
import XzVerif.Model.XzIo

namespace XzVerif.XzIo
variable {α : Type}

/-- what a dispatcher leaves untouched -/
structure Frame (s s' : St α) : Prop where
  trace : s'.trace = s.trace
  fs : s'.fs = s.fs
  k : s'.k = s.k
  destStIno : s'.destStIno = s.destStIno
  srcStIno : s'.srcStIno = s.srcStIno
  userAbort : s'.userAbort = s.userAbort
  destOpen : s'.destOpen = s.destOpen
  srcOpen : s'.srcOpen = s.srcOpen
  dirOpen : s'.dirOpen = s.dirOpen
  exitMono : s.exitSt ≠ 0 → s'.exitSt ≠ 0
  mainMono : s'.main = false → s.main = false

theorem Frame.refl (s : St α) : Frame s s := ⟨rfl, rfl, rfl, rfl, rfl, rfl, rfl, rfl, rfl, id, id⟩

theorem Frame.trans {a b c : St α} (h1 : Frame a b) (h2 : Frame b c) : Frame a c :=
  ⟨h2.trace.trans h1.trace, h2.fs.trans h1.fs, h2.k.trans h1.k, h2.destStIno.trans h1.destStIno,
   h2.srcStIno.trans h1.srcStIno, h2.userAbort.trans h1.userAbort, h2.destOpen.trans h1.destOpen,
   h2.srcOpen.trans h1.srcOpen, h2.dirOpen.trans h1.dirOpen, fun h => h2.exitMono (h1.exitMono h), fun h => h1.mainMono (h2.mainMono h)⟩

/-- the block counter is not part of a frame -/
theorem Frame.ofBlk {s s' : St α} {n : Nat} (f : Frame { s with blk := n } s') : Frame s s' :=
  ⟨f.trace, f.fs, f.k, f.destStIno, f.srcStIno, f.userAbort, f.destOpen, f.srcOpen, f.dirOpen, f.exitMono, f.mainMono⟩

/-- program counters at which io_close's dispatchers can stop -/
def Pc.closing : Pc → Bool
  | .done | .closeSrc | .closeDir | .closeDest | .fchownUid | .fsyncFile | .tailSeek => true
  | _ => false

/-- program counters at which any dispatcher can stop -/
def Pc.landing : Pc → Bool
  | .done | .closeSrc | .closeDir | .closeDest | .fchownUid | .fsyncFile | .tailSeek
  | .read | .write | .seekHole | .fixPos | .fstatDest | .openDir | .unlinkForce | .openDest | .closeDirErr => true
  | _ => false

theorem closing_landing {p : Pc} (h : p.closing = true) : p.landing = true := by
  cases p <;> simp_all [Pc.closing, Pc.landing]

variable (c : Cfg α)

theorem frame_closeSrcPhase (s : St α) : Frame s (closeSrcPhase c s) ∧ (closeSrcPhase c s).pc.closing = true ∧
    (closeSrcPhase c s).success = s.success := by
  unfold closeSrcPhase; split <;> exact ⟨⟨rfl, rfl, rfl, rfl, rfl, rfl, rfl, rfl, rfl, id, id⟩, rfl, rfl⟩

theorem frame_closeDestPhase (s : St α) : Frame s (closeDestPhase c s) ∧ (closeDestPhase c s).pc.closing = true ∧
    (closeDestPhase c s).success = s.success := by
  unfold closeDestPhase
  split
  · exact frame_closeSrcPhase c s
  · split <;> exact ⟨⟨rfl, rfl, rfl, rfl, rfl, rfl, rfl, rfl, rfl, id, id⟩, rfl, rfl⟩

theorem frame_afterAttrs (s : St α) : Frame s (afterAttrs c s) ∧ (afterAttrs c s).pc.closing = true ∧
    (afterAttrs c s).success = s.success := by
  unfold afterAttrs
  split
  · exact ⟨⟨rfl, rfl, rfl, rfl, rfl, rfl, rfl, rfl, rfl, id, id⟩, rfl, rfl⟩
  · exact frame_closeDestPhase c s

theorem frame_closeBlock (s : St α) : Frame s (closeBlock c s) ∧ (closeBlock c s).pc.closing = true ∧
    (closeBlock c s).success = s.success := by
  unfold closeBlock
  split
  · exact ⟨⟨rfl, rfl, rfl, rfl, rfl, rfl, rfl, rfl, rfl, id, id⟩, rfl, rfl⟩
  · have := frame_closeDestPhase c { s with blk := s.blk + 1 }
    exact ⟨this.1.ofBlk, this.2.1, this.2.2⟩

theorem frame_ioClose (s : St α) : Frame s (ioClose c s) ∧ (ioClose c s).pc.closing = true ∧
    (ioClose c s).success = s.success := by
  unfold ioClose
  split
  · exact ⟨⟨rfl, rfl, rfl, rfl, rfl, rfl, rfl, rfl, rfl, id, id⟩, rfl, rfl⟩
  · exact frame_closeBlock c s

theorem frame_ioFail (s : St α) : Frame s (ioFail c s) ∧ (ioFail c s).pc.closing = true ∧
    (ioFail c s).success = false := by
  unfold ioFail
  have := frame_closeBlock c { s with success := false, ops := [] }
  exact ⟨⟨this.1.trace, this.1.fs, this.1.k, this.1.destStIno, this.1.srcStIno, this.1.userAbort, this.1.destOpen,
    this.1.srcOpen, this.1.dirOpen, this.1.exitMono, this.1.mainMono⟩, this.2.1, this.2.2⟩

theorem frame_openDestErr (s : St α) : Frame s (openDestErr c s) ∧ (openDestErr c s).pc.landing = true := by
  unfold openDestErr
  split
  · exact ⟨⟨rfl, rfl, rfl, rfl, rfl, rfl, rfl, rfl, rfl, id, id⟩, rfl⟩
  · have := frame_ioFail c { s with blk := s.blk - 1 }; exact ⟨this.1.ofBlk, closing_landing this.2.1⟩

theorem frame_finish (s : St α) : Frame s (finish c s) ∧ (finish c s).pc.landing = true := by
  unfold finish
  split
  · have := frame_ioClose c { s with success := true }
    exact ⟨⟨this.1.trace, this.1.fs, this.1.k, this.1.destStIno, this.1.srcStIno, this.1.userAbort, this.1.destOpen,
      this.1.srcOpen, this.1.dirOpen, this.1.exitMono, this.1.mainMono⟩, closing_landing this.2.1⟩
  · have := frame_ioFail c (msgError s)
    exact ⟨⟨this.1.trace, this.1.fs, this.1.k, this.1.destStIno, this.1.srcStIno, this.1.userAbort, this.1.destOpen,
      this.1.srcOpen, this.1.dirOpen, fun _ => this.1.exitMono (by simp [msgError]), this.1.mainMono⟩, closing_landing this.2.1⟩

theorem frame_nextMain (ops : List (Op α)) (s : St α) : Frame s (nextMain c ops s) ∧ (nextMain c ops s).pc.landing = true := by
  induction ops generalizing s with
  | nil =>
    unfold nextMain
    have := frame_finish c { s with ops := [] }
    exact ⟨⟨this.1.trace, this.1.fs, this.1.k, this.1.destStIno, this.1.srcStIno, this.1.userAbort, this.1.destOpen,
      this.1.srcOpen, this.1.dirOpen, this.1.exitMono, this.1.mainMono⟩, this.2⟩
  | cons op r ih =>
    cases op with
    | tick =>
      unfold nextMain
      split
      · have := frame_ioFail c s; exact ⟨this.1, closing_landing this.2.1⟩
      · exact ih s
    | read n =>
      unfold nextMain
      split
      · exact ih s
      · exact ⟨⟨rfl, rfl, rfl, rfl, rfl, rfl, rfl, rfl, rfl, id, id⟩, rfl⟩
    | fixPos n =>
      unfold nextMain
      split
      · exact ih s
      · exact ⟨⟨rfl, rfl, rfl, rfl, rfl, rfl, rfl, rfl, rfl, id, id⟩, rfl⟩
    | write d sp =>
      unfold nextMain
      split
      · exact ih s
      · split
        · have := ih { s with pending := s.pending + d.length }
          exact ⟨⟨this.1.trace, this.1.fs, this.1.k, this.1.destStIno, this.1.srcStIno, this.1.userAbort,
            this.1.destOpen, this.1.srcOpen, this.1.dirOpen, this.1.exitMono, this.1.mainMono⟩, this.2⟩
        · split
          · exact ih s
          · split <;> exact ⟨⟨rfl, rfl, rfl, rfl, rfl, rfl, rfl, rfl, rfl, id, id⟩, rfl⟩

theorem frame_doInit (s : St α) : Frame s (doInit c s) ∧ (doInit c s).pc.landing = true := by
  have lift : ∀ s' : St α, Frame { s with main := true, ops := c.ops } s' → Frame s s' := fun s' f =>
    ⟨f.trace, f.fs, f.k, f.destStIno, f.srcStIno, f.userAbort, f.destOpen, f.srcOpen, f.dirOpen, f.exitMono,
      fun h => by have := f.mainMono h; simp at this⟩
  unfold doInit
  simp only
  split
  · have := frame_ioFail c (msgError { s with main := true, ops := c.ops })
    exact ⟨⟨this.1.trace, this.1.fs, this.1.k, this.1.destStIno, this.1.srcStIno, this.1.userAbort, this.1.destOpen,
      this.1.srcOpen, this.1.dirOpen, fun _ => this.1.exitMono (by simp [msgError]),
      fun h => by have := this.1.mainMono h; simp [msgError] at this⟩, closing_landing this.2.1⟩
  · split
    · have := frame_ioFail c { s with main := true, ops := c.ops }
      exact ⟨lift _ this.1, closing_landing this.2.1⟩
    · split
      · have := frame_nextMain c c.ops { s with main := true, ops := c.ops }
        exact ⟨lift _ this.1, this.2⟩
      · split
        · exact ⟨⟨rfl, rfl, rfl, rfl, rfl, rfl, rfl, rfl, rfl, id, fun h => by simp at h⟩, rfl⟩
        · split
          · exact ⟨⟨rfl, rfl, rfl, rfl, rfl, rfl, rfl, rfl, rfl, id, fun h => by simp at h⟩, rfl⟩
          · split <;> exact ⟨⟨rfl, rfl, rfl, rfl, rfl, rfl, rfl, rfl, rfl, id, fun h => by simp at h⟩, rfl⟩

theorem frame_nextPre (ops : List (Op α)) (s : St α) : Frame s (nextPre c ops s) ∧ (nextPre c ops s).pc.landing = true := by
  induction ops generalizing s with
  | nil => unfold nextPre; exact frame_doInit c s
  | cons op r ih =>
    cases op with
    | read n =>
      unfold nextPre
      split
      · exact ih s
      · exact ⟨⟨rfl, rfl, rfl, rfl, rfl, rfl, rfl, rfl, rfl, id, id⟩, rfl⟩
    | tick => unfold nextPre; exact ih s
    | write d sp => unfold nextPre; exact ih s
    | fixPos n => unfold nextPre; exact ih s

theorem frame_continueLoop (s : St α) : Frame s (continueLoop c s) ∧ (continueLoop c s).pc.landing = true := by
  unfold continueLoop
  split
  · exact frame_nextMain c s.ops s
  · exact frame_nextPre c s.ops s

theorem frame_afterWrite (s : St α) : Frame s (afterWrite c s) ∧ (afterWrite c s).pc.landing = true := by
  unfold afterWrite
  split
  · have := frame_closeBlock c s; exact ⟨this.1, closing_landing this.2.1⟩
  · exact frame_continueLoop c s

/-! ### simp forms -/

@[simp] theorem closeSrcPhase_trace (s : St α) : (closeSrcPhase c s).trace = s.trace := (frame_closeSrcPhase c s).1.trace
@[simp] theorem closeSrcPhase_fs (s : St α) : (closeSrcPhase c s).fs = s.fs := (frame_closeSrcPhase c s).1.fs
@[simp] theorem closeSrcPhase_k (s : St α) : (closeSrcPhase c s).k = s.k := (frame_closeSrcPhase c s).1.k
@[simp] theorem closeSrcPhase_destStIno (s : St α) : (closeSrcPhase c s).destStIno = s.destStIno := (frame_closeSrcPhase c s).1.destStIno
@[simp] theorem closeSrcPhase_srcStIno (s : St α) : (closeSrcPhase c s).srcStIno = s.srcStIno := (frame_closeSrcPhase c s).1.srcStIno
@[simp] theorem closeSrcPhase_userAbort (s : St α) : (closeSrcPhase c s).userAbort = s.userAbort := (frame_closeSrcPhase c s).1.userAbort
@[simp] theorem closeSrcPhase_destOpen (s : St α) : (closeSrcPhase c s).destOpen = s.destOpen := (frame_closeSrcPhase c s).1.destOpen
@[simp] theorem closeSrcPhase_srcOpen (s : St α) : (closeSrcPhase c s).srcOpen = s.srcOpen := (frame_closeSrcPhase c s).1.srcOpen
@[simp] theorem closeSrcPhase_dirOpen (s : St α) : (closeSrcPhase c s).dirOpen = s.dirOpen := (frame_closeSrcPhase c s).1.dirOpen
theorem closeSrcPhase_landing (s : St α) : (closeSrcPhase c s).pc.landing = true := closing_landing (frame_closeSrcPhase c s).2.1
@[simp] theorem closeSrcPhase_ne_unlinkDest (s : St α) : ((closeSrcPhase c s).pc = .unlinkDest) = False := by
  have h := closeSrcPhase_landing c s; simp only [eq_iff_iff, iff_false]; intro e; rw [e] at h; simp [Pc.landing] at h
@[simp] theorem closeSrcPhase_ne_statDest (s : St α) : ((closeSrcPhase c s).pc = .statDest) = False := by
  have h := closeSrcPhase_landing c s; simp only [eq_iff_iff, iff_false]; intro e; rw [e] at h; simp [Pc.landing] at h
@[simp] theorem closeSrcPhase_ne_statSrc (s : St α) : ((closeSrcPhase c s).pc = .statSrc) = False := by
  have h := closeSrcPhase_landing c s; simp only [eq_iff_iff, iff_false]; intro e; rw [e] at h; simp [Pc.landing] at h
@[simp] theorem closeSrcPhase_ne_unlinkSrc (s : St α) : ((closeSrcPhase c s).pc = .unlinkSrc) = False := by
  have h := closeSrcPhase_landing c s; simp only [eq_iff_iff, iff_false]; intro e; rw [e] at h; simp [Pc.landing] at h
@[simp] theorem closeSrcPhase_ne_fsyncDir (s : St α) : ((closeSrcPhase c s).pc = .fsyncDir) = False := by
  have h := closeSrcPhase_landing c s; simp only [eq_iff_iff, iff_false]; intro e; rw [e] at h; simp [Pc.landing] at h
@[simp] theorem closeSrcPhase_ne_closeSrcErr (s : St α) : ((closeSrcPhase c s).pc = .closeSrcErr) = False := by
  have h := closeSrcPhase_landing c s; simp only [eq_iff_iff, iff_false]; intro e; rw [e] at h; simp [Pc.landing] at h
@[simp] theorem closeDestPhase_trace (s : St α) : (closeDestPhase c s).trace = s.trace := (frame_closeDestPhase c s).1.trace
@[simp] theorem closeDestPhase_fs (s : St α) : (closeDestPhase c s).fs = s.fs := (frame_closeDestPhase c s).1.fs
@[simp] theorem closeDestPhase_k (s : St α) : (closeDestPhase c s).k = s.k := (frame_closeDestPhase c s).1.k
@[simp] theorem closeDestPhase_destStIno (s : St α) : (closeDestPhase c s).destStIno = s.destStIno := (frame_closeDestPhase c s).1.destStIno
@[simp] theorem closeDestPhase_srcStIno (s : St α) : (closeDestPhase c s).srcStIno = s.srcStIno := (frame_closeDestPhase c s).1.srcStIno
@[simp] theorem closeDestPhase_userAbort (s : St α) : (closeDestPhase c s).userAbort = s.userAbort := (frame_closeDestPhase c s).1.userAbort
@[simp] theorem closeDestPhase_destOpen (s : St α) : (closeDestPhase c s).destOpen = s.destOpen := (frame_closeDestPhase c s).1.destOpen
@[simp] theorem closeDestPhase_srcOpen (s : St α) : (closeDestPhase c s).srcOpen = s.srcOpen := (frame_closeDestPhase c s).1.srcOpen
@[simp] theorem closeDestPhase_dirOpen (s : St α) : (closeDestPhase c s).dirOpen = s.dirOpen := (frame_closeDestPhase c s).1.dirOpen
theorem closeDestPhase_landing (s : St α) : (closeDestPhase c s).pc.landing = true := closing_landing (frame_closeDestPhase c s).2.1
@[simp] theorem closeDestPhase_ne_unlinkDest (s : St α) : ((closeDestPhase c s).pc = .unlinkDest) = False := by
  have h := closeDestPhase_landing c s; simp only [eq_iff_iff, iff_false]; intro e; rw [e] at h; simp [Pc.landing] at h
@[simp] theorem closeDestPhase_ne_statDest (s : St α) : ((closeDestPhase c s).pc = .statDest) = False := by
  have h := closeDestPhase_landing c s; simp only [eq_iff_iff, iff_false]; intro e; rw [e] at h; simp [Pc.landing] at h
@[simp] theorem closeDestPhase_ne_statSrc (s : St α) : ((closeDestPhase c s).pc = .statSrc) = False := by
  have h := closeDestPhase_landing c s; simp only [eq_iff_iff, iff_false]; intro e; rw [e] at h; simp [Pc.landing] at h
@[simp] theorem closeDestPhase_ne_unlinkSrc (s : St α) : ((closeDestPhase c s).pc = .unlinkSrc) = False := by
  have h := closeDestPhase_landing c s; simp only [eq_iff_iff, iff_false]; intro e; rw [e] at h; simp [Pc.landing] at h
@[simp] theorem closeDestPhase_ne_fsyncDir (s : St α) : ((closeDestPhase c s).pc = .fsyncDir) = False := by
  have h := closeDestPhase_landing c s; simp only [eq_iff_iff, iff_false]; intro e; rw [e] at h; simp [Pc.landing] at h
@[simp] theorem closeDestPhase_ne_closeSrcErr (s : St α) : ((closeDestPhase c s).pc = .closeSrcErr) = False := by
  have h := closeDestPhase_landing c s; simp only [eq_iff_iff, iff_false]; intro e; rw [e] at h; simp [Pc.landing] at h
@[simp] theorem afterAttrs_trace (s : St α) : (afterAttrs c s).trace = s.trace := (frame_afterAttrs c s).1.trace
@[simp] theorem afterAttrs_fs (s : St α) : (afterAttrs c s).fs = s.fs := (frame_afterAttrs c s).1.fs
@[simp] theorem afterAttrs_k (s : St α) : (afterAttrs c s).k = s.k := (frame_afterAttrs c s).1.k
@[simp] theorem afterAttrs_destStIno (s : St α) : (afterAttrs c s).destStIno = s.destStIno := (frame_afterAttrs c s).1.destStIno
@[simp] theorem afterAttrs_srcStIno (s : St α) : (afterAttrs c s).srcStIno = s.srcStIno := (frame_afterAttrs c s).1.srcStIno
@[simp] theorem afterAttrs_userAbort (s : St α) : (afterAttrs c s).userAbort = s.userAbort := (frame_afterAttrs c s).1.userAbort
@[simp] theorem afterAttrs_destOpen (s : St α) : (afterAttrs c s).destOpen = s.destOpen := (frame_afterAttrs c s).1.destOpen
@[simp] theorem afterAttrs_srcOpen (s : St α) : (afterAttrs c s).srcOpen = s.srcOpen := (frame_afterAttrs c s).1.srcOpen
@[simp] theorem afterAttrs_dirOpen (s : St α) : (afterAttrs c s).dirOpen = s.dirOpen := (frame_afterAttrs c s).1.dirOpen
theorem afterAttrs_landing (s : St α) : (afterAttrs c s).pc.landing = true := closing_landing (frame_afterAttrs c s).2.1
@[simp] theorem afterAttrs_ne_unlinkDest (s : St α) : ((afterAttrs c s).pc = .unlinkDest) = False := by
  have h := afterAttrs_landing c s; simp only [eq_iff_iff, iff_false]; intro e; rw [e] at h; simp [Pc.landing] at h
@[simp] theorem afterAttrs_ne_statDest (s : St α) : ((afterAttrs c s).pc = .statDest) = False := by
  have h := afterAttrs_landing c s; simp only [eq_iff_iff, iff_false]; intro e; rw [e] at h; simp [Pc.landing] at h
@[simp] theorem afterAttrs_ne_statSrc (s : St α) : ((afterAttrs c s).pc = .statSrc) = False := by
  have h := afterAttrs_landing c s; simp only [eq_iff_iff, iff_false]; intro e; rw [e] at h; simp [Pc.landing] at h
@[simp] theorem afterAttrs_ne_unlinkSrc (s : St α) : ((afterAttrs c s).pc = .unlinkSrc) = False := by
  have h := afterAttrs_landing c s; simp only [eq_iff_iff, iff_false]; intro e; rw [e] at h; simp [Pc.landing] at h
@[simp] theorem afterAttrs_ne_fsyncDir (s : St α) : ((afterAttrs c s).pc = .fsyncDir) = False := by
  have h := afterAttrs_landing c s; simp only [eq_iff_iff, iff_false]; intro e; rw [e] at h; simp [Pc.landing] at h
@[simp] theorem afterAttrs_ne_closeSrcErr (s : St α) : ((afterAttrs c s).pc = .closeSrcErr) = False := by
  have h := afterAttrs_landing c s; simp only [eq_iff_iff, iff_false]; intro e; rw [e] at h; simp [Pc.landing] at h
@[simp] theorem closeBlock_trace (s : St α) : (closeBlock c s).trace = s.trace := (frame_closeBlock c s).1.trace
@[simp] theorem closeBlock_fs (s : St α) : (closeBlock c s).fs = s.fs := (frame_closeBlock c s).1.fs
@[simp] theorem closeBlock_k (s : St α) : (closeBlock c s).k = s.k := (frame_closeBlock c s).1.k
@[simp] theorem closeBlock_destStIno (s : St α) : (closeBlock c s).destStIno = s.destStIno := (frame_closeBlock c s).1.destStIno
@[simp] theorem closeBlock_srcStIno (s : St α) : (closeBlock c s).srcStIno = s.srcStIno := (frame_closeBlock c s).1.srcStIno
@[simp] theorem closeBlock_userAbort (s : St α) : (closeBlock c s).userAbort = s.userAbort := (frame_closeBlock c s).1.userAbort
@[simp] theorem closeBlock_destOpen (s : St α) : (closeBlock c s).destOpen = s.destOpen := (frame_closeBlock c s).1.destOpen
@[simp] theorem closeBlock_srcOpen (s : St α) : (closeBlock c s).srcOpen = s.srcOpen := (frame_closeBlock c s).1.srcOpen
@[simp] theorem closeBlock_dirOpen (s : St α) : (closeBlock c s).dirOpen = s.dirOpen := (frame_closeBlock c s).1.dirOpen
theorem closeBlock_landing (s : St α) : (closeBlock c s).pc.landing = true := closing_landing (frame_closeBlock c s).2.1
@[simp] theorem closeBlock_ne_unlinkDest (s : St α) : ((closeBlock c s).pc = .unlinkDest) = False := by
  have h := closeBlock_landing c s; simp only [eq_iff_iff, iff_false]; intro e; rw [e] at h; simp [Pc.landing] at h
@[simp] theorem closeBlock_ne_statDest (s : St α) : ((closeBlock c s).pc = .statDest) = False := by
  have h := closeBlock_landing c s; simp only [eq_iff_iff, iff_false]; intro e; rw [e] at h; simp [Pc.landing] at h
@[simp] theorem closeBlock_ne_statSrc (s : St α) : ((closeBlock c s).pc = .statSrc) = False := by
  have h := closeBlock_landing c s; simp only [eq_iff_iff, iff_false]; intro e; rw [e] at h; simp [Pc.landing] at h
@[simp] theorem closeBlock_ne_unlinkSrc (s : St α) : ((closeBlock c s).pc = .unlinkSrc) = False := by
  have h := closeBlock_landing c s; simp only [eq_iff_iff, iff_false]; intro e; rw [e] at h; simp [Pc.landing] at h
@[simp] theorem closeBlock_ne_fsyncDir (s : St α) : ((closeBlock c s).pc = .fsyncDir) = False := by
  have h := closeBlock_landing c s; simp only [eq_iff_iff, iff_false]; intro e; rw [e] at h; simp [Pc.landing] at h
@[simp] theorem closeBlock_ne_closeSrcErr (s : St α) : ((closeBlock c s).pc = .closeSrcErr) = False := by
  have h := closeBlock_landing c s; simp only [eq_iff_iff, iff_false]; intro e; rw [e] at h; simp [Pc.landing] at h
@[simp] theorem ioClose_trace (s : St α) : (ioClose c s).trace = s.trace := (frame_ioClose c s).1.trace
@[simp] theorem ioClose_fs (s : St α) : (ioClose c s).fs = s.fs := (frame_ioClose c s).1.fs
@[simp] theorem ioClose_k (s : St α) : (ioClose c s).k = s.k := (frame_ioClose c s).1.k
@[simp] theorem ioClose_destStIno (s : St α) : (ioClose c s).destStIno = s.destStIno := (frame_ioClose c s).1.destStIno
@[simp] theorem ioClose_srcStIno (s : St α) : (ioClose c s).srcStIno = s.srcStIno := (frame_ioClose c s).1.srcStIno
@[simp] theorem ioClose_userAbort (s : St α) : (ioClose c s).userAbort = s.userAbort := (frame_ioClose c s).1.userAbort
@[simp] theorem ioClose_destOpen (s : St α) : (ioClose c s).destOpen = s.destOpen := (frame_ioClose c s).1.destOpen
@[simp] theorem ioClose_srcOpen (s : St α) : (ioClose c s).srcOpen = s.srcOpen := (frame_ioClose c s).1.srcOpen
@[simp] theorem ioClose_dirOpen (s : St α) : (ioClose c s).dirOpen = s.dirOpen := (frame_ioClose c s).1.dirOpen
theorem ioClose_landing (s : St α) : (ioClose c s).pc.landing = true := closing_landing (frame_ioClose c s).2.1
@[simp] theorem ioClose_ne_unlinkDest (s : St α) : ((ioClose c s).pc = .unlinkDest) = False := by
  have h := ioClose_landing c s; simp only [eq_iff_iff, iff_false]; intro e; rw [e] at h; simp [Pc.landing] at h
@[simp] theorem ioClose_ne_statDest (s : St α) : ((ioClose c s).pc = .statDest) = False := by
  have h := ioClose_landing c s; simp only [eq_iff_iff, iff_false]; intro e; rw [e] at h; simp [Pc.landing] at h
@[simp] theorem ioClose_ne_statSrc (s : St α) : ((ioClose c s).pc = .statSrc) = False := by
  have h := ioClose_landing c s; simp only [eq_iff_iff, iff_false]; intro e; rw [e] at h; simp [Pc.landing] at h
@[simp] theorem ioClose_ne_unlinkSrc (s : St α) : ((ioClose c s).pc = .unlinkSrc) = False := by
  have h := ioClose_landing c s; simp only [eq_iff_iff, iff_false]; intro e; rw [e] at h; simp [Pc.landing] at h
@[simp] theorem ioClose_ne_fsyncDir (s : St α) : ((ioClose c s).pc = .fsyncDir) = False := by
  have h := ioClose_landing c s; simp only [eq_iff_iff, iff_false]; intro e; rw [e] at h; simp [Pc.landing] at h
@[simp] theorem ioClose_ne_closeSrcErr (s : St α) : ((ioClose c s).pc = .closeSrcErr) = False := by
  have h := ioClose_landing c s; simp only [eq_iff_iff, iff_false]; intro e; rw [e] at h; simp [Pc.landing] at h
@[simp] theorem ioFail_trace (s : St α) : (ioFail c s).trace = s.trace := (frame_ioFail c s).1.trace
@[simp] theorem ioFail_fs (s : St α) : (ioFail c s).fs = s.fs := (frame_ioFail c s).1.fs
@[simp] theorem ioFail_k (s : St α) : (ioFail c s).k = s.k := (frame_ioFail c s).1.k
@[simp] theorem ioFail_destStIno (s : St α) : (ioFail c s).destStIno = s.destStIno := (frame_ioFail c s).1.destStIno
@[simp] theorem ioFail_srcStIno (s : St α) : (ioFail c s).srcStIno = s.srcStIno := (frame_ioFail c s).1.srcStIno
@[simp] theorem ioFail_userAbort (s : St α) : (ioFail c s).userAbort = s.userAbort := (frame_ioFail c s).1.userAbort
@[simp] theorem ioFail_destOpen (s : St α) : (ioFail c s).destOpen = s.destOpen := (frame_ioFail c s).1.destOpen
@[simp] theorem ioFail_srcOpen (s : St α) : (ioFail c s).srcOpen = s.srcOpen := (frame_ioFail c s).1.srcOpen
@[simp] theorem ioFail_dirOpen (s : St α) : (ioFail c s).dirOpen = s.dirOpen := (frame_ioFail c s).1.dirOpen
theorem ioFail_landing (s : St α) : (ioFail c s).pc.landing = true := closing_landing (frame_ioFail c s).2.1
@[simp] theorem ioFail_ne_unlinkDest (s : St α) : ((ioFail c s).pc = .unlinkDest) = False := by
  have h := ioFail_landing c s; simp only [eq_iff_iff, iff_false]; intro e; rw [e] at h; simp [Pc.landing] at h
@[simp] theorem ioFail_ne_statDest (s : St α) : ((ioFail c s).pc = .statDest) = False := by
  have h := ioFail_landing c s; simp only [eq_iff_iff, iff_false]; intro e; rw [e] at h; simp [Pc.landing] at h
@[simp] theorem ioFail_ne_statSrc (s : St α) : ((ioFail c s).pc = .statSrc) = False := by
  have h := ioFail_landing c s; simp only [eq_iff_iff, iff_false]; intro e; rw [e] at h; simp [Pc.landing] at h
@[simp] theorem ioFail_ne_unlinkSrc (s : St α) : ((ioFail c s).pc = .unlinkSrc) = False := by
  have h := ioFail_landing c s; simp only [eq_iff_iff, iff_false]; intro e; rw [e] at h; simp [Pc.landing] at h
@[simp] theorem ioFail_ne_fsyncDir (s : St α) : ((ioFail c s).pc = .fsyncDir) = False := by
  have h := ioFail_landing c s; simp only [eq_iff_iff, iff_false]; intro e; rw [e] at h; simp [Pc.landing] at h
@[simp] theorem ioFail_ne_closeSrcErr (s : St α) : ((ioFail c s).pc = .closeSrcErr) = False := by
  have h := ioFail_landing c s; simp only [eq_iff_iff, iff_false]; intro e; rw [e] at h; simp [Pc.landing] at h
@[simp] theorem openDestErr_trace (s : St α) : (openDestErr c s).trace = s.trace := (frame_openDestErr c s).1.trace
@[simp] theorem openDestErr_fs (s : St α) : (openDestErr c s).fs = s.fs := (frame_openDestErr c s).1.fs
@[simp] theorem openDestErr_k (s : St α) : (openDestErr c s).k = s.k := (frame_openDestErr c s).1.k
@[simp] theorem openDestErr_destStIno (s : St α) : (openDestErr c s).destStIno = s.destStIno := (frame_openDestErr c s).1.destStIno
@[simp] theorem openDestErr_srcStIno (s : St α) : (openDestErr c s).srcStIno = s.srcStIno := (frame_openDestErr c s).1.srcStIno
@[simp] theorem openDestErr_userAbort (s : St α) : (openDestErr c s).userAbort = s.userAbort := (frame_openDestErr c s).1.userAbort
@[simp] theorem openDestErr_destOpen (s : St α) : (openDestErr c s).destOpen = s.destOpen := (frame_openDestErr c s).1.destOpen
@[simp] theorem openDestErr_srcOpen (s : St α) : (openDestErr c s).srcOpen = s.srcOpen := (frame_openDestErr c s).1.srcOpen
@[simp] theorem openDestErr_dirOpen (s : St α) : (openDestErr c s).dirOpen = s.dirOpen := (frame_openDestErr c s).1.dirOpen
theorem openDestErr_landing (s : St α) : (openDestErr c s).pc.landing = true := (frame_openDestErr c s).2
@[simp] theorem openDestErr_ne_unlinkDest (s : St α) : ((openDestErr c s).pc = .unlinkDest) = False := by
  have h := openDestErr_landing c s; simp only [eq_iff_iff, iff_false]; intro e; rw [e] at h; simp [Pc.landing] at h
@[simp] theorem openDestErr_ne_statDest (s : St α) : ((openDestErr c s).pc = .statDest) = False := by
  have h := openDestErr_landing c s; simp only [eq_iff_iff, iff_false]; intro e; rw [e] at h; simp [Pc.landing] at h
@[simp] theorem openDestErr_ne_statSrc (s : St α) : ((openDestErr c s).pc = .statSrc) = False := by
  have h := openDestErr_landing c s; simp only [eq_iff_iff, iff_false]; intro e; rw [e] at h; simp [Pc.landing] at h
@[simp] theorem openDestErr_ne_unlinkSrc (s : St α) : ((openDestErr c s).pc = .unlinkSrc) = False := by
  have h := openDestErr_landing c s; simp only [eq_iff_iff, iff_false]; intro e; rw [e] at h; simp [Pc.landing] at h
@[simp] theorem openDestErr_ne_fsyncDir (s : St α) : ((openDestErr c s).pc = .fsyncDir) = False := by
  have h := openDestErr_landing c s; simp only [eq_iff_iff, iff_false]; intro e; rw [e] at h; simp [Pc.landing] at h
@[simp] theorem openDestErr_ne_closeSrcErr (s : St α) : ((openDestErr c s).pc = .closeSrcErr) = False := by
  have h := openDestErr_landing c s; simp only [eq_iff_iff, iff_false]; intro e; rw [e] at h; simp [Pc.landing] at h
@[simp] theorem finish_trace (s : St α) : (finish c s).trace = s.trace := (frame_finish c s).1.trace
@[simp] theorem finish_fs (s : St α) : (finish c s).fs = s.fs := (frame_finish c s).1.fs
@[simp] theorem finish_k (s : St α) : (finish c s).k = s.k := (frame_finish c s).1.k
@[simp] theorem finish_destStIno (s : St α) : (finish c s).destStIno = s.destStIno := (frame_finish c s).1.destStIno
@[simp] theorem finish_srcStIno (s : St α) : (finish c s).srcStIno = s.srcStIno := (frame_finish c s).1.srcStIno
@[simp] theorem finish_userAbort (s : St α) : (finish c s).userAbort = s.userAbort := (frame_finish c s).1.userAbort
@[simp] theorem finish_destOpen (s : St α) : (finish c s).destOpen = s.destOpen := (frame_finish c s).1.destOpen
@[simp] theorem finish_srcOpen (s : St α) : (finish c s).srcOpen = s.srcOpen := (frame_finish c s).1.srcOpen
@[simp] theorem finish_dirOpen (s : St α) : (finish c s).dirOpen = s.dirOpen := (frame_finish c s).1.dirOpen
theorem finish_landing (s : St α) : (finish c s).pc.landing = true := (frame_finish c s).2
@[simp] theorem finish_ne_unlinkDest (s : St α) : ((finish c s).pc = .unlinkDest) = False := by
  have h := finish_landing c s; simp only [eq_iff_iff, iff_false]; intro e; rw [e] at h; simp [Pc.landing] at h
@[simp] theorem finish_ne_statDest (s : St α) : ((finish c s).pc = .statDest) = False := by
  have h := finish_landing c s; simp only [eq_iff_iff, iff_false]; intro e; rw [e] at h; simp [Pc.landing] at h
@[simp] theorem finish_ne_statSrc (s : St α) : ((finish c s).pc = .statSrc) = False := by
  have h := finish_landing c s; simp only [eq_iff_iff, iff_false]; intro e; rw [e] at h; simp [Pc.landing] at h
@[simp] theorem finish_ne_unlinkSrc (s : St α) : ((finish c s).pc = .unlinkSrc) = False := by
  have h := finish_landing c s; simp only [eq_iff_iff, iff_false]; intro e; rw [e] at h; simp [Pc.landing] at h
@[simp] theorem finish_ne_fsyncDir (s : St α) : ((finish c s).pc = .fsyncDir) = False := by
  have h := finish_landing c s; simp only [eq_iff_iff, iff_false]; intro e; rw [e] at h; simp [Pc.landing] at h
@[simp] theorem finish_ne_closeSrcErr (s : St α) : ((finish c s).pc = .closeSrcErr) = False := by
  have h := finish_landing c s; simp only [eq_iff_iff, iff_false]; intro e; rw [e] at h; simp [Pc.landing] at h
@[simp] theorem doInit_trace (s : St α) : (doInit c s).trace = s.trace := (frame_doInit c s).1.trace
@[simp] theorem doInit_fs (s : St α) : (doInit c s).fs = s.fs := (frame_doInit c s).1.fs
@[simp] theorem doInit_k (s : St α) : (doInit c s).k = s.k := (frame_doInit c s).1.k
@[simp] theorem doInit_destStIno (s : St α) : (doInit c s).destStIno = s.destStIno := (frame_doInit c s).1.destStIno
@[simp] theorem doInit_srcStIno (s : St α) : (doInit c s).srcStIno = s.srcStIno := (frame_doInit c s).1.srcStIno
@[simp] theorem doInit_userAbort (s : St α) : (doInit c s).userAbort = s.userAbort := (frame_doInit c s).1.userAbort
@[simp] theorem doInit_destOpen (s : St α) : (doInit c s).destOpen = s.destOpen := (frame_doInit c s).1.destOpen
@[simp] theorem doInit_srcOpen (s : St α) : (doInit c s).srcOpen = s.srcOpen := (frame_doInit c s).1.srcOpen
@[simp] theorem doInit_dirOpen (s : St α) : (doInit c s).dirOpen = s.dirOpen := (frame_doInit c s).1.dirOpen
theorem doInit_landing (s : St α) : (doInit c s).pc.landing = true := (frame_doInit c s).2
@[simp] theorem doInit_ne_unlinkDest (s : St α) : ((doInit c s).pc = .unlinkDest) = False := by
  have h := doInit_landing c s; simp only [eq_iff_iff, iff_false]; intro e; rw [e] at h; simp [Pc.landing] at h
@[simp] theorem doInit_ne_statDest (s : St α) : ((doInit c s).pc = .statDest) = False := by
  have h := doInit_landing c s; simp only [eq_iff_iff, iff_false]; intro e; rw [e] at h; simp [Pc.landing] at h
@[simp] theorem doInit_ne_statSrc (s : St α) : ((doInit c s).pc = .statSrc) = False := by
  have h := doInit_landing c s; simp only [eq_iff_iff, iff_false]; intro e; rw [e] at h; simp [Pc.landing] at h
@[simp] theorem doInit_ne_unlinkSrc (s : St α) : ((doInit c s).pc = .unlinkSrc) = False := by
  have h := doInit_landing c s; simp only [eq_iff_iff, iff_false]; intro e; rw [e] at h; simp [Pc.landing] at h
@[simp] theorem doInit_ne_fsyncDir (s : St α) : ((doInit c s).pc = .fsyncDir) = False := by
  have h := doInit_landing c s; simp only [eq_iff_iff, iff_false]; intro e; rw [e] at h; simp [Pc.landing] at h
@[simp] theorem doInit_ne_closeSrcErr (s : St α) : ((doInit c s).pc = .closeSrcErr) = False := by
  have h := doInit_landing c s; simp only [eq_iff_iff, iff_false]; intro e; rw [e] at h; simp [Pc.landing] at h
@[simp] theorem continueLoop_trace (s : St α) : (continueLoop c s).trace = s.trace := (frame_continueLoop c s).1.trace
@[simp] theorem continueLoop_fs (s : St α) : (continueLoop c s).fs = s.fs := (frame_continueLoop c s).1.fs
@[simp] theorem continueLoop_k (s : St α) : (continueLoop c s).k = s.k := (frame_continueLoop c s).1.k
@[simp] theorem continueLoop_destStIno (s : St α) : (continueLoop c s).destStIno = s.destStIno := (frame_continueLoop c s).1.destStIno
@[simp] theorem continueLoop_srcStIno (s : St α) : (continueLoop c s).srcStIno = s.srcStIno := (frame_continueLoop c s).1.srcStIno
@[simp] theorem continueLoop_userAbort (s : St α) : (continueLoop c s).userAbort = s.userAbort := (frame_continueLoop c s).1.userAbort
@[simp] theorem continueLoop_destOpen (s : St α) : (continueLoop c s).destOpen = s.destOpen := (frame_continueLoop c s).1.destOpen
@[simp] theorem continueLoop_srcOpen (s : St α) : (continueLoop c s).srcOpen = s.srcOpen := (frame_continueLoop c s).1.srcOpen
@[simp] theorem continueLoop_dirOpen (s : St α) : (continueLoop c s).dirOpen = s.dirOpen := (frame_continueLoop c s).1.dirOpen
theorem continueLoop_landing (s : St α) : (continueLoop c s).pc.landing = true := (frame_continueLoop c s).2
@[simp] theorem continueLoop_ne_unlinkDest (s : St α) : ((continueLoop c s).pc = .unlinkDest) = False := by
  have h := continueLoop_landing c s; simp only [eq_iff_iff, iff_false]; intro e; rw [e] at h; simp [Pc.landing] at h
@[simp] theorem continueLoop_ne_statDest (s : St α) : ((continueLoop c s).pc = .statDest) = False := by
  have h := continueLoop_landing c s; simp only [eq_iff_iff, iff_false]; intro e; rw [e] at h; simp [Pc.landing] at h
@[simp] theorem continueLoop_ne_statSrc (s : St α) : ((continueLoop c s).pc = .statSrc) = False := by
  have h := continueLoop_landing c s; simp only [eq_iff_iff, iff_false]; intro e; rw [e] at h; simp [Pc.landing] at h
@[simp] theorem continueLoop_ne_unlinkSrc (s : St α) : ((continueLoop c s).pc = .unlinkSrc) = False := by
  have h := continueLoop_landing c s; simp only [eq_iff_iff, iff_false]; intro e; rw [e] at h; simp [Pc.landing] at h
@[simp] theorem continueLoop_ne_fsyncDir (s : St α) : ((continueLoop c s).pc = .fsyncDir) = False := by
  have h := continueLoop_landing c s; simp only [eq_iff_iff, iff_false]; intro e; rw [e] at h; simp [Pc.landing] at h
@[simp] theorem continueLoop_ne_closeSrcErr (s : St α) : ((continueLoop c s).pc = .closeSrcErr) = False := by
  have h := continueLoop_landing c s; simp only [eq_iff_iff, iff_false]; intro e; rw [e] at h; simp [Pc.landing] at h
@[simp] theorem afterWrite_trace (s : St α) : (afterWrite c s).trace = s.trace := (frame_afterWrite c s).1.trace
@[simp] theorem afterWrite_fs (s : St α) : (afterWrite c s).fs = s.fs := (frame_afterWrite c s).1.fs
@[simp] theorem afterWrite_k (s : St α) : (afterWrite c s).k = s.k := (frame_afterWrite c s).1.k
@[simp] theorem afterWrite_destStIno (s : St α) : (afterWrite c s).destStIno = s.destStIno := (frame_afterWrite c s).1.destStIno
@[simp] theorem afterWrite_srcStIno (s : St α) : (afterWrite c s).srcStIno = s.srcStIno := (frame_afterWrite c s).1.srcStIno
@[simp] theorem afterWrite_userAbort (s : St α) : (afterWrite c s).userAbort = s.userAbort := (frame_afterWrite c s).1.userAbort
@[simp] theorem afterWrite_destOpen (s : St α) : (afterWrite c s).destOpen = s.destOpen := (frame_afterWrite c s).1.destOpen
@[simp] theorem afterWrite_srcOpen (s : St α) : (afterWrite c s).srcOpen = s.srcOpen := (frame_afterWrite c s).1.srcOpen
@[simp] theorem afterWrite_dirOpen (s : St α) : (afterWrite c s).dirOpen = s.dirOpen := (frame_afterWrite c s).1.dirOpen
theorem afterWrite_landing (s : St α) : (afterWrite c s).pc.landing = true := (frame_afterWrite c s).2
@[simp] theorem afterWrite_ne_unlinkDest (s : St α) : ((afterWrite c s).pc = .unlinkDest) = False := by
  have h := afterWrite_landing c s; simp only [eq_iff_iff, iff_false]; intro e; rw [e] at h; simp [Pc.landing] at h
@[simp] theorem afterWrite_ne_statDest (s : St α) : ((afterWrite c s).pc = .statDest) = False := by
  have h := afterWrite_landing c s; simp only [eq_iff_iff, iff_false]; intro e; rw [e] at h; simp [Pc.landing] at h
@[simp] theorem afterWrite_ne_statSrc (s : St α) : ((afterWrite c s).pc = .statSrc) = False := by
  have h := afterWrite_landing c s; simp only [eq_iff_iff, iff_false]; intro e; rw [e] at h; simp [Pc.landing] at h
@[simp] theorem afterWrite_ne_unlinkSrc (s : St α) : ((afterWrite c s).pc = .unlinkSrc) = False := by
  have h := afterWrite_landing c s; simp only [eq_iff_iff, iff_false]; intro e; rw [e] at h; simp [Pc.landing] at h
@[simp] theorem afterWrite_ne_fsyncDir (s : St α) : ((afterWrite c s).pc = .fsyncDir) = False := by
  have h := afterWrite_landing c s; simp only [eq_iff_iff, iff_false]; intro e; rw [e] at h; simp [Pc.landing] at h
@[simp] theorem afterWrite_ne_closeSrcErr (s : St α) : ((afterWrite c s).pc = .closeSrcErr) = False := by
  have h := afterWrite_landing c s; simp only [eq_iff_iff, iff_false]; intro e; rw [e] at h; simp [Pc.landing] at h

@[simp] theorem appendData_trace (s : St α) (d : List α) : (appendData c s d).trace = s.trace := by
  unfold appendData; split <;> rfl
@[simp] theorem appendData_pc (s : St α) (d : List α) : (appendData c s d).pc = s.pc := by
  unfold appendData; split <;> rfl
@[simp] theorem appendData_k (s : St α) (d : List α) : (appendData c s d).k = s.k := by
  unfold appendData; split <;> rfl
@[simp] theorem appendData_destStIno (s : St α) (d : List α) : (appendData c s d).destStIno = s.destStIno := by
  unfold appendData; split <;> rfl
@[simp] theorem appendData_srcStIno (s : St α) (d : List α) : (appendData c s d).srcStIno = s.srcStIno := by
  unfold appendData; split <;> rfl
@[simp] theorem appendData_userAbort (s : St α) (d : List α) : (appendData c s d).userAbort = s.userAbort := by
  unfold appendData; split <;> rfl
@[simp] theorem appendData_destOpen (s : St α) (d : List α) : (appendData c s d).destOpen = s.destOpen := by
  unfold appendData; split <;> rfl
@[simp] theorem appendData_srcOpen (s : St α) (d : List α) : (appendData c s d).srcOpen = s.srcOpen := by
  unfold appendData; split <;> rfl
@[simp] theorem appendData_dirOpen (s : St α) (d : List α) : (appendData c s d).dirOpen = s.dirOpen := by
  unfold appendData; split <;> rfl
@[simp] theorem appendData_ops (s : St α) (d : List α) : (appendData c s d).ops = s.ops := by
  unfold appendData; split <;> rfl
@[simp] theorem appendData_main (s : St α) (d : List α) : (appendData c s d).main = s.main := by
  unfold appendData; split <;> rfl
@[simp] theorem appendData_success (s : St α) (d : List α) : (appendData c s d).success = s.success := by
  unfold appendData; split <;> rfl
@[simp] theorem appendData_exitSt (s : St α) (d : List α) : (appendData c s d).exitSt = s.exitSt := by
  unfold appendData; split <;> rfl
@[simp] theorem appendData_wr (s : St α) (d : List α) : (appendData c s d).wr = s.wr := by
  unfold appendData; split <;> rfl
@[simp] theorem appendData_pending (s : St α) (d : List α) : (appendData c s d).pending = s.pending := by
  unfold appendData; split <;> rfl
@[simp] theorem appendData_trySparse (s : St α) (d : List α) : (appendData c s d).trySparse = s.trySparse := by
  unfold appendData; split <;> rfl
@[simp] theorem appendData_rdRem (s : St α) (d : List α) : (appendData c s d).rdRem = s.rdRem := by
  unfold appendData; split <;> rfl
@[simp] theorem appendData_srcPos (s : St α) (d : List α) : (appendData c s d).srcPos = s.srcPos := by
  unfold appendData; split <;> rfl
@[simp] theorem appendData_fs_srcName (s : St α) (d : List α) : (appendData c s d).fs.srcName = s.fs.srcName := by
  unfold appendData; split <;> rfl
@[simp] theorem appendData_fs_dstName (s : St α) (d : List α) : (appendData c s d).fs.dstName = s.fs.dstName := by
  unfold appendData; split <;> rfl
@[simp] theorem appendData_fs_srcLinked (s : St α) (d : List α) : (appendData c s d).fs.srcLinked = s.fs.srcLinked := by
  unfold appendData; split <;> rfl
@[simp] theorem appendData_fs_preLinked (s : St α) (d : List α) : (appendData c s d).fs.preLinked = s.fs.preLinked := by
  unfold appendData; split <;> rfl
@[simp] theorem appendData_fs_ownLinked (s : St α) (d : List α) : (appendData c s d).fs.ownLinked = s.fs.ownLinked := by
  unfold appendData; split <;> rfl
@[simp] theorem appendData_fs_foreignLinked (s : St α) (d : List α) : (appendData c s d).fs.foreignLinked = s.fs.foreignLinked := by
  unfold appendData; split <;> rfl
@[simp] theorem appendData_fs_dirSynced (s : St α) (d : List α) : (appendData c s d).fs.dirSynced = s.fs.dirSynced := by
  unfold appendData; split <;> rfl

omit c in
@[simp] theorem unlinkIno_dstName (fs : FS α) (i : Nat) : (fs.unlinkIno i).dstName = fs.dstName := by
  unfold FS.unlinkIno; split <;> (try split) <;> (try split) <;> rfl
omit c in
@[simp] theorem unlinkIno_srcName (fs : FS α) (i : Nat) : (fs.unlinkIno i).srcName = fs.srcName := by
  unfold FS.unlinkIno; split <;> (try split) <;> (try split) <;> rfl
omit c in
@[simp] theorem unlinkSrcName_dstName (fs : FS α) : fs.unlinkSrcName.dstName = fs.dstName := by
  unfold FS.unlinkSrcName; split <;> simp
omit c in
@[simp] theorem unlinkDstName_dstName (fs : FS α) : fs.unlinkDstName.dstName = none := by
  unfold FS.unlinkDstName; split <;> simp [*]

theorem closeSrcPhase_closing (s : St α) : (closeSrcPhase c s).pc.closing = true := (frame_closeSrcPhase c s).2.1
@[simp] theorem closeSrcPhase_ne_unlinkForce (s : St α) : ((closeSrcPhase c s).pc = .unlinkForce) = False := by
  have h := closeSrcPhase_closing c s; simp only [eq_iff_iff, iff_false]; intro e; rw [e] at h; simp [Pc.closing] at h
@[simp] theorem closeSrcPhase_ne_openDest (s : St α) : ((closeSrcPhase c s).pc = .openDest) = False := by
  have h := closeSrcPhase_closing c s; simp only [eq_iff_iff, iff_false]; intro e; rw [e] at h; simp [Pc.closing] at h
@[simp] theorem closeSrcPhase_ne_openDir (s : St α) : ((closeSrcPhase c s).pc = .openDir) = False := by
  have h := closeSrcPhase_closing c s; simp only [eq_iff_iff, iff_false]; intro e; rw [e] at h; simp [Pc.closing] at h
@[simp] theorem closeSrcPhase_ne_fstatDest (s : St α) : ((closeSrcPhase c s).pc = .fstatDest) = False := by
  have h := closeSrcPhase_closing c s; simp only [eq_iff_iff, iff_false]; intro e; rw [e] at h; simp [Pc.closing] at h
theorem closeDestPhase_closing (s : St α) : (closeDestPhase c s).pc.closing = true := (frame_closeDestPhase c s).2.1
@[simp] theorem closeDestPhase_ne_unlinkForce (s : St α) : ((closeDestPhase c s).pc = .unlinkForce) = False := by
  have h := closeDestPhase_closing c s; simp only [eq_iff_iff, iff_false]; intro e; rw [e] at h; simp [Pc.closing] at h
@[simp] theorem closeDestPhase_ne_openDest (s : St α) : ((closeDestPhase c s).pc = .openDest) = False := by
  have h := closeDestPhase_closing c s; simp only [eq_iff_iff, iff_false]; intro e; rw [e] at h; simp [Pc.closing] at h
@[simp] theorem closeDestPhase_ne_openDir (s : St α) : ((closeDestPhase c s).pc = .openDir) = False := by
  have h := closeDestPhase_closing c s; simp only [eq_iff_iff, iff_false]; intro e; rw [e] at h; simp [Pc.closing] at h
@[simp] theorem closeDestPhase_ne_fstatDest (s : St α) : ((closeDestPhase c s).pc = .fstatDest) = False := by
  have h := closeDestPhase_closing c s; simp only [eq_iff_iff, iff_false]; intro e; rw [e] at h; simp [Pc.closing] at h
theorem afterAttrs_closing (s : St α) : (afterAttrs c s).pc.closing = true := (frame_afterAttrs c s).2.1
@[simp] theorem afterAttrs_ne_unlinkForce (s : St α) : ((afterAttrs c s).pc = .unlinkForce) = False := by
  have h := afterAttrs_closing c s; simp only [eq_iff_iff, iff_false]; intro e; rw [e] at h; simp [Pc.closing] at h
@[simp] theorem afterAttrs_ne_openDest (s : St α) : ((afterAttrs c s).pc = .openDest) = False := by
  have h := afterAttrs_closing c s; simp only [eq_iff_iff, iff_false]; intro e; rw [e] at h; simp [Pc.closing] at h
@[simp] theorem afterAttrs_ne_openDir (s : St α) : ((afterAttrs c s).pc = .openDir) = False := by
  have h := afterAttrs_closing c s; simp only [eq_iff_iff, iff_false]; intro e; rw [e] at h; simp [Pc.closing] at h
@[simp] theorem afterAttrs_ne_fstatDest (s : St α) : ((afterAttrs c s).pc = .fstatDest) = False := by
  have h := afterAttrs_closing c s; simp only [eq_iff_iff, iff_false]; intro e; rw [e] at h; simp [Pc.closing] at h
theorem closeBlock_closing (s : St α) : (closeBlock c s).pc.closing = true := (frame_closeBlock c s).2.1
@[simp] theorem closeBlock_ne_unlinkForce (s : St α) : ((closeBlock c s).pc = .unlinkForce) = False := by
  have h := closeBlock_closing c s; simp only [eq_iff_iff, iff_false]; intro e; rw [e] at h; simp [Pc.closing] at h
@[simp] theorem closeBlock_ne_openDest (s : St α) : ((closeBlock c s).pc = .openDest) = False := by
  have h := closeBlock_closing c s; simp only [eq_iff_iff, iff_false]; intro e; rw [e] at h; simp [Pc.closing] at h
@[simp] theorem closeBlock_ne_openDir (s : St α) : ((closeBlock c s).pc = .openDir) = False := by
  have h := closeBlock_closing c s; simp only [eq_iff_iff, iff_false]; intro e; rw [e] at h; simp [Pc.closing] at h
@[simp] theorem closeBlock_ne_fstatDest (s : St α) : ((closeBlock c s).pc = .fstatDest) = False := by
  have h := closeBlock_closing c s; simp only [eq_iff_iff, iff_false]; intro e; rw [e] at h; simp [Pc.closing] at h
theorem ioClose_closing (s : St α) : (ioClose c s).pc.closing = true := (frame_ioClose c s).2.1
@[simp] theorem ioClose_ne_unlinkForce (s : St α) : ((ioClose c s).pc = .unlinkForce) = False := by
  have h := ioClose_closing c s; simp only [eq_iff_iff, iff_false]; intro e; rw [e] at h; simp [Pc.closing] at h
@[simp] theorem ioClose_ne_openDest (s : St α) : ((ioClose c s).pc = .openDest) = False := by
  have h := ioClose_closing c s; simp only [eq_iff_iff, iff_false]; intro e; rw [e] at h; simp [Pc.closing] at h
@[simp] theorem ioClose_ne_openDir (s : St α) : ((ioClose c s).pc = .openDir) = False := by
  have h := ioClose_closing c s; simp only [eq_iff_iff, iff_false]; intro e; rw [e] at h; simp [Pc.closing] at h
@[simp] theorem ioClose_ne_fstatDest (s : St α) : ((ioClose c s).pc = .fstatDest) = False := by
  have h := ioClose_closing c s; simp only [eq_iff_iff, iff_false]; intro e; rw [e] at h; simp [Pc.closing] at h
theorem ioFail_closing (s : St α) : (ioFail c s).pc.closing = true := (frame_ioFail c s).2.1
@[simp] theorem ioFail_ne_unlinkForce (s : St α) : ((ioFail c s).pc = .unlinkForce) = False := by
  have h := ioFail_closing c s; simp only [eq_iff_iff, iff_false]; intro e; rw [e] at h; simp [Pc.closing] at h
@[simp] theorem ioFail_ne_openDest (s : St α) : ((ioFail c s).pc = .openDest) = False := by
  have h := ioFail_closing c s; simp only [eq_iff_iff, iff_false]; intro e; rw [e] at h; simp [Pc.closing] at h
@[simp] theorem ioFail_ne_openDir (s : St α) : ((ioFail c s).pc = .openDir) = False := by
  have h := ioFail_closing c s; simp only [eq_iff_iff, iff_false]; intro e; rw [e] at h; simp [Pc.closing] at h
@[simp] theorem ioFail_ne_fstatDest (s : St α) : ((ioFail c s).pc = .fstatDest) = False := by
  have h := ioFail_closing c s; simp only [eq_iff_iff, iff_false]; intro e; rw [e] at h; simp [Pc.closing] at h

theorem finish_closing (s : St α) : (finish c s).pc.closing = true := by
  unfold finish; split
  · exact ioClose_closing c _
  · exact ioFail_closing c _

theorem nextMain_unlinkForce (ops : List (Op α)) (s : St α) : (nextMain c ops s).pc ≠ .unlinkForce := by
  induction ops generalizing s with
  | nil => unfold nextMain; intro e; have := finish_closing c { s with ops := [] }; rw [e] at this; simp [Pc.closing] at this
  | cons op r ih =>
    cases op <;> unfold nextMain
    · split
      · simp
      · exact ih s
    · split
      · exact ih s
      · simp
    · split
      · exact ih s
      · split
        · exact ih _
        · split
          · exact ih s
          · split <;> simp
    · split
      · exact ih s
      · simp

theorem doInit_unlinkForce (s : St α) : (doInit c s).pc = .unlinkForce → c.o.force = true := by
  unfold doInit; simp only
  split
  · simp
  · split
    · simp
    · split
      · intro e; exact absurd e (nextMain_unlinkForce c _ _)
      · split
        · simp
        · split
          · simp
          · split
            · intro _; assumption
            · simp

theorem nextPre_unlinkForce (ops : List (Op α)) (s : St α) : (nextPre c ops s).pc = .unlinkForce → c.o.force = true := by
  induction ops generalizing s with
  | nil => unfold nextPre; exact doInit_unlinkForce c s
  | cons op r ih =>
    cases op <;> unfold nextPre
    · exact ih s
    · split
      · exact ih s
      · simp
    · exact ih s
    · exact ih s

theorem continueLoop_unlinkForce (s : St α) : (continueLoop c s).pc = .unlinkForce → c.o.force = true := by
  unfold continueLoop; split
  · intro e; exact absurd e (nextMain_unlinkForce c _ _)
  · exact nextPre_unlinkForce c _ s

theorem afterWrite_unlinkForce (s : St α) : (afterWrite c s).pc = .unlinkForce → c.o.force = true := by
  unfold afterWrite; split
  · simp
  · exact continueLoop_unlinkForce c s

theorem openDestErr_unlinkForce (s : St α) : (openDestErr c s).pc ≠ .unlinkForce := by
  unfold openDestErr; split <;> simp

omit c in
theorem unlinkIno_preLinked (fs : FS α) {i : Nat} (h : i ≠ inoPre) : (fs.unlinkIno i).preLinked = fs.preLinked := by
  unfold FS.unlinkIno; split <;> (try split) <;> (try split) <;> first | rfl | contradiction
omit c in
theorem unlinkIno_ownLinked_false (fs : FS α) (i : Nat) (h : fs.ownLinked = false) : (fs.unlinkIno i).ownLinked = false := by
  unfold FS.unlinkIno; split <;> (try split) <;> (try split) <;> first | exact h | rfl
omit c in
theorem unlinkIno_srcLinked (fs : FS α) {i : Nat} (h : i ≠ inoSrc) : (fs.unlinkIno i).srcLinked = fs.srcLinked := by
  unfold FS.unlinkIno; split <;> (try split) <;> (try split) <;> first | rfl | contradiction
omit c in
theorem unlinkIno_ownLinked (fs : FS α) {i : Nat} (h : i ≠ inoOwn) : (fs.unlinkIno i).ownLinked = fs.ownLinked := by
  unfold FS.unlinkIno; split <;> (try split) <;> (try split) <;> first | rfl | contradiction

/-! ### where io_close's dispatchers can land, and with which `success` -/

def Pc.isCloseD : Pc → Bool
  | .closeDir | .closeDest => true
  | _ => false

theorem closeSrcPhase_notCloseD (s : St α) : (closeSrcPhase c s).pc.isCloseD = false := by
  unfold closeSrcPhase; split <;> rfl

theorem closeBlock_origin (s : St α) : (closeBlock c s).pc.isCloseD = true → s.success = false := by
  unfold closeBlock
  split
  · intro h; simp [Pc.isCloseD] at h
  · rename_i hc
    unfold closeDestPhase
    split
    · intro h; rw [closeSrcPhase_notCloseD] at h; simp at h
    · rename_i hd
      intro _
      cases hs : s.success with
      | false => rfl
      | true => simp [hs] at hc; simp [hc] at hd

theorem closeBlock_success (s : St α) : (closeBlock c s).success = s.success := (frame_closeBlock c s).2.2

theorem ioClose_origin (s : St α) : (ioClose c s).pc.isCloseD = true → s.success = false := by
  unfold ioClose
  split
  · intro h; simp [Pc.isCloseD] at h
  · exact closeBlock_origin c s

theorem ioFail_success (s : St α) : (ioFail c s).success = false := (frame_ioFail c s).2.2

theorem finish_origin (s : St α) : (finish c s).pc.isCloseD = true → (finish c s).success = false := by
  unfold finish
  split
  · intro h; have := ioClose_origin c _ h; simp at this
  · intro _; exact ioFail_success c _

theorem nextMain_origin (ops : List (Op α)) (s : St α) (hs : s.success = false) :
    (nextMain c ops s).pc.isCloseD = true → (nextMain c ops s).success = false := by
  induction ops generalizing s with
  | nil => unfold nextMain; exact finish_origin c _
  | cons op r ih =>
    cases op <;> unfold nextMain
    · split
      · intro _; exact ioFail_success c _
      · exact ih s hs
    · split
      · exact ih s hs
      · intro _; exact hs
    · split
      · exact ih s hs
      · split
        · exact ih _ hs
        · split
          · exact ih s hs
          · split <;> (intro _; exact hs)
    · split
      · exact ih s hs
      · intro _; exact hs

theorem doInit_origin (s : St α) (hs : s.success = false) :
    (doInit c s).pc.isCloseD = true → (doInit c s).success = false := by
  unfold doInit; simp only
  split
  · intro _; exact ioFail_success c _
  · split
    · intro _; exact ioFail_success c _
    · split
      · exact nextMain_origin c _ _ hs
      · split
        · intro _; exact hs
        · split
          · intro _; exact hs
          · split <;> (intro _; exact hs)

theorem nextPre_origin (ops : List (Op α)) (s : St α) (hs : s.success = false) :
    (nextPre c ops s).pc.isCloseD = true → (nextPre c ops s).success = false := by
  induction ops generalizing s with
  | nil => unfold nextPre; exact doInit_origin c s hs
  | cons op r ih =>
    cases op <;> unfold nextPre
    · exact ih s hs
    · split
      · exact ih s hs
      · intro _; exact hs
    · exact ih s hs
    · exact ih s hs

theorem continueLoop_origin (s : St α) (hs : s.success = false) :
    (continueLoop c s).pc.isCloseD = true → (continueLoop c s).success = false := by
  unfold continueLoop; split
  · exact nextMain_origin c _ s hs
  · exact nextPre_origin c _ s hs

theorem afterWrite_origin (s : St α) : (afterWrite c s).pc.isCloseD = true → (afterWrite c s).success = false := by
  unfold afterWrite
  split
  · rename_i h; intro hp; have := closeBlock_origin c s hp; rw [this] at h; simp at h
  · rename_i h; exact continueLoop_origin c s (by simpa using h)

theorem openDestErr_success (s : St α) (hs : s.success = false) : (openDestErr c s).success = false := by
  unfold openDestErr; split
  · exact hs
  · exact ioFail_success c _

/-- only afterAttrs can stop at fsyncFile -/
theorem closeDestPhase_ne_fsyncFile (s : St α) : (closeDestPhase c s).pc ≠ .fsyncFile := by
  unfold closeDestPhase closeSrcPhase; repeat' split
  all_goals simp
theorem closeBlock_ne_fsyncFile (s : St α) : (closeBlock c s).pc ≠ .fsyncFile := by
  unfold closeBlock; split
  · simp
  · exact closeDestPhase_ne_fsyncFile c _
theorem ioClose_ne_fsyncFile (s : St α) : (ioClose c s).pc ≠ .fsyncFile := by
  unfold ioClose; split
  · simp
  · exact closeBlock_ne_fsyncFile c s
theorem ioFail_ne_fsyncFile (s : St α) : (ioFail c s).pc ≠ .fsyncFile := closeBlock_ne_fsyncFile c _
theorem closeSrcPhase_ne_fsyncFile (s : St α) : (closeSrcPhase c s).pc ≠ .fsyncFile := by
  unfold closeSrcPhase; split <;> simp
theorem finish_ne_fsyncFile (s : St α) : (finish c s).pc ≠ .fsyncFile := by
  unfold finish; split
  · exact ioClose_ne_fsyncFile c _
  · exact ioFail_ne_fsyncFile c _
theorem nextMain_ne_fsyncFile (ops : List (Op α)) (s : St α) : (nextMain c ops s).pc ≠ .fsyncFile := by
  induction ops generalizing s with
  | nil => unfold nextMain; exact finish_ne_fsyncFile c _
  | cons op r ih =>
    cases op <;> unfold nextMain
    · split
      · exact ioFail_ne_fsyncFile c _
      · exact ih s
    · split
      · exact ih s
      · simp
    · split
      · exact ih s
      · split
        · exact ih _
        · split
          · exact ih s
          · split <;> simp
    · split
      · exact ih s
      · simp
theorem doInit_ne_fsyncFile (s : St α) : (doInit c s).pc ≠ .fsyncFile := by
  unfold doInit; simp only
  split
  · exact ioFail_ne_fsyncFile c _
  · split
    · exact ioFail_ne_fsyncFile c _
    · split
      · exact nextMain_ne_fsyncFile c _ _
      · split
        · simp
        · split
          · simp
          · split <;> simp
theorem nextPre_ne_fsyncFile (ops : List (Op α)) (s : St α) : (nextPre c ops s).pc ≠ .fsyncFile := by
  induction ops generalizing s with
  | nil => unfold nextPre; exact doInit_ne_fsyncFile c s
  | cons op r ih =>
    cases op <;> unfold nextPre
    · exact ih s
    · split
      · exact ih s
      · simp
    · exact ih s
    · exact ih s
theorem continueLoop_ne_fsyncFile (s : St α) : (continueLoop c s).pc ≠ .fsyncFile := by
  unfold continueLoop; split
  · exact nextMain_ne_fsyncFile c _ s
  · exact nextPre_ne_fsyncFile c _ s
theorem afterWrite_ne_fsyncFile (s : St α) : (afterWrite c s).pc ≠ .fsyncFile := by
  unfold afterWrite; split
  · exact closeBlock_ne_fsyncFile c s
  · exact continueLoop_ne_fsyncFile c s
theorem openDestErr_ne_fsyncFile (s : St α) : (openDestErr c s).pc ≠ .fsyncFile := by
  unfold openDestErr; split
  · simp
  · exact ioFail_ne_fsyncFile c _

end XzVerif.XzIo
