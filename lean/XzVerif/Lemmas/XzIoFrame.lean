/-
  Frame facts for the internal dispatchers of the C17 model: they make no system call, so trace, file system,
  call counter, stat results and user_abort are unchanged, and they can only stop at certain program counters.
-/
import XzVerif.Model.XzIo

namespace XzVerif.XzIo
variable {α : Type}

/-- what a dispatcher leaves untouched -/
structure Frame (s s' : St α) : Prop where
  trace : s'.trace = s.trace
  fs : s'.fs = s.fs
  k : s'.k = s.k
  destStIno : s'.destStIno = s.destStIno
  srcStIno : s'.srcStIno = s.srcStIno
  userAbort : s'.userAbort = s.userAbort
  destOpen : s'.destOpen = s.destOpen
  srcOpen : s'.srcOpen = s.srcOpen
  dirOpen : s'.dirOpen = s.dirOpen
  exitMono : s.exitSt ≠ 0 → s'.exitSt ≠ 0

theorem Frame.refl (s : St α) : Frame s s := ⟨rfl, rfl, rfl, rfl, rfl, rfl, rfl, rfl, rfl, id⟩

theorem Frame.trans {a b c : St α} (h1 : Frame a b) (h2 : Frame b c) : Frame a c :=
  ⟨h2.trace.trans h1.trace, h2.fs.trans h1.fs, h2.k.trans h1.k, h2.destStIno.trans h1.destStIno,
   h2.srcStIno.trans h1.srcStIno, h2.userAbort.trans h1.userAbort, h2.destOpen.trans h1.destOpen,
   h2.srcOpen.trans h1.srcOpen, h2.dirOpen.trans h1.dirOpen, fun h => h2.exitMono (h1.exitMono h)⟩

/-- program counters at which io_close's dispatchers can stop -/
def Pc.closing : Pc → Bool
  | .done | .closeSrc | .closeDir | .closeDest | .fchownUid | .fsyncFile | .tailSeek => true
  | _ => false

/-- program counters at which any dispatcher can stop -/
def Pc.landing : Pc → Bool
  | .done | .closeSrc | .closeDir | .closeDest | .fchownUid | .fsyncFile | .tailSeek
  | .read | .write | .seekHole | .fixPos | .fstatDest | .openDir | .unlinkForce | .openDest | .closeDirErr => true
  | _ => false

theorem closing_landing {p : Pc} (h : p.closing = true) : p.landing = true := by
  cases p <;> simp_all [Pc.closing, Pc.landing]

variable (c : Cfg α)

theorem frame_closeSrcPhase (s : St α) : Frame s (closeSrcPhase c s) ∧ (closeSrcPhase c s).pc.closing = true ∧
    (closeSrcPhase c s).success = s.success := by
  unfold closeSrcPhase; split <;> exact ⟨⟨rfl, rfl, rfl, rfl, rfl, rfl, rfl, rfl, rfl, id⟩, rfl, rfl⟩

theorem frame_closeDestPhase (s : St α) : Frame s (closeDestPhase c s) ∧ (closeDestPhase c s).pc.closing = true ∧
    (closeDestPhase c s).success = s.success := by
  unfold closeDestPhase
  split
  · exact frame_closeSrcPhase c s
  · split <;> exact ⟨⟨rfl, rfl, rfl, rfl, rfl, rfl, rfl, rfl, rfl, id⟩, rfl, rfl⟩

theorem frame_afterAttrs (s : St α) : Frame s (afterAttrs c s) ∧ (afterAttrs c s).pc.closing = true ∧
    (afterAttrs c s).success = s.success := by
  unfold afterAttrs
  split
  · exact ⟨⟨rfl, rfl, rfl, rfl, rfl, rfl, rfl, rfl, rfl, id⟩, rfl, rfl⟩
  · exact frame_closeDestPhase c s

theorem frame_closeBlock (s : St α) : Frame s (closeBlock c s) ∧ (closeBlock c s).pc.closing = true ∧
    (closeBlock c s).success = s.success := by
  unfold closeBlock
  split
  · exact ⟨⟨rfl, rfl, rfl, rfl, rfl, rfl, rfl, rfl, rfl, id⟩, rfl, rfl⟩
  · exact frame_closeDestPhase c s

theorem frame_ioClose (s : St α) : Frame s (ioClose c s) ∧ (ioClose c s).pc.closing = true ∧
    (ioClose c s).success = s.success := by
  unfold ioClose
  split
  · exact ⟨⟨rfl, rfl, rfl, rfl, rfl, rfl, rfl, rfl, rfl, id⟩, rfl, rfl⟩
  · exact frame_closeBlock c s

theorem frame_ioFail (s : St α) : Frame s (ioFail c s) ∧ (ioFail c s).pc.closing = true ∧
    (ioFail c s).success = false := by
  unfold ioFail
  have := frame_closeBlock c { s with success := false, ops := [] }
  exact ⟨⟨this.1.trace, this.1.fs, this.1.k, this.1.destStIno, this.1.srcStIno, this.1.userAbort, this.1.destOpen,
    this.1.srcOpen, this.1.dirOpen, this.1.exitMono⟩, this.2.1, this.2.2⟩

theorem frame_openDestErr (s : St α) : Frame s (openDestErr c s) ∧ (openDestErr c s).pc.landing = true ∧
    (openDestErr c s).success = false ∨ (openDestErr c s).success = s.success := by
  sorry

end XzVerif.XzIo
