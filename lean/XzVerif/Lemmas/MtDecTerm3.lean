/-
  Termination measure: the main-thread transitions.
-/
import XzVerif.Lemmas.MtDecTerm2

namespace XzVerif.MtDec

/-- Facts about the main thread's position that the measure argument uses (from CtlInv / UInv). -/
structure MainFacts (s : State) : Prop where
  rowOkSeq : ∀ k c, s.pc = .rowOk k c → s.seq = seqOfRowK k
  curLt : ((s.pc = .seq ∧ (s.seq = .directRun ∨ s.seq = .indexDecode)) ∨ s.pc = .init3) → s.cur < s.blocks.length
  joinSeq : ∀ i, s.pc = .endJoin i .direct → s.seq = .directInit
  init5Seq : s.pc = .init5 → s.seq = .thrInit
  len : s.workers.length ≤ s.cfg.threadsMax
  thr3 : s.pc = .init3 → ∀ t, s.thr = some t → t < s.workers.length ∧ (getW s t).hasOut = false

theorem rem_succ (T : Nat) (bs : List Block) (cur : Nat) (h : cur < bs.length) :
    rem T bs cur = cost T (bs.getD cur default) + rem T bs (cur + 1) := by
  unfold rem
  have : bs.drop cur = bs[cur] :: bs.drop (cur + 1) := by simp
  rw [this]
  simp only [List.map_cons, List.sum_cons]
  have : bs.getD cur default = bs[cur] := by simp [List.getD, List.getElem?_eq_getElem h]
  rw [this]

def Label.muSimple : Label → Bool
  | .call .. | .endCall | .rowTimeout | .rowIter _ | .assign | .getThread | .enablePartial | .stopOne | .startThr | .tell | .endSet
  | .endJoin | .directStep .. | .indexStep _ => false
  | _ => true

theorem mu_mainSimple {s s' : State} {l : Label} (F : MainFacts s) (hl : l.worker? = none) (hsim : l.muSimple = true)
    (hs : step s l = some s') : mu s' < mu s := by
  have f1 := F.rowOkSeq
  cases l <;> simp only [Label.worker?, reduceCtorEq] at hl <;> simp only [Label.muSimple, reduceCtorEq] at hsim <;>
    simp only [step] at hs
  all_goals (repeat' split at hs)
  all_goals first | (cases hs; done) | skip
  all_goals (cases hs)
  all_goals (simp only [mu_eq, wSum])
  all_goals (simp_all [muC, stagePotC, mloc, MS, seqOfRowK])
  all_goals omega

theorem mu_setW_main {s s' : State} {i : Nat} {w : Worker} (d : Nat) (ew : s'.workers = (setW s i w).workers)
    (eb : s'.blocks = s.blocks) (ec : s'.cfg = s.cfg) (ecur : s'.cur = s.cur) (eq : s'.queue.length = s.queue.length)
    (em : s'.mwoken = s.mwoken) (hw : i < s.workers.length → wPot s.blocks w ≤ wPot s.blocks (getW s i) + d)
    (h : stagePotC s.cfg.threadsMax s'.seq s'.pc + mloc s.cfg.threadsMax s'.pc + d <
         stagePotC s.cfg.threadsMax s.seq s.pc + mloc s.cfg.threadsMax s.pc) : mu s' < mu s := by
  have h1 := wSum_setW_le s i w d hw
  have h2 : wSum s' = wSum (setW s i w) := by simp [wSum, ew, eb]
  rw [mu_eq, mu_eq, h2, eb, ec, ecur, eq, em]
  unfold muC
  omega

theorem wPot_signal (bs : List Block) (w w' : Worker) (h1 : w'.pc = w.pc) (h2 : w'.pu = w.pu) (h3 : w'.hasOut = w.hasOut)
    (h4 : w'.blk = w.blk) (h5 : w'.inPos = w.inPos) (h6 : w'.outPos = w.outPos) : wPot bs w' ≤ wPot bs w + 1 := by
  unfold wPot
  rw [h1, h2, h3, h4, h5, h6]
  split <;> split <;> omega

theorem wPot_same (bs : List Block) (w w' : Worker) (h1 : w'.pc = w.pc) (h2 : w'.pu = w.pu) (h3 : w'.hasOut = w.hasOut)
    (h4 : w'.blk = w.blk) (h5 : w'.inPos = w.inPos) (h6 : w'.outPos = w.outPos) (h7 : w'.woken = w.woken) :
    wPot bs w' ≤ wPot bs w + 0 := by
  unfold wPot
  rw [h1, h2, h3, h4, h5, h6, h7]
  omega

theorem mu_tell {s s' : State} (hs : step s .tell = some s') : mu s' < mu s := by
  simp only [step] at hs
  split at hs
  case h_2 => cases hs
  rename_i f n t hp hthr
  cases hs
  refine mu_setW_main (i := t) (w := signalW { getW s t with inFilled := f }) 1 rfl rfl rfl rfl rfl rfl ?_ ?_
  · intro _; exact wPot_signal _ _ _ rfl rfl rfl rfl rfl rfl
  · have : stagePotC s.cfg.threadsMax s.seq (.row .thrRun (s.waitingAllowed && n)) = stagePotC s.cfg.threadsMax s.seq s.pc :=
      stagePotC_congr _ _ (by simp [hp]) (by simp)
    show stagePotC s.cfg.threadsMax s.seq (.row .thrRun (s.waitingAllowed && n)) + mloc _ (.row .thrRun (s.waitingAllowed && n)) + 1 < _
    rw [this, hp]; simp only [mloc]; omega

theorem mu_stopOne {s s' : State} (F : MainFacts s) (hs : step s .stopOne = some s') : mu s' < mu s := by
  have hlen := F.len
  simp only [step] at hs
  split at hs
  case h_2 => cases hs
  rename_i i r hp
  split at hs
  · rename_i hi
    cases hs
    refine mu_setW_main (i := i) (w := { getW s i with st := .idle }) 0 rfl rfl rfl rfl rfl rfl ?_ ?_
    · intro _; exact wPot_same _ _ _ rfl rfl rfl rfl rfl rfl rfl
    · have : stagePotC s.cfg.threadsMax s.seq (.stopping (i + 1) r) = stagePotC s.cfg.threadsMax s.seq s.pc :=
        stagePotC_congr _ _ (by simp [hp]) (by simp)
      show stagePotC s.cfg.threadsMax s.seq (.stopping (i + 1) r) + mloc _ (.stopping (i + 1) r) + 0 < _
      rw [this, hp]; simp only [mloc]; omega
  · cases hs
    simp only [mu_eq, wSum]
    have : stagePotC s.cfg.threadsMax s.seq (.ret r) = stagePotC s.cfg.threadsMax s.seq s.pc :=
      stagePotC_congr _ _ (by simp [hp]) (by simp)
    simp only [muC, this, hp, mloc]; omega

theorem mu_endSet {s s' : State} (F : MainFacts s) (hs : step s .endSet = some s') : mu s' < mu s := by
  have hlen := F.len
  simp only [step] at hs
  split at hs
  case h_2 => cases hs
  rename_i i k hp
  split at hs
  · rename_i hi
    cases hs
    refine mu_setW_main (i := i) (w := signalW { getW s i with st := .exit }) 1 rfl rfl rfl rfl rfl rfl ?_ ?_
    · intro _; exact wPot_signal _ _ _ rfl rfl rfl rfl rfl rfl
    · have : stagePotC s.cfg.threadsMax s.seq (.endSet (i + 1) k) = stagePotC s.cfg.threadsMax s.seq s.pc :=
        stagePotC_congr _ _ (by simp [hp]) (by simp)
      show stagePotC s.cfg.threadsMax s.seq (.endSet (i + 1) k) + mloc _ (.endSet (i + 1) k) + 1 < _
      rw [this, hp]; simp only [mloc]; omega
  · cases hs
    simp only [mu_eq, wSum]
    have : stagePotC s.cfg.threadsMax s.seq (.endJoin 0 k) = stagePotC s.cfg.threadsMax s.seq s.pc :=
      stagePotC_congr _ _ (by simp [hp]) (by simp)
    simp only [muC, this, hp, mloc]; omega

theorem mu_startThr {s s' : State} (hs : step s .startThr = some s') : mu s' < mu s := by
  simp only [step] at hs
  split at hs
  case h_2 => cases hs
  rename_i t hp hthr
  cases hs
  refine mu_setW_main (i := t) (w := signalW { getW s t with st := .run }) 1 rfl rfl rfl rfl rfl rfl ?_ ?_
  · intro _; exact wPot_signal _ _ _ rfl rfl rfl rfl rfl rfl
  · show stagePotC s.cfg.threadsMax s.seq .init5 + mloc _ .init5 + 1 < _
    rw [hp]; simp only [mloc, stagePotC, MS]
    cases s.seq <;> simp only [] <;> omega

end XzVerif.MtDec
