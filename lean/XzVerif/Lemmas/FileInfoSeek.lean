/-
  C04 `seek_within_file` on the file-info model of b-c13 (Model/FileInfo.lean, src/liblzma/common/file_info.c).

  The model `Index.fileInfo` reads the file array directly and does not say where the real decoder would ask the
  application to seek. This file adds TRACE-RETURNING variants of the four functions that contain a `seek_to_pos()` call
  site — `reverse_seek` (SEQ_PADDING_SEEK, SEQ_PADDING_DECODE, the seek back to the Stream Header) and the seek to the start of
  the Index in SEQ_FOOTER — and of the loop around them: same code, plus the list of seek requests, each with the number of
  bytes the decoder then reads from that position (`fill_temp` of `temp_size` bytes, resp. `backward_size` bytes of Index).
  Proved:
    * the first component of every traced function IS the original function (`*_fst`; so the traces belong to the function
      the C13 driver runs, whose definitions are not touched);
    * for EVERY file (any bytes) and memory limit, every request satisfies `pos + len ≤ file_size`: the decoder never asks
      for a position outside the file, nor for bytes beyond its end (`fileInfoT_seeks`).
  Core Lean only.
-/
import XzVerif.Model.FileInfo

namespace XzVerif.Index

/-- a seek request: the position handed to `seek_to_pos()` and how many bytes are then read from there -/
abbrev Seek := Nat × Nat

/-- `reverse_seek`: `seek_to_pos(coder, file_target_pos - temp_size)` and a `fill_temp` of `temp_size` bytes -/
def reverseSeekT (st : FI) : Except Ret FI × List Seek :=
  if st.target < 2 * STREAM_HEADER_SIZE then (.error .dataError, [])
  else
    let ts := if st.target - STREAM_HEADER_SIZE < TEMP_SIZE then st.target - STREAM_HEADER_SIZE else TEMP_SIZE
    (.ok { st with tempPos := 0, tempSize := ts, tempStart := st.target - ts }, [(st.target - ts, ts)])

/-- SEQ_PADDING_SEEK, SEQ_PADDING_DECODE -/
def padPhaseT (file : Array UInt8) (needSeek : Bool) (st : FI) : PadRes × List Seek :=
  let r0 : Except Ret FI × List Seek := if needSeek then reverseSeekT st else (.ok st, [])
  match r0.1 with
  | .error r => (.err r, r0.2)
  | .ok st =>
    let np := trailingZeros file st.tempStart st.tempSize
    let st1 := { st with streamPadding := st.streamPadding + np, target := st.target - np }
    if np = st.tempSize then (.again st1, r0.2)
    else if st1.streamPadding % 4 ≠ 0 then (.err .dataError, r0.2)
    else
      let st2 := { st1 with tempSize := st.tempSize - np, tempPos := st.tempSize - np }
      let r1 : Except Ret FI × List Seek := if st2.tempSize < STREAM_HEADER_SIZE then reverseSeekT st2 else (.ok st2, [])
      match r1.1 with
      | .error r => (.err r, r0.2 ++ r1.2)
      | .ok st3 => (.footer st3, r0.2 ++ r1.2)

/-- SEQ_FOOTER: when the Index is not in `temp`, `seek_to_pos(coder, file_target_pos)` (the start of the Index), then
    `backward_size` bytes are read -/
def footerPhaseT (file : Array UInt8) (st3 : FI) : Except Ret (Nat × Nat × FI) × List Seek :=
  let st4 := { st3 with target := st3.target - STREAM_HEADER_SIZE, tempSize := st3.tempSize - STREAM_HEADER_SIZE }
  match footerDecode (bytesAt file (st4.tempStart + st4.tempSize) 12) with
  | .error r => (.error (hideFormatError r), [])
  | .ok (footerCheck, bsz) =>
    if st4.target < bsz + STREAM_HEADER_SIZE then (.error .dataError, [])
    else
      let st5 := { st4 with target := st4.target - bsz }
      if st5.tempSize ≥ bsz then (.ok (footerCheck, bsz, { st5 with tempPos := st5.tempSize - bsz }), [])
      else (.ok (footerCheck, bsz, { st5 with tempPos := 0, tempSize := 0 }), [(st5.target, bsz)])

/-- the seek back over the Blocks to the Stream Header -/
def headerPhaseT (file : Array UInt8) (firstCheck : Nat) (st6 : FI) (bsz : Nat) (this : Impl.Index) :
    Except Ret (Nat × FI) × List Seek :=
  let seekAmount := this.totalSize + STREAM_HEADER_SIZE
  if st6.target < seekAmount then (.error .dataError, [])
  else
    let st7 := { st6 with target := st6.target - seekAmount }
    if st7.target = 0 then (.ok (firstCheck, st7), [])
    else
      let st8 := { st7 with target := st7.target + STREAM_HEADER_SIZE }
      let st9 : Except Ret FI × List Seek :=
        if st8.tempSize ≠ 0 ∧ st8.tempSize - bsz ≥ seekAmount then
          let tp := st8.tempSize - bsz - seekAmount + STREAM_HEADER_SIZE
          (.ok { st8 with tempPos := tp, tempSize := tp }, [])
        else reverseSeekT st8
      match st9.1 with
      | .error r => (.error r, st9.2)
      | .ok st9' =>
        let st10 := { st9' with target := st9'.target - STREAM_HEADER_SIZE,
                                tempSize := st9'.tempSize - STREAM_HEADER_SIZE,
                                tempPos := st9'.tempSize - STREAM_HEADER_SIZE }
        match headerDecode (bytesAt file (st10.tempStart + st10.tempSize) 12) with
        | .error r => (.error (hideFormatError r), st9.2)
        | .ok c => (.ok (c, st10), st9.2)

def streamStepT (file : Array UInt8) (memlimit : Nat) (firstCheck : Nat) (needSeek : Bool) (st : FI) : StepRes × List Seek :=
  let p := padPhaseT file needSeek st
  match p.1 with
  | .err r => (.done (r, none), p.2)
  | .again st1 => (.next true st1, p.2)
  | .footer st3 =>
    let f := footerPhaseT file st3
    match f.1 with
    | .error r => (.done (r, none), p.2 ++ f.2)
    | .ok (footerCheck, bsz, st6) =>
      match indexPhase file memlimit st6 bsz with
      | .error r => (.done (r, none), p.2 ++ f.2)
      | .ok this =>
        let h := headerPhaseT file firstCheck st6 bsz this
        match h.1 with
        | .error r => (.done (r, none), p.2 ++ f.2 ++ h.2)
        | .ok (headerCheck, st11) =>
          match combinePhase st11 this bsz footerCheck headerCheck with
          | .error r => (.done (r, none), p.2 ++ f.2 ++ h.2)
          | .ok comb =>
            if st11.target = 0 then (.done (.streamEnd, some comb), p.2 ++ f.2 ++ h.2)
            else (.next (st11.tempSize = 0) { st11 with streamPadding := 0, combined := some comb }, p.2 ++ f.2 ++ h.2)

def streamLoopT (file : Array UInt8) (memlimit : Nat) (firstCheck : Nat) :
    Nat → Bool → FI → (Ret × Option Impl.Index) × List Seek
  | 0, _, _ => ((.progError, none), [])
  | fuel + 1, needSeek, st =>
    let r := streamStepT file memlimit firstCheck needSeek st
    match r.1 with
    | .done x => (x, r.2)
    | .next needSeek' st' =>
      let t := streamLoopT file memlimit firstCheck fuel needSeek' st'
      (t.1, r.2 ++ t.2)

/-- `fileInfo` with the list of all seek requests, in order -/
def fileInfoT (memlimit : Nat) (file : Array UInt8) : (Ret × Option Impl.Index) × List Seek :=
  let memlimit := max 1 memlimit
  if file.size < STREAM_HEADER_SIZE then ((.formatError, none), [])
  else
    match headerDecode (bytesAt file 0 12) with
    | .error r => ((r, none), [])
    | .ok firstCheck =>
      if file.size > VLI_MAX ∨ file.size % 4 ≠ 0 then ((.dataError, none), [])
      else streamLoopT file memlimit firstCheck (file.size + 2) true
             { target := file.size, tempStart := 0, tempPos := 0, tempSize := 0, streamPadding := 0, combined := none }

/-! ### the traced functions compute the original functions -/

theorem reverseSeekT_fst (st : FI) : (reverseSeekT st).1 = reverseSeek st := by
  unfold reverseSeekT reverseSeek
  split <;> rfl

theorem ite_seek_fst (c : Prop) [Decidable c] (a b : FI) :
    (if c then reverseSeekT a else ((.ok b : Except Ret FI), ([] : List Seek))).1 = (if c then reverseSeek a else .ok b) := by
  split
  · exact reverseSeekT_fst a
  · rfl

theorem ite_seek_fst' (c : Prop) [Decidable c] (a b : FI) :
    (if c then ((.ok b : Except Ret FI), ([] : List Seek)) else reverseSeekT a).1 = (if c then .ok b else reverseSeek a) := by
  split
  · rfl
  · exact reverseSeekT_fst a

theorem padPhaseT_fst (file : Array UInt8) (needSeek : Bool) (st : FI) :
    (padPhaseT file needSeek st).1 = padPhase file needSeek st := by
  unfold padPhaseT padPhase
  simp only []
  rw [ite_seek_fst]
  cases (if needSeek = true then reverseSeek st else .ok st) with
  | error r => rfl
  | ok s0 =>
    simp only []
    by_cases h1 : trailingZeros file s0.tempStart s0.tempSize = s0.tempSize
    · rw [if_pos h1, if_pos h1]
    · rw [if_neg h1, if_neg h1]
      by_cases h2 : (s0.streamPadding + trailingZeros file s0.tempStart s0.tempSize) % 4 ≠ 0
      · rw [if_pos h2, if_pos h2]
      · rw [if_neg h2, if_neg h2]
        rw [ite_seek_fst]
        cases (if s0.tempSize - trailingZeros file s0.tempStart s0.tempSize < STREAM_HEADER_SIZE then reverseSeek _ else .ok _) with
        | error r => rfl
        | ok s3 => rfl

theorem footerPhaseT_fst (file : Array UInt8) (st3 : FI) : (footerPhaseT file st3).1 = footerPhase file st3 := by
  unfold footerPhaseT footerPhase
  simp only []
  cases footerDecode (bytesAt file (st3.tempStart + (st3.tempSize - STREAM_HEADER_SIZE)) 12) with
  | error r => rfl
  | ok v =>
    obtain ⟨fc, bsz⟩ := v
    simp only []
    by_cases h1 : st3.target - STREAM_HEADER_SIZE < bsz + STREAM_HEADER_SIZE
    · rw [if_pos h1, if_pos h1]
    · rw [if_neg h1, if_neg h1]
      by_cases h2 : st3.tempSize - STREAM_HEADER_SIZE ≥ bsz
      · rw [if_pos h2, if_pos h2]
      · rw [if_neg h2, if_neg h2]

theorem headerPhaseT_fst (file : Array UInt8) (firstCheck : Nat) (st6 : FI) (bsz : Nat) (this : Impl.Index) :
    (headerPhaseT file firstCheck st6 bsz this).1 = headerPhase file firstCheck st6 bsz this := by
  unfold headerPhaseT headerPhase
  simp only []
  by_cases h1 : st6.target < this.totalSize + STREAM_HEADER_SIZE
  · rw [if_pos h1, if_pos h1]
  · rw [if_neg h1, if_neg h1]
    by_cases h2 : st6.target - (this.totalSize + STREAM_HEADER_SIZE) = 0
    · rw [if_pos h2, if_pos h2]
    · rw [if_neg h2, if_neg h2]
      rw [ite_seek_fst']
      cases (if st6.tempSize ≠ 0 ∧ st6.tempSize - bsz ≥ this.totalSize + STREAM_HEADER_SIZE then Except.ok _ else reverseSeek _) with
      | error r => rfl
      | ok s9 =>
        simp only []
        cases headerDecode (bytesAt file (s9.tempStart + (s9.tempSize - STREAM_HEADER_SIZE)) 12) with
        | error r => rfl
        | ok c => rfl

theorem streamStepT_fst (file : Array UInt8) (memlimit firstCheck : Nat) (needSeek : Bool) (st : FI) :
    (streamStepT file memlimit firstCheck needSeek st).1 = streamStep file memlimit firstCheck needSeek st := by
  unfold streamStepT streamStep
  simp only []
  rw [padPhaseT_fst]
  generalize (padPhaseT file needSeek st).2 = t0
  cases padPhase file needSeek st with
  | err r => rfl
  | again st1 => rfl
  | footer st3 =>
    simp only []
    rw [footerPhaseT_fst]
    generalize (footerPhaseT file st3).2 = t1
    cases footerPhase file st3 with
    | error r => rfl
    | ok v =>
      obtain ⟨fc, bsz, st6⟩ := v
      simp only []
      cases indexPhase file memlimit st6 bsz with
      | error r => rfl
      | ok this =>
        simp only []
        rw [headerPhaseT_fst]
        generalize (headerPhaseT file firstCheck st6 bsz this).2 = t2
        cases headerPhase file firstCheck st6 bsz this with
        | error r => rfl
        | ok w =>
          obtain ⟨hc, st11⟩ := w
          simp only []
          cases combinePhase st11 this bsz fc hc with
          | error r => rfl
          | ok comb =>
            simp only []
            by_cases h : st11.target = 0
            · rw [if_pos h, if_pos h]
            · rw [if_neg h, if_neg h]

theorem streamLoopT_fst (file : Array UInt8) (memlimit firstCheck : Nat) : ∀ (fuel : Nat) (needSeek : Bool) (st : FI),
    (streamLoopT file memlimit firstCheck fuel needSeek st).1 = streamLoop file memlimit firstCheck fuel needSeek st
  | 0, _, _ => rfl
  | fuel + 1, needSeek, st => by
    unfold streamLoopT streamLoop
    simp only []
    rw [streamStepT_fst]
    generalize (streamStepT file memlimit firstCheck needSeek st).2 = t0
    cases streamStep file memlimit firstCheck needSeek st with
    | done x => rfl
    | next ns st' => exact streamLoopT_fst file memlimit firstCheck fuel ns st'

/-- THE TRACED FILE-INFO DECODER IS THE FILE-INFO DECODER: same return code, same index. -/
theorem fileInfoT_fst (memlimit : Nat) (file : Array UInt8) : (fileInfoT memlimit file).1 = fileInfo memlimit file := by
  unfold fileInfoT fileInfo
  simp only []
  by_cases h1 : file.size < STREAM_HEADER_SIZE
  · rw [if_pos h1, if_pos h1]
  · rw [if_neg h1, if_neg h1]
    cases headerDecode (bytesAt file 0 12) with
    | error r => rfl
    | ok fc =>
      simp only []
      by_cases h2 : file.size > VLI_MAX ∨ file.size % 4 ≠ 0
      · rw [if_pos h2, if_pos h2]
      · rw [if_neg h2, if_neg h2]
        exact streamLoopT_fst _ _ _ _ _ _

/-! ### every seek request lies inside the file -/

/-- every request `(pos, len)` of the list satisfies `pos + len ≤ sz` -/
def SeeksOk (sz : Nat) (l : List Seek) : Prop := ∀ q ∈ l, q.1 + q.2 ≤ sz

theorem SeeksOk.nil (sz : Nat) : SeeksOk sz [] := fun _ h => by cases h

theorem SeeksOk.append {sz : Nat} {a b : List Seek} (ha : SeeksOk sz a) (hb : SeeksOk sz b) : SeeksOk sz (a ++ b) := by
  intro q hq
  rcases List.mem_append.mp hq with h | h
  · exact ha q h
  · exact hb q h

/-- a traced result is fine: its requests are inside the file and a successful result keeps `file_target_pos ≤ sz` -/
def ExOk {α : Type} (sz : Nat) (tgt : α → Nat) (r : Except Ret α × List Seek) : Prop :=
  SeeksOk sz r.2 ∧ ∀ a, r.1 = .ok a → tgt a ≤ sz

def PadOk (sz : Nat) (r : PadRes × List Seek) : Prop :=
  SeeksOk sz r.2 ∧ (∀ st1, r.1 = .again st1 → st1.target ≤ sz) ∧ (∀ st3, r.1 = .footer st3 → st3.target ≤ sz)

def StepOk (sz : Nat) (r : StepRes × List Seek) : Prop :=
  SeeksOk sz r.2 ∧ ∀ ns st', r.1 = .next ns st' → st'.target ≤ sz

theorem ExOk.error {α : Type} {sz : Nat} {tgt : α → Nat} (e : Ret) {l : List Seek} (h : SeeksOk sz l) :
    ExOk sz tgt ((.error e : Except Ret α), l) :=
  ⟨h, fun _ h' => by cases h'⟩

theorem ExOk.ok {α : Type} {sz : Nat} {tgt : α → Nat} (a : α) {l : List Seek} (h : SeeksOk sz l) (ht : tgt a ≤ sz) :
    ExOk sz tgt ((.ok a : Except Ret α), l) :=
  ⟨h, fun b h' => by injection h' with h'; rw [← h']; exact ht⟩

theorem PadOk.err {sz : Nat} (e : Ret) {l : List Seek} (h : SeeksOk sz l) : PadOk sz (.err e, l) := by
  refine ⟨h, ?_, ?_⟩
  · intro _ h'; cases h'
  · intro _ h'; cases h'

theorem PadOk.again {sz : Nat} (st1 : FI) {l : List Seek} (h : SeeksOk sz l) (ht : st1.target ≤ sz) : PadOk sz (.again st1, l) := by
  refine ⟨h, ?_, ?_⟩
  · intro _ h'; injection h' with h'; rw [← h']; exact ht
  · intro _ h'; cases h'

theorem PadOk.footer {sz : Nat} (st3 : FI) {l : List Seek} (h : SeeksOk sz l) (ht : st3.target ≤ sz) : PadOk sz (.footer st3, l) := by
  refine ⟨h, ?_, ?_⟩
  · intro _ h'; cases h'
  · intro _ h'; injection h' with h'; rw [← h']; exact ht

theorem StepOk.done {sz : Nat} (x : Ret × Option Impl.Index) {l : List Seek} (h : SeeksOk sz l) : StepOk sz (.done x, l) := by
  refine ⟨h, ?_⟩
  intro _ _ h'; cases h'

theorem StepOk.next {sz : Nat} (ns : Bool) (st' : FI) {l : List Seek} (h : SeeksOk sz l) (ht : st'.target ≤ sz) :
    StepOk sz (.next ns st', l) := by
  refine ⟨h, ?_⟩
  intro _ _ h'; injection h' with _ h'; rw [← h']; exact ht

/-- `reverse_seek`: the window `[file_target_pos − temp_size, file_target_pos)` is inside the file; the target is kept -/
theorem reverseSeekT_spec (sz : Nat) (st : FI) (h : st.target ≤ sz) : ExOk sz FI.target (reverseSeekT st) := by
  unfold reverseSeekT
  split
  · exact ExOk.error _ (SeeksOk.nil sz)
  · next h1 =>
    simp only []
    refine ExOk.ok _ ?_ h
    intro q hq
    rw [List.mem_singleton.mp hq]
    by_cases hc : st.target - STREAM_HEADER_SIZE < TEMP_SIZE
    · rw [if_pos hc]; simp only [STREAM_HEADER_SIZE, TEMP_SIZE] at h1 hc ⊢; omega
    · rw [if_neg hc]; simp only [STREAM_HEADER_SIZE, TEMP_SIZE] at h1 hc ⊢; omega

theorem ite_seek_spec (sz : Nat) (c : Prop) [Decidable c] (a b : FI) (ha : a.target ≤ sz) (hb : b.target ≤ sz) :
    ExOk sz FI.target (if c then reverseSeekT a else ((.ok b : Except Ret FI), ([] : List Seek))) := by
  split
  · exact reverseSeekT_spec sz a ha
  · exact ExOk.ok _ (SeeksOk.nil sz) hb

theorem ite_seek_spec' (sz : Nat) (c : Prop) [Decidable c] (a b : FI) (ha : a.target ≤ sz) (hb : b.target ≤ sz) :
    ExOk sz FI.target (if c then ((.ok b : Except Ret FI), ([] : List Seek)) else reverseSeekT a) := by
  split
  · exact ExOk.ok _ (SeeksOk.nil sz) hb
  · exact reverseSeekT_spec sz a ha

theorem padPhaseT_spec (sz : Nat) (file : Array UInt8) (needSeek : Bool) (st : FI) (h : st.target ≤ sz) :
    PadOk sz (padPhaseT file needSeek st) := by
  unfold padPhaseT
  simp only []
  have h0 := ite_seek_spec sz (needSeek = true) st st h h
  split
  · exact PadOk.err _ h0.1
  · next s0 heq =>
    have hs0 : s0.target ≤ sz := h0.2 s0 heq
    split
    · refine PadOk.again _ h0.1 ?_
      show s0.target - _ ≤ sz
      omega
    · split
      · exact PadOk.err _ h0.1
      · have h1 := ite_seek_spec sz (s0.tempSize - trailingZeros file s0.tempStart s0.tempSize < STREAM_HEADER_SIZE)
          { s0 with streamPadding := s0.streamPadding + trailingZeros file s0.tempStart s0.tempSize,
                    target := s0.target - trailingZeros file s0.tempStart s0.tempSize,
                    tempSize := s0.tempSize - trailingZeros file s0.tempStart s0.tempSize,
                    tempPos := s0.tempSize - trailingZeros file s0.tempStart s0.tempSize }
          { s0 with streamPadding := s0.streamPadding + trailingZeros file s0.tempStart s0.tempSize,
                    target := s0.target - trailingZeros file s0.tempStart s0.tempSize,
                    tempSize := s0.tempSize - trailingZeros file s0.tempStart s0.tempSize,
                    tempPos := s0.tempSize - trailingZeros file s0.tempStart s0.tempSize }
          (by show s0.target - _ ≤ sz; omega) (by show s0.target - _ ≤ sz; omega)
        split
        · exact PadOk.err _ (h0.1.append h1.1)
        · next s3 heq3 => exact PadOk.footer _ (h0.1.append h1.1) (h1.2 s3 heq3)

theorem footerPhaseT_spec (sz : Nat) (file : Array UInt8) (st3 : FI) (h : st3.target ≤ sz) :
    ExOk sz (fun v : Nat × Nat × FI => v.2.2.target) (footerPhaseT file st3) := by
  unfold footerPhaseT
  simp only []
  split
  · exact ExOk.error _ (SeeksOk.nil sz)
  · next fc0 bsz0 _ =>
    split
    · exact ExOk.error _ (SeeksOk.nil sz)
    · next hge =>
      simp only [STREAM_HEADER_SIZE] at hge
      split
      · refine ExOk.ok _ (SeeksOk.nil sz) ?_
        show st3.target - STREAM_HEADER_SIZE - bsz0 ≤ sz
        omega
      · refine ExOk.ok _ ?_ ?_
        · intro q hq
          rw [List.mem_singleton.mp hq]
          show st3.target - STREAM_HEADER_SIZE - bsz0 + bsz0 ≤ sz
          simp only [STREAM_HEADER_SIZE]
          omega
        · show st3.target - STREAM_HEADER_SIZE - bsz0 ≤ sz
          omega

theorem headerPhaseT_spec (sz : Nat) (file : Array UInt8) (firstCheck : Nat) (st6 : FI) (bsz : Nat) (this : Impl.Index)
    (h : st6.target ≤ sz) :
    ExOk sz (fun v : Nat × FI => v.2.target) (headerPhaseT file firstCheck st6 bsz this) := by
  unfold headerPhaseT
  simp only []
  split
  · exact ExOk.error _ (SeeksOk.nil sz)
  · next hge =>
    simp only [STREAM_HEADER_SIZE] at hge
    split
    · refine ExOk.ok _ (SeeksOk.nil sz) ?_
      show st6.target - _ ≤ sz
      omega
    · -- the (possible) `reverse_seek` to the Stream Header
      have h8 : st6.target - (this.totalSize + STREAM_HEADER_SIZE) + STREAM_HEADER_SIZE ≤ sz := by
        simp only [STREAM_HEADER_SIZE]; omega
      have h9 := ite_seek_spec' sz (st6.tempSize ≠ 0 ∧ st6.tempSize - bsz ≥ this.totalSize + STREAM_HEADER_SIZE)
        { st6 with target := st6.target - (this.totalSize + STREAM_HEADER_SIZE) + STREAM_HEADER_SIZE }
        { st6 with target := st6.target - (this.totalSize + STREAM_HEADER_SIZE) + STREAM_HEADER_SIZE,
                   tempPos := st6.tempSize - bsz - (this.totalSize + STREAM_HEADER_SIZE) + STREAM_HEADER_SIZE,
                   tempSize := st6.tempSize - bsz - (this.totalSize + STREAM_HEADER_SIZE) + STREAM_HEADER_SIZE }
        h8 h8
      split
      · exact ExOk.error _ h9.1
      · next s9 heq9 =>
        have hs9 : s9.target ≤ sz := h9.2 s9 heq9
        split
        · exact ExOk.error _ h9.1
        · refine ExOk.ok _ h9.1 ?_
          show s9.target - STREAM_HEADER_SIZE ≤ sz
          omega

theorem streamStepT_spec (sz : Nat) (file : Array UInt8) (memlimit firstCheck : Nat) (needSeek : Bool) (st : FI)
    (h : st.target ≤ sz) : StepOk sz (streamStepT file memlimit firstCheck needSeek st) := by
  unfold streamStepT
  simp only []
  have hp := padPhaseT_spec sz file needSeek st h
  split
  · exact StepOk.done _ hp.1
  · next st1 heq => exact StepOk.next _ _ hp.1 (hp.2.1 st1 heq)
  · next st3 heq =>
    have h3 : st3.target ≤ sz := hp.2.2 st3 heq
    have hf := footerPhaseT_spec sz file st3 h3
    split
    · exact StepOk.done _ (hp.1.append hf.1)
    · next fc bsz st6 heqf =>
      have h6 : st6.target ≤ sz := hf.2 (fc, bsz, st6) heqf
      split
      · exact StepOk.done _ (hp.1.append hf.1)
      · next this _ =>
        have hh := headerPhaseT_spec sz file firstCheck st6 bsz this h6
        split
        · exact StepOk.done _ ((hp.1.append hf.1).append hh.1)
        · next hc st11 heqh =>
          have h11 : st11.target ≤ sz := hh.2 (hc, st11) heqh
          split
          · exact StepOk.done _ ((hp.1.append hf.1).append hh.1)
          · split
            · exact StepOk.done _ ((hp.1.append hf.1).append hh.1)
            · exact StepOk.next _ _ ((hp.1.append hf.1).append hh.1) h11

theorem streamLoopT_spec (sz : Nat) (file : Array UInt8) (memlimit firstCheck : Nat) :
    ∀ (fuel : Nat) (needSeek : Bool) (st : FI), st.target ≤ sz →
      SeeksOk sz (streamLoopT file memlimit firstCheck fuel needSeek st).2
  | 0, _, _, _ => SeeksOk.nil sz
  | fuel + 1, needSeek, st, h => by
    unfold streamLoopT
    simp only []
    have hs := streamStepT_spec sz file memlimit firstCheck needSeek st h
    split
    · exact hs.1
    · next ns st' heq =>
      exact hs.1.append (streamLoopT_spec sz file memlimit firstCheck fuel ns st' (hs.2 ns st' heq))

/-- EVERY SEEK REQUEST OF THE FILE-INFO DECODER LIES INSIDE THE FILE, for every file content and memory limit: the position
    handed to `seek_to_pos()` plus the number of bytes read from there never exceeds `file_size`. -/
theorem fileInfoT_seeks (memlimit : Nat) (file : Array UInt8) : SeeksOk file.size (fileInfoT memlimit file).2 := by
  unfold fileInfoT
  simp only []
  split
  · exact SeeksOk.nil _
  · split
    · exact SeeksOk.nil _
    · split
      · exact SeeksOk.nil _
      · exact streamLoopT_spec file.size file _ _ _ _ _ (Nat.le_refl _)

end XzVerif.Index
