/-
  Quantifier-free fixed-width facts about the BCJ word transforms, discharged by `bv_decide`
  (SAT + LRAT certificate checked by Lean; each lemma carries one `…_native.bv_decide.ax_*` axiom).
  Everything here is in namespace `XzVerif.BitWords`; nothing else in the project may use `bv_decide`.
-/
import Std.Tactic.BVDecide
import XzVerif.Model.Bcj
import XzVerif.Model.BcjX86
import XzVerif.Model.BcjRiscv
namespace XzVerif.BitWords
open XzVerif.Bcj

/-! ### alignment of the program counter is kept by the loop increments -/

theorem even_add2 (pc : BitVec 32) (h : pc &&& 1#32 = 0#32) : (pc + 2#32) &&& 1#32 = 0#32 := by bv_decide
theorem even_add4 (pc : BitVec 32) (h : pc &&& 1#32 = 0#32) : (pc + 4#32) &&& 1#32 = 0#32 := by bv_decide
theorem even_add6 (pc : BitVec 32) (h : pc &&& 1#32 = 0#32) : (pc + 6#32) &&& 1#32 = 0#32 := by bv_decide
theorem even_add8 (pc : BitVec 32) (h : pc &&& 1#32 = 0#32) : (pc + 8#32) &&& 1#32 = 0#32 := by bv_decide
theorem al4_add4 (pc : BitVec 32) (h : pc &&& 3#32 = 0#32) : (pc + 4#32) &&& 3#32 = 0#32 := by bv_decide
theorem al16_add16 (pc : BitVec 32) (h : pc &&& 15#32 = 0#32) : (pc + 16#32) &&& 15#32 = 0#32 := by bv_decide

theorem and_not3 (pc : BitVec 32) (h : pc &&& 3#32 = 0#32) : pc &&& ~~~ 3#32 = pc := by bv_decide
theorem and_not1 (pc : BitVec 32) (h : pc &&& 1#32 = 0#32) : pc &&& ~~~ 1#32 = pc := by bv_decide

/-! ### ARM -/

theorem arm_dec_enc (pc v : BitVec 32) (h : pc &&& 3#32 = 0#32) : armWord false pc (armWord true pc v) = v := by
  unfold armWord getB setB; bv_decide

theorem arm_enc_dec (pc v : BitVec 32) (h : pc &&& 3#32 = 0#32) : armWord true pc (armWord false pc v) = v := by
  unfold armWord getB setB; bv_decide

/-- the instruction class test (`buffer[i+3] == 0xEB`) is not changed by the transform -/
theorem arm_class (e : Bool) (pc v : BitVec 32) : getB (armWord e pc v) 3 = getB v 3 := by
  unfold armWord getB setB; bv_decide

/-! ### ARM64 (no alignment needed: only `pc >> 2` and `pc >> 12` are used) -/

theorem arm64_dec_enc (pc v : BitVec 32) : arm64Word false pc (arm64Word true pc v) = v := by
  unfold arm64Word; bv_decide

theorem arm64_enc_dec (pc v : BitVec 32) : arm64Word true pc (arm64Word false pc v) = v := by
  unfold arm64Word; bv_decide

/-- BL stays BL -/
theorem arm64_class_bl (e : Bool) (pc v : BitVec 32) :
    ((arm64Word e pc v) >>> 26 = 0x25#32) = (v >>> 26 = 0x25#32) := by
  unfold arm64Word; bv_decide

/-- ADRP stays ADRP and stays on the same side of the ±512 MiB gate -/
theorem arm64_class_adrp (e : Bool) (pc v : BitVec 32) :
    let src := fun (i : BitVec 32) => ((i >>> 29) &&& 3#32) ||| ((i >>> 3) &&& 0x001FFFFC#32)
    let w := arm64Word e pc v
    (w &&& 0x9F000000#32 = 0x90000000#32 ∧ (src w + 0x00020000#32) &&& 0x001C0000#32 = 0#32)
      = (v &&& 0x9F000000#32 = 0x90000000#32 ∧ (src v + 0x00020000#32) &&& 0x001C0000#32 = 0#32) := by
  unfold arm64Word; bv_decide

/-! ### PowerPC -/

theorem powerpc_dec_enc (pc v : BitVec 32) (h : pc &&& 3#32 = 0#32) : powerpcWord false pc (powerpcWord true pc v) = v := by
  unfold powerpcWord getB setB; bv_decide

theorem powerpc_enc_dec (pc v : BitVec 32) (h : pc &&& 3#32 = 0#32) : powerpcWord true pc (powerpcWord false pc v) = v := by
  unfold powerpcWord getB setB; bv_decide

theorem powerpc_class (e : Bool) (pc v : BitVec 32) (h : pc &&& 3#32 = 0#32) :
    let w := powerpcWord e pc v
    (getB w 0 >>> 2 = 0x12#32 ∧ getB w 3 &&& 3#32 = 1#32) = (getB v 0 >>> 2 = 0x12#32 ∧ getB v 3 &&& 3#32 = 1#32) := by
  unfold powerpcWord getB setB; bv_decide

/-! ### SPARC -/

theorem sparc_dec_enc (pc v : BitVec 32) (h : pc &&& 3#32 = 0#32) : sparcWord false pc (sparcWord true pc v) = v := by
  unfold sparcWord getB setB; bv_decide

theorem sparc_enc_dec (pc v : BitVec 32) (h : pc &&& 3#32 = 0#32) : sparcWord true pc (sparcWord false pc v) = v := by
  unfold sparcWord getB setB; bv_decide

theorem sparc_class (e : Bool) (pc v : BitVec 32) :
    let c := fun (x : BitVec 32) => (getB x 0 = 0x40#32 ∧ getB x 1 &&& 0xC0#32 = 0x00#32) ∨ (getB x 0 = 0x7F#32 ∧ getB x 1 &&& 0xC0#32 = 0xC0#32)
    c (sparcWord e pc v) = c v := by
  unfold sparcWord getB setB; bv_decide

/-! ### IA-64: the three slots of a bundle, for each of the 8 slot masks -/

theorem ia64_dec_enc (mask : Nat) (hm : mask < 8) (pc : BitVec 32) (v : BitVec 128) (h : pc &&& 15#32 = 0#32) :
    ia64Slots false pc mask (ia64Slots true pc mask v) = v := by
  have : mask = 0 ∨ mask = 1 ∨ mask = 2 ∨ mask = 3 ∨ mask = 4 ∨ mask = 5 ∨ mask = 6 ∨ mask = 7 := by omega
  rcases this with rfl | rfl | rfl | rfl | rfl | rfl | rfl | rfl <;>
  · unfold ia64Slots ia64Slot
    simp only [Nat.reduceMul, Nat.reduceAdd, Nat.reduceDiv, Nat.reduceMod, Nat.reduceSub, if_true, if_false,
      Nat.zero_ne_one]
    all_goals bv_decide

theorem ia64_enc_dec (mask : Nat) (hm : mask < 8) (pc : BitVec 32) (v : BitVec 128) (h : pc &&& 15#32 = 0#32) :
    ia64Slots true pc mask (ia64Slots false pc mask v) = v := by
  have : mask = 0 ∨ mask = 1 ∨ mask = 2 ∨ mask = 3 ∨ mask = 4 ∨ mask = 5 ∨ mask = 6 ∨ mask = 7 := by omega
  rcases this with rfl | rfl | rfl | rfl | rfl | rfl | rfl | rfl <;>
  · unfold ia64Slots ia64Slot
    simp only [Nat.reduceMul, Nat.reduceAdd, Nat.reduceDiv, Nat.reduceMod, Nat.reduceSub, if_true, if_false,
      Nat.zero_ne_one]
    all_goals bv_decide

/-- the template (`buffer[i] & 0x1F`), hence the slot mask, is not changed by the transform -/
theorem ia64_template (e : Bool) (mask : Nat) (hm : mask < 8) (pc : BitVec 32) (v : BitVec 128) :
    getB (ia64Slots e pc mask v) 0 &&& 0x1F#32 = getB v 0 &&& 0x1F#32 := by
  have : mask = 0 ∨ mask = 1 ∨ mask = 2 ∨ mask = 3 ∨ mask = 4 ∨ mask = 5 ∨ mask = 6 ∨ mask = 7 := by omega
  rcases this with rfl | rfl | rfl | rfl | rfl | rfl | rfl | rfl <;>
  · unfold ia64Slots ia64Slot getB
    simp only [Nat.reduceMul, Nat.reduceAdd, Nat.reduceDiv, Nat.reduceMod, Nat.reduceSub, if_true, if_false,
      Nat.zero_ne_one]
    all_goals bv_decide

/-- the branch test of a slot (`opcode == 5 && btype bits == 0`) is not changed by converting any slot -/
theorem ia64_slot_class (e : Bool) (mask : Nat) (hm : mask < 8) (pc : BitVec 32) (v : BitVec 128) (slot : Nat) (hs : slot < 3) :
    let c := fun (x : BitVec 128) =>
      let n := (x >>> (5 + 41 * slot)).setWidth 64
      (n >>> 37) &&& 0xF#64 = 0x5#64 ∧ (n >>> 9) &&& 0x7#64 = 0#64
    c (ia64Slots e pc mask v) = c v := by
  have : mask = 0 ∨ mask = 1 ∨ mask = 2 ∨ mask = 3 ∨ mask = 4 ∨ mask = 5 ∨ mask = 6 ∨ mask = 7 := by omega
  have hs' : slot = 0 ∨ slot = 1 ∨ slot = 2 := by omega
  rcases hs' with rfl | rfl | rfl <;> rcases this with rfl | rfl | rfl | rfl | rfl | rfl | rfl | rfl <;>
  · unfold ia64Slots ia64Slot
    simp only [Nat.reduceMul, Nat.reduceAdd, Nat.reduceDiv, Nat.reduceMod, Nat.reduceSub, if_true, if_false,
      Nat.zero_ne_one]
    all_goals bv_decide

/-! ### ARM-Thumb (bytes) -/

/-- a converted pair always carries the class bits `11110… / 11111…` -/
theorem thumb_conv_class (e : Bool) (pc : BitVec 32) (b0 b1 b2 b3 : UInt8) :
    thumbCond (thumbConv e pc b0 b1 b2 b3).2.1 (thumbConv e pc b0 b1 b2 b3).2.2.2 = true := by
  unfold thumbCond thumbConv u32 u8; bv_decide

theorem thumb_dec_enc (pc : BitVec 32) (b0 b1 b2 b3 : UInt8) (hc : thumbCond b1 b3 = true) (h : pc &&& 1#32 = 0#32) :
    thumbConv false pc (thumbConv true pc b0 b1 b2 b3).1 (thumbConv true pc b0 b1 b2 b3).2.1
      (thumbConv true pc b0 b1 b2 b3).2.2.1 (thumbConv true pc b0 b1 b2 b3).2.2.2 = (b0, b1, b2, b3) := by
  unfold thumbCond thumbConv u32 u8 at *
  simp only [Prod.mk.injEq]
  bv_decide

theorem thumb_enc_dec (pc : BitVec 32) (b0 b1 b2 b3 : UInt8) (hc : thumbCond b1 b3 = true) (h : pc &&& 1#32 = 0#32) :
    thumbConv true pc (thumbConv false pc b0 b1 b2 b3).1 (thumbConv false pc b0 b1 b2 b3).2.1
      (thumbConv false pc b0 b1 b2 b3).2.2.1 (thumbConv false pc b0 b1 b2 b3).2.2.2 = (b0, b1, b2, b3) := by
  unfold thumbCond thumbConv u32 u8 at *
  simp only [Prod.mk.injEq]
  bv_decide

/-- the class test only looks at the top five bits of the odd bytes; a conversion keeps them -/
theorem thumb_conv_keeps_b1 (e : Bool) (pc : BitVec 32) (b0 b1 b2 b3 x : UInt8) (hc : thumbCond b1 b3 = true) :
    thumbCond x (thumbConv e pc b0 b1 b2 b3).2.1 = thumbCond x b1 := by
  unfold thumbCond thumbConv u32 u8 at *; bv_decide

end XzVerif.BitWords
