/-
  The range-decoder / probability invariant `RcQ` (Lemmas/LzmaResumeQDefs.lean) at the level of the decoder state: every operation of
  the LZMA1 decoder keeps "range in [2^16, 2^32), every probability variable in [31, 2017]"; after a successful `rc_normalize` the
  range is at least `RC_TOP_VALUE` and a second normalisation does nothing; one `lzma_decode` call (`lzmaCallR`) keeps `RcQR`.
  Needed for LZMA1 with known uncompressed size AND end marker allowed (the re-entry at SEQ_IS_MATCH after the known-size test has
  normalised the range decoder cannot starve).
  Core Lean only.
-/
import XzVerif.Lemmas.LzmaResumeQDefs
import XzVerif.Lemmas.LzmaResumeCall
import XzVerif.Lemmas.LzmaResumeL1
import XzVerif.Lemmas.C03Rc

namespace XzVerif.LzmaR
open XzVerif.RangeDec XzVerif.LzDict XzVerif.Lzma XzVerif.Lzma2

/-- `RcQ` only reads `range`, `code`, `probs` -/
theorem rcq_congr (s t : St) (h : RcQ s) (h1 : t.range = s.range) (h2 : t.code = s.code) (h3 : t.probs = s.probs) : RcQ t := by
  cases s
  cases t
  dsimp only at h1 h2 h3
  subst h1; subst h2; subst h3
  exact h

namespace RcQAux

/-- the probability half of `RcQ` -/
def PQ (a : Array Nat) : Prop := ∀ i (h : i < a.size), ProbInv a[i]

/-- `RcQ` with a normalised range decoder -/
def RcQN (s : St) : Prop := RcNorm ⟨s.range, s.code⟩ ∧ PQ s.probs

theorem RcQN.weak {s : St} (h : RcQN s) : RcQ s := ⟨rcNorm_weak h.1, h.2⟩

/-- one-state Hoare predicate: `x` keeps `RcQ` on every way out -/
def Keeps {α : Type} (x : M α) : Prop := ∀ s, RcQ s → RcQ (resSt (x s))

theorem Keeps.pure {α : Type} (a : α) : Keeps (pure a : M α) := fun _ h => h
theorem Keeps.throw {α : Type} (e : Exit) : Keeps (throw e : M α) := fun _ h => h

theorem Keeps.bind {α β : Type} {x : M α} {f : α → M β} (hx : Keeps x) (hf : ∀ a, Keeps (f a)) : Keeps (x >>= f) := by
  intro s h
  show RcQ (resSt (EStateM.bind x f s))
  unfold EStateM.bind
  have h1 := hx s h
  cases hxs : x s with
  | ok a s1 => rw [hxs] at h1; exact hf a s1 h1
  | error e s1 => rw [hxs] at h1; exact h1

theorem Keeps.read {α : Type} (g : St → α) : Keeps (fun s => EStateM.Result.ok (g s) s : M α) := fun _ h => h

theorem Keeps.modify (f : St → St) (hf : ∀ s, (f s).range = s.range ∧ (f s).code = s.code ∧ (f s).probs = s.probs) :
    Keeps (modify f : M PUnit) := fun s h => rcq_congr s (f s) h (hf s).1 (hf s).2.1 (hf s).2.2

/-! ### `rc_normalize` -/

theorem pq_replicate (n : Nat) : PQ (Array.replicate n PROB_INIT) := by
  intro i hi
  rw [Array.getElem_replicate]
  exact probInv_init

theorem rcNormalize_spec (s : St) (h : RcQ s) :
    match rcNormalize s with
    | .ok _ t => RcQN t
    | .error _ t => t = s := by
  rw [rcNormalize_unf]
  by_cases hr : s.range < RC_TOP_VALUE
  · rw [if_pos hr]
    by_cases hb : s.inPos < s.inp.size
    · rw [dif_pos hb]
      have hnb : (Rc.mk s.range s.code).needsByte = true := decide_eq_true hr
      have hsp := normalize_spec ⟨s.range, s.code⟩ (s.inp[s.inPos]).toNat (UInt8.toNat_lt _) h.1
      dsimp only at hsp
      rw [if_pos hnb] at hsp
      exact ⟨hsp.1, h.2⟩
    · rw [dif_neg hb]
  · rw [if_neg hr]
    exact ⟨⟨Nat.le_of_not_lt hr, h.1.hi⟩, h.2⟩

theorem keeps_rcNormalize : Keeps rcNormalize := by
  intro s h
  have hs := rcNormalize_spec s h
  cases hn : rcNormalize s with
  | ok a t => rw [hn] at hs; exact hs.weak
  | error e t => rw [hn] at hs; rw [show resSt (EStateM.Result.error e t : EStateM.Result Exit St Unit) = t from rfl, hs]; exact h

/-- `rc_normalize` followed by an operation on a normalised decoder -/
theorem keeps_norm_then {α : Type} {y : M α} (hy : ∀ s, RcQN s → RcQ (resSt (y s))) : Keeps (rcNormalize >>= fun _ => y) := by
  intro s h
  show RcQ (resSt (EStateM.bind rcNormalize (fun _ => y) s))
  unfold EStateM.bind
  have hs := rcNormalize_spec s h
  cases hn : rcNormalize s with
  | ok a t => rw [hn] at hs; exact hy t hs
  | error e t => rw [hn] at hs; show RcQ t; rw [hs]; exact h

/-! ### one bit -/

/-- a probability variable outside the array reads as 0: bit 1, range decoder and probability unchanged -/
theorem bitCore_zero (r c : Nat) : bitCore (Rc.mk r c) 0 = (1, Rc.mk r c, 0) := by
  unfold bitCore rcBound probUpdate1
  simp

theorem pq_setIfInBounds (a : Array Nat) (idx p : Nat) (ha : PQ a) (hp : idx < a.size → ProbInv p) : PQ (a.setIfInBounds idx p) := by
  intro i hi
  have hi' : i < a.size := by rw [Array.size_setIfInBounds] at hi; exact hi
  rw [Array.getElem_setIfInBounds hi']
  split
  · next he => subst he; exact hp hi'
  · exact ha i hi'

theorem rcq_bitStep (idx : Nat) (s : St) (h : RcQN s) : RcQ (resSt (bitStep idx s)) := by
  show RcQ (St.setProb { s with range := (bitCore (Rc.mk s.range s.code) (s.probs.getD idx 0)).2.1.range,
                                code := (bitCore (Rc.mk s.range s.code) (s.probs.getD idx 0)).2.1.code } idx
              (bitCore (Rc.mk s.range s.code) (s.probs.getD idx 0)).2.2)
  by_cases hlt : idx < s.probs.size
  · have hp : s.probs.getD idx 0 = s.probs[idx] := by unfold Array.getD; rw [dif_pos hlt]; rfl
    rw [hp]
    have hsp := bitCore_spec ⟨s.range, s.code⟩ s.probs[idx] h.1 (h.2 idx hlt)
    exact ⟨hsp.2.1, pq_setIfInBounds _ _ _ h.2 (fun _ => hsp.1)⟩
  · have hp : s.probs.getD idx 0 = 0 := by unfold Array.getD; rw [dif_neg hlt]
    rw [hp, bitCore_zero]
    exact ⟨rcNorm_weak h.1, pq_setIfInBounds _ _ _ h.2 (fun hh => absurd hh hlt)⟩

theorem keeps_rcBit (idx : Nat) : Keeps (rcBit idx) := by
  rw [rcBit_eq]
  exact keeps_norm_then (rcq_bitStep idx)

/-- (the range decoder as a variable: the kernel must not look into `directCore`) -/
theorem rcq_setRc (s : St) (rc : Rc) (hw : RcWeak rc) (hp : PQ s.probs) : RcQ { s with range := rc.range, code := rc.code } :=
  ⟨hw, hp⟩

theorem keeps_rcDirect : ∀ n dest, Keeps (rcDirect n dest)
  | 0, dest => Keeps.pure dest
  | n + 1, dest => by
    unfold rcDirect
    refine keeps_norm_then (fun s h => ?_)
    have hsp := directCore_spec ⟨s.range, s.code⟩ h.1
    exact keeps_rcDirect n _ _ (rcq_setRc s (directCore ⟨s.range, s.code⟩).2 hsp.2.1 h.2)

theorem keeps_bittree (base : Nat) : ∀ n sym, Keeps (bittree base n sym)
  | 0, sym => Keeps.pure sym
  | n + 1, sym => by
    unfold bittree
    exact Keeps.bind (keeps_rcBit _) (fun b => keeps_bittree base n _)

theorem keeps_litMatched (base : Nat) : ∀ n sym offset len, Keeps (litMatched base n sym offset len)
  | 0, sym, _, _ => Keeps.pure sym
  | n + 1, sym, offset, len => by
    unfold litMatched
    exact Keeps.bind (keeps_rcBit _) (fun b => keeps_litMatched base n _ _ _)

theorem keeps_revBittree (base : Nat) : ∀ n sym offset acc, Keeps (revBittree base n sym offset acc)
  | 0, _, _, acc => Keeps.pure acc
  | n + 1, sym, offset, acc => by
    unfold revBittree
    exact Keeps.bind (keeps_rcBit _) (fun b => keeps_revBittree base n _ _ _)

theorem keeps_revAlign : ∀ n sym offset, Keeps (revAlign n sym offset)
  | 0, sym, _ => Keeps.pure sym
  | n + 1, sym, offset => by
    unfold revAlign
    exact Keeps.bind (keeps_rcBit _) (fun b => keeps_revAlign n _ _)

theorem keeps_lenDecode (lenBase posState : Nat) : Keeps (lenDecode lenBase posState) := by
  unfold lenDecode
  refine Keeps.bind (keeps_rcBit _) (fun c => ?_)
  split
  · exact Keeps.bind (keeps_bittree _ _ _) (fun _ => Keeps.pure _)
  · refine Keeps.bind (keeps_rcBit _) (fun c2 => ?_)
    split
    · exact Keeps.bind (keeps_bittree _ _ _) (fun _ => Keeps.pure _)
    · exact Keeps.bind (keeps_bittree _ _ _) (fun _ => Keeps.pure _)

theorem keeps_distDecode (len : Nat) : Keeps (distDecode len) := by
  unfold distDecode
  refine Keeps.bind (keeps_bittree _ _ _) (fun slot1 => ?_)
  simp only []
  split
  · exact Keeps.pure _
  · split
    · exact keeps_revBittree _ _ _ _ _
    · exact Keeps.bind (keeps_rcDirect _ _) (fun r => Keeps.bind (keeps_revAlign _ _ _) (fun a => Keeps.pure _))

theorem keeps_decodeSymbol (eopmValid : Bool) : Keeps (decodeSymbol eopmValid) := by
  unfold decodeSymbol
  refine Keeps.bind (Keeps.read _) (fun t => ?_)
  obtain ⟨state, posState, full⟩ := t
  simp only []
  refine Keeps.bind (keeps_rcBit _) (fun isMatch => ?_)
  split
  · -- literal
    refine Keeps.bind (Keeps.read _) (fun base => ?_)
    split
    · refine Keeps.bind (Keeps.modify _ (fun _ => ⟨rfl, rfl, rfl⟩)) (fun _ => ?_)
      exact Keeps.bind (keeps_bittree _ _ _) (fun sym => Keeps.pure _)
    · refine Keeps.bind (Keeps.modify _ (fun _ => ⟨rfl, rfl, rfl⟩)) (fun _ => ?_)
      refine Keeps.bind (Keeps.read _) (fun mb => ?_)
      exact Keeps.bind (keeps_litMatched _ _ _ _ _) (fun sym => Keeps.pure _)
  · refine Keeps.bind (keeps_rcBit _) (fun isRep => ?_)
    split
    · -- simple match
      refine Keeps.bind (Keeps.modify _ (fun _ => ⟨rfl, rfl, rfl⟩)) (fun _ => ?_)
      refine Keeps.bind (keeps_lenDecode _ _) (fun len => ?_)
      refine Keeps.bind (keeps_distDecode _) (fun d => ?_)
      refine Keeps.bind (Keeps.modify _ (fun _ => ⟨rfl, rfl, rfl⟩)) (fun _ => ?_)
      split
      · have hrest : Keeps (do
              rcNormalize
              let fin ← (fun s : St => EStateM.Result.ok (s.code == 0) s)
              if fin then throw .streamEnd else throw .dataError : M Pending) := by
          refine Keeps.bind keeps_rcNormalize (fun _ => ?_)
          refine Keeps.bind (Keeps.read _) (fun fin => ?_)
          split
          · exact Keeps.throw _
          · exact Keeps.throw _
        split
        · exact Keeps.bind (Keeps.throw _) (fun _ => hrest)
        · exact hrest
      · split
        · exact Keeps.throw _
        · exact Keeps.pure _
    · -- repeated match
      split
      · exact Keeps.throw _
      · refine Keeps.bind (keeps_rcBit _) (fun isRep0 => ?_)
        refine Keeps.bind ?_ (fun isShort => ?_)
        · split
          · exact Keeps.bind (keeps_rcBit _) (fun isLong => Keeps.pure _)
          · refine Keeps.bind (keeps_rcBit _) (fun isRep1 => ?_)
            have hm : ∀ m : St → St, (∀ s, (m s).range = s.range ∧ (m s).code = s.code ∧ (m s).probs = s.probs) →
                Keeps (do modify m; pure false : M Bool) :=
              fun m hm => Keeps.bind (Keeps.modify m hm) (fun _ => Keeps.pure _)
            split
            · exact hm _ (fun _ => ⟨rfl, rfl, rfl⟩)
            · refine Keeps.bind (keeps_rcBit _) (fun isRep2 => ?_)
              split
              · exact hm _ (fun _ => ⟨rfl, rfl, rfl⟩)
              · exact hm _ (fun _ => ⟨rfl, rfl, rfl⟩)
        · split
          · exact Keeps.bind (Keeps.modify _ (fun _ => ⟨rfl, rfl, rfl⟩)) (fun _ => Keeps.pure _)
          · refine Keeps.bind (Keeps.modify _ (fun _ => ⟨rfl, rfl, rfl⟩)) (fun _ => ?_)
            exact Keeps.bind (keeps_lenDecode _ _) (fun len => Keeps.pure _)

theorem keeps_symPrelude (ev mf : Bool) : Keeps (symPrelude ev mf) := by
  unfold symPrelude
  refine Keeps.bind (Keeps.read _) (fun atLimit => ?_)
  split
  · refine Keeps.bind keeps_rcNormalize (fun _ => ?_)
    refine Keeps.bind (Keeps.read _) (fun t => ?_)
    obtain ⟨fin, allow⟩ := t
    simp only []
    split
    · exact Keeps.throw _
    · split
      · exact Keeps.throw _
      · exact Keeps.bind (Keeps.modify _ (fun _ => ⟨rfl, rfl, rfl⟩)) (fun _ => Keeps.pure _)
  · exact Keeps.pure _

end RcQAux

open RcQAux

theorem rcq_rcNormalize (s : St) (h : RcQ s) : RcQ (resSt (rcNormalize s)) := keeps_rcNormalize s h

/-- after a successful normalisation the range is at least `RC_TOP_VALUE` … -/
theorem rcNormalize_top (s t : St) (h : RcQ s) (hn : rcNormalize s = .ok () t) : RC_TOP_VALUE ≤ t.range := by
  have hs := rcNormalize_spec s h
  rw [hn] at hs
  exact hs.1.lo

/-- … and normalising again does nothing (in particular it cannot run out of input) -/
theorem rcNormalize_of_top (t : St) (h : RC_TOP_VALUE ≤ t.range) : rcNormalize t = .ok () t := by
  rw [rcNormalize_unf, if_neg (Nat.not_lt.mpr h)]

theorem rcq_decodeSymbol (ev : Bool) (s : St) (h : RcQ s) : RcQ (resSt (decodeSymbol ev s)) := keeps_decodeSymbol ev s h

theorem rcq_symPrelude (ev mf : Bool) (s : St) (h : RcQ s) : RcQ (resSt (symPrelude ev mf s)) := keeps_symPrelude ev mf s h

theorem rcq_doWrite (p : Pending) (s : St) (h : RcQ s) : RcQ (resSt (doWrite p s)) := by
  have hf := doWrite_frame p s
  exact rcq_congr s _ h (by rw [hf]) (by rw [hf]) (by rw [hf])

theorem rcq_rcReadInit (s : St) (h : RcQ s) : RcQ (resSt (rcReadInit s)) := by
  have hf := (rcReadInit_frame s).1
  refine ⟨⟨?_, ?_⟩, ?_⟩
  · show 65536 ≤ (resSt (rcReadInit s)).range
    rw [hf]; exact h.1.lo
  · show (resSt (rcReadInit s)).range < U32
    rw [hf]; exact h.1.hi
  · have hp : (resSt (rcReadInit s)).probs = s.probs := by rw [hf]
    rw [hp]; exact h.2

theorem rcq_restore (k : SymSnap) (s : St) (h : RcQk k) : RcQ (k.restore s) := h

theorem rcqk_of (s : St) (h : RcQ s) : RcQk (SymSnap.of s) := h

namespace RcQAux

/-! ### sweep over one call (head / symbol / write decomposition of Lemmas/LzmaResumeL1.lean) -/

/-- the final state is `RcQ` and a returned snapshot is `RcQk` -/
def RQ (x : Res) : Prop := RcQ (resSt x.1) ∧ ∀ k, x.2 = some k → RcQk k

theorem RQ.none {res : EStateM.Result Exit St Unit} (h : RcQ (resSt res)) : RQ (res, none) :=
  ⟨h, fun _ hk => by cases hk⟩

theorem q_afterWrite (f : Nat) (hIH : ∀ ev mf s, RcQ s → RQ (symLoopR f ev mf s)) (ev mf : Bool)
    (res : EStateM.Result Exit St Unit) (h : RcQ (resSt res)) : RQ (afterWrite f ev mf res) := by
  cases res with
  | error e u => exact RQ.none h
  | ok a u => exact hIH ev mf u h

theorem q_afterSym (f : Nat) (hIH : ∀ ev mf s, RcQ s → RQ (symLoopR f ev mf s)) (ev mf : Bool) (k : SymSnap)
    (res : EStateM.Result Exit St Pending) (hk : RcQk k) (h : RcQ (resSt res)) : RQ (afterSym f ev mf k res) := by
  cases res with
  | error e t =>
    cases e with
    | needInput => exact ⟨h, fun k' hk' => by cases hk'; exact hk⟩
    | dataError => exact RQ.none h
    | streamEnd => exact RQ.none h
    | outFull p => exact RQ.none h
    | fuel => exact RQ.none h
  | ok act t => exact q_afterWrite f hIH ev mf (doWrite act t) (rcq_doWrite act t h)

theorem q_symLoopR : ∀ f ev mf s, RcQ s → RQ (symLoopR f ev mf s)
  | 0, _, _, s, h => RQ.none h
  | f + 1, ev, mf, s, h => by
    rw [symLoopR_succ]
    have hp := rcq_symPrelude ev mf s h
    cases hpre : symPrelude ev mf s with
    | error e t => rw [hpre] at hp; exact RQ.none hp
    | ok ev1 t1 =>
      rw [hpre] at hp
      have hq1 : RcQ t1 := hp
      simp only []
      cases rcNormalize t1 with
      | error e t => exact ⟨hq1, fun _ hk => by cases hk⟩
      | ok a t =>
        exact q_afterSym f (q_symLoopR f) ev1 mf (SymSnap.of t1) (decodeSymbol ev1 t1) (rcqk_of t1 hq1)
          (rcq_decodeSymbol ev1 t1 hq1)

theorem q_headR (f : Nat) (ev mf : Bool) (p : Pending) (k : Option SymSnap) (s : St) (h : RcQ s)
    (hk : ∀ kk, k = some kk → RcQk kk) : RQ (headR f ev mf p k s) := by
  cases k with
  | none => exact q_afterWrite f (q_symLoopR f) ev mf (doWrite p s) (rcq_doWrite p s h)
  | some kk =>
    exact q_afterSym f (q_symLoopR f) ev mf kk (decodeSymbol ev (kk.restore s)) (hk kk rfl)
      (rcq_decodeSymbol ev _ (rcq_restore kk s (hk kk rfl)))

/-- the code after the label `out`: at LZMA_STREAM_END the range decoder is reset -/
theorem rcq_lzmaFinish (res : EStateM.Result Exit St Unit) (cl st : Nat) (w : Option Nat) (h : RcQ (resSt res)) :
    RcQ (lzmaFinish res cl st w).2 := by
  refine ⟨?_, h.2⟩
  show RcWeak ⟨if ((lzmaFinish res cl st w).1 == Ret.streamEnd) = true then UINT32_MAX else (resSt res).range,
               if ((lzmaFinish res cl st w).1 == Ret.streamEnd) = true then 0 else (resSt res).code⟩
  generalize ((lzmaFinish res cl st w).1 == Ret.streamEnd) = b
  cases b with
  | false => exact h.1
  | true => exact ⟨(by decide : 65536 ≤ UINT32_MAX), (by decide : UINT32_MAX < U32)⟩

theorem rcq_unstick (s : St) (h : RcQ s) : RcQ (unstick s) := by
  unfold unstick
  split
  · exact h
  · exact h

end RcQAux

/-- one `lzma_decode` call keeps the invariant -/
theorem rcqr_lzmaCallR (r : RSt) (h : RcQR r) : RcQR (lzmaCallR r).2 := by
  rw [lzmaCallR_eq]
  have h0 := rcq_rcReadInit r.s h.1
  cases hri : rcReadInit r.s with
  | error e t => rw [hri] at h0; exact ⟨h0, h.2⟩
  | ok a t =>
    rw [hri] at h0
    have ht : RcQ t := h0
    cases a with
    | false => exact ⟨ht, h.2⟩
    | true =>
      show RcQR (finK r.sym0 r.overrun t).2
      unfold finK finOf
      rw [lzmaRunR_eq]
      have hh := q_headR (clampedLimit t - t.dp.pos + 2) (t.uncomp.isNone || t.eopmValid) (mightFinish t) t.pending r.sym0
        { t with dp := { t.dp with limit := clampedLimit t }, pending := .none } ht h.2
      exact ⟨rcq_unstick _ (rcq_lzmaFinish _ _ _ _ hh.1), hh.2⟩

/-- when the known-size test lets the loop go on, either it did nothing or the range decoder is normalised -/
theorem symPrelude_ok_top (ev mf : Bool) (s t : St) (ev' : Bool) (h : RcQ s) (hp : symPrelude ev mf s = .ok ev' t) :
    (t = s ∧ ev' = ev ∧ (mf && (s.dp.pos == s.dp.limit)) = false)
    ∨ (RC_TOP_VALUE ≤ t.range ∧ ev' = true ∧ t.eopmValid = true ∧ (mf && (s.dp.pos == s.dp.limit)) = true
        ∧ t = { s with range := t.range, code := t.code, inPos := t.inPos, eopmValid := true }) := by
  rw [symPrelude_eq] at hp
  cases hc : (mf && (s.dp.pos == s.dp.limit)) with
  | false =>
    rw [hc, if_neg Bool.false_ne_true] at hp
    injection hp with h1 h2
    exact .inl ⟨h2.symm, h1.symm, rfl⟩
  | true =>
    rw [hc, if_pos rfl] at hp
    obtain ⟨rr, c, p, hex⟩ := rcNormalize_ex s
    cases hn : rcNormalize s with
    | error e s1 => rw [hn] at hp; cases hp
    | ok u s1 =>
      rw [hn] at hp hex
      have htop := rcNormalize_top s s1 h hn
      have hs1 : s1 = { s with range := rr, code := c, inPos := p } := hex
      simp only [] at hp
      split at hp
      · cases hp
      · split at hp
        · cases hp
        · injection hp with h1 h2
          subst h2
          subst hs1
          exact .inr ⟨htop, h1.symm, rfl, rfl, rfl⟩

theorem rcqr_view (r : RSt) (b : ByteArray) (L : Nat) (h : RcQR r) : RcQR (r.view b L) := ⟨h.1, h.2⟩

theorem rcqr_initLzma1R (props : Props) (dictSize : Nat) (uncomp : Option Nat) (allowEopm : Bool) (preset : List UInt8) :
    RcQR (initLzma1R props dictSize uncomp allowEopm preset) := by
  refine ⟨⟨⟨?_, ?_⟩, ?_⟩, ?_⟩
  · show 65536 ≤ UINT32_MAX
    decide
  · show UINT32_MAX < U32
    decide
  · exact pq_replicate (probsSize props.lc props.lp)
  · intro k hk
    cases hk

end XzVerif.LzmaR
