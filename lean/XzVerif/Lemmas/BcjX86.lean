/-
  x86 BCJ filter: list-level lemmas.  The mask invariant (`MaskOK`), its preservation along the main loop, the fact that the
  encoder keeps the 00/FF-ness of every byte a rejected candidate has looked at, and the round trip.
  Kernel proofs only; word-level facts come from Lemmas/BitWordsBcjX86.lean.
-/
import XzVerif.Lemmas.BitWordsBcjX86
namespace XzVerif.Bcj
open XzVerif.BitWords

/-! ### equations of `x86Go` in projection form -/

/-- the negation of the C test `b != 0xE8 && b != 0xE9` -/
def isOpcode (b : UInt8) : Bool := !(b != 0xE8 && b != 0xE9)

theorem isOpcode_false {b : UInt8} (h : isOpcode b = false) : (b != 0xE8 && b != 0xE9) = true := by
  unfold isOpcode at h; revert h; cases (b != 0xE8 && b != 0xE9) <;> simp

theorem isOpcode_true {b : UInt8} (h : isOpcode b = true) : ¬ (b != 0xE8 && b != 0xE9) = true := by
  unfold isOpcode at h; revert h; cases (b != 0xE8 && b != 0xE9) <;> simp

/-- `prev_mask` after a rejected candidate -/
def noconvMask (μ : BitVec 32) (b4 : UInt8) : BitVec 32 :=
  if test86 b4 then μ ||| 1#32 ||| 0x10#32 else μ ||| 1#32

theorem x86Go_short (e : Bool) (pc : BitVec 32) (st : X86State) (l : List UInt8) (h : l.length < 5) :
    x86Go e pc st l = (l, 0, st) := by
  match l, h with
  | [], _ => rfl
  | [_], _ => rfl
  | [_, _], _ => rfl
  | [_, _, _], _ => rfl
  | [_, _, _, _], _ => rfl

theorem x86Go_skip (e : Bool) (pc : BitVec 32) (st : X86State) (b0 b1 b2 b3 b4 : UInt8) (rest : List UInt8)
    (h : isOpcode b0 = false) :
    x86Go e pc st (b0 :: b1 :: b2 :: b3 :: b4 :: rest) =
      (b0 :: (x86Go e (pc + 1#32) st (b1 :: b2 :: b3 :: b4 :: rest)).1,
       (x86Go e (pc + 1#32) st (b1 :: b2 :: b3 :: b4 :: rest)).2.1 + 1,
       (x86Go e (pc + 1#32) st (b1 :: b2 :: b3 :: b4 :: rest)).2.2) := by
  have h' := isOpcode_false h
  rw [x86Go, if_pos h']

theorem x86Go_conv (e : Bool) (pc : BitVec 32) (st : X86State) (b0 b1 b2 b3 b4 : UInt8) (rest : List UInt8)
    (h : isOpcode b0 = true) (hc : x86Convertible b4 (x86NewMask st pc) = true) :
    x86Go e pc st (b0 :: b1 :: b2 :: b3 :: b4 :: rest) =
      (b0 :: (x86Conv e (pc + 5#32) (x86NewMask st pc) b1 b2 b3 b4).1 :: (x86Conv e (pc + 5#32) (x86NewMask st pc) b1 b2 b3 b4).2.1
          :: (x86Conv e (pc + 5#32) (x86NewMask st pc) b1 b2 b3 b4).2.2.1 :: (x86Conv e (pc + 5#32) (x86NewMask st pc) b1 b2 b3 b4).2.2.2
          :: (x86Go e (pc + 5#32) ⟨0#32, pc⟩ rest).1,
       (x86Go e (pc + 5#32) ⟨0#32, pc⟩ rest).2.1 + 5,
       (x86Go e (pc + 5#32) ⟨0#32, pc⟩ rest).2.2) := by
  have h' := isOpcode_true h
  rw [x86Go, if_neg h', if_pos hc]

theorem x86Go_noconv (e : Bool) (pc : BitVec 32) (st : X86State) (b0 b1 b2 b3 b4 : UInt8) (rest : List UInt8)
    (h : isOpcode b0 = true) (hc : x86Convertible b4 (x86NewMask st pc) = false) :
    x86Go e pc st (b0 :: b1 :: b2 :: b3 :: b4 :: rest) =
      (b0 :: (x86Go e (pc + 1#32) ⟨noconvMask (x86NewMask st pc) b4, pc⟩ (b1 :: b2 :: b3 :: b4 :: rest)).1,
       (x86Go e (pc + 1#32) ⟨noconvMask (x86NewMask st pc) b4, pc⟩ (b1 :: b2 :: b3 :: b4 :: rest)).2.1 + 1,
       (x86Go e (pc + 1#32) ⟨noconvMask (x86NewMask st pc) b4, pc⟩ (b1 :: b2 :: b3 :: b4 :: rest)).2.2) := by
  have h' := isOpcode_true h
  rw [x86Go, if_neg h', if_neg (by simp [hc])]
  rfl

end XzVerif.Bcj
