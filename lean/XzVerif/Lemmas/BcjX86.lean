/-
  x86 BCJ filter: list-level lemmas.  The mask invariant (`MaskOK`), its preservation along the main loop, the fact that the
  encoder keeps the 00/FF-ness of every byte a rejected candidate has looked at, and the round trip.
  Kernel proofs only; word-level facts come from Lemmas/BitWordsBcjX86.lean.
-/
import XzVerif.Lemmas.BitWordsBcjX86
namespace XzVerif.Bcj
open XzVerif.BitWords

/-! ### equations of `x86Go` in projection form -/

/-- the negation of the C test `b != 0xE8 && b != 0xE9` -/
def isOpcode (b : UInt8) : Bool := !(b != 0xE8 && b != 0xE9)

theorem isOpcode_false {b : UInt8} (h : isOpcode b = false) : (b != 0xE8 && b != 0xE9) = true := by
  unfold isOpcode at h; revert h; cases (b != 0xE8 && b != 0xE9) <;> simp

theorem isOpcode_true {b : UInt8} (h : isOpcode b = true) : ¬ (b != 0xE8 && b != 0xE9) = true := by
  unfold isOpcode at h; revert h; cases (b != 0xE8 && b != 0xE9) <;> simp

/-- `prev_mask` after a rejected candidate -/
def noconvMask (μ : BitVec 32) (b4 : UInt8) : BitVec 32 :=
  if test86 b4 then μ ||| 1#32 ||| 0x10#32 else μ ||| 1#32

theorem x86Go_short (e : Bool) (pc : BitVec 32) (st : X86State) (l : List UInt8) (h : l.length < 5) :
    x86Go e pc st l = (l, 0, st) := by
  match l, h with
  | [], _ => rfl
  | [_], _ => rfl
  | [_, _], _ => rfl
  | [_, _, _], _ => rfl
  | [_, _, _, _], _ => rfl

theorem x86Go_skip (e : Bool) (pc : BitVec 32) (st : X86State) (b0 b1 b2 b3 b4 : UInt8) (rest : List UInt8)
    (h : isOpcode b0 = false) :
    x86Go e pc st (b0 :: b1 :: b2 :: b3 :: b4 :: rest) =
      (b0 :: (x86Go e (pc + 1#32) st (b1 :: b2 :: b3 :: b4 :: rest)).1,
       (x86Go e (pc + 1#32) st (b1 :: b2 :: b3 :: b4 :: rest)).2.1 + 1,
       (x86Go e (pc + 1#32) st (b1 :: b2 :: b3 :: b4 :: rest)).2.2) := by
  have h' := isOpcode_false h
  rw [x86Go, if_pos h']

theorem x86Go_conv (e : Bool) (pc : BitVec 32) (st : X86State) (b0 b1 b2 b3 b4 : UInt8) (rest : List UInt8)
    (h : isOpcode b0 = true) (hc : x86Convertible b4 (x86NewMask st pc) = true) :
    x86Go e pc st (b0 :: b1 :: b2 :: b3 :: b4 :: rest) =
      (b0 :: (x86Conv e (pc + 5#32) (x86NewMask st pc) b1 b2 b3 b4).1 :: (x86Conv e (pc + 5#32) (x86NewMask st pc) b1 b2 b3 b4).2.1
          :: (x86Conv e (pc + 5#32) (x86NewMask st pc) b1 b2 b3 b4).2.2.1 :: (x86Conv e (pc + 5#32) (x86NewMask st pc) b1 b2 b3 b4).2.2.2
          :: (x86Go e (pc + 5#32) ⟨0#32, pc⟩ rest).1,
       (x86Go e (pc + 5#32) ⟨0#32, pc⟩ rest).2.1 + 5,
       (x86Go e (pc + 5#32) ⟨0#32, pc⟩ rest).2.2) := by
  have h' := isOpcode_true h
  rw [x86Go, if_neg h', if_pos hc]

theorem x86Go_noconv (e : Bool) (pc : BitVec 32) (st : X86State) (b0 b1 b2 b3 b4 : UInt8) (rest : List UInt8)
    (h : isOpcode b0 = true) (hc : x86Convertible b4 (x86NewMask st pc) = false) :
    x86Go e pc st (b0 :: b1 :: b2 :: b3 :: b4 :: rest) =
      (b0 :: (x86Go e (pc + 1#32) ⟨noconvMask (x86NewMask st pc) b4, pc⟩ (b1 :: b2 :: b3 :: b4 :: rest)).1,
       (x86Go e (pc + 1#32) ⟨noconvMask (x86NewMask st pc) b4, pc⟩ (b1 :: b2 :: b3 :: b4 :: rest)).2.1 + 1,
       (x86Go e (pc + 1#32) ⟨noconvMask (x86NewMask st pc) b4, pc⟩ (b1 :: b2 :: b3 :: b4 :: rest)).2.2) := by
  have h' := isOpcode_true h
  rw [x86Go, if_neg h', if_neg (by simp [hc])]
  rfl

/-! ### the current mask and how it moves -/

theorem maskShift_succ' : ∀ (n : Nat) (m : BitVec 32), maskShift (n + 1) m = shift1 (maskShift n m) := by
  intro n
  induction n with
  | zero => intro m; rfl
  | succ k ih => intro m; rw [maskShift, ih]; rfl

theorem maskShift_zero_mask : ∀ (n : Nat), maskShift n 0#32 = 0#32 := by
  intro n
  induction n with
  | zero => rfl
  | succ k ih => rw [maskShift_succ', ih]; rfl

theorem maskShift_ge4 : ∀ (n : Nat) (m : BitVec 32), 4 ≤ n → maskShift n m = 0#32 := by
  intro n
  induction n with
  | zero => intro m h; omega
  | succ k ih =>
    intro m h
    by_cases hk : 4 ≤ k
    · rw [maskShift_succ', ih m hk]; rfl
    · have : k = 3 := by omega
      subst this
      simp only [maskShift_succ']
      exact shift1_4 _

/-- no 2^32 wrap between the last candidate and the end of the buffer -/
def NoWrap (st : X86State) (pc : BitVec 32) (l : List UInt8) : Prop :=
  (pc - st.prevPos).toNat + l.length < 2 ^ 32

theorem newMask_zero (pp pc : BitVec 32) : x86NewMask ⟨0#32, pp⟩ pc = 0#32 := by
  show (if pc - pp > 5#32 then 0#32 else maskShift (pc - pp).toNat 0#32) = 0#32
  split
  · rfl
  · exact maskShift_zero_mask _

/-- moving one byte forward without meeting a candidate shifts the (virtual) mask once -/
theorem newMask_skip (st : X86State) (pc : BitVec 32) (h : (pc - st.prevPos).toNat + 1 < 2 ^ 32) :
    x86NewMask st (pc + 1#32) = shift1 (x86NewMask st pc) := by
  show (if pc + 1#32 - st.prevPos > 5#32 then 0#32 else maskShift (pc + 1#32 - st.prevPos).toNat st.prevMask)
    = shift1 (if pc - st.prevPos > 5#32 then 0#32 else maskShift (pc - st.prevPos).toNat st.prevMask)
  simp only [sub_succ]
  generalize pc - st.prevPos = d at h
  have hd1 : (d + 1#32).toNat = d.toNat + 1 := by
    rw [BitVec.toNat_add]; simp only [BitVec.toNat_ofNat]; omega
  by_cases hgt : d > 5#32
  · have hgt' : d + 1#32 > 5#32 := by
      rw [gt_iff_lt, BitVec.lt_def] at hgt ⊢
      simp only [BitVec.toNat_ofNat] at hgt ⊢
      omega
    rw [if_pos hgt, if_pos hgt']
    rfl
  · rw [if_neg hgt]
    have hle : d.toNat ≤ 5 := by
      rw [gt_iff_lt, BitVec.lt_def] at hgt
      simp only [BitVec.toNat_ofNat] at hgt
      omega
    by_cases h5 : d.toNat = 5
    · have hgt' : d + 1#32 > 5#32 := by
        rw [gt_iff_lt, BitVec.lt_def]
        simp only [BitVec.toNat_ofNat]
        omega
      rw [if_pos hgt', h5, maskShift_ge4 5 _ (by omega)]
      rfl
    · have hgt' : ¬ d + 1#32 > 5#32 := by
        rw [gt_iff_lt, BitVec.lt_def]
        simp only [BitVec.toNat_ofNat]
        omega
      rw [if_neg hgt', hd1, maskShift_succ']

theorem newMask_after_noconv (m pc : BitVec 32) : x86NewMask ⟨m, pc⟩ (pc + 1#32) = shift1 m := by
  show (if pc + 1#32 - pc > 5#32 then 0#32 else maskShift (pc + 1#32 - pc).toNat m) = shift1 m
  simp only [add1_sub]
  rw [if_neg (by decide)]
  rfl

theorem newMask_after_conv (pc : BitVec 32) : x86NewMask ⟨0#32, pc⟩ (pc + 5#32) = 0#32 := newMask_zero _ _

/-! ### the mask invariant -/

/-- `μ` is the mask a candidate at the head of `l` would see. Bit `k` (k = 1,2,3) records a rejected candidate `k` bytes back,
    whose byte 4 is `l[4-k]`; bit `4+k` records whether that byte was 00/FF when the candidate was examined. -/
structure MaskOK (μ : BitVec 32) (l : List UInt8) : Prop where
  b0 : μ.getLsbD 0 = false
  b4 : μ.getLsbD 4 = false
  k1 : μ.getLsbD 1 = true → ∀ b, l[3]? = some b → test86 b = μ.getLsbD 5
  k2 : μ.getLsbD 2 = true → ∀ b, l[2]? = some b → test86 b = μ.getLsbD 6
  k3 : μ.getLsbD 3 = true → ∀ b, l[1]? = some b → test86 b = μ.getLsbD 7

theorem maskOK_zero (l : List UInt8) : MaskOK 0#32 l :=
  ⟨by decide, by decide, fun h => by simp at h, fun h => by simp at h, fun h => by simp at h⟩

theorem maskOK_skip {μ : BitVec 32} {b0 : UInt8} {tail : List UInt8} (h : MaskOK μ (b0 :: tail)) : MaskOK (shift1 μ) tail := by
  obtain ⟨s0, s1, s2, s3, s4, s5, s6, s7⟩ := shift1_bits μ
  refine ⟨s0, s4, ?_, ?_, ?_⟩
  · intro hb; rw [s1, h.b0] at hb; cases hb
  · intro hb b hl; rw [s2] at hb; rw [s6]; exact h.k1 hb b (by simpa using hl)
  · intro hb b hl; rw [s3] at hb; rw [s7]; exact h.k2 hb b (by simpa using hl)

theorem maskOK_noconv {μ : BitVec 32} {b0 b1 b2 b3 b4 : UInt8} {rest : List UInt8}
    (h : MaskOK μ (b0 :: b1 :: b2 :: b3 :: b4 :: rest)) : MaskOK (shift1 (noconvMask μ b4)) (b1 :: b2 :: b3 :: b4 :: rest) := by
  obtain ⟨s0, s1, s2, s3, s4, s5, s6, s7⟩ := shift1_bits (noconvMask μ b4)
  obtain ⟨o1, o2, o3, o4, o5, o6, o7, o8, o9, o10, o11, o12⟩ := or_bits μ
  refine ⟨s0, s4, ?_, ?_, ?_⟩
  · intro _ b hl
    have hb : b = b4 := by simpa using hl.symm
    subst hb
    rw [s5]
    unfold noconvMask
    cases ht : test86 b
    · simp only [Bool.false_eq_true, if_false]; rw [o3, h.b4]
    · simp only [if_true]; rw [o4]
  · intro hb b hl
    rw [s2] at hb; rw [s6]
    have hb1 : μ.getLsbD 1 = true := by
      unfold noconvMask at hb; split at hb
      · rwa [o6] at hb
      · rwa [o5] at hb
    have h5 : (noconvMask μ b4).getLsbD 5 = μ.getLsbD 5 := by
      unfold noconvMask; split
      · exact o10
      · exact o9
    rw [h5]; exact h.k1 hb1 b (by simpa using hl)
  · intro hb b hl
    rw [s3] at hb; rw [s7]
    have hb2 : μ.getLsbD 2 = true := by
      unfold noconvMask at hb; split at hb
      · rwa [o8] at hb
      · rwa [o7] at hb
    have h6 : (noconvMask μ b4).getLsbD 6 = μ.getLsbD 6 := by
      unfold noconvMask; split
      · exact o12
      · exact o11
    rw [h6]; exact h.k2 hb2 b (by simpa using hl)

/-- what the encoder preserves: length, first byte, and the 00/FF-ness of every byte recorded in the mask -/
structure Pres (μ : BitVec 32) (l r : List UInt8) : Prop where
  len : r.length = l.length
  hd : r[0]? = l[0]?
  p1 : μ.getLsbD 1 = true → (r[3]?).map test86 = (l[3]?).map test86
  p2 : μ.getLsbD 2 = true → (r[2]?).map test86 = (l[2]?).map test86
  p3 : μ.getLsbD 3 = true → (r[1]?).map test86 = (l[1]?).map test86

theorem pres_refl (μ : BitVec 32) (l : List UInt8) : Pres μ l l := ⟨rfl, rfl, fun _ => rfl, fun _ => rfl, fun _ => rfl⟩

theorem pres_cons {μ μ' : BitVec 32} {b0 : UInt8} {tail r' : List UInt8} (h : Pres μ' tail r')
    (h12 : μ.getLsbD 1 = true → μ'.getLsbD 2 = true) (h23 : μ.getLsbD 2 = true → μ'.getLsbD 3 = true) :
    Pres μ (b0 :: tail) (b0 :: r') := by
  refine ⟨by simp [h.len], rfl, ?_, ?_, ?_⟩
  · intro hb; simpa using h.p2 (h12 hb)
  · intro hb; simpa using h.p3 (h23 hb)
  · intro _; simp [h.hd]

/-! ### NoWrap bookkeeping -/

theorem noWrap_skip {st : X86State} {pc : BitVec 32} {b0 : UInt8} {tail : List UInt8} (h : NoWrap st pc (b0 :: tail)) :
    NoWrap st (pc + 1#32) tail ∧ (pc - st.prevPos).toNat + 1 < 2 ^ 32 := by
  unfold NoWrap at *
  simp only [List.length_cons] at h
  rw [sub_succ]
  have hd1 : (pc - st.prevPos + 1#32).toNat = (pc - st.prevPos).toNat + 1 := by
    rw [BitVec.toNat_add]; simp only [BitVec.toNat_ofNat]; omega
  rw [hd1]
  omega

theorem noWrap_len {st : X86State} {pc : BitVec 32} {l : List UInt8} (h : NoWrap st pc l) : l.length < 2 ^ 32 := by
  unfold NoWrap at h; omega

theorem noWrap_after1 (m pc : BitVec 32) {b0 : UInt8} {tail : List UInt8} (h : (b0 :: tail).length < 2 ^ 32) :
    NoWrap ⟨m, pc⟩ (pc + 1#32) tail := by
  unfold NoWrap
  simp only [add1_sub, List.length_cons] at *
  show 1 + tail.length < 2 ^ 32
  omega

theorem noWrap_after5 (pc : BitVec 32) {b0 b1 b2 b3 b4 : UInt8} {rest : List UInt8}
    (h : (b0 :: b1 :: b2 :: b3 :: b4 :: rest).length < 2 ^ 32) : NoWrap ⟨0#32, pc⟩ (pc + 5#32) rest := by
  unfold NoWrap
  simp only [add5_sub, List.length_cons] at *
  show 5 + rest.length < 2 ^ 32
  omega

/-- after the clamp at the start of `x86_code` the last candidate is at most 5 bytes back -/
theorem noWrap_clamp (m pp off : BitVec 32) (x : List UInt8) (hlen : x.length + 5 < 2 ^ 32) :
    NoWrap ⟨m, if off - pp > 5#32 then off - 5#32 else pp⟩ off x := by
  unfold NoWrap
  by_cases hgt : off - pp > 5#32
  · simp only [if_pos hgt, sub_sub5]
    show 5 + x.length < 2 ^ 32
    omega
  · simp only [if_neg hgt]
    have : (off - pp).toNat ≤ 5 := by
      rw [gt_iff_lt, BitVec.lt_def] at hgt
      simp only [BitVec.toNat_ofNat] at hgt
      omega
    omega

theorem convertible_iff (b4 : UInt8) (μ : BitVec 32) :
    x86Convertible b4 μ = true ↔ test86 b4 = true ∧ ((μ >>> 1) ≤ 4#32 ∧ (μ >>> 1) ≠ 3#32) := by
  unfold x86Convertible
  simp only [Bool.and_eq_true, decide_eq_true_eq, and_assoc]

/-- convertibility and the mask update only depend on whether byte 4 is 00/FF -/
theorem convertible_congr {b c : UInt8} (h : test86 b = test86 c) (μ : BitVec 32) : x86Convertible b μ = x86Convertible c μ := by
  unfold x86Convertible; rw [h]

theorem noconvMask_congr {b c : UInt8} (h : test86 b = test86 c) (μ : BitVec 32) : noconvMask μ b = noconvMask μ c := by
  unfold noconvMask; rw [h]

theorem bits_of_2 : (2#32).getLsbD 1 = true ∧ (2#32).getLsbD 2 = false ∧ (2#32).getLsbD 3 = false ∧ (2#32).getLsbD 5 = false := by decide
theorem bits_of_4 : (4#32).getLsbD 1 = false ∧ (4#32).getLsbD 2 = true ∧ (4#32).getLsbD 3 = false ∧ (4#32).getLsbD 6 = false := by decide
theorem bits_of_8 : (8#32).getLsbD 1 = false ∧ (8#32).getLsbD 2 = false ∧ (8#32).getLsbD 3 = true ∧ (8#32).getLsbD 7 = false := by decide

/-- Facts about one conversion under the mask invariant (instantiates the word-level loop lemma). -/
theorem conv_facts {μ pc5 : BitVec 32} {b0 b1 b2 b3 b4 : UInt8} {rest : List UInt8}
    (hm : MaskOK μ (b0 :: b1 :: b2 :: b3 :: b4 :: rest)) (hc : x86Convertible b4 μ = true) :
    x86Conv false pc5 μ (x86Conv true pc5 μ b1 b2 b3 b4).1 (x86Conv true pc5 μ b1 b2 b3 b4).2.1
        (x86Conv true pc5 μ b1 b2 b3 b4).2.2.1 (x86Conv true pc5 μ b1 b2 b3 b4).2.2.2 = (b1, b2, b3, b4)
    ∧ test86 (x86Conv true pc5 μ b1 b2 b3 b4).2.2.2 = true
    ∧ (μ.getLsbD 1 = true → test86 (x86Conv true pc5 μ b1 b2 b3 b4).2.2.1 = test86 b3)
    ∧ (μ.getLsbD 2 = true → test86 (x86Conv true pc5 μ b1 b2 b3 b4).2.1 = test86 b2)
    ∧ (μ.getLsbD 3 = true → test86 (x86Conv true pc5 μ b1 b2 b3 b4).1 = test86 b1) := by
  obtain ⟨h4, hrange⟩ := (convertible_iff b4 μ).1 hc
  have hμ := convertible_mask μ (bit0_and μ hm.b0) hrange
  have h3 : μ = 2#32 → test86 b3 = false := by
    intro h; subst h; have := hm.k1 bits_of_2.1 b3 rfl; rw [this]; exact bits_of_2.2.2.2
  have h2 : μ = 4#32 → test86 b2 = false := by
    intro h; subst h; have := hm.k2 bits_of_4.2.1 b2 rfl; rw [this]; exact bits_of_4.2.2.2
  have h1 : μ = 8#32 → test86 b1 = false := by
    intro h; subst h; have := hm.k3 bits_of_8.2.2.1 b1 rfl; rw [this]; exact bits_of_8.2.2.2
  obtain ⟨r, r4, r3, r2, r1⟩ := x86_conv_dec_enc pc5 μ b1 b2 b3 b4 hμ h4 h3 h2 h1
  refine ⟨r, r4, ?_, ?_, ?_⟩
  · intro hb
    rcases hμ with h | h | h | h
    · subst h; simp at hb
    · rw [r3 h, h3 h]
    · subst h; rw [bits_of_4.1] at hb; cases hb
    · subst h; rw [bits_of_8.1] at hb; cases hb
  · intro hb
    rcases hμ with h | h | h | h
    · subst h; simp at hb
    · subst h; rw [bits_of_2.2.1] at hb; cases hb
    · rw [r2 h, h2 h]
    · subst h; rw [bits_of_8.2.1] at hb; cases hb
  · intro hb
    rcases hμ with h | h | h | h
    · subst h; simp at hb
    · subst h; rw [bits_of_2.2.2.1] at hb; cases hb
    · subst h; rw [bits_of_4.2.2.1] at hb; cases hb
    · rw [r1 h, h1 h]

/-! ### Theorem A: the encoder keeps what the mask has recorded -/

theorem x86Go_enc_pres : ∀ (n : Nat) (l : List UInt8) (pc : BitVec 32) (st : X86State), l.length ≤ n → NoWrap st pc l →
    MaskOK (x86NewMask st pc) l → Pres (x86NewMask st pc) l (x86Go true pc st l).1 := by
  intro n
  induction n with
  | zero => intro l pc st h _ _; rw [x86Go_short _ _ _ _ (by omega)]; exact pres_refl _ _
  | succ k ih =>
    intro l pc st h hw hm
    match l with
    | [] | [_] | [_, _] | [_, _, _] | [_, _, _, _] => rw [x86Go_short _ _ _ _ (by simp)]; exact pres_refl _ _
    | b0 :: b1 :: b2 :: b3 :: b4 :: rest =>
      have hlen : (b1 :: b2 :: b3 :: b4 :: rest).length ≤ k := by simp only [List.length_cons] at h ⊢; omega
      cases hop : isOpcode b0
      · rw [x86Go_skip _ _ _ _ _ _ _ _ _ hop]
        obtain ⟨hw', hlt⟩ := noWrap_skip hw
        have hμ := newMask_skip st pc hlt
        have hm' : MaskOK (x86NewMask st (pc + 1#32)) (b1 :: b2 :: b3 :: b4 :: rest) := by rw [hμ]; exact maskOK_skip hm
        have hp := ih _ (pc + 1#32) st hlen hw' hm'
        rw [hμ] at hp
        obtain ⟨_, _, s2, s3, _, _, _, _⟩ := shift1_bits (x86NewMask st pc)
        exact pres_cons hp (fun hb => by rw [s2]; exact hb) (fun hb => by rw [s3]; exact hb)
      · cases hc : x86Convertible b4 (x86NewMask st pc)
        · rw [x86Go_noconv _ _ _ _ _ _ _ _ _ hop hc]
          have hμ := newMask_after_noconv (noconvMask (x86NewMask st pc) b4) pc
          have hm' : MaskOK (x86NewMask ⟨noconvMask (x86NewMask st pc) b4, pc⟩ (pc + 1#32)) (b1 :: b2 :: b3 :: b4 :: rest) := by
            rw [hμ]; exact maskOK_noconv hm
          have hp := ih _ (pc + 1#32) ⟨noconvMask (x86NewMask st pc) b4, pc⟩ hlen (noWrap_after1 _ pc (noWrap_len hw)) hm'
          rw [hμ] at hp
          obtain ⟨_, _, s2, s3, _, _, _, _⟩ := shift1_bits (noconvMask (x86NewMask st pc) b4)
          obtain ⟨_, _, _, _, o5, o6, o7, o8, _, _, _, _⟩ := or_bits (x86NewMask st pc)
          refine pres_cons hp ?_ ?_
          · intro hb; rw [s2]; unfold noconvMask; split
            · rw [o6]; exact hb
            · rw [o5]; exact hb
          · intro hb; rw [s3]; unfold noconvMask; split
            · rw [o8]; exact hb
            · rw [o7]; exact hb
        · rw [x86Go_conv _ _ _ _ _ _ _ _ _ hop hc]
          obtain ⟨_, _, f3, f2, f1⟩ := conv_facts (pc5 := pc + 5#32) hm hc
          have hrest : rest.length ≤ k := by simp only [List.length_cons] at h; omega
          have hp := ih rest (pc + 5#32) ⟨0#32, pc⟩ hrest (noWrap_after5 pc (noWrap_len hw))
            (by rw [newMask_after_conv]; exact maskOK_zero _)
          refine ⟨by simp [hp.len], rfl, ?_, ?_, ?_⟩
          · intro hb; simp [f3 hb]
          · intro hb; simp [f2 hb]
          · intro hb; simp [f1 hb]

theorem exists_cons4 (t : List UInt8) (h : 4 ≤ t.length) : ∃ c1 c2 c3 c4 r, t = c1 :: c2 :: c3 :: c4 :: r := by
  match t, h with
  | c1 :: c2 :: c3 :: c4 :: r, _ => exact ⟨c1, c2, c3, c4, r, rfl⟩

/-! ### Theorem B: round trip with the state carried identically -/

theorem x86Go_roundtrip : ∀ (n : Nat) (l : List UInt8) (pc : BitVec 32) (st : X86State), l.length ≤ n → NoWrap st pc l →
    MaskOK (x86NewMask st pc) l →
    x86Go false pc st (x86Go true pc st l).1 = (l, (x86Go true pc st l).2.1, (x86Go true pc st l).2.2) := by
  intro n
  induction n with
  | zero => intro l pc st h _ _; rw [x86Go_short true pc st l (by omega)]; exact x86Go_short false pc st l (by omega)
  | succ k ih =>
    intro l pc st h hw hm
    match l with
    | [] | [_] | [_, _] | [_, _, _] | [_, _, _, _] =>
      rw [x86Go_short true _ _ _ (by simp)]; exact x86Go_short false _ _ _ (by simp)
    | b0 :: b1 :: b2 :: b3 :: b4 :: rest =>
      have hlen : (b1 :: b2 :: b3 :: b4 :: rest).length ≤ k := by simp only [List.length_cons] at h ⊢; omega
      cases hop : isOpcode b0
      · obtain ⟨hw', hlt⟩ := noWrap_skip hw
        have hμ := newMask_skip st pc hlt
        have hm' : MaskOK (x86NewMask st (pc + 1#32)) (b1 :: b2 :: b3 :: b4 :: rest) := by rw [hμ]; exact maskOK_skip hm
        have hp := x86Go_enc_pres _ _ (pc + 1#32) st (Nat.le_refl _) hw' hm'
        have hr := ih _ (pc + 1#32) st hlen hw' hm'
        rw [x86Go_skip _ _ _ _ _ _ _ _ _ hop]
        obtain ⟨c1, c2, c3, c4, r', hc⟩ := exists_cons4 (x86Go true (pc + 1#32) st (b1 :: b2 :: b3 :: b4 :: rest)).1
          (by rw [hp.len]; simp)
        simp only
        rw [hc] at hr ⊢
        rw [x86Go_skip _ _ _ _ _ _ _ _ _ hop, hr]
      · cases hcv : x86Convertible b4 (x86NewMask st pc)
        · have hμ := newMask_after_noconv (noconvMask (x86NewMask st pc) b4) pc
          have hm' : MaskOK (x86NewMask ⟨noconvMask (x86NewMask st pc) b4, pc⟩ (pc + 1#32)) (b1 :: b2 :: b3 :: b4 :: rest) := by
            rw [hμ]; exact maskOK_noconv hm
          have hw' := noWrap_after1 (noconvMask (x86NewMask st pc) b4) pc (noWrap_len hw)
          have hp := x86Go_enc_pres _ _ (pc + 1#32) ⟨noconvMask (x86NewMask st pc) b4, pc⟩ (Nat.le_refl _) hw' hm'
          have hr := ih _ (pc + 1#32) ⟨noconvMask (x86NewMask st pc) b4, pc⟩ hlen hw' hm'
          rw [x86Go_noconv _ _ _ _ _ _ _ _ _ hop hcv]
          obtain ⟨c1, c2, c3, c4, r', hc⟩ := exists_cons4
            (x86Go true (pc + 1#32) ⟨noconvMask (x86NewMask st pc) b4, pc⟩ (b1 :: b2 :: b3 :: b4 :: rest)).1 (by rw [hp.len]; simp)
          -- the decoder sees the same 00/FF-ness of byte 4
          have hbit1 : (x86NewMask ⟨noconvMask (x86NewMask st pc) b4, pc⟩ (pc + 1#32)).getLsbD 1 = true := by
            rw [hμ, (shift1_bits _).2.1]
            unfold noconvMask; split
            · exact (or_bits _).2.1
            · exact (or_bits _).1
          have ht : test86 c4 = test86 b4 := by
            have := hp.p1 hbit1
            rw [hc] at this
            simpa using this
          simp only
          rw [hc] at hr ⊢
          have hcv' : x86Convertible c4 (x86NewMask st pc) = false := by rw [convertible_congr ht]; exact hcv
          rw [x86Go_noconv _ _ _ _ _ _ _ _ _ hop hcv', noconvMask_congr ht, hr]
        · obtain ⟨f, f4, _, _, _⟩ := conv_facts (pc5 := pc + 5#32) hm hcv
          have hrest : rest.length ≤ k := by simp only [List.length_cons] at h; omega
          have hr := ih rest (pc + 5#32) ⟨0#32, pc⟩ hrest (noWrap_after5 pc (noWrap_len hw))
            (by rw [newMask_after_conv]; exact maskOK_zero _)
          rw [x86Go_conv _ _ _ _ _ _ _ _ _ hop hcv]
          simp only
          have hcv' : x86Convertible (x86Conv true (pc + 5#32) (x86NewMask st pc) b1 b2 b3 b4).2.2.2 (x86NewMask st pc) = true := by
            rw [convertible_iff] at hcv ⊢; exact ⟨f4, hcv.2⟩
          rw [x86Go_conv _ _ _ _ _ _ _ _ _ hop hcv', f, hr]

/-! ### chunk stability of the main loop (state and position carried) -/

/-- the right-hand side of the chunk law -/
def x86Chunked (e : Bool) (pc : BitVec 32) (st : X86State) (a b : List UInt8) : List UInt8 × Nat × X86State :=
  let r1 := x86Go e pc st a
  let r2 := x86Go e (pc + BitVec.ofNat 32 r1.2.1) r1.2.2 (r1.1.drop r1.2.1 ++ b)
  (r1.1.take r1.2.1 ++ r2.1, r1.2.1 + r2.2.1, r2.2.2)

theorem x86Chunked_short (e : Bool) (pc : BitVec 32) (st : X86State) (a b : List UInt8) (h : a.length < 5) :
    x86Chunked e pc st a b = x86Go e pc st (a ++ b) := by
  unfold x86Chunked
  rw [x86Go_short e pc st a h]
  simp

theorem x86Chunked_step (e : Bool) (pc : BitVec 32) (st st' : X86State) (k : Nat) (pre a' a b : List UInt8)
    (h : x86Go e pc st a = (pre ++ (x86Go e (pc + BitVec.ofNat 32 k) st' a').1, (x86Go e (pc + BitVec.ofNat 32 k) st' a').2.1 + k,
      (x86Go e (pc + BitVec.ofNat 32 k) st' a').2.2)) (hk : pre.length = k) :
    x86Chunked e pc st a b =
      (pre ++ (x86Chunked e (pc + BitVec.ofNat 32 k) st' a' b).1, (x86Chunked e (pc + BitVec.ofNat 32 k) st' a' b).2.1 + k,
       (x86Chunked e (pc + BitVec.ofNat 32 k) st' a' b).2.2) := by
  unfold x86Chunked
  rw [h]
  simp only
  have e1 : pc + BitVec.ofNat 32 ((x86Go e (pc + BitVec.ofNat 32 k) st' a').2.1 + k)
      = pc + BitVec.ofNat 32 k + BitVec.ofNat 32 (x86Go e (pc + BitVec.ofNat 32 k) st' a').2.1 := by
    rw [BitVec.ofNat_add, BitVec.add_assoc, BitVec.add_comm (BitVec.ofNat 32 _)]
  rw [e1]
  have t1 : ∀ (m : Nat) (r : List UInt8), (pre ++ r).take (m + k) = pre ++ r.take m := by
    intro m r; rw [List.take_append, hk]; simp [List.take_of_length_le (by omega : pre.length ≤ m + k)]
  have d1 : ∀ (m : Nat) (r : List UInt8), (pre ++ r).drop (m + k) = r.drop m := by
    intro m r; rw [List.drop_append, hk]; simp [List.drop_of_length_le (by omega : pre.length ≤ m + k)]
  rw [t1, d1, List.append_assoc]
  congr 1
  congr 1
  omega

theorem x86Go_chunk (e : Bool) : ∀ (n : Nat) (a b : List UInt8) (pc : BitVec 32) (st : X86State), a.length ≤ n →
    x86Go e pc st (a ++ b) = x86Chunked e pc st a b := by
  intro n
  induction n with
  | zero => intro a b pc st h; exact (x86Chunked_short e pc st a b (by omega)).symm
  | succ k ih =>
    intro a b pc st h
    match a with
    | [] | [_] | [_, _] | [_, _, _] | [_, _, _, _] => exact (x86Chunked_short e pc st _ b (by simp)).symm
    | b0 :: b1 :: b2 :: b3 :: b4 :: rest =>
      have hlen : (b1 :: b2 :: b3 :: b4 :: rest).length ≤ k := by simp only [List.length_cons] at h ⊢; omega
      have hrest : rest.length ≤ k := by simp only [List.length_cons] at h; omega
      simp only [List.cons_append]
      cases hop : isOpcode b0
      · rw [x86Chunked_step e pc st st 1 [b0] (b1 :: b2 :: b3 :: b4 :: rest) _ b (x86Go_skip _ _ _ _ _ _ _ _ _ hop) rfl,
          x86Go_skip _ _ _ _ _ _ _ _ _ hop, ← ih _ b _ _ hlen]
        rfl
      · cases hc : x86Convertible b4 (x86NewMask st pc)
        · rw [x86Chunked_step e pc st ⟨noconvMask (x86NewMask st pc) b4, pc⟩ 1 [b0] (b1 :: b2 :: b3 :: b4 :: rest) _ b
              (x86Go_noconv _ _ _ _ _ _ _ _ _ hop hc) rfl,
            x86Go_noconv _ _ _ _ _ _ _ _ _ hop hc, ← ih _ b _ _ hlen]
          rfl
        · rw [x86Chunked_step e pc st ⟨0#32, pc⟩ 5 (b0 :: (x86Conv e (pc + 5#32) (x86NewMask st pc) b1 b2 b3 b4).1
                :: (x86Conv e (pc + 5#32) (x86NewMask st pc) b1 b2 b3 b4).2.1 :: (x86Conv e (pc + 5#32) (x86NewMask st pc) b1 b2 b3 b4).2.2.1
                :: [(x86Conv e (pc + 5#32) (x86NewMask st pc) b1 b2 b3 b4).2.2.2]) rest _ b
              (x86Go_conv _ _ _ _ _ _ _ _ _ hop hc) rfl,
            x86Go_conv _ _ _ _ _ _ _ _ _ hop hc, ← ih _ b _ _ hrest]
          rfl

/-! ### the state only matters through the virtual mask; the re-clamp of `prev_pos` at the start of a call is harmless -/

/-- two states give the same virtual mask at the next `n + 1` positions -/
def MaskEq (st st' : X86State) (pc : BitVec 32) (n : Nat) : Prop :=
  ∀ j, j ≤ n → x86NewMask st (pc + BitVec.ofNat 32 j) = x86NewMask st' (pc + BitVec.ofNat 32 j)

theorem maskEq_succ {st st' : X86State} {pc : BitVec 32} {n : Nat} (h : MaskEq st st' pc (n + 1)) : MaskEq st st' (pc + 1#32) n := by
  intro j hj
  have := h (j + 1) (by omega)
  have e : pc + BitVec.ofNat 32 (j + 1) = pc + 1#32 + BitVec.ofNat 32 j := by
    rw [BitVec.ofNat_add, BitVec.add_assoc, BitVec.add_comm (BitVec.ofNat 32 j)]
  rw [e] at this
  exact this

theorem maskEq_head {st st' : X86State} {pc : BitVec 32} {n : Nat} (h : MaskEq st st' pc n) : x86NewMask st pc = x86NewMask st' pc := by
  have := h 0 (Nat.zero_le _)
  simpa using this

/-- bytes and processed count do not depend on the state beyond the virtual mask -/
theorem x86Go_maskEq (e : Bool) : ∀ (n : Nat) (l : List UInt8) (pc : BitVec 32) (st st' : X86State), l.length ≤ n →
    MaskEq st st' pc l.length →
    (x86Go e pc st l).1 = (x86Go e pc st' l).1 ∧ (x86Go e pc st l).2.1 = (x86Go e pc st' l).2.1 := by
  intro n
  induction n with
  | zero => intro l pc st st' h _; rw [x86Go_short e pc st l (by omega), x86Go_short e pc st' l (by omega)]; exact ⟨rfl, rfl⟩
  | succ k ih =>
    intro l pc st st' h hm
    match l with
    | [] | [_] | [_, _] | [_, _, _] | [_, _, _, _] =>
      rw [x86Go_short e pc st _ (by simp), x86Go_short e pc st' _ (by simp)]; exact ⟨rfl, rfl⟩
    | b0 :: b1 :: b2 :: b3 :: b4 :: rest =>
      have hlen : (b1 :: b2 :: b3 :: b4 :: rest).length ≤ k := by simp only [List.length_cons] at h ⊢; omega
      have hμ := maskEq_head hm
      cases hop : isOpcode b0
      · have hm' : MaskEq st st' (pc + 1#32) (b1 :: b2 :: b3 :: b4 :: rest).length := maskEq_succ (by simpa using hm)
        obtain ⟨i1, i2⟩ := ih _ (pc + 1#32) st st' hlen hm'
        rw [x86Go_skip _ _ _ _ _ _ _ _ _ hop, x86Go_skip _ _ _ _ _ _ _ _ _ hop]
        simp only [i1, i2, and_self]
      · cases hc : x86Convertible b4 (x86NewMask st pc)
        · have hc' : x86Convertible b4 (x86NewMask st' pc) = false := by rw [← hμ]; exact hc
          rw [x86Go_noconv _ _ _ _ _ _ _ _ _ hop hc, x86Go_noconv _ _ _ _ _ _ _ _ _ hop hc', hμ]
          exact ⟨rfl, rfl⟩
        · have hc' : x86Convertible b4 (x86NewMask st' pc) = true := by rw [← hμ]; exact hc
          rw [x86Go_conv _ _ _ _ _ _ _ _ _ hop hc, x86Go_conv _ _ _ _ _ _ _ _ _ hop hc', hμ]
          exact ⟨rfl, rfl⟩

/-- `if (now_pos - prev_pos > 5) prev_pos = now_pos - 5;` does not change any later virtual mask -/
theorem maskEq_clamp (m pp pc : BitVec 32) (n : Nat) (hw : (pc - pp).toNat + n < 2 ^ 32) :
    MaskEq ⟨m, pp⟩ ⟨m, if pc - pp > 5#32 then pc - 5#32 else pp⟩ pc n := by
  by_cases hgt : pc - pp > 5#32
  · rw [if_pos hgt]
    intro j hj
    have hd : 5 < (pc - pp).toNat := by
      rw [gt_iff_lt, BitVec.lt_def] at hgt; simpa using hgt
    have hjlt : j < 2 ^ 32 := by omega
    have ej : (BitVec.ofNat 32 j).toNat = j := by rw [BitVec.toNat_ofNat]; exact Nat.mod_eq_of_lt hjlt
    -- left: offset = (pc - pp) + j > 5
    have e1 : pc + BitVec.ofNat 32 j - pp = (pc - pp) + BitVec.ofNat 32 j := add_sub_comm pc (BitVec.ofNat 32 j) pp
    have l1 : x86NewMask ⟨m, pp⟩ (pc + BitVec.ofNat 32 j) = 0#32 := by
      show (if pc + BitVec.ofNat 32 j - pp > 5#32 then 0#32 else maskShift (pc + BitVec.ofNat 32 j - pp).toNat m) = 0#32
      rw [e1]
      have : (pc - pp) + BitVec.ofNat 32 j > 5#32 := by
        rw [gt_iff_lt, BitVec.lt_def, BitVec.toNat_add, ej]
        simp only [BitVec.toNat_ofNat]
        rw [Nat.mod_eq_of_lt (by omega)]
        omega
      rw [if_pos this]
    -- right: offset = 5 + j
    have e2 : pc + BitVec.ofNat 32 j - (pc - 5#32) = 5#32 + BitVec.ofNat 32 j := add_sub_sub5 pc (BitVec.ofNat 32 j)
    have l2 : x86NewMask ⟨m, pc - 5#32⟩ (pc + BitVec.ofNat 32 j) = 0#32 := by
      show (if pc + BitVec.ofNat 32 j - (pc - 5#32) > 5#32 then 0#32 else maskShift (pc + BitVec.ofNat 32 j - (pc - 5#32)).toNat m) = 0#32
      rw [e2]
      have hn : (5#32 + BitVec.ofNat 32 j).toNat = 5 + j := by
        rw [BitVec.toNat_add, ej]; simp only [BitVec.toNat_ofNat]; rw [Nat.mod_eq_of_lt (by omega)]
      split
      · rfl
      · rw [hn]; exact maskShift_ge4 _ _ (by omega)
    rw [l1, l2]
  · rw [if_neg hgt]
    intro j _
    rfl

/-- where the last candidate is, relative to the position at which the loop stops -/
theorem x86Go_state_bound (e : Bool) : ∀ (n : Nat) (l : List UInt8) (pc : BitVec 32) (st : X86State), l.length ≤ n → NoWrap st pc l →
    (x86Go e pc st l).2.1 ≤ l.length ∧
    ((pc + BitVec.ofNat 32 (x86Go e pc st l).2.1) - (x86Go e pc st l).2.2.prevPos).toNat ≤ (pc - st.prevPos).toNat + (x86Go e pc st l).2.1 := by
  intro n
  induction n with
  | zero =>
    intro l pc st h _
    rw [x86Go_short e pc st l (by omega)]
    simp
  | succ k ih =>
    intro l pc st h hw
    match l with
    | [] | [_] | [_, _] | [_, _, _] | [_, _, _, _] => rw [x86Go_short e pc st _ (by simp)]; simp
    | b0 :: b1 :: b2 :: b3 :: b4 :: rest =>
      have hlen : (b1 :: b2 :: b3 :: b4 :: rest).length ≤ k := by simp only [List.length_cons] at h ⊢; omega
      have hrest : rest.length ≤ k := by simp only [List.length_cons] at h; omega
      have e1 : ∀ m : Nat, pc + BitVec.ofNat 32 (m + 1) = pc + 1#32 + BitVec.ofNat 32 m := by
        intro m; rw [BitVec.ofNat_add, BitVec.add_assoc, BitVec.add_comm (BitVec.ofNat 32 m)]
      have e5 : ∀ m : Nat, pc + BitVec.ofNat 32 (m + 5) = pc + 5#32 + BitVec.ofNat 32 m := by
        intro m; rw [BitVec.ofNat_add, BitVec.add_assoc, BitVec.add_comm (BitVec.ofNat 32 m)]
      have hlen32 := noWrap_len hw
      cases hop : isOpcode b0
      · obtain ⟨hw', hlt⟩ := noWrap_skip hw
        obtain ⟨i1, i2⟩ := ih _ (pc + 1#32) st hlen hw'
        rw [x86Go_skip _ _ _ _ _ _ _ _ _ hop]
        simp only [List.length_cons] at i1 ⊢
        refine ⟨by omega, ?_⟩
        rw [e1]
        have : (pc + 1#32 - st.prevPos).toNat = (pc - st.prevPos).toNat + 1 := by
          rw [sub_succ, BitVec.toNat_add]; simp only [BitVec.toNat_ofNat]; omega
        omega
      · cases hc : x86Convertible b4 (x86NewMask st pc)
        · obtain ⟨i1, i2⟩ := ih _ (pc + 1#32) ⟨noconvMask (x86NewMask st pc) b4, pc⟩ hlen (noWrap_after1 _ pc hlen32)
          rw [x86Go_noconv _ _ _ _ _ _ _ _ _ hop hc]
          simp only [List.length_cons] at i1 ⊢
          refine ⟨by omega, ?_⟩
          rw [e1]
          simp only [add1_sub] at i2
          have : (1#32).toNat = 1 := rfl
          omega
        · obtain ⟨i1, i2⟩ := ih _ (pc + 5#32) ⟨0#32, pc⟩ hrest (noWrap_after5 pc hlen32)
          rw [x86Go_conv _ _ _ _ _ _ _ _ _ hop hc]
          simp only [List.length_cons] at i1 ⊢
          refine ⟨by omega, ?_⟩
          rw [e5]
          simp only [add5_sub] at i2
          have : (5#32).toNat = 5 := rfl
          omega

theorem x86Go_length (e : Bool) : ∀ (n : Nat) (l : List UInt8) (pc : BitVec 32) (st : X86State), l.length ≤ n →
    (x86Go e pc st l).1.length = l.length := by
  intro n
  induction n with
  | zero => intro l pc st h; rw [x86Go_short e pc st l (by omega)]
  | succ k ih =>
    intro l pc st h
    match l with
    | [] | [_] | [_, _] | [_, _, _] | [_, _, _, _] => rw [x86Go_short e pc st _ (by simp)]
    | b0 :: b1 :: b2 :: b3 :: b4 :: rest =>
      have hlen : (b1 :: b2 :: b3 :: b4 :: rest).length ≤ k := by simp only [List.length_cons] at h ⊢; omega
      have hrest : rest.length ≤ k := by simp only [List.length_cons] at h; omega
      cases hop : isOpcode b0
      · rw [x86Go_skip _ _ _ _ _ _ _ _ _ hop]; simp only [List.length_cons, ih _ _ _ hlen]
      · cases hc : x86Convertible b4 (x86NewMask st pc)
        · rw [x86Go_noconv _ _ _ _ _ _ _ _ _ hop hc]; simp only [List.length_cons, ih _ _ _ hlen]
        · rw [x86Go_conv _ _ _ _ _ _ _ _ _ hop hc]; simp only [List.length_cons, ih _ _ _ hrest]

/-- the clamp applied at the start of `x86_code` -/
def x86Clamp (st : X86State) (nowPos : BitVec 32) : X86State :=
  ⟨st.prevMask, if nowPos - st.prevPos > 5#32 then nowPos - 5#32 else st.prevPos⟩

theorem x86Code_short (e : Bool) (st : X86State) (off : BitVec 32) (l : List UInt8) (h : l.length < 5) : x86Code e st off l = (l, 0, st) := by
  unfold x86Code; rw [if_pos h]

theorem x86Code_long (e : Bool) (st : X86State) (off : BitVec 32) (l : List UInt8) (h : ¬ l.length < 5) :
    x86Code e st off l = x86Go e off (x86Clamp st off) l := by
  unfold x86Code; rw [if_neg h]; rfl

theorem clamp_dist (st : X86State) (off : BitVec 32) : (off - (x86Clamp st off).prevPos).toNat ≤ 5 := by
  unfold x86Clamp
  by_cases hgt : off - st.prevPos > 5#32
  · simp only [if_pos hgt, sub_sub5]; decide
  · simp only [if_neg hgt]
    rw [gt_iff_lt, BitVec.lt_def] at hgt
    simp only [BitVec.toNat_ofNat] at hgt
    omega

/-- **Chunk stability of `x86_code`** (bytes and processed counts): a call on `a ++ b` equals a call on `a` followed by a call, with the
    returned state and at `now_pos + processed`, on the unprocessed tail followed by `b`. -/
theorem x86Code_chunk (e : Bool) (st : X86State) (off : BitVec 32) (a b : List UInt8) (hlen : (a ++ b).length + 5 < 2 ^ 32) :
    (x86Code e st off (a ++ b)).1 =
        (x86Code e st off a).1.take (x86Code e st off a).2.1
          ++ (x86Code e (x86Code e st off a).2.2 (off + BitVec.ofNat 32 (x86Code e st off a).2.1)
                ((x86Code e st off a).1.drop (x86Code e st off a).2.1 ++ b)).1
    ∧ (x86Code e st off (a ++ b)).2.1 =
        (x86Code e st off a).2.1
          + (x86Code e (x86Code e st off a).2.2 (off + BitVec.ofNat 32 (x86Code e st off a).2.1)
                ((x86Code e st off a).1.drop (x86Code e st off a).2.1 ++ b)).2.1 := by
  simp only [List.length_append] at hlen
  by_cases h5 : a.length < 5
  · rw [x86Code_short e st off a h5]
    simp
  · have hab : ¬ (a ++ b).length < 5 := by simp only [List.length_append]; omega
    rw [x86Code_long e st off a h5, x86Code_long e st off (a ++ b) hab, x86Go_chunk e a.length a b off _ (Nat.le_refl _)]
    unfold x86Chunked
    simp only
    -- abbreviations for the first pass
    have hw0 : NoWrap (x86Clamp st off) off a := by
      unfold NoWrap; have := clamp_dist st off; omega
    obtain ⟨hn1, hbound⟩ := x86Go_state_bound e _ a off (x86Clamp st off) (Nat.le_refl _) hw0
    have hl1 := x86Go_length e _ a off (x86Clamp st off) (Nat.le_refl _)
    generalize hR : x86Go e off (x86Clamp st off) a = R at hn1 hbound hl1 ⊢
    obtain ⟨o1, n1, st1⟩ := R
    simp only at hn1 hbound hl1 ⊢
    have htl : (o1.drop n1 ++ b).length = a.length - n1 + b.length := by
      rw [List.length_append, List.length_drop, hl1]
    by_cases h5' : (o1.drop n1 ++ b).length < 5
    · rw [x86Code_short e st1 _ _ h5', x86Go_short e _ st1 _ h5']
      exact ⟨rfl, rfl⟩
    · rw [x86Code_long e st1 _ _ h5']
      have hd := clamp_dist st off
      have hw : ((off + BitVec.ofNat 32 n1) - st1.prevPos).toNat + (o1.drop n1 ++ b).length < 2 ^ 32 := by
        rw [htl]; omega
      have hme := maskEq_clamp st1.prevMask st1.prevPos (off + BitVec.ofNat 32 n1) (o1.drop n1 ++ b).length hw
      obtain ⟨g1, g2⟩ := x86Go_maskEq e _ (o1.drop n1 ++ b) (off + BitVec.ofNat 32 n1) ⟨st1.prevMask, st1.prevPos⟩
        (x86Clamp st1 (off + BitVec.ofNat 32 n1)) (Nat.le_refl _) hme
      exact ⟨by rw [← g1], by rw [← g2]⟩

end XzVerif.Bcj
