/-
  C13 helper lemmas: the sequentially filled tree of index.c (in-order sequence under insert/rotate/append,
  rightmost access, positional access, the count-driven balance checked for all counts up to a bound).
-/
import XzVerif.Model.IndexImpl

namespace XzVerif.Index

namespace Spec
theorem modifyLast_append_singleton {α : Type} (f : α → α) : ∀ (l : List α) (x : α), modifyLast f (l ++ [x]) = l ++ [f x]
  | [], x => rfl
  | [a], x => by simp [modifyLast]
  | a :: b :: r, x => by
    have := modifyLast_append_singleton f (b :: r) x
    simp only [List.cons_append] at this ⊢
    simp [modifyLast, this]

theorem modifyLast_nil {α : Type} (f : α → α) : modifyLast f ([] : List α) = [] := rfl

theorem modifyLast_length {α : Type} (f : α → α) : ∀ (l : List α), (modifyLast f l).length = l.length
  | [] => rfl
  | [a] => rfl
  | a :: b :: r => by simp [modifyLast, modifyLast_length f (b :: r)]
end Spec

theorem exists_snoc {α : Type} {R : List α} (h : R ≠ []) : ∃ init z, R = init ++ [z] :=
  ⟨R.dropLast, R.getLast h, (List.dropLast_concat_getLast h).symm⟩

theorem getLast?_append_cons_ne {α : Type} (L : List α) (v : α) {R : List α} (h : R ≠ []) :
    (L ++ v :: R).getLast? = R.getLast? := by
  obtain ⟨init, z, rfl⟩ := exists_snoc h
  have : L ++ v :: (init ++ [z]) = (L ++ v :: init) ++ [z] := by simp
  rw [this, List.getLast?_concat, List.getLast?_concat]

namespace Tree
variable {α : Type}

theorem toList_insertRight (x : α) : ∀ t : Tree α, (t.insertRight x).toList = t.toList ++ [x]
  | nil => rfl
  | node l v r => by simp [insertRight, toList, toList_insertRight x r]

theorem toList_rotLeft : ∀ t : Tree α, t.rotLeft.toList = t.toList
  | nil => rfl
  | node _ _ nil => rfl
  | node a x (node b y c) => by simp [rotLeft, toList]

theorem toList_rotLeftAt : ∀ (k : Nat) (t : Tree α), (t.rotLeftAt k).toList = t.toList
  | 0, t => by simp [rotLeftAt, toList_rotLeft]
  | _ + 1, nil => rfl
  | k + 1, node l v r => by simp [rotLeftAt, toList, toList_rotLeftAt k r]

theorem size_eq_length : ∀ t : Tree α, t.size = t.toList.length
  | nil => rfl
  | node l v r => by simp [size, toList, size_eq_length l, size_eq_length r]; omega

theorem rightmost?_eq_getLast? : ∀ t : Tree α, t.rightmost? = t.toList.getLast?
  | nil => rfl
  | node l v nil => by simp [rightmost?, toList]
  | node l v (node a b c) => by
    have := rightmost?_eq_getLast? (node a b c)
    simp only [rightmost?, toList] at this ⊢
    rw [this, getLast?_append_cons_ne l.toList v (by simp)]

theorem toList_modifyRightmost (f : α → α) : ∀ t : Tree α, (t.modifyRightmost f).toList = Spec.modifyLast f t.toList
  | nil => rfl
  | node l v nil => by
    simp only [modifyRightmost, toList]
    have := Spec.modifyLast_append_singleton f l.toList v
    simpa using this.symm
  | node l v (node a b c) => by
    have ih := toList_modifyRightmost f (node a b c)
    simp only [modifyRightmost, toList] at ih ⊢
    rw [ih]
    -- modifyLast distributes to the non-empty tail
    generalize hR : a.toList ++ b :: c.toList = R at *
    have hne : R ≠ [] := by rw [← hR]; simp
    obtain ⟨init, z, rfl⟩ := exists_snoc hne
    rw [Spec.modifyLast_append_singleton]
    have : l.toList ++ v :: (init ++ [z]) = (l.toList ++ v :: init) ++ [z] := by simp
    rw [this, Spec.modifyLast_append_singleton]; simp

theorem modifyRightmost_id_of (f : α → α) : ∀ t : Tree α, (∀ v, t.rightmost? = some v → f v = v) → t.modifyRightmost f = t
  | nil, _ => rfl
  | node l v nil, h => by simp [modifyRightmost, h v (by simp [rightmost?])]
  | node l v (node a b c), h => by
    simp only [modifyRightmost]
    rw [modifyRightmost_id_of f (node a b c) (by intro w hw; exact h w (by simpa [rightmost?] using hw))]

theorem modifyRightmost_node_ne_nil (g : α → α) (l : Tree α) (v : α) (r : Tree α) :
    (node l v r).modifyRightmost g ≠ nil := by
  cases r <;> simp [modifyRightmost]

theorem modifyRightmost_comp (f g : α → α) : ∀ t : Tree α,
    (t.modifyRightmost g).modifyRightmost f = t.modifyRightmost (f ∘ g)
  | nil => rfl
  | node l v nil => rfl
  | node l v (node a b c) => by
    have ih := modifyRightmost_comp f g (node a b c)
    have e1 : ∀ h : α → α, (node l v (node a b c)).modifyRightmost h = node l v ((node a b c).modifyRightmost h) :=
      fun _ => rfl
    rw [e1, e1, ← ih]
    -- the right subtree stays a `node`
    cases hm : (node a b c).modifyRightmost g with
    | nil => exact absurd hm (modifyRightmost_node_ne_nil g a b c)
    | node a' b' c' => rfl

theorem get?_eq_getElem? : ∀ (t : Tree α) (k : Nat), t.get? k = t.toList[k]?
  | nil, k => by simp [get?, toList]
  | node l v r, k => by
    simp only [get?, toList]
    rw [size_eq_length]
    by_cases h1 : k < l.toList.length
    · simp [h1, get?_eq_getElem? l k, List.getElem?_append_left h1]
    · by_cases h2 : k = l.toList.length
      · subst h2; simp
      · simp only [h1, h2, if_false]
        rw [get?_eq_getElem? r, List.getElem?_append_right (by omega), List.getElem?_cons]
        have : ¬ k - l.toList.length = 0 := by omega
        simp [this]

theorem isNil_iff_toList : ∀ t : Tree α, t.isNil = t.toList.isEmpty
  | nil => rfl
  | node l v r => by simp [isNil, toList]

end Tree

namespace CTree
variable {α : Type}

/-- `index_tree_append` keeps the in-order sequence: the new node is last (whatever rotation is chosen) -/
theorem toList_append (t : CTree α) (x : α) : (t.append x).toList = t.toList ++ [x] := by
  unfold append toList
  cases h : t.root with
  | nil => simp [Tree.toList]
  | node l v r =>
    simp only
    split
    · simp [Tree.toList_rotLeftAt, Tree.toList_insertRight]
    · simp [Tree.toList_insertRight]

theorem count_append (t : CTree α) (x : α) : (t.append x).count = t.count + 1 := by
  unfold append
  cases h : t.root with
  | nil => rfl
  | node l v r => simp only; split <;> rfl

theorem toList_empty : (CTree.empty : CTree α).toList = [] := rfl

end CTree

/-! ### Balance: checked by evaluation for every node count up to a bound -/

/-- `n` further appends to `t`; after each one the height must be at most ⌊log₂ count⌋ + 1 and the node count right.
    (The test is evaluated before the recursive call, which keeps kernel evaluation iterative.) -/
def balancedGo : Nat → CTree Unit → Bool
  | 0, _ => true
  | n + 1, t =>
    let t' := t.append ()
    if t'.root.size = t'.count ∧ t'.root.height ≤ Nat.log2 t'.count + 1 then balancedGo n t' else false

def balancedUpTo (n : Nat) : Bool := balancedGo n CTree.empty

/-- the tree after `n` calls of `index_tree_append` -/
def buildTree : Nat → CTree Unit
  | 0 => CTree.empty
  | n + 1 => (buildTree n).append ()

def rootLeftSize {α : Type} : Tree α → Nat
  | .nil => 0
  | .node l _ _ => l.size

/-- (n, height, size of the root's left subtree) — the shape facts the probe tabulates from the real code -/
def treeShape (n : Nat) : Nat × Nat × Nat :=
  let t := buildTree n
  (n, t.root.height, rootLeftSize t.root)

end XzVerif.Index
