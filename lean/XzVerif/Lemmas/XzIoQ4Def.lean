/-
  C17 invariant Q4 (never overwrite): without --force a target that existed before xz started is never unlinked,
  and (when no other process renames it) it stays under its name and no target is created.
-/
import XzVerif.Lemmas.XzIoFrame

namespace XzVerif.XzIo
variable {α : Type}
set_option linter.unusedSimpArgs false

structure Q4 (c : Cfg α) (de : Bool) (s : St α) : Prop where
  pre : s.fs.preLinked = true
  srcN : s.fs.srcName ≠ some inoPre
  noForce : s.pc ≠ .unlinkForce
  atUnlink : s.pc = .unlinkDest → s.fs.dstName ≠ some inoPre
  stIno : s.destStIno ≠ inoPre
  still : c.moveAt = none → de = true → s.fs.dstName = some inoPre ∧ s.fs.ownLinked = false

theorem q4_preActions {c : Cfg α} {de : Bool} {s : St α} (h : Q4 c de s) : Q4 c de (preActions c s) := by
  obtain ⟨h1, h2, h3, h4, h5, h6⟩ := h
  unfold preActions FS.replace
  simp only
  refine ⟨?_, ?_, ?_, ?_, ?_, ?_⟩
  all_goals (repeat' split)
  all_goals simp_all [inoForeign, inoPre]

theorem q4_same {c : Cfg α} {de : Bool} {s s' : St α} (h : Q4 c de s) (hfs : s'.fs = s.fs)
    (hd : s'.destStIno = s.destStIno) (h1 : s'.pc ≠ .unlinkForce) (h2 : s'.pc ≠ .unlinkDest) : Q4 c de s' := by
  refine ⟨?_, ?_, h1, fun e => absurd e h2, ?_, ?_⟩
  · rw [hfs]; exact h.pre
  · rw [hfs]; exact h.srcN
  · rw [hd]; exact h.stIno
  · rw [hfs]; exact h.still

theorem unlinkDstName_srcName (fs : FS α) : fs.unlinkDstName.srcName = fs.srcName := by
  unfold FS.unlinkDstName; split <;> simp

theorem unlinkSrcName_srcName (fs : FS α) : fs.unlinkSrcName.srcName = none ∨ fs.unlinkSrcName.srcName = fs.srcName := by
  unfold FS.unlinkSrcName; split <;> simp

end XzVerif.XzIo
