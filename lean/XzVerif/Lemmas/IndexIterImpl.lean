/-
  C13 helper lemmas: one `lzma_index_iter_next` of the concrete model (tree positions, groups, Records, the
  ITER_METHOD_* indirection) simulates one `next` of the specification iterator on the abstraction.
-/
import XzVerif.Lemmas.IndexLocateImpl
import XzVerif.Lemmas.IndexIterSpec2

namespace XzVerif.Index
namespace Impl

/-! ### positions -/

/-- number of Records in the groups of Stream `si` before group `gi` -/
def nBefore (i : Index) (si gi : Nat) : Nat :=
  match i.streams.toList[si]? with
  | none => 0
  | some s => (recsBefore s.groups.toList gi).length

theorem nBefore_eq {i : Index} {si : Nat} {s : Stream} (hs : i.streams.toList[si]? = some s) (gi : Nat) :
    nBefore i si gi = (recsBefore s.groups.toList gi).length := by
  unfold nBefore; rw [hs]

theorem nBefore_zero (i : Index) (si : Nat) : nBefore i si 0 = 0 := by
  unfold nBefore; cases i.streams.toList[si]? <;> simp [recsBefore]

/-- the specification position of (Stream, group, Record) -/
def specOf (i : Index) (c : Nat × Option Nat × Nat) : Spec.Pos :=
  (c.1, c.2.1.map fun gi => nBefore i c.1 gi + c.2.2)

def toSpecPos (i : Index) (stream? group? : Option Nat) (rec : Nat) : Option Spec.Pos :=
  stream?.map fun si => specOf i (si, group?, rec)

/-- (Stream, group, Record) names an existing Record, or a Stream without groups (then with Record number 0) -/
def PosOk (i : Index) (stream? group? : Option Nat) (rec : Nat) : Prop :=
  match stream? with
  | none => True
  | some si => ∃ s, i.streams.toList[si]? = some s ∧
      match group? with
      | none => s.groups.root.toList = [] ∧ rec = 0
      | some gi => ∃ g, s.groups.toList[gi]? = some g ∧ rec < g.records.size

/-- what `nextLoop` may be started with in `mode` (STREAM mode passes no group) -/
def CondC (i : Index) (mode : Nat) (stream? group? : Option Nat) (rec : Nat) : Prop :=
  match stream? with
  | none => True
  | some si => ∃ s, i.streams.toList[si]? = some s ∧
      match group? with
      | none => mode = 1 ∨ s.groups.root.toList = []
      | some gi => mode ≠ 1 ∧ ∃ g, s.groups.toList[gi]? = some g ∧ rec < g.records.size

theorem condC_of_posOk {i : Index} {mode : Nat} (hm : mode ≠ 1) {st gr : Option Nat} {rec : Nat}
    (h : PosOk i st gr rec) : CondC i mode st gr rec := by
  unfold PosOk at h; unfold CondC
  cases st with
  | none => trivial
  | some si =>
    obtain ⟨s, hs, h⟩ := h
    refine ⟨s, hs, ?_⟩
    cases gr with
    | none => exact Or.inr h.1
    | some gi => exact ⟨hm, h⟩

/-! ### Streams -/

theorem streamAt_eq (i : Index) (si : Nat) : streamAt i si = i.streams.toList[si]? := by
  unfold streamAt CTree.toList; exact Tree.get?_eq_getElem? _ _

theorem groupAt_eq (s : Stream) (gi : Nat) : groupAt s gi = s.groups.toList[gi]? := by
  unfold groupAt CTree.toList; exact Tree.get?_eq_getElem? _ _

theorem noGroups_eq {s : Stream} (hs : StreamInv s) : (!hasGroups s) = (absStream s).blocks.isEmpty := by
  unfold hasGroups
  rw [Bool.not_not, Tree.isNil_iff_toList]
  by_cases h : s.groups.root.toList = []
  · rw [h, (blocks_nil_iff hs).mpr h]; rfl
  · have h' : ¬ (absStream s).blocks = [] := fun hb => h ((blocks_nil_iff hs).mp hb)
    cases h1 : s.groups.root.toList with
    | nil => exact absurd h1 h
    | cons _ _ =>
      cases h2 : (absStream s).blocks with
      | nil => exact absurd h2 h'
      | cons _ _ => rfl

theorem hasGroups_iff (s : Stream) : hasGroups s = true ↔ s.groups.root.toList ≠ [] := by
  unfold hasGroups
  rw [Tree.isNil_iff_toList]
  cases s.groups.root.toList <;> simp

theorem nextStreamFrom_sim {i : Index} (hi : Inv i) (mode : Nat) : ∀ (fuel a : Nat),
    Impl.nextStreamFrom i mode fuel a = Spec.nextStreamFrom (abs i) mode fuel a
  | 0, _ => rfl
  | fuel + 1, a => by
    unfold Impl.nextStreamFrom Spec.nextStreamFrom
    rw [streamAt_eq, abs_getElem?]
    cases hs : i.streams.toList[a]? with
    | none => rfl
    | some s =>
      simp only [Option.map_some]
      have hsi : StreamInv s := hi.streams s (List.mem_of_getElem? hs)
      rw [noGroups_eq hsi, nextStreamFrom_sim hi mode fuel (a + 1)]

theorem nextStreamFrom_some (i : Index) (mode : Nat) : ∀ (fuel a sj : Nat),
    Impl.nextStreamFrom i mode fuel a = some sj → ∃ s, i.streams.toList[sj]? = some s
  | 0, _, _, h => by simp [Impl.nextStreamFrom] at h
  | fuel + 1, a, sj, h => by
    unfold Impl.nextStreamFrom at h
    rw [streamAt_eq] at h
    cases hs : i.streams.toList[a]? with
    | none => rw [hs] at h; simp at h
    | some s =>
      rw [hs] at h
      simp only at h
      split at h
      · exact nextStreamFrom_some i mode fuel (a + 1) sj h
      · cases h; exact ⟨s, hs⟩

theorem count_eq_length {i : Index} (hi : Inv i) : i.streams.count = (abs i).length := by
  rw [hi.scount]; unfold abs CTree.toList; simp

/-- "go to the first suitable Stream at or after `a`" -/
theorem toStream_sim {i : Index} (hi : Inv i) (mode a : Nat) :
    ((Impl.nextStreamFrom i mode (i.streams.count + 1) a).map fun sj => specOf i (sj, leftmostGroup i sj, 0))
      = (Spec.nextStreamFrom (abs i) mode ((abs i).length + 1) a).map (Spec.firstPosOf (abs i))
    ∧ ∀ sj, Impl.nextStreamFrom i mode (i.streams.count + 1) a = some sj → PosOk i (some sj) (leftmostGroup i sj) 0 := by
  have key : ∀ sj, Impl.nextStreamFrom i mode (i.streams.count + 1) a = some sj →
      specOf i (sj, leftmostGroup i sj, 0) = Spec.firstPosOf (abs i) sj ∧ PosOk i (some sj) (leftmostGroup i sj) 0 := by
    intro sj h
    obtain ⟨s, hs⟩ := nextStreamFrom_some i mode _ a sj h
    have hsi : StreamInv s := hi.streams s (List.mem_of_getElem? hs)
    have ha : (abs i)[sj]? = some (absStream s) := by rw [abs_getElem?, hs]; rfl
    rw [Spec.firstPosOf_eq ha]
    unfold leftmostGroup specOf PosOk
    rw [streamAt_eq, hs]
    simp only
    by_cases hg : hasGroups s = true
    · have hb : (absStream s).blocks.isEmpty = false := by rw [← noGroups_eq hsi, hg]; rfl
      rw [if_pos hg]
      simp only [hb, Option.map_some, nBefore_zero, Bool.false_eq_true, if_false]
      refine ⟨trivial, s, hs, ?_⟩
      have hne := (hasGroups_iff s).mp hg
      cases hl : s.groups.root.toList with
      | nil => exact absurd hl hne
      | cons g0 r =>
        have h0 : s.groups.toList[0]? = some g0 := by unfold CTree.toList; rw [hl]; simp
        have := hsi.groupsNe g0 (List.mem_of_getElem? h0)
        exact ⟨g0, h0, by omega⟩
    · have hb : (absStream s).blocks.isEmpty = true := by
        rw [← noGroups_eq hsi]; simp at hg; simp [hg]
      rw [if_neg hg]
      simp only [hb, Option.map_none, if_true]
      refine ⟨trivial, s, hs, ?_, trivial⟩
      apply Classical.byContradiction
      intro hne
      exact hg ((hasGroups_iff s).mpr hne)
  rw [count_eq_length hi, ← nextStreamFrom_sim hi]
  rw [count_eq_length hi] at key
  constructor
  · cases h : Impl.nextStreamFrom i mode ((abs i).length + 1) a with
    | none => rfl
    | some sj => simp only [Option.map_some]; rw [(key sj h).1]
  · intro sj h; exact (key sj h).2

/-! ### one step -/

/-- the `step` of `nextLoop` -/
def stepC (i : Index) (mode : Nat) (stream? group? : Option Nat) (record : Nat) : Option (Nat × Option Nat × Nat) :=
  let toStream (from_ : Nat) : Option (Nat × Option Nat × Nat) :=
    (Impl.nextStreamFrom i mode (i.streams.count + 1) from_).map fun sj => (sj, leftmostGroup i sj, 0)
  match stream? with
  | none => toStream 0
  | some si =>
    match group? with
    | none => toStream (si + 1)
    | some gi =>
      match (streamAt i si).bind fun s => (groupAt s gi).map fun g => (s, g) with
      | none => none
      | some (s, g) =>
        if record < g.last then some (si, some gi, record + 1)
        else if gi + 1 < s.groups.count then some (si, some (gi + 1), 0)
        else toStream (si + 1)

theorem nextLoop_succ (i : Index) (mode fuel : Nat) (stream? group? : Option Nat) (record : Nat) :
    nextLoop i mode (fuel + 1) stream? group? record =
      match stepC i mode stream? group? record with
      | none => none
      | some (si, g?, rec) =>
        if mode = 3 ∧ emptyBlockAt i si g? rec then nextLoop i mode fuel (some si) g? rec else some (si, g?, rec) := rfl

theorem allRecs_length_of_last {s : Stream} {gi : Nat} {g : Group} (hg : s.groups.toList[gi]? = some g)
    (hnone : s.groups.toList[gi + 1]? = none) :
    s.allRecs.length = (recsBefore s.groups.toList gi).length + g.records.size := by
  rw [allRecs_split hg]
  have : s.groups.toList.drop (gi + 1) = [] := by
    apply List.drop_eq_nil_of_le
    exact List.getElem?_eq_none_iff.mp hnone
  rw [this]; simp

theorem step_sim {i : Index} (hi : Inv i) {mode : Nat} {st gr : Option Nat} {rec : Nat} (hC : CondC i mode st gr rec) :
    (stepC i mode st gr rec).map (specOf i) = Spec.advance (abs i) mode (toSpecPos i st gr rec)
    ∧ ∀ c, stepC i mode st gr rec = some c → PosOk i (some c.1) c.2.1 c.2.2 := by
  have hts : ∀ a, ((Impl.nextStreamFrom i mode (i.streams.count + 1) a).map fun sj => ((sj, leftmostGroup i sj, 0) : Nat × Option Nat × Nat)).map (specOf i)
      = (Spec.nextStreamFrom (abs i) mode ((abs i).length + 1) a).map (Spec.firstPosOf (abs i)) := by
    intro a; rw [Option.map_map]; exact (toStream_sim hi mode a).1
  have htp : ∀ a c, ((Impl.nextStreamFrom i mode (i.streams.count + 1) a).map fun sj => ((sj, leftmostGroup i sj, 0) : Nat × Option Nat × Nat)) = some c →
      PosOk i (some c.1) c.2.1 c.2.2 := by
    intro a c h
    simp only [Option.map_eq_some_iff] at h
    obtain ⟨sj, hsj, rfl⟩ := h
    exact (toStream_sim hi mode a).2 sj hsj
  cases st with
  | none =>
    unfold stepC toSpecPos Spec.advance
    simp only [Option.map_none]
    exact ⟨hts 0, htp 0⟩
  | some si =>
    obtain ⟨s, hs, hC⟩ := hC
    have hsi : StreamInv s := hi.streams s (List.mem_of_getElem? hs)
    have ha : (abs i)[si]? = some (absStream s) := by rw [abs_getElem?, hs]; rfl
    have hblen : (absStream s).blocks.length = s.allRecs.length := blocksOfRecs_length _ _ _
    cases gr with
    | none =>
      unfold stepC toSpecPos Spec.advance specOf
      simp only [Option.map_some, Option.map_none, ha, Option.getD_none]
      have hcond : ¬ (mode ≠ 1 ∧ 0 + 1 < (absStream s).blocks.length) := by
        rintro ⟨h1, h2⟩
        rcases hC with hC | hC
        · exact h1 hC
        · rw [(blocks_nil_iff hsi).mpr hC] at h2; simp at h2
      rw [if_neg hcond]
      exact ⟨hts (si + 1), htp (si + 1)⟩
    | some gi =>
      obtain ⟨hm1, g, hg, hrec⟩ := hC
      have hlen := recsBefore_add_le hg
      unfold stepC toSpecPos Spec.advance specOf
      simp only [Option.map_some, ha, Option.getD_some, streamAt_eq, hs, Option.bind_some, groupAt_eq, hg, nBefore_eq hs]
      by_cases h1 : rec < g.last
      · rw [if_pos h1]
        have hlast : g.last = g.records.size - 1 := rfl
        have hcond : mode ≠ 1 ∧ (recsBefore s.groups.toList gi).length + rec + 1 < (absStream s).blocks.length :=
          ⟨hm1, by omega⟩
        rw [if_pos hcond]
        refine ⟨?_, ?_⟩
        · simp only [Option.map_some, nBefore_eq hs]; congr 3
        · intro c hc; cases hc; exact ⟨s, hs, g, hg, by show rec + 1 < g.records.size; omega⟩
      · rw [if_neg h1]
        have hlast : g.last = g.records.size - 1 := rfl
        by_cases h2 : gi + 1 < s.groups.count
        · rw [if_pos h2]
          rw [hsi.gcount] at h2
          have hg' : s.groups.toList[gi + 1]? = some s.groups.toList[gi + 1] := List.getElem?_eq_getElem h2
          generalize s.groups.toList[gi + 1] = g' at hg'
          have hpos' : 0 < g'.records.size := by
            have := hsi.groupsNe g' (List.mem_of_getElem? hg'); omega
          have hsucc : (recsBefore s.groups.toList (gi + 1)).length = (recsBefore s.groups.toList gi).length + g.records.size := by
            rw [recsBefore_succ hg]; simp
          have hlen' := recsBefore_add_le hg'
          have hcond : mode ≠ 1 ∧ (recsBefore s.groups.toList gi).length + rec + 1 < (absStream s).blocks.length :=
            ⟨hm1, by omega⟩
          rw [if_pos hcond]
          refine ⟨?_, ?_⟩
          · simp only [Option.map_some, nBefore_eq hs]; congr 3; omega
          · intro c hc; cases hc; exact ⟨s, hs, g', hg', hpos'⟩
        · rw [if_neg h2]
          rw [hsi.gcount] at h2
          have hnone : s.groups.toList[gi + 1]? = none := List.getElem?_eq_none_iff.mpr (by omega)
          have hall := allRecs_length_of_last hg hnone
          have hcond : ¬ (mode ≠ 1 ∧ (recsBefore s.groups.toList gi).length + rec + 1 < (absStream s).blocks.length) := by
            rintro ⟨_, h⟩; omega
          rw [if_neg hcond]
          exact ⟨hts (si + 1), htp (si + 1)⟩

/-- the emptiness test of NONEMPTY_BLOCK -/
theorem emptyBlock_sim {i : Index} (hi : Inv i) {sj : Nat} {g? : Option Nat} {r : Nat} (h : PosOk i (some sj) g? r) :
    emptyBlockAt i sj g? r = Spec.blockEmptyAt (abs i) (specOf i (sj, g?, r)) := by
  obtain ⟨s, hs, h⟩ := h
  have hsi : StreamInv s := hi.streams s (List.mem_of_getElem? hs)
  have ha : (abs i)[sj]? = some (absStream s) := by rw [abs_getElem?, hs]; rfl
  unfold emptyBlockAt Spec.blockEmptyAt specOf
  rw [streamAt_eq, hs]
  simp only [Option.bind_some, ha]
  cases g? with
  | none =>
    simp only at h
    simp [(blocks_nil_iff hsi).mpr h.1]
  | some gi =>
    obtain ⟨g, hg, hrec⟩ := h
    obtain ⟨f1, _, _, b, hb, _, f5⟩ := group_rec_facts hsi hg hrec
    simp only [Option.bind_some, groupAt_eq, hg, Option.map_some, Option.getD_some, nBefore_eq hs, hb]
    by_cases h0 : r = 0
    · subst h0
      simp only [if_true] at f1 ⊢
      rw [f1, f5]
      simp
    · simp only [if_neg h0] at f1 ⊢
      rw [f1, f5]
      simp

/-- the loop of `lzma_index_iter_next` simulates the specification's `next` with the same fuel -/
theorem nextLoop_sim {i : Index} (hi : Inv i) {mode : Nat} (hm : mode ≤ 3) : ∀ (fuel : Nat) (st gr : Option Nat) (rec : Nat),
    CondC i mode st gr rec →
    (nextLoop i mode fuel st gr rec).map (specOf i) = Spec.iterNextPos (abs i) mode fuel (toSpecPos i st gr rec)
    ∧ ∀ c, nextLoop i mode fuel st gr rec = some c → PosOk i (some c.1) c.2.1 c.2.2
  | 0, _, _, _, _ => ⟨rfl, by intro c h; simp [nextLoop] at h⟩
  | fuel + 1, st, gr, rec, hC => by
    obtain ⟨h1, h2⟩ := step_sim hi hC
    rw [nextLoop_succ]
    unfold Spec.iterNextPos
    rw [if_neg (by omega), ← h1]
    cases hstep : stepC i mode st gr rec with
    | none => exact ⟨rfl, by intro c h; simp at h⟩
    | some c =>
      obtain ⟨sj, g?, r⟩ := c
      have hok : PosOk i (some sj) g? r := h2 (sj, g?, r) hstep
      simp only [Option.map_some]
      rw [emptyBlock_sim hi hok]
      by_cases he : mode = 3 ∧ Spec.blockEmptyAt (abs i) (specOf i (sj, g?, r)) = true
      · rw [if_pos he, if_pos he]
        have := nextLoop_sim hi hm fuel (some sj) g? r (condC_of_posOk (by omega) hok)
        exact this
      · rw [if_neg he, if_neg he]
        exact ⟨rfl, by intro c h; cases h; exact hok⟩

/-! ### the iterator structure and its ITER_METHOD_* indirection -/

/-- the group the iterator points to, through the indirection -/
def decodeGroup (i : Index) (it : Iter) : Option Nat :=
  match it.method with
  | .normal => it.group
  | .next => it.group.map (· + 1)
  | .leftmost => it.stream.bind (leftmostGroup i)

/-- the iterator points to an existing Record or to a Stream without groups (or is fresh) -/
def IterOk (i : Index) (it : Iter) : Prop := PosOk i it.stream (decodeGroup i it) it.record

/-- the specification position of the iterator -/
def specPos (i : Index) (it : Iter) : Option Spec.Pos := toSpecPos i it.stream (decodeGroup i it) it.record

theorem iterOk_rewind (i : Index) : IterOk i Iter.rewind := by unfold IterOk PosOk Iter.rewind; trivial
theorem specPos_rewind (i : Index) : specPos i Iter.rewind = none := rfl

/-- `iter_set_info` stores the position so that it decodes to itself -/
theorem iterSetInfo_decode {i : Index} (hi : Inv i) {sj : Nat} {g? : Option Nat} {r : Nat} {s : Stream}
    (hs : i.streams.toList[sj]? = some s) (hok : PosOk i (some sj) g? r) :
    (iterSetInfo i sj s g? r).1.stream = some sj ∧ (iterSetInfo i sj s g? r).1.record = r
    ∧ decodeGroup i (iterSetInfo i sj s g? r).1 = g? := by
  obtain ⟨s', hs', h⟩ := hok
  rw [hs] at hs'; cases hs'
  cases g? with
  | none =>
    simp only at h
    refine ⟨rfl, rfl, ?_⟩
    show (some sj).bind (leftmostGroup i) = none
    simp only [Option.bind_some]
    unfold leftmostGroup
    rw [streamAt_eq, hs]
    simp only
    have : ¬ hasGroups s = true := by rw [hasGroups_iff]; simp [h.1]
    rw [if_neg this]
  | some gi =>
    obtain ⟨g, hg, _⟩ := h
    unfold iterSetInfo
    simp only
    by_cases h1 : sj + 1 ≠ i.streams.count ∨ gi + 1 ≠ s.groups.count
    · rw [if_pos h1]; exact ⟨rfl, rfl, rfl⟩
    · rw [if_neg h1]
      by_cases h2 : gi ≠ 0
      · rw [if_pos h2]
        refine ⟨rfl, rfl, ?_⟩
        show (some (gi - 1)).map (· + 1) = some gi
        simp only [Option.map_some]; congr 1; omega
      · rw [if_neg h2]
        refine ⟨rfl, rfl, ?_⟩
        show (some sj).bind (leftmostGroup i) = some gi
        simp only [Option.bind_some]
        unfold leftmostGroup
        rw [streamAt_eq, hs]
        simp only
        have : hasGroups s = true := by
          rw [hasGroups_iff]; intro hnil
          unfold CTree.toList at hg; rw [hnil] at hg; simp at hg
        rw [if_pos this]; congr 1; omega

/-- in STREAM mode the Block part of the current position is ignored -/
theorem iterNextPos_mode1 (i : SpecIndex) (fuel : Nat) (si : Nat) (x y : Option Nat) :
    Spec.iterNextPos i 1 fuel (some (si, x)) = Spec.iterNextPos i 1 fuel (some (si, y)) := by
  cases fuel with
  | zero => rfl
  | succ fuel =>
    rw [Spec.iterNextPos_low i (by omega), Spec.iterNextPos_low i (by omega)]
    unfold Spec.advance
    simp

theorem iterFuel_eq {i : Index} (hi : Inv i) : iterFuel i = Spec.iterFuel (abs i) := by
  unfold iterFuel Spec.iterFuel
  rw [hi.rcount, count_eq_length hi]

/-- the iterator is one that `iter_set_info` or `rewind` can have produced: parked on a Stream without groups it uses
    ITER_METHOD_LEFTMOST -/
def IterCanon (i : Index) (it : Iter) : Prop :=
  it.stream ≠ none → decodeGroup i it = none → it.method = .leftmost

theorem iterCanon_rewind (i : Index) : IterCanon i Iter.rewind := by intro h; exact absurd rfl h

theorem iterCanon_setInfo {i : Index} (si : Nat) (s : Stream) (g? : Option Nat) (r : Nat)
    (hd : decodeGroup i (iterSetInfo i si s g? r).1 = g?) : IterCanon i (iterSetInfo i si s g? r).1 := by
  intro _ hnone
  rw [hd] at hnone
  subst hnone
  rfl

/-- **One `lzma_index_iter_next`** of the concrete model: it fails iff the specification's `next` fails from the
    corresponding position, and otherwise moves to the position the specification moves to and publishes exactly the
    specification's fields for it. -/
theorem iterNext_sim {i : Index} (hi : Inv i) {it : Iter} (hwf : IterOk i it) (mode : Nat) :
    (iterNext i it mode = none → Spec.iterNextPos (abs i) mode (Spec.iterFuel (abs i)) (specPos i it) = none)
    ∧ ∀ it' info, iterNext i it mode = some (it', info) →
        ∃ p, Spec.iterNextPos (abs i) mode (Spec.iterFuel (abs i)) (specPos i it) = some p
          ∧ specPos i it' = some p ∧ Spec.infoAt (abs i) p.1 p.2 = some info ∧ IterOk i it' ∧ IterCanon i it' := by
  by_cases hm : mode > 3
  · have h1 : iterNext i it mode = none := by unfold iterNext; rw [if_pos hm]
    have h2 : Spec.iterNextPos (abs i) mode (Spec.iterFuel (abs i)) (specPos i it) = none := by
      have : Spec.iterFuel (abs i) = (Spec.blockCount (abs i) + (abs i).length + 1) + 1 := rfl
      rw [this]; unfold Spec.iterNextPos; rw [if_pos hm]
    exact ⟨fun _ => h2, by intro it' info h; rw [h1] at h; cases h⟩
  · -- the group handed to the loop, and the position the specification starts from
    have hloop : ∃ gr, iterNext i it mode =
          (match nextLoop i mode (iterFuel i) it.stream gr it.record with
           | none => none
           | some (si, g?, rec) =>
             match streamAt i si with
             | none => none
             | some s => some (iterSetInfo i si s g? rec))
        ∧ CondC i mode it.stream gr it.record
        ∧ Spec.iterNextPos (abs i) mode (Spec.iterFuel (abs i)) (toSpecPos i it.stream gr it.record)
            = Spec.iterNextPos (abs i) mode (Spec.iterFuel (abs i)) (specPos i it) := by
      by_cases h1 : mode = 1
      · refine ⟨none, ?_, ?_, ?_⟩
        · unfold iterNext; rw [if_neg hm, if_pos h1]; rfl
        · unfold IterOk PosOk at hwf; unfold CondC
          cases hst : it.stream with
          | none => trivial
          | some si =>
            rw [hst] at hwf
            obtain ⟨s, hs, _⟩ := hwf
            exact ⟨s, hs, Or.inl h1⟩
        · subst h1
          unfold specPos toSpecPos
          cases it.stream with
          | none => rfl
          | some si => simp only [Option.map_some, specOf]; exact iterNextPos_mode1 _ _ _ _ _
      · refine ⟨decodeGroup i it, ?_, condC_of_posOk h1 hwf, rfl⟩
        unfold iterNext decodeGroup; rw [if_neg hm, if_neg h1]; rfl
    obtain ⟨gr, hnext, hC, hspec⟩ := hloop
    obtain ⟨s1, s2⟩ := nextLoop_sim hi (by omega : mode ≤ 3) (iterFuel i) it.stream gr it.record hC
    rw [iterFuel_eq hi] at s1 s2 hnext
    rw [hspec] at s1
    cases hl : nextLoop i mode (Spec.iterFuel (abs i)) it.stream gr it.record with
    | none =>
      rw [hl] at s1 hnext
      refine ⟨fun _ => s1.symm, ?_⟩
      intro it' info h; rw [hnext] at h; cases h
    | some c =>
      obtain ⟨sj, g?, r⟩ := c
      rw [hl] at s1 hnext
      have hok : PosOk i (some sj) g? r := s2 (sj, g?, r) hl
      obtain ⟨s, hs, hpos⟩ := hok
      simp only [streamAt_eq, hs] at hnext
      refine ⟨fun h => (by rw [hnext] at h; cases h), ?_⟩
      intro it' info h
      rw [hnext] at h
      have hit : it' = (iterSetInfo i sj s g? r).1 := by cases h; rfl
      have hinfo : info = (iterSetInfo i sj s g? r).2 := by cases h; rfl
      obtain ⟨d1, d2, d3⟩ := iterSetInfo_decode hi hs ⟨s, hs, hpos⟩
      refine ⟨specOf i (sj, g?, r), s1.symm, ?_, ?_, ?_, by rw [hit]; exact iterCanon_setInfo sj s g? r d3⟩
      · rw [hit]; unfold specPos toSpecPos; rw [d1, d2, d3]; rfl
      · rw [hinfo]
        cases g? with
        | none => exact infoAt_of_empty hi hs hpos.1 _ _
        | some gi =>
          obtain ⟨g, hg, hrec⟩ := hpos
          show Spec.infoAt (abs i) sj (some (nBefore i sj gi + r)) = _
          rw [nBefore_eq hs]
          exact infoAt_of_group hi hs hg hrec
      · rw [hit]; unfold IterOk; rw [d1, d2, d3]; exact ⟨s, hs, hpos⟩

end Impl
end XzVerif.Index
