/-
  C09: whole-run restartability of the memory-limit protocol (Model/Memlimit.lean).
  Two runs of the same decoder over the same input that differ only in the initial limit and in the script of
  `lzma_memlimit_set` calls stay in lockstep: unless one of them gives up with LZMA_MEMLIMIT_ERROR they end with the
  same return code, the same number of consumed bytes, the same Blocks handed to the payload decoders (hence the same
  output), the same LZMA_*_CHECK notifications and the same coders allocated.
  Core Lean only.
-/
import XzVerif.Lemmas.Memlimit

set_option linter.unusedSimpArgs false

namespace XzVerif.Memlimit
open XzVerif.Memusage

/-! ## What a run reports besides the limit dialogue -/

/-- The LZMA_NO_CHECK / LZMA_UNSUPPORTED_CHECK / LZMA_GET_CHECK notifications among the events. -/
def chks : List Ev → List Nat
  | [] => []
  | .chk c :: r => c :: chks r
  | _ :: r => chks r

/-- Two run states agree on everything but the limit dialogue: decoder states related by `R`, the same input position,
    the same payloads decoded, the same check notifications. -/
def RunRel (R : Core → Core → Prop) (r1 r2 : Run) : Prop :=
  R r1.core r2.core ∧ r1.consumed = r2.consumed ∧ r1.decoded = r2.decoded ∧ chks r1.out = chks r2.out

/-- A step touched nothing but the decoder core, the limit tokens and the limit events. -/
def Frame (r r' : Run) : Prop :=
  r'.consumed = r.consumed ∧ r'.decoded = r.decoded ∧ chks r'.out = chks r.out

theorem Frame.refl (r : Run) : Frame r r := ⟨rfl, rfl, rfl⟩
theorem Frame.trans {a b c : Run} (h1 : Frame a b) (h2 : Frame b c) : Frame a c :=
  ⟨h2.1.trans h1.1, h2.2.1.trans h1.2.1, h2.2.2.trans h1.2.2⟩

theorem foldl_set_frame (u : Nat) : ∀ (evs : List (Nat × Nat × Nat)) (r0 : Run),
    Frame r0 (evs.foldl (fun acc ev => acc.emit (.set ev.1 ev.2.1 ev.2.2 u)) r0)
    ∧ (evs.foldl (fun acc ev => acc.emit (.set ev.1 ev.2.1 ev.2.2 u)) r0).core = r0.core := by
  intro evs
  induction evs with
  | nil => intro r0; exact ⟨Frame.refl _, rfl⟩
  | cons e es ih =>
    intro r0
    simp only [List.foldl_cons]
    have h := ih (r0.emit (.set e.1 e.2.1 e.2.2 u))
    exact ⟨Frame.trans ⟨rfl, rfl, rfl⟩ h.1, h.2⟩

theorem trySets_suffix (mu : Nat) : ∀ (sets : List SetTok) (limit : Nat) (evs : List (Nat × Nat × Nat)) (res : Option Nat)
    (rest : List SetTok), trySets mu limit sets = (evs, res, rest) → ∃ pre, sets = pre ++ rest := by
  intro sets
  induction sets with
  | nil => intro limit evs res rest h; simp [trySets] at h; exact ⟨[], by simp [h.2.2]⟩
  | cons t ts ih =>
    intro limit evs res rest h
    simp only [trySets] at h
    split at h
    · simp only [Prod.mk.injEq] at h
      exact ⟨[t], by simp [h.2.2]⟩
    · generalize hq : trySets mu limit ts = q at h
      obtain ⟨ev, res2, rem⟩ := q
      simp only [Prod.mk.injEq] at h
      obtain ⟨pre, hp⟩ := ih limit ev res2 rem hq
      exact ⟨t :: pre, by rw [← h.2.2, hp]; rfl⟩

theorem trySets_some_lt (mu : Nat) : ∀ (sets : List SetTok) (limit : Nat) (evs : List (Nat × Nat × Nat)) (l : Nat)
    (rest : List SetTok), trySets mu limit sets = (evs, some l, rest) → rest.length < sets.length := by
  intro sets
  induction sets with
  | nil => intro limit evs l rest h; simp [trySets] at h
  | cons t ts ih =>
    intro limit evs l rest h
    simp only [trySets] at h
    split at h
    · simp only [Prod.mk.injEq] at h
      rw [← h.2.2]; simp
    · generalize hq : trySets mu limit ts = q at h
      obtain ⟨ev, res2, rem⟩ := q
      simp only [Prod.mk.injEq] at h
      obtain ⟨_, h2, h3⟩ := h
      subst h2; subst h3
      have := ih limit ev l rem hq
      simp only [List.length_cons]; omega

/-- Everything `handleMemlimit` does: limit events, tokens consumed, possibly a new limit. -/
theorem handleMemlimit_spec (r : Run) :
    Frame r (handleMemlimit r).1
    ∧ (∃ l, (handleMemlimit r).1.core = { r.core with memlimit := l })
    ∧ (∃ pre, r.sets = pre ++ (handleMemlimit r).1.sets)
    ∧ ((handleMemlimit r).2 = true → (handleMemlimit r).1.sets.length < r.sets.length) := by
  simp only [handleMemlimit]
  generalize hq : trySets r.core.memusage r.core.memlimit
    (r.emit (.mem r.core.memusage r.core.memlimit r.core.heap.live r.core.heap.peak)).sets = q
  obtain ⟨evs, res, rest⟩ := q
  have hf := foldl_set_frame r.core.memusage evs
    (r.emit (.mem r.core.memusage r.core.memlimit r.core.heap.live r.core.heap.peak))
  have hsuf := trySets_suffix _ _ _ _ _ _ hq
  cases res with
  | none =>
    refine ⟨?_, ⟨r.core.memlimit, ?_⟩, hsuf, by simp⟩
    · exact Frame.trans ⟨rfl, rfl, rfl⟩ ⟨hf.1.1, hf.1.2.1, hf.1.2.2⟩
    · exact hf.2
  | some l =>
    refine ⟨?_, ⟨l, rfl⟩, hsuf, fun _ => trySets_some_lt _ _ _ _ _ _ hq⟩
    exact Frame.trans ⟨rfl, rfl, rfl⟩ ⟨hf.1.1, hf.1.2.1, hf.1.2.2⟩

/-! ## The retry loop -/

/-- `retryLoop` with enough fuel ends either by giving up (6) or with an attempt that returned its code from a state
    the original one is related to; it changes nothing but the core, the tokens and the limit events. -/
theorem retryLoop_last (R : Core → Core → Prop) (attempt : Core → InitResult × Core) (hr : Restartable R attempt) :
    ∀ (fuel : Nat) (r : Run) (k : Nat) (r' : Run), r.sets.length < fuel → retryLoop attempt fuel r = (k, r') →
      Frame r r' ∧ (∃ pre, r.sets = pre ++ r'.sets)
      ∧ ((k = 6 ∧ ∃ r0 pre, handleMemlimit r0 = (r', false) ∧ r.sets = pre ++ r0.sets)
         ∨ ∃ c, R c r.core ∧ attempt c = (.done k, r'.core)) := by
  intro fuel
  induction fuel with
  | zero => intro r k r' hf; omega
  | succ fuel ih =>
    intro r k r' hf h
    simp only [retryLoop] at h
    cases ha : attempt r.core with
    | mk res c1 =>
      rw [ha] at h
      cases res with
      | done code =>
        simp only [Prod.mk.injEq] at h
        obtain ⟨hk, hr'⟩ := h
        subst hk; subst hr'
        exact ⟨Frame.refl _, ⟨[], rfl⟩, Or.inr ⟨r.core, hr.limitOnly r.core r.core.memlimit, ha⟩⟩
      | memlimit =>
        have hs := handleMemlimit_spec { r with core := c1 }
        cases hh : handleMemlimit { r with core := c1 } with
        | mk r2 ok =>
          rw [hh] at h hs
          simp only at hs
          obtain ⟨hfr, ⟨l, hl⟩, ⟨pre, hpre⟩, hlt⟩ := hs
          cases ok with
          | false =>
            simp only [Bool.false_eq_true, ↓reduceIte, Prod.mk.injEq] at h
            obtain ⟨hk, hr'⟩ := h
            subst hk; subst hr'
            exact ⟨hfr, ⟨pre, hpre⟩, Or.inl ⟨rfl, { r with core := c1 }, [], hh, rfl⟩⟩
          | true =>
            simp only [↓reduceIte] at h
            have hlt' := hlt rfl
            obtain ⟨f2, ⟨pre2, hpre2⟩, hcase⟩ := ih r2 k r' (by omega) h
            refine ⟨Frame.trans hfr f2, ⟨pre ++ pre2, by rw [hpre, hpre2]; simp⟩, ?_⟩
            rcases hcase with ⟨h6, r0, pre0, hg, hp0⟩ | ⟨c, hc, hac⟩
            · exact Or.inl ⟨h6, r0, pre ++ pre0, hg, by rw [hpre, hp0]; simp⟩
            · refine Or.inr ⟨c, ?_, hac⟩
              have h1 : R r2.core c1 := by rw [hl]; exact hr.limitOnly c1 l
              exact hr.trans _ _ _ hc (hr.trans _ _ _ h1 (hr.onLimit r.core c1 ha))

/-- The run gave up: a LZMA_MEMLIMIT_ERROR was not answered by an accepted `lzma_memlimit_set` (no token left, or
    every remaining token rejected) and LZMA_MEMLIMIT_ERROR is the final code. `s0` = the script the run started with. -/
def GaveUp (s0 : List SetTok) (k : Nat) (r' : Run) : Prop :=
  k = 6 ∧ ∃ r0 pre, handleMemlimit r0 = (r', false) ∧ s0 = pre ++ r0.sets

theorem GaveUp.mono {s0 s0' pre : List SetTok} {k : Nat} {r' : Run} (h : GaveUp s0 k r') (hs : s0' = pre ++ s0) :
    GaveUp s0' k r' := by
  obtain ⟨h6, r0, pre0, hg, hp⟩ := h
  exact ⟨h6, r0, pre ++ pre0, hg, by rw [hs, hp]; simp⟩

/-- Two retry loops from related states agree unless one of them gives up. -/
theorem retryLoop_agree (R : Core → Core → Prop) (attempt : Core → InitResult × Core) (hr : Restartable R attempt)
    (hsymm : ∀ a b, R a b → R b a) (f1 f2 : Nat) (r1 r2 : Run) (k1 k2 : Nat) (r1' r2' : Run)
    (hrel : R r1.core r2.core) (hf1 : r1.sets.length < f1) (hf2 : r2.sets.length < f2)
    (h1 : retryLoop attempt f1 r1 = (k1, r1')) (h2 : retryLoop attempt f2 r2 = (k2, r2')) :
    Frame r1 r1' ∧ Frame r2 r2' ∧ (∃ pre, r1.sets = pre ++ r1'.sets) ∧ (∃ pre, r2.sets = pre ++ r2'.sets)
    ∧ (GaveUp r1.sets k1 r1' ∨ GaveUp r2.sets k2 r2' ∨ (k1 = k2 ∧ R r1'.core r2'.core)) := by
  obtain ⟨fr1, su1, c1⟩ := retryLoop_last R attempt hr f1 r1 k1 r1' hf1 h1
  obtain ⟨fr2, su2, c2⟩ := retryLoop_last R attempt hr f2 r2 k2 r2' hf2 h2
  refine ⟨fr1, fr2, su1, su2, ?_⟩
  rcases c1 with h6 | ⟨c1, hc1, ha1⟩
  · exact Or.inl h6
  rcases c2 with h6 | ⟨c2, hc2, ha2⟩
  · exact Or.inr (Or.inl h6)
  right; right
  have hrel' : R c1 c2 := hr.trans _ _ _ hc1 (hr.trans _ _ _ hrel (hsymm _ _ hc2))
  rcases hr.congr c1 c2 k1 r1'.core hrel' ha1 with ⟨c2', hm⟩ | ⟨c2', hd, hR⟩
  · rw [ha2] at hm; cases hm
  · rw [ha2] at hd
    simp only [Prod.mk.injEq, InitResult.done.injEq] at hd
    obtain ⟨hk, hc⟩ := hd
    subst hc
    exact ⟨hk.symm, hR⟩

theorem Core.SimU.symm {c1 c2 : Core} (h : Core.SimU c1 c2) : Core.SimU c2 c1 := ⟨h.1.symm, h.2.symm⟩

/-! ## Outcomes of whole runs -/

/-- Two outcomes (return code, final state) of runs that started with the scripts `s1`, `s2` agree unless one of the
    runs gave up. -/
def Agree (R : Core → Core → Prop) (s1 s2 : List SetTok) (x1 x2 : Nat × Run) : Prop :=
  GaveUp s1 x1.1 x1.2 ∨ GaveUp s2 x2.1 x2.2 ∨ (x1.1 = x2.1 ∧ RunRel R x1.2 x2.2)

/-- The same with the unread input. -/
def Agree3 (R : Core → Core → Prop) (s1 s2 : List SetTok) (x1 x2 : Nat × Run × List UInt8) : Prop :=
  GaveUp s1 x1.1 x1.2.1 ∨ GaveUp s2 x2.1 x2.2.1 ∨ (x1.1 = x2.1 ∧ RunRel R x1.2.1 x2.2.1 ∧ x1.2.2 = x2.2.2)

/-- The script of a run only ever loses tokens from the front. -/
def Suffix (s0 : List SetTok) (x : Run) : Prop := ∃ pre, s0 = pre ++ x.sets

theorem RunRel.consumed {R : Core → Core → Prop} {r1 r2 : Run} (h : RunRel R r1 r2) (n : Nat) :
    RunRel R { r1 with consumed := r1.consumed + n } { r2 with consumed := r2.consumed + n } :=
  ⟨h.1, by show r1.consumed + n = r2.consumed + n; rw [h.2.1], h.2.2.1, h.2.2.2⟩

theorem RunRel.emitChk {R : Core → Core → Prop} {r1 r2 : Run} (h : RunRel R r1 r2) (c : Nat) :
    RunRel R (r1.emit (.chk c)) (r2.emit (.chk c)) :=
  ⟨h.1, h.2.1, h.2.2.1, by show c :: chks r1.out = c :: chks r2.out; rw [h.2.2.2]⟩

theorem RunRel.ofFrame {R : Core → Core → Prop} {r1 r2 r1' r2' : Run} (h : RunRel R r1 r2) (f1 : Frame r1 r1')
    (f2 : Frame r2 r2') (hc : R r1'.core r2'.core) : RunRel R r1' r2' :=
  ⟨hc, by rw [f1.1, f2.1, h.2.1], by rw [f1.2.1, f2.2.1, h.2.2.1], by rw [f1.2.2, f2.2.2, h.2.2.2]⟩

theorem Agree3.mono {R : Core → Core → Prop} {s1 s2 s1' s2' p1 p2 : List SetTok} {x1 x2 : Nat × Run × List UInt8}
    (h : Agree3 R s1 s2 x1 x2) (h1 : s1' = p1 ++ s1) (h2 : s2' = p2 ++ s2) : Agree3 R s1' s2' x1 x2 := by
  rcases h with g | g | e
  · exact Or.inl (g.mono h1)
  · exact Or.inr (Or.inl (g.mono h2))
  · exact Or.inr (Or.inr e)

theorem Agree.mono {R : Core → Core → Prop} {s1 s2 s1' s2' p1 p2 : List SetTok} {x1 x2 : Nat × Run}
    (h : Agree R s1 s2 x1 x2) (h1 : s1' = p1 ++ s1) (h2 : s2' = p2 ++ s2) : Agree R s1' s2' x1 x2 := by
  rcases h with g | g | e
  · exact Or.inl (g.mono h1)
  · exact Or.inr (Or.inl (g.mono h2))
  · exact Or.inr (Or.inr e)

/-- Blocks, Index and Footer of one .xz Stream. -/
theorem streamBody_agree (b : Build) (check : Nat) : ∀ (fuel : Nat) (r1 r2 : Run) (inp : List UInt8),
    RunRel Core.Sim r1 r2 →
      Agree3 Core.Sim r1.sets r2.sets (streamBody b check fuel r1 inp) (streamBody b check fuel r2 inp) := by
  intro fuel
  induction fuel with
  | zero => intro r1 r2 inp h; exact Or.inr (Or.inr ⟨rfl, h, rfl⟩)
  | succ fuel ih =>
    intro r1 r2 inp h
    cases inp with
    | nil => exact Or.inr (Or.inr ⟨rfl, h, rfl⟩)
    | cons b0 tl =>
      simp only [streamBody]
      by_cases hb0 : b0.toNat = 0
      · simp only [hb0, ↓reduceIte, Bool.false_eq_true]
        cases hid : Container.indexDecode (b0 :: tl) with
        | error e => exact Or.inr (Or.inr ⟨rfl, h, rfl⟩)
        | ok v =>
          obtain ⟨recs, rest⟩ := v
          dsimp only
          by_cases hl : rest.length < 12
          · simp only [hl, ↓reduceIte, Bool.false_eq_true]
            exact Or.inr (Or.inr ⟨rfl, h.consumed _, rfl⟩)
          · simp only [hl, ↓reduceIte, Bool.false_eq_true]
            cases hsf : Container.streamFooterDecode rest with
            | error e => exact Or.inr (Or.inr ⟨rfl, (h.consumed _).consumed 12, rfl⟩)
            | ok v2 =>
              obtain ⟨ff, r9⟩ := v2
              dsimp only
              by_cases hck : ff.check ≠ check
              · simp only [if_pos hck]
                exact Or.inr (Or.inr ⟨rfl, (h.consumed _).consumed 12, rfl⟩)
              · simp only [if_neg hck]
                exact Or.inr (Or.inr ⟨rfl, (h.consumed _).consumed 12, rfl⟩)
      · simp only [hb0, ↓reduceIte, Bool.false_eq_true]
        by_cases hlen : (b0 :: tl).length < (b0.toNat + 1) * 4
        · simp only [hlen, ↓reduceIte, Bool.false_eq_true]
          exact Or.inr (Or.inr ⟨rfl, h.consumed _, rfl⟩)
        · simp only [hlen, ↓reduceIte, Bool.false_eq_true]
          generalize hhs : (b0.toNat + 1) * 4 = hs
          generalize hinp : (b0 :: tl) = inp at *
          have h0 := h.consumed hs
          cases hq1 : blockInitLoop b check (List.take hs inp) (r1.sets.length + 2) { r1 with consumed := r1.consumed + hs } with
          | mk k1 r1' =>
            cases hq2 : blockInitLoop b check (List.take hs inp) (r2.sets.length + 2) { r2 with consumed := r2.consumed + hs } with
            | mk k2 r2' =>
              dsimp only
              have hag := retryLoop_agree Core.Sim (blockAttempt b check (List.take hs inp))
                (blockAttempt_restartable b check (List.take hs inp)) (fun _ _ hx => hx.symm)
                (r1.sets.length + 2) (r2.sets.length + 2) _ _ k1 k2 r1' r2' h0.1
                (by show r1.sets.length < _; omega) (by show r2.sets.length < _; omega) hq1 hq2
              obtain ⟨f1, f2, ⟨p1, hp1⟩, ⟨p2, hp2⟩, hcase⟩ := hag
              rcases hcase with h6 | h6 | ⟨hk, hsim⟩
              · have hk6 : k1 = 6 := h6.1
                subst hk6
                exact Or.inl h6
              · have hk6 : k2 = 6 := h6.1
                subst hk6
                exact Or.inr (Or.inl h6)
              · subst hk
                have hrel := h0.ofFrame f1 f2 hsim
                by_cases hk0 : k1 ≠ 0
                · simp only [if_pos hk0]
                  exact Or.inr (Or.inr ⟨rfl, hrel, rfl⟩)
                · simp only [if_neg hk0]
                  cases hbh : Container.blockHeaderDecodeWith hs check (List.take hs inp) with
                  | error e => exact Or.inr (Or.inr ⟨rfl, hrel, rfl⟩)
                  | ok bh =>
                    dsimp only
                    cases hcs : bh.compressedSize with
                    | none => exact Or.inr (Or.inr ⟨rfl, hrel, rfl⟩)
                    | some cs =>
                      dsimp only
                      by_cases hrl : (List.drop hs inp).length < Container.ceil4 cs + Container.checkSize check
                      · simp only [hrl, ↓reduceIte, Bool.false_eq_true]
                        exact Or.inr (Or.inr ⟨rfl, hrel.consumed _, rfl⟩)
                      · simp only [hrl, ↓reduceIte, Bool.false_eq_true]
                        refine Agree3.mono (ih _ _ _ ?_) hp1 hp2
                        exact ⟨hrel.1, by show r1'.consumed + _ = r2'.consumed + _; rw [hrel.2.1],
                          by show _ :: r1'.decoded = _ :: r2'.decoded; rw [hrel.2.2.1], hrel.2.2.2⟩

/-- The script after Blocks, Index and Footer is what is left of the script before. -/
theorem streamBody_suffix (b : Build) (check : Nat) : ∀ (fuel : Nat) (r : Run) (inp : List UInt8),
    Suffix r.sets (streamBody b check fuel r inp).2.1 := by
  intro fuel
  induction fuel with
  | zero => intro r inp; exact ⟨[], rfl⟩
  | succ fuel ih =>
    intro r inp
    cases inp with
    | nil => exact ⟨[], rfl⟩
    | cons b0 tl =>
      simp only [streamBody]
      by_cases hb0 : b0.toNat = 0
      · simp only [hb0, ↓reduceIte, Bool.false_eq_true]
        repeat' split
        all_goals exact ⟨[], rfl⟩
      · simp only [hb0, ↓reduceIte, Bool.false_eq_true]
        by_cases hlen : (b0 :: tl).length < (b0.toNat + 1) * 4
        · simp only [hlen, ↓reduceIte, Bool.false_eq_true]
          exact ⟨[], rfl⟩
        · simp only [hlen, ↓reduceIte, Bool.false_eq_true]
          generalize hhs : (b0.toNat + 1) * 4 = hs
          generalize hinp : (b0 :: tl) = inp at *
          cases hq1 : blockInitLoop b check (List.take hs inp) (r.sets.length + 2) { r with consumed := r.consumed + hs } with
          | mk k1 r1' =>
            dsimp only
            obtain ⟨_, ⟨pre, hp⟩, _⟩ := retryLoop_last Core.Sim _ (blockAttempt_restartable b check _) _ _ _ _
              (by show r.sets.length < r.sets.length + 2; omega) hq1
            have hp : r.sets = pre ++ r1'.sets := hp
            by_cases hk0 : k1 ≠ 0
            · simp only [if_pos hk0]; exact ⟨pre, hp⟩
            · simp only [if_neg hk0]
              cases hbh : Container.blockHeaderDecodeWith hs check (List.take hs inp) with
              | error e => exact ⟨pre, hp⟩
              | ok bh =>
                dsimp only
                cases hcs : bh.compressedSize with
                | none => exact ⟨pre, hp⟩
                | some cs =>
                  dsimp only
                  by_cases hrl : (List.drop hs inp).length < Container.ceil4 cs + Container.checkSize check
                  · simp only [hrl, ↓reduceIte, Bool.false_eq_true]; exact ⟨pre, hp⟩
                  · simp only [hrl, ↓reduceIte, Bool.false_eq_true]
                    generalize Container.ceil4 cs + Container.checkSize check = total
                    obtain ⟨pre2, hp2⟩ := ih { r1' with consumed := r1'.consumed + total, decoded := List.take (hs + total) inp :: r1'.decoded } (List.drop total (List.drop hs inp))
                    exact ⟨pre ++ pre2, by rw [List.append_assoc, ← hp2]; exact hp⟩

/-- The run state after the Stream Header (with the check notification, if any). -/
def afterHeader (fl : Flags) (check : Nat) (r : Run) : Run :=
  let r0 := { r with consumed := r.consumed + 12 }
  if fl.tellNoCheck ∧ check = 0 then r0.emit (.chk 2)
  else if fl.tellUnsupported ∧ !checkSupported check then r0.emit (.chk 3)
  else if fl.tellAny then r0.emit (.chk 4) else r0

theorem afterHeader_rel (fl : Flags) (check : Nat) {r1 r2 : Run} (h : RunRel Core.Sim r1 r2) :
    RunRel Core.Sim (afterHeader fl check r1) (afterHeader fl check r2) := by
  have h0 := h.consumed 12
  unfold afterHeader
  dsimp only
  split
  · exact h0.emitChk 2
  · split
    · exact h0.emitChk 3
    · split
      · exact h0.emitChk 4
      · exact h0

theorem afterHeader_sets (fl : Flags) (check : Nat) (r : Run) : (afterHeader fl check r).sets = r.sets := by
  unfold afterHeader
  dsimp only
  split
  · rfl
  · split
    · rfl
    · split <;> rfl

theorem streams_unfold (b : Build) (fl : Flags) (fuel : Nat) (first : Bool) (r : Run) (inp : List UInt8) :
    streams b fl (fuel + 1) first r inp =
      if inp.length < 12 then (10, { r with consumed := r.consumed + inp.length })
      else
        match Container.streamHeaderDecode inp with
        | .error e => ((if e = .formatError ∧ !first then Ret.dataError else e).toNat, { r with consumed := r.consumed + 12 })
        | .ok sf =>
          let (code, r2, rest) := streamBody b sf.check (inp.length + 2) (afterHeader fl sf.check r) (inp.drop 12)
          if code ≠ 1 then (code, r2)
          else if !fl.concatenated then (1, r2)
          else
            let z := countZeros rest
            let after := rest.drop z
            if after.isEmpty then
              ((if z % 4 = 0 then 1 else 9), { r2 with consumed := r2.consumed + z })
            else if z % 4 ≠ 0 then (9, { r2 with consumed := r2.consumed + z + 1 })
            else streams b fl fuel false { r2 with consumed := r2.consumed + z } after := by
  rfl

/-- Concatenated Streams. -/
theorem streams_agree (b : Build) (fl : Flags) : ∀ (fuel : Nat) (first : Bool) (r1 r2 : Run) (inp : List UInt8),
    RunRel Core.Sim r1 r2 →
      Agree Core.Sim r1.sets r2.sets (streams b fl fuel first r1 inp) (streams b fl fuel first r2 inp) := by
  intro fuel
  induction fuel with
  | zero => intro first r1 r2 inp h; exact Or.inr (Or.inr ⟨rfl, h⟩)
  | succ fuel ih =>
    intro first r1 r2 inp h
    rw [streams_unfold, streams_unfold]
    by_cases hl : inp.length < 12
    · simp only [hl, ↓reduceIte]
      exact Or.inr (Or.inr ⟨rfl, h.consumed _⟩)
    · simp only [hl, ↓reduceIte]
      cases hsh : Container.streamHeaderDecode inp with
      | error e => exact Or.inr (Or.inr ⟨rfl, h.consumed _⟩)
      | ok sf =>
        dsimp only
        have hemit := afterHeader_rel fl sf.check h
        have hb := streamBody_agree b sf.check (inp.length + 2) _ _ (inp.drop 12) hemit
        have hsu1 := streamBody_suffix b sf.check (inp.length + 2) (afterHeader fl sf.check r1) (inp.drop 12)
        have hsu2 := streamBody_suffix b sf.check (inp.length + 2) (afterHeader fl sf.check r2) (inp.drop 12)
        rw [afterHeader_sets] at hb hsu1 hsu2
        rw [afterHeader_sets] at hb
        cases hs1 : streamBody b sf.check (inp.length + 2) (afterHeader fl sf.check r1) (inp.drop 12) with
        | mk c1 p1 =>
          obtain ⟨s1, rest1⟩ := p1
          cases hs2 : streamBody b sf.check (inp.length + 2) (afterHeader fl sf.check r2) (inp.drop 12) with
          | mk c2 p2 =>
            obtain ⟨s2, rest2⟩ := p2
            rw [hs1, hs2] at hb
            rw [hs1] at hsu1
            rw [hs2] at hsu2
            obtain ⟨p1, hp1⟩ := hsu1
            obtain ⟨p2, hp2⟩ := hsu2
            dsimp only at hp1 hp2 ⊢
            rcases hb with h6 | h6 | ⟨hc, hrel, hrest⟩
            · have hk6 : c1 = 6 := h6.1
              subst hk6
              exact Or.inl h6
            · have hk6 : c2 = 6 := h6.1
              subst hk6
              exact Or.inr (Or.inl h6)
            · simp only at hc hrel hrest
              subst hc; subst hrest
              by_cases hc1 : c1 ≠ 1
              · simp only [if_pos hc1]
                exact Or.inr (Or.inr ⟨rfl, hrel⟩)
              · simp only [if_neg hc1]
                by_cases hcat : (!fl.concatenated) = true
                · simp only [hcat, ↓reduceIte]
                  exact Or.inr (Or.inr ⟨rfl, hrel⟩)
                · simp only [hcat, ↓reduceIte, Bool.false_eq_true]
                  by_cases hemp : (List.drop (countZeros rest1) rest1).isEmpty = true
                  · simp only [hemp, ↓reduceIte]
                    exact Or.inr (Or.inr ⟨rfl, hrel.consumed _⟩)
                  · simp only [hemp, ↓reduceIte, Bool.false_eq_true]
                    by_cases hz : countZeros rest1 % 4 ≠ 0
                    · simp only [if_pos hz]
                      exact Or.inr (Or.inr ⟨rfl, (hrel.consumed (countZeros rest1)).consumed 1⟩)
                    · simp only [if_neg hz]
                      exact Agree.mono (ih false _ _ _ (hrel.consumed _)) hp1 hp2

theorem streams_suffix (b : Build) (fl : Flags) : ∀ (fuel : Nat) (first : Bool) (r : Run) (inp : List UInt8),
    Suffix r.sets (streams b fl fuel first r inp).2 := by
  intro fuel
  induction fuel with
  | zero => intro first r inp; exact ⟨[], rfl⟩
  | succ fuel ih =>
    intro first r inp
    rw [streams_unfold]
    by_cases hl : inp.length < 12
    · simp only [hl, ↓reduceIte]; exact ⟨[], rfl⟩
    · simp only [hl, ↓reduceIte]
      cases hsh : Container.streamHeaderDecode inp with
      | error e => exact ⟨[], rfl⟩
      | ok sf =>
        dsimp only
        have hsu1 := streamBody_suffix b sf.check (inp.length + 2) (afterHeader fl sf.check r) (inp.drop 12)
        rw [afterHeader_sets] at hsu1
        cases hs1 : streamBody b sf.check (inp.length + 2) (afterHeader fl sf.check r) (inp.drop 12) with
        | mk c1 p1 =>
          obtain ⟨s1, rest1⟩ := p1
          rw [hs1] at hsu1
          obtain ⟨p1, hp1⟩ := hsu1
          dsimp only at hp1 ⊢
          by_cases hc1 : c1 ≠ 1
          · simp only [if_pos hc1]; exact ⟨p1, hp1⟩
          · simp only [if_neg hc1]
            by_cases hcat : (!fl.concatenated) = true
            · simp only [hcat, ↓reduceIte]; exact ⟨p1, hp1⟩
            · simp only [hcat, ↓reduceIte, Bool.false_eq_true]
              by_cases hemp : (List.drop (countZeros rest1) rest1).isEmpty = true
              · simp only [hemp, ↓reduceIte]; exact ⟨p1, hp1⟩
              · simp only [hemp, ↓reduceIte, Bool.false_eq_true]
                by_cases hz : countZeros rest1 % 4 ≠ 0
                · simp only [if_pos hz]; exact ⟨p1, hp1⟩
                · simp only [if_neg hz]
                  obtain ⟨p2, hp2⟩ := ih false { s1 with consumed := s1.consumed + countZeros rest1 } (List.drop (countZeros rest1) rest1)
                  exact ⟨p1 ++ p2, by rw [List.append_assoc, ← hp2]; exact hp1⟩

/-! ## .lzma, .lz, auto, Index -/

theorem RunRel.weaken {r1 r2 : Run} (h : RunRel Core.SimU r1 r2) : RunRel Core.Sim r1 r2 := ⟨h.1.1, h.2⟩

theorem Agree.weaken {s1 s2 : List SetTok} {x1 x2 : Nat × Run} (h : Agree Core.SimU s1 s2 x1 x2) :
    Agree Core.Sim s1 s2 x1 x2 := by
  rcases h with g | g | ⟨e, r⟩
  · exact Or.inl g
  · exact Or.inr (Or.inl g)
  · exact Or.inr (Or.inr ⟨e, r.weaken⟩)

/-- One restartable initialisation step followed by `fin` on success (the common shape of the .lzma, .lz and Index
    runs). -/
def retryThen (attempt : Core → InitResult × Core) (fin : Run → Nat × Run) (r : Run) : Nat × Run :=
  let (code, q) := retryLoop attempt (r.sets.length + 2) r
  if code ≠ 0 then (code, q) else fin q

theorem retryThen_agree (attempt : Core → InitResult × Core) (hr : Restartable Core.SimU attempt)
    (fin : Run → Nat × Run) (r1 r2 : Run) (h : RunRel Core.SimU r1 r2)
    (hfin : ∀ a b, RunRel Core.SimU a b → (fin a).1 = (fin b).1 ∧ RunRel Core.SimU (fin a).2 (fin b).2) :
    Agree Core.SimU r1.sets r2.sets (retryThen attempt fin r1) (retryThen attempt fin r2) := by
  unfold retryThen
  cases hq1 : retryLoop attempt (r1.sets.length + 2) r1 with
  | mk k1 r1' =>
    cases hq2 : retryLoop attempt (r2.sets.length + 2) r2 with
    | mk k2 r2' =>
      dsimp only
      obtain ⟨f1, f2, _, _, hcase⟩ := retryLoop_agree Core.SimU attempt hr (fun _ _ hx => hx.symm)
        (r1.sets.length + 2) (r2.sets.length + 2) r1 r2 k1 k2 r1' r2' h.1 (by omega) (by omega) hq1 hq2
      rcases hcase with h6 | h6 | ⟨hk, hsim⟩
      · have hk6 : k1 = 6 := h6.1
        subst hk6
        exact Or.inl h6
      · have hk6 : k2 = 6 := h6.1
        subst hk6
        exact Or.inr (Or.inl h6)
      · subst hk
        have hrel := h.ofFrame f1 f2 hsim
        by_cases hk0 : k1 ≠ 0
        · simp only [if_pos hk0]; exact Or.inr (Or.inr ⟨rfl, hrel⟩)
        · simp only [if_neg hk0]; exact Or.inr (Or.inr (hfin _ _ hrel))

theorem runAloneFrom_agree (b : Build) (picky : Bool) (r1 r2 : Run) (inp : List UInt8) (h : RunRel Core.SimU r1 r2) :
    Agree Core.SimU r1.sets r2.sets (runAloneFrom b picky r1 inp) (runAloneFrom b picky r2 inp) := by
  simp only [runAloneFrom]
  by_cases hl : inp.length < 13
  · simp only [hl, ↓reduceIte]; exact Or.inr (Or.inr ⟨rfl, h.consumed _⟩)
  · simp only [hl, ↓reduceIte]
    cases hh : aloneHeader picky inp with
    | error e => obtain ⟨e1, used⟩ := e; exact Or.inr (Or.inr ⟨rfl, h.consumed _⟩)
    | ok o =>
      dsimp only
      cases hm : lzmaDecoderMemusage b o with
      | none => exact Or.inr (Or.inr ⟨rfl, h⟩)
      | some m =>
        dsimp only
        exact retryThen_agree (coderAttempt b o) (coderAttempt_restartable b o)
          (fun q => (1, { q with consumed := q.consumed + (inp.length - 13), decoded := inp :: q.decoded }))
          { r1 with consumed := r1.consumed + 13, core := { r1.core with memusage := m + MEMUSAGE_BASE } }
          { r2 with consumed := r2.consumed + 13, core := { r2.core with memusage := m + MEMUSAGE_BASE } }
          ⟨⟨h.1.1, rfl⟩, by show r1.consumed + 13 = r2.consumed + 13; rw [h.2.1], h.2.2.1, h.2.2.2⟩
          (fun a c hac => ⟨rfl, hac.1, by show a.consumed + _ = c.consumed + _; rw [hac.2.1],
            by show inp :: a.decoded = inp :: c.decoded; rw [hac.2.2.1], hac.2.2.2⟩)

theorem runLzipFrom_agree (b : Build) (fl : Flags) (r1 r2 : Run) (inp : List UInt8) (h : RunRel Core.SimU r1 r2) :
    Agree Core.SimU r1.sets r2.sets (runLzipFrom b fl r1 inp) (runLzipFrom b fl r2 inp) := by
  simp only [runLzipFrom]
  by_cases hl : inp.length < 4
  · simp only [hl, ↓reduceIte]; exact Or.inr (Or.inr ⟨rfl, h.consumed _⟩)
  · simp only [hl, ↓reduceIte]
    by_cases hmagic : inp.take 4 ≠ [0x4C, 0x5A, 0x49, 0x50]
    · simp only [if_pos hmagic]; exact Or.inr (Or.inr ⟨rfl, h.consumed _⟩)
    · simp only [if_neg hmagic]
      by_cases hl5 : inp.length < 5
      · simp only [hl5, ↓reduceIte]; exact Or.inr (Or.inr ⟨rfl, h.consumed _⟩)
      · simp only [hl5, ↓reduceIte]
        by_cases hver : (inp.getD 4 0).toNat > 1
        · simp only [hver, ↓reduceIte]; exact Or.inr (Or.inr ⟨rfl, h.consumed _⟩)
        · simp only [hver, ↓reduceIte]
          have h0 : RunRel Core.SimU (if fl.tellAny = true then r1.emit (.chk 4) else r1)
              (if fl.tellAny = true then r2.emit (.chk 4) else r2) := by
            split
            · exact h.emitChk 4
            · exact h
          have hs1 : (if fl.tellAny = true then r1.emit (.chk 4) else r1).sets = r1.sets := by split <;> rfl
          have hs2 : (if fl.tellAny = true then r2.emit (.chk 4) else r2).sets = r2.sets := by split <;> rfl
          rw [← hs1, ← hs2]
          generalize (if fl.tellAny = true then r1.emit (.chk 4) else r1) = q1 at h0 ⊢
          generalize (if fl.tellAny = true then r2.emit (.chk 4) else r2) = q2 at h0 ⊢
          by_cases hl6 : inp.length < 6
          · simp only [hl6, ↓reduceIte]; exact Or.inr (Or.inr ⟨rfl, h0.consumed _⟩)
          · simp only [hl6, ↓reduceIte]
            cases hd : lzipDict (inp.getD 5 0).toNat with
            | none => exact Or.inr (Or.inr ⟨rfl, h0.consumed _⟩)
            | some d =>
              dsimp only
              exact retryThen_agree (coderAttempt b { dict := d, lc := 3, lp := 0, pb := 2 })
                (coderAttempt_restartable b _)
                (fun q => (1, { q with consumed := q.consumed + (inp.length - 6), decoded := inp :: q.decoded }))
                { q1 with consumed := q1.consumed + 6, core := { q1.core with memusage := lzmaDecoderMemusageNocheck b { dict := d, lc := 3, lp := 0, pb := 2 } + MEMUSAGE_BASE } }
                { q2 with consumed := q2.consumed + 6, core := { q2.core with memusage := lzmaDecoderMemusageNocheck b { dict := d, lc := 3, lp := 0, pb := 2 } + MEMUSAGE_BASE } }
                ⟨⟨h0.1.1, rfl⟩, by show q1.consumed + 6 = q2.consumed + 6; rw [h0.2.1], h0.2.2.1, h0.2.2.2⟩
                (fun a c hac => ⟨rfl, hac.1, by show a.consumed + _ = c.consumed + _; rw [hac.2.1],
                  by show inp :: a.decoded = inp :: c.decoded; rw [hac.2.2.1], hac.2.2.2⟩)

/-! ## Whole runs from `lzma_*_decoder()` to the final return code -/

theorem xzRun_agree (b : Build) (flags l1 l2 : Nat) (s1 s2 : List SetTok) (inp : List UInt8) :
    Agree Core.Sim s1 s2 (xzRun b flags l1 s1 inp) (xzRun b flags l2 s2 inp) :=
  streams_agree b (Flags.ofNat flags) (inp.length + 2) true (xzStart b l1 s1) (xzStart b l2 s2) inp
    ⟨⟨rfl, rfl, rfl⟩, rfl, rfl, rfl⟩

theorem aloneRun_agree (b : Build) (l1 l2 : Nat) (s1 s2 : List SetTok) (inp : List UInt8) :
    Agree Core.Sim s1 s2 (aloneRun b l1 s1 inp) (aloneRun b l2 s2 inp) :=
  (runAloneFrom_agree b false (aloneStart b l1 s1) (aloneStart b l2 s2) inp
    ⟨⟨⟨rfl, rfl, rfl⟩, rfl⟩, rfl, rfl, rfl⟩).weaken

theorem lzipRun_agree (b : Build) (flags l1 l2 : Nat) (s1 s2 : List SetTok) (inp : List UInt8) :
    Agree Core.Sim s1 s2 (lzipRun b flags l1 s1 inp) (lzipRun b flags l2 s2 inp) :=
  (runLzipFrom_agree b (Flags.ofNat flags) (lzipStart b l1 s1) (lzipStart b l2 s2) inp
    ⟨⟨⟨rfl, rfl, rfl⟩, rfl⟩, rfl, rfl, rfl⟩).weaken

theorem autoRun_agree (b : Build) (flags l1 l2 : Nat) (s1 s2 : List SetTok) (inp : List UInt8) :
    Agree Core.Sim s1 s2 (autoRun b flags l1 s1 inp) (autoRun b flags l2 s2 inp) := by
  cases inp with
  | nil => exact Or.inr (Or.inr ⟨rfl, ⟨rfl, rfl, rfl⟩, rfl, rfl, rfl⟩)
  | cons b0 tl =>
    simp only [autoRun]
    by_cases hxz : b0.toNat = 0xFD
    · simp only [hxz, ↓reduceIte]
      exact streams_agree b (Flags.ofNat flags) _ true _ _ _ ⟨⟨rfl, rfl, rfl⟩, rfl, rfl, rfl⟩
    · simp only [hxz, ↓reduceIte]
      by_cases hlz : b0.toNat = 0x4C
      · simp only [hlz, ↓reduceIte]
        have := (runLzipFrom_agree b (Flags.ofNat flags)
          { core := { memlimit := initLimit l1, memusage := MEMUSAGE_BASE,
                      heap := (({} : Heap).allocs [b.szInternal, b.szAutoDecoder]).alloc b.szLzipDecoder },
            sets := s1, out := [Ev.init 0 MEMUSAGE_BASE (initLimit l1)] }
          { core := { memlimit := initLimit l2, memusage := MEMUSAGE_BASE,
                      heap := (({} : Heap).allocs [b.szInternal, b.szAutoDecoder]).alloc b.szLzipDecoder },
            sets := s2, out := [Ev.init 0 MEMUSAGE_BASE (initLimit l2)] } (b0 :: tl)
          ⟨⟨⟨rfl, rfl, rfl⟩, rfl⟩, rfl, rfl, rfl⟩).weaken
        rcases this with g | g | ⟨e, r⟩
        · refine Or.inl ⟨?_, g.2⟩
          have h6 := g.1
          dsimp only at h6 ⊢
          rw [h6]; simp
        · refine Or.inr (Or.inl ⟨?_, g.2⟩)
          have h6 := g.1
          dsimp only at h6 ⊢
          rw [h6]; simp
        · refine Or.inr (Or.inr ⟨?_, r⟩)
          dsimp only at e ⊢
          rw [e]
      · simp only [hlz, ↓reduceIte]
        have hrel : RunRel Core.SimU
            (if (Flags.ofNat flags).tellNoCheck = true then
                ({ core := { memlimit := initLimit l1, memusage := MEMUSAGE_BASE,
                             heap := (({} : Heap).allocs [b.szInternal, b.szAutoDecoder]).alloc b.szAloneDecoder },
                   sets := s1, out := [Ev.init 0 MEMUSAGE_BASE (initLimit l1)] } : Run).emit (.chk 2)
             else if (Flags.ofNat flags).tellAny = true then
                ({ core := { memlimit := initLimit l1, memusage := MEMUSAGE_BASE,
                             heap := (({} : Heap).allocs [b.szInternal, b.szAutoDecoder]).alloc b.szAloneDecoder },
                   sets := s1, out := [Ev.init 0 MEMUSAGE_BASE (initLimit l1)] } : Run).emit (.chk 4)
             else { core := { memlimit := initLimit l1, memusage := MEMUSAGE_BASE,
                              heap := (({} : Heap).allocs [b.szInternal, b.szAutoDecoder]).alloc b.szAloneDecoder },
                    sets := s1, out := [Ev.init 0 MEMUSAGE_BASE (initLimit l1)] })
            (if (Flags.ofNat flags).tellNoCheck = true then
                ({ core := { memlimit := initLimit l2, memusage := MEMUSAGE_BASE,
                             heap := (({} : Heap).allocs [b.szInternal, b.szAutoDecoder]).alloc b.szAloneDecoder },
                   sets := s2, out := [Ev.init 0 MEMUSAGE_BASE (initLimit l2)] } : Run).emit (.chk 2)
             else if (Flags.ofNat flags).tellAny = true then
                ({ core := { memlimit := initLimit l2, memusage := MEMUSAGE_BASE,
                             heap := (({} : Heap).allocs [b.szInternal, b.szAutoDecoder]).alloc b.szAloneDecoder },
                   sets := s2, out := [Ev.init 0 MEMUSAGE_BASE (initLimit l2)] } : Run).emit (.chk 4)
             else { core := { memlimit := initLimit l2, memusage := MEMUSAGE_BASE,
                              heap := (({} : Heap).allocs [b.szInternal, b.szAutoDecoder]).alloc b.szAloneDecoder },
                    sets := s2, out := [Ev.init 0 MEMUSAGE_BASE (initLimit l2)] }) := by
          split
          · exact ⟨⟨⟨rfl, rfl, rfl⟩, rfl⟩, rfl, rfl, rfl⟩
          · split
            · exact ⟨⟨⟨rfl, rfl, rfl⟩, rfl⟩, rfl, rfl, rfl⟩
            · exact ⟨⟨⟨rfl, rfl, rfl⟩, rfl⟩, rfl, rfl, rfl⟩
        have := (runAloneFrom_agree b true _ _ (b0 :: tl) hrel).weaken
        refine Agree.mono (p1 := []) (p2 := []) this ?_ ?_
        · split
          · rfl
          · split <;> rfl
        · split
          · rfl
          · split <;> rfl

/-- What the Index decoder does after SEQ_MEMUSAGE has passed. -/
def indexFin (b : Build) (inp : List UInt8) (count : Nat) (q : Run) : Nat × Run :=
  match Container.indexDecode inp with
  | .error e => (e.toNat, q)
  | .ok (_, rest) =>
    let h2 := if count = 0 then q.core.heap else q.core.heap.alloc (b.szIndexGroup + count * b.szIndexRecord)
    (1, { q with consumed := inp.length - rest.length, core := { q.core with heap := h2, memusage := (indexMemusage b 1 0).getD UINT64_MAX } })

def indexStart (b : Build) (limit : Nat) (sets : List SetTok) (used count : Nat) : Run :=
  { core := { memlimit := initLimit limit, memusage := (indexMemusage b 1 count).getD UINT64_MAX,
              heap := ({} : Heap).allocs [b.szInternal, b.szIndexDecoder, b.szIndex, b.szIndexStream] },
    sets := sets, out := [Ev.init 0 ((indexMemusage b 1 0).getD UINT64_MAX) (initLimit limit)], consumed := used }

theorem indexRun_some (b : Build) (l : Nat) (s : List SetTok) (ind : UInt8) (r0 r1 : List UInt8) (count : Nat)
    (hind : ¬ ind.toNat ≠ 0) (hv : Vli.vliDecode r0 = some (count, r1)) :
    indexRun b l s (ind :: r0)
      = retryThen indexAttempt (indexFin b (ind :: r0) count) (indexStart b l s ((ind :: r0).length - r1.length) count) := by
  unfold indexRun
  simp only [if_neg hind, hv]
  rfl

theorem indexRun_agree (b : Build) (l1 l2 : Nat) (s1 s2 : List SetTok) (inp : List UInt8) :
    Agree Core.Sim s1 s2 (indexRun b l1 s1 inp) (indexRun b l2 s2 inp) := by
  cases inp with
  | nil => exact Or.inr (Or.inr ⟨rfl, ⟨rfl, rfl, rfl⟩, rfl, rfl, rfl⟩)
  | cons ind r0 =>
    by_cases hind : ind.toNat ≠ 0
    · simp only [indexRun, if_pos hind]
      exact Or.inr (Or.inr ⟨rfl, ⟨rfl, rfl, rfl⟩, rfl, rfl, rfl⟩)
    · cases hv : Vli.vliDecode r0 with
      | none =>
        simp only [indexRun, if_neg hind, hv]
        exact Or.inr (Or.inr ⟨rfl, ⟨rfl, rfl, rfl⟩, rfl, rfl, rfl⟩)
      | some v =>
        obtain ⟨count, r1⟩ := v
        rw [indexRun_some b l1 s1 ind r0 r1 count hind hv, indexRun_some b l2 s2 ind r0 r1 count hind hv]
        refine (retryThen_agree indexAttempt indexAttempt_restartable (indexFin b (ind :: r0) count)
          (indexStart b l1 s1 _ count) (indexStart b l2 s2 _ count) ⟨⟨⟨rfl, rfl, rfl⟩, rfl⟩, rfl, rfl, rfl⟩ ?_).weaken
        intro a c hac
        unfold indexFin
        cases hid : Container.indexDecode (ind :: r0) with
        | error e => exact ⟨rfl, hac⟩
        | ok v2 =>
          obtain ⟨recs, rest⟩ := v2
          refine ⟨rfl, ⟨⟨?_, hac.1.1.2.1, hac.1.1.2.2⟩, rfl⟩, rfl, hac.2.2.1, hac.2.2.2⟩
          show (if count = 0 then a.core.heap else _).live = (if count = 0 then c.core.heap else _).live
          split
          · exact hac.1.1.1
          · show a.core.heap.live + _ = c.core.heap.live + _
            rw [hac.1.1.1]

/-! ## Scripts that answer every LZMA_MEMLIMIT_ERROR with `lzma_memlimit_set(lzma_memusage())` -/

/-- Every token is "the value lzma_memusage() reports now". -/
def NeededOnly (sets : List SetTok) : Prop := ∀ t ∈ sets, t = SetTok.needed

theorem neededOnly_replicate (n : Nat) : NeededOnly (List.replicate n SetTok.needed) := by
  intro t ht
  exact (List.mem_replicate.mp ht).2

theorem memlimitSet_needed (mu limit : Nat) : memlimitSet mu limit mu = (0, if mu = 0 then 1 else mu) := by
  unfold memlimitSet
  have hacc : ¬ ((if mu = 0 then 1 else mu) < mu) := by split <;> omega
  simp only [if_neg hacc]

theorem trySets_needed (mu limit : Nat) (ts : List SetTok) :
    trySets mu limit (SetTok.needed :: ts) = ([(mu, 0, if mu = 0 then 1 else mu)], some (if mu = 0 then 1 else mu), ts) := by
  simp only [trySets, SetTok.value, memlimitSet_needed, ↓reduceIte]

/-- `lzma_memlimit_set(lzma_memusage())` is always accepted, so such a script gives up only when it is used up. -/
theorem handleMemlimit_needed (r0 r' : Run) (hn : NeededOnly r0.sets) (h : handleMemlimit r0 = (r', false)) :
    r0.sets = [] := by
  cases hs : r0.sets with
  | nil => rfl
  | cons t ts =>
    exfalso
    have ht : t = SetTok.needed := hn t (by rw [hs]; exact List.mem_cons_self ..)
    subst ht
    simp only [handleMemlimit] at h
    have hsets : (r0.emit (.mem r0.core.memusage r0.core.memlimit r0.core.heap.live r0.core.heap.peak)).sets
        = SetTok.needed :: ts := hs
    rw [hsets, trySets_needed] at h
    simp at h

theorem gaveUp_needed (s0 : List SetTok) (k : Nat) (r' : Run) (hn : NeededOnly s0) (h : GaveUp s0 k r') :
    k = 6 ∧ r'.sets = [] := by
  obtain ⟨h6, r0, pre, hg, hp⟩ := h
  refine ⟨h6, ?_⟩
  have hn0 : NeededOnly r0.sets := fun t ht => hn t (by rw [hp]; exact List.mem_append_right _ ht)
  have he := handleMemlimit_needed r0 r' hn0 hg
  obtain ⟨_, _, ⟨pre2, hp2⟩, _⟩ := handleMemlimit_spec r0
  rw [hg, he] at hp2
  simp only at hp2
  have : pre2 ++ r'.sets = [] := hp2.symm
  exact (List.append_eq_nil_iff.mp this).2

end XzVerif.Memlimit
