/-
  C08 helper lemmas, part G: deadlock freedom. In every state that satisfies the invariants and in which the handle has not
  been freed, some thread can take a step that is neither a time-out, nor a spurious wake-up, nor a mere re-check of a wait
  condition that is still false.
-/
import XzVerif.Lemmas.MtEncF

namespace XzVerif.MtEnc

/-- A step that only re-evaluates a wait condition which is still false (the thread goes back to sleep). -/
def Stutter (s : St) : Ev → Prop
  | .mWake => waitCond s = false
  | .wTop i _ => ∃ e w, s.outq[i]? = some e ∧ e.wk = some w ∧ needsRun e w = false
  | .wEnc i _ _ => ∃ e w, s.outq[i]? = some e ∧ e.wk = some w ∧ needsRun e w = false
  | .wFb i => ∃ e w, s.outq[i]? = some e ∧ e.wk = some w ∧ needsRun e w = false
  | _ => False

def Progress (P : Params) (s : St) : Prop := ∃ ev s', step P s ev = some s' ∧ ev.isReal = true ∧ ¬ Stutter s ev

/-- A worker whose wait condition (if it is waiting) is satisfied can take a real step. -/
theorem worker_can_step {P : Params} {s : St} {i : Nat} {e : Entry} {w : WCtx} (hA : InvA P s)
    (hi : s.outq[i]? = some e) (hw : e.wk = some w) (hn : needsRun e w = true) : Progress P s := by
  have hW := (hA e (mem_of_getElem? hi)).wk w hw
  have hcan : w.canRun = true := by
    unfold WCtx.canRun
    cases ha : w.asleep with
    | false => simp
    | true => simp [hW.wake ha hn]
  have nost : ∀ e' w', s.outq[i]? = some e' → e'.wk = some w' → needsRun e' w' = false → False := by
    intro e' w' h1 h2 h3
    rw [hi] at h1; cases h1
    rw [hw] at h2; cases h2
    rw [hn] at h3; cases h3
  cases hpc : w.pc with
  | top =>
    have hst : w.state ≠ .idle := by
      intro a; simp [needsRun, hpc, a] at hn
    have : ∃ s', wTop P s i 0 = some s' := by
      unfold wTop; simp only [hi, hw, hpc, hcan, and_self, if_true]
      cases hs : w.state <;> simp_all
    obtain ⟨s', hs'⟩ := this
    exact ⟨.wTop i 0, s', hs', rfl, fun ⟨e', w', a, b, c⟩ => nost e' w' a b c⟩
  | enc =>
    have hnb : ¬(w.lIn = e.data.length ∧ w.state = .run) := by
      intro a; simp [needsRun, hpc, a.1, a.2] at hn
    have : ∃ s', wEnc P s i true 0 = some s' := by
      unfold wEnc; simp only [hi, hw, hpc, hcan, and_self, if_true, hnb, if_false]
      cases hs : w.state <;> simp
    obtain ⟨s', hs'⟩ := this
    exact ⟨.wEnc i true 0, s', hs', rfl, fun ⟨e', w', a, b, c⟩ => nost e' w' a b c⟩
  | fb =>
    have hst : w.state ≠ .run := by
      intro a; simp [needsRun, hpc, a] at hn
    have : ∃ s', wFb P s i = some s' := by
      unfold wFb; simp only [hi, hw, hpc, hcan, and_self, if_true]
      cases hs : w.state <;> simp_all
    obtain ⟨s', hs'⟩ := this
    exact ⟨.wFb i, s', hs', rfl, fun ⟨e', w', a, b, c⟩ => nost e' w' a b c⟩
  | markIdle =>
    exact ⟨.wMarkIdle i, _, by simp only [step]; unfold wMarkIdle; simp only [hi, hw, hpc, if_true]; rfl, rfl, fun a => a⟩
  | tail =>
    have : ∃ s', wTail s i = some s' := by
      unfold wTail; simp only [hi, hw, hpc, if_true]
      split <;> exact ⟨_, rfl⟩
    obtain ⟨s', hs'⟩ := this
    exact ⟨.wTail i, s', hs', rfl, fun a => a⟩


theorem exists_busy {q : List Entry} (h : 0 < busy q) : ∃ e ∈ q, ∃ w, e.wk = some w := by
  unfold busy at h
  obtain ⟨e, he⟩ := List.exists_mem_of_length_pos h
  have := List.mem_filter.mp he
  cases hk : e.wk with
  | none => simp [hk] at this
  | some w => exact ⟨e, this.1, w, hk⟩

theorem idx_of_mem {q : List Entry} {e : Entry} (h : e ∈ q) : ∃ i : Nat, q[i]? = some e :=
  List.mem_iff_getElem?.mp h

theorem closed_of_shape {q : List Entry} (h : ∀ x ∈ shape q, x.1 = true) {e : Entry} (he : e ∈ q) : e.closed = true :=
  h (e.closed, e.data.length) (List.mem_map.mpr ⟨e, he, rfl⟩)

theorem mtenc_progress_step {P : Params} {s : St} (hA : InvA P s) (hB : InvB s) (hW : InvW s) (hM : InvM s)
    (hd : s.mpc ≠ .dead) : Progress P s := by
  cases hpc : s.mpc with
  | dead => exact absurd hpc hd
  | out =>
    have : ∃ s', mEnd s none = some s' := by simp only [mEnd, hpc, true_or, if_true]; exact ⟨_, rfl⟩
    obtain ⟨s', h⟩ := this; exact ⟨.lzmaEnd, s', h, rfl, fun a => a⟩
  | failed =>
    have : ∃ s', mEnd s none = some s' := by simp only [mEnd, hpc, or_true, if_true]; exact ⟨_, rfl⟩
    obtain ⟨s', h⟩ := this; exact ⟨.lzmaEnd, s', h, rfl, fun a => a⟩
  | hdrOut =>
    have : ∃ s', mHdr P s = some s' := by unfold mHdr; simp only [hpc, if_true]; split <;> exact ⟨_, rfl⟩
    obtain ⟨s', h⟩ := this; exact ⟨.mHdr, s', h, rfl, fun a => a⟩
  | loopTop =>
    have : ∃ s', mRead P s = some s' := by
      unfold mRead; simp only [hpc, if_true]
      split
      · exact ⟨_, rfl⟩
      · split
        · exact ⟨_, rfl⟩
        · split
          · exact ⟨_, rfl⟩
          · split <;> exact ⟨_, rfl⟩
    obtain ⟨s', h⟩ := this; exact ⟨.mRead, s', h, rfl, fun a => a⟩
  | encIn =>
    have : ∃ s', mEncIn s = some s' := by
      unfold mEncIn; simp only [hpc, if_true]
      split; · exact ⟨_, rfl⟩
      split
      · split; · exact ⟨_, rfl⟩
        split; · exact ⟨_, rfl⟩
        split <;> exact ⟨_, rfl⟩
      · rename_i hnt
        have hthr : s.thr = true := by simpa using hnt
        obtain ⟨x, hx, _⟩ := hB.open_ hthr
        cases hl : s.outq.getLast? with
        | none => simp [shape, List.getLast?_map, hl] at hx
        | some e =>
          simp only []
          split
          · exact ⟨_, rfl⟩
          · split <;> exact ⟨_, rfl⟩
    obtain ⟨s', h⟩ := this; exact ⟨.mEncIn, s', h, rfl, fun a => a⟩
  | afterIn =>
    have : ∃ s', mAfterIn P s = some s' := by
      unfold mAfterIn; simp only [hpc, if_true]
      split; · exact ⟨_, rfl⟩
      split; · exact ⟨_, rfl⟩
      split; · exact ⟨_, rfl⟩
      split; · exact ⟨_, rfl⟩
      split <;> exact ⟨_, rfl⟩
    obtain ⟨s', h⟩ := this; exact ⟨.mAfterIn, s', h, rfl, fun a => a⟩
  | tailOut =>
    have : ∃ s', mTail P s = some s' := by unfold mTail; simp only [hpc, if_true]; split <;> exact ⟨_, rfl⟩
    obtain ⟨s', h⟩ := this; exact ⟨.mTail, s', h, rfl, fun a => a⟩
  | waiting =>
    by_cases hc : waitCond s = true
    · have hwk := hM.wake hpc hc
      have : ∃ s', mWake s = some s' := by simp only [mWake, hpc, hwk, and_self, if_true, hc]; exact ⟨_, rfl⟩
      obtain ⟨s', h⟩ := this
      exact ⟨.mWake, s', h, rfl, by simp [Stutter, hc]⟩
    · have hthr := (hM.wThr hpc).1
      have hne : s.mpc ≠ .ending := by simp [hpc]
      have hnr : readable s = false := by
        cases hr : readable s with
        | false => rfl
        | true => exact absurd (by simp [waitCond, hr]) hc
      have hnerr : s.err = none := by
        cases he : s.err with
        | none => rfl
        | some r => exact absurd (by simp [waitCond, he]) hc
      have hq : s.outq ≠ [] := by
        intro hn
        by_cases hi : s.inp = []
        · exact (hM.wEmpty hpc hi).1 hn
        · rcases hM.noThread (Or.inr hpc) hi with a | a
          · have := hB.tmPos; simp [hasBuf, hn] at a; omega
          · have hcnt := hW.cnt
            have hex := hW.exZero hne
            simp [hn, busy, hex] at hcnt
            have := hB.tmPos
            apply hc
            have hie : s.inp.isEmpty = false := by cases h : s.inp with | nil => exact absurd h hi | cons _ _ => rfl
            simp [waitCond, hasBuf, hn, hie]
            omega
      cases hoq : s.outq with
      | nil => exact absurd hoq hq
      | cons e rest =>
        have hmem : e ∈ s.outq := by rw [hoq]; exact List.mem_cons_self
        have hi0 : s.outq[0]? = some e := by rw [hoq]; rfl
        have hfin : e.finished = false := by
          simp [readable, hoq] at hnr; exact hnr
        have hE := hW.ew e hmem
        cases hk : e.wk with
        | none =>
          rcases hE.noWk hk with a | a | a
          · rw [hfin] at a; cases a
          · exact absurd hnerr a
          · rcases a with a | a <;> rw [hpc] at a <;> cases a
        | some w =>
          have hcl : e.closed = true := closed_of_shape (hB.allClosed hthr) hmem
          have hWk := (hA e hmem).wk w hk
          have hnrun : w.state ≠ .run := by
            intro a; have := hWk.runOpen a; rw [hcl] at this; cases this
          have hnidle : w.pc ≠ .tail → w.state ≠ .idle := by
            intro hp a
            rcases hE.idleT w hk a with b | b
            · exact hp b
            · rcases b with b | b <;> rw [hpc] at b <;> cases b
          refine worker_can_step hA hi0 hk ?_
          unfold needsRun
          cases hp : w.pc <;> simp [hnrun]
          exact hnidle (by simp [hp])
  | ending =>
    by_cases h1 : ∃ e ∈ s.outq, ∃ w, e.wk = some w ∧ w.state ≠ .exit
    · obtain ⟨e, he, w, hw, hst⟩ := h1
      obtain ⟨i, hi⟩ := idx_of_mem he
      have : ∃ s', mExitOne s i = some s' := by simp only [mExitOne, hpc, if_true, hi, hw, ne_eq, hst, not_false_eq_true]; exact ⟨_, rfl⟩
      obtain ⟨s', h⟩ := this
      exact ⟨.mExitOne i, s', h, rfl, fun a => a⟩
    · by_cases h2 : s.idle > 0
      · have : ∃ s', mExitIdle s = some s' := by simp only [mExitIdle, hpc, h2, and_self, if_true]; exact ⟨_, rfl⟩
        obtain ⟨s', h⟩ := this
        exact ⟨.mExitIdle, s', h, rfl, fun a => a⟩
      · by_cases h3 : s.exiting > 0
        · have : ∃ s', wExitIdle s = some s' := by simp only [wExitIdle, h3, if_true]; exact ⟨_, rfl⟩
          obtain ⟨s', h⟩ := this
          exact ⟨.wExitIdle, s', h, rfl, fun a => a⟩
        · by_cases h4 : 0 < busy s.outq
          · obtain ⟨e, he, w, hw⟩ := exists_busy h4
            obtain ⟨i, hi⟩ := idx_of_mem he
            have hst : w.state = .exit := by
              apply Classical.byContradiction; intro hn
              exact h1 ⟨e, he, w, hw, hn⟩
            refine worker_can_step hA hi hw ?_
            unfold needsRun
            cases hp : w.pc <;> simp [hst]
          · have : ∃ s', mJoin P s = some s' := by
              unfold mJoin
              have a : s.idle = 0 := by omega
              have b : s.exiting = 0 := by omega
              have c : busy s.outq = 0 := by omega
              simp only [hpc, a, b, c, and_self, if_true]
              split <;> exact ⟨_, rfl⟩
            obtain ⟨s', h⟩ := this; exact ⟨.mJoin, s', h, rfl, fun a => a⟩

end XzVerif.MtEnc
