/-
  C01, LZMA2: the executable decoder `Lzma2.lzma2Decode` on every valid chunk sequence followed by the end marker, and the
  composition with the executable chunker `Lzma2Enc.lzma2Encode`.
-/
import XzVerif.Lemmas.Lzma2ExecBuf

namespace XzVerif.LzmaExec
open XzVerif.RangeDec XzVerif.RangeEnc XzVerif.RangeCoder XzVerif.LzDict XzVerif.Lzma XzVerif.LzmaEnc XzVerif.LzmaSymDec
open XzVerif.LzmaSym XzVerif.LzmaSpec XzVerif.Lzma2Enc XzVerif.Lzma2

/-- the window of the initial decoder state: the tail of the preset dictionary that fits -/
theorem win_init (dictSize : Nat) (preset : List UInt8) (s : St) (hh : hl s.hist = presetTail dictSize preset)
    (hdp : s.dp = DictPos.init dictSize preset.length) : Win s preset.reverse dictSize := by
  generalize hcopy : min preset.length (roundDictSize dictSize) = copy
  have hcopy1 : copy ≤ preset.length := by omega
  have hcopy2 : copy ≤ roundDictSize dictSize := by omega
  have htail : (presetTail dictSize preset).length = copy := by
    simp only [presetTail, List.length_drop]; omega
  have hhsz : s.hist.size = copy := by rw [← hl_length, hh, htail]
  refine ⟨⟨(preset.take (preset.length - copy)).reverse, ?_⟩, ?_, ?_, (by rw [hdp]; rfl), ?_, ?_, ?_, ?_⟩
  · rw [hh]
    simp only [presetTail, hcopy]
    rw [← List.reverse_append, List.take_append_drop]
  · rw [hdp]; simp only [DictPos.init, hcopy]; omega
  · rw [hdp]; simp only [DictPos.init, hcopy, List.length_reverse]; omega
  · rw [hdp]; intro _; simp only [DictPos.init, hcopy, LZ_DICT_INIT_POS]; omega
  · rw [hdp]; intro h; simp [DictPos.init] at h
  · rw [hdp]; simp only [DictPos.init]; omega
  · rw [hdp]
    have := (allocSize_mod dictSize).2.2
    simp only [DictPos.init, hcopy, LZ_DICT_INIT_POS]; omega

theorem cfg0_fields (p : Props) (base : Nat) :
    (cfg0 p base).off = 0 ∧ (cfg0 p base).encPos = 0 ∧ (cfg0 p base).st = {} ∧ (cfg0 p base).ps = initProbs p ∧
    (cfg0 p base).needProps = true ∧ (cfg0 p base).needStateReset = false ∧
    (cfg0 p base).needDictReset = !decide (base > 0) :=
  ⟨rfl, rfl, rfl, rfl, rfl, rfl, rfl⟩

/-- The executable LZMA2 decoder on a valid chunk sequence + end marker. -/
theorem lzma2Decode_of_chunks (p : Props) (hp : PropsOk p) (dictSize : Nat) (hd : dictSize ≤ 4294967295) (buf : ByteArray)
    (base : Nat) (hbase : base ≤ buf.size) (bytes : List UInt8) (CF : L2Cfg)
    (hch : Chunks p dictSize buf base (cfg0 p base) bytes CF) (hoff : CF.off = buf.size - base) (outCap : Nat)
    (hcap : buf.size - base < outCap) :
    lzma2Decode dictSize (bytes ++ [0]) ((hl buf).take base) outCap =
      { ret := .streamEnd, out := (hl buf).drop base, consumed := bytes.length + 1 } := by
  obtain ⟨c0off, c0pos, c0st, c0ps, c0np, c0sr, c0dr⟩ := cfg0_fields p base
  generalize hpreset : (hl buf).take base = preset
  have hplen : preset.length = base := by rw [← hpreset]; simp [hl_length]; omega
  unfold lzma2Decode Coder.code Coder.initLzma2
  simp only []
  generalize hs0 : initLzma2 dictSize preset (ByteArray.mk (bytes ++ [0]).toArray) = s0
  have hinp : s0.inp.data.toList = bytes ++ [0] := by rw [← hs0]; simp [initLzma2]
  have hf0 : s0.l2.seq = .control ∧ s0.l2.needProperties = true ∧ s0.l2.needDictionaryReset = preset.isEmpty ∧
      s0.initLeft = 5 ∧ s0.range = UINT32_MAX ∧ s0.code = 0 ∧ s0.pending = Pending.none ∧ s0.inPos = 0 ∧
      s0.dp = DictPos.init dictSize preset.length ∧ hl s0.hist = presetTail dictSize preset ∧
      s0.outBase = (presetTail dictSize preset).length := by
    rw [← hs0]
    refine ⟨rfl, rfl, rfl, rfl, rfl, rfl, rfl, rfl, rfl, ?_, rfl⟩
    simp [initLzma2, hl]
  obtain ⟨hseq0, hnp0, hndr0, hil0, hrg0, hcd0, hpd0, hip0, hdp0, hhl0, hob0⟩ := hf0
  have hwin0 : Win s0 (win buf base) dictSize := by
    have : win buf base = preset.reverse := by rw [← hpreset]; rfl
    rw [this]; exact win_init dictSize preset s0 hhl0 hdp0
  have hprod0 : s0.hist.size = s0.outBase + 0 := by rw [← hl_length, hhl0, hob0]; rfl
  have hin0 : In s0 (bytes ++ 0 :: []) := by
    show s0.inp.data.toList.drop s0.inPos = _
    rw [hip0, hinp]; simp
  have hproduced0 : s0.produced = 0 := by simp only [St.produced]; omega
  rw [hproduced0, Nat.zero_add]
  obtain ⟨fu, hfu⟩ : ∃ fu, decodeBufferFuel s0 outCap = fu + 2 := ⟨(s0.inp.size - s0.inPos) + (outCap - s0.produced) + 2, by
    simp only [decodeBufferFuel]⟩
  have hfuel : buf.size - base < fu + 1 := by
    have : decodeBufferFuel s0 outCap = (s0.inp.size - s0.inPos) + (outCap - s0.produced) + 4 := rfl
    rw [hproduced0] at this
    omega
  rw [hfu]
  -- the claim, once `decode_buffer` has been run
  suffices hmain : ∃ sF, decodeBuffer lzma2Call (fu + 2) outCap s0 = (.streamEnd, sF) ∧
      Win sF (win buf (base + CF.off)) dictSize ∧ sF.hist.size = sF.outBase + CF.off ∧ In sF [] ∧ sF.outBase = s0.outBase ∧
      sF.inp = s0.inp ∧ sF.inPos ≤ sF.inp.size by
    obtain ⟨sF, hrun, hwF, hpF, hiF, hobF, hinpF, hleF⟩ := hmain
    rw [hrun]
    have hout : histFrom sF.hist sF.outBase = (hl buf).drop base := by
      obtain ⟨extra, hpre⟩ := hwF.pre
      show (hl sF.hist).drop sF.outBase = _
      have hfull : base + CF.off = buf.size := by omega
      rw [hfull, win_full] at hpre
      have hsplit : (hl buf).reverse = ((hl buf).drop base).reverse ++ ((hl buf).take base).reverse := by
        rw [← List.reverse_append, List.take_append_drop]
      rw [hsplit] at hpre
      have hdl : ((hl buf).drop base).length = CF.off := by simp [hl_length]; omega
      have htl : (presetTail dictSize preset).length ≤ ((hl buf).take base).length := by
        rw [hpreset]; simp only [presetTail, List.length_drop]; omega
      exact out_of_win (hl sF.hist) extra _ _ sF.outBase (by rw [hobF, hob0]; exact htl) hpre
        (by rw [hl_length, hpF, hdl])
    have hcons : sF.inPos = bytes.length + 1 := by
      rcases in_length hiF with h1 | ⟨_, h1⟩
      · rw [hinpF] at h1
        have : s0.inp.size = bytes.length + 1 := by
          rw [← ByteArray.size_data, ← Array.length_toList, hinp]; simp
        simp at h1; omega
      · rw [hinpF] at h1 hleF
        have : s0.inp.size = bytes.length + 1 := by
          rw [← ByteArray.size_data, ← Array.length_toList, hinp]; simp
        omega
    simp only [Coder.output, Coder.consumed]
    rw [hout, hcons]
  by_cases hb0 : base = 0
  · -- no preset dictionary: the first control byte resets the dictionary
    subst hb0
    have hpe : preset = [] := List.eq_nil_of_length_eq_zero hplen
    have hndr0' : s0.l2.needDictionaryReset = true := by rw [hndr0, hpe]; rfl
    have hc0dr : (cfg0 p 0).needDictReset = true := by rw [c0dr]; rfl
    have hhist0 : s0.hist.size = 0 := by
      rw [← hl_length, hhl0, hpe]; simp [presetTail]
    have hob00 : s0.outBase = 0 := by rw [hob0, hpe]; simp [presetTail]
    have hdp00 : s0.dp = DictPos.init dictSize 0 := by rw [hdp0, hpe]; rfl
    obtain ⟨hm, hge, hal⟩ := allocSize_mod dictSize
    -- the first iteration
    rw [decodeBuffer_succ]
    generalize hs1 : relimit s0 (outCap - s0.produced) = s1
    have hs1f : s1.l2 = s0.l2 ∧ s1.inp = s0.inp ∧ s1.inPos = s0.inPos ∧ s1.hist = s0.hist ∧ s1.outBase = s0.outBase ∧
        s1.initLeft = 5 ∧ s1.range = UINT32_MAX ∧ s1.code = 0 ∧ s1.pending = Pending.none ∧
        s1.dp.pos = 576 ∧ s1.dp.full = 0 ∧ s1.dp.hasWrapped = false ∧ s1.dp.size = allocSize dictSize ∧
        576 ≤ s1.dp.limit ∧ s1.dp.limit ≤ s1.dp.size := by
      rw [← hs1]
      refine ⟨rfl, rfl, rfl, rfl, rfl, hil0, hrg0, hcd0, hpd0, ?_, ?_, ?_, ?_, ?_, ?_⟩
      all_goals simp only [relimit, hdp00, DictPos.init, DictPos.wrap, DictPos.setLimit, LZ_DICT_INIT_POS,
        Nat.zero_min, Nat.add_zero]
      all_goals (have : ((576 : Nat) == allocSize dictSize) = false := by simp; omega)
      all_goals simp only [this, Bool.false_eq_true, if_false]
      all_goals omega
    obtain ⟨h1l2, h1inp, h1ip, h1h, h1ob, h1il, h1rg, h1cd, h1pd, h1pos, h1full, h1wr, h1sz, h1lim, h1lim2⟩ := hs1f
    have hin1 : In s1 (bytes ++ 0 :: []) := by
      show s1.inp.data.toList.drop s1.inPos = _; rw [h1inp, h1ip]; exact hin0
    -- the window of a state with empty history at the initial dictionary position
    have hwin_empty : ∀ t : St, t.hist = s1.hist → t.dp.pos = 576 → t.dp.full = 0 → t.dp.hasWrapped = false →
        t.dp.size = allocSize dictSize → 576 ≤ t.dp.limit → t.dp.limit ≤ t.dp.size → Win t (win buf (0 + 0)) dictSize := by
      intro t e1 e2 e3 e4 e5 e6 e7
      have hw0 : win buf (0 + 0) = [] := by simp [win]
      rw [hw0]
      have hts : t.hist.size = 0 := by rw [e1, h1h]; exact hhist0
      have hhl : hl t.hist = [] := List.eq_nil_of_length_eq_zero (by rw [hl_length]; exact hts)
      refine ⟨⟨[], by rw [hhl]; rfl⟩, by omega, Or.inl (by simp), e5, ?_, ?_, by omega, e7⟩
      · intro _; simp only [LZ_DICT_INIT_POS]; omega
      · intro h; rw [e4] at h; cases h
    have key : ∀ t : St, t.outBase = s0.outBase → t.inp = s0.inp → Ready p dictSize buf 0 [] CF t →
        t.outBase + CF.off - t.hist.size = buf.size - 0 → t.outBase ≤ t.hist.size →
        ∃ sF, decodeBuffer lzma2Call (fu + 1) outCap t = (.streamEnd, sF) ∧ Win sF (win buf (0 + CF.off)) dictSize ∧
          sF.hist.size = sF.outBase + CF.off ∧ In sF [] ∧ sF.outBase = s0.outBase ∧ sF.inp = s0.inp ∧ sF.inPos ≤ sF.inp.size := by
      intro t e1 e2 hr hn hob
      obtain ⟨sF, a, b', c, d, e, g, i⟩ := db2_run p hp dictSize hd buf 0 [] CF outCap (buf.size - 0) (fu + 1) t hr hn hob
        (by omega) hfuel
      exact ⟨sF, a, b', c, d, by rw [e, e1], by rw [g, e2], i⟩
    cases hch with
    | nil =>
      -- empty data: the stream is just the end marker
      obtain ⟨hlt, hbyte, hdrop⟩ := curByte_of_drop (s := s1) (b := 0) (rest := []) (by have := hin1; simpa [In] using this)
      have hcb : curByte s1 = 0 := by rw [hbyte]; rfl
      rw [lzma2Call_eq]
      obtain ⟨f1, hf1⟩ : ∃ f1, 2 * (s1.inp.size - s1.inPos) + 4 = f1 + 1 := ⟨_, rfl⟩
      rw [hf1, loop_control f1 s1 hlt (by rw [h1l2]; exact hseq0)]
      simp only [hcb, ctl_end, if_true]
      have hnr1 : s1.dp.needReset = false := by rw [← hs1]; simp only [relimit, DictPos.setLimit, DictPos.wrap]; split <;> (rw [hdp00]; rfl)
      simp only [hnr1, Bool.false_eq_true, if_false, show (Ret.streamEnd != Ret.ok) = true from rfl, Bool.true_or, if_true]
      refine ⟨_, rfl, ?_, ?_, hdrop, ?_, h1inp, ?_⟩
      · rw [c0off]
        exact (hwin_empty s1 rfl h1pos h1full h1wr h1sz h1lim h1lim2).congr rfl rfl
      · show s1.hist.size = s1.outBase + (cfg0 p 0).off
        rw [h1h, h1ob, c0off, hhist0, hob00]
      · exact h1ob
      · show s1.inPos + 1 ≤ s1.inp.size; omega
    | @cons _ C1 _ b bs hc hrest =>
      have hin1' : In s1 (b ++ (bs ++ 0 :: [])) := by simpa [List.append_assoc] using hin1
      -- the state after the dictionary reset requested by the first control byte
      have hnotfull : (s1.hist.size - s1.outBase == outCap) = false := by
        simp only [h1h, h1ob, hhist0, hob00]; simp; omega
      cases hc with
      | lzma syms ops encPos' st' usize henc hlen hu1 hu2 hoffc hcs =>
        simp only [LZMA2_UNCOMPRESSED_MAX] at hu2
        have hx : (usize - 1) / 65536 < 32 := by omega
        simp only [headerLzma, c0np, hc0dr, if_true, List.cons_append, List.nil_append] at hin1'
        obtain ⟨hlt, hbyte, hdrop⟩ := curByte_of_drop hin1'
        have hcb : curByte s1 = (if true = true then (if true = true then 0x80 + 3 * 32 else 0x80 + 2 * 32)
            else (if (cfg0 p 0).needStateReset = true then 0x80 + 32 else 0x80)) + (usize - 1) / 65536 := by
          rw [hbyte, ofNat_toNat_of_lt]
          · simp
          · simp; omega
        rw [lzma2Call_eq]
        obtain ⟨f1, hf1⟩ : ∃ f1, 2 * (s1.inp.size - s1.inPos) + 4 = f1 + 1 := ⟨_, rfl⟩
        rw [hf1, loop_control f1 s1 hlt (by rw [h1l2]; exact hseq0), hcb, h1l2, hnp0, hndr0',
          ctl_lzma true (cfg0 p 0).needStateReset true _ hx (fun _ => rfl)]
        simp only [Bool.false_eq_true, if_false, if_true, controlApply, Bool.not_true, Bool.false_and]
        simp only [setL2, St.produced, hnotfull, show (Ret.ok != Ret.ok) = false from rfl, Bool.false_or, Bool.false_eq_true,
          if_false]
        -- now a ready state: after the control byte of the first LZMA chunk
        refine key _ h1ob h1inp
          (Ready.afterL (C := cfg0 p 0) (syms := syms) (ops := ops) (encPos' := encPos') (st' := st') (usize := usize)
            (bytes' := bs) ?_ hrest) ?_ ?_
        · refine ⟨rfl, rfl, (by rw [if_pos c0np]), rfl, rfl, (fun h => by rw [c0np] at h; cases h), ?_, ?_, rfl, ?_, henc, hlen, hu1,
            (by simp only [LZMA2_UNCOMPRESSED_MAX]; exact hu2), hoffc, hcs, ?_⟩
          · intro _
            simp only [L2Cfg.st0, L2Cfg.ps0, c0sr, Bool.false_eq_true, if_false, c0st, c0ps, and_self]
          · rw [c0off]
            exact hwin_empty _ rfl rfl rfl rfl h1sz h1lim h1lim2
          · show s1.hist.size = s1.outBase + (cfg0 p 0).off
            rw [h1h, h1ob, c0off, hhist0, hob00]
          · simp only [c0np, if_true]
            exact hdrop
        · show s1.outBase + CF.off - s1.hist.size = buf.size - 0
          rw [h1h, h1ob, hhist0, hob00, hoff]; omega
        · show s1.outBase ≤ s1.hist.size
          rw [h1h, h1ob, hhist0, hob00]
      | uncomp usize encPos' st' ps' hu1 hu2 hoffc =>
        simp only [headerUncompressed, hc0dr, if_true, List.cons_append, List.nil_append] at hin1'
        obtain ⟨hlt, hbyte, hdrop⟩ := curByte_of_drop hin1'
        have hcb : curByte s1 = if true = true then 1 else 2 := by rw [hbyte]; rfl
        rw [lzma2Call_eq]
        obtain ⟨f1, hf1⟩ : ∃ f1, 2 * (s1.inp.size - s1.inPos) + 4 = f1 + 1 := ⟨_, rfl⟩
        rw [hf1, loop_control f1 s1 hlt (by rw [h1l2]; exact hseq0), hcb, h1l2, hnp0, hndr0', ctl_uncomp]
        simp only [Bool.false_eq_true, if_false, if_true, controlApply]
        simp only [setL2, St.produced, hnotfull, show (Ret.ok != Ret.ok) = false from rfl, Bool.false_or, Bool.false_eq_true,
          if_false]
        refine key _ h1ob h1inp
          (Ready.afterU (C := cfg0 p 0) (usize := usize) (encPos' := encPos') (st' := st') (ps' := ps') (bytes' := bs) ?_ hrest)
          ?_ ?_
        · refine ⟨rfl, rfl, c0np.symm, rfl, (fun h => by rw [c0np] at h; cases h), h1il, h1rg, h1cd, h1pd, ?_, rfl, ?_, ?_, hu1, hu2,
            hoffc⟩
          · rw [c0off]
            exact hwin_empty _ rfl rfl rfl rfl h1sz h1lim h1lim2
          · show s1.hist.size = s1.outBase + (cfg0 p 0).off
            rw [h1h, h1ob, c0off, hhist0, hob00]
          · exact hdrop
        · show s1.outBase + CF.off - s1.hist.size = buf.size - 0
          rw [h1h, h1ob, hhist0, hob00, hoff]; omega
        · show s1.outBase ≤ s1.hist.size
          rw [h1h, h1ob, hhist0, hob00]
  · -- preset dictionary: no dictionary reset; the initial state is a chunk boundary
    have hbpos : base > 0 := by omega
    have hc0dr : (cfg0 p base).needDictReset = false := by rw [c0dr]; simp [hbpos]
    have hpne : preset.isEmpty = false := by
      cases preset with
      | nil => simp at hplen; omega
      | cons _ _ => rfl
    have hb : BSt p dictSize buf base (cfg0 p base) s0 :=
      ⟨hseq0, hnp0.trans c0np.symm, (by rw [hndr0, hpne]), hc0dr, (fun h => by rw [c0np] at h; cases h), hil0, hrg0, hcd0, hpd0,
        (by rw [c0off]; exact hwin0), (fun h => by rw [c0np] at h; cases h), (by rw [hdp0]; rfl), (fun _ _ => ⟨c0st, c0ps⟩),
        (by rw [c0off]; omega), (by rw [c0off]; exact hprod0)⟩
    obtain ⟨sF, hrun, hwF, hpF, hiF, hobF, hinpF, hleF⟩ := db2_run p hp dictSize hd buf base [] CF outCap (buf.size - base) (fu + 2) s0
      (Ready.boundary hb hch hin0) (by rw [hprod0, hoff]; omega) (by omega) (by omega) (by omega)
    exact ⟨sF, hrun, hwF, hpF, hiF, hobF, hinpF, hleF⟩

/-- For ANY chunk-closing limits: executable LZMA2 chunker, then executable LZMA2 decoder: the data comes back, LZMA_STREAM_END, every byte consumed. -/
theorem lzma2_exec_roundtripL (lim : ChunkLimits) (p : Props) (hp : PropsOk p) (dictSize : Nat) (hd : dictSize ≤ 4294967295)
    (preset data : ByteArray) (tr : Array TraceRec) (res : EncResult)
    (h : lzma2EncodeL lim p dictSize (preset ++ data) preset.size tr = .ok res) (outCap : Nat) (hcap : data.size < outCap) :
    lzma2Decode dictSize res.out preset.toList outCap =
      { ret := .streamEnd, out := data.toList, consumed := res.out.length } := by
  have hsz : (preset ++ data).size = preset.size + data.size := ByteArray.size_append
  obtain ⟨bytes, CF, hch, hoff, hout⟩ := lzma2EncodeL_sound lim p dictSize (preset ++ data) preset.size tr res (by omega) h
  have hall : hl (preset ++ data) = hl preset ++ hl data := by simp only [hl, ByteArray.toList_data_append]
  have htake : (hl (preset ++ data)).take preset.size = preset.toList := by
    rw [hall, toList_eq, List.take_left' (hl_length preset)]; rfl
  have hdrop : (hl (preset ++ data)).drop preset.size = data.toList := by
    rw [hall, toList_eq, List.drop_left' (hl_length preset)]; rfl
  have := lzma2Decode_of_chunks p hp dictSize hd (preset ++ data) preset.size (by omega) bytes CF hch hoff outCap (by omega)
  rw [htake, hdrop] at this
  rw [hout, this]
  simp

/-- Executable LZMA2 chunker, then executable LZMA2 decoder: the data comes back, LZMA_STREAM_END, every byte consumed. -/
theorem lzma2_exec_roundtrip (p : Props) (hp : PropsOk p) (dictSize : Nat) (hd : dictSize ≤ 4294967295)
    (preset data : ByteArray) (tr : Array TraceRec) (res : EncResult)
    (h : lzma2Encode p dictSize (preset ++ data) preset.size tr = .ok res) (outCap : Nat) (hcap : data.size < outCap) :
    lzma2Decode dictSize res.out preset.toList outCap =
      { ret := .streamEnd, out := data.toList, consumed := res.out.length } := by
  rw [lzma2Encode_std] at h; exact lzma2_exec_roundtripL .std p hp dictSize hd preset data tr res h outCap hcap

end XzVerif.LzmaExec
