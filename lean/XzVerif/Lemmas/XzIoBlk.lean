/-
  C17: the signal-blocking discipline.  `St.blk` is signals_block_count of signals.c.
  (1) Every message / progress path of message.c gives the state back unchanged (block and unblock are paired on every
      path, including the early returns of progress_flush) -- so `exec` may elide them.
  (2) The counter is 1 exactly inside io_open_src / io_open_dest / io_close and 0 everywhere else: in particular 0 during
      every read/write/poll of the coding loop and 0 at the end of a file (= at the boundary to the next file).
-/
import XzVerif.Lemmas.XzIoFrame

namespace XzVerif.XzIo
variable {α : Type}

/-! ### message and progress paths -/

theorem sigUnblock_sigBlock (s : St α) : sigUnblock (sigBlock s) = s := by
  cases s; simp [sigUnblock, sigBlock]

theorem vmessage_id (printed : Bool) (s : St α) : vmessage printed s = s := by
  unfold vmessage; split
  · exact sigUnblock_sigBlock s
  · rfl

/-- progress_flush(): whatever `progress_started`, the verbosity, `finished`, `progress_active` and the positions are,
    the block count (and everything else) is as before -/
theorem progressFlush_id (started verbose finished active posZero : Bool) (s : St α) :
    progressFlush started verbose finished active posZero s = s := by
  unfold progressFlush
  split
  · rfl
  · split
    · rfl
    · exact sigUnblock_sigBlock s

theorem progressStart_id (va : Bool) (s : St α) : progressStart va s = s := by
  unfold progressStart; split
  · exact sigUnblock_sigBlock s
  · rfl

/-- message_error() = vmessage() + set_exit_status(E_ERROR) -/
theorem msgError_eq (printed : Bool) (s : St α) : msgError s = { vmessage printed s with exitSt := 1 } := by
  rw [vmessage_id]; rfl

theorem msgWarn_eq (printed : Bool) (s : St α) :
    msgWarn s = { vmessage printed s with exitSt := if s.exitSt = 1 then 1 else 2 } := by
  rw [vmessage_id]; rfl

/-! ### the counter as a function of the program counter -/

/-- inside io_open_src / io_open_dest / io_close -/
def Pc.region : Pc → Bool
  | .read | .readPoll | .write | .writePoll | .seekHole | .fixPos | .tailSeek | .done => false
  | _ => true

def QB (s : St α) : Prop := s.blk = if s.pc.region then 1 else 0

variable (c : Cfg α)

@[simp] theorem appendData_blk (s : St α) (d : List α) : (appendData c s d).blk = s.blk := by
  unfold appendData; split <;> rfl

theorem qb_closeSrcPhase (s : St α) (h : s.blk = 1) : QB (closeSrcPhase c s) := by
  unfold closeSrcPhase; split <;> simp [QB, Pc.region, h]

theorem qb_closeDestPhase (s : St α) (h : s.blk = 1) : QB (closeDestPhase c s) := by
  unfold closeDestPhase
  split
  · exact qb_closeSrcPhase c s h
  · split <;> simp [QB, Pc.region, h]

theorem qb_afterAttrs (s : St α) (h : s.blk = 1) : QB (afterAttrs c s) := by
  unfold afterAttrs; split
  · simp [QB, Pc.region, h]
  · exact qb_closeDestPhase c s h

theorem qb_closeBlock (s : St α) (h : s.blk = 0) : QB (closeBlock c s) := by
  unfold closeBlock; split
  · simp [QB, Pc.region, h]
  · exact qb_closeDestPhase c _ (by simp [h])

theorem qb_ioClose (s : St α) (h : s.blk = 0) : QB (ioClose c s) := by
  unfold ioClose; split
  · simp [QB, Pc.region, h]
  · exact qb_closeBlock c s h

theorem qb_ioFail (s : St α) (h : s.blk = 0) : QB (ioFail c s) := by
  unfold ioFail; exact qb_closeBlock c _ h

theorem qb_finish (s : St α) (h : s.blk = 0) : QB (finish c s) := by
  unfold finish; split
  · exact qb_ioClose c _ h
  · exact qb_ioFail c _ h

theorem qb_nextMain (ops : List (Op α)) (s : St α) (h : s.blk = 0) : QB (nextMain c ops s) := by
  induction ops generalizing s with
  | nil => unfold nextMain; exact qb_finish c _ h
  | cons op r ih =>
    cases op <;> unfold nextMain
    · split
      · exact qb_ioFail c s h
      · exact ih s h
    · split
      · exact ih s h
      · simp [QB, Pc.region, h]
    · split
      · exact ih s h
      · split
        · exact ih _ h
        · split
          · exact ih s h
          · split <;> simp [QB, Pc.region, h]
    · split
      · exact ih s h
      · simp [QB, Pc.region, h]

theorem qb_doInit (s : St α) (h : s.blk = 0) : QB (doInit c s) := by
  unfold doInit; simp only
  split
  · exact qb_ioFail c _ h
  · split
    · exact qb_ioFail c _ h
    · split
      · exact qb_nextMain c _ _ h
      · split
        · simp [QB, Pc.region, h]
        · split
          · simp [QB, Pc.region, h]
          · split <;> simp [QB, Pc.region, h]

theorem qb_nextPre (ops : List (Op α)) (s : St α) (h : s.blk = 0) : QB (nextPre c ops s) := by
  induction ops generalizing s with
  | nil => unfold nextPre; exact qb_doInit c s h
  | cons op r ih =>
    cases op <;> unfold nextPre
    · exact ih s h
    · split
      · exact ih s h
      · simp [QB, Pc.region, h]
    · exact ih s h
    · exact ih s h

theorem qb_continueLoop (s : St α) (h : s.blk = 0) : QB (continueLoop c s) := by
  unfold continueLoop; split
  · exact qb_nextMain c _ s h
  · exact qb_nextPre c _ s h

theorem qb_afterWrite (s : St α) (h : s.blk = 0) : QB (afterWrite c s) := by
  unfold afterWrite; split
  · exact qb_closeBlock c s h
  · exact qb_continueLoop c s h

theorem qb_openDestErr (s : St α) (h : s.blk = 1) : QB (openDestErr c s) := by
  unfold openDestErr; split
  · simp [QB, Pc.region, h]
  · exact qb_ioFail c _ (by simp [h])

end XzVerif.XzIo
