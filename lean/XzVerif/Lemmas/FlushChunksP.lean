/-
  C12: C01's LZMA2 chunk specification (`Chunks`, Lemmas/Lzma2EncExec.lean) is for ONE fixed lc/lp/pb. `lzma_filters_update`
  may change lc/lp/pb at a chunk boundary (lzma2_encoder_options_update: the new values are stored, `need_properties` and
  `need_state_reset` are set, so the next LZMA chunk carries a properties byte and resets the coder state).

  `ChunksP` is the chunk specification with such changes: runs of C01 chunks, separated by "switch" steps that replace the
  properties in force and set the two flags. The Bool index says whether a switch occurs at all; without one the relation
  is C01's `Chunks` (`ChunksP.toChunks`).
-/
import XzVerif.Lemmas.Lzma2EncExec

namespace XzVerif.LzmaExec
open XzVerif.RangeDec XzVerif.RangeEnc XzVerif.RangeCoder XzVerif.LzDict XzVerif.Lzma XzVerif.LzmaEnc XzVerif.LzmaSymDec
open XzVerif.LzmaSym XzVerif.LzmaSpec XzVerif.Lzma2Enc

/-- what `lzma2_encoder_options_update` does to the chunk configuration when lc/lp/pb change -/
def L2Cfg.switched (C : L2Cfg) : L2Cfg := { C with needProps := true, needStateReset := true }

/-- chunk sequences whose lc/lp/pb may change at chunk boundaries: `ChunksP sw p C bytes p' C'` = starting with
    properties `p` in configuration `C`, `bytes` is a valid chunk sequence that ends with properties `p'` in force and
    configuration `C'`; `sw = false` means that no change happens. -/
inductive ChunksP (dictSize : Nat) (buf : ByteArray) (base : Nat) : Bool → Props → L2Cfg → List UInt8 → Props → L2Cfg → Prop
  | nil (p : Props) (C : L2Cfg) : ChunksP dictSize buf base false p C [] p C
  | chunk {sw : Bool} {p p' : Props} {C C1 C2 : L2Cfg} {b bs : List UInt8} :
      ChunkOk p dictSize buf base C b C1 → ChunksP dictSize buf base sw p C1 bs p' C2 →
      ChunksP dictSize buf base sw p C (b ++ bs) p' C2
  | switch {sw : Bool} {p p2 p' : Props} {C C2 : L2Cfg} {bs : List UInt8} :
      PropsOk p2 → ChunksP dictSize buf base sw p2 C.switched bs p' C2 →
      ChunksP dictSize buf base true p C bs p' C2

variable {dictSize : Nat} {buf : ByteArray} {base : Nat}

/-- without a change of lc/lp/pb: C01's `Chunks` -/
theorem ChunksP.toChunks {p p' : Props} {C C' : L2Cfg} {bytes : List UInt8}
    (h : ChunksP dictSize buf base false p C bytes p' C') : p' = p ∧ Chunks p dictSize buf base C bytes C' := by
  generalize hsw : false = sw at h
  induction h with
  | nil p C => exact ⟨rfl, Chunks.nil _⟩
  | chunk hc _ ih => obtain ⟨e, hr⟩ := ih hsw; exact ⟨e, Chunks.cons hc hr⟩
  | switch _ _ _ => cases hsw

theorem ChunksP.ofChunks {p : Props} {C C' : L2Cfg} {bytes : List UInt8} (h : Chunks p dictSize buf base C bytes C') :
    ChunksP dictSize buf base false p C bytes p C' := by
  induction h with
  | nil C => exact ChunksP.nil _ _
  | cons hc _ ih => exact ChunksP.chunk hc ih

/-- a switch may be recorded although none happened (the index is an upper bound) -/
theorem ChunksP.weaken {sw : Bool} {p p' : Props} {C C' : L2Cfg} {bytes : List UInt8}
    (h : ChunksP dictSize buf base sw p C bytes p' C') : ∃ sw', ChunksP dictSize buf base sw' p C bytes p' C' := ⟨sw, h⟩

/-- one more chunk at the end -/
theorem ChunksP.snoc {sw : Bool} {p p' : Props} {C C1 C2 : L2Cfg} {a b : List UInt8}
    (h : ChunksP dictSize buf base sw p C a p' C1) (hc : ChunkOk p' dictSize buf base C1 b C2) :
    ChunksP dictSize buf base sw p C (a ++ b) p' C2 := by
  induction h with
  | nil p C => simpa using ChunksP.chunk hc (ChunksP.nil _ _)
  | chunk h1 _ ih => rw [List.append_assoc]; exact ChunksP.chunk h1 (ih hc)
  | switch hp _ ih => exact ChunksP.switch hp (ih hc)

/-- a change of lc/lp/pb at the end -/
theorem ChunksP.snocSwitch {sw : Bool} {p p' : Props} {C C1 : L2Cfg} {a : List UInt8}
    (h : ChunksP dictSize buf base sw p C a p' C1) (p2 : Props) (hp2 : PropsOk p2) :
    ChunksP dictSize buf base true p C a p2 C1.switched := by
  induction h with
  | nil p C => exact ChunksP.switch hp2 (ChunksP.nil _ _)
  | @chunk sw p p' C C1 C2 b bs h1 _ ih =>
    have := ChunksP.chunk h1 ih
    exact this
  | switch hp _ ih => exact ChunksP.switch hp ih

end XzVerif.LzmaExec
