/-
  read_output_and_wait as a whole (label rowIter) and lzma_outq_enable_partial_output at the end of SEQ_BLOCK_THR_INIT
  (label enablePartial): data + control invariant, or a removed failed Block with the single-threaded result delivered.
-/
import XzVerif.Lemmas.MtDecRow

namespace XzVerif.MtDec

theorem outqRead_nil {s : State} (hq : s.queue = []) : (outqRead s).1.queue = [] ∧ (outqRead s).2 = OK := by
  rw [outqRead_eq]; simp [hq]

theorem readLoop_nil (fuel : Nat) : ∀ {s : State}, s.queue = [] → (readLoop fuel s).1.queue = [] := by
  induction fuel with
  | zero => intro s hq; simpa [readLoop] using hq
  | succ fuel ih =>
    intro s hq
    have := outqRead_nil hq
    simp only [readLoop]
    split
    · rename_i hend; rw [this.2] at hend; cases hend
    · exact this.1

/-- The control invariant across the critical section of read_output_and_wait. -/
theorem CtlInv.row {s s1 s' : State} (h : CtlInv s) (f : RowFrame s s1) (hqn : s.queue = [] → s1.queue = [])
    (k : RowK) (hk : rowKOf s.pc = some k) (hk' : rowKOf s'.pc = some k)
    (e1 : s'.blocks = s1.blocks) (e2 : s'.cur = s1.cur) (e3 : s'.seq = s1.seq) (e4 : s'.directPos = s1.directPos)
    (e5 : s'.queue = s1.queue) (e6 : s'.thr = s1.thr) (e7 : s'.workers = s1.workers)
    (e8 : s'.threadsFree = s1.threadsFree) : CtlInv s' := by
  obtain ⟨c1, c2, c3, c4, c5, c6, c6a, c6b, c7, c8, c9, c10⟩ := h
  have hseq : s'.seq = s.seq := e3.trans f.seq
  have hcur : s'.cur = s.cur := e2.trans f.cur
  have hblocks : s'.blocks = s.blocks := e1.trans f.blocks
  have eb : ∀ j, blk s' j = blk s j := fun j => by simp [blk, hblocks]
  have hpc_s : ∀ {P : Prop}, (s.pc = .init1 ∨ s.pc = .init2 ∨ s.pc = .init3 ∨ s.pc = .init4 ∨ s.pc = .init5 ∨ s.pc = .ended ∨
      (∃ i, s.pc = .endSet i .direct ∨ s.pc = .endJoin i .direct) ∨ (∃ a b, s.pc = .tell a b)) → P := by
    intro P hx
    exfalso
    rcases hx with hx | hx | hx | hx | hx | hx | ⟨i, hx | hx⟩ | ⟨a, b, hx⟩ <;> (rw [hx] at hk; simp [rowKOf] at hk)
  have hpc' : ∀ {P : Prop}, (s'.pc = .init1 ∨ s'.pc = .init2 ∨ s'.pc = .init3 ∨ s'.pc = .init4 ∨ s'.pc = .init5 ∨ s'.pc = .ended ∨
      (∃ i, s'.pc = .endSet i .direct ∨ s'.pc = .endJoin i .direct) ∨ (∃ a b, s'.pc = .tell a b)) → P := by
    intro P hx
    exfalso
    rcases hx with hx | hx | hx | hx | hx | hx | ⟨i, hx | hx⟩ | ⟨a, b, hx⟩ <;> (rw [hx] at hk'; simp [rowKOf] at hk')
  have hs45 : s.pc ≠ .init4 ∧ s.pc ≠ .init5 :=
    ⟨fun x => hpc_s (Or.inr (Or.inr (Or.inr (Or.inl x)))), fun x => hpc_s (Or.inr (Or.inr (Or.inr (Or.inr (Or.inl x)))))⟩
  refine ⟨?_, ?_, ?_, ?_, ?_, ?_, ?_, ?_, ?_, ?_, ?_, ?_⟩
  · intro hx
    rw [hcur, hblocks]; apply c1
    rw [hseq] at hx
    rcases hx with hx | hx | hx
    · exact Or.inl hx
    · exact Or.inr (Or.inl ⟨hx.1, hs45⟩)
    · exact Or.inr (Or.inr hx)
  · rw [hseq, hcur, eb]; exact c2
  · rw [hseq, e4, f.directPos]; exact c3
  · rw [hseq, e5]; intro hx; exact hqn (c4 hx)
  · intro k' hk''
    rw [hk'] at hk''; injection hk'' with e; subst e
    rw [hseq]; exact c5 k hk
  · intro _ t ht
    rw [e7, f.wlen]
    rw [e6, f.thr] at ht
    exact c6 (fun x => hpc_s (Or.inr (Or.inr (Or.inr (Or.inr (Or.inr (Or.inl x))))))) t ht
  · rw [e6, f.thr, hseq]; exact c6a
  · intro hx; exact hpc' (Or.inr (Or.inr (Or.inr (Or.inr (Or.inr (Or.inr (Or.inl hx)))))))
  · intro hx; exact hpc' (Or.inr (Or.inr (Or.inl hx)))
  · intro hx; exact hpc' (Or.inr (Or.inr (Or.inr (Or.inl hx))))
  · intro hx
    rcases hx with hx | hx | hx | hx | hx
    · exact hpc' (Or.inl hx)
    · exact hpc' (Or.inr (Or.inl hx))
    · exact hpc' (Or.inr (Or.inr (Or.inl hx)))
    · exact hpc' (Or.inr (Or.inr (Or.inr (Or.inl hx))))
    · exact hpc' (Or.inr (Or.inr (Or.inr (Or.inr (Or.inl hx)))))
  · intro a b hx
    exact hpc' (Or.inr (Or.inr (Or.inr (Or.inr (Or.inr (Or.inr (Or.inr ⟨a, b, hx⟩)))))))

/-- States that differ at most in pc, pend, outWasFilled, mwoken. -/
structure SameCore (a b : State) : Prop where
  blocks : b.blocks = a.blocks
  cfg : b.cfg = a.cfg
  cur : b.cur = a.cur
  queue : b.queue = a.queue
  outRev : b.outRev = a.outRev
  readPos : b.readPos = a.readPos
  directPos : b.directPos = a.directPos
  workers : b.workers = a.workers
  threadsFree : b.threadsFree = a.threadsFree
  seq : b.seq = a.seq
  thr : b.thr = a.thr
  returned : b.returned = a.returned
  threadError : b.threadError = a.threadError
  outCap : b.outCap = a.outCap

theorem SameCore.refl (a : State) : SameCore a a := ⟨rfl, rfl, rfl, rfl, rfl, rfl, rfl, rfl, rfl, rfl, rfl, rfl, rfl, rfl⟩

theorem SameCore.trans {a b c : State} (h1 : SameCore a b) (h2 : SameCore b c) : SameCore a c :=
  ⟨h2.blocks.trans h1.blocks, h2.cfg.trans h1.cfg, h2.cur.trans h1.cur, h2.queue.trans h1.queue,
   h2.outRev.trans h1.outRev, h2.readPos.trans h1.readPos, h2.directPos.trans h1.directPos,
   h2.workers.trans h1.workers, h2.threadsFree.trans h1.threadsFree, h2.seq.trans h1.seq, h2.thr.trans h1.thr,
   h2.returned.trans h1.returned, h2.threadError.trans h1.threadError, h2.outCap.trans h1.outCap⟩

theorem markFilled_core (s : State) (c : Nat) : SameCore s (markFilled s c) ∧ (markFilled s c).pc = s.pc := by
  unfold markFilled; split
  · exact ⟨⟨rfl, rfl, rfl, rfl, rfl, rfl, rfl, rfl, rfl, rfl, rfl, rfl, rfl, rfl⟩, rfl⟩
  · exact ⟨SameCore.refl _, rfl⟩

theorem flagPend_core (s : State) : SameCore s (flagPend s) ∧ (flagPend s).pc = s.pc := by
  unfold flagPend; split
  · exact ⟨⟨rfl, rfl, rfl, rfl, rfl, rfl, rfl, rfl, rfl, rfl, rfl, rfl, rfl, rfl⟩, rfl⟩
  · exact ⟨SameCore.refl _, rfl⟩

theorem rowLeaveOrWait_core (s : State) (k : RowK) (w : Bool) :
    SameCore s (rowLeaveOrWait s k w) ∧
    ((∃ c, (rowLeaveOrWait s k w).pc = .rowDone k OK c) ∨ (rowLeaveOrWait s k w).pc = .rowWait k w) := by
  unfold rowLeaveOrWait
  repeat' split
  all_goals first
    | exact ⟨⟨rfl, rfl, rfl, rfl, rfl, rfl, rfl, rfl, rfl, rfl, rfl, rfl, rfl, rfl⟩, Or.inl ⟨_, rfl⟩⟩
    | exact ⟨⟨rfl, rfl, rfl, rfl, rfl, rfl, rfl, rfl, rfl, rfl, rfl, rfl, rfl, rfl⟩, Or.inr rfl⟩

/-- One critical section of read_output_and_wait: either a failed Block was removed (single-threaded result reached), or the
    invariants hold in the resulting state, which is at `rowDone` or `rowWait`. -/
theorem rowIterate_spec {s : State} (h : Inv s) (k : RowK) (w : Bool) (hk : rowKOf s.pc = some k) :
    (∃ r, BadPop (rowIterate s k w) r ∧ (rowIterate s k w).pc = .rowDone k r false ∧ (rowIterate s k w).returned = s.returned ∧
        (rowIterate s k w).blocks = s.blocks ∧ (rowIterate s k w).cfg = s.cfg) ∨
    (Inv (rowIterate s k w) ∧ rowKOf (rowIterate s k w).pc = some k ∧ (rowIterate s k w).returned = s.returned ∧
        (rowIterate s k w).blocks = s.blocks ∧ (rowIterate s k w).cfg = s.cfg ∧
        (∀ r c, (rowIterate s k w).pc = .rowDone k r c → fatal r = true → s.cfg.failFast = true)) := by
  obtain ⟨f, rne, dok, dbad⟩ := readLoop_spec (s.queue.length + 1) h.1
  have hqn := readLoop_nil (s.queue.length + 1) (s := s)
  unfold rowIterate
  dsimp only
  split
  · rename_i hr
    have hr' : (readLoop (s.queue.length + 1) s).2 ≠ OK := by simpa using hr
    have hb := dbad hr'
    exact Or.inl ⟨_, ⟨hb.ne, hb.nok, hb.final⟩, rfl, f.returned, f.blocks, f.cfg⟩
  · rename_i hr
    have hr' : (readLoop (s.queue.length + 1) s).2 = OK := by simpa using hr
    have hD1 := dok hr'
    have key : ∀ s' : State, SameCore (readLoop (s.queue.length + 1) s).1 s' → rowKOf s'.pc = some k → Inv s' := by
      intro s' c e11
      exact ⟨hD1.congr c.blocks c.cur c.queue c.outRev c.readPos c.directPos c.workers c.threadsFree,
             h.2.row f hqn k hk e11 c.blocks c.cur c.seq c.directPos c.queue c.thr c.workers c.threadsFree⟩
    have m := markFilled_core (readLoop (s.queue.length + 1) s).1 s.outCap
    refine Or.inr ?_
    split
    · rename_i hff
      simp only [Bool.and_eq_true] at hff
      have hcfg : s.cfg.failFast = true := by rw [← f.cfg, ← m.1.cfg]; exact hff.2
      refine ⟨key _ (m.1.trans ⟨rfl, rfl, rfl, rfl, rfl, rfl, rfl, rfl, rfl, rfl, rfl, rfl, rfl, rfl⟩) rfl, rfl,
              m.1.returned.trans f.returned, m.1.blocks.trans f.blocks, m.1.cfg.trans f.cfg, fun _ _ _ _ => hcfg⟩
    · have fp := flagPend_core (markFilled (readLoop (s.queue.length + 1) s).1 s.outCap)
      have lw := rowLeaveOrWait_core (flagPend (markFilled (readLoop (s.queue.length + 1) s).1 s.outCap)) k w
      have core := (m.1.trans fp.1).trans lw.1
      have hpk : rowKOf (rowLeaveOrWait (flagPend (markFilled (readLoop (s.queue.length + 1) s).1 s.outCap)) k w).pc = some k := by
        rcases lw.2 with ⟨c, hc⟩ | hc <;> rw [hc] <;> rfl
      refine ⟨key _ core hpk, hpk, core.returned.trans f.returned, core.blocks.trans f.blocks, core.cfg.trans f.cfg, ?_⟩
      intro r c hp hf
      rcases lw.2 with ⟨c', hc⟩ | hc
      · rw [hc] at hp; injection hp with _ e _; subst e; simp [fatal, OK] at hf
      · rw [hc] at hp; cases hp

theorem Inv.enablePartial {s s' : State} (h : Inv s) (hs : step s .enablePartial = some s') : Inv s' := by
  simp only [step] at hs
  split at hs
  case isFalse => cases hs
  rename_i hpc
  have hpc : s.pc = .init5 := by simpa using hpc
  injection hs with hs; subst hs
  obtain ⟨f, q, o, r, _⟩ := enablePartialHead_spec s
  obtain ⟨c1, c2, c3, c4, c5, c6, c6a, c6b, c7, c8, c9, c10⟩ := h.2
  have hseq : s.seq = .thrInit := c9 (by simp [hpc])
  refine ⟨(h.1.enablePartialHead).congr rfl rfl rfl rfl rfl rfl rfl rfl, ?_⟩
  refine ⟨?_, ?_, ?_, ?_, ?_, ?_, ?_, ?_, ?_, ?_, ?_, ?_⟩
  · intro hx; simp at hx
  · intro hx; simp at hx
  · intro _; show (enablePartialHead s).directPos = 0; rw [f.directPos]; exact c3 (by simp [hseq])
  · intro hx; simp at hx
  · intro k hk; simp [rowKOf] at hk
  · intro _ t ht
    show t < (enablePartialHead s).workers.length
    rw [f.wlen]
    exact c6 (by simp [hpc]) t (f.thr ▸ ht)
  · intro t _; exact Or.inr (Or.inl rfl)
  · intro ⟨i, hx⟩; simp at hx
  · intro hx; cases hx
  · intro hx; cases hx
  · intro hx; simp at hx
  · intro a b hx; cases hx

theorem rowIter_spec {s s' : State} (h : Inv s) (c : Cause) (hs : step s (.rowIter c) = some s') :
    (∃ r k, BadPop s' r ∧ s'.pc = .rowDone k r false ∧ s'.returned = s.returned ∧ s'.blocks = s.blocks ∧ s'.cfg = s.cfg) ∨
    (Inv s' ∧ s'.returned = s.returned ∧ s'.blocks = s.blocks ∧ s'.cfg = s.cfg ∧
      (∀ k r c, s'.pc = .rowDone k r c → fatal r = true → s.cfg.failFast = true) ∧ (rowKOf s'.pc).isSome) := by
  simp only [step] at hs
  have key : ∀ k w, rowKOf s.pc = some k → s' = rowIterate s k w →
      (∃ r k, BadPop s' r ∧ s'.pc = .rowDone k r false ∧ s'.returned = s.returned ∧ s'.blocks = s.blocks ∧ s'.cfg = s.cfg) ∨
      (Inv s' ∧ s'.returned = s.returned ∧ s'.blocks = s.blocks ∧ s'.cfg = s.cfg ∧
        (∀ k r c, s'.pc = .rowDone k r c → fatal r = true → s.cfg.failFast = true) ∧ (rowKOf s'.pc).isSome) := by
    intro k w hk e
    subst e
    rcases rowIterate_spec h k w hk with ⟨r, hb, hp, h1, h2, h3⟩ | ⟨hi, hp, h1, h2, h3, h4⟩
    · exact Or.inl ⟨r, k, hb, hp, h1, h2, h3⟩
    · refine Or.inr ⟨hi, h1, h2, h3, ?_, by rw [hp]; rfl⟩
      intro k' r c hpc hf
      have : k' = k := by rw [hpc] at hp; simpa [rowKOf] using hp
      subst this
      exact h4 r c hpc hf
  split at hs
  · rename_i k w hpc
    injection hs with hs
    exact key k w (by rw [hpc]; rfl) hs.symm
  · rename_i k w hpc
    split at hs
    · injection hs with hs
      exact key k w (by rw [hpc]; rfl) hs.symm
    · cases hs
  · rename_i k w hpc
    injection hs with hs
    exact key k w (by rw [hpc]; rfl) hs.symm
  · cases hs

end XzVerif.MtDec
