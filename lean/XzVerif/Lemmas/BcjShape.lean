/-
  The "shape" facts about the eight BCJ filter loops that `simple_coder.c` relies on besides chunk stability (C06 bridge to C15):
  the size never changes, a prefix of `n ≤ size` bytes is reported as processed, fewer than `w` bytes are left over
  (`w` = 4, 5, 8, 16: the window of the loop; `unfiltered_max` of the init function is ≥ `w - 1`), and the bytes that were not
  processed are the input's own bytes.  Kernel proofs only.
-/
import XzVerif.Lemmas.BcjBlocks
import XzVerif.Lemmas.BcjThumb
import XzVerif.Lemmas.BcjX86
import XzVerif.Lemmas.BcjRiscv

namespace XzVerif.Bcj

/-- `o`/`n` = output bytes / return value of a filter call on `l`. -/
structure Shape (w : Nat) (l o : List UInt8) (n : Nat) : Prop where
  len : o.length = l.length
  count : n ≤ l.length
  leaves : l.length < n + w
  tail : o.drop n = l.drop n

theorem Shape.stop {w : Nat} (l : List UInt8) (h : l.length < w) : Shape w l l 0 :=
  ⟨rfl, Nat.zero_le _, by omega, rfl⟩

/-- One step of a loop: `k` bytes (`pre` ↦ `pre'`) are handled, the rest recursively. -/
theorem Shape.step {w : Nat} {t o : List UInt8} {n : Nat} (h : Shape w t o n) (pre pre' : List UInt8) (k : Nat)
    (h1 : pre.length = k) (h2 : pre'.length = k) : Shape w (pre ++ t) (pre' ++ o) (n + k) := by
  refine ⟨by simp [h.len, h1, h2], by have := h.count; simp [h1]; omega, by have := h.leaves; simp [h1]; omega, ?_⟩
  have e1 : (pre' ++ o).drop (n + k) = o.drop n := by
    rw [Nat.add_comm, ← List.drop_drop, List.drop_left' h2]
  have e2 : (pre ++ t).drop (n + k) = t.drop n := by
    rw [Nat.add_comm, ← List.drop_drop, List.drop_left' h1]
  rw [e1, e2, h.tail]

/-! ### the fixed-grid filters (`blockCode`) -/

theorem blocks_drop {w : Nat} (f : BitVec 32 → BitVec (8 * w) → BitVec (8 * w)) :
    ∀ (n : Nat) (pc : BitVec 32) (l : List UInt8), n * w ≤ l.length → (blocks w f n pc l).drop (n * w) = l.drop (n * w) := by
  intro n
  induction n with
  | zero => intro pc l _; simp [blocks]
  | succ k ih =>
    intro pc l h
    have hk : k * w ≤ (l.drop w).length := by
      rw [List.length_drop, Nat.succ_mul] at *; omega
    simp only [blocks]
    have e : (k + 1) * w = w + k * w := by rw [Nat.succ_mul, Nat.add_comm]
    rw [e, ← List.drop_drop, List.drop_left' (unpackLE_length w _), ih _ _ hk, List.drop_drop]

theorem blockCode_shape {w : Nat} (hw : 0 < w) (f : BitVec 32 → BitVec (8 * w) → BitVec (8 * w)) (pc : BitVec 32) (l : List UInt8) :
    Shape w l (blockCode w f pc l).1 (blockCode w f pc l).2 := by
  refine ⟨blockCode_length f pc l, ?_, ?_, ?_⟩
  · rw [blockCode_processed]; omega
  · rw [blockCode_processed]
    have := Nat.mod_lt l.length hw
    have := Nat.mod_le l.length w
    omega
  · exact blocks_drop f _ pc l (Nat.div_mul_le_self _ _)

/-! ### ARM-Thumb -/

theorem thumbGo_shape (e : Bool) : ∀ (n : Nat) (l : List UInt8) (pc : BitVec 32), l.length ≤ n →
    Shape 4 l (thumbGo e pc l).1 (thumbGo e pc l).2 := by
  intro n
  induction n with
  | zero => intro l pc h; rw [thumbGo_short e pc l (by omega)]; exact Shape.stop l (by omega)
  | succ k ih =>
    intro l pc h
    match l with
    | [] | [_] | [_, _] | [_, _, _] => rw [thumbGo_short e pc _ (by simp)]; exact Shape.stop _ (by simp)
    | b0 :: b1 :: b2 :: b3 :: rest =>
      simp only [List.length_cons] at h
      by_cases hc : thumbCond b1 b3 = true
      · rw [thumbGo_conv e pc b0 b1 b2 b3 rest hc]
        exact (ih rest (pc + 4#32) (by omega)).step [b0, b1, b2, b3] [_, _, _, _] 4 rfl rfl
      · have hc' : thumbCond b1 b3 = false := by simpa using hc
        rw [thumbGo_skip e pc b0 b1 b2 b3 rest hc']
        exact (ih (b2 :: b3 :: rest) (pc + 2#32) (by simp only [List.length_cons]; omega)).step [b0, b1] [b0, b1] 2 rfl rfl

/-! ### x86 -/

theorem x86Go_shape (e : Bool) : ∀ (n : Nat) (l : List UInt8) (pc : BitVec 32) (st : X86State), l.length ≤ n →
    Shape 5 l (x86Go e pc st l).1 (x86Go e pc st l).2.1 := by
  intro n
  induction n with
  | zero => intro l pc st h; rw [x86Go_short e pc st l (by omega)]; exact Shape.stop l (by omega)
  | succ k ih =>
    intro l pc st h
    match l with
    | [] | [_] | [_, _] | [_, _, _] | [_, _, _, _] => rw [x86Go_short e pc st _ (by simp)]; exact Shape.stop _ (by simp)
    | b0 :: b1 :: b2 :: b3 :: b4 :: rest =>
      have hlen : (b1 :: b2 :: b3 :: b4 :: rest).length ≤ k := by simp only [List.length_cons] at h ⊢; omega
      have hrest : rest.length ≤ k := by simp only [List.length_cons] at h; omega
      cases hop : isOpcode b0
      · rw [x86Go_skip _ _ _ _ _ _ _ _ _ hop]
        exact (ih _ (pc + 1#32) st hlen).step [b0] [b0] 1 rfl rfl
      · cases hc : x86Convertible b4 (x86NewMask st pc)
        · rw [x86Go_noconv _ _ _ _ _ _ _ _ _ hop hc]
          exact (ih _ (pc + 1#32) _ hlen).step [b0] [b0] 1 rfl rfl
        · rw [x86Go_conv _ _ _ _ _ _ _ _ _ hop hc]
          exact (ih rest (pc + 5#32) _ hrest).step [b0, b1, b2, b3, b4] [_, _, _, _, _] 5 rfl rfl

theorem x86Code_shape (e : Bool) (st : X86State) (off : BitVec 32) (l : List UInt8) :
    Shape 5 l (x86Code e st off l).1 (x86Code e st off l).2.1 := by
  by_cases h5 : l.length < 5
  · rw [x86Code_short e st off l h5]; exact Shape.stop l h5
  · rw [x86Code_long e st off l h5]; exact x86Go_shape e _ l off _ (Nat.le_refl _)

/-! ### RISC-V -/

theorem rvPairEnc_length (pc i j : BitVec 32) : (rvPairEnc pc i j).length = 8 := rfl
theorem rvSpecialEnc_length (i j : BitVec 32) : (rvSpecialEnc i j).length = 8 := rfl
theorem rvPairDec_length (i j : BitVec 32) : (rvPairDec i j).length = 8 := rfl
theorem rvSpecialDec_length (pc i j : BitVec 32) : (rvSpecialDec pc i j).length = 8 := rfl

theorem rvEncGo_shape : ∀ (n : Nat) (l : List UInt8) (pc : BitVec 32), l.length ≤ n →
    Shape 8 l (rvEncGo pc l).1 (rvEncGo pc l).2 := by
  intro n
  induction n with
  | zero => intro l pc h; rw [rvEncGo_short pc l (by omega)]; exact Shape.stop l (by omega)
  | succ k ih =>
    intro l pc h
    match l with
    | [] | [_] | [_, _] | [_, _, _] | [_, _, _, _] | [_, _, _, _, _] | [_, _, _, _, _, _] | [_, _, _, _, _, _, _] =>
      rw [rvEncGo_short pc _ (by simp)]; exact Shape.stop _ (by simp)
    | b0 :: b1 :: b2 :: b3 :: b4 :: b5 :: b6 :: b7 :: rest =>
      simp only [List.length_cons] at h
      have i2 := ih (b2 :: b3 :: b4 :: b5 :: b6 :: b7 :: rest) (pc + 2#32) (by simp only [List.length_cons]; omega)
      have i4 := ih (b4 :: b5 :: b6 :: b7 :: rest) (pc + 4#32) (by simp only [List.length_cons]; omega)
      have i6 := ih (b6 :: b7 :: rest) (pc + 6#32) (by simp only [List.length_cons]; omega)
      have i8 := ih rest (pc + 8#32) (by omega)
      rw [rvEncGo_eq]
      split
      · split
        · exact i2.step [b0, b1] [b0, b1] 2 rfl rfl
        · exact i4.step [b0, b1, b2, b3] [_, _, _, _] 4 rfl rfl
      · split
        · split
          · split
            · exact i6.step [b0, b1, b2, b3, b4, b5] [b0, b1, b2, b3, b4, b5] 6 rfl rfl
            · exact i8.step [b0, b1, b2, b3, b4, b5, b6, b7] _ 8 rfl (rvPairEnc_length _ _ _)
          · split
            · exact i4.step [b0, b1, b2, b3] [b0, b1, b2, b3] 4 rfl rfl
            · exact i8.step [b0, b1, b2, b3, b4, b5, b6, b7] _ 8 rfl (rvSpecialEnc_length _ _)
        · exact i2.step [b0, b1] [b0, b1] 2 rfl rfl

theorem rvDecGo_shape : ∀ (n : Nat) (l : List UInt8) (pc : BitVec 32), l.length ≤ n →
    Shape 8 l (rvDecGo pc l).1 (rvDecGo pc l).2 := by
  intro n
  induction n with
  | zero => intro l pc h; rw [rvDecGo_short pc l (by omega)]; exact Shape.stop l (by omega)
  | succ k ih =>
    intro l pc h
    match l with
    | [] | [_] | [_, _] | [_, _, _] | [_, _, _, _] | [_, _, _, _, _] | [_, _, _, _, _, _] | [_, _, _, _, _, _, _] =>
      rw [rvDecGo_short pc _ (by simp)]; exact Shape.stop _ (by simp)
    | b0 :: b1 :: b2 :: b3 :: b4 :: b5 :: b6 :: b7 :: rest =>
      simp only [List.length_cons] at h
      have i2 := ih (b2 :: b3 :: b4 :: b5 :: b6 :: b7 :: rest) (pc + 2#32) (by simp only [List.length_cons]; omega)
      have i4 := ih (b4 :: b5 :: b6 :: b7 :: rest) (pc + 4#32) (by simp only [List.length_cons]; omega)
      have i6 := ih (b6 :: b7 :: rest) (pc + 6#32) (by simp only [List.length_cons]; omega)
      have i8 := ih rest (pc + 8#32) (by omega)
      rw [rvDecGo_eq]
      split
      · split
        · exact i2.step [b0, b1] [b0, b1] 2 rfl rfl
        · exact i4.step [b0, b1, b2, b3] [_, _, _, _] 4 rfl rfl
      · split
        · split
          · split
            · exact i6.step [b0, b1, b2, b3, b4, b5] [b0, b1, b2, b3, b4, b5] 6 rfl rfl
            · exact i8.step [b0, b1, b2, b3, b4, b5, b6, b7] _ 8 rfl (rvPairDec_length _ _)
          · split
            · exact i4.step [b0, b1, b2, b3] [b0, b1, b2, b3] 4 rfl rfl
            · exact i8.step [b0, b1, b2, b3, b4, b5, b6, b7] _ 8 rfl (rvSpecialDec_length _ _ _)
        · exact i2.step [b0, b1] [b0, b1] 2 rfl rfl

theorem riscvCode_shape (e : Bool) (pc : BitVec 32) (l : List UInt8) : Shape 8 l (riscvCode e pc l).1 (riscvCode e pc l).2 := by
  cases e
  · exact rvDecGo_shape _ l pc (Nat.le_refl _)
  · exact rvEncGo_shape _ l pc (Nat.le_refl _)

end XzVerif.Bcj
