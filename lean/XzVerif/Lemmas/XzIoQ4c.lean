import XzVerif.Lemmas.XzIoQ4Def

namespace XzVerif.XzIo
variable {α : Type}
set_option linter.unusedSimpArgs false

theorem q4_exec_fsyncFile {c : Cfg α} {de : Bool} {s : St α} (hf : c.o.force = false) (hpc : s.pc = .fsyncFile) (h : Q4 c de s) :
    Q4 c de (exec c s) := by
  obtain ⟨h1, h2, h3, h4, h5, h6⟩ := h
  have u1 : ∀ s : St α, (continueLoop c s).pc ≠ .unlinkForce := fun s e => by simpa [hf] using continueLoop_unlinkForce c s e
  have u2 : ∀ s : St α, (afterWrite c s).pc ≠ .unlinkForce := fun s e => by simpa [hf] using afterWrite_unlinkForce c s e
  have u3 := openDestErr_unlinkForce c
  unfold exec; simp only [hpc]
  repeat' split
  all_goals
    refine ⟨?_, ?_, ?_, ?_, ?_, ?_⟩ <;>
    simp_all [emit, msgWarn, msgError, FS.unlinkDstName, FS.unlinkSrcName, FS.unlinkIno, inoOwn, inoPre, inoSrc]
theorem q4_exec_fsyncDir {c : Cfg α} {de : Bool} {s : St α} (hf : c.o.force = false) (hpc : s.pc = .fsyncDir) (h : Q4 c de s) :
    Q4 c de (exec c s) := by
  obtain ⟨h1, h2, h3, h4, h5, h6⟩ := h
  have u1 : ∀ s : St α, (continueLoop c s).pc ≠ .unlinkForce := fun s e => by simpa [hf] using continueLoop_unlinkForce c s e
  have u2 : ∀ s : St α, (afterWrite c s).pc ≠ .unlinkForce := fun s e => by simpa [hf] using afterWrite_unlinkForce c s e
  have u3 := openDestErr_unlinkForce c
  unfold exec; simp only [hpc]
  repeat' split
  all_goals
    refine ⟨?_, ?_, ?_, ?_, ?_, ?_⟩ <;>
    simp_all [emit, msgWarn, msgError, FS.unlinkDstName, FS.unlinkSrcName, FS.unlinkIno, inoOwn, inoPre, inoSrc]
theorem q4_exec_closeDir {c : Cfg α} {de : Bool} {s : St α} (hf : c.o.force = false) (hpc : s.pc = .closeDir) (h : Q4 c de s) :
    Q4 c de (exec c s) := by
  obtain ⟨h1, h2, h3, h4, h5, h6⟩ := h
  have u1 : ∀ s : St α, (continueLoop c s).pc ≠ .unlinkForce := fun s e => by simpa [hf] using continueLoop_unlinkForce c s e
  have u2 : ∀ s : St α, (afterWrite c s).pc ≠ .unlinkForce := fun s e => by simpa [hf] using afterWrite_unlinkForce c s e
  have u3 := openDestErr_unlinkForce c
  unfold exec; simp only [hpc]
  repeat' split
  all_goals
    refine ⟨?_, ?_, ?_, ?_, ?_, ?_⟩ <;>
    simp_all [emit, msgWarn, msgError, FS.unlinkDstName, FS.unlinkSrcName, FS.unlinkIno, inoOwn, inoPre, inoSrc]
theorem q4_exec_closeDest {c : Cfg α} {de : Bool} {s : St α} (hf : c.o.force = false) (hpc : s.pc = .closeDest) (h : Q4 c de s) :
    Q4 c de (exec c s) := by
  obtain ⟨h1, h2, h3, h4, h5, h6⟩ := h
  have u1 : ∀ s : St α, (continueLoop c s).pc ≠ .unlinkForce := fun s e => by simpa [hf] using continueLoop_unlinkForce c s e
  have u2 : ∀ s : St α, (afterWrite c s).pc ≠ .unlinkForce := fun s e => by simpa [hf] using afterWrite_unlinkForce c s e
  have u3 := openDestErr_unlinkForce c
  unfold exec; simp only [hpc]
  repeat' split
  all_goals
    refine ⟨?_, ?_, ?_, ?_, ?_, ?_⟩ <;>
    simp_all [emit, msgWarn, msgError, FS.unlinkDstName, FS.unlinkSrcName, FS.unlinkIno, inoOwn, inoPre, inoSrc]
theorem q4_exec_statDest {c : Cfg α} {de : Bool} {s : St α} (_hf : c.o.force = false) (hpc : s.pc = .statDest) (h : Q4 c de s) :
    Q4 c de (exec c s) := by
  unfold exec; simp only [hpc]
  split
  · exact q4_same h (by simp [msgWarn, emit]) (by simp [msgWarn, emit]) (by simp) (by simp)
  · exact q4_same h (by simp [msgWarn, emit]) (by simp [msgWarn, emit]) (by simp) (by simp)
  · rename_i i0 _ hname
    split
    · rename_i hi
      have hi : i0 = s.destStIno := hi
      refine ⟨h.pre, h.srcN, by simp, fun _ => ?_, h.stIno, h.still⟩
      show s.fs.dstName ≠ _
      rw [hname, hi]; intro e; exact h.stIno (Option.some.inj e)
    · exact q4_same h (by simp [msgWarn, emit]) (by simp [msgWarn, emit]) (by simp) (by simp)

theorem q4_exec_unlinkDest {c : Cfg α} {de : Bool} {s : St α} (hf : c.o.force = false) (hpc : s.pc = .unlinkDest) (h : Q4 c de s) :
    Q4 c de (exec c s) := by
  have hne := h.atUnlink hpc
  unfold exec; simp only [hpc]
  split
  · exact q4_same h (by simp [msgWarn, emit]) (by simp [msgWarn, emit]) (by simp) (by simp)
  · exact q4_same h (by simp [msgWarn, emit]) (by simp [msgWarn, emit]) (by simp) (by simp)
  · rename_i i0 _ hname
    have hi : i0 ≠ inoPre := by intro e; rw [e] at hname; exact hne hname
    refine ⟨?_, ?_, by simp, by simp, ?_, ?_⟩
    · simp only [closeSrcPhase_fs, emit, FS.unlinkDstName, hname]
      show (s.fs.unlinkIno i0).preLinked = true
      rw [unlinkIno_preLinked _ hi]; exact h.pre
    · simp only [closeSrcPhase_fs, emit]
      show s.fs.unlinkDstName.srcName ≠ _
      rw [unlinkDstName_srcName]; exact h.srcN
    · simp only [closeSrcPhase_destStIno, emit]; exact h.stIno
    · intro hm hd; exact absurd (h.still hm hd).1 hne

theorem q4_exec_closeSrc {c : Cfg α} {de : Bool} {s : St α} (hf : c.o.force = false) (hpc : s.pc = .closeSrc) (h : Q4 c de s) :
    Q4 c de (exec c s) := by
  obtain ⟨h1, h2, h3, h4, h5, h6⟩ := h
  have u1 : ∀ s : St α, (continueLoop c s).pc ≠ .unlinkForce := fun s e => by simpa [hf] using continueLoop_unlinkForce c s e
  have u2 : ∀ s : St α, (afterWrite c s).pc ≠ .unlinkForce := fun s e => by simpa [hf] using afterWrite_unlinkForce c s e
  have u3 := openDestErr_unlinkForce c
  unfold exec; simp only [hpc]
  repeat' split
  all_goals
    refine ⟨?_, ?_, ?_, ?_, ?_, ?_⟩ <;>
    simp_all [emit, msgWarn, msgError, FS.unlinkDstName, FS.unlinkSrcName, FS.unlinkIno, inoOwn, inoPre, inoSrc]
theorem q4_exec_statSrc {c : Cfg α} {de : Bool} {s : St α} (_hf : c.o.force = false) (hpc : s.pc = .statSrc) (h : Q4 c de s) :
    Q4 c de (exec c s) := by
  unfold exec; simp only [hpc]
  repeat' split
  all_goals exact q4_same h rfl rfl (by simp) (by simp)

theorem q4_exec_unlinkSrc {c : Cfg α} {de : Bool} {s : St α} (hf : c.o.force = false) (hpc : s.pc = .unlinkSrc) (h : Q4 c de s) :
    Q4 c de (exec c s) := by
  unfold exec; simp only [hpc]
  split
  · exact q4_same h rfl rfl (by simp) (by simp)
  · exact q4_same h rfl rfl (by simp) (by simp)
  · rename_i i0 _ hname
    have hi : i0 ≠ inoPre := by intro e; rw [e] at hname; exact h.srcN hname
    refine ⟨?_, ?_, by simp, by simp, h.stIno, ?_⟩
    · show (s.fs.unlinkSrcName).preLinked = true
      simp only [FS.unlinkSrcName, hname]
      rw [unlinkIno_preLinked _ hi]; exact h.pre
    · show s.fs.unlinkSrcName.srcName ≠ _
      rcases unlinkSrcName_srcName s.fs with e | e <;> rw [e]
      · simp
      · exact h.srcN
    · intro hm hd
      show s.fs.unlinkSrcName.dstName = _ ∧ s.fs.unlinkSrcName.ownLinked = false
      refine ⟨by rw [unlinkSrcName_dstName]; exact (h.still hm hd).1, ?_⟩
      simp only [FS.unlinkSrcName, hname]
      exact unlinkIno_ownLinked_false _ _ (h.still hm hd).2


end XzVerif.XzIo
