/-
  Helper lemmas for C10: the ownership invariant `Good`, Hoare-style specifications `Spec` for computations in
  the allocator monad, and the specification of every primitive / combinator of `Model/Alloc.lean`.

  `Good h L`  : heap `h` has never freed a non-live block, its live blocks are exactly the multiset `L`
                (compared by `List.count`, so the order never matters), no block occurs twice, and every block
                is older than the next allocation.
  `Spec m pre post` : running `m` from ANY heap whose live blocks are `pre ++ F` (for an arbitrary frame `F`)
                and under ANY failure oracle ends in a heap whose live blocks are `post result ++ F`.
                The frame rule is built in.
-/
import XzVerif.Model.Alloc

namespace XzVerif.Alloc

/-! ## Multiset equality of block lists -/

def CEq (a b : List Nat) : Prop := ∀ i, a.count i = b.count i

theorem CEq.rfl' {a : List Nat} : CEq a a := fun _ => rfl
theorem CEq.symm {a b : List Nat} (h : CEq a b) : CEq b a := fun i => (h i).symm
theorem CEq.trans {a b c : List Nat} (h : CEq a b) (h' : CEq b c) : CEq a c := fun i => (h i).trans (h' i)

theorem CEq.perm {a b : List Nat} (h : CEq a b) : a.Perm b := List.perm_iff_count.mpr h

@[simp] theorem toL_none : toL none = [] := rfl
@[simp] theorem toL_some (i : Nat) : toL (some i) = [i] := rfl
@[simp] theorem optIds_nil : optIds [] = [] := rfl
@[simp] theorem optIds_cons (x : Option Nat) (t : List (Option Nat)) : optIds (x :: t) = toL x ++ optIds t := by
  simp [optIds, List.flatMap_cons]
@[simp] theorem optIds_append (a b : List (Option Nat)) : optIds (a ++ b) = optIds a ++ optIds b := by
  simp [optIds, List.flatMap_append]

/-- turns a `CEq` goal into linear arithmetic over `count` atoms -/
macro "ceq" : tactic =>
  `(tactic| (intro i; simp only [List.count_append, List.count_cons, List.count_nil, List.append_assoc, List.nil_append,
      List.append_nil, List.cons_append, beq_iff_eq, optIds_cons, optIds_append, optIds_nil, toL_none, toL_some]
      <;> (try split) <;> (try split) <;> (try split) <;> omega))

theorem count_optIds_setO (l : List (Option Nat)) (s : Nat) (v : Option Nat) (i : Nat) :
    (optIds (setO l s v)).count i + (toL (getO l s)).count i = (optIds l).count i + (toL v).count i := by
  induction l generalizing s with
  | nil =>
    induction s with
    | zero => simp [setO, getO]
    | succ k ih => simpa [setO, getO] using ih
  | cons x t ih =>
    cases s with
    | zero => simp [setO, getO, List.count_append]; omega
    | succ k => have := ih k; simp [setO, getO, List.count_append] at *; omega

theorem getO_setO_same (l : List (Option Nat)) (s : Nat) (v : Option Nat) : getO (setO l s v) s = v := by
  induction l generalizing s with
  | nil =>
    induction s with
    | zero => simp [setO, getO]
    | succ k ih => simpa [setO, getO] using ih
  | cons x t ih =>
    cases s with
    | zero => simp [setO, getO]
    | succ k => simpa [setO, getO] using ih k


theorem getO_setO_other (l : List (Option Nat)) (s t : Nat) (v : Option Nat) (h : s ≠ t) :
    getO (setO l s v) t = getO l t := by
  induction l generalizing s t with
  | nil =>
    induction s generalizing t with
    | zero =>
      cases t with
      | zero => exact absurd rfl h
      | succ k => simp [setO, getO]
    | succ k ih =>
      cases t with
      | zero => simp [setO, getO]
      | succ m => simpa [setO, getO] using ih m (by omega)
  | cons x r ih =>
    cases s with
    | zero =>
      cases t with
      | zero => exact absurd rfl h
      | succ k => simp [setO, getO]
    | succ k =>
      cases t with
      | zero => simp [setO, getO]
      | succ m => simpa [setO, getO] using ih k m (by omega)

theorem count_optIds_reverse (l : List (Option Nat)) (i : Nat) : (optIds l.reverse).count i = (optIds l).count i := by
  induction l with
  | nil => rfl
  | cons x t ih => simp [List.count_append, ih]; omega

/-! ## The ownership invariant -/

def Good (h : Heap) (L : List Nat) : Prop :=
  h.bad = false ∧ CEq h.live L ∧ (∀ i, L.count i ≤ 1) ∧ (∀ i, h.next ≤ i → L.count i = 0)

theorem Good.congr {h : Heap} {L L' : List Nat} (g : Good h L) (e : CEq L L') : Good h L' := by
  obtain ⟨h1, h2, h3, h4⟩ := g
  refine ⟨h1, fun i => (h2 i).trans (e i), fun i => ?_, fun i hi => ?_⟩
  · rw [← e i]; exact h3 i
  · rw [← e i]; exact h4 i hi

theorem Good.log {h : Heap} {L : List Nat} (g : Good h L) (lg : List Ev) : Good { h with log := lg } L := g

def Spec {α : Type} (m : M α) (pre : List Nat) (post : α → List Nat) : Prop :=
  ∀ f h F, Good h (pre ++ F) → Good (m f h).2 (post (m f h).1 ++ F)

@[simp] theorem run_pure {α : Type} (a : α) (f : Oracle) (h : Heap) : (pure a : M α) f h = (a, h) := rfl
@[simp] theorem run_bind {α β : Type} (m : M α) (k : α → M β) (f : Oracle) (h : Heap) :
    (m >>= k) f h = k (m f h).1 f (m f h).2 := rfl

theorem Spec.bind {α β : Type} {m : M α} {k : α → M β} {pre : List Nat} {mid : α → List Nat} {post : β → List Nat}
    (hm : Spec m pre mid) (hk : ∀ a, Spec (k a) (mid a) post) : Spec (m >>= k) pre post := by
  intro f h F hg
  simp only [run_bind]
  exact hk _ f _ F (hm f h F hg)

theorem Spec.pure {α : Type} {a : α} {pre : List Nat} {post : α → List Nat} (e : CEq pre (post a)) :
    Spec (pure a : M α) pre post := by
  intro f h F hg
  simp only [run_pure]
  refine hg.congr ?_
  intro i; have := e i; simp [List.count_append]; omega

/-- consequence + frame: `m` only needs the part `pre` of what is owned; the rest `E` is untouched -/
theorem Spec.frame {α : Type} {m : M α} {pre : List Nat} {post : α → List Nat} {P : List Nat} {Q : α → List Nat}
    (E : List Nat) (hm : Spec m pre post) (hp : CEq P (pre ++ E)) (hq : ∀ a, CEq (post a ++ E) (Q a)) : Spec m P Q := by
  intro f h F hg
  have g1 : Good h (pre ++ (E ++ F)) := hg.congr (by
    intro i; have := hp i; simp [List.count_append] at *; omega)
  have g2 := hm f h (E ++ F) g1
  exact g2.congr (by intro i; have := hq (m f h).1 i; simp [List.count_append] at *; omega)

theorem Spec.conseq {α : Type} {m : M α} {pre : List Nat} {post : α → List Nat} {P : List Nat} {Q : α → List Nat}
    (hm : Spec m pre post) (hp : CEq P pre) (hq : ∀ a, CEq (post a) (Q a)) : Spec m P Q :=
  Spec.frame [] hm (by intro i; simpa using hp i) (by intro a i; simpa using hq a i)

/-! ## Primitives -/

theorem spec_alloc (sz : Option Nat) : Spec (alloc sz) [] (fun r => toL r) := by
  intro f h F hg
  obtain ⟨h1, h2, h3, h4⟩ := hg
  simp only [List.nil_append] at h2 h3 h4
  unfold alloc
  split
  · refine ⟨h1, ?_, ?_, ?_⟩
    · simpa using h2
    · simpa using h3
    · intro i hi; simp at hi ⊢; exact h4 i (by omega)
  · have hn := h4 h.next (Nat.le_refl _)
    refine ⟨h1, ?_, ?_, ?_⟩
    · intro i; have := h2 i; simp [List.count_cons] at *; omega
    · intro i; have := h3 i; simp [List.count_cons] at *
      by_cases hi : h.next = i
      · subst hi; simp; omega
      · simp [hi]; omega
    · intro i hi; have h5 : h.next + 1 ≤ i := hi
      have := h4 i (by omega); simp [List.count_cons] at *
      refine ⟨this, by omega⟩

theorem good_eraseLive {h : Heap} {i : Nat} {R : List Nat} (g : Good h (i :: R)) : Good (eraseLive h i) R := by
  obtain ⟨h1, h2, h3, h4⟩ := g
  have hmem : i ∈ h.live := by
    have := h2 i
    simp at this
    exact List.count_pos_iff.mp (by omega)
  unfold eraseLive
  simp only [hmem, if_true]
  refine ⟨h1, ?_, ?_, ?_⟩
  · intro j; have := h2 j; simp [List.count_erase, List.count_cons] at *
    by_cases hj : i = j
    · subst hj; simp at *; omega
    · simp [hj] at *; omega
  · intro j; have := h3 j; simp [List.count_cons] at *; omega
  · intro j hj; have := h4 j hj; simp [List.count_cons] at *; omega

theorem spec_free1 (i : Nat) : Spec (free1 i) [i] (fun _ => []) := by
  intro f h F hg
  exact (good_eraseLive (by simpa using hg)).log _

theorem spec_free (p : Option Nat) : Spec (free p) (toL p) (fun _ => []) := by
  cases p with
  | none => exact Spec.pure (by intro i; rfl)
  | some i => exact spec_free1 i

theorem good_foldl_eraseLive (l : List Nat) {h : Heap} {R : List Nat} (g : Good h (l ++ R)) :
    Good (l.foldl eraseLive h) R := by
  induction l generalizing h with
  | nil => simpa using g
  | cons x t ih => exact ih (good_eraseLive (by simpa using g))

theorem spec_freeSet (l : List Nat) : Spec (freeSet l) l (fun _ => []) := by
  intro f h F hg
  unfold freeSet
  split
  · rename_i he
    have : l = [] := by simpa using he
    subst this; simpa using hg
  · exact (good_foldl_eraseLive l (by simpa using hg)).log _

theorem spec_freeOpts (l : List (Option Nat)) : Spec (freeOpts l) (optIds l) (fun _ => []) := by
  induction l with
  | nil => exact Spec.pure (by intro i; rfl)
  | cons x t ih =>
    unfold freeOpts
    refine Spec.bind (mid := fun _ => optIds t) ?_ (fun _ => ih)
    exact Spec.frame (optIds t) (spec_free x) (by ceq) (by intro _; ceq)

theorem spec_freeOptsRev (l : List (Option Nat)) : Spec (freeOptsRev l) (optIds l) (fun _ => []) := by
  unfold freeOptsRev
  exact Spec.conseq (spec_freeOpts l.reverse) (fun i => (count_optIds_reverse l i).symm) (fun _ _ => rfl)

/-! ## `lzma_index` -/

@[simp] theorem ixIds_none : ixIds none = [] := rfl
@[simp] theorem ixIds_some (i : Index) : ixIds (some i) = i.ids := rfl

variable (S : Sizes)

theorem spec_indexInit : Spec (indexInit S) [] (fun r => ixIds r) := by
  unfold indexInit
  refine Spec.bind (spec_alloc _) (fun r => ?_)
  cases r with
  | none => exact Spec.pure (by intro i; rfl)
  | some b =>
    refine Spec.bind (mid := fun r2 => toL r2 ++ [b]) (Spec.frame [b] (spec_alloc _) (by ceq) (by intro _; ceq)) (fun r2 => ?_)
    cases r2 with
    | none =>
      refine Spec.bind (mid := fun _ => []) (Spec.conseq (spec_free1 b) (by ceq) (by intro _; ceq)) (fun _ => ?_)
      exact Spec.pure (by intro i; rfl)
    | some s => exact Spec.pure (by simp [Index.ids]; ceq)

theorem spec_indexEnd (x : Option Index) : Spec (indexEnd x) (ixIds x) (fun _ => []) := by
  cases x with
  | none => exact Spec.pure (by intro i; rfl)
  | some i =>
    unfold indexEnd
    refine Spec.bind (mid := fun _ => [i.id]) (Spec.frame [i.id] (spec_freeSet _) (by simp [Index.ids]; ceq) (by intro _; ceq)) (fun _ => ?_)
    exact spec_free1 i.id

theorem spec_indexAppend (i : Index) : Spec (indexAppend S i) i.ids (fun r => r.2.ids) := by
  unfold indexAppend
  split
  · exact Spec.pure (by simp [Index.ids]; ceq)
  · refine Spec.bind (mid := fun r => toL r ++ i.ids) (Spec.frame i.ids (spec_alloc _) (by ceq) (by intro _; ceq)) (fun r => ?_)
    cases r with
    | none => exact Spec.pure (by ceq)
    | some g => exact Spec.pure (by simp [Index.ids]; ceq)

theorem spec_indexAppendN (n : Nat) (i : Index) : Spec (indexAppendN S n i) i.ids (fun r => r.2.ids) := by
  induction n generalizing i with
  | zero => exact Spec.pure (by ceq)
  | succ k ih =>
    unfold indexAppendN
    refine Spec.bind (spec_indexAppend S i) (fun r => ?_)
    obtain ⟨ret, i'⟩ := r
    simp only
    split
    · exact Spec.pure (by ceq)
    · exact ih i'

theorem pure_bind' {α β : Type} (a : α) (k : α → M β) : (pure a >>= k : M β) = k a := rfl

theorem spec_indexCat (d s : Index) :
    Spec (indexCat S d s) (d.ids ++ s.ids) CatRes.ids := by
  unfold indexCat
  simp only []
  generalize hsh : (d.lastG.isSome && decide (d.lastUsed < d.lastAlloc)) = shrink
  cases shrink with
  | false =>
    simp only [Bool.false_and, Bool.false_eq_true, if_false, pure_bind']
    refine Spec.bind (mid := fun _ => d.ids ++ s.others ++ toL s.lastG)
      (Spec.frame (d.ids ++ s.others ++ toL s.lastG) (spec_free1 s.id) (by simp [Index.ids]; ceq) (by intro _; ceq)) (fun _ => ?_)
    exact Spec.pure (by simp [Index.ids, CatRes.ids]; ceq)
  | true =>
    simp only [Bool.true_and, if_true]
    refine Spec.bind (mid := fun r => toL r ++ (d.ids ++ s.ids)) (Spec.frame (d.ids ++ s.ids) (spec_alloc _) (by ceq) (by intro _; ceq)) (fun r => ?_)
    cases r with
    | none => simp; exact Spec.pure (by simp [CatRes.ids]; ceq)
    | some g =>
      simp
      refine Spec.bind (mid := fun _ => g :: d.id :: d.others ++ s.ids)
        (Spec.frame (g :: d.id :: d.others ++ s.ids) (spec_free d.lastG) (by simp [Index.ids]; ceq) (by intro _; ceq)) (fun _ => ?_)
      refine Spec.bind (mid := fun _ => g :: d.id :: d.others ++ s.others ++ toL s.lastG)
        (Spec.frame (g :: d.id :: d.others ++ s.others ++ toL s.lastG) (spec_free1 s.id) (by simp [Index.ids]; ceq) (by intro _; ceq)) (fun _ => ?_)
      exact Spec.pure (by simp [Index.ids, CatRes.ids]; ceq)

def dupPost (b : Nat) : Option (List Nat × Option Nat) → List Nat
  | none => []
  | some (acc, g) => b :: (toL g ++ acc)

theorem spec_indexDupLoop (b : Nat) (recs acc : List Nat) (lastG : Option Nat) :
    Spec (indexDupLoop S b recs acc lastG) (b :: (toL lastG ++ acc)) (dupPost b) := by
  induction recs generalizing acc lastG with
  | nil => exact Spec.pure (by simp [dupPost]; ceq)
  | cons r rest ih =>
    unfold indexDupLoop
    refine Spec.bind (mid := fun x => toL x ++ (b :: (toL lastG ++ acc)))
      (Spec.frame (b :: (toL lastG ++ acc)) (spec_alloc _) (by ceq) (by intro _; ceq)) (fun x => ?_)
    cases x with
    | none =>
      simp only []
      refine Spec.bind (mid := fun _ => [b]) (Spec.frame [b] (spec_freeSet _) (by ceq) (by intro _; ceq)) (fun _ => ?_)
      refine Spec.bind (mid := fun _ => []) (spec_free1 b) (fun _ => ?_)
      exact Spec.pure (by simp [dupPost]; ceq)
    | some st =>
      simp only []
      split
      · exact Spec.conseq (ih (toL lastG ++ st :: acc) none) (by ceq) (by intro _; ceq)
      · refine Spec.bind (mid := fun y => toL y ++ (st :: b :: (toL lastG ++ acc)))
          (Spec.frame (st :: b :: (toL lastG ++ acc)) (spec_alloc _) (by ceq) (by intro _; ceq)) (fun y => ?_)
        cases y with
        | none =>
          simp only []
          refine Spec.bind (mid := fun _ => b :: (toL lastG ++ acc))
            (Spec.frame (b :: (toL lastG ++ acc)) (spec_free1 st) (by ceq) (by intro _; ceq)) (fun _ => ?_)
          refine Spec.bind (mid := fun _ => [b]) (Spec.frame [b] (spec_freeSet _) (by ceq) (by intro _; ceq)) (fun _ => ?_)
          refine Spec.bind (mid := fun _ => []) (spec_free1 b) (fun _ => ?_)
          exact Spec.pure (by simp [dupPost]; ceq)
        | some g =>
          simp only []
          exact Spec.conseq (ih (toL lastG ++ st :: acc) (some g)) (by ceq) (by intro _; ceq)

theorem spec_indexDup (src : Index) : Spec (indexDup S src) [] (fun r => ixIds r) := by
  unfold indexDup
  refine Spec.bind (spec_alloc _) (fun r => ?_)
  cases r with
  | none => exact Spec.pure (by intro i; rfl)
  | some b =>
    simp only []
    refine Spec.bind (mid := dupPost b) (Spec.conseq (spec_indexDupLoop S b src.recs [] none) (by ceq) (by intro _; ceq)) (fun r => ?_)
    cases r with
    | none => exact Spec.pure (by simp [dupPost]; ceq)
    | some p =>
      obtain ⟨acc, g⟩ := p
      exact Spec.pure (by simp [dupPost, Index.ids]; ceq)

/-! ## option arrays -/

def optPost : Option (List (Option Nat)) → List Nat
  | none => []
  | some l => optIds l

theorem spec_allocOpts (rev : Bool) (sizes acc : List (Option Nat)) :
    Spec (allocOpts rev sizes acc) (optIds acc) optPost := by
  induction sizes generalizing acc with
  | nil => exact Spec.pure (by simp [optPost]; ceq)
  | cons x t ih =>
    cases x with
    | none =>
      unfold allocOpts
      exact Spec.conseq (ih (acc ++ [none])) (by ceq) (by intro _; ceq)
    | some sz =>
      unfold allocOpts
      refine Spec.bind (mid := fun r => toL r ++ optIds acc) (Spec.frame (optIds acc) (spec_alloc _) (by ceq) (by intro _; ceq)) (fun r => ?_)
      cases r with
      | none =>
        simp only []
        refine Spec.bind (mid := fun _ => []) ?_ (fun _ => Spec.pure (by simp [optPost]; ceq))
        cases rev with
        | true => simpa using spec_freeOptsRev acc
        | false => simpa using spec_freeOpts acc
      | some p =>
        simp only []
        exact Spec.conseq (ih (acc ++ [some p])) (by ceq) (by intro _; ceq)

theorem spec_filtersCopy (sizes : List (Option Nat)) : Spec (filtersCopy sizes) [] optPost :=
  Spec.conseq (spec_allocOpts true sizes []) (by ceq) (by intro _; ceq)

theorem spec_allocFreeList (l : List (Option Nat)) : Spec (allocFreeList l) [] (fun _ => []) := by
  unfold allocFreeList
  refine Spec.bind (mid := optPost) (Spec.conseq (spec_allocOpts false l []) (by ceq) (by intro _; ceq)) (fun r => ?_)
  cases r with
  | none => exact Spec.pure (by simp [optPost]; ceq)
  | some tmp =>
    simp only []
    refine Spec.bind (mid := fun _ => []) (Spec.conseq (spec_freeOpts tmp) (by simp [optPost]; ceq) (by intro _; ceq)) (fun _ => ?_)
    exact Spec.pure (by ceq)

/-! ## `lzma_next_coder` trees -/

def Safe (op : NodeOp) : Prop := ∀ n, Spec (op n) n.ids (fun r => r.2.ids)

@[simp] theorem ids_null (i : Nat) : (Node.null i).ids = [] := rfl
theorem ids_mk (i self : Nat) (bufs : List (Option Nat)) (data : List Nat) (opts : List (Option Nat))
    (ix0 ix1 : Option Index) (s0 s1 : Node) :
    (Node.mk i self bufs data opts ix0 ix1 s0 s1).ids
      = self :: (optIds bufs ++ optIds opts ++ ixIds ix0 ++ ixIds ix1 ++ s0.ids ++ s1.ids) := rfl

/-- like `ceq`, with two extra facts about `setO` -/
macro "ceqw" t:term : tactic =>
  `(tactic| (intro i; have hw_ := $t i; simp only [ids_mk, ids_null, List.count_append, List.count_cons, List.count_nil,
      List.append_assoc, List.nil_append, List.append_nil, List.cons_append, beq_iff_eq, optIds_cons, optIds_append,
      optIds_nil, toL_none, toL_some, ixIds_none, ixIds_some] at hw_ ⊢ <;> (try split at hw_) <;> (try split) <;> (try split) <;> omega))

macro "ceqn" : tactic =>
  `(tactic| (intro i; simp only [ids_mk, ids_null, List.count_append, List.count_cons, List.count_nil,
      List.append_assoc, List.nil_append, List.append_nil, List.cons_append, beq_iff_eq, optIds_cons, optIds_append,
      optIds_nil, toL_none, toL_some, ixIds_none, ixIds_some] <;> (try split) <;> (try split) <;> (try split) <;> omega))

theorem spec_endNode (n : Node) : Spec (endNode n) n.ids (fun _ => []) := by
  induction n with
  | null i => exact Spec.pure (by ceqn)
  | mk i self bufs data opts ix0 ix1 s0 s1 ih0 ih1 =>
    unfold endNode
    refine Spec.bind (mid := fun _ => self :: (optIds bufs ++ optIds opts ++ ixIds ix0 ++ ixIds ix1 ++ s1.ids))
      (Spec.frame (self :: (optIds bufs ++ optIds opts ++ ixIds ix0 ++ ixIds ix1 ++ s1.ids)) ih0 (by ceqn) (by intro _; ceqn)) (fun _ => ?_)
    refine Spec.bind (mid := fun _ => self :: (optIds bufs ++ optIds opts ++ ixIds ix0 ++ ixIds ix1))
      (Spec.frame (self :: (optIds bufs ++ optIds opts ++ ixIds ix0 ++ ixIds ix1)) ih1 (by ceqn) (by intro _; ceqn)) (fun _ => ?_)
    refine Spec.bind (mid := fun _ => self :: (optIds opts ++ ixIds ix0 ++ ixIds ix1))
      (Spec.frame (self :: (optIds opts ++ ixIds ix0 ++ ixIds ix1)) (spec_freeOpts bufs) (by ceqn) (by intro _; ceqn)) (fun _ => ?_)
    refine Spec.bind (mid := fun _ => self :: (optIds opts ++ ixIds ix1))
      (Spec.frame (self :: (optIds opts ++ ixIds ix1)) (spec_indexEnd ix0) (by ceqn) (by intro _; ceqn)) (fun _ => ?_)
    refine Spec.bind (mid := fun _ => self :: (optIds opts))
      (Spec.frame (self :: (optIds opts)) (spec_indexEnd ix1) (by ceqn) (by intro _; ceqn)) (fun _ => ?_)
    refine Spec.bind (mid := fun _ => [self])
      (Spec.frame [self] (spec_freeOpts opts) (by ceqn) (by intro _; ceqn)) (fun _ => ?_)
    exact spec_free1 self

theorem safe_skip : Safe skip := fun n => Spec.pure (by ceqn)

theorem safe_failOp (r : Ret) : Safe (failOp r) := fun n => Spec.pure (by ceqn)

theorem safe_seq {a b : NodeOp} (ha : Safe a) (hb : Safe b) : Safe (a ⨟ b) := by
  intro n
  unfold seq
  refine Spec.bind (ha n) (fun r => ?_)
  split
  · exact Spec.pure (by ceqn)
  · exact hb r.2

theorem safe_ite (c : Node → Bool) {a b : NodeOp} (ha : Safe a) (hb : Safe b) :
    Safe (fun n => if c n then a n else b n) := by
  intro n
  simp only []
  split
  · exact ha n
  · exact hb n

theorem safe_nextEnd : Safe nextEnd := by
  intro n
  unfold nextEnd
  refine Spec.bind (mid := fun _ => []) (spec_endNode n) (fun _ => ?_)
  exact Spec.pure (by ceqn)

theorem safe_guard (i : Nat) : Safe (guard i) := by
  intro n
  unfold guard
  split
  · refine Spec.bind (mid := fun _ => []) (spec_endNode n) (fun _ => ?_)
    exact Spec.pure (by ceqn)
  · exact Spec.pure (by ceqn)

theorem safe_allocSelf (sz : Nat) {fresh : NodeOp} (hf : Safe fresh) : Safe (allocSelf sz fresh) := by
  intro n
  cases n with
  | null i =>
    unfold allocSelf
    refine Spec.bind (mid := fun r => toL r) (Spec.conseq (spec_alloc _) (by ceqn) (by intro _; ceqn)) (fun r => ?_)
    cases r with
    | none => exact Spec.pure (by ceqn)
    | some p => exact Spec.conseq (hf _) (by ceqn) (by intro _; ceqn)
  | mk i self bufs data opts ix0 ix1 s0 s1 => exact Spec.pure (by ceqn)

theorem ids_setDat (n : Node) (i v : Nat) : (n.setDat i v).ids = n.ids := by
  cases n <;> rfl

theorem safe_setData (i v : Nat) : Safe (setData i v) := by
  intro n
  unfold setData
  exact Spec.pure (by simp [ids_setDat]; ceqn)

theorem safe_incData (i : Nat) : Safe (incData i) := by
  intro n
  unfold incData
  exact Spec.pure (by simp [ids_setDat]; ceqn)

theorem safe_whenD (c : Node → Bool) {op : NodeOp} (h : Safe op) : Safe (whenD c op) := by
  intro n
  unfold whenD
  split
  · exact h n
  · exact Spec.pure (by ceqn)

theorem safe_freeBuf (slot : Nat) : Safe (freeBuf slot) := by
  intro n
  cases n with
  | null i => exact Spec.pure (by ceqn)
  | mk i self bufs data opts ix0 ix1 s0 s1 =>
    unfold freeBuf
    refine Spec.bind (mid := fun _ => (Node.mk i self (setO bufs slot none) data opts ix0 ix1 s0 s1).ids)
      (Spec.frame (Node.mk i self (setO bufs slot none) data opts ix0 ix1 s0 s1).ids (spec_free _)
        (by ceqw (count_optIds_setO bufs slot none)) (by intro _; ceqn)) (fun _ => ?_)
    exact Spec.pure (by ceqn)

theorem safe_reallocBuf (slot : Nat) (sz : Option Nat) (fd : Option (Nat × Nat)) : Safe (reallocBuf slot sz fd) := by
  intro n
  cases n with
  | null i => exact Spec.pure (by ceqn)
  | mk i self bufs data opts ix0 ix1 s0 s1 =>
    unfold reallocBuf
    refine Spec.bind (mid := fun _ => (Node.mk i self (setO bufs slot none) data opts ix0 ix1 s0 s1).ids)
      (Spec.frame (Node.mk i self (setO bufs slot none) data opts ix0 ix1 s0 s1).ids (spec_free _)
        (by ceqw (count_optIds_setO bufs slot none)) (by intro _; ceqn)) (fun _ => ?_)
    refine Spec.bind (mid := fun r => toL r ++ (Node.mk i self (setO bufs slot none) data opts ix0 ix1 s0 s1).ids)
      (Spec.frame (Node.mk i self (setO bufs slot none) data opts ix0 ix1 s0 s1).ids (spec_alloc _) (by ceqn) (by intro _; ceqn)) (fun r => ?_)
    cases r with
    | none => exact Spec.pure (by ceqn)
    | some p =>
      have h1 := count_optIds_setO bufs slot none
      have h2 := count_optIds_setO bufs slot (some p)
      exact Spec.pure (by
        intro j; have := h1 j; have := h2 j
        simp only [ids_mk, List.count_append, List.count_cons, List.count_nil, List.append_assoc, List.nil_append,
          List.cons_append, beq_iff_eq, toL_none, toL_some] at *
        omega)

theorem safe_ensureBuf (slot : Nat) (sz : Option Nat) : Safe (ensureBuf slot sz) := by
  intro n
  unfold ensureBuf
  split
  · exact Spec.pure (by ceqn)
  · exact safe_reallocBuf slot sz none n

theorem safe_onSub0 {op : NodeOp} (h : Safe op) : Safe (onSub0 op) := by
  intro n
  cases n with
  | null i => exact Spec.pure (by ceqn)
  | mk i self bufs data opts ix0 ix1 s0 s1 =>
    unfold onSub0
    refine Spec.bind (mid := fun r => r.2.ids ++ (self :: (optIds bufs ++ optIds opts ++ ixIds ix0 ++ ixIds ix1 ++ s1.ids)))
      (Spec.frame (self :: (optIds bufs ++ optIds opts ++ ixIds ix0 ++ ixIds ix1 ++ s1.ids)) (h s0) (by ceqn) (by intro _; ceqn)) (fun r => ?_)
    exact Spec.pure (by ceqn)

theorem safe_onSub1 {op : NodeOp} (h : Safe op) : Safe (onSub1 op) := by
  intro n
  cases n with
  | null i => exact Spec.pure (by ceqn)
  | mk i self bufs data opts ix0 ix1 s0 s1 =>
    unfold onSub1
    refine Spec.bind (mid := fun r => r.2.ids ++ (self :: (optIds bufs ++ optIds opts ++ ixIds ix0 ++ ixIds ix1 ++ s0.ids)))
      (Spec.frame (self :: (optIds bufs ++ optIds opts ++ ixIds ix0 ++ ixIds ix1 ++ s0.ids)) (h s1) (by ceqn) (by intro _; ceqn)) (fun r => ?_)
    exact Spec.pure (by ceqn)

theorem safe_allocPair (s1 s2 : Nat) (z1 z2 : Option Nat) (h12 : s1 ≠ s2) : Safe (allocPair s1 s2 z1 z2) := by
  intro n
  cases n with
  | null i => exact Spec.pure (by ceqn)
  | mk i self bufs data opts ix0 ix1 a b =>
    unfold allocPair
    have e1 := count_optIds_setO bufs s1 none
    have e2 := count_optIds_setO (setO bufs s1 none) s2 none
    refine Spec.bind (mid := fun _ => (Node.mk i self (setO bufs s1 none) data opts ix0 ix1 a b).ids)
      (Spec.frame (Node.mk i self (setO bufs s1 none) data opts ix0 ix1 a b).ids (spec_free _)
        (by ceqw e1) (by intro _; ceqn)) (fun _ => ?_)
    refine Spec.bind (mid := fun _ => (Node.mk i self (setO (setO bufs s1 none) s2 none) data opts ix0 ix1 a b).ids)
      (Spec.frame (Node.mk i self (setO (setO bufs s1 none) s2 none) data opts ix0 ix1 a b).ids (spec_free _)
        (by ceqw e2) (by intro _; ceqn)) (fun _ => ?_)
    simp only []
    generalize hb0 : setO (setO bufs s1 none) s2 none = bufs0
    refine Spec.bind (mid := fun p => toL p ++ (Node.mk i self bufs0 data opts ix0 ix1 a b).ids)
      (Spec.frame (Node.mk i self bufs0 data opts ix0 ix1 a b).ids (spec_alloc _) (by ceqn) (by intro _; ceqn)) (fun p => ?_)
    refine Spec.bind (mid := fun q => toL q ++ (toL p ++ (Node.mk i self bufs0 data opts ix0 ix1 a b).ids))
      (Spec.frame (toL p ++ (Node.mk i self bufs0 data opts ix0 ix1 a b).ids) (spec_alloc _) (by ceqn) (by intro _; ceqn)) (fun q => ?_)
    split
    · refine Spec.bind (mid := fun _ => toL q ++ (Node.mk i self bufs0 data opts ix0 ix1 a b).ids)
        (Spec.frame (toL q ++ (Node.mk i self bufs0 data opts ix0 ix1 a b).ids) (spec_free p) (by ceqn) (by intro _; ceqn)) (fun _ => ?_)
      refine Spec.bind (mid := fun _ => (Node.mk i self bufs0 data opts ix0 ix1 a b).ids)
        (Spec.frame ((Node.mk i self bufs0 data opts ix0 ix1 a b).ids) (spec_free q) (by ceqn) (by intro _; ceqn)) (fun _ => ?_)
      exact Spec.pure (by ceqn)
    · -- both slots of bufs0 are empty, so filling them adds exactly p and q
      have f1 := count_optIds_setO bufs0 s1 p
      have f2 := count_optIds_setO (setO bufs0 s1 p) s2 q
      have hs2 : getO bufs0 s2 = none := by rw [← hb0]; exact getO_setO_same _ _ _
      have hs1 : getO bufs0 s1 = none := by
        rw [← hb0, getO_setO_other _ _ _ _ (Ne.symm h12)]
        exact getO_setO_same _ _ _
      have hs2' : getO (setO bufs0 s1 p) s2 = none := by
        rw [getO_setO_other _ _ _ _ h12]; exact hs2
      exact Spec.pure (by
        intro j
        have := f1 j; have := f2 j
        simp only [hs1, hs2', ids_mk, List.count_append, List.count_cons, List.count_nil, List.append_assoc, List.nil_append,
          List.cons_append, toL_none] at *
        omega)

theorem safe_ixFree (slot : Nat) : Safe (ixFree slot) := by
  intro n
  cases n with
  | null i => exact Spec.pure (by ceqn)
  | mk i self bufs data opts ix0 ix1 s0 s1 =>
    simp only [ixFree]
    split
    · refine Spec.bind (mid := fun _ => (Node.mk i self bufs data opts none ix1 s0 s1).ids)
        (Spec.frame (Node.mk i self bufs data opts none ix1 s0 s1).ids (spec_indexEnd ix0) (by ceqn) (by intro _; ceqn)) (fun _ => ?_)
      exact Spec.pure (by ceqn)
    · refine Spec.bind (mid := fun _ => (Node.mk i self bufs data opts ix0 none s0 s1).ids)
        (Spec.frame (Node.mk i self bufs data opts ix0 none s0 s1).ids (spec_indexEnd ix1) (by ceqn) (by intro _; ceqn)) (fun _ => ?_)
      exact Spec.pure (by ceqn)

theorem safe_ixReinit0 : Safe (ixReinit0 S) := by
  intro n
  cases n with
  | null i => exact Spec.pure (by ceqn)
  | mk i self bufs data opts ix0 ix1 s0 s1 =>
    simp only [ixReinit0]
    refine Spec.bind (mid := fun _ => (Node.mk i self bufs data opts none ix1 s0 s1).ids)
      (Spec.frame (Node.mk i self bufs data opts none ix1 s0 s1).ids (spec_indexEnd ix0) (by ceqn) (by intro _; ceqn)) (fun _ => ?_)
    refine Spec.bind (mid := fun r => ixIds r ++ (Node.mk i self bufs data opts none ix1 s0 s1).ids)
      (Spec.frame (Node.mk i self bufs data opts none ix1 s0 s1).ids (spec_indexInit S) (by ceqn) (by intro _; ceqn)) (fun r => ?_)
    cases r with
    | none => exact Spec.pure (by ceqn)
    | some x => exact Spec.pure (by ceqn)

theorem safe_ixAppend0 (cnt : Nat) : Safe (ixAppend0 S cnt) := by
  intro n
  unfold ixAppend0
  split
  · rename_i i self bufs data opts x ix1 s0 s1
    refine Spec.bind (mid := fun r => r.2.ids ++ (Node.mk i self bufs data opts none ix1 s0 s1).ids)
      (Spec.frame (Node.mk i self bufs data opts none ix1 s0 s1).ids (spec_indexAppendN S cnt x) (by ceqn) (by intro _; ceqn)) (fun r => ?_)
    exact Spec.pure (by ceqn)
  · exact Spec.pure (by ceqn)

theorem safe_ixSetPrealloc0 (p : Nat) : Safe (ixSetPrealloc0 p) := by
  intro n
  unfold ixSetPrealloc0
  split
  · exact Spec.pure (by simp [ids_mk, Index.ids]; ceqn)
  · exact Spec.pure (by ceqn)

theorem safe_withTempOpts (sizes : List (Option Nat)) {body : NodeOp} (hb : Safe body) : Safe (withTempOpts sizes body) := by
  intro n
  unfold withTempOpts
  refine Spec.bind (mid := fun r => optPost r ++ n.ids)
    (Spec.frame n.ids (spec_allocOpts false sizes []) (by ceqn) (by intro _; ceqn)) (fun r => ?_)
  cases r with
  | none => exact Spec.pure (by simp [optPost]; ceqn)
  | some tmp =>
    simp only []
    refine Spec.bind (mid := fun r => r.2.ids ++ optIds tmp)
      (Spec.frame (optIds tmp) (hb n) (by simp [optPost]; ceqn) (by intro _; ceqn)) (fun r => ?_)
    refine Spec.bind (mid := fun _ => r.2.ids)
      (Spec.frame r.2.ids (spec_freeOpts tmp) (by ceqn) (by intro _; ceqn)) (fun _ => ?_)
    exact Spec.pure (by ceqn)

theorem safe_replaceOpts (sizes : List (Option Nat)) {body : NodeOp} (hb : Safe body) : Safe (replaceOpts sizes body) := by
  intro n
  unfold replaceOpts
  refine Spec.bind (mid := fun r => optPost r ++ n.ids)
    (Spec.frame n.ids (spec_filtersCopy sizes) (by ceqn) (by intro _; ceqn)) (fun r => ?_)
  cases r with
  | none => exact Spec.pure (by simp [optPost]; ceqn)
  | some tmp =>
    simp only []
    refine Spec.bind (mid := fun r => r.2.ids ++ optIds tmp)
      (Spec.frame (optIds tmp) (hb n) (by simp [optPost]; ceqn) (by intro _; ceqn)) (fun r => ?_)
    split
    · refine Spec.bind (mid := fun _ => r.2.ids)
        (Spec.frame r.2.ids (spec_freeOpts tmp) (by ceqn) (by intro _; ceqn)) (fun _ => ?_)
      exact Spec.pure (by ceqn)
    · obtain ⟨ret, n'⟩ := r
      cases n' with
      | null i =>
        simp only []
        refine Spec.bind (mid := fun _ => [])
          (Spec.conseq (spec_freeOpts tmp) (by ceqn) (by intro _; ceqn)) (fun _ => ?_)
        exact Spec.pure (by ceqn)
      | mk i self bufs data opts ix0 ix1 s0 s1 =>
        simp only []
        refine Spec.bind (mid := fun _ => (Node.mk i self bufs data tmp ix0 ix1 s0 s1).ids)
          (Spec.frame (Node.mk i self bufs data tmp ix0 ix1 s0 s1).ids (spec_freeOpts opts) (by ceqn) (by intro _; ceqn)) (fun _ => ?_)
        exact Spec.pure (by ceqn)

theorem safe_repeatOp (k : Nat) {op : NodeOp} (h : Safe op) : Safe (repeatOp k op) := by
  induction k with
  | zero => exact safe_skip
  | succ m ih => exact safe_seq h ih

theorem safe_fiTakeThis : Safe fiTakeThis := by
  intro n
  unfold fiTakeThis
  split
  · exact Spec.pure (by ceqn)
  · exact Spec.pure (by ceqn)

theorem safe_idecSelf : Safe (idecSelf S) := by
  intro n
  unfold idecSelf
  split
  · exact safe_allocSelf _ safe_skip n
  · exact safe_ixFree 0 n

theorem safe_fiCombine : Safe (fiCombine S) := by
  intro n
  unfold fiCombine
  split
  · exact Spec.pure (by ceqn)
  · rename_i i self bufs data opts t c s0 s1
    refine Spec.bind (mid := fun r => r.ids ++ (Node.mk i self bufs data opts none none s0 s1).ids)
      (Spec.frame (Node.mk i self bufs data opts none none s0 s1).ids (spec_indexCat S t c) (by ceqn) (by intro _; ceqn)) (fun r => ?_)
    cases r with
    | ok d => exact Spec.pure (by simp [CatRes.ids]; ceqn)
    | fail e d c' => exact Spec.pure (by simp [CatRes.ids]; ceqn)
  · exact Spec.pure (by ceqn)


end XzVerif.Alloc
