/-
  Helper lemmas for C10: the ownership invariant `Good`, Hoare-style specifications `Spec` for computations in
  the allocator monad, and the specification of every primitive / combinator of `Model/Alloc.lean`.

  `Good h L`  : heap `h` has never freed a non-live block, its live blocks are exactly the multiset `L`
                (compared by `List.count`, so the order never matters), no block occurs twice, and every block
                is older than the next allocation.
  `Spec m pre post` : running `m` from ANY heap whose live blocks are `pre ++ F` (for an arbitrary frame `F`)
                and under ANY failure oracle ends in a heap whose live blocks are `post result ++ F`.
                The frame rule is built in.
-/
import XzVerif.Model.Alloc

namespace XzVerif.Alloc

/-! ## Multiset equality of block lists -/

def CEq (a b : List Nat) : Prop := ∀ i, a.count i = b.count i

theorem CEq.rfl' {a : List Nat} : CEq a a := fun _ => rfl
theorem CEq.symm {a b : List Nat} (h : CEq a b) : CEq b a := fun i => (h i).symm
theorem CEq.trans {a b c : List Nat} (h : CEq a b) (h' : CEq b c) : CEq a c := fun i => (h i).trans (h' i)

theorem CEq.perm {a b : List Nat} (h : CEq a b) : a.Perm b := List.perm_iff_count.mpr h

/-- `simp` set that turns a `CEq` goal into linear arithmetic over `count` atoms -/
macro "ceq" : tactic =>
  `(tactic| (intro i; simp only [List.count_append, List.count_cons, List.count_nil, List.append_assoc, List.nil_append,
      List.append_nil, List.cons_append, beq_iff_eq] <;> (try split) <;> (try split) <;> (try split) <;> omega))

@[simp] theorem toL_none : toL none = [] := rfl
@[simp] theorem toL_some (i : Nat) : toL (some i) = [i] := rfl
@[simp] theorem optIds_nil : optIds [] = [] := rfl
@[simp] theorem optIds_cons (x : Option Nat) (t : List (Option Nat)) : optIds (x :: t) = toL x ++ optIds t := by
  simp [optIds, List.flatMap_cons]
@[simp] theorem optIds_append (a b : List (Option Nat)) : optIds (a ++ b) = optIds a ++ optIds b := by
  simp [optIds, List.flatMap_append]

theorem count_optIds_setO (l : List (Option Nat)) (s : Nat) (v : Option Nat) (i : Nat) :
    (optIds (setO l s v)).count i + (toL (getO l s)).count i = (optIds l).count i + (toL v).count i := by
  induction l generalizing s with
  | nil =>
    induction s with
    | zero => simp [setO, getO]
    | succ k ih => simpa [setO, getO] using ih
  | cons x t ih =>
    cases s with
    | zero => simp [setO, getO, List.count_append]; omega
    | succ k => have := ih k; simp [setO, getO, List.count_append] at *; omega

theorem getO_setO_same (l : List (Option Nat)) (s : Nat) (v : Option Nat) : getO (setO l s v) s = v := by
  induction l generalizing s with
  | nil =>
    induction s with
    | zero => simp [setO, getO]
    | succ k ih => simpa [setO, getO] using ih
  | cons x t ih =>
    cases s with
    | zero => simp [setO, getO]
    | succ k => simpa [setO, getO] using ih k

theorem count_optIds_reverse (l : List (Option Nat)) (i : Nat) : (optIds l.reverse).count i = (optIds l).count i := by
  induction l with
  | nil => rfl
  | cons x t ih => simp [List.count_append, ih]; omega

/-! ## The ownership invariant -/

def Good (h : Heap) (L : List Nat) : Prop :=
  h.bad = false ∧ CEq h.live L ∧ (∀ i, L.count i ≤ 1) ∧ (∀ i, h.next ≤ i → L.count i = 0)

theorem Good.congr {h : Heap} {L L' : List Nat} (g : Good h L) (e : CEq L L') : Good h L' := by
  obtain ⟨h1, h2, h3, h4⟩ := g
  refine ⟨h1, fun i => (h2 i).trans (e i), fun i => ?_, fun i hi => ?_⟩
  · rw [← e i]; exact h3 i
  · rw [← e i]; exact h4 i hi

theorem Good.log {h : Heap} {L : List Nat} (g : Good h L) (lg : List Ev) : Good { h with log := lg } L := g

def Spec {α : Type} (m : M α) (pre : List Nat) (post : α → List Nat) : Prop :=
  ∀ f h F, Good h (pre ++ F) → Good (m f h).2 (post (m f h).1 ++ F)

@[simp] theorem run_pure {α : Type} (a : α) (f : Oracle) (h : Heap) : (pure a : M α) f h = (a, h) := rfl
@[simp] theorem run_bind {α β : Type} (m : M α) (k : α → M β) (f : Oracle) (h : Heap) :
    (m >>= k) f h = k (m f h).1 f (m f h).2 := rfl

theorem Spec.bind {α β : Type} {m : M α} {k : α → M β} {pre : List Nat} {mid : α → List Nat} {post : β → List Nat}
    (hm : Spec m pre mid) (hk : ∀ a, Spec (k a) (mid a) post) : Spec (m >>= k) pre post := by
  intro f h F hg
  simp only [run_bind]
  exact hk _ f _ F (hm f h F hg)

theorem Spec.pure {α : Type} {a : α} {pre : List Nat} {post : α → List Nat} (e : CEq pre (post a)) :
    Spec (pure a : M α) pre post := by
  intro f h F hg
  simp only [run_pure]
  refine hg.congr ?_
  intro i; have := e i; simp [List.count_append]; omega

/-- consequence + frame: `m` only needs the part `pre` of what is owned; the rest `E` is untouched -/
theorem Spec.frame {α : Type} {m : M α} {pre : List Nat} {post : α → List Nat} {P : List Nat} {Q : α → List Nat}
    (E : List Nat) (hm : Spec m pre post) (hp : CEq P (pre ++ E)) (hq : ∀ a, CEq (post a ++ E) (Q a)) : Spec m P Q := by
  intro f h F hg
  have g1 : Good h (pre ++ (E ++ F)) := hg.congr (by
    intro i; have := hp i; simp [List.count_append] at *; omega)
  have g2 := hm f h (E ++ F) g1
  exact g2.congr (by intro i; have := hq (m f h).1 i; simp [List.count_append] at *; omega)

theorem Spec.conseq {α : Type} {m : M α} {pre : List Nat} {post : α → List Nat} {P : List Nat} {Q : α → List Nat}
    (hm : Spec m pre post) (hp : CEq P pre) (hq : ∀ a, CEq (post a) (Q a)) : Spec m P Q :=
  Spec.frame [] hm (by intro i; simpa using hp i) (by intro a i; simpa using hq a i)

/-! ## Primitives -/

theorem spec_alloc (sz : Option Nat) : Spec (alloc sz) [] (fun r => toL r) := by
  intro f h F hg
  obtain ⟨h1, h2, h3, h4⟩ := hg
  simp only [List.nil_append] at h2 h3 h4
  unfold alloc
  split
  · refine ⟨h1, ?_, ?_, ?_⟩
    · simpa using h2
    · simpa using h3
    · intro i hi; simp at hi ⊢; exact h4 i (by omega)
  · have hn := h4 h.next (Nat.le_refl _)
    refine ⟨h1, ?_, ?_, ?_⟩
    · intro i; have := h2 i; simp [List.count_cons] at *; omega
    · intro i; have := h3 i; simp [List.count_cons] at *
      by_cases hi : h.next = i
      · subst hi; simp; omega
      · simp [hi]; omega
    · intro i hi; have h5 : h.next + 1 ≤ i := hi
      have := h4 i (by omega); simp [List.count_cons] at *
      refine ⟨this, by omega⟩

theorem good_eraseLive {h : Heap} {i : Nat} {R : List Nat} (g : Good h (i :: R)) : Good (eraseLive h i) R := by
  obtain ⟨h1, h2, h3, h4⟩ := g
  have hmem : i ∈ h.live := by
    have := h2 i
    simp at this
    exact List.count_pos_iff.mp (by omega)
  unfold eraseLive
  simp only [hmem, if_true]
  refine ⟨h1, ?_, ?_, ?_⟩
  · intro j; have := h2 j; simp [List.count_erase, List.count_cons] at *
    by_cases hj : i = j
    · subst hj; simp at *; omega
    · simp [hj] at *; omega
  · intro j; have := h3 j; simp [List.count_cons] at *; omega
  · intro j hj; have := h4 j hj; simp [List.count_cons] at *; omega

theorem spec_free1 (i : Nat) : Spec (free1 i) [i] (fun _ => []) := by
  intro f h F hg
  exact (good_eraseLive (by simpa using hg)).log _

theorem spec_free (p : Option Nat) : Spec (free p) (toL p) (fun _ => []) := by
  cases p with
  | none => exact Spec.pure (by intro i; rfl)
  | some i => exact spec_free1 i

theorem good_foldl_eraseLive (l : List Nat) {h : Heap} {R : List Nat} (g : Good h (l ++ R)) :
    Good (l.foldl eraseLive h) R := by
  induction l generalizing h with
  | nil => simpa using g
  | cons x t ih => exact ih (good_eraseLive (by simpa using g))

theorem spec_freeSet (l : List Nat) : Spec (freeSet l) l (fun _ => []) := by
  intro f h F hg
  unfold freeSet
  split
  · rename_i he
    have : l = [] := by simpa using he
    subst this; simpa using hg
  · exact (good_foldl_eraseLive l (by simpa using hg)).log _

theorem spec_freeOpts (l : List (Option Nat)) : Spec (freeOpts l) (optIds l) (fun _ => []) := by
  induction l with
  | nil => exact Spec.pure (by intro i; rfl)
  | cons x t ih =>
    unfold freeOpts
    refine Spec.bind (mid := fun _ => optIds t) ?_ (fun _ => ih)
    exact Spec.frame (optIds t) (spec_free x) (by ceq) (by intro _; ceq)

theorem spec_freeOptsRev (l : List (Option Nat)) : Spec (freeOptsRev l) (optIds l) (fun _ => []) := by
  unfold freeOptsRev
  exact Spec.conseq (spec_freeOpts l.reverse) (fun i => (count_optIds_reverse l i).symm) (fun _ _ => rfl)

end XzVerif.Alloc
