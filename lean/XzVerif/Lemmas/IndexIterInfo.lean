/-
  C13 helper lemmas: what `iter_set_info` publishes for (Stream `si`, group `gi`, Record `rec`) is what the
  specification shows for (Stream `si`, Block `n + rec`), `n` = number of Records in the groups before `gi`.
-/
import XzVerif.Lemmas.IndexGroups

namespace XzVerif.Index
namespace Impl

theorem abs_getElem? (i : Index) (si : Nat) : (abs i)[si]? = (i.streams.toList[si]?).map absStream := by
  unfold abs CTree.toList; rw [List.getElem?_map]

/-- the last cumulative sums of a Stream are the sums over its Blocks -/
theorem stream_sums {s : Stream} (hs : StreamInv s) :
    vliCeil4 s.lastSums.unpaddedSum = blocksSize (absStream s).blocks
    ∧ s.lastSums.uncompressedSum = uncompSize (absStream s).blocks := by
  obtain ⟨q1, q2⟩ := lastSums_of_stream s hs
  obtain ⟨s1, s2⟩ := blocksOfRecs_sums s.allRecs 0 0 hs.recs
  constructor
  · rw [q1, s1]; simp [absStream, vliCeil4]
  · rw [q2, s2]; simp [absStream]

theorem stream_count {s : Stream} (hs : StreamInv s) : s.recordCount = (absStream s).blocks.length := by
  rw [hs.count]; simp [absStream, blocksOfRecs_length]

/-- the Stream part of `iter_set_info` -/
theorem iterSetInfo_stream {i : Index} (hi : Inv i) {si : Nat} {s : Stream} (hs : i.streams.toList[si]? = some s)
    (gi? : Option Nat) (rec : Nat) :
    (iterSetInfo i si s gi? rec).2.stream = Spec.streamInfo (abs i) si (absStream s) := by
  have hsi : StreamInv s := hi.streams s (List.mem_of_getElem? hs)
  obtain ⟨b1, b2, b3, b4⟩ := hi.bases si s hs
  obtain ⟨q1, q2⟩ := stream_sums hsi
  have hc := stream_count hsi
  have hl := hsi.listSz
  unfold iterSetInfo Spec.streamInfo
  simp only [b1, b2, b3, b4, hc]
  unfold Stream.lastSums at q1 q2
  cases hr : s.groups.root.rightmost? with
  | none =>
    rw [hr] at q1 q2
    simp only at q1 q2
    have e1 : blocksSize (absStream s).blocks = 0 := by rw [← q1]; rfl
    have hnil : (absStream s).blocks = [] := by
      apply (blocks_nil_iff hsi).mpr
      rw [Tree.rightmost?_eq_getLast?] at hr
      simpa using hr
    simp only [StreamRec.compressedSize, StreamRec.uncompressedSize, hnil]
    simp [blocksSize, uncompSize, listSize, absStream]
    omega
  | some g =>
    rw [hr] at q1 q2
    simp only at q1 q2
    simp only [StreamRec.compressedSize, StreamRec.uncompressedSize, q1, q2, hl, hc]
    simp [absStream]
    omega

/-- the Block part of `iter_set_info` -/
theorem iterSetInfo_block {i : Index} (hi : Inv i) {si : Nat} {s : Stream} (hs : i.streams.toList[si]? = some s)
    {gi rec : Nat} {g : Group} (hg : s.groups.toList[gi]? = some g) (hrec : rec < g.records.size) :
    (iterSetInfo i si s (some gi) rec).2.block
      = ((absStream s).blocks[(recsBefore s.groups.toList gi).length + rec]?).map
          (Spec.blockInfo (abs i) si (absStream s) ((recsBefore s.groups.toList gi).length + rec)) := by
  have hsi : StreamInv s := hi.streams s (List.mem_of_getElem? hs)
  obtain ⟨b1, b2, b3, b4⟩ := hi.bases si s hs
  obtain ⟨f1, f2, f3, b, hb, f4, f5⟩ := group_rec_facts hsi hg hrec
  have hga : groupAt s gi = some g := by
    unfold groupAt; rw [Tree.get?_eq_getElem?]; exact hg
  unfold iterSetInfo
  simp only [Option.bind_some, hga, hb, Option.map_some]
  unfold Spec.blockInfo
  simp only [f1, f2, f3, f4, f5, b1, b2, b4]
  simp only [Nat.add_sub_cancel_left]
  congr 2 <;> omega

theorem iterSetInfo_block_none (i : Index) (si : Nat) (s : Stream) (rec : Nat) :
    (iterSetInfo i si s none rec).2.block = none := rfl

/-- `iter_set_info` on (Stream `si`, group `gi`, Record `rec`) shows the specification's Block `n + rec` of Stream `si` -/
theorem infoAt_of_group {i : Index} (hi : Inv i) {si : Nat} {s : Stream} (hs : i.streams.toList[si]? = some s)
    {gi rec : Nat} {g : Group} (hg : s.groups.toList[gi]? = some g) (hrec : rec < g.records.size) :
    Spec.infoAt (abs i) si (some ((recsBefore s.groups.toList gi).length + rec))
      = some (iterSetInfo i si s (some gi) rec).2 := by
  unfold Spec.infoAt
  rw [abs_getElem?, hs]
  simp only [Option.map_some, Option.getD_some]
  congr 1
  have h1 := iterSetInfo_stream hi hs (some gi) rec
  have h2 := iterSetInfo_block hi hs hg hrec
  cases hx : (iterSetInfo i si s (some gi) rec).2 with
  | mk st bl =>
    rw [hx] at h1 h2
    simp only at h1 h2
    rw [h1, h2]

/-- `iter_set_info` on a Stream without groups shows the specification's Stream without Block -/
theorem infoAt_of_empty {i : Index} (hi : Inv i) {si : Nat} {s : Stream} (hs : i.streams.toList[si]? = some s)
    (hnil : s.groups.root.toList = []) (bi : Option Nat) (rec : Nat) :
    Spec.infoAt (abs i) si bi = some (iterSetInfo i si s none rec).2 := by
  have hsi : StreamInv s := hi.streams s (List.mem_of_getElem? hs)
  have hb : (absStream s).blocks = [] := (blocks_nil_iff hsi).mpr hnil
  unfold Spec.infoAt
  rw [abs_getElem?, hs]
  simp only [Option.map_some, hb]
  congr 1
  have h1 := iterSetInfo_stream hi hs none rec
  cases hx : (iterSetInfo i si s none rec).2 with
  | mk st bl =>
    have h2 : (iterSetInfo i si s none rec).2.block = none := rfl
    rw [hx] at h1 h2
    simp only at h1 h2
    rw [h1, h2]; simp

end Impl
end XzVerif.Index
