/-
  Helper lemmas for C03/C04: every index into the probability arrays computed by the LZMA decoder is inside the
  segment (= C array) it is meant for. Core Lean only.
-/
import XzVerif.Model.Lzma

namespace XzVerif.Lzma

/-- `pos_state = dict.pos & pos_mask` is a valid index into the `[POS_STATES_MAX]` dimension for every pb ≤ 4 -/
theorem posState_lt (pos pb : Nat) (h : pb ≤ LZMA_PB_MAX) : pos &&& ((1 <<< pb) - 1) < POS_STATES_MAX := by
  have h1 : pos &&& ((1 <<< pb) - 1) ≤ (1 <<< pb) - 1 := Nat.and_le_right
  have h2 : (1 <<< pb) - 1 ≤ 15 := by
    simp only [LZMA_PB_MAX] at h
    have : pb = 0 ∨ pb = 1 ∨ pb = 2 ∨ pb = 3 ∨ pb = 4 := by omega
    rcases this with h | h | h | h | h <;> subst h <;> decide
  simp only [POS_STATES_MAX]; omega

/-- `is_match[state][pos_state]`, `is_rep0_long[state][pos_state]` -/
theorem isMatch_idx (state posState : Nat) (hs : state < STATES) (hp : posState < POS_STATES_MAX) :
    P_IS_MATCH + state * POS_STATES_MAX + posState < P_IS_REP
    ∧ P_IS_REP0_LONG ≤ P_IS_REP0_LONG + state * POS_STATES_MAX + posState
    ∧ P_IS_REP0_LONG + state * POS_STATES_MAX + posState < P_DIST_SLOT := by
  simp only [STATES, POS_STATES_MAX, P_IS_MATCH, P_IS_REP, P_IS_REP0_LONG, P_DIST_SLOT] at *; omega

/-- `is_rep[state]`, `is_rep0[state]`, `is_rep1[state]`, `is_rep2[state]` -/
theorem isRep_idx (state : Nat) (hs : state < STATES) :
    P_IS_REP + state < P_IS_REP0 ∧ P_IS_REP0 + state < P_IS_REP1 ∧ P_IS_REP1 + state < P_IS_REP2
    ∧ P_IS_REP2 + state < P_IS_REP0_LONG := by
  simp only [STATES, P_IS_REP, P_IS_REP0, P_IS_REP1, P_IS_REP2, P_IS_REP0_LONG] at *; omega

/-- `dist_slot[get_dist_state(len)][symbol]` with `symbol < DIST_SLOTS` (bittree of 6 levels) -/
theorem distSlot_idx (len sym : Nat) (hs : sym < DIST_SLOTS) :
    P_DIST_SLOT + getDistState len * DIST_SLOTS + sym < P_POS_SPECIAL := by
  unfold getDistState
  simp only [DIST_SLOTS, DIST_STATES, MATCH_LEN_MIN, P_DIST_SLOT, P_POS_SPECIAL] at *
  split <;> omega

/-- `probs = coder->pos_special + rep0 - symbol - 1; probs[symbol']`: for every distance slot 4..13 and every node
    `m` of its reverse bittree (1 ≤ m < 2^limit) the index lies in `pos_special[0 .. 114)`; the lowest is exactly 0
    (slot 4, m = 1: the C code's pointer one before the array is never dereferenced). -/
theorem posSpecial_idx :
    ∀ slot, slot < 14 → ∀ m, m < 32 → (4 ≤ slot ∧ 1 ≤ m ∧ m < 2 ^ ((slot >>> 1) - 1)) →
      (slot + 1 ≤ ((2 + (slot &&& 1)) <<< ((slot >>> 1) - 1)) + m)
      ∧ ((2 + (slot &&& 1)) <<< ((slot >>> 1) - 1)) + m - slot - 1 < FULL_DISTANCES - DIST_MODEL_END
      ∧ P_POS_SPECIAL + ((2 + (slot &&& 1)) <<< ((slot >>> 1) - 1)) - slot - 1 + m < P_POS_ALIGN
      ∧ P_POS_SPECIAL ≤ P_POS_SPECIAL + ((2 + (slot &&& 1)) <<< ((slot >>> 1) - 1)) - slot - 1 + m := by
  decide +kernel

/-- `pos_align[offset + symbol]` for offset = 1, 2, 4, 8 and `symbol < offset` -/
theorem posAlign_idx (offset sym : Nat) (ho : offset = 1 ∨ offset = 2 ∨ offset = 4 ∨ offset = 8) (hs : sym < offset) :
    P_POS_ALIGN + offset + sym < P_MATCH_LEN ∧ 1 ≤ offset + sym := by
  simp only [P_POS_ALIGN, P_MATCH_LEN]; omega

/-- length decoder: `choice`, `choice2`, `low[pos_state][symbol]`, `mid[pos_state][symbol]` (symbol < 8), `high[symbol]` (symbol < 256) -/
theorem len_idx (posState : Nat) (hp : posState < POS_STATES_MAX) :
    LEN_CHOICE < LEN_LOW ∧ LEN_CHOICE2 < LEN_LOW
    ∧ (∀ sym, sym < LEN_LOW_SYMBOLS → LEN_LOW + posState * LEN_LOW_SYMBOLS + sym < LEN_MID)
    ∧ (∀ sym, sym < LEN_MID_SYMBOLS → LEN_MID + posState * LEN_MID_SYMBOLS + sym < LEN_HIGH)
    ∧ (∀ sym, sym < LEN_HIGH_SYMBOLS → LEN_HIGH + sym < LEN_CODER_SIZE)
    ∧ P_MATCH_LEN + LEN_CODER_SIZE = P_REP_LEN ∧ P_REP_LEN + LEN_CODER_SIZE = P_LITERAL := by
  simp only [POS_STATES_MAX] at hp
  refine ⟨by decide, by decide, ?_, ?_, ?_, by decide, by decide⟩
  · intro s h; simp only [LEN_LOW, LEN_MID, LEN_LOW_SYMBOLS] at *; omega
  · intro s h; simp only [LEN_HIGH, LEN_MID, LEN_MID_SYMBOLS] at *; omega
  · intro s h; simp only [LEN_HIGH, LEN_CODER_SIZE, LEN_HIGH_SYMBOLS] at *; omega

/-- the decoded length is within MATCH_LEN_MIN..MATCH_LEN_MAX whatever the bittrees return in their ranges -/
theorem len_range (s3 s8 : Nat) (h3 : 8 ≤ s3 ∧ s3 < 16) (h8 : 256 ≤ s8 ∧ s8 < 512) :
    2 ≤ MATCH_LEN_MIN + (s3 - LEN_LOW_SYMBOLS) ∧ MATCH_LEN_MIN + LEN_LOW_SYMBOLS + (s3 - LEN_MID_SYMBOLS) ≤ 17
    ∧ 18 ≤ MATCH_LEN_MIN + LEN_LOW_SYMBOLS + LEN_MID_SYMBOLS + (s8 - LEN_HIGH_SYMBOLS)
    ∧ MATCH_LEN_MIN + LEN_LOW_SYMBOLS + LEN_MID_SYMBOLS + (s8 - LEN_HIGH_SYMBOLS) ≤ LzDict.MATCH_LEN_MAX := by
  simp only [MATCH_LEN_MIN, LEN_LOW_SYMBOLS, LEN_MID_SYMBOLS, LEN_HIGH_SYMBOLS, LzDict.MATCH_LEN_MAX]; omega

private theorem litMask_bound :
    ∀ lc, lc < 5 → ∀ lp, lp < 5 → lc + lp ≤ 4 →
      3 * ((literalMask lc lp) <<< lc) + LITERAL_CODER_SIZE ≤ LITERAL_CODER_SIZE <<< (lc + lp) := by
  decide +kernel

/-- `literal_subcoder(probs, lc, literal_mask, pos, prev_byte)[sub]` with `sub < LITERAL_CODER_SIZE` stays inside the
    `LITERAL_CODER_SIZE << (lc + lp)` probabilities that `literal_init` initialises, for EVERY position and previous byte. -/
theorem literal_idx (lc lp pos prev sub : Nat) (h : lc + lp ≤ LZMA_LCLP_MAX) (hs : sub < LITERAL_CODER_SIZE) :
    P_LITERAL + literalSubcoder lc lp pos prev + sub < probsSize lc lp
    ∧ literalSubcoder lc lp pos prev + sub < LITERAL_CODER_SIZE <<< (lc + lp)
    ∧ LITERAL_CODER_SIZE <<< (lc + lp) ≤ 16 * LITERAL_CODER_SIZE := by
  simp only [LZMA_LCLP_MAX] at h
  have hb := litMask_bound lc (by omega) lp (by omega) h
  have hand : ((pos <<< 8) + prev) &&& literalMask lc lp ≤ literalMask lc lp := Nat.and_le_right
  have hsh : (((pos <<< 8) + prev) &&& literalMask lc lp) <<< lc ≤ (literalMask lc lp) <<< lc := by
    rw [Nat.shiftLeft_eq _ lc, Nat.shiftLeft_eq _ lc]
    exact Nat.mul_le_mul_right _ hand
  have hmax : LITERAL_CODER_SIZE <<< (lc + lp) ≤ 16 * LITERAL_CODER_SIZE := by
    have : lc + lp = 0 ∨ lc + lp = 1 ∨ lc + lp = 2 ∨ lc + lp = 3 ∨ lc + lp = 4 := by omega
    rcases this with e | e | e | e | e <;> rw [e] <;> decide
  unfold probsSize literalSubcoder
  simp only [LITERAL_CODER_SIZE] at *
  refine ⟨by omega, by omega, hmax⟩

theorem and_256 (len : Nat) : len &&& 256 = 0 ∨ len &&& 256 = 256 := by
  have e : (256 : Nat) = 2 ^ 8 := rfl
  cases h : len.testBit 8
  · left
    apply Nat.eq_of_testBit_eq; intro i
    rw [Nat.testBit_and, e, Nat.testBit_two_pow]
    by_cases hi : 8 = i
    · subst hi; simp [h]
    · simp [hi]
  · right
    apply Nat.eq_of_testBit_eq; intro i
    rw [Nat.testBit_and, e, Nat.testBit_two_pow]
    by_cases hi : 8 = i
    · subst hi; simp [h]
    · simp [hi]

/-- matched literal: `subcoder_index = offset + match_bit + symbol` with `offset ∈ {0, 0x100}`, `match_bit ∈ {0, offset}`,
    `symbol < 0x100` is a valid index into one literal coder; and the two ways `offset` is updated keep `offset ∈ {0, 0x100}`. -/
theorem matchedLit_idx (offset len sym : Nat) (ho : offset = 0 ∨ offset = 0x100) (hs : sym < 0x100) :
    offset + (len &&& offset) + sym < LITERAL_CODER_SIZE
    ∧ ((len &&& offset) = 0 ∨ (len &&& offset) = offset)
    ∧ ((offset ^^^ (len &&& offset)) = 0 ∨ (offset ^^^ (len &&& offset)) = 0x100) := by
  have hm : (len &&& offset) = 0 ∨ (len &&& offset) = offset := by
    rcases ho with h | h
    · left; subst h; simp
    · subst h; exact and_256 len
  refine ⟨?_, hm, ?_⟩
  · simp only [LITERAL_CODER_SIZE]; rcases ho with h | h <;> rcases hm with m | m <;> omega
  · rcases ho with h | h <;> rcases hm with m | m
    · left; rw [m, h]; rfl
    · left; rw [m, h]; rfl
    · right; rw [m, h]; rfl
    · left; rw [m]; simp

end XzVerif.Lzma
