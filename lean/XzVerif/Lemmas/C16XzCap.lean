/-
  C16: the Stream Padding / concatenation rules for the CAPACITY-THREADED machine `XzConcat.xzLoopCap` (Lemmas/XzLoopAgree.lean) and,
  through `XzDecode.xzLoop_eq_cap`, for the concrete container decoder `XzDecode.xzLoop` / `xzCall` that C03Container and C05 use.
  (`XzConcat.xzLoop` is the instance of `xzLoopCap` for a single-Stream decoder that ignores the output capacity; the single-Stream
  decoder of `stdEnv` does NOT ignore it, so the rules are proved here for `xzLoopCap` itself.)  Kernel proofs, core Lean only.
-/
import XzVerif.Lemmas.C16
import XzVerif.Lemmas.XzLoopAgree

namespace XzVerif.C16L
open XzVerif XzVerif.Alone XzVerif.XzConcat

/-! ### the capacity-threaded concatenation machine `XzConcat.xzLoopCap` -/

theorem xzLoopCap_succ (X : Nat → One) (cfg : XzConcat.Cfg) (f : Nat) (first : Bool) (inp : List UInt8) (cap : Nat) :
    xzLoopCap X cfg (f + 1) first inp cap =
      (let r := X cap inp
       let ret1 := if r.ret = .formatError && !first then Ret.dataError else r.ret
       if ret1 ≠ .streamEnd then { r with ret := ret1 }
       else if !cfg.concatenated then r
       else
         let t := inp.drop r.consumed
         match padding cfg t with
         | .inl p => prepend r p
         | .inr z => prepend { r with consumed := r.consumed + z } (xzLoopCap X cfg f false (t.drop z) (cap - r.out.length))) := rfl

/-- Without LZMA_CONCATENATED the machine is the single-Stream decoder at the given capacity. -/
theorem xzLoopCap_single (X : Nat → One) (cfg : XzConcat.Cfg) (h : cfg.concatenated = false) (f : Nat) (inp : List UInt8) (cap : Nat) :
    xzLoopCap X cfg (f + 1) true inp cap = X cap inp := by
  rw [xzLoopCap_succ]
  simp only [h, Bool.not_true, Bool.and_false, Bool.false_eq_true, if_false, Bool.not_false, if_true]
  split <;> rfl

theorem xzLoopCap_needs_finish (X : Nat → One) (cfg : XzConcat.Cfg) (hc : cfg.concatenated = true) (hf : cfg.finish = false) :
    ∀ (f : Nat) (first : Bool) (inp : List UInt8) (cap : Nat), (xzLoopCap X cfg f first inp cap).ret ≠ .streamEnd := by
  intro f
  induction f with
  | zero => intro _ _ _; simp [xzLoopCap, fail]
  | succ f ih =>
    intro first inp cap
    rw [xzLoopCap_succ]
    generalize X cap inp = r
    simp only []
    by_cases h1 : (if (decide (r.ret = .formatError) && !first) = true then Ret.dataError else r.ret) ≠ .streamEnd
    · rw [if_pos h1]; exact h1
    · rw [if_neg h1]
      simp only [hc, Bool.not_true, Bool.false_eq_true, if_false]
      cases hp : padding cfg (List.drop r.consumed inp) with
      | inl p => exact padding_ret_of_not_finish cfg hf _ p hp
      | inr z => exact ih _ _ _

theorem xzLoopCap_bad_magic (X : Nat → One) (cfg : XzConcat.Cfg) (f : Nat) (first : Bool) (inp : List UInt8) (cap : Nat)
    (h : (X cap inp).ret = .formatError) :
    (xzLoopCap X cfg (f + 1) first inp cap).ret = if first then .formatError else .dataError := by
  rw [xzLoopCap_succ]
  cases first <;> simp [h]

theorem xzLoopCap_step (X : Nat → One) (cfg : XzConcat.Cfg) (hc : cfg.concatenated = true) (f : Nat) (first : Bool)
    (s rest : List UInt8) (z cap : Nat) (hs : (X cap (s ++ (List.replicate z 0 ++ rest))).ret = .streamEnd)
    (hn : (X cap (s ++ (List.replicate z 0 ++ rest))).consumed = s.length)
    (hrest : ∀ b t, rest = b :: t → b ≠ 0) :
    xzLoopCap X cfg (f + 1) first (s ++ (List.replicate z 0 ++ rest)) cap =
      match rest with
      | [] => prepend (X cap (s ++ (List.replicate z 0 ++ rest)))
                { ret := if !cfg.finish then .ok else if z % 4 = 0 then .streamEnd else .dataError, out := [], consumed := z }
      | _ :: _ =>
        if z % 4 ≠ 0 then prepend (X cap (s ++ (List.replicate z 0 ++ rest))) { ret := .dataError, out := [], consumed := z + 1 }
        else prepend { X cap (s ++ (List.replicate z 0 ++ rest)) with consumed := s.length + z }
               (xzLoopCap X cfg f false rest (cap - (X cap (s ++ (List.replicate z 0 ++ rest))).out.length)) := by
  rw [xzLoopCap_succ]
  generalize hr : X cap (s ++ (List.replicate z 0 ++ rest)) = r at hs hn ⊢
  simp only [hs, hn, hc]
  simp only [Bool.not_true, Bool.false_eq_true, if_false, List.drop_left', ne_eq, not_true_eq_false, reduceCtorEq, decide_false, Bool.false_and]
  cases rest with
  | nil =>
    simp only [List.append_nil, padding_at_end]
  | cons b t =>
    have hb := hrest b t rfl
    simp only [padding_before_byte cfg z b t hb]
    by_cases hz : z % 4 ≠ 0
    · rw [if_pos hz, if_pos hz]
    · rw [if_neg hz, if_neg hz]
      simp only []
      rw [List.drop_append_of_le_length (by simp)]
      simp


/-! ### … transported to the concrete container decoder `XzDecode.xzLoop` / `xzCall` (C03Container, C05) -/

section
open XzVerif.XzDecode

theorem prepend_eq (a r : Alone.DRes) : XzConcat.prepend a r = XzDecode.prepend a r := rfl

/-- One step of the concrete `.xz` decoder under LZMA_CONCATENATED (always LZMA_FINISH in `XzDecode`). -/
theorem xzModel_step (E : Env) (hP : NoFormatError E) (fl : XzDecode.Flags) (hc : fl.concatenated = true) (f : Nat) (first : Bool)
    (s rest : List UInt8) (z cap : Nat)
    (hs : (streamOne E fl true (s ++ (List.replicate z 0 ++ rest)) cap).ret = .streamEnd)
    (hn : (streamOne E fl true (s ++ (List.replicate z 0 ++ rest)) cap).consumed = s.length)
    (hrest : ∀ b t, rest = b :: t → b ≠ 0) :
    XzDecode.xzLoop E fl (f + 1) first (s ++ (List.replicate z 0 ++ rest)) cap =
      match rest with
      | [] => XzDecode.prepend (streamOne E fl true (s ++ (List.replicate z 0 ++ rest)) cap)
                { ret := if z % 4 = 0 then .streamEnd else .dataError, out := [], consumed := z }
      | _ :: _ =>
        if z % 4 ≠ 0 then
          XzDecode.prepend (streamOne E fl true (s ++ (List.replicate z 0 ++ rest)) cap) { ret := .dataError, out := [], consumed := z + 1 }
        else
          XzDecode.prepend { streamOne E fl true (s ++ (List.replicate z 0 ++ rest)) cap with consumed := s.length + z }
            (XzDecode.xzLoop E fl f false rest (cap - (streamOne E fl true (s ++ (List.replicate z 0 ++ rest)) cap).out.length)) := by
  rw [XzDecode.xzLoop_eq_cap E hP fl]
  rw [xzLoopCap_step (fun c x => streamOne E fl true x c) (concatCfg fl) hc f first s rest z cap hs hn hrest]
  cases rest with
  | nil => simp only [concatCfg, Bool.not_true, Bool.false_eq_true, if_false, prepend_eq]
  | cons b t =>
    simp only [prepend_eq]
    rw [← XzDecode.xzLoop_eq_cap E hP fl]

/-- Wrong Header Magic Bytes in the concrete decoder: LZMA_FORMAT_ERROR for the first Stream, LZMA_DATA_ERROR for a later one. -/
theorem xzModel_bad_magic (E : Env) (hP : NoFormatError E) (fl : XzDecode.Flags) (f : Nat) (first : Bool) (inp : List UInt8) (cap : Nat)
    (h : (streamOne E fl true inp cap).ret = .formatError) :
    (XzDecode.xzLoop E fl (f + 1) first inp cap).ret = if first then .formatError else .dataError := by
  rw [XzDecode.xzLoop_eq_cap E hP fl]
  exact xzLoopCap_bad_magic _ _ f first inp cap h

/-- Without LZMA_CONCATENATED the concrete decoder is the single-Stream decoder: it stops right after the first Stream Footer. -/
theorem xzModel_single (E : Env) (hP : NoFormatError E) (fl : XzDecode.Flags) (hc : fl.concatenated = false) (inp : List UInt8) (cap : Nat) :
    XzDecode.xzCall E fl inp cap = streamOne E fl true inp cap := by
  unfold XzDecode.xzCall
  rw [XzDecode.xzLoop_eq_cap E hP fl]
  exact xzLoopCap_single _ (concatCfg fl) hc _ inp cap

/-- Trailing garbage in the concrete decoder: after a Stream and padding that is a multiple of four, bytes that do not begin with the
    Header Magic Bytes are LZMA_DATA_ERROR (never LZMA_FORMAT_ERROR, never success). -/
theorem xzModel_trailing_garbage (E : Env) (hP : NoFormatError E) (fl : XzDecode.Flags) (hc : fl.concatenated = true) (f : Nat) (first : Bool)
    (s : List UInt8) (b : UInt8) (t : List UInt8) (z cap : Nat)
    (hs : (streamOne E fl true (s ++ (List.replicate z 0 ++ b :: t)) cap).ret = .streamEnd)
    (hn : (streamOne E fl true (s ++ (List.replicate z 0 ++ b :: t)) cap).consumed = s.length)
    (hb : b ≠ 0) (hz : z % 4 = 0)
    (hg : (streamOne E fl true (b :: t) (cap - (streamOne E fl true (s ++ (List.replicate z 0 ++ b :: t)) cap).out.length)).ret = .formatError) :
    (XzDecode.xzLoop E fl (f + 2) first (s ++ (List.replicate z 0 ++ b :: t)) cap).ret = .dataError := by
  rw [xzModel_step E hP fl hc (f + 1) first s (b :: t) z cap hs hn (by intro b' t' h; cases h; exact hb)]
  simp only [hz, ne_eq, not_true_eq_false, if_false]
  show (XzDecode.xzLoop E fl (f + 1) false (b :: t) _).ret = .dataError
  rw [xzModel_bad_magic E hP fl f false (b :: t) _ hg]
  rfl

end

end XzVerif.C16L
