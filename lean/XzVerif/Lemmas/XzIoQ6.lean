/- C17 invariant Q6: assembled step theorem. -/
import XzVerif.Lemmas.XzIoQ6a
import XzVerif.Lemmas.XzIoQ6b
import XzVerif.Lemmas.XzIoQ6c

namespace XzVerif.XzIo
variable {α : Type}

theorem q6_exec {c : Cfg α} {s : St α} (hi : c.init = .ok) (hf : c.fin = .ok) (hk : c.srcSkip = false) (q : Q6 s) :
    Q6 (exec c s) := by
  cases hpc : s.pc with
  | openSrc => exact q6_exec_openSrc hi hf hk hpc q
  | fstatSrc => exact q6_exec_fstatSrc hi hf hk hpc q
  | closeSrcErr => exact q6_exec_closeSrcErr hi hf hk hpc q
  | openDir => exact q6_exec_openDir hi hf hk hpc q
  | unlinkForce => exact q6_exec_unlinkForce hi hf hk hpc q
  | openDest => exact q6_exec_openDest hi hf hk hpc q
  | closeDirErr => exact q6_exec_closeDirErr hi hf hk hpc q
  | fstatDest => exact q6_exec_fstatDest hi hf hk hpc q
  | lseekOut => exact q6_exec_lseekOut hi hf hk hpc q
  | read => exact q6_exec_read hi hf hk hpc q
  | readPoll => exact q6_exec_readPoll hi hf hk hpc q
  | write => exact q6_exec_write hi hf hk hpc q
  | writePoll => exact q6_exec_writePoll hi hf hk hpc q
  | seekHole => exact q6_exec_seekHole hi hf hk hpc q
  | fixPos => exact q6_exec_fixPos hi hf hk hpc q
  | tailSeek => exact q6_exec_tailSeek hi hf hk hpc q
  | fchownUid => exact q6_exec_fchownUid hi hf hk hpc q
  | fchownGid => exact q6_exec_fchownGid hi hf hk hpc q
  | fchmod => exact q6_exec_fchmod hi hf hk hpc q
  | futimens => exact q6_exec_futimens hi hf hk hpc q
  | fsyncFile => exact q6_exec_fsyncFile hi hf hk hpc q
  | fsyncDir => exact q6_exec_fsyncDir hi hf hk hpc q
  | closeDir => exact q6_exec_closeDir hi hf hk hpc q
  | closeDest => exact q6_exec_closeDest hi hf hk hpc q
  | statDest => exact q6_exec_statDest hi hf hk hpc q
  | unlinkDest => exact q6_exec_unlinkDest hi hf hk hpc q
  | closeSrc => exact q6_exec_closeSrc hi hf hk hpc q
  | statSrc => exact q6_exec_statSrc hi hf hk hpc q
  | unlinkSrc => exact q6_exec_unlinkSrc hi hf hk hpc q
  | done => unfold exec; simp only [hpc]; exact q

theorem preActions_trace {c : Cfg α} {s : St α} : (preActions c s).trace = s.trace := by
  unfold preActions; simp only; split <;> (try split) <;> (try split) <;> rfl

theorem preActions_userAbort_false {c : Cfg α} {s : St α} (h : (preActions c s).userAbort = false) : s.userAbort = false := by
  unfold preActions at h; simp only at h
  split at h <;> (try split at h) <;> (try split at h) <;> first | exact h | (simp at h)

theorem preActions_pc' {c : Cfg α} {s : St α} : (preActions c s).pc = s.pc := by
  unfold preActions; simp only; split <;> (try split) <;> (try split) <;> rfl

theorem preActions_success {c : Cfg α} {s : St α} : (preActions c s).success = s.success := by
  unfold preActions; simp only; split <;> (try split) <;> (try split) <;> rfl

theorem q6_preActions {c : Cfg α} {s : St α} (q : Q6 s) : Q6 (preActions c s) := by
  intro hall hua
  rw [preActions_trace] at hall
  have hp := q hall (preActions_userAbort_false hua)
  exact ⟨by rw [preActions_pc']; exact hp.nb, by rw [preActions_pc', preActions_success]; exact hp.ok⟩

theorem q6_step {c : Cfg α} {s : St α} (hi : c.init = .ok) (hf : c.fin = .ok) (hk : c.srcSkip = false) (q : Q6 s) :
    Q6 (step c s) := by
  unfold step
  split
  · exact q
  · exact q6_exec hi hf hk (q6_preActions q)

theorem q6_runN {c : Cfg α} (hi : c.init = .ok) (hf : c.fin = .ok) (hk : c.srcSkip = false) (n : Nat) (s : St α) (q : Q6 s) :
    Q6 (runN c n s) := by
  induction n generalizing s with
  | zero => exact q
  | succ n ih => exact ih _ (q6_step hi hf hk q)

theorem q6_start {c : Cfg α} (hi : c.init = .ok) (hf : c.fin = .ok) (de : Bool) (k0 e0 : Nat) : Q6 (start c de k0 e0) := by
  unfold start
  simp only
  split
  · intro _ hua
    rw [continueLoop_userAbort] at hua
    exact happy_continueLoop c hi hf _ hua
  · intro _ _
    exact ⟨rfl, fun h => by simp [Pc.fin] at h⟩

end XzVerif.XzIo
