/-
  C01, executable decoder ↔ specification decoder, part 9: the LZ layer `decode_buffer` around LZMA1, and the whole
  raw LZMA1 decoder `Lzma.lzmaDecode` on the bytes of a valid stream with end marker.
-/
import XzVerif.Lemmas.Lzma1ExecCall

namespace XzVerif.LzmaExec
open XzVerif.RangeDec XzVerif.RangeEnc XzVerif.RangeCoder XzVerif.LzDict XzVerif.Lzma XzVerif.LzmaEnc XzVerif.LzmaSymDec
open XzVerif.LzmaSym XzVerif.LzmaSpec

theorem allocSize_mod (dictSize : Nat) : allocSize dictSize % 16 = 0 ∧ 4096 + 576 ≤ allocSize dictSize ∧
    allocSize dictSize = roundDictSize dictSize + 576 := by
  have := roundDictSize_ge dictSize
  have e : allocSize dictSize = roundDictSize dictSize + 576 := rfl
  rw [e]
  refine ⟨by omega, by omega, rfl⟩

/-- the top of the `decode_buffer` loop: wrap the dictionary position, set the limit for this call -/
def relimit (s : St) (avail : Nat) : St := { s with dp := (s.dp.wrap).setLimit avail }

theorem sim_relimit {p : Props} {dictSize k : Nat} {s : St} {pos : Nat} {st : SymSt} {rb : List UInt8}
    (hs : Sim p dictSize k s pos st rb) (avail : Nat) :
    Sim p dictSize k (relimit s avail) pos st rb ∧ (relimit s avail).dp.full = s.dp.full ∧
    (relimit s avail).dp.limit - (relimit s avail).dp.pos = min avail ((relimit s avail).dp.size - (relimit s avail).dp.pos) ∧
    (relimit s avail).dp.pos < (relimit s avail).dp.size ∧ (relimit s avail).dp.size = s.dp.size := by
  obtain ⟨hlc, hlp, hpb, hst, hstlt, hw, hk⟩ := hs
  obtain ⟨a, b, c, d, e, f, g, i⟩ := hw
  obtain ⟨hm, hge, hal⟩ := allocSize_mod dictSize
  simp only [LZ_DICT_INIT_POS, LZ_DICT_REPEAT_MAX] at e f
  by_cases hwrap : s.dp.pos = s.dp.size
  · have hb : (s.dp.pos == s.dp.size) = true := by simp [hwrap]
    have hfull : s.dp.full = roundDictSize dictSize := by
      by_cases hw : s.dp.hasWrapped = true
      · exact (f hw).2
      · have := e (by simpa using hw); omega
    refine ⟨⟨hlc, hlp, hpb, ⟨hst.state, hst.rep0, hst.rep1, hst.rep2, hst.rep3⟩, hstlt, ⟨a, ?_, ?_, ?_, ?_, ?_, ?_, ?_⟩, ?_⟩,
      ?_, ?_, ?_, ?_⟩
    all_goals simp only [relimit, DictPos.wrap, DictPos.setLimit, hb, if_true, LZ_DICT_REPEAT_MAX, LZ_DICT_INIT_POS]
    · exact b
    · exact c
    · exact d
    · intro h; cases h
    · intro _; exact ⟨Nat.le_refl _, hfull⟩
    · omega
    · omega
    · omega
    · omega
    · omega
  · have hb : (s.dp.pos == s.dp.size) = false := by simp [hwrap]
    refine ⟨⟨hlc, hlp, hpb, ⟨hst.state, hst.rep0, hst.rep1, hst.rep2, hst.rep3⟩, hstlt, ⟨a, ?_, ?_, ?_, ?_, ?_, ?_, ?_⟩, ?_⟩,
      ?_, ?_, ?_, ?_⟩
    all_goals simp only [relimit, DictPos.wrap, DictPos.setLimit, hb, Bool.false_eq_true, if_false, LZ_DICT_REPEAT_MAX,
      LZ_DICT_INIT_POS]
    · exact b
    · exact c
    · exact d
    · exact e
    · exact f
    · omega
    · omega
    · exact hk
    · omega
    · omega

theorem callSt_relimit {p : Props} {dictSize k : Nat} {eopm : Bool} {tail : List UInt8} {psF : Probs} {s : St} {n posF : Nat}
    {stF : SymSt} {rbF : List UInt8} (hc : CallSt p dictSize k eopm tail psF s n posF stF rbF) (avail : Nat) :
    CallSt p dictSize k eopm tail psF (relimit s avail) n posF stF rbF := by
  obtain ⟨⟨pos, st, rb, m, rb3, syms, ps, rc, rest, ops, hs, hpend, hr, hv, henc, hchan, hn⟩, hinit, hmA, hmB⟩ := hc
  obtain ⟨hs', hfull, _⟩ := sim_relimit hs avail
  exact ⟨⟨pos, st, rb, m, rb3, syms, ps, rc, rest, ops, hs', hpend.congr (Nat.le_of_eq hfull.symm), hr,
    hv.congr rfl rfl rfl rfl rfl, henc, hchan, hn⟩, hinit, hmA, hmB⟩

theorem decodeBuffer_succ (code : St → Ret × St) (fuel outSize : Nat) (s : St) :
    decodeBuffer code (fuel + 1) outSize s =
      (let r := code (relimit s (outSize - s.produced))
       if r.2.dp.needReset then
         (if r.1 != .ok || ({ r.2 with dp := r.2.dp.reset } : St).produced == outSize then (r.1, { r.2 with dp := r.2.dp.reset })
          else decodeBuffer code fuel outSize { r.2 with dp := r.2.dp.reset })
       else
         (if r.1 != .ok || r.2.produced == outSize || r.2.dp.pos < r.2.dp.size then (r.1, r.2)
          else decodeBuffer code fuel outSize r.2)) := rfl

/-- `decode_buffer` around `lzma_decode` for a stream with end marker (`eopm`) or with known size: LZMA_STREAM_END after
    everything was produced -/
theorem bufE_run (p : Props) (hp : PropsOk p) (dictSize : Nat) (hd : dictSize ≤ 4294967295) (k : Nat) (eopm : Bool)
    (tail : List UInt8) (psF : Probs) (outSize posF : Nat) (stF : SymSt) (rbF : List UInt8) :
    ∀ (n fuel : Nat) (s : St), CallSt p dictSize k eopm tail psF s n posF stF rbF → s.dp.needReset = false →
      s.outBase ≤ s.hist.size → s.produced + n < outSize → n < fuel →
      ∃ sF, decodeBuffer lzmaCall fuel outSize s = (.streamEnd, sF) ∧ (∃ stF', Sim p dictSize k sF posF stF' rbF) ∧
        sF.hist.size = s.hist.size + n ∧ sF.inPos + tail.length = sF.inp.size ∧ sF.outBase = s.outBase ∧ sF.inp = s.inp := by
  intro n
  induction n using Nat.strong_induction_on with
  | _ n ih =>
    intro fuel s hc hnr hob hout hfuel
    obtain ⟨f, rfl⟩ : ∃ f, fuel = f + 1 := ⟨fuel - 1, by omega⟩
    have hc' := callSt_relimit hc (outSize - s.produced)
    obtain ⟨pos, st, rb, m, rb3, syms, ps, rc, rest, ops, hs, _⟩ := hc.work
    obtain ⟨_, _, hroom, hlt, hsz⟩ := sim_relimit hs (outSize - s.produced)
    rw [decodeBuffer_succ]
    generalize hs' : relimit s (outSize - s.produced) = s' at *
    have hprod' : s'.produced = s.produced := by rw [← hs']; rfl
    have hhist' : s'.hist = s.hist := by rw [← hs']; rfl
    have hob' : s'.outBase = s.outBase := by rw [← hs']; rfl
    have hnr' : s'.dp.needReset = false := by
      rw [← hs']; simp only [relimit, DictPos.setLimit, DictPos.wrap]; split <;> exact hnr
    rcases call_run p hp dictSize hd k eopm tail psF s' n posF stF rbF hc' with ⟨hfit, sF, hcall, hend⟩ | ⟨hnofit, s2, hcall, hc2, hpos2, hk2⟩
    · -- the stream ends in this call
      rw [hcall]
      have hnrF : sF.dp.needReset = false := by rw [hend.keep.needReset]; exact hnr'
      simp only [hnrF, Bool.false_eq_true, if_false, show (Ret.streamEnd != Ret.ok) = true from rfl, Bool.true_or, if_true]
      obtain ⟨stF', hsim, _⟩ := hend.sim
      refine ⟨sF, rfl, ⟨stF', hsim⟩, ?_, hend.inPos, ?_, ?_⟩
      · have := hend.keep.histpos
        have := hend.pos
        rw [hhist'] at *
        omega
      · rw [hend.keep.outBase, hob']
      · rw [hend.keep.inp, ← hs']; rfl
    · -- the dictionary is full; go round
      rw [hcall]
      have hnr2 : s2.dp.needReset = false := by rw [hk2.needReset]; exact hnr'
      have hhist2 : s2.hist.size = s.hist.size + (s'.dp.limit - s'.dp.pos) := by
        have := hk2.histpos
        rw [hhist'] at this
        omega
      have hob2 : s2.outBase = s.outBase := by rw [hk2.outBase, hob']
      have hprod2 : s2.produced = s.produced + (s'.dp.limit - s'.dp.pos) := by
        simp only [St.produced, hhist2, hob2]
        simp only [St.produced] at hout
        omega
      have hroomeq : s'.dp.limit - s'.dp.pos = s'.dp.size - s'.dp.pos := by
        rw [hroom]
        simp only [St.produced] at hout hprod'
        have : s'.dp.limit - s'.dp.pos < outSize - s.produced := by simp only [St.produced]; omega
        omega
      have hne : (s2.produced == outSize) = false := by
        simp only [beq_eq_false_iff_ne, ne_eq, hprod2]; omega
      have hposlt : ¬ s2.dp.pos < s2.dp.size := by
        rw [hpos2, hk2.size]
        have := hc'.work
        obtain ⟨_, _, _, _, _, _, _, _, _, _, hsx, _⟩ := this
        have := hsx.win.limit_le
        have := hsx.win.pos_le
        omega
      simp only [hnr2, Bool.false_eq_true, if_false, show (Ret.ok != Ret.ok) = false from rfl, hne, Bool.false_or,
        decide_eq_true_eq, hposlt]
      obtain ⟨sF, hrun, hsim, hsize, hin, hobF, hinp⟩ := ih (n - (s'.dp.limit - s'.dp.pos)) (by omega) f s2 hc2 hnr2
        (by rw [hob2, hhist2]; omega) (by rw [hprod2]; omega) (by omega)
      refine ⟨sF, hrun, hsim, by rw [hsize, hhist2]; omega, hin, by rw [hobF, hob2], ?_⟩
      rw [hinp, hk2.inp, ← hs']; rfl

theorem buf1_run (p : Props) (hp : PropsOk p) (dictSize : Nat) (hd : dictSize ≤ 4294967295) (k : Nat) (tail : List UInt8)
    (psF : Probs) (outSize posF : Nat) (stF : SymSt) (rbF : List UInt8) :
    ∀ (n fuel : Nat) (s : St), CallSt p dictSize k true tail psF s n posF stF rbF → s.dp.needReset = false →
      s.outBase ≤ s.hist.size → s.produced + n < outSize → n < fuel →
      ∃ sF, decodeBuffer lzmaCall fuel outSize s = (.streamEnd, sF) ∧ (∃ stF', Sim p dictSize k sF posF stF' rbF) ∧
        sF.hist.size = s.hist.size + n ∧ sF.inPos + tail.length = sF.inp.size ∧ sF.outBase = s.outBase ∧ sF.inp = s.inp :=
  bufE_run p hp dictSize hd k true tail psF outSize posF stF rbF

end XzVerif.LzmaExec
