/-
  Bridges between the loop bodies of the fixed-width BCJ filters as TRANSLATED from src/liblzma/simple/{arm,armthumb,
  powerpc,sparc,arm64}.c (Gen/Kernels.lean, BitVec mode of tools/c2lean.py: `buffer_i_k` = `buffer[i + k]`) and the
  hand-written word functions of Model/Bcj.lean that the C15 theorems are stated over.  Quantifier-free fixed-width
  facts, discharged by `bv_decide` (allowed in Lemmas/BitWords*.lean only).
-/
import Std.Tactic.BVDecide
import XzVerif.Gen.Kernels
import XzVerif.Model.Bcj
namespace XzVerif.BitWords
open XzVerif XzVerif.Gen XzVerif.Bcj

/-- the 32-bit value whose byte `k` (bits 8k..8k+7, as `Bcj.getB` reads it) is `buffer[i + k]` -/
def word4 (b0 b1 b2 b3 : BitVec 8) : BitVec 32 :=
  b0.setWidth 32 ||| (b1.setWidth 32 <<< 8) ||| (b2.setWidth 32 <<< 16) ||| (b3.setWidth 32 <<< 24)

/-- arm.c: the translated `if (buffer[i + 3] == 0xEB) { … }` stores bytes 0..2 of `Bcj.armWord` (byte 3 is not written) -/
theorem arm_word_eq (b0 b1 b2 b3 : BitVec 8) (i : BitVec 64) (enc : Bool) (now : BitVec 32) :
    Kernels.arm_word b0 b1 b2 b3 i enc now
      = (0, (getB (armWord enc (now + i.setWidth 32) (word4 b0 b1 b2 b3)) 0).setWidth 8,
            (getB (armWord enc (now + i.setWidth 32) (word4 b0 b1 b2 b3)) 1).setWidth 8,
            (getB (armWord enc (now + i.setWidth 32) (word4 b0 b1 b2 b3)) 2).setWidth 8)
      ∧ (getB (armWord enc (now + i.setWidth 32) (word4 b0 b1 b2 b3)) 3).setWidth 8 = b3 := by
  unfold Kernels.arm_word armWord getB setB word4
  dsimp only
  constructor
  · split <;> simp only [Prod.mk.injEq] <;> bv_decide
  · bv_decide

/-- powerpc.c -/
theorem powerpc_word_eq (b0 b1 b2 b3 : BitVec 8) (i : BitVec 64) (enc : Bool) (now : BitVec 32) :
    Kernels.powerpc_word b0 b1 b2 b3 i enc now
      = (0, (getB (powerpcWord enc (now + i.setWidth 32) (word4 b0 b1 b2 b3)) 0).setWidth 8,
            (getB (powerpcWord enc (now + i.setWidth 32) (word4 b0 b1 b2 b3)) 1).setWidth 8,
            (getB (powerpcWord enc (now + i.setWidth 32) (word4 b0 b1 b2 b3)) 2).setWidth 8,
            (getB (powerpcWord enc (now + i.setWidth 32) (word4 b0 b1 b2 b3)) 3).setWidth 8) := by
  unfold Kernels.powerpc_word powerpcWord getB setB word4
  dsimp only
  split <;> simp only [Prod.mk.injEq] <;> bv_decide

/-- sparc.c -/
theorem sparc_word_eq (b0 b1 b2 b3 : BitVec 8) (i : BitVec 64) (enc : Bool) (now : BitVec 32) :
    Kernels.sparc_word b0 b1 b2 b3 i enc now
      = (0, (getB (sparcWord enc (now + i.setWidth 32) (word4 b0 b1 b2 b3)) 0).setWidth 8,
            (getB (sparcWord enc (now + i.setWidth 32) (word4 b0 b1 b2 b3)) 1).setWidth 8,
            (getB (sparcWord enc (now + i.setWidth 32) (word4 b0 b1 b2 b3)) 2).setWidth 8,
            (getB (sparcWord enc (now + i.setWidth 32) (word4 b0 b1 b2 b3)) 3).setWidth 8) := by
  unfold Kernels.sparc_word sparcWord getB setB word4
  dsimp only
  split <;> simp only [Prod.mk.injEq] <;> bv_decide

/-- arm64.c: the translated `if ((instr >> 26) == 0x25) … else if (…) …` leaves `Bcj.arm64Word` in `instr`
    (`pc` = `now_pos + i` on entry) -/
theorem arm64_word_eq (instr pc : BitVec 32) (enc : Bool) :
    (Kernels.arm64_word instr enc pc).1 = 0 ∧ (Kernels.arm64_word instr enc pc).2.1 = arm64Word enc pc instr := by
  unfold Kernels.arm64_word arm64Word
  dsimp only
  constructor
  · (repeat' split) <;> rfl
  · (repeat' split) <;> simp only [] <;> bv_decide

/-- armthumb.c: the translated `if ((buffer[i+1] & 0xF8) == 0xF0 && (buffer[i+3] & 0xF8) == 0xF8) { … i += 2; }`:
    where `Bcj.thumbCond` holds the four bytes of `Bcj.thumbConv` are stored and `i` advances by 2 (the loop adds 2 more),
    otherwise nothing changes. -/
theorem armthumb_word_eq (b0 b1 b2 b3 : BitVec 8) (i : BitVec 64) (enc : Bool) (now : BitVec 32) :
    Kernels.armthumb_word b0 b1 b2 b3 i enc now
      = if thumbCond (UInt8.ofBitVec b1) (UInt8.ofBitVec b3) then
          (0, (thumbConv enc (now + i.setWidth 32) (UInt8.ofBitVec b0) (UInt8.ofBitVec b1) (UInt8.ofBitVec b2) (UInt8.ofBitVec b3)).1.toBitVec,
              (thumbConv enc (now + i.setWidth 32) (UInt8.ofBitVec b0) (UInt8.ofBitVec b1) (UInt8.ofBitVec b2) (UInt8.ofBitVec b3)).2.1.toBitVec,
              (thumbConv enc (now + i.setWidth 32) (UInt8.ofBitVec b0) (UInt8.ofBitVec b1) (UInt8.ofBitVec b2) (UInt8.ofBitVec b3)).2.2.1.toBitVec,
              (thumbConv enc (now + i.setWidth 32) (UInt8.ofBitVec b0) (UInt8.ofBitVec b1) (UInt8.ofBitVec b2) (UInt8.ofBitVec b3)).2.2.2.toBitVec,
              i + 2#64)
        else (0, b0, b1, b2, b3, i) := by
  unfold Kernels.armthumb_word thumbCond thumbConv u32 u8
  dsimp only
  split <;> split <;> simp only [Prod.mk.injEq] <;> simp_all <;> bv_decide
end XzVerif.BitWords
