/-
  Slicing independence of the resumable LZMA1/LZMA2 decoder model ACROSS WRAPS of the dictionary window: interface.

  `decode_buffer` wraps the window (`pos == size` → `pos = LZ_DICT_REPEAT_MAX`, `has_wrapped = true`) at the top of its loop. A call with
  more input can therefore do work at the very end of the window (parse header bytes, decode the bits of one more symbol up to its
  refused write) that a call with less input does only after the wrap. `dict.size` and `LZ_DICT_REPEAT_MAX` are multiples of 16 and
  `lc + lp ≤ 4`, `pb ≤ 4`, so `dict.pos & pos_mask` and the literal context are the same on both sides of the wrap
  (`Lemmas/LzmaResumeAlign.lean`): the interface below says that a `code` call made with NO room at the end of the window commutes with
  the wrap.
-/
import XzVerif.Lemmas.LzmaResumeIdleDefs

namespace XzVerif.LzmaR
open XzVerif.RangeDec XzVerif.LzDict XzVerif.Lzma XzVerif.Lzma2

/-- the wrap step of `decode_buffer` on a coder state -/
def RSt.wrap (r : RSt) : RSt := r.map fun s => { s with dp := s.dp.wrap }

/-- forget the per-call members AND whether a full window has already been wrapped -/
def RSt.normW (r : RSt) : RSt := r.wrap.norm

/-- same return code, same state up to (`inp`, `dp.limit`, pending wrap) -/
def SameW (x y : Ret × RSt) : Prop := x.1 = y.1 ∧ x.2.normW = y.2.normW

def EqvW (x y : Ret × RSt) : Prop :=
  SameW x y ∨ (x.1 = .dataError ∧ y.1 = .dataError ∧ x.2.overrun = true ∧ y.2.overrun = true)

/-- static facts behind the alignment argument -/
def AlignOk (s : St) : Prop := s.dp.size % 16 = 0 ∧ s.lc + s.lp ≤ 4 ∧ s.pb ≤ 4

/-- `full` is in step with `pos` until the first wrap -/
def FullOkS (s : St) : Prop := s.dp.hasWrapped = false → s.dp.full + LZ_DICT_INIT_POS = s.dp.pos

/-- **LZMA1 call level.** `r` is at the end of the window (`pos = size`). `lzma_decode` after the wrap = `lzma_decode` with no room
    before the wrap, then (if that returned LZMA_OK) the wrap and `lzma_decode`. -/
def L1Wrap : Prop :=
  ∀ (r : RSt) (b : ByteArray) (L2 : Nat), Pre1 r b r.s.dp.size → AlignOk r.s → FullOkS r.s → r.s.dp.pos = r.s.dp.size →
    LZ_DICT_REPEAT_MAX ≤ L2 → L2 ≤ r.s.dp.size →
    Same (lzmaCallR (r.wrap.view b L2))
      (if (lzmaCallR (r.view b r.s.dp.size)).1 = .ok then lzmaCallR ((lzmaCallR (r.view b r.s.dp.size)).2.wrap.view b L2)
       else ((lzmaCallR (r.view b r.s.dp.size)).1, (lzmaCallR (r.view b r.s.dp.size)).2.wrap))

/-- the same for a `code` function of the LZ layer, in the three cases of `CodeAbsorb` -/
structure CodeWrap (P : RSt → Prop) (code : RSt → Ret × RSt) : Prop where
  /-- `P` survives the wrap of a full window -/
  frame_wrap : ∀ r, P r → AlignOk r.s → FullOkS r.s → r.s.dp.pos = r.s.dp.size → P r.wrap
  /-- the static facts are kept by `code` -/
  align : ∀ r, P r → r.s.dp.needReset = false → r.s.inPos ≤ r.s.inp.size → r.s.dp.pos ≤ r.s.dp.limit → AlignOk r.s → AlignOk (code r).2.s
  stop : ∀ r b L2, P r → AlignOk r.s → FullOkS r.s → Agree r.s.inPos r.s.inp b → r.s.inPos ≤ b.size → r.s.dp.needReset = false →
    r.s.dp.pos = r.s.dp.size → LZ_DICT_REPEAT_MAX ≤ L2 → L2 ≤ r.s.dp.size →
    (code (r.view b r.s.dp.size)).1 ≠ .ok →
    Eqv (code (r.wrap.view b L2)) ((code (r.view b r.s.dp.size)).1, (code (r.view b r.s.dp.size)).2.wrap)
  yield : ∀ r b L2, P r → AlignOk r.s → FullOkS r.s → Agree r.s.inPos r.s.inp b → r.s.inPos ≤ b.size → r.s.dp.needReset = false →
    r.s.dp.pos = r.s.dp.size → LZ_DICT_REPEAT_MAX ≤ L2 → L2 ≤ r.s.dp.size →
    (code (r.view b r.s.dp.size)).1 = .ok → (code (r.view b r.s.dp.size)).2.s.dp.needReset = true →
    Same (code (r.wrap.view b L2)) (.ok, (code (r.view b r.s.dp.size)).2.wrap)
  resume : ∀ r b L2, P r → AlignOk r.s → FullOkS r.s → Agree r.s.inPos r.s.inp b → r.s.inPos ≤ b.size → r.s.dp.needReset = false →
    r.s.dp.pos = r.s.dp.size → LZ_DICT_REPEAT_MAX ≤ L2 → L2 ≤ r.s.dp.size →
    (code (r.view b r.s.dp.size)).1 = .ok → (code (r.view b r.s.dp.size)).2.s.dp.needReset = false →
    Eqv (code (r.wrap.view b L2)) (code ((code (r.view b r.s.dp.size)).2.wrap.view b L2))

end XzVerif.LzmaR
