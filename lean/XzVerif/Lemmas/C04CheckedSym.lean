/-
  The checked symbol decoder and the checked output step (Lemmas/C04Checked.lean) agree with the executable ones and never
  report an out-of-bounds access, from every state in which
    * the probability array has the size `probsSize lc lp` that `lzma_decoder_reset` gives it, `lc + lp ≤ 4`, `pb ≤ 4`,
      `state < 12`                                                                    (probability indices),
    * `dict.full ≤` number of bytes in the history                                     (model-level bound of `dict_get`),
    * in a non-literal state `rep0 < dict.full`                                        (the matched-literal `dict_get(rep0)`),
    * for SEQ_SHORTREP / SEQ_COPY `rep0 < dict.full`                                   (`dict_get` / `dict_repeat`).
  The walk follows the text of `decodeSymbol` branch by branch; every probability index is discharged by the layout lemmas
  of Lemmas/C03Probs.lean.
-/
import XzVerif.Lemmas.C04CheckedRc
import XzVerif.Lemmas.C03Reps

namespace XzVerif.Lzma
open XzVerif.RangeDec XzVerif.LzDict

theorem Sim.of_pre {α} {P : St → Prop} {x : M α} {xc : MC α} {Q : α → St → Prop} {C : Prop}
    (h : ∀ s, P s → C) (hs : C → Sim P x xc Q) : Sim P x xc Q :=
  fun s hp => hs (h s hp) s hp

theorem Sim.ite {α} {P : St → Prop} {c : Prop} [Decidable c] {x y : M α} {xc yc : MC α} {Q : α → St → Prop}
    (h1 : c → Sim P x xc Q) (h2 : ¬ c → Sim P y yc Q) : Sim P (if c then x else y) (if c then xc else yc) Q := by
  by_cases h : c
  · rw [if_pos h, if_pos h]; exact h1 h
  · rw [if_neg h, if_neg h]; exact h2 h

theorem Stable.and {G H : St → Prop} (hG : Stable G) (hH : Stable H) : Stable (fun s => G s ∧ H s) :=
  fun s s' h hf => ⟨hG s s' h.1 hf, hH s s' h.2 hf⟩

theorem stable_state (st : Nat) : Stable (fun s => s.state = st) := fun _ _ h hf => hf.core.1.trans h
theorem stable_pb (pb : Nat) : Stable (fun s => s.pb = pb) := fun _ _ h hf => hf.lclppb.2.2.trans h

/-! ### checked dictionary reads -/

theorem byteArray_get!_eq (b : ByteArray) (i : Nat) (h : i < b.size) : b.get! i = b[i] := by
  cases b with
  | mk bs =>
    have h' : i < bs.size := h
    simp only [ByteArray.get!]
    simp [h']
    rfl

theorem dictGetC_eq (s : St) (d : Nat) (hP : PosInv s.dp) (h1 : d < s.dp.full) (h2 : d < s.hist.size) :
    dictGetC s d = some (s.dictGet d) := by
  unfold dictGetC St.dictGet
  have h3 := (getIndex_lt hP d h1).1
  simp only [h1, h2, h3, and_self, dite_true, if_true]
  rw [byteArray_get!_eq]

theorem dictGet0C_eq (s : St) (hP : PosInv s.dp) (h : s.dp.full ≤ s.hist.size) : dictGet0C s = some s.dictGet0 := by
  unfold dictGet0C St.dictGet0
  have h0 := get0_lt hP
  simp only [h0.1, h0.2, and_self, if_true]
  split
  · rfl
  · next hne =>
    have : s.dp.full ≠ 0 := by simpa using hne
    exact dictGetC_eq s 0 hP (by omega) (by omega)

theorem putC_eq (s : St) (b : UInt8) (hP : PosInv s.dp) (hne : s.dp.pos ≠ s.dp.limit) : putC s b = some (s.put b) := by
  unfold putC
  have h1 := hP.pos_le_limit
  have h2 := hP.limit_le_size
  have : s.dp.pos < s.dp.size := by omega
  simp only [this, if_true]

theorem copyBytesC_eq : ∀ n d (h : ByteArray), d < h.size → copyBytesC n d h = some (St.copyBytes n d h)
  | 0, _, _, _ => rfl
  | n + 1, d, h, hd => by
    unfold copyBytesC St.copyBytes
    simp only [hd, dite_true, if_true]
    rw [byteArray_get!_eq h _ (by omega)]
    exact copyBytesC_eq n d _ (by rw [ByteArray.size_push]; omega)

/-- the lengths `dict_repeat` is called with -/
def CopyLen : Pending → Prop
  | .copy len => len ≤ LzDict.MATCH_LEN_MAX
  | _ => True

theorem repeatNC_eq (s : St) (len : Nat) (hP : PosInv s.dp) (h1 : s.rep0 < s.dp.full) (h2 : s.dp.full ≤ s.hist.size)
    (hl : len ≤ LzDict.MATCH_LEN_MAX) :
    repeatNC s (s.dp.repeatLeft len) = some (s.repeatN (s.dp.repeatLeft len)) := by
  unfold repeatNC St.repeatN
  have hb := repeat_bounds hP s.rep0 len h1 (by simp only [LzDict.MATCH_LEN_MAX, LZ_DICT_REPEAT_MAX] at *; omega)
  simp only [] at hb
  have h3 := hP.limit_le_size
  have h4 : s.dp.pos + s.dp.repeatLeft len ≤ s.dp.size := by have := hb.2.1; omega
  simp only [h1, hb.1, h4, and_self, if_true]
  rw [copyBytesC_eq _ s.rep0 s.hist (by omega)]

/-! ### the symbol decoder -/

/-- the literal coder's base is the start of a row of 0x300 probabilities inside the array -/
theorem sim_litBase {K : SCtx} {G : St → Prop} (hn : K.n = probsSize K.lc K.lp) (hlc : K.lc + K.lp ≤ 4)
    (hP : PosInv K.dp) (hF : K.dp.full ≤ K.hsize) :
    Sim (fun s => Stat K s ∧ G s)
      (fun s : St => EStateM.Result.ok (P_LITERAL + literalSubcoder s.lc s.lp s.dp.pos s.dictGet0.toNat) s) litBaseC
      (fun base s' => (Stat K s' ∧ G s') ∧ base + LITERAL_CODER_SIZE ≤ K.n ∧ P_LITERAL ≤ base) := by
  intro s hp
  obtain ⟨⟨h1, h2, h3, h4, h5⟩, hg⟩ := hp
  refine ⟨?_, ?_⟩
  · unfold litBaseC
    rw [dictGet0C_eq s (by rw [h4]; exact hP) (by rw [h4, h5]; exact hF)]
    rfl
  · intro a s' e
    injection e with e1 e2
    subst e2
    refine ⟨⟨⟨h1, h2, h3, h4, h5⟩, hg⟩, ?_⟩
    rw [← e1, h2, h3, hn]
    have := (literal_idx K.lc K.lp s.dp.pos s.dictGet0.toNat (LITERAL_CODER_SIZE - 1) (by simp only [LZMA_LCLP_MAX]; exact hlc)
      (by decide)).1
    simp only [LITERAL_CODER_SIZE] at *
    omega

/-- the part of the `literal` member the model array holds is inside the member -/
theorem probsSize_le_member (lc lp : Nat) (h : lc + lp ≤ 4) :
    probsSize lc lp ≤ P_LITERAL + LITERAL_CODER_SIZE <<< LZMA_LCLP_MAX := by
  unfold probsSize
  have : LITERAL_CODER_SIZE <<< (lc + lp) ≤ LITERAL_CODER_SIZE <<< LZMA_LCLP_MAX := by
    rw [Nat.shiftLeft_eq, Nat.shiftLeft_eq]
    exact Nat.mul_le_mul_left _ (Nat.pow_le_pow_right (by decide) h)
  omega

/-- the matched-literal read `dict_get(&dict, rep0)` with `rep0 < dict.full` -/
theorem sim_matchByte {K : SCtx} {G : St → Prop} (r0 : Nat) (hP : PosInv K.dp) (hF : K.dp.full ≤ K.hsize)
    (hr : r0 < K.dp.full) :
    Sim (fun s => (Stat K s ∧ G s) ∧ s.rep0 = r0)
      (fun s : St => EStateM.Result.ok (s.dictGet s.rep0).toNat s) matchByteC (fun _ s' => Stat K s' ∧ G s') := by
  intro s hp
  obtain ⟨⟨⟨h1, h2, h3, h4, h5⟩, hg⟩, h0⟩ := hp
  refine ⟨?_, ?_⟩
  · unfold matchByteC
    rw [dictGetC_eq s s.rep0 (by rw [h4]; exact hP) (by rw [h0, h4]; exact hr) (by rw [h0, h5]; omega)]
    rfl
  · intro a s' e
    injection e with _ e2
    subst e2
    exact ⟨⟨h1, h2, h3, h4, h5⟩, hg⟩

theorem state_updates_lt (st : Nat) (h : st < 12) :
    updateLiteralNormal st < 12 ∧ updateLiteralMatched st < 12 ∧ updateMatch st < 12 ∧ updateLongRep st < 12
    ∧ updateShortRep st < 12 := by
  unfold updateLiteralNormal updateLiteralMatched updateMatch updateLongRep updateShortRep
  simp only [LIT_STATES]
  refine ⟨?_, ?_, ?_, ?_, ?_⟩ <;> split <;> omega

/-- ONE SYMBOL: the checked decoder equals the executable one (so it never reports `oob`); afterwards the static
    fields are unchanged and `state < 12` again. -/
theorem sim_decodeSymbol (ev : Bool) (K : SCtx) (st r0 pb : Nat)
    (hn : K.n = probsSize K.lc K.lp) (hlc : K.lc + K.lp ≤ 4) (hpb : pb ≤ 4) (hst : st < 12)
    (hP : PosInv K.dp) (hF : K.dp.full ≤ K.hsize) (hr : 7 ≤ st → r0 < K.dp.full) :
    Sim (fun s => Stat K s ∧ (s.rep0 = r0 ∧ s.state = st ∧ s.pb = pb)) (decodeSymbol ev) (decodeSymbolC ev)
      (fun act s' => (Stat K s' ∧ s'.state < 12) ∧ CopyLen act) := by
  have hsz := probsSize_ge K.lc K.lp
  have hnL : P_LITERAL ≤ K.n := by rw [hn]; omega
  have hup := state_updates_lt st hst
  have hG0 : Stable (fun s : St => s.rep0 = r0 ∧ s.state = st ∧ s.pb = pb) :=
    (stable_rep0 r0).and ((stable_state st).and (stable_pb pb))
  -- ending a branch in a state whose `state` field is known
  have fin : ∀ (v : Nat), v < 12 → ∀ (a : Pending), CopyLen a →
      Sim (fun s => Stat K s ∧ s.state = v) (pure a : M Pending) (pure a : MC Pending)
        (fun act s' => (Stat K s' ∧ s'.state < 12) ∧ CopyLen act) :=
    fun v hv a ha => Sim.pure a (fun s h => ⟨⟨h.1, by rw [h.2]; exact hv⟩, ha⟩)
  unfold decodeSymbol decodeSymbolC
  refine Sim.bind (R := fun t s => (Stat K s ∧ (s.rep0 = r0 ∧ s.state = st ∧ s.pb = pb))
      ∧ t = (s.state, s.dp.pos &&& s.posMask, s.dp.full)) (Sim.lift _ ?_) (fun t => ?_)
  · intro s hp a s' e
    injection e with e1 e2
    subst e2
    exact ⟨hp, e1.symm⟩
  obtain ⟨state, posState, full⟩ := t
  refine Sim.of_pre (C := state = st ∧ posState < POS_STATES_MAX ∧ full = K.dp.full) ?_ (fun hc => ?_)
  · intro s hp
    obtain ⟨⟨hs, _, h2, h3⟩, ht⟩ := hp
    injection ht with t1 t2
    injection t2 with t2 t3
    refine ⟨t1.trans h2, ?_, t3.trans (by rw [hs.2.2.2.1])⟩
    rw [t2]
    unfold St.posMask
    exact posState_lt _ _ (by rw [h3]; exact hpb)
  obtain ⟨hc1, hc2, hc3⟩ := hc
  subst hc1; subst hc3
  refine Sim.weaken (P := fun s => Stat K s ∧ (s.rep0 = r0 ∧ s.state = state ∧ s.pb = pb)) ?_ (fun s h => h.1) (fun _ _ h => h)
  simp only []
  have hst' : state < STATES := hst
  refine Sim.bind (sim_rcBit hG0 M_IS_MATCH _ (by have := (isMatch_idx state posState hst' hc2).1; simp only [P_IS_REP, P_LITERAL] at *; omega)
    (by have := (isMatch_idx state posState hst' hc2).1; simp only [P_IS_REP, P_IS_MATCH, STATES, POS_STATES_MAX] at *; omega))
    (fun isMatch => ?_)
  refine Sim.weaken (P := fun s => Stat K s ∧ (s.rep0 = r0 ∧ s.state = state ∧ s.pb = pb)) ?_ (fun s h => h.1) (fun _ _ h => h)
  refine Sim.ite (fun _ => ?_) (fun _ => ?_)
  · -- literal
    refine Sim.bind (sim_litBase hn hlc hP hF) (fun base => ?_)
    refine Sim.of_pre (C := base + LITERAL_CODER_SIZE ≤ K.n ∧ P_LITERAL ≤ base) (fun s h => h.2) (fun hbase2 => ?_)
    have hbase := hbase2.1
    have hmemL : P_LITERAL ≤ base ∧ base + LITERAL_CODER_SIZE ≤ P_LITERAL + LITERAL_CODER_SIZE <<< LZMA_LCLP_MAX :=
      ⟨hbase2.2, by have := probsSize_le_member K.lc K.lp hlc; rw [← hn] at this; omega⟩
    refine Sim.weaken (P := fun s => Stat K s ∧ (s.rep0 = r0 ∧ s.state = state ∧ s.pb = pb)) ?_ (fun s h => h.1) (fun _ _ h => h)
    refine Sim.ite (fun hlit => ?_) (fun hlit => ?_)
    · refine Sim.bind (R := fun _ s => Stat K s ∧ s.state = updateLiteralNormal state) (Sim.modify _ ?_) (fun _ => ?_)
      · intro s h; exact ⟨h.1, rfl⟩
      · refine Sim.bind (sim_bittree (stable_state _) M_LITERAL base 0x100 (by simp only [LITERAL_CODER_SIZE] at hbase; omega)
            (by have h1 := hmemL.1; have h2 := hmemL.2; simp only [LITERAL_CODER_SIZE] at h2 ⊢; exact ⟨h1, by omega⟩) 8 1 (by decide))
          (fun sym => Sim.weaken (fin _ hup.1 _ trivial) (fun s h => h.1) (fun _ _ h => h))
    · have h7 : 7 ≤ state := by
        have : ¬ state < 7 := by simpa [isLiteralState, LIT_STATES] using hlit
        omega
      refine Sim.bind (R := fun _ s => (Stat K s ∧ s.state = updateLiteralMatched state) ∧ s.rep0 = r0) (Sim.modify _ ?_) (fun _ => ?_)
      · intro s h; exact ⟨⟨h.1, rfl⟩, h.2.1⟩
      · refine Sim.bind (sim_matchByte r0 hP hF (hr h7)) (fun mb => ?_)
        exact Sim.bind (sim_litMatched (stable_state _) base hbase hmemL 8 1 0x100 (mb * 2) (by decide) (Or.inr rfl))
          (fun sym => fin _ hup.2.1 _ trivial)
  · -- match or rep
    have hir := isRep_idx state hst'
    refine Sim.bind (sim_rcBit hG0 M_IS_REP _ (by have := hir.1; simp only [P_IS_REP0, P_LITERAL] at *; omega)
      (by have := hir.1; simp only [P_IS_REP0, P_IS_REP, STATES] at *; omega)) (fun isRep => ?_)
    refine Sim.weaken (P := fun s => Stat K s ∧ (s.rep0 = r0 ∧ s.state = state ∧ s.pb = pb)) ?_ (fun s h => h.1) (fun _ _ h => h)
    refine Sim.ite (fun _ => ?_) (fun _ => ?_)
    · -- simple match
      refine Sim.bind (R := fun _ s => Stat K s ∧ s.state = updateMatch state) (Sim.modify _ ?_) (fun _ => ?_)
      · intro s h; exact ⟨h.1, rfl⟩
      · refine Sim.bind (sim_lenDecode (stable_state _) hnL _ _ (Or.inl rfl) hc2) (fun len => ?_)
        refine Sim.of_pre (C := len ≤ LzDict.MATCH_LEN_MAX) (fun s h => h.2) (fun hlen => ?_)
        refine Sim.weaken (P := fun s => Stat K s ∧ s.state = updateMatch state) ?_ (fun s h => h.1) (fun _ _ h => h)
        refine Sim.bind (sim_distDecode (stable_state _) hnL len) (fun d => ?_)
        refine Sim.bind (R := fun _ s => Stat K s ∧ s.state = updateMatch state) (Sim.modify _ ?_) (fun _ => ?_)
        · intro s h; exact ⟨h.1, h.2⟩
        · refine Sim.ite (fun _ => ?_) (fun _ => ?_)
          · -- end marker: never returns normally
            have hrest : ∀ P : St → Prop, Sim P (do
                  rcNormalize
                  let fin ← (fun s : St => EStateM.Result.ok (s.code == 0) s)
                  if fin then throw .streamEnd else throw .dataError : M Pending)
                (do
                  liftM rcNormalize
                  let fin ← liftM (fun s : St => EStateM.Result.ok (s.code == 0) s)
                  if fin then throw (.exit .streamEnd) else throw (.exit .dataError) : MC Pending)
                (fun act s' => (Stat K s' ∧ s'.state < 12) ∧ CopyLen act) := by
              intro P
              refine Sim.bind (R := fun _ _ => True) (Sim.lift _ (fun _ _ _ _ _ => trivial)) (fun _ => ?_)
              refine Sim.bind (R := fun _ _ => True) (Sim.lift _ (fun _ _ _ _ _ => trivial)) (fun fin => ?_)
              exact Sim.ite (fun _ => Sim.throw _) (fun _ => Sim.throw _)
            refine Sim.ite (fun _ => ?_) (fun _ => ?_)
            · exact Sim.throw_bind _ _ _
            · exact hrest _
          · refine Sim.ite (fun _ => Sim.throw _) (fun _ => fin _ hup.2.2.1 _ hlen)
    · -- repeated match
      refine Sim.ite (fun _ => Sim.throw _) (fun _ => ?_)
      refine Sim.bind (sim_rcBit hG0 M_IS_REP0 _ (by have := hir.2.1; simp only [P_IS_REP1, P_LITERAL] at *; omega)
        (by have := hir.2.1; simp only [P_IS_REP1, P_IS_REP0, STATES] at *; omega)) (fun isRep0 => ?_)
      refine Sim.weaken (P := fun s => Stat K s ∧ s.state = state) ?_ (fun s h => ⟨h.1.1, h.1.2.2.1⟩) (fun _ _ h => h)
      have hGs := stable_state state
      refine Sim.bind (R := fun _ s => Stat K s ∧ s.state = state) ?_ (fun isShort => ?_)
      · refine Sim.ite (fun _ => ?_) (fun _ => ?_)
        · refine Sim.bind (sim_rcBit hGs M_IS_REP0_LONG _ ?_ ?_) (fun isLong => Sim.pure _ (fun _ h => h.1))
          · have := (isMatch_idx state posState hst' hc2).2.2
            simp only [P_DIST_SLOT, P_LITERAL] at *; omega
          · have := (isMatch_idx state posState hst' hc2).2.2
            simp only [P_DIST_SLOT, P_IS_REP0_LONG, STATES, POS_STATES_MAX] at *; omega
        · refine Sim.bind (sim_rcBit hGs M_IS_REP1 _ (by have := hir.2.2.1; simp only [P_IS_REP2, P_LITERAL] at *; omega)
            (by have := hir.2.2.1; simp only [P_IS_REP2, P_IS_REP1, STATES] at *; omega)) (fun isRep1 => ?_)
          refine Sim.weaken (P := fun s => Stat K s ∧ s.state = state) ?_ (fun s h => h.1) (fun _ _ h => h)
          have hm : ∀ f : St → St, (∀ s, Stat K s ∧ s.state = state → Stat K (f s) ∧ (f s).state = state) →
              Sim (fun s => Stat K s ∧ s.state = state) (do modify f; pure false : M Bool) (do modify f; pure false : MC Bool)
                (fun _ s => Stat K s ∧ s.state = state) :=
            fun f hf => Sim.bind (R := fun _ s => Stat K s ∧ s.state = state) (Sim.modify f hf) (fun _ => Sim.pure _ (fun _ h => h))
          refine Sim.ite (fun _ => ?_) (fun _ => ?_)
          · exact hm _ (fun s h => ⟨h.1, h.2⟩)
          · refine Sim.bind (sim_rcBit hGs M_IS_REP2 _ (by have := hir.2.2.2; simp only [P_IS_REP0_LONG, P_LITERAL] at *; omega)
                (by have := hir.2.2.2; simp only [P_IS_REP0_LONG, P_IS_REP2, STATES] at *; omega))
              (fun isRep2 => ?_)
            refine Sim.weaken (P := fun s => Stat K s ∧ s.state = state) ?_ (fun s h => h.1) (fun _ _ h => h)
            refine Sim.ite (fun _ => ?_) (fun _ => ?_)
            · exact hm _ (fun s h => ⟨h.1, h.2⟩)
            · exact hm _ (fun s h => ⟨h.1, h.2⟩)
      · refine Sim.ite (fun _ => ?_) (fun _ => ?_)
        · refine Sim.bind (R := fun _ s => Stat K s ∧ s.state = updateShortRep state) (Sim.modify _ ?_)
            (fun _ => fin _ hup.2.2.2.2 _ trivial)
          intro s h; exact ⟨h.1, rfl⟩
        · refine Sim.bind (R := fun _ s => Stat K s ∧ s.state = updateLongRep state) (Sim.modify _ ?_) (fun _ => ?_)
          · intro s h; exact ⟨h.1, rfl⟩
          · refine Sim.bind (sim_lenDecode (stable_state _) hnL _ _ (Or.inr rfl) hc2) (fun len => ?_)
            refine Sim.of_pre (C := len ≤ LzDict.MATCH_LEN_MAX) (fun s h => h.2) (fun hlen => ?_)
            exact Sim.weaken (fin _ hup.2.2.2.1 _ hlen) (fun s h => h.1) (fun _ _ h => h)

/-! ### the output step -/

/-- the checked output step equals the executable one when the distance it uses is valid -/
theorem doWriteC_eq (p : Pending) (s : St) (hP : PosInv s.dp) (hF : s.dp.full ≤ s.hist.size)
    (hr : usesRep0 p → s.rep0 < s.dp.full) (hl : CopyLen p) :
    doWriteC p s = liftR (doWrite p s) := by
  unfold doWriteC doWrite
  cases p with
  | none => rfl
  | stuck => rfl
  | litWrite sym =>
    simp only []
    split
    · rfl
    · next hne =>
      rw [putC_eq s _ hP (by simpa using hne)]
      rfl
  | shortRep =>
    simp only []
    rw [dictGetC_eq s s.rep0 hP (hr trivial) (by have := hr trivial; omega)]
    simp only []
    split
    · rfl
    · next hne =>
      rw [putC_eq s _ hP (by simpa using hne)]
      rfl
  | copy len =>
    simp only []
    rw [repeatNC_eq s len hP (hr trivial) hF hl]
    simp only []
    split <;> rfl

end XzVerif.Lzma
