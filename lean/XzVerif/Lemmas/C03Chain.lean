/-
  C03 `filters_1_to_4`: the filter-chain rule of the .xz format (xz-file-format.txt 3.1.2 "List of Filter Flags" and
  5.3: 1–4 filters; the last one must be usable as a last filter, all others as non-last filters; at most three
  filters that change the size of the data) as a declarative predicate `ChainValid` over the `features` table of
  Model/Container.lean (= `features[]` of filter_common.c), and the theorem that `validateChain`
  (= `lzma_validate_chain`) accepts exactly the chains that satisfy it.

  Core Lean only.
-/
import XzVerif.Model.Container

namespace XzVerif.Container

/-! ### the table columns as functions of the Filter ID (`false` for IDs that are not in the table) -/

/-- the Filter ID is in `features[]` -/
def idKnown (id : Nat) : Bool := (findFeature id).isSome
/-- `features[].non_last_ok` -/
def idNonLastOk (id : Nat) : Bool := match findFeature id with | some f => f.nonLastOk | none => false
/-- `features[].last_ok` -/
def idLastOk (id : Nat) : Bool := match findFeature id with | some f => f.lastOk | none => false
/-- `features[].changes_size` -/
def idChangesSize (id : Nat) : Bool := match findFeature id with | some f => f.changesSize | none => false

/-- **The filter-chain rule.** -/
def ChainValid (ids : List Nat) : Prop :=
  1 ≤ ids.length ∧ ids.length ≤ FILTERS_MAX
  -- every filter is a supported one
  ∧ (∀ id ∈ ids, idKnown id = true)
  -- every filter except the last may be used as a non-last filter
  ∧ (∀ id ∈ ids.dropLast, idNonLastOk id = true)
  -- the last filter may be used as the last filter
  ∧ (∀ id ∈ ids.getLast?, idLastOk id = true)
  -- at most three filters change the size of the data
  ∧ (ids.filter idChangesSize).length ≤ 3

instance (ids : List Nat) : Decidable (ChainValid ids) := by unfold ChainValid; infer_instance

/-! ### the loop -/

theorem getLast?_map_getD_cons {α β : Type} (g : α → β) (a : α) (l : List α) (d : β) :
    (((a :: l).getLast?).map g).getD d = ((l.getLast?).map g).getD (g a) := by
  cases l with
  | nil => simp
  | cons b t =>
    rw [List.getLast?_cons_cons]
    cases h : (b :: t).getLast? with
    | none => simp at h
    | some x => simp

theorem forall_mem_dropLast_cons {α : Type} (p : α → Prop) (a : α) (l : List α) :
    (∀ x ∈ (a :: l).dropLast, p x) ↔ ((l ≠ [] → p a) ∧ ∀ x ∈ l.dropLast, p x) := by
  cases l with
  | nil => simp
  | cons b t => simp [List.dropLast_cons_cons]

/-- Invariant of the `do … while` loop of `lzma_validate_chain`, started anywhere: with `nl`/`lo` the
    `non_last_ok`/`last_ok` of the previous filter, `chg` size-changing filters and `i` filters seen so far, the loop
    over the remaining `ids` succeeds iff all of them are known, the previous filter (if one follows it) and all
    remaining filters but the last are `non_last_ok`; it then returns the last filter's `last_ok` and the counts. -/
theorem validateChainLoop_ok_iff : ∀ (ids : List Nat) (nl lo : Bool) (chg i : Nat) (r : Bool × Nat × Nat),
    validateChainLoop ids nl lo chg i = .ok r ↔
      ((∀ id ∈ ids, idKnown id = true) ∧ (ids ≠ [] → nl = true) ∧ (∀ id ∈ ids.dropLast, idNonLastOk id = true)
        ∧ r = ((ids.getLast?.map idLastOk).getD lo, chg + (ids.filter idChangesSize).length, i + ids.length))
  | [], nl, lo, chg, i, r => by
    simp only [validateChainLoop, Except.ok.injEq]
    constructor
    · intro h; subst h; simp
    · intro h; simpa using h.2.2.2.symm
  | id :: rest, nl, lo, chg, i, r => by
    unfold validateChainLoop
    cases hf : findFeature id with
    | none =>
      simp only
      constructor
      · intro h; cases h
      · intro h
        have := h.1 id (List.mem_cons_self)
        simp [idKnown, hf] at this
    | some f =>
      simp only
      have hk : idKnown id = true := by simp [idKnown, hf]
      have hnl : idNonLastOk id = f.nonLastOk := by simp [idNonLastOk, hf]
      have hlo : idLastOk id = f.lastOk := by simp [idLastOk, hf]
      have hcs : idChangesSize id = f.changesSize := by simp [idChangesSize, hf]
      cases nl with
      | false =>
        simp only [Bool.not_false, ↓reduceIte]
        constructor
        · intro h; cases h
        · intro h; have := h.2.1 (by simp); cases this
      | true =>
        simp only [Bool.not_true, Bool.false_eq_true, ↓reduceIte]
        rw [validateChainLoop_ok_iff rest f.nonLastOk f.lastOk _ (i + 1) r, ← hnl, ← hlo, ← hcs]
        have htup : ((rest.getLast?.map idLastOk).getD (idLastOk id),
              chg + (if idChangesSize id = true then 1 else 0) + (rest.filter idChangesSize).length, i + 1 + rest.length)
            = (((id :: rest).getLast?.map idLastOk).getD lo, chg + ((id :: rest).filter idChangesSize).length,
                i + (id :: rest).length) := by
          rw [getLast?_map_getD_cons]
          refine Prod.ext rfl (Prod.ext ?_ ?_)
          · simp only [List.filter_cons]; split <;> (try simp only [List.length_cons]) <;> omega
          · simp only [List.length_cons]; omega
        rw [← htup, forall_mem_dropLast_cons, List.forall_mem_cons]
        constructor
        · rintro ⟨a, b, c, d⟩; exact ⟨⟨hk, a⟩, by simp, ⟨b, c⟩, d⟩
        · rintro ⟨⟨_, a⟩, _, ⟨b, c⟩, d⟩; exact ⟨a, b, c, d⟩

/-- the loop rejects only with LZMA_OPTIONS_ERROR -/
theorem validateChainLoop_error : ∀ (ids : List Nat) (nl lo : Bool) (chg i : Nat) (e : Ret),
    validateChainLoop ids nl lo chg i = .error e → e = .optionsError
  | [], _, _, _, _, _, h => by simp [validateChainLoop] at h
  | id :: rest, nl, lo, chg, i, e, h => by
    unfold validateChainLoop at h
    split at h
    · cases h; rfl
    · split at h
      · cases h; rfl
      · exact validateChainLoop_error rest _ _ _ _ e h

/-! ### `lzma_validate_chain` -/

/-- `validateChain` returns the number of filters. -/
theorem validateChain_count (ids : List Nat) (n : Nat) (h : validateChain ids = .ok n) : n = ids.length := by
  unfold validateChain at h
  split at h
  · cases h
  · split at h
    · cases h
    · rename_i lo chg i hl
      split at h
      · cases h
      · cases h
        have := ((validateChainLoop_ok_iff ids true false 0 0 _).mp hl).2.2.2
        simp only [Prod.mk.injEq] at this
        omega

/-- **`lzma_validate_chain` accepts exactly the valid chains.** -/
theorem validateChain_iff (ids : List Nat) : (∃ n, validateChain ids = .ok n) ↔ ChainValid ids := by
  unfold validateChain ChainValid
  cases ids with
  | nil => simp
  | cons a t =>
    simp only [List.isEmpty_cons, Bool.false_eq_true, ↓reduceIte]
    cases hl : validateChainLoop (a :: t) true false 0 0 with
    | error e =>
      simp only [reduceCtorEq, exists_false, false_iff]
      intro h
      have := (validateChainLoop_ok_iff (a :: t) true false 0 0
        (((a :: t).getLast?.map idLastOk).getD false, 0 + ((a :: t).filter idChangesSize).length, 0 + (a :: t).length)).mpr
        ⟨h.2.2.1, fun _ => rfl, h.2.2.2.1, rfl⟩
      rw [hl] at this; cases this
    | ok r =>
      obtain ⟨lo, chg, i⟩ := r
      obtain ⟨h1, _, h3, h4⟩ := (validateChainLoop_ok_iff (a :: t) true false 0 0 _).mp hl
      simp only [Prod.mk.injEq] at h4
      obtain ⟨e1, e2, e3⟩ := h4
      have hlast : (∀ id ∈ (a :: t).getLast?, idLastOk id = true) ↔ lo = true := by
        rw [e1]
        cases hg : (a :: t).getLast? with
        | none => simp at hg
        | some x => simp
      simp only
      rw [hlast]
      constructor
      · rintro ⟨n, hn⟩
        split at hn
        · cases hn
        · rename_i hc
          obtain ⟨c1, c23⟩ := not_or.mp hc
          obtain ⟨c2, c3⟩ := not_or.mp c23
          refine ⟨by simp, ?_, h1, h3, ?_, ?_⟩
          · omega
          · cases lo with
            | false => exact absurd rfl c2
            | true => rfl
          · omega
      · rintro ⟨_, g2, _, _, g5, g6⟩
        refine ⟨i, ?_⟩
        rw [if_neg]
        subst g5
        simp only [Bool.not_true, Bool.false_eq_true, false_or, not_or]
        omega

/-- The empty chain is API misuse (`filters[0].id == LZMA_VLI_UNKNOWN`): LZMA_PROG_ERROR. -/
theorem validateChain_empty : validateChain [] = .error .progError := rfl

/-- Every other rejection is LZMA_OPTIONS_ERROR. -/
theorem validateChain_error (ids : List Nat) (e : Ret) (h : validateChain ids = .error e) (hne : ids ≠ []) :
    e = .optionsError := by
  unfold validateChain at h
  split at h
  · rename_i he; exact absurd (List.isEmpty_iff.mp he) hne
  · split at h
    · rename_i e' hl
      cases h
      exact validateChainLoop_error ids _ _ _ _ _ hl
    · split at h
      · cases h; rfl
      · cases h

/-- a rejected chain: LZMA_PROG_ERROR iff it is empty, otherwise LZMA_OPTIONS_ERROR -/
theorem validateChain_total (ids : List Nat) :
    (∃ n, validateChain ids = .ok n ∧ n = ids.length ∧ ChainValid ids)
    ∨ (validateChain ids = .error .progError ∧ ids = [])
    ∨ (validateChain ids = .error .optionsError ∧ ids ≠ [] ∧ ¬ ChainValid ids) := by
  cases h : validateChain ids with
  | ok n => exact Or.inl ⟨n, rfl, validateChain_count ids n h, (validateChain_iff ids).mp ⟨n, h⟩⟩
  | error e =>
    right
    by_cases hne : ids = []
    · subst hne; left; exact ⟨by rw [validateChain_empty] at h; cases h; rfl, rfl⟩
    · right
      refine ⟨by rw [validateChain_error ids e h hne], hne, fun hv => ?_⟩
      obtain ⟨n, hn⟩ := (validateChain_iff ids).mpr hv
      rw [h] at hn; cases hn

/-! ### examples (non-vacuity: both sides of the rule are inhabited) -/

example : ChainValid [FILTER_LZMA2] := by decide
example : ChainValid [FILTER_X86, FILTER_DELTA, FILTER_ARM, FILTER_LZMA2] := by decide
example : validateChain [FILTER_X86, FILTER_DELTA, FILTER_ARM, FILTER_LZMA2] = .ok 4 := by decide
/-- five filters -/
example : ¬ ChainValid [FILTER_X86, FILTER_DELTA, FILTER_ARM, FILTER_DELTA, FILTER_LZMA2] := by decide
/-- LZMA2 is not a non-last filter -/
example : ¬ ChainValid [FILTER_LZMA2, FILTER_LZMA2] := by decide
/-- a BCJ filter is not a last filter -/
example : ¬ ChainValid [FILTER_X86] := by decide
/-- an unknown Filter ID -/
example : ¬ ChainValid [0x7F, FILTER_LZMA2] := by decide
example : ¬ ChainValid [] := by decide
example : validateChain [FILTER_LZMA2, FILTER_LZMA2] = .error .optionsError := by decide

end XzVerif.Container
