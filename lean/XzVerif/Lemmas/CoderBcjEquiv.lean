/-
  The two models of `simple_code()` agree call by call:
  * `XzVerif.Simple.simpleCode` (Model/Simple.lean) — the model C15's correspondence compares with the C function byte for byte,
    with the eight real filters;
  * `XzVerif.Coder.simpleCode` (Model/CoderSmall.lean) — the model the C06 slicing theorem is proved for, instantiated with
    `bcjFilter id enc`.
  Hence the slicing theorem is a theorem about the former.
-/
import XzVerif.Lemmas.CoderBcj

namespace XzVerif.CoderBcj
open XzVerif.Bcj

/-- The dynamic part of C15's `Simple.Coder` as a C06 `Coder.Simple` (`size` is `buffer.length`). -/
def toSimple (c : XzVerif.Simple.Coder) : Coder.Simple FState Unit :=
  { filt := (c.st, c.nowPos), next := (), endReached := c.endWasReached, pos := c.pos, filtered := c.filtered, buffer := c.buffer }

/-- `copy_or_code()`'s end test: without a next coder only the encoder ends at `LZMA_FINISH`; the pass-through next coder of the
    C15 harness always does. -/
def endsAtFinish (c : XzVerif.Simple.Coder) : Bool :=
  match c.next with
  | .null => c.isEncoder
  | .passthrough => true

def actOf : XzVerif.Simple.Action → Coder.Action
  | .run => .run | .syncFlush => .syncFlush | .fullFlush => .fullFlush | .finish => .finish

/-- the C06 coder that C15's coder object `c` denotes -/
def coderOf (c : XzVerif.Simple.Coder) : Coder.Coder (Coder.Simple FState Unit) :=
  Coder.simpleCoder (bcjFilter c.id c.isEncoder) (Coder.Src.null (endsAtFinish c)) c.allocated

/-- the static part of the coder object -/
def SameKind (c d : XzVerif.Simple.Coder) : Prop :=
  d.id = c.id ∧ d.isEncoder = c.isEncoder ∧ d.next = c.next ∧ d.allocated = c.allocated

theorem take_min_length (l : List UInt8) (k : Nat) : (l.take (min l.length k)).length = min l.length k := by
  rw [List.length_take]; omega

theorem drop_eq_nil_of_ge (l : List UInt8) (n : Nat) (h : l.length - n = 0) : l.drop n = [] :=
  List.drop_eq_nil_of_le (by omega)

theorem take_eq_self_of_ge (l : List UInt8) (n : Nat) (h : l.length - n = 0) : l.take n = l :=
  List.take_of_length_le (by omega)

theorem filterCode_len (id : XzVerif.Simple.FilterId) (enc : Bool) (st : X86State) (p : BitVec 32) (b : List UInt8) :
    (XzVerif.Simple.filterCode id enc st p b).1.length = b.length :=
  (bcj_contract id enc 0 (by intro _; decide)).len (st, p) b

theorem filterCode_count (id : XzVerif.Simple.FilterId) (enc : Bool) (st : X86State) (p : BitVec 32) (b : List UInt8) :
    (XzVerif.Simple.filterCode id enc st p b).2.1 ≤ b.length :=
  (bcj_contract id enc 0 (by intro _; decide)).count (st, p) b

/-- C15's `simpleCodeMain`, first part, verbatim, with the destructuring `let`s as projections -/
def stageA15 (c : XzVerif.Simple.Coder) (inp : List UInt8) (outCap : Nat) (action : XzVerif.Simple.Action) (out0 : List UInt8) :
    XzVerif.Simple.Coder × List UInt8 × Nat :=
  let outAvail := outCap - out0.length
  let bufAvail := c.size - c.pos
  if outAvail > bufAvail || bufAvail == 0 then
    let fromBuf := (c.buffer.drop c.pos).take bufAvail
    let cc := XzVerif.Simple.copyOrCode c inp (outAvail - bufAvail) action
    let region := fromBuf ++ cc.1
    let size := region.length
    let f := if size == 0 then (region, 0, cc.2) else XzVerif.Simple.callFilter cc.2 region
    let unfiltered := size - f.2.1
    let c := { f.2.2 with pos := 0, size := unfiltered }
    if c.endWasReached then
      ({ c with size := 0, buffer := [] }, out0 ++ f.1, cc.1.length)
    else if unfiltered > 0 then
      ({ c with buffer := f.1.drop f.2.1 }, out0 ++ f.1.take f.2.1, cc.1.length)
    else
      ({ c with buffer := [] }, out0 ++ f.1, cc.1.length)
  else if c.pos > 0 then
    ({ c with buffer := (c.buffer.drop c.pos).take bufAvail, size := c.size - c.pos, pos := 0 }, out0, 0)
  else (c, out0, 0)

def stageB15 (a : XzVerif.Simple.Coder × List UInt8 × Nat) (inp : List UInt8) (outCap : Nat) (action : XzVerif.Simple.Action) :
    XzVerif.Simple.Coder × List UInt8 × Nat :=
  if a.1.size > 0 then
    let cc := XzVerif.Simple.copyOrCode a.1 (inp.drop a.2.2) (a.1.allocated - a.1.size) action
    let buf := cc.2.buffer ++ cc.1
    let f := XzVerif.Simple.callFilter cc.2 buf
    let filtered := if f.2.2.endWasReached then f.1.length else f.2.1
    let n := min filtered (outCap - a.2.1.length)
    ({ f.2.2 with buffer := f.1, size := f.1.length, filtered := filtered, pos := n }, a.2.1 ++ f.1.take n, a.2.2 + cc.1.length)
  else a

def ret15 (c : XzVerif.Simple.Coder) : Nat :=
  if c.endWasReached && c.pos == c.size then XzVerif.Simple.LZMA_STREAM_END else XzVerif.Simple.LZMA_OK

theorem simpleCodeMain_eq (c : XzVerif.Simple.Coder) (inp : List UInt8) (cap : Nat) (a : XzVerif.Simple.Action) (out0 : List UInt8) :
    XzVerif.Simple.simpleCodeMain c inp cap a out0 =
      ((stageB15 (stageA15 { c with filtered := 0 } inp cap a out0) inp cap a).1,
       ⟨(stageB15 (stageA15 { c with filtered := 0 } inp cap a out0) inp cap a).2.2,
        (stageB15 (stageA15 { c with filtered := 0 } inp cap a out0) inp cap a).2.1,
        ret15 (stageB15 (stageA15 { c with filtered := 0 } inp cap a out0) inp cap a).1⟩) := by
  rfl

/-! ### the pieces, in the vocabulary of the C06 model -/

def endFlag (c : XzVerif.Simple.Coder) (a : XzVerif.Simple.Action) (inp : List UInt8) (k : Nat) : Bool :=
  endsAtFinish c && (actOf a == Coder.Action.finish) && decide (min inp.length k = inp.length)

theorem copyOrCode_eq (c : XzVerif.Simple.Coder) (inp : List UInt8) (k : Nat) (a : XzVerif.Simple.Action) :
    XzVerif.Simple.copyOrCode c inp k a =
      (inp.take (min inp.length k), { c with endWasReached := c.endWasReached || endFlag c a inp k }) := by
  obtain ⟨id, isEnc, next, endR, nowPos, alloc, pos, filtered, size, buffer, st⟩ := c
  by_cases h : min inp.length k = inp.length <;> cases next <;> cases a <;> cases isEnc <;> cases endR <;>
    simp [XzVerif.Simple.copyOrCode, endFlag, endsAtFinish, actOf, h]

/-- what `call_filter()` (guarded by `size != 0` in the first part of `simple_code()`) computes, as the C06 model writes it -/
def f06 (c : XzVerif.Simple.Coder) (region : List UInt8) : List UInt8 × Nat × FState :=
  if region = [] then ([], 0, (c.st, c.nowPos)) else bcjFilter c.id c.isEncoder (c.st, c.nowPos) region

theorem callFilter_eq (c : XzVerif.Simple.Coder) (buf : List UInt8) :
    XzVerif.Simple.callFilter c buf =
      ((bcjFilter c.id c.isEncoder (c.st, c.nowPos) buf).1, (bcjFilter c.id c.isEncoder (c.st, c.nowPos) buf).2.1,
       { c with st := (bcjFilter c.id c.isEncoder (c.st, c.nowPos) buf).2.2.1,
                nowPos := (bcjFilter c.id c.isEncoder (c.st, c.nowPos) buf).2.2.2 }) := rfl

theorem filt15_eq (c : XzVerif.Simple.Coder) (region : List UInt8) :
    (if (region.length == 0) = true then (region, 0, c) else XzVerif.Simple.callFilter c region) =
      ((f06 c region).1, (f06 c region).2.1, { c with st := (f06 c region).2.2.1, nowPos := (f06 c region).2.2.2 }) := by
  by_cases h : region = []
  · subst h; simp [f06]
  · have : ¬ (region.length == 0) = true := by simpa using h
    rw [if_neg this, callFilter_eq]
    simp [f06, h]

theorem f06_len (c : XzVerif.Simple.Coder) (region : List UInt8) : (f06 c region).1.length = region.length := by
  unfold f06; split
  · rename_i h; subst h; rfl
  · exact filterCode_len _ _ _ _ _

theorem f06_count (c : XzVerif.Simple.Coder) (region : List UInt8) : (f06 c region).2.1 ≤ region.length := by
  unfold f06; split
  · exact Nat.zero_le _
  · exact filterCode_count _ _ _ _ _

theorem f06_end (c : XzVerif.Simple.Coder) (e : Bool) (region : List UInt8) :
    f06 { c with endWasReached := e } region = f06 c region := rfl

/-- the `if (out_avail > buf_avail || buf_avail == 0)` body of C15's model once `copy_or_code()` (end flag `e`, `k` bytes) and
    `call_filter()` (result `fr` on `region`) have been evaluated -/
def coreA15 (c : XzVerif.Simple.Coder) (e : Bool) (region : List UInt8) (fr : List UInt8 × Nat × FState) (out0 : List UInt8) (k : Nat) :
    XzVerif.Simple.Coder × List UInt8 × Nat :=
  let c1 : XzVerif.Simple.Coder :=
    { c with endWasReached := c.endWasReached || e, st := fr.2.2.1, nowPos := fr.2.2.2, pos := 0, size := region.length - fr.2.1 }
  if c1.endWasReached then ({ c1 with size := 0, buffer := [] }, out0 ++ fr.1, k)
  else if region.length - fr.2.1 > 0 then ({ c1 with buffer := fr.1.drop fr.2.1 }, out0 ++ fr.1.take fr.2.1, k)
  else ({ c1 with buffer := [] }, out0 ++ fr.1, k)

theorem coreA_equiv (c : XzVerif.Simple.Coder) (hf : c.filtered = 0) (e : Bool) (unf copied : List UInt8) (k : Nat) (out0 : List UInt8) :
    toSimple (coreA15 c e (unf ++ copied) (f06 c (unf ++ copied)) out0 k).1
        = (Coder.simpleStageACore (bcjFilter c.id c.isEncoder) (toSimple c) unf ((), copied, k, e) out0).1
    ∧ (coreA15 c e (unf ++ copied) (f06 c (unf ++ copied)) out0 k).2
        = (Coder.simpleStageACore (bcjFilter c.id c.isEncoder) (toSimple c) unf ((), copied, k, e) out0).2
    ∧ (coreA15 c e (unf ++ copied) (f06 c (unf ++ copied)) out0 k).1.size
        = (coreA15 c e (unf ++ copied) (f06 c (unf ++ copied)) out0 k).1.buffer.length
    ∧ SameKind c (coreA15 c e (unf ++ copied) (f06 c (unf ++ copied)) out0 k).1 := by
  have hfl := f06_len c (unf ++ copied)
  have hfc := f06_count c (unf ++ copied)
  have hR : Coder.simpleStageACore (bcjFilter c.id c.isEncoder) (toSimple c) unf ((), copied, k, e) out0
      = (if c.endWasReached || e then
          ({ filt := (f06 c (unf ++ copied)).2.2, next := (), endReached := true, pos := 0, filtered := 0, buffer := [] },
            out0 ++ (f06 c (unf ++ copied)).1, k)
        else
          ({ filt := (f06 c (unf ++ copied)).2.2, next := (), endReached := false, pos := 0, filtered := 0,
             buffer := (f06 c (unf ++ copied)).1.drop (f06 c (unf ++ copied)).2.1 },
            out0 ++ (f06 c (unf ++ copied)).1.take (f06 c (unf ++ copied)).2.1, k)) := rfl
  rw [hR]
  generalize f06 c (unf ++ copied) = fr at hfl hfc ⊢
  generalize unf ++ copied = region at hfl hfc ⊢
  unfold coreA15
  cases he : (c.endWasReached || e)
  · simp only [Bool.false_eq_true, if_false]
    by_cases hu : region.length - fr.2.1 > 0
    · simp only [if_pos hu, toSimple, hf, SameKind, List.length_drop, hfl, and_self]
    · simp only [if_neg hu, toSimple, hf, SameKind, and_self, List.length_nil]
      have h0 : fr.1.length - fr.2.1 = 0 := by omega
      rw [drop_eq_nil_of_ge _ _ h0, take_eq_self_of_ge _ _ h0]
      simp; omega
  · simp only [if_true, toSimple, hf, SameKind, and_self, List.length_nil]

theorem stageA_equiv (c : XzVerif.Simple.Coder) (hsz : c.size = c.buffer.length) (hf : c.filtered = 0) (inp : List UInt8) (cap : Nat)
    (a : XzVerif.Simple.Action) (out0 : List UInt8) :
    toSimple (stageA15 c inp cap a out0).1
        = (Coder.simpleStageA (bcjFilter c.id c.isEncoder) (Coder.Src.null (endsAtFinish c)) (toSimple c) inp cap
            (actOf a == .finish) out0).1
    ∧ (stageA15 c inp cap a out0).2
        = (Coder.simpleStageA (bcjFilter c.id c.isEncoder) (Coder.Src.null (endsAtFinish c)) (toSimple c) inp cap
            (actOf a == .finish) out0).2
    ∧ (stageA15 c inp cap a out0).1.size = (stageA15 c inp cap a out0).1.buffer.length
    ∧ SameKind c (stageA15 c inp cap a out0).1 := by
  have hba : c.size - c.pos = (c.buffer.drop c.pos).length := by rw [List.length_drop, hsz]
  by_cases hA : cap - out0.length > (c.buffer.drop c.pos).length ∨ (c.buffer.drop c.pos).length = 0
  · have hA' : (decide (cap - out0.length > (c.buffer.drop c.pos).length) || (c.buffer.drop c.pos).length == 0) = true := by
      simpa using hA
    have hL : stageA15 c inp cap a out0 =
        coreA15 c (endFlag c a inp (cap - out0.length - (c.buffer.drop c.pos).length))
          (c.buffer.drop c.pos ++ inp.take (min inp.length (cap - out0.length - (c.buffer.drop c.pos).length)))
          (f06 c (c.buffer.drop c.pos ++ inp.take (min inp.length (cap - out0.length - (c.buffer.drop c.pos).length)))) out0
          (min inp.length (cap - out0.length - (c.buffer.drop c.pos).length)) := by
      unfold stageA15
      simp only [hba, if_pos hA', copyOrCode_eq, filt15_eq, f06_end, List.take_length, take_min_length]
      rfl
    have hR : Coder.simpleStageA (bcjFilter c.id c.isEncoder) (Coder.Src.null (endsAtFinish c)) (toSimple c) inp cap
          (actOf a == .finish) out0
        = Coder.simpleStageACore (bcjFilter c.id c.isEncoder) (toSimple c) (c.buffer.drop c.pos)
            ((), inp.take (min inp.length (cap - out0.length - (c.buffer.drop c.pos).length)),
              min inp.length (cap - out0.length - (c.buffer.drop c.pos).length),
              endFlag c a inp (cap - out0.length - (c.buffer.drop c.pos).length)) out0 := by
      unfold Coder.simpleStageA
      have : (toSimple c).buffer.drop (toSimple c).pos = c.buffer.drop c.pos := rfl
      simp only [this, if_pos hA]
      rfl
    rw [hL, hR]
    exact coreA_equiv c hf _ _ _ _ _
  · have hA' : ¬ (decide (cap - out0.length > (c.buffer.drop c.pos).length) || (c.buffer.drop c.pos).length == 0) = true := by
      simpa using hA
    have hR : Coder.simpleStageA (bcjFilter c.id c.isEncoder) (Coder.Src.null (endsAtFinish c)) (toSimple c) inp cap
          (actOf a == .finish) out0
        = ({ toSimple c with pos := 0, filtered := 0, buffer := c.buffer.drop c.pos }, out0, 0) := by
      unfold Coder.simpleStageA
      have : (toSimple c).buffer.drop (toSimple c).pos = c.buffer.drop c.pos := rfl
      simp only [this, if_neg hA]
    rw [hR]
    unfold stageA15
    simp only [hba, if_neg hA', List.take_length]
    by_cases hp : c.pos > 0
    · rw [if_pos hp]
      simp only [toSimple, hf, SameKind, and_self, List.length_drop]
    · rw [if_neg hp]
      have hp0 : c.pos = 0 := by omega
      simp only [toSimple, hf, SameKind, and_self, hsz, hp0, List.drop_zero]


/-- the `if (coder->size > 0)` body of C15's model once `copy_or_code()` and `call_filter()` have been evaluated -/
def coreB15 (a : XzVerif.Simple.Coder × List UInt8 × Nat) (e : Bool) (k : Nat) (fr : List UInt8 × Nat × FState) (outCap : Nat) :
    XzVerif.Simple.Coder × List UInt8 × Nat :=
  let c1 : XzVerif.Simple.Coder := { a.1 with endWasReached := a.1.endWasReached || e, st := fr.2.2.1, nowPos := fr.2.2.2 }
  let filtered := if c1.endWasReached then fr.1.length else fr.2.1
  let n := min filtered (outCap - a.2.1.length)
  ({ c1 with buffer := fr.1, size := fr.1.length, filtered := filtered, pos := n }, a.2.1 ++ fr.1.take n, a.2.2 + k)

theorem coreB_equiv (a : XzVerif.Simple.Coder × List UInt8 × Nat) (e : Bool) (copied : List UInt8) (k : Nat) (cap : Nat) :
    toSimple (coreB15 a e k (bcjFilter a.1.id a.1.isEncoder (a.1.st, a.1.nowPos) (a.1.buffer ++ copied)) cap).1
        = (Coder.simpleStageBCore (bcjFilter a.1.id a.1.isEncoder) (toSimple a.1, a.2) ((), copied, k, e) cap).1
    ∧ (coreB15 a e k (bcjFilter a.1.id a.1.isEncoder (a.1.st, a.1.nowPos) (a.1.buffer ++ copied)) cap).2
        = (Coder.simpleStageBCore (bcjFilter a.1.id a.1.isEncoder) (toSimple a.1, a.2) ((), copied, k, e) cap).2
    ∧ (coreB15 a e k (bcjFilter a.1.id a.1.isEncoder (a.1.st, a.1.nowPos) (a.1.buffer ++ copied)) cap).1.size
        = (coreB15 a e k (bcjFilter a.1.id a.1.isEncoder (a.1.st, a.1.nowPos) (a.1.buffer ++ copied)) cap).1.buffer.length
    ∧ SameKind a.1 (coreB15 a e k (bcjFilter a.1.id a.1.isEncoder (a.1.st, a.1.nowPos) (a.1.buffer ++ copied)) cap).1 := by
  have hR : Coder.simpleStageBCore (bcjFilter a.1.id a.1.isEncoder) (toSimple a.1, a.2) ((), copied, k, e) cap
      = (let fr := bcjFilter a.1.id a.1.isEncoder (a.1.st, a.1.nowPos) (a.1.buffer ++ copied)
         let filtered := if (a.1.endWasReached || e) then fr.1.length else fr.2.1
         ({ filt := fr.2.2, next := (), endReached := a.1.endWasReached || e, pos := min filtered (cap - a.2.1.length),
            filtered := filtered, buffer := fr.1 }, a.2.1 ++ fr.1.take (min filtered (cap - a.2.1.length)), a.2.2 + k)) := rfl
  rw [hR]
  generalize bcjFilter a.1.id a.1.isEncoder (a.1.st, a.1.nowPos) (a.1.buffer ++ copied) = fr
  simp only [coreB15, toSimple, SameKind, and_self]

theorem stageB_equiv (a : XzVerif.Simple.Coder × List UInt8 × Nat) (hsz : a.1.size = a.1.buffer.length) (inp : List UInt8) (cap : Nat)
    (act : XzVerif.Simple.Action) :
    toSimple (stageB15 a inp cap act).1
        = (Coder.simpleStageB (bcjFilter a.1.id a.1.isEncoder) (Coder.Src.null (endsAtFinish a.1)) a.1.allocated (toSimple a.1, a.2)
            inp cap (actOf act == .finish)).1
    ∧ (stageB15 a inp cap act).2
        = (Coder.simpleStageB (bcjFilter a.1.id a.1.isEncoder) (Coder.Src.null (endsAtFinish a.1)) a.1.allocated (toSimple a.1, a.2)
            inp cap (actOf act == .finish)).2
    ∧ (stageB15 a inp cap act).1.size = (stageB15 a inp cap act).1.buffer.length
    ∧ SameKind a.1 (stageB15 a inp cap act).1 := by
  by_cases hB : a.1.size > 0
  · have hne : (toSimple a.1).buffer ≠ [] := by
      intro h
      have : a.1.buffer = [] := h
      rw [this] at hsz; simp at hsz; omega
    have hL : stageB15 a inp cap act =
        coreB15 a (endFlag a.1 act (inp.drop a.2.2) (a.1.allocated - a.1.buffer.length))
          (min (inp.drop a.2.2).length (a.1.allocated - a.1.buffer.length))
          (bcjFilter a.1.id a.1.isEncoder (a.1.st, a.1.nowPos)
            (a.1.buffer ++ (inp.drop a.2.2).take (min (inp.drop a.2.2).length (a.1.allocated - a.1.buffer.length)))) cap := by
      unfold stageB15
      rw [if_pos hB]
      simp only [copyOrCode_eq, callFilter_eq, take_min_length, hsz]
      rfl
    have hR : Coder.simpleStageB (bcjFilter a.1.id a.1.isEncoder) (Coder.Src.null (endsAtFinish a.1)) a.1.allocated (toSimple a.1, a.2)
          inp cap (actOf act == .finish)
        = Coder.simpleStageBCore (bcjFilter a.1.id a.1.isEncoder) (toSimple a.1, a.2)
            ((), (inp.drop a.2.2).take (min (inp.drop a.2.2).length (a.1.allocated - a.1.buffer.length)),
              min (inp.drop a.2.2).length (a.1.allocated - a.1.buffer.length),
              endFlag a.1 act (inp.drop a.2.2) (a.1.allocated - a.1.buffer.length)) cap := by
      unfold Coder.simpleStageB
      simp only [if_pos hne]
      rfl
    rw [hL, hR]
    exact coreB_equiv a _ _ _ cap
  · have he : (toSimple a.1).buffer = [] := by
      have : a.1.buffer.length = 0 := by omega
      exact List.eq_nil_of_length_eq_zero this
    unfold stageB15 Coder.simpleStageB
    rw [if_neg hB]
    simp only [he, ne_eq, not_true_eq_false, if_false, hsz, SameKind, and_self]


theorem sameKind_F {c d : XzVerif.Simple.Coder} (h : SameKind c d) :
    bcjFilter d.id d.isEncoder = bcjFilter c.id c.isEncoder ∧ endsAtFinish d = endsAtFinish c ∧ d.allocated = c.allocated := by
  obtain ⟨h1, h2, h3, h4⟩ := h
  refine ⟨by rw [h1, h2], ?_, h4⟩
  unfold endsAtFinish; rw [h2, h3]

theorem SameKind.trans {c d e : XzVerif.Simple.Coder} (h1 : SameKind c d) (h2 : SameKind d e) : SameKind c e :=
  ⟨h2.1.trans h1.1, h2.2.1.trans h1.2.1, h2.2.2.1.trans h1.2.2.1, h2.2.2.2.trans h1.2.2.2⟩

theorem ret15_eq (c : XzVerif.Simple.Coder) (hsz : c.size = c.buffer.length) : ret15 c = (Coder.simpleRet (toSimple c)).toNat := by
  unfold ret15 Coder.simpleRet
  simp only [toSimple, hsz]
  by_cases hp : c.pos = c.buffer.length
  · have : (c.pos == c.buffer.length) = true := by simpa using hp
    rcases Bool.eq_false_or_eq_true c.endWasReached with he | he <;>
      simp [he, hp, XzVerif.Simple.LZMA_STREAM_END, XzVerif.Simple.LZMA_OK, Ret.toNat]
  · have : (c.pos == c.buffer.length) = false := by simpa using hp
    rcases Bool.eq_false_or_eq_true c.endWasReached with he | he <;>
      simp [he, hp, this, XzVerif.Simple.LZMA_OK, Ret.toNat]

/-- `simpleCodeMain` of C15's model = `simpleMain` of the C06 model. -/
theorem main_equiv (c : XzVerif.Simple.Coder) (hsz : c.size = c.buffer.length) (inp : List UInt8) (cap : Nat)
    (a : XzVerif.Simple.Action) (out0 : List UInt8) :
    toSimple (XzVerif.Simple.simpleCodeMain c inp cap a out0).1
        = (Coder.simpleMain (bcjFilter c.id c.isEncoder) (Coder.Src.null (endsAtFinish c)) c.allocated (toSimple c) inp cap
            (actOf a == .finish) out0).1
    ∧ (XzVerif.Simple.simpleCodeMain c inp cap a out0).2.out
        = (Coder.simpleMain (bcjFilter c.id c.isEncoder) (Coder.Src.null (endsAtFinish c)) c.allocated (toSimple c) inp cap
            (actOf a == .finish) out0).2.1
    ∧ (XzVerif.Simple.simpleCodeMain c inp cap a out0).2.consumed
        = (Coder.simpleMain (bcjFilter c.id c.isEncoder) (Coder.Src.null (endsAtFinish c)) c.allocated (toSimple c) inp cap
            (actOf a == .finish) out0).2.2
    ∧ (XzVerif.Simple.simpleCodeMain c inp cap a out0).2.ret
        = (Coder.simpleRet (Coder.simpleMain (bcjFilter c.id c.isEncoder) (Coder.Src.null (endsAtFinish c)) c.allocated (toSimple c)
            inp cap (actOf a == .finish) out0).1).toNat
    ∧ (XzVerif.Simple.simpleCodeMain c inp cap a out0).1.size = (XzVerif.Simple.simpleCodeMain c inp cap a out0).1.buffer.length
    ∧ SameKind c (XzVerif.Simple.simpleCodeMain c inp cap a out0).1 := by
  rw [simpleCodeMain_eq]
  have hA := stageA_equiv { c with filtered := 0 } hsz rfl inp cap a out0
  have hAr : Coder.simpleStageA (bcjFilter c.id c.isEncoder) (Coder.Src.null (endsAtFinish c)) (toSimple { c with filtered := 0 }) inp cap
        (actOf a == .finish) out0
      = Coder.simpleStageA (bcjFilter c.id c.isEncoder) (Coder.Src.null (endsAtFinish c)) (toSimple c) inp cap
        (actOf a == .finish) out0 := rfl
  obtain ⟨a1, a2, a3, a4⟩ := hA
  have a4' : SameKind c (stageA15 { c with filtered := 0 } inp cap a out0).1 := a4
  generalize stageA15 { c with filtered := 0 } inp cap a out0 = rA at a1 a2 a3 a4'
  change toSimple rA.1 = (Coder.simpleStageA (bcjFilter c.id c.isEncoder) (Coder.Src.null (endsAtFinish c))
    (toSimple { c with filtered := 0 }) inp cap (actOf a == .finish) out0).1 at a1
  change rA.2 = (Coder.simpleStageA (bcjFilter c.id c.isEncoder) (Coder.Src.null (endsAtFinish c))
    (toSimple { c with filtered := 0 }) inp cap (actOf a == .finish) out0).2 at a2
  rw [hAr] at a1 a2
  obtain ⟨b1, b2, b3, b4⟩ := stageB_equiv rA a3 inp cap a
  obtain ⟨k1, k2, k3⟩ := sameKind_F a4'
  rw [k1, k2, k3] at b1 b2
  have hpair : (toSimple rA.1, rA.2) = Coder.simpleStageA (bcjFilter c.id c.isEncoder) (Coder.Src.null (endsAtFinish c)) (toSimple c) inp cap
      (actOf a == .finish) out0 := Prod.ext a1 a2
  rw [hpair] at b1 b2
  unfold Coder.simpleMain
  refine ⟨b1, ?_, ?_, ?_, b3, a4'.trans b4⟩
  · exact congrArg (·.1) b2
  · exact congrArg (·.2) b2
  · show ret15 _ = _
    rw [ret15_eq _ b3, b1]


/-- **Call-by-call equivalence of the two `simple_code()` models** (for a coder object whose `size` field is the length of its
    buffer list — true initially and kept by every call): same new state (under `toSimple`), same output bytes, same consumed
    count, same return code; the static fields (`id`, `is_encoder`, next coder, `allocated`) never change. -/
theorem code_equiv (c : XzVerif.Simple.Coder) (hsz : c.size = c.buffer.length) (inp : List UInt8) (cap : Nat) (a : XzVerif.Simple.Action) :
    toSimple (XzVerif.Simple.simpleCode c inp cap a).1 = ((coderOf c).code (toSimple c) inp cap (actOf a)).1
    ∧ (XzVerif.Simple.simpleCode c inp cap a).2.out = ((coderOf c).code (toSimple c) inp cap (actOf a)).2.out
    ∧ (XzVerif.Simple.simpleCode c inp cap a).2.consumed = ((coderOf c).code (toSimple c) inp cap (actOf a)).2.consumed
    ∧ (XzVerif.Simple.simpleCode c inp cap a).2.ret = ((coderOf c).code (toSimple c) inp cap (actOf a)).2.ret.toNat
    ∧ (XzVerif.Simple.simpleCode c inp cap a).1.size = (XzVerif.Simple.simpleCode c inp cap a).1.buffer.length
    ∧ SameKind c (XzVerif.Simple.simpleCode c inp cap a).1 := by
  have hk : SameKind c c := ⟨rfl, rfl, rfl, rfl⟩
  unfold XzVerif.Simple.simpleCode coderOf Coder.simpleCoder Coder.simpleCode
  by_cases hs : a = .syncFlush
  · subst hs
    simp only [actOf, beq_self_eq_true, if_true]
    refine ⟨?_, ?_, ?_, ?_, hsz, hk⟩ <;> first | trivial | rfl
  · have hs1 : ¬ (a == XzVerif.Simple.Action.syncFlush) = true := by simpa using hs
    have hs2 : ¬ actOf a = Coder.Action.syncFlush := by cases a <;> simp [actOf] at hs ⊢
    rw [if_neg hs1]
    simp only [if_neg hs2]
    by_cases hpf : c.pos < c.filtered
    · have hpf' : (toSimple c).pos < (toSimple c).filtered := hpf
      rw [if_pos hpf, if_pos hpf']
      by_cases h2 : c.pos + min (c.filtered - c.pos) cap < c.filtered
      · have h2' : (toSimple c).pos + min ((toSimple c).filtered - (toSimple c).pos) cap < (toSimple c).filtered := h2
        simp only [if_pos h2, if_pos h2']
        refine ⟨?_, ?_, ?_, ?_, hsz, hk⟩ <;> first | trivial | rfl
      · have h2' : ¬ (toSimple c).pos + min ((toSimple c).filtered - (toSimple c).pos) cap < (toSimple c).filtered := h2
        simp only [if_neg h2, if_neg h2']
        by_cases he : c.endWasReached = true
        · have he' : (toSimple c).endReached = true := he
          simp only [if_pos he, if_pos he']
          refine ⟨?_, ?_, ?_, ?_, hsz, hk⟩ <;> first | trivial | rfl
        · have he' : ¬ (toSimple c).endReached = true := he
          simp only [if_neg he, if_neg he']
          exact main_equiv { c with pos := c.pos + min (c.filtered - c.pos) cap } hsz inp cap a _
    · have hpf' : ¬ (toSimple c).pos < (toSimple c).filtered := hpf
      rw [if_neg hpf, if_neg hpf']
      exact main_equiv c hsz inp cap a []

end XzVerif.CoderBcj
