/-
  Preservation of data + control invariant by the main-thread transitions other than read_output_and_wait.
-/
import XzVerif.Lemmas.MtDecCtl

namespace XzVerif.MtDec

/-- Control-only step: everything DataInv looks at is unchanged. -/
theorem DataInv.ctlOnly {s s' : State} (h : DataInv s) (hb : s'.blocks = s.blocks) (hc : s'.cur = s.cur)
    (hq : s'.queue = s.queue) (ho : s'.outRev = s.outRev) (hr : s'.readPos = s.readPos) (hp : s'.directPos = s.directPos)
    (hw : s'.workers = s.workers) (hf : s'.threadsFree = s.threadsFree) : DataInv s' :=
  h.congr hb hc hq ho hr hp hw hf

/-- Discharges the ten fields of CtlInv for a step whose effect on pc/seq is explicit in the goal, from the old fields. -/
macro "ctl_fields" : tactic =>
  `(tactic| (constructor <;> first
      | assumption
      | (intros; simp_all [rowKOf, seqOfRowK]; done)
      | (intros; simp_all [rowKOf]; subst_vars; simp_all [seqOfRowK]; done)
      | (intros; simp_all [rowKOf]; subst_vars; rfl)
      | (intros; simp_all [rowKOf, seqOfRowK, blk, getW]; done)
      | (intros; simp_all [rowKOf, seqOfRowK, blk, getW]; omega)))

theorem Inv.ret {s s' : State} (h : Inv s) (hs : step s .ret = some s') : Inv s' := by
  simp only [step] at hs
  split at hs
  case h_2 => cases hs
  rename_i r hpc
  injection hs with hs; subst hs
  refine ⟨h.1.congr rfl rfl rfl rfl rfl rfl rfl rfl, ?_⟩
  obtain ⟨c1, c2, c3, c4, c5, c6, c6a, c6b, c7, c8, c9, c10⟩ := h.2
  ctl_fields

theorem Inv.hdrNeed {s s' : State} (h : Inv s) (hs : step s .hdrNeed = some s') : Inv s' := by
  simp only [step] at hs
  split at hs
  case isFalse => cases hs
  rename_i hg
  simp only [Bool.and_eq_true, decide_eq_true_eq] at hg
  injection hs with hs; subst hs
  refine ⟨h.1.congr rfl rfl rfl rfl rfl rfl rfl rfl, ?_⟩
  obtain ⟨c1, c2, c3, c4, c5, c6, c6a, c6b, c7, c8, c9, c10⟩ := h.2
  ctl_fields

/-- For labels that only move the main thread's pc / seq / pend / flags. -/
macro "simple_main" h:ident hs:ident : tactic =>
  `(tactic| (
    simp only [step] at $hs:ident
    repeat' split at $hs:ident
    all_goals first | (cases $hs:ident; done) | skip
    all_goals (
      cases $hs:ident
      refine ⟨($h).1.congr rfl rfl rfl rfl rfl rfl rfl rfl, ?_⟩
      obtain ⟨c1, c2, c3, c4, c5, c6, c6a, c6b, c7, c8, c9, c10⟩ := ($h).2
      ctl_fields)))

theorem Inv.call {s s' : State} (h : Inv s) (f n : Bool) (c : Nat) (hs : step s (.call f n c) = some s') : Inv s' := by
  simple_main h hs
theorem Inv.endCall {s s' : State} (h : Inv s) (hs : step s .endCall = some s') : Inv s' := by simple_main h hs
theorem Inv.needInput {s s' : State} (h : Inv s) (hs : step s .needInput = some s') : Inv s' := by simple_main h hs
theorem Inv.hdrFatal {s s' : State} (h : Inv s) (hs : step s .hdrFatal = some s') : Inv s' := by simple_main h hs
theorem Inv.ffStop {s s' : State} (h : Inv s) (hs : step s .ffStop = some s') : Inv s' := by simple_main h hs
theorem Inv.thrInitEnter {s s' : State} (h : Inv s) (hs : step s .thrInitEnter = some s') : Inv s' := by simple_main h hs
theorem Inv.directInit {s s' : State} (h : Inv s) (hs : step s .directInit = some s') : Inv s' := by simple_main h hs
theorem Inv.rowTimeout {s s' : State} (h : Inv s) (hs : step s .rowTimeout = some s') : Inv s' := by simple_main h hs
theorem Inv.rowDone {s s' : State} (h : Inv s) (hs : step s .rowDone = some s') : Inv s' := by simple_main h hs
theorem Inv.seqError {s s' : State} (h : Inv s) (hs : step s .seqError = some s') : Inv s' := by simple_main h hs
theorem Inv.memUpdate {s s' : State} (h : Inv s) (hs : step s .memUpdate = some s') : Inv s' := by simple_main h hs

end XzVerif.MtDec
