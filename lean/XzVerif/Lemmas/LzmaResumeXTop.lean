/-
  Slicing independence of the resumable LZMA decoder model for sliced runs with EXACT per-call windows that may shrink
  (`runSlicedX`, Model/LzmaResumeRun.lean): a settled run equals the call with the whole input and any output allowance larger than
  every allowance offered along the run; two settled runs agree. Proved by chaining absorption (`callR_absorb_w`) against the
  whole-input call, as `chain_w` (Lemmas/LzmaResumeWTop.lean). ASSUMES `CodeAbsorb`, `CodeWrap`, `CodeIdle` for `codeOf kind`.
  Core Lean only.
-/
import XzVerif.Lemmas.LzmaResumeWTop
import XzVerif.Model.LzmaResumeRun

namespace XzVerif.LzmaR
open XzVerif.RangeDec XzVerif.LzDict XzVerif.Lzma XzVerif.Lzma2

/-- the largest output allowance offered along an exact-window run -/
def maxRoomX (kind : Kind) (input : List UInt8) : List (Nat × Nat) → XRun → Nat
  | [], _ => 0
  | (inLen, cap) :: sl, x =>
    if x.ret ≠ .ok then 0 else max (x.r.s.produced + cap) (maxRoomX kind input sl (runPieceX kind input x inLen cap))

theorem agree_back {n m : Nat} {a c w : ByteArray} (h1 : Agree n a w) (h2 : Agree m c w) (hnm : n ≤ m) : Agree n a c :=
  ⟨h1.le, Nat.le_trans hnm h2.le, fun i h h' hi => by
    have hw : i < w.size := Nat.lt_of_lt_of_le hi h1.le'
    rw [h1.eq i h hw hi, h2.eq i h' hw (Nat.lt_of_lt_of_le hi hnm)]⟩

theorem xrun_stop (kind : Kind) (input : List UInt8) (sl : List (Nat × Nat)) {x : XRun} (h : x.ret ≠ .ok) :
    runSlicedX kind input sl x = x := by
  cases sl with
  | nil => rfl
  | cons p sl => obtain ⟨k, cap⟩ := p; unfold runSlicedX; rw [if_pos h]

theorem xrun_cons (kind : Kind) (input : List UInt8) (k cap : Nat) (sl : List (Nat × Nat)) {x : XRun} (h : x.ret = .ok) :
    runSlicedX kind input ((k, cap) :: sl) x = runSlicedX kind input sl (runPieceX kind input x k cap) := by
  conv => lhs; unfold runSlicedX
  rw [if_neg (fun hn => hn h)]

theorem maxRoomX_cons (kind : Kind) (input : List UInt8) (k cap : Nat) (sl : List (Nat × Nat)) {x : XRun} (h : x.ret = .ok) :
    maxRoomX kind input ((k, cap) :: sl) x
      = max (x.r.s.produced + cap) (maxRoomX kind input sl (runPieceX kind input x k cap)) := by
  conv => lhs; unfold maxRoomX
  rw [if_neg (fun hn => hn h)]

/-- the window of one piece -/
def winX (input : List UInt8) (x : XRun) (inLen : Nat) : ByteArray :=
  toBuf (input.take (min (x.r.s.inPos + inLen) input.length))

/-- the invariant for the next call, from the invariant relative to the whole input -/
theorem cinv_window {P : RSt → Prop} (input : List UInt8) (x : XRun) (inLen cap : Nat) (h : CInv P x.r (toBuf input)) :
    InvW P x.r (winX input x inLen) (x.r.s.produced + cap) := by
  have hin : x.r.s.inPos ≤ input.length := by have := h.inPos; rw [toBuf_size] at this; exact this
  have hsz : x.r.s.inPos ≤ (winX input x inLen).size := by
    unfold winX; rw [toBuf_size, List.length_take]; omega
  exact ⟨⟨h.p, hsz, agree_back h.agree (toBuf_agree_take input _) hsz, h.base, h.noReset, h.size_ge, h.pos_le, h.align, h.full⟩,
    Nat.le_add_right _ _⟩

section
variable {P : RSt → Prop} {kind : Kind} (hc : CodeAbsorb P (codeOf kind)) (hw : CodeWrap P (codeOf kind)) {r0 : RSt}
  (input : List UInt8)
include hc hw

/-- chaining absorption along an exact-window run -/
theorem chain_x (Nstar : Nat) : ∀ (sl : List (Nat × Nat)) (x : XRun), x.ret = .ok → CInv P x.r (toBuf input) →
    maxRoomX kind input sl x < Nstar →
    EqvW (whole kind input Nstar x.r)
      (if (runSlicedX kind input sl x).ret = .ok then whole kind input Nstar (runSlicedX kind input sl x).r
       else ((runSlicedX kind input sl x).ret, (runSlicedX kind input sl x).r))
  | [], x, hret, _, _ => by
    show EqvW _ (if x.ret = .ok then _ else _)
    rw [if_pos hret]; exact EqvW.refl _
  | (k, cap) :: sl, x, hret, hi, hN => by
    rw [xrun_cons kind input k cap sl hret]
    rw [maxRoomX_cons kind input k cap sl hret] at hN
    have hi1 := cinv_window input x k cap hi
    have hpre := dB_noProg_w hc hw (decodeBufferFuel (x.r.withInp (winX input x k)).s (x.r.s.produced + cap)) x.r hi1 (fuel_ok _ _ _)
    have hprod : (callR kind (winX input x k) (x.r.s.produced + cap) x.r).2.s.produced ≤ x.r.s.produced + cap := hpre.2.1.prod
    have ha := callR_absorb_w hc hw (b := winX input x k) (N' := Nstar) (by omega) (toBuf_agree_take input _) x.r hi1 (fun _ => by omega)
    have h1 : EqvW (whole kind input Nstar x.r)
        (if (runPieceX kind input x k cap).ret = .ok then whole kind input Nstar (runPieceX kind input x k cap).r
         else ((runPieceX kind input x k cap).ret, (runPieceX kind input x k cap).r)) := ha.1
    by_cases hr1 : (runPieceX kind input x k cap).ret = .ok
    · rw [if_pos hr1] at h1
      have hi2 : CInv P (runPieceX kind input x k cap).r (toBuf input) := ha.2.1.c.mono (toBuf_agree_take input _)
      exact h1.trans (chain_x Nstar sl _ hr1 hi2 (by omega))
    · rw [if_neg hr1] at h1
      rw [xrun_stop kind input sl hr1, if_neg hr1]
      exact h1

end

section
variable {P : RSt → Prop} {kind : Kind} (hc : CodeAbsorb P (codeOf kind)) (hw : CodeWrap P (codeOf kind))
  (hid : CodeIdle P (codeOf kind)) {r0 : RSt} (input : List UInt8)

/-- re-calling a run that is ok and settled (all input offered, room to spare) with the whole input changes nothing -/
def IdleOkX (kind : Kind) (input : List UInt8) (Nstar : Nat) (x : XRun) : Prop :=
  x.ret = .ok → x.settled = true → Same (whole kind input Nstar x.r) (x.ret, x.r)

include hc hw hid

theorem idle_run_x (Nstar : Nat) : ∀ (sl : List (Nat × Nat)) (x : XRun), CInv P x.r (toBuf input) →
    IdleOkX kind input Nstar x → maxRoomX kind input sl x < Nstar → IdleOkX kind input Nstar (runSlicedX kind input sl x)
  | [], x, _, hI, _ => hI
  | (k, cap) :: sl, x, hi, hI, hN => by
    by_cases hret : x.ret = .ok
    · rw [xrun_cons kind input k cap sl hret]
      rw [maxRoomX_cons kind input k cap sl hret] at hN
      have hi1 := cinv_window input x k cap hi
      have hpre := dB_noProg_w hc hw (decodeBufferFuel (x.r.withInp (winX input x k)).s (x.r.s.produced + cap)) x.r hi1 (fuel_ok _ _ _)
      have hinv2 : InvW P (runPieceX kind input x k cap).r (winX input x k) (x.r.s.produced + cap) := hpre.2.1
      have hi2 : CInv P (runPieceX kind input x k cap).r (toBuf input) := hinv2.c.mono (toBuf_agree_take input _)
      refine idle_run_x Nstar sl _ hi2 ?_ (by omega)
      intro hok hsp
      have hok' : (callR kind (winX input x k) (x.r.s.produced + cap) x.r).1 = .ok := hok
      have hsp' : (decide ((callR kind (winX input x k) (x.r.s.produced + cap) x.r).1 ≠ .ok)
          || (decide (input.length ≤ x.r.s.inPos + k)
            && decide ((callR kind (winX input x k) (x.r.s.produced + cap) x.r).2.s.produced < x.r.s.produced + cap))) = true := hsp
      simp only [hok', ne_eq, not_true_eq_false, decide_false, Bool.false_or, Bool.and_eq_true, decide_eq_true_eq] at hsp'
      have hb : winX input x k = toBuf input := by
        unfold winX
        rw [List.take_of_length_le (by omega)]
      show Same (callR kind (toBuf input) Nstar (callR kind (winX input x k) (x.r.s.produced + cap) x.r).2)
        (callR kind (winX input x k) (x.r.s.produced + cap) x.r)
      have h2 := hsp'.2
      rw [hb] at hi1 hok' h2 ⊢
      exact callR_idle_w hc hw hid (by omega) x.r hi1 hok' h2
    · rw [xrun_stop kind input _ hret]
      exact hI

/-- **A settled exact-window run** equals the call with the whole input and any output allowance larger than every allowance offered
    along the run. -/
theorem xsliced_settled_eq_whole (hi0 : InvW P r0 ByteArray.empty 0) (sl : List (Nat × Nat))
    (hset : (runSlicedX kind input sl { r := r0 }).settled = true)
    (Nstar : Nat) (hN : maxRoomX kind input sl { r := r0 } < Nstar) :
    EqvW ((runSlicedX kind input sl { r := r0 }).ret, (runSlicedX kind input sl { r := r0 }).r)
      (callR kind (toBuf input) Nstar r0) := by
  have hi00 : CInv P r0 (toBuf input) := hi0.c.mono (agree_empty _)
  have hch := chain_x hc hw input Nstar sl { r := r0 } rfl hi00 hN
  by_cases hok : (runSlicedX kind input sl { r := r0 }).ret = .ok
  · rw [if_pos hok] at hch
    have hI := idle_run_x hc hw hid input Nstar sl { r := r0 } hi00 (fun _ h => by cases h) hN hok hset
    exact (hch.trans (Or.inl hI.toW)).symm
  · rw [if_neg hok] at hch
    exact hch.symm

/-- **Two settled exact-window runs** of the same decoder over the same input — any two slicings, windows may shrink — return the
    same code, and (unless the chunk-overrun error of `lzma2_decode` was raised in both) the same output and the same number of
    consumed input bytes. -/
theorem two_xslicings_agree_obs (hi0 : InvW P r0 ByteArray.empty 0) (sl1 sl2 : List (Nat × Nat))
    (hset1 : (runSlicedX kind input sl1 { r := r0 }).settled = true)
    (hset2 : (runSlicedX kind input sl2 { r := r0 }).settled = true) :
    (runSlicedX kind input sl1 { r := r0 }).ret = (runSlicedX kind input sl2 { r := r0 }).ret
    ∧ (((runSlicedX kind input sl1 { r := r0 }).r.overrun = false ∨ (runSlicedX kind input sl2 { r := r0 }).r.overrun = false) →
        (runSlicedX kind input sl1 { r := r0 }).r.output = (runSlicedX kind input sl2 { r := r0 }).r.output
        ∧ (runSlicedX kind input sl1 { r := r0 }).r.s.inPos = (runSlicedX kind input sl2 { r := r0 }).r.s.inPos) := by
  have h1 := xsliced_settled_eq_whole hc hw hid input hi0 sl1 hset1
    (max (maxRoomX kind input sl1 { r := r0 }) (maxRoomX kind input sl2 { r := r0 }) + 1)
    (Nat.lt_succ_of_le (Nat.le_max_left _ _))
  have h2 := xsliced_settled_eq_whole hc hw hid input hi0 sl2 hset2
    (max (maxRoomX kind input sl1 { r := r0 }) (maxRoomX kind input sl2 { r := r0 }) + 1)
    (Nat.lt_succ_of_le (Nat.le_max_right _ _))
  rcases h1.trans h2.symm with h | h
  · exact ⟨h.1, fun _ => ⟨normW_output h.2, normW_inPos h.2⟩⟩
  · refine ⟨h.1.trans h.2.1.symm, fun hno => ?_⟩
    rcases hno with hn | hn
    · have := h.2.2.1; rw [hn] at this; cases this
    · have := h.2.2.2; rw [hn] at this; cases this

end

end XzVerif.LzmaR
