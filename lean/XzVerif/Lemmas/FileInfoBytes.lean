/-
  C13 helper lemmas for `file_info_correct`: the bytes of a multi-Stream .xz file built from the container encoders of
  Model/Container.lean (Stream Header, Index field, Stream Footer, Stream Padding; Block bytes abstract), slicing of
  that file, and what the byte-level decoders of Model/FileInfo.lean read there.
-/
import XzVerif.Model.FileInfo
import XzVerif.Model.Container
import XzVerif.Lemmas.C02Stream
import XzVerif.Lemmas.IndexCodec

namespace XzVerif.Index

/-! ### the VLI / Index codecs of Model/Container.lean and of Model/IndexSpec.lean are the same functions -/

theorem vliEncodeAux_eq : ∀ (f v : Nat), v < 128 ^ (f + 1) → Vli.vliEncodeAux f v = vliEncode v
  | 0, v, h => by
    have : v < 128 := by simpa using h
    rw [vliEncode_lt this]; rfl
  | f + 1, v, h => by
    unfold Vli.vliEncodeAux
    by_cases h1 : v < 128
    · rw [if_pos h1, vliEncode_lt h1]
    · rw [if_neg h1, vliEncode_ge h1]
      have : v / 128 < 128 ^ (f + 1) := by
        rw [Nat.div_lt_iff_lt_mul (by decide)]
        rw [Nat.pow_succ] at h; exact h
      rw [vliEncodeAux_eq f (v / 128) this]

theorem container_vliEncode_eq {v : Nat} (h : v ≤ VLI_MAX) : Vli.vliEncode v = vliEncode v := by
  unfold Vli.vliEncode
  apply vliEncodeAux_eq
  unfold VLI_MAX at h
  have : (128 : Nat) ^ 9 = 9223372036854775808 := by decide
  omega

theorem container_vliSize_eq (v : Nat) : Vli.vliSize v = vliSize v := by
  by_cases h : v ≤ VLI_MAX
  · rw [vliSize_eq_length h, ← container_vliEncode_eq h]
    unfold Vli.vliSize Vli.vliEncode
    have : ¬ v > Vli.VLI_MAX := by unfold Vli.VLI_MAX; unfold VLI_MAX at h; omega
    rw [if_neg this, Vli.vliEncodeAux_length]
  · unfold Vli.vliSize vliSize
    have h1 : v > Vli.VLI_MAX := by unfold Vli.VLI_MAX; unfold VLI_MAX at h; omega
    have h2 : v > VLI_MAX := by omega
    rw [if_pos h1, if_pos h2]

theorem flatMap_congr' {α β : Type} {f g : α → List β} : ∀ (l : List α), (∀ x ∈ l, f x = g x) → l.flatMap f = l.flatMap g
  | [], _ => rfl
  | x :: r, h => by
    simp only [List.flatMap_cons]
    rw [h x (by simp), flatMap_congr' r (fun y hy => h y (List.mem_cons_of_mem _ hy))]

def toRecord (b : Block) : Container.IndexRecord := ⟨b.unpadded, b.uncompressed⟩

theorem container_listSize_eq (bs : List Block) : Container.indexListSize (bs.map toRecord) = listSize bs := by
  unfold Container.indexListSize listSize
  rw [List.map_map]
  congr 1
  apply List.map_congr_left
  intro b _
  simp [toRecord, container_vliSize_eq]

theorem container_indexSize_eq (c l : Nat) : Container.indexSize c l = indexSize c l := by
  unfold Container.indexSize indexSize Container.indexSizeUnpadded indexSizeUnpadded Container.ceil4 vliCeil4
  rw [container_vliSize_eq]

/-- the Index field written by the container encoder is the Index field of the C13 codec -/
theorem container_indexEncode_eq {bs : List Block} (hlen : bs.length ≤ VLI_MAX)
    (hb : ∀ b ∈ bs, b.unpadded ≤ VLI_MAX ∧ b.uncompressed ≤ VLI_MAX) :
    Container.indexEncode (bs.map toRecord) = encodeBlocks bs := by
  unfold Container.indexEncode encodeBlocks
  have hrecs : Container.indexRecordsBytes (bs.map toRecord)
      = bs.flatMap (fun b => vliEncode b.unpadded ++ vliEncode b.uncompressed) := by
    unfold Container.indexRecordsBytes
    rw [List.flatMap_map]
    apply flatMap_congr'
    intro b hbm
    simp only [toRecord]
    rw [container_vliEncode_eq (hb b hbm).1, container_vliEncode_eq (hb b hbm).2]
  have hpad : Container.indexPaddingSize (bs.map toRecord).length (Container.indexListSize (bs.map toRecord))
      = indexPadding bs.length (listSize bs) := by
    unfold Container.indexPaddingSize indexPadding Container.indexSizeUnpadded indexSizeUnpadded
    rw [container_listSize_eq, List.length_map, container_vliSize_eq]
  rw [hrecs, hpad]
  simp only [List.length_map, container_vliEncode_eq hlen]
  simp [Container.INDEX_INDICATOR, crc32Bytes, Container.le32, Container.crc32]

/-! ### Stream Header / Stream Footer: the decoders of Model/FileInfo.lean read what the container encoders wrote -/

theorem headerDecode_of_container {h : List UInt8} {f : Container.StreamFlags}
    (hd : Container.streamHeaderDecode h = .ok f) : headerDecode h = .ok f.check := by
  unfold Container.streamHeaderDecode at hd
  unfold headerDecode
  split at hd; · cases hd
  split at hd; · cases hd
  next hm =>
  split at hd; · cases hd
  next hc =>
  have hm' : ¬ h.take 6 ≠ headerMagic := hm
  have hc' : ¬ crc32Nat ((h.drop 6).take 2) ≠ le32 (h.drop 8) := hc
  rw [if_neg hm', if_neg hc']
  cases hfo : Container.streamFlagsOfBytes (h.getD 6 0) (h.getD 7 0) with
  | none => rw [hfo] at hd; cases hd
  | some f' =>
    rw [hfo] at hd
    simp only [Except.ok.injEq] at hd
    subst hd
    unfold Container.streamFlagsOfBytes at hfo
    unfold flagsDecode
    split at hfo
    · cases hfo
    · next hf =>
      rw [if_neg hf]
      simp only [Option.some.injEq] at hfo
      rw [← hfo]

theorem footerDecode_of_container {b : List UInt8} {f : Container.StreamFlags} {bs : Nat}
    (hd : Container.streamFooterDecode b = .ok (f, bs)) : footerDecode b = .ok (f.check, bs) := by
  unfold Container.streamFooterDecode at hd
  unfold footerDecode
  split at hd; · cases hd
  split at hd; · cases hd
  next hm =>
  split at hd; · cases hd
  next hc =>
  have hm' : ¬ (b.drop 10).take 2 ≠ footerMagic := hm
  have hc' : ¬ crc32Nat ((b.drop 4).take 6) ≠ le32 b := hc
  rw [if_neg hm', if_neg hc']
  cases hfo : Container.streamFlagsOfBytes (b.getD 8 0) (b.getD 9 0) with
  | none => rw [hfo] at hd; cases hd
  | some f' =>
    rw [hfo] at hd
    simp only [Except.ok.injEq, Prod.mk.injEq] at hd
    obtain ⟨hd1, hd2⟩ := hd
    subst hd1
    unfold Container.streamFlagsOfBytes at hfo
    unfold flagsDecode
    split at hfo
    · cases hfo
    · next hf =>
      rw [if_neg hf]
      simp only [Option.some.injEq] at hfo
      rw [← hfo, ← hd2]
      rfl

/-- the last byte of a Stream Footer is `'Z'` -/
theorem footer_last {f : Container.StreamFlags} {bs : Nat} {b : List UInt8}
    (h : Container.streamFooterEncode f bs = .ok b) : ∃ init, b = init ++ [0x5A] ∧ init.length = 11 := by
  unfold Container.streamFooterEncode at h
  split at h; · cases h
  split at h; · cases h
  split at h
  · cases h
  · next fl hfl =>
    simp only [Except.ok.injEq] at h
    unfold Container.streamFlagsBytes at hfl
    split at hfl; · cases hfl
    simp only [Option.some.injEq] at hfl
    subst hfl; subst h
    refine ⟨Container.le32 (Container.crc32 (Container.le32 (bs / 4 - 1) ++ [0x00, UInt8.ofNat f.check]))
      ++ (Container.le32 (bs / 4 - 1) ++ [0x00, UInt8.ofNat f.check]) ++ [0x59], ?_, ?_⟩
    · simp [Container.FOOTER_MAGIC]
    · simp [Container.le32]

/-! ### slicing a file -/

theorem bytesAt_toArray (l : List UInt8) (pos n : Nat) : bytesAt l.toArray pos n = (l.drop pos).take n := by
  unfold bytesAt; simp

/-- the `n = |X|` bytes at position `|A|` of `A ++ X ++ B` -/
theorem bytesAt_mid (A X B : List UInt8) : bytesAt (A ++ X ++ B).toArray A.length X.length = X := by
  rw [bytesAt_toArray, List.append_assoc, List.drop_left', List.take_left']
  · rfl
  · rfl

theorem bytesAt_mid' {A X B : List UInt8} {pos n : Nat} (hp : pos = A.length) (hn : n = X.length) :
    bytesAt (A ++ X ++ B).toArray pos n = X := by
  subst hp; subst hn; exact bytesAt_mid A X B

/-- `get_padding_size`: counting zeros backwards from the end of the window.  The file is `A ++ [x] ++ zeros ++ B`
    with `x ≠ 0`; the window `[start, start + n)` ends inside (or at the end of) the zeros. -/
theorem trailingZeros_spec (A : List UInt8) (x : UInt8) (z : Nat) (B : List UInt8) (hx : x.toNat ≠ 0) :
    ∀ (n start : Nat), A.length + 1 ≤ start + n → start + n ≤ A.length + 1 + z →
      trailingZeros (A ++ [x] ++ List.replicate z 0 ++ B).toArray start n = min n (start + n - (A.length + 1))
  | 0, start, _, _ => by simp [trailingZeros]
  | n + 1, start, h1, h2 => by
    unfold trailingZeros
    have hget : ∀ k, (A ++ [x] ++ List.replicate z 0 ++ B).toArray.getD k 0 = (A ++ [x] ++ List.replicate z 0 ++ B).getD k 0 := by
      intro k; simp
    rw [hget]
    by_cases hlast : start + n = A.length
    · -- the byte is `x`
      have : (A ++ [x] ++ List.replicate z 0 ++ B).getD (start + n) 0 = x := by
        rw [hlast]; simp [List.getD_eq_getElem?_getD, List.getElem?_append_left, List.getElem?_append_right]
      rw [this, if_neg hx]
      omega
    · -- the byte is one of the zeros
      have hk : A.length + 1 ≤ start + n := by omega
      have : (A ++ [x] ++ List.replicate z 0 ++ B).getD (start + n) 0 = 0 := by
        rw [List.getD_eq_getElem?_getD, List.append_assoc, List.append_assoc,
          List.getElem?_append_right (by omega)]
        have e1 : ([x] ++ (List.replicate z 0 ++ B))[start + n - A.length]? = (List.replicate z 0 ++ B)[start + n - A.length - 1]? := by
          have : start + n - A.length = (start + n - A.length - 1) + 1 := by omega
          rw [this]; simp
        rw [e1, List.getElem?_append_left (by simp; omega), List.getElem?_replicate]
        split <;> rfl
      rw [this]
      simp only [UInt8.toNat_zero, if_true]
      by_cases hn0 : start + n = A.length + 1
      · -- no more zeros below: the recursion stops at `x` immediately or the window is empty
        rw [trailingZeros_spec A x z B hx n start (by omega) (by omega)]
        omega
      · rw [trailingZeros_spec A x z B hx n start (by omega) (by omega)]
        omega

end XzVerif.Index
