/-
  INSTRUMENTED ("checked") VARIANTS of the executable LZMA1/LZMA2 decoder models (Model/Lzma.lean, Model/Lzma2.lean).

  The executable models index their arrays with totalised accessors: `probs.getD idx 0` / `probs.setIfInBounds idx p`
  (`rcBit`), `hist.get! i` behind `if distance < hist.size … else 0` (`dictGet`, `copyBytes`), `if h : off < src.size
  then src[off] else 0` (`appendSlice`, the `byte` of `lzma2Loop`). Such a definition can never "crash", so it cannot by
  itself express that an index is in range. The variants below are the same programs, statement by statement, except that

    * every array access uses the PARTIAL accessor (`a[i]'h`, `a.set i v h`: Lean demands the proof `h : i < a.size`), and
    * where that proof is not available from a run-time test the variant stops with the distinguished outcome `oob`
      (monadic level: `XExit.oob`; call level: `none`);
    * every probability access names the C MEMBER ARRAY of `lzma_lzma1_decoder` it is meant for (`is_match`, `is_rep`, …,
      `dist_slot`, `pos_special`, `pos_align`, the five members of each length decoder, `literal`: `M_*` below, as
      (first index, extent) in the flat model array) and is tested against that member's own bounds as well — an index
      that strays from `is_match[][]` into `is_rep[]` is inside the flat array but is reported `oob` (audit S-4);
    * dictionary operations additionally test, at every call, the C-LEVEL INDEX EXPRESSIONS of lz_decoder.h against the
      buffer size (the executable model keeps the produced bytes in a growing history instead of the cyclic buffer, so
      these expressions — `DictPos.getIndex`, `pos - 1`, `pos`, `repeatBack + left`, `pos + left` of Model/LzDict.lean,
      the ones `Dict.get/get0/put/repeat/write` pass to `getD`/`setIfInBounds` — would otherwise not occur in the run),
      and the precondition `distance < dict.full` (`dict_is_distance_valid`).

  Everything that performs no array access is reused unchanged through `liftM`. The theorems of Lemmas/C04Checked*.lean show
  that on EVERY input the checked run equals the (lifted) executable run — so `oob` never occurs, no totalised default is
  ever taken, and the two compute the same result. Headline: Props/C04.lean `decoder_accesses_in_bounds`.
  Core Lean only.
-/
import XzVerif.Model.Lzma2

namespace XzVerif.Lzma
open XzVerif.RangeDec XzVerif.LzDict

/-- outcome of a checked run: an exit of the executable model, or an access outside an array -/
inductive XExit where
  | exit (e : Exit)
  | oob
  deriving Repr, DecidableEq, Inhabited

abbrev MC := EStateM XExit St

/-- an outcome of the executable model seen as an outcome of the checked model -/
def liftR {α : Type} : EStateM.Result Exit St α → EStateM.Result XExit St α
  | .ok a s => .ok a s
  | .error e s => .error (.exit e) s

/-- a computation of the executable model that performs no array access, reused in the checked model -/
@[inline] def liftM {α : Type} (x : M α) : MC α := fun s => liftR (x s)

/-- back from a checked outcome; `none` = an access was out of bounds -/
def unliftR {α : Type} : EStateM.Result XExit St α → Option (EStateM.Result Exit St α)
  | .ok a s => some (.ok a s)
  | .error (.exit e) s => some (.error e s)
  | .error .oob _ => none

theorem unliftR_liftR {α : Type} (r : EStateM.Result Exit St α) : unliftR (liftR r) = some r := by
  cases r <;> rfl

/-! ### checked accessors -/

/-! The flat model array `probs` is the concatenation of the probability members of `lzma_lzma1_decoder` (layout table in
    Model/Lzma.lean; Props/C03 `constants_match_code` ties every segment size to `sizeof` of the C member). An index that is
    inside the flat array but outside the member it is meant for would be an out-of-bounds access of the C member array, so
    every checked bit decode names its member: first index `lo` and number of elements `ext` — -/

/-- `is_match[STATES][POS_STATES_MAX]` -/
abbrev M_IS_MATCH : Nat × Nat := (P_IS_MATCH, STATES * POS_STATES_MAX)
/-- `is_rep[STATES]`, `is_rep0[STATES]`, `is_rep1[STATES]`, `is_rep2[STATES]` -/
abbrev M_IS_REP : Nat × Nat := (P_IS_REP, STATES)
abbrev M_IS_REP0 : Nat × Nat := (P_IS_REP0, STATES)
abbrev M_IS_REP1 : Nat × Nat := (P_IS_REP1, STATES)
abbrev M_IS_REP2 : Nat × Nat := (P_IS_REP2, STATES)
/-- `is_rep0_long[STATES][POS_STATES_MAX]` -/
abbrev M_IS_REP0_LONG : Nat × Nat := (P_IS_REP0_LONG, STATES * POS_STATES_MAX)
/-- `dist_slot[DIST_STATES][DIST_SLOTS]` -/
abbrev M_DIST_SLOT : Nat × Nat := (P_DIST_SLOT, DIST_STATES * DIST_SLOTS)
/-- `pos_special[FULL_DISTANCES - DIST_MODEL_END]` -/
abbrev M_POS_SPECIAL : Nat × Nat := (P_POS_SPECIAL, FULL_DISTANCES - DIST_MODEL_END)
/-- `pos_align[ALIGN_SIZE]` -/
abbrev M_POS_ALIGN : Nat × Nat := (P_POS_ALIGN, ALIGN_SIZE)
/-- the members of a `lzma_length_decoder` at `lenBase`: `choice`, `choice2`, `low[POS_STATES_MAX][LEN_LOW_SYMBOLS]`,
    `mid[POS_STATES_MAX][LEN_MID_SYMBOLS]`, `high[LEN_HIGH_SYMBOLS]` -/
abbrev M_LEN_CHOICE (lenBase : Nat) : Nat × Nat := (lenBase + LEN_CHOICE, 1)
abbrev M_LEN_CHOICE2 (lenBase : Nat) : Nat × Nat := (lenBase + LEN_CHOICE2, 1)
abbrev M_LEN_LOW (lenBase : Nat) : Nat × Nat := (lenBase + LEN_LOW, POS_STATES_MAX * LEN_LOW_SYMBOLS)
abbrev M_LEN_MID (lenBase : Nat) : Nat × Nat := (lenBase + LEN_MID, POS_STATES_MAX * LEN_MID_SYMBOLS)
abbrev M_LEN_HIGH (lenBase : Nat) : Nat × Nat := (lenBase + LEN_HIGH, LEN_HIGH_SYMBOLS)
/-- `literal[LITERAL_CODERS_MAX * LITERAL_CODER_SIZE]` (the model array holds its first `0x300 << (lc + lp)` elements — the
    part `literal_init` initialises — so the size test of the flat array is the tighter one here) -/
abbrev M_LITERAL : Nat × Nat := (P_LITERAL, LITERAL_CODER_SIZE <<< LZMA_LCLP_MAX)

/-- `rc_bit_safe(probs[idx], …)` with the probability read and written through the partial accessors; `m = (lo, ext)` is the
    C member array the index is meant for: tested are `lo ≤ idx < lo + ext` (inside its OWN member) and `idx < probs.size` -/
def rcBitC (m : Nat × Nat) (idx : Nat) : MC Nat := fun s =>
  match rcNormalize s with
  | .error e s => .error (.exit e) s
  | .ok _ s =>
    if h : idx < s.probs.size ∧ m.1 ≤ idx ∧ idx < m.1 + m.2 then
      let p := s.probs[idx]'h.1
      let r := bitCore (Rc.mk s.range s.code) p
      .ok r.1 { s with range := r.2.1.range, code := r.2.1.code, probs := s.probs.set idx r.2.2 h.1 }
    else .error .oob s

/-- `dict_get(dict, distance)`: tested are the C-level precondition `distance < dict.full`, the C buffer index
    `buf[pos - distance - 1 + (distance < pos ? 0 : size - LZ_DICT_REPEAT_MAX)] < size`, and the model-level bound -/
def dictGetC (s : St) (distance : Nat) : Option UInt8 :=
  if h : distance < s.dp.full ∧ s.dp.getIndex distance < s.dp.size ∧ distance < s.hist.size then
    some (s.hist[s.hist.size - 1 - distance]'(by omega))
  else none

/-- `dict_get0(dict)`: `buf[pos - 1]` (read also while the dictionary is empty) -/
def dictGet0C (s : St) : Option UInt8 :=
  if 1 ≤ s.dp.pos ∧ s.dp.pos - 1 < s.dp.size then
    if s.dp.full == 0 then some 0 else dictGetC s 0
  else none

/-- `dict_put(dict, byte)`: `buf[pos++] = byte` -/
def putC (s : St) (b : UInt8) : Option St :=
  if s.dp.pos < s.dp.size then some (s.put b) else none

/-- the copy loop of `dict_repeat` with a checked read -/
def copyBytesC : Nat → Nat → ByteArray → Option ByteArray
  | 0, _, h => some h
  | n + 1, distance, h =>
    if hd : distance < h.size then copyBytesC n distance (h.push (h[h.size - 1 - distance]'(by omega)))
    else none

/-- `dict_repeat(dict, rep0, &len)` restricted to the `left` bytes that fit; precondition `rep0 < dict.full`; the reads
    `buf[back .. back + left)` and the writes `buf[pos .. pos + left)` must lie inside the buffer -/
def repeatNC (s : St) (left : Nat) : Option St :=
  if s.rep0 < s.dp.full ∧ s.dp.repeatBack s.rep0 + left ≤ s.dp.size ∧ s.dp.pos + left ≤ s.dp.size then
    match copyBytesC left s.rep0 s.hist with
    | some h => some { s with hist := h, dp := s.dp.advance left }
    | none => none
  else none

/-! ### checked symbol decoder (same text as Model/Lzma.lean with the accessors replaced) -/

def bittreeC (m : Nat × Nat) (base : Nat) : Nat → Nat → MC Nat
  | 0, sym => pure sym
  | n + 1, sym => do
    let b ← rcBitC m (base + sym)
    bittreeC m base n (sym * 2 + b)

def litMatchedC (base : Nat) : Nat → Nat → Nat → Nat → MC Nat
  | 0, sym, _, _ => pure sym
  | n + 1, sym, offset, len => do
    let matchBit := len &&& offset
    let b ← rcBitC M_LITERAL (base + offset + matchBit + sym)
    let offset' := if b == 0 then offset ^^^ matchBit else matchBit
    litMatchedC base n (sym * 2 + b) offset' (len * 2)

def revBittreeC (base : Nat) : Nat → Nat → Nat → Nat → MC Nat
  | 0, _, _, acc => pure acc
  | n + 1, sym, offset, acc => do
    let b ← rcBitC M_POS_SPECIAL (base + sym)
    revBittreeC base n (sym * 2 + b) (offset + 1) (acc + (b <<< offset))

def revAlignC : Nat → Nat → Nat → MC Nat
  | 0, sym, _ => pure sym
  | n + 1, sym, offset => do
    let b ← rcBitC M_POS_ALIGN (P_POS_ALIGN + offset + sym)
    revAlignC n (sym + b * offset) (offset * 2)

def lenDecodeC (lenBase posState : Nat) : MC Nat := do
  let c ← rcBitC (M_LEN_CHOICE lenBase) (lenBase + LEN_CHOICE)
  if c == 0 then
    let s ← bittreeC (M_LEN_LOW lenBase) (lenBase + LEN_LOW + posState * LEN_LOW_SYMBOLS) 3 1
    pure (MATCH_LEN_MIN + (s - LEN_LOW_SYMBOLS))
  else
    let c2 ← rcBitC (M_LEN_CHOICE2 lenBase) (lenBase + LEN_CHOICE2)
    if c2 == 0 then
      let s ← bittreeC (M_LEN_MID lenBase) (lenBase + LEN_MID + posState * LEN_MID_SYMBOLS) 3 1
      pure (MATCH_LEN_MIN + LEN_LOW_SYMBOLS + (s - LEN_MID_SYMBOLS))
    else
      let s ← bittreeC (M_LEN_HIGH lenBase) (lenBase + LEN_HIGH) 8 1
      pure (MATCH_LEN_MIN + LEN_LOW_SYMBOLS + LEN_MID_SYMBOLS + (s - LEN_HIGH_SYMBOLS))

def distDecodeC (len : Nat) : MC Nat := do
  let slot1 ← bittreeC M_DIST_SLOT (P_DIST_SLOT + getDistState len * DIST_SLOTS) 6 1
  let slot := slot1 - DIST_SLOTS
  if slot < DIST_MODEL_START then pure slot
  else
    let limit := (slot >>> 1) - 1
    let r := 2 + (slot &&& 1)
    if slot < DIST_MODEL_END then
      let r := r <<< limit
      revBittreeC (P_POS_SPECIAL + r - slot - 1) limit 1 0 r
    else
      let r ← liftM (rcDirect (limit - ALIGN_BITS) r)
      let r := (r <<< ALIGN_BITS) % U32
      let a ← revAlignC 4 0 1
      pure ((r + a) % U32)

/-- the literal coder's base: `literal_subcoder(…, dict.pos, dict_get0(&dict))` with a checked `dict_get0` -/
def litBaseC : MC Nat := fun s =>
  match dictGet0C s with
  | some b => .ok (P_LITERAL + literalSubcoder s.lc s.lp s.dp.pos b.toNat) s
  | none => .error .oob s

/-- the match byte of SEQ_LITERAL_MATCHED: `dict_get(&dict, rep0)`, checked -/
def matchByteC : MC Nat := fun s =>
  match dictGetC s s.rep0 with
  | some b => .ok b.toNat s
  | none => .error .oob s

def decodeSymbolC (eopmValid : Bool) : MC Pending := do
  let (state, posState, full) ← liftM (fun s : St => EStateM.Result.ok (s.state, s.dp.pos &&& s.posMask, s.dp.full) s)
  let isMatch ← rcBitC M_IS_MATCH (P_IS_MATCH + state * POS_STATES_MAX + posState)
  if isMatch == 0 then
    let base ← litBaseC
    if isLiteralState state then
      modify fun s => { s with state := updateLiteralNormal state }
      let sym ← bittreeC M_LITERAL base 8 1
      pure (.litWrite (sym % 256))
    else
      modify fun s => { s with state := updateLiteralMatched state }
      let mb ← matchByteC
      let sym ← litMatchedC base 8 1 0x100 (mb * 2)
      pure (.litWrite (sym % 256))
  else
    let isRep ← rcBitC M_IS_REP (P_IS_REP + state)
    if isRep == 0 then
      modify fun s => { s with state := updateMatch state, rep3 := s.rep2, rep2 := s.rep1, rep1 := s.rep0 }
      let len ← lenDecodeC P_MATCH_LEN posState
      let d ← distDecodeC len
      modify fun s => { s with rep0 := d }
      if d == UINT32_MAX then
        if !eopmValid then throw (.exit .dataError)
        liftM rcNormalize
        let fin ← liftM (fun s : St => EStateM.Result.ok (s.code == 0) s)
        if fin then throw (.exit .streamEnd) else throw (.exit .dataError)
      else if !(d < full) then throw (.exit .dataError)
      else pure (.copy len)
    else
      if full == 0 then throw (.exit .dataError)
      else
        let isRep0 ← rcBitC M_IS_REP0 (P_IS_REP0 + state)
        let isShort ← (do
          if isRep0 == 0 then
            let isLong ← rcBitC M_IS_REP0_LONG (P_IS_REP0_LONG + state * POS_STATES_MAX + posState)
            pure (isLong == 0)
          else
            let isRep1 ← rcBitC M_IS_REP1 (P_IS_REP1 + state)
            if isRep1 == 0 then
              modify fun s => { s with rep1 := s.rep0, rep0 := s.rep1 }
            else
              let isRep2 ← rcBitC M_IS_REP2 (P_IS_REP2 + state)
              if isRep2 == 0 then
                modify fun s => { s with rep2 := s.rep1, rep1 := s.rep0, rep0 := s.rep2 }
              else
                modify fun s => { s with rep3 := s.rep2, rep2 := s.rep1, rep1 := s.rep0, rep0 := s.rep3 }
            pure false : MC Bool)
        if isShort then
          modify fun s => { s with state := updateShortRep state }
          pure .shortRep
        else
          modify fun s => { s with state := updateLongRep state }
          let len ← lenDecodeC P_REP_LEN posState
          pure (.copy len)

/-- the output step; `dict_get(&dict, rep0)` of SEQ_SHORTREP is evaluated before `dict_put_safe` tests the limit, as in C -/
def doWriteC (p : Pending) : MC Unit := fun s =>
  match p with
  | .litWrite sym =>
    if s.dp.pos == s.dp.limit then .error (.exit (.outFull p)) s
    else match putC s (UInt8.ofNat sym) with
      | some s' => .ok () s'
      | none => .error .oob s
  | .shortRep =>
    match dictGetC s s.rep0 with
    | none => .error .oob s
    | some b =>
      if s.dp.pos == s.dp.limit then .error (.exit (.outFull p)) s
      else match putC s b with
        | some s' => .ok () s'
        | none => .error .oob s
  | .copy len =>
    let left := s.dp.repeatLeft len
    match repeatNC s left with
    | none => .error .oob s
    | some s => if len - left != 0 then .error (.exit (.outFull (.copy (len - left)))) s else .ok () s
  | _ => .ok () s

def symStepC (eopmValid mightFinish : Bool) : MC Bool := do
  let eopmValid ← liftM (symPrelude eopmValid mightFinish)
  let act ← decodeSymbolC eopmValid
  doWriteC act
  pure eopmValid

def symLoopC : Nat → Bool → Bool → MC Unit
  | 0, _, _ => throw (.exit .fuel)
  | fuel + 1, eopmValid, mightFinish => do
    let eopmValid ← symStepC eopmValid mightFinish
    symLoopC fuel eopmValid mightFinish

def lzmaRunC (s : St) : EStateM.Result XExit St Unit :=
  let eopmValid := s.uncomp.isNone || s.eopmValid
  let mf := mightFinish s
  let s1 : St := { s with dp := { s.dp with limit := clampedLimit s }, pending := .none }
  let fuel := s1.dp.limit - s1.dp.pos + 2
  (do doWriteC s.pending; symLoopC fuel eopmValid mf : MC Unit) s1

/-- one call of `lzma_decode`; `none` = some array access of the call was out of bounds -/
def lzmaCallC (s : St) : Option (Ret × St) :=
  if s.pending == .stuck then some (.ok, s) else
  match rcReadInit s with
  | .error _ s => some (.dataError, s)
  | .ok false s => some (.ok, { s with pending := .stuck })
  | .ok true s => (unliftR (lzmaRunC s)).map fun r => lzmaFinish r s.dp.limit s.hist.size s.uncomp

/-- `decode_buffer` around a checked inner coder -/
def decodeBufferC (code : St → Option (Ret × St)) : Nat → Nat → St → Option (Ret × St)
  | 0, _, s => some (.progError, s)
  | fuel + 1, outSize, s =>
    let s := { s with dp := (s.dp.wrap).setLimit (outSize - s.produced) }
    match code s with
    | none => none
    | some (ret, s) =>
      if s.dp.needReset then
        let s := { s with dp := s.dp.reset }
        if ret != .ok || s.produced == outSize then some (ret, s) else decodeBufferC code fuel outSize s
      else
        if ret != .ok || s.produced == outSize || s.dp.pos < s.dp.size then some (ret, s)
        else decodeBufferC code fuel outSize s

/-- `lzmaDecode` through the checked functions -/
def lzmaDecodeC (props : Props) (dictSize : Nat) (uncompSize : Option Nat) (allowEopm : Bool)
    (input : List UInt8) (presetDict : List UInt8 := []) (outCap : Nat := UNLIMITED) : Option DecResult :=
  let s := St.initLzma1 props dictSize uncompSize (allowEopm || uncompSize.isNone) presetDict (ByteArray.mk input.toArray)
  (decodeBufferC lzmaCallC (decodeBufferFuel s outCap) outCap s).map fun (ret, s) =>
    { ret := ret, out := histFrom s.hist s.outBase, consumed := s.inPos }

end XzVerif.Lzma

namespace XzVerif.Lzma2
open XzVerif.RangeDec XzVerif.LzDict XzVerif.Lzma

/-- `dict_write`'s copy from the input buffer with a checked read -/
def appendSliceC (src : ByteArray) : Nat → Nat → ByteArray → Option ByteArray
  | 0, _, h => some h
  | n + 1, off, h => if hlt : off < src.size then appendSliceC src n (off + 1) (h.push src[off]) else none

/-- `dict_write`: the `memcpy` to `buf[pos .. pos + n)` must lie inside the buffer -/
def dictWriteC (s : St) (left : Nat) : Option (Nat × St) :=
  let n := min (min (s.inp.size - s.inPos) left) s.dp.avail
  if s.dp.pos + n ≤ s.dp.size then
    match appendSliceC s.inp n s.inPos s.hist with
    | some h => some (n, { s with hist := h, inPos := s.inPos + n, dp := s.dp.advance n })
    | none => none
  else none

/-- `in[*in_pos]`, read (as in the C code) inside the cases that consume a byte -/
def inByteC (s : St) : Option Nat :=
  if hlt : s.inPos < s.inp.size then some (s.inp[s.inPos]).toNat else none

/-- `lzma2_decode` with checked reads of the input byte, a checked `dict_write` and the checked `lzma_decode` -/
def lzma2LoopC : Nat → St → Option (Ret × St)
  | 0, s => some (.progError, s)
  | fuel + 1, s =>
    if !(s.inPos < s.inp.size || s.l2.seq == .lzma) then some (.ok, s) else
    match s.l2.seq with
    | .control =>
      match inByteC s with
      | none => none
      | some byte =>
      let s := { s with inPos := s.inPos + 1 }
      let a := controlStep byte s.l2.needProperties s.l2.needDictionaryReset
      if a.isEnd then some (.streamEnd, s)
      else if a.isError then some (.dataError, s)
      else
        let s := controlApply s a
        if a.dictReset then some (.ok, { s with dp := { s.dp with needReset := true } })
        else lzma2LoopC fuel s
    | .uncompressed1 =>
      match inByteC s with
      | none => none
      | some byte =>
      lzma2LoopC fuel (setL2 { s with inPos := s.inPos + 1 } fun l =>
        { l with uncompressedSize := l.uncompressedSize + (byte <<< 8), seq := .uncompressed2 })
    | .uncompressed2 =>
      match inByteC s with
      | none => none
      | some byte =>
      let s := setL2 { s with inPos := s.inPos + 1 } fun l =>
        { l with uncompressedSize := l.uncompressedSize + byte + 1, seq := .compressed0 }
      lzma2LoopC fuel { s with uncomp := some s.l2.uncompressedSize, allowEopm := false, eopmValid := false }
    | .compressed0 =>
      match inByteC s with
      | none => none
      | some byte =>
      lzma2LoopC fuel (setL2 { s with inPos := s.inPos + 1 } fun l => { l with compressedSize := byte <<< 8, seq := .compressed1 })
    | .compressed1 =>
      match inByteC s with
      | none => none
      | some byte =>
      lzma2LoopC fuel (setL2 { s with inPos := s.inPos + 1 } fun l =>
        { l with compressedSize := l.compressedSize + byte + 1, seq := l.nextSeq })
    | .properties =>
      match inByteC s with
      | none => none
      | some byte =>
      let s := { s with inPos := s.inPos + 1 }
      match propsDecode byte with
      | none => some (.dataError, s)
      | some p =>
        let s := (setL2 s fun l => { l with props := p, seq := .lzma }).resetLzma p
        lzma2LoopC fuel s
    | .lzma =>
      let inStart := s.inPos
      match lzmaCallC s with
      | none => none
      | some (ret, s) =>
      let inUsed := s.inPos - inStart
      if inUsed > s.l2.compressedSize then some (.dataError, s)
      else
        let s := setL2 s fun l => { l with compressedSize := l.compressedSize - inUsed }
        if ret != .streamEnd then some (ret, s)
        else if s.l2.compressedSize != 0 then some (.dataError, s)
        else lzma2LoopC fuel (setL2 s fun l => { l with seq := .control })
    | .copy =>
      match dictWriteC s s.l2.compressedSize with
      | none => none
      | some (n, s) =>
      let s := setL2 s fun l => { l with compressedSize := l.compressedSize - n }
      if s.l2.compressedSize != 0 then some (.ok, s)
      else lzma2LoopC fuel (setL2 s fun l => { l with seq := .control })

def lzma2CallC (s : St) : Option (Ret × St) := lzma2LoopC (2 * (s.inp.size - s.inPos) + 4) s

/-- one call of `code` (= `lz_decode`) through the checked functions -/
def Coder.codeC (c : Coder) (outCap : Nat) : Option (Ret × Coder) :=
  let outSize := c.s.produced + outCap
  let fuel := decodeBufferFuel c.s outSize
  match c.kind with
  | .lzma1 => (decodeBufferC lzmaCallC fuel outSize c.s).map fun (r, s) => (r, { kind := .lzma1, s := s })
  | .lzma2 => (decodeBufferC lzma2CallC fuel outSize c.s).map fun (r, s) => (r, { kind := .lzma2, s := s })

def lzma2DecodeC (dictSize : Nat) (input : List UInt8) (presetDict : List UInt8 := []) (outCap : Nat := UNLIMITED) :
    Option DecResult :=
  let c := Coder.initLzma2 dictSize presetDict (ByteArray.mk input.toArray)
  (c.codeC outCap).map fun (ret, c) => { ret := ret, out := c.output, consumed := c.consumed }

def rawDecodeC (ch : Chain) (input : List UInt8) (outCap : Nat := UNLIMITED) : Option DecResult :=
  match ch.last.init (ByteArray.mk input.toArray) with
  | .error r => some { ret := r, out := [], consumed := 0 }
  | .ok c => (c.codeC outCap).map fun (ret, c) => { ret := ret, out := ch.post c.output, consumed := c.consumed }

end XzVerif.Lzma2
