/-
  Lemmas behind `ofByteMachine_slicing_independent` (C06): the global small-step semantics of a byte machine (`Reach`), its
  determinism/linearity, quiescent configurations, and the invariant that a sliced run only ever moves along that one trace.
-/
import XzVerif.Model.Coder

namespace XzVerif.Coder

variable {μ : Type}

/-- `Reach m fin st eof rest o st' eof' rest'`: from machine state `st` (end-of-input signalled: `eof`) with `rest` still unread,
    the machine can get to `st'`/`eof'`/`rest'` writing exactly `o`. `fin` = the caller finishes the stream (end of input is
    signalled once the input is exhausted). No buffer limits: this is the slicing-free meaning. -/
inductive Reach (m : ByteMachine μ) (fin : Bool) : μ → Bool → List UInt8 → List UInt8 → μ → Bool → List UInt8 → Prop
  | refl (st eof rest) : Reach m fin st eof rest [] st eof rest
  | emit {st eof rest b nx o st' eof' rest'} : m.step st = .emit b nx → Reach m fin nx eof rest o st' eof' rest' →
      Reach m fin st eof rest (b :: o) st' eof' rest'
  | read {st eof rest b k o st' eof' rest'} : m.step st = .read k → Reach m fin (k (some b)) eof rest o st' eof' rest' →
      Reach m fin st eof (b :: rest) o st' eof' rest'
  | eof {st k o st' eof' rest'} : m.step st = .read k → fin = true → Reach m fin (k none) true [] o st' eof' rest' →
      Reach m fin st false [] o st' eof' rest'

/-- Nothing more can happen, whatever buffers are offered. -/
def Quiescent (m : ByteMachine μ) (fin : Bool) (st : μ) (eof : Bool) (rest : List UInt8) : Prop :=
  (∃ r, m.step st = .done r) ∨ (∃ k, m.step st = .read k ∧ rest = [] ∧ (eof = true ∨ fin = false))

theorem Reach.trans {m : ByteMachine μ} {fin : Bool} {a ea ra o₁ b eb rb o₂ c ec rc}
    (h₁ : Reach m fin a ea ra o₁ b eb rb) (h₂ : Reach m fin b eb rb o₂ c ec rc) : Reach m fin a ea ra (o₁ ++ o₂) c ec rc := by
  induction h₁ with
  | refl => simpa using h₂
  | emit hs _ ih => exact Reach.emit hs (ih h₂)
  | read hs _ ih => exact Reach.read hs (ih h₂)
  | eof hs hf _ ih => exact Reach.eof hs hf (ih h₂)

/-- The trace is linear: two things reachable from the same configuration lie on one path. -/
theorem Reach.linear {m : ByteMachine μ} {fin : Bool} {a ea ra o₁ b eb rb o₂ c ec rc}
    (h₁ : Reach m fin a ea ra o₁ b eb rb) (h₂ : Reach m fin a ea ra o₂ c ec rc) :
    (∃ o', Reach m fin b eb rb o' c ec rc ∧ o₂ = o₁ ++ o') ∨ (∃ o', Reach m fin c ec rc o' b eb rb ∧ o₁ = o₂ ++ o') := by
  induction h₁ generalizing o₂ c ec rc with
  | refl => exact Or.inl ⟨o₂, h₂, by simp⟩
  | @emit st eof rest b nx o st' eof' rest' hs h ih =>
    cases h₂ with
    | refl => exact Or.inr ⟨b :: o, Reach.emit hs h, by simp⟩
    | emit hs' h' =>
      rw [hs] at hs'; cases hs'
      rcases ih h' with ⟨o', hr, he⟩ | ⟨o', hr, he⟩
      · exact Or.inl ⟨o', hr, by simp [he]⟩
      · exact Or.inr ⟨o', hr, by simp [he]⟩
    | read hs' _ => rw [hs] at hs'; cases hs'
    | eof hs' _ _ => rw [hs] at hs'; cases hs'
  | @read st eof rest b k o st' eof' rest' hs h ih =>
    cases h₂ with
    | refl => exact Or.inr ⟨o, Reach.read hs h, by simp⟩
    | emit hs' _ => rw [hs] at hs'; cases hs'
    | read hs' h' =>
      rw [hs] at hs'; cases hs'
      exact ih h'
  | @eof st k o st' eof' rest' hs hf h ih =>
    cases h₂ with
    | refl => exact Or.inr ⟨o, Reach.eof hs hf h, by simp⟩
    | emit hs' _ => rw [hs] at hs'; cases hs'
    | eof hs' _ h' =>
      rw [hs] at hs'; cases hs'
      exact ih h'

theorem Quiescent.reach_eq {m : ByteMachine μ} {fin : Bool} {a ea ra o b eb rb}
    (hq : Quiescent m fin a ea ra) (h : Reach m fin a ea ra o b eb rb) : o = [] ∧ b = a ∧ eb = ea ∧ rb = ra := by
  cases h with
  | refl => exact ⟨rfl, rfl, rfl, rfl⟩
  | emit hs _ =>
    rcases hq with ⟨r, hr⟩ | ⟨k, hk, _⟩
    · rw [hs] at hr; cases hr
    · rw [hs] at hk; cases hk
  | read hs _ =>
    rcases hq with ⟨r, hr⟩ | ⟨k, hk, hnil, _⟩
    · rw [hs] at hr; cases hr
    · cases hnil
  | eof hs hf _ =>
    rcases hq with ⟨r, hr⟩ | ⟨k, hk, _, he⟩
    · rw [hs] at hr; cases hr
    · rcases he with he | he
      · cases he
      · rw [hf] at he; cases he

/-- Two quiescent configurations reachable from the same start are the same, with the same output. -/
theorem Reach.quiescent_unique {m : ByteMachine μ} {fin : Bool} {a ea ra o₁ b eb rb o₂ c ec rc}
    (h₁ : Reach m fin a ea ra o₁ b eb rb) (h₂ : Reach m fin a ea ra o₂ c ec rc)
    (q₁ : Quiescent m fin b eb rb) (q₂ : Quiescent m fin c ec rc) : o₁ = o₂ ∧ b = c ∧ eb = ec ∧ rb = rc := by
  rcases h₁.linear h₂ with ⟨o', hr, he⟩ | ⟨o', hr, he⟩
  · obtain ⟨h0, hb, hE, hR⟩ := q₁.reach_eq hr
    subst h0; exact ⟨by simp [he], hb.symm, hE.symm, hR.symm⟩
  · obtain ⟨h0, hb, hE, hR⟩ := q₂.reach_eq hr
    subst h0; exact ⟨by simp [he], hb, hE, hR⟩

/-- What one `exec` does, in terms of the global semantics. `tail` is the part of the input the call was not shown; if the action
    is `LZMA_FINISH` there is no such part. -/
theorem exec_spec (m : ByteMachine μ) (fin : Bool) (act : Bool) (st : μ) (eof : Bool) (inp : List UInt8) (cap : Nat)
    (tail : List UInt8) (hact : act = true → tail = [] ∧ fin = true) :
    let r := m.exec act st eof inp cap
    Reach m fin st eof (inp ++ tail) r.2.out r.1.1 r.1.2 (inp.drop r.2.consumed ++ tail)
    ∧ r.2.consumed ≤ inp.length ∧ r.2.out.length ≤ cap ∧ r.2.ret = m.retOf r.1.1
    ∧ ((∃ x, m.step r.1.1 = .done x)
        ∨ (∃ b nx, m.step r.1.1 = .emit b nx ∧ r.2.out.length = cap)
        ∨ (∃ k, m.step r.1.1 = .read k ∧ r.2.consumed = inp.length ∧ (act = false ∨ r.1.2 = true))) := by
  induction st, eof, inp, cap using ByteMachine.exec.induct m act with
  | case1 st eof inp cap r hs =>
    rw [ByteMachine.exec, hs]
    refine ⟨by simpa using Reach.refl _ _ _, by simp, by simp, by simp [ByteMachine.retOf, hs], Or.inl ⟨r, by simpa using hs⟩⟩
  | case2 st eof inp b nx hs =>
    rw [ByteMachine.exec, hs]
    refine ⟨by simpa using Reach.refl _ _ _, by simp, by simp, by simp [ByteMachine.retOf, hs], Or.inr (Or.inl ⟨b, nx, by simpa using hs, by simp⟩)⟩
  | case3 st eof inp b nx hs cap' ih =>
    rw [ByteMachine.exec, hs]
    obtain ⟨h1, h2, h3, h4, h5⟩ := ih
    refine ⟨Reach.emit hs h1, h2, by simp; omega, h4, ?_⟩
    rcases h5 with h5 | ⟨b', nx', hb, hl⟩ | h5
    · exact Or.inl h5
    · exact Or.inr (Or.inl ⟨b', nx', hb, by simp [hl]⟩)
    · exact Or.inr (Or.inr h5)
  | case4 st eof cap k hs b rest ih =>
    rw [ByteMachine.exec, hs]
    obtain ⟨h1, h2, h3, h4, h5⟩ := ih
    refine ⟨?_, by simp; omega, h3, h4, ?_⟩
    · simpa using Reach.read hs h1
    · rcases h5 with h5 | h5 | ⟨k', hk, hc, he⟩
      · exact Or.inl h5
      · exact Or.inr (Or.inl h5)
      · exact Or.inr (Or.inr ⟨k', hk, by simp [hc], he⟩)
  | case5 st eof cap k hs hc ih =>
    rw [ByteMachine.exec, hs]
    simp only [hc, if_true]
    have hact' : act = true := by
      cases act <;> simp_all
    have heof : eof = false := by
      cases eof <;> simp_all
    obtain ⟨ht, hf⟩ := hact hact'
    subst ht heof
    obtain ⟨h1, h2, h3, h4, h5⟩ := ih
    have hz : (m.exec act (k none) true [] cap).2.consumed = 0 := by
      have := h2; simp at this; exact this
    refine ⟨?_, h2, h3, h4, h5⟩
    have h1' : Reach m fin (k none) true [] (m.exec act (k none) true [] cap).2.out (m.exec act (k none) true [] cap).1.1
        (m.exec act (k none) true [] cap).1.2 [] := by
      simpa [hz] using h1
    simpa [hz] using Reach.eof hs hf h1'
  | case6 st eof cap k hs hc =>
    rw [ByteMachine.exec, hs]
    simp only [hc]
    refine ⟨by simpa using Reach.refl _ _ _, by simp, by simp, by simp [ByteMachine.retOf, hs], Or.inr (Or.inr ⟨k, by simpa using hs, by simp, ?_⟩)⟩
    cases act <;> cases eof <;> simp_all

/-- Invariant of a sliced run of `ofByteMachine m` started in machine state `s₀` on `input`. -/
structure RunInv (m : ByteMachine μ) (fin : Bool) (s₀ : μ) (input : List UInt8) (r : Run (μ × Bool)) : Prop where
  reach : Reach m fin s₀ false input r.out r.state.1 r.state.2 r.rest
  len : r.consumed + r.rest.length = input.length
  settled : r.settled = true → Quiescent m fin r.state.1 r.state.2 r.rest ∧ r.ret = m.retOf r.state.1

theorem RunInv.init (m : ByteMachine μ) (fin : Bool) (s₀ : μ) (input : List UInt8) :
    RunInv m fin s₀ input (Run.init (s₀, false) input) :=
  ⟨Reach.refl _ _ _, by simp [Run.init], by simp [Run.init]⟩

theorem take_drop_drop (l : List UInt8) (n c : Nat) (hc : c ≤ (l.take n).length) :
    (l.take n).drop c ++ l.drop n = l.drop c := by
  induction l generalizing n c with
  | nil => simp
  | cons x xs ih =>
    cases n with
    | zero => simp at hc; subst hc; simp
    | succ n =>
      cases c with
      | zero => simp
      | succ c =>
        simp only [List.take_succ_cons, List.drop_succ_cons]
        apply ih
        simpa using hc

theorem RunInv.piece {m : ByteMachine μ} {fin : Bool} {s₀ : μ} {input : List UInt8} {r : Run (μ × Bool)}
    (h : RunInv m fin s₀ input r) (inLen cap : Nat) :
    RunInv m fin s₀ input (runPiece (Coder.ofByteMachine m) fin r inLen cap) := by
  have hact : ((if (fin && decide (r.rest.length ≤ inLen)) = true then Action.finish else Action.run) == Action.finish)
      = (fin && decide (r.rest.length ≤ inLen)) := by
    cases hc : (fin && decide (r.rest.length ≤ inLen)) <;> simp <;> decide
  have hspec := exec_spec m fin (fin && decide (r.rest.length ≤ inLen)) r.state.1 r.state.2 (r.rest.take inLen) cap
    (r.rest.drop inLen) (by
      intro hc
      simp only [Bool.and_eq_true, decide_eq_true_eq] at hc
      exact ⟨List.drop_eq_nil_of_le hc.2, hc.1⟩)
  simp only [List.take_append_drop] at hspec
  obtain ⟨h1, h2, h3, h4, h5⟩ := hspec
  rw [take_drop_drop _ _ _ h2] at h1
  refine ⟨?_, ?_, ?_⟩
  · simp only [runPiece, Coder.ofByteMachine, hact]
    exact h.reach.trans h1
  · simp only [runPiece, Coder.ofByteMachine, hact, List.length_drop]
    have := h.len
    have hle : (m.exec (fin && decide (r.rest.length ≤ inLen)) r.state.1 r.state.2 (List.take inLen r.rest) cap).2.consumed
        ≤ r.rest.length := by
      have := h2; simp only [List.length_take] at this; omega
    omega
  · simp only [runPiece, Coder.ofByteMachine, hact]
    intro hs
    refine ⟨?_, h4⟩
    rcases h5 with ⟨x, hx⟩ | ⟨b, nx, hb, hl⟩ | ⟨k, hk, hc, he⟩
    · exact Or.inl ⟨x, hx⟩
    · exfalso
      have hret : (m.exec (fin && decide (r.rest.length ≤ inLen)) r.state.1 r.state.2 (List.take inLen r.rest) cap).2.ret = .ok := by
        rw [h4]; simp [ByteMachine.retOf, hb]
      simp [hret, hl] at hs
    · have hret : (m.exec (fin && decide (r.rest.length ≤ inLen)) r.state.1 r.state.2 (List.take inLen r.rest) cap).2.ret = .ok := by
        rw [h4]; simp [ByteMachine.retOf, hk]
      simp only [hret, ne_eq, not_true_eq_false, decide_false, Bool.false_or, Bool.and_eq_true, decide_eq_true_eq] at hs
      refine Or.inr ⟨k, hk, ?_, ?_⟩
      · rw [hc]
        apply List.drop_eq_nil_of_le
        simp only [List.length_take]; omega
      · rcases he with he | he
        · right
          simp only [Bool.and_eq_false_iff, decide_eq_false_iff_not] at he
          rcases he with he | he
          · exact he
          · exact absurd hs.1 he
        · exact Or.inl he

theorem RunInv.sliced {m : ByteMachine μ} {fin : Bool} {s₀ : μ} {input : List UInt8} (sl : List (Nat × Nat))
    {r : Run (μ × Bool)} (h : RunInv m fin s₀ input r) :
    RunInv m fin s₀ input (runSliced (Coder.ofByteMachine m) fin sl r) := by
  induction sl generalizing r with
  | nil => simpa [runSliced] using h
  | cons p sl ih =>
    obtain ⟨inLen, cap⟩ := p
    simp only [runSliced]
    split
    · exact h
    · exact ih (h.piece inLen cap)

end XzVerif.Coder
