/-
  Helper lemmas for C03/C04: range decoder cores (Model/RangeDec.lean). Core Lean only.
-/
import XzVerif.Model.RangeDec

namespace XzVerif.RangeDec

/-- the decoder is normalised: `RC_TOP_VALUE ≤ range < 2^32` -/
structure RcNorm (rc : Rc) : Prop where
  lo : RC_TOP_VALUE ≤ rc.range
  hi : rc.range < U32

/-- what every operation leaves behind: one normalisation step restores `RcNorm` -/
structure RcWeak (rc : Rc) : Prop where
  lo : 65536 ≤ rc.range
  hi : rc.range < U32

theorem probInv_init : ProbInv PROB_INIT := by decide

theorem probInv_update0 {p : Nat} (h : ProbInv p) : ProbInv (probUpdate0 p) := by
  unfold ProbInv probUpdate0 at *; simp only [RC_BIT_MODEL_TOTAL]; omega

theorem probInv_update1 {p : Nat} (h : ProbInv p) : ProbInv (probUpdate1 p) := by
  unfold ProbInv probUpdate1 at *; omega

/-- the bounds are attained: 31 and 2017 are fixed points of the respective rule -/
theorem prob_bounds_tight : probUpdate1 31 = 31 ∧ probUpdate0 2017 = 2017 ∧ probUpdate1 32 = 31 ∧ probUpdate0 2016 = 2017 := by
  decide

theorem rcNorm_weak {rc : Rc} (h : RcNorm rc) : RcWeak rc := ⟨by have := h.lo; simp only [RC_TOP_VALUE] at this; omega, h.hi⟩

/-- `rc_normalize`: from a weakly bounded range one step gives a normalised range; `code < range` is kept and nothing wraps. -/
theorem normalize_spec (rc : Rc) (b : Nat) (hb : b < 256) (hw : RcWeak rc) :
    let rc' := if rc.needsByte then rc.shiftIn b else rc
    RcNorm rc' ∧ (rc.code < rc.range → rc'.code < rc'.range) ∧ (rc.code < U32 → rc'.code < U32) := by
  have hlo := hw.lo; have hhi := hw.hi
  simp only [Rc.needsByte, Rc.shiftIn, RC_TOP_VALUE, U32, decide_eq_true_eq] at *
  by_cases h : rc.range < 16777216
  · simp only [h, if_true]
    refine ⟨⟨?_, ?_⟩, ?_, ?_⟩
    · simp only [RC_TOP_VALUE]; omega
    · simp only [U32]; omega
    · intro hc; omega
    · intro hc; omega
  · simp only [h, if_false]
    exact ⟨⟨by simp only [RC_TOP_VALUE]; omega, by simp only [U32]; omega⟩, fun hc => hc, fun hc => hc⟩

/-- `rc_if_0 / rc_update_0 / rc_update_1` on a normalised decoder with a probability in range:
    the probability stays in range, the range stays ≥ 2^16 and strictly shrinks (termination measure), nothing wraps,
    `code < range` is kept and the code does not grow. -/
theorem bitCore_spec (rc : Rc) (p : Nat) (hn : RcNorm rc) (hp : ProbInv p) :
    ProbInv (bitCore rc p).2.2
    ∧ RcWeak (bitCore rc p).2.1
    ∧ (bitCore rc p).2.1.range < rc.range
    ∧ (rc.code < rc.range → (bitCore rc p).2.1.code < (bitCore rc p).2.1.range)
    ∧ (bitCore rc p).2.1.code ≤ rc.code
    ∧ (bitCore rc p).1 ≤ 1 := by
  have hlo := hn.lo; have hhi := hn.hi
  have hp' := hp
  unfold ProbInv at hp'
  simp only [RC_TOP_VALUE, U32] at hlo hhi
  -- bound = q * p with q = range / 2048
  have hq1 : 31 * (rc.range / 2048) ≤ (rc.range / 2048) * p := by
    rw [Nat.mul_comm]; exact Nat.mul_le_mul_left _ hp'.1
  have hq2 : (rc.range / 2048) * p ≤ (rc.range / 2048) * 2017 := Nat.mul_le_mul_left _ hp'.2
  unfold bitCore rcBound
  simp only [RC_BIT_MODEL_TOTAL]
  generalize hbd : (rc.range / 2048) * p = bound at *
  by_cases hc : rc.code < bound
  · simp only [hc, if_true]
    refine ⟨probInv_update0 hp, ⟨?_, ?_⟩, ?_, ?_, ?_, ?_⟩
    · show 65536 ≤ bound; omega
    · show bound < U32; simp only [U32]; omega
    · show bound < rc.range; omega
    · intro _; trivial
    · show rc.code ≤ rc.code; omega
    · show 0 ≤ 1; omega
  · simp only [hc, if_false]
    refine ⟨probInv_update1 hp, ⟨?_, ?_⟩, ?_, ?_, ?_, ?_⟩
    · show 65536 ≤ rc.range - bound; omega
    · show rc.range - bound < U32; simp only [U32]; omega
    · show rc.range - bound < rc.range; omega
    · intro _; show rc.code - bound < rc.range - bound; omega
    · show rc.code - bound ≤ rc.code; omega
    · show 1 ≤ 1; omega

/-- `rc_direct` (one bit) on a normalised decoder: the range is halved; if the code lies in the doubled half range
    (which every validly encoded stream guarantees) `code < range` is kept; from `code < range` alone one gets `code ≤ range`. -/
theorem directCore_spec (rc : Rc) (hn : RcNorm rc) :
    (directCore rc).2.range = rc.range / 2
    ∧ RcWeak (directCore rc).2
    ∧ (rc.code < 2 * (rc.range / 2) → (directCore rc).2.code < (directCore rc).2.range)
    ∧ (rc.code < rc.range → (directCore rc).2.code ≤ (directCore rc).2.range)
    ∧ (directCore rc).1 ≤ 1 := by
  have hlo := hn.lo; have hhi := hn.hi
  simp only [RC_TOP_VALUE, U32] at hlo hhi
  unfold directCore
  simp only [U32]
  by_cases hs : (rc.code + 4294967296 - rc.range / 2) % 4294967296 / 2147483648 = 1
  · simp only [hs, if_true]
    refine ⟨trivial, ⟨?_, ?_⟩, ?_, ?_, ?_⟩ <;> (try simp only [U32]) <;> omega
  · simp only [hs, if_false]
    refine ⟨trivial, ⟨?_, ?_⟩, ?_, ?_, ?_⟩ <;> (try simp only [U32]) <;> omega

/-- `rc_reset` + `rc_read_init`: the decoder starts normalised with a 32-bit code. -/
theorem readInit_spec (inp : List UInt8) (rc : Rc) (rest : List UInt8) (h : readInit inp = .ok rc rest) :
    RcNorm rc ∧ rc.code < U32 ∧ inp.length = rest.length + 5 ∧ inp.head? = some 0 := by
  unfold readInit at h
  split at h
  · next b0 rest0 =>
    split at h
    · cases h
    · next hb =>
      split at h
      · next b1 b2 b3 b4 rest' =>
        injection h with h1 h2
        subst h1; subst h2
        have h0 : b0 = 0 := by simpa using hb
        refine ⟨⟨?_, ?_⟩, ?_, ?_, ?_⟩
        · simp [Rc.initByte, Rc.reset, RC_TOP_VALUE, UINT32_MAX]
        · simp [Rc.initByte, Rc.reset, U32, UINT32_MAX]
        · simp only [Rc.initByte, Rc.reset, U32]
          have := b4.toNat_lt
          omega
        · simp
        · simp [h0]
      · cases h
  · cases h

end XzVerif.RangeDec
