/-
  Helper lemmas for C09: allocation of `lzma_index` by append histories vs. `lzma_index_memusage`.
-/
import XzVerif.Model.Memusage
import XzVerif.Lemmas.Memusage

namespace XzVerif.Memusage

/-- Groups that are completely used and have the default size. -/
def FullGroups (l : List IdxGroup) : Prop := ∀ g ∈ l, g.allocated = INDEX_GROUP_SIZE ∧ g.used = INDEX_GROUP_SIZE

/-- Shape of a Stream after `k` appends with the default group size: the rightmost group is partly used, all others full. -/
def SInv : List IdxGroup → Nat → Prop
  | [], k => k = 0
  | g :: rest, k => g.allocated = INDEX_GROUP_SIZE ∧ 1 ≤ g.used ∧ g.used ≤ INDEX_GROUP_SIZE ∧ FullGroups rest
                    ∧ k = g.used + INDEX_GROUP_SIZE * rest.length

theorem appendToStream_inv (s : List IdxGroup) (k : Nat) (h : SInv s k) :
    SInv (appendToStream s INDEX_GROUP_SIZE).1 (k + 1) := by
  cases s with
  | nil =>
    simp only [SInv] at h
    subst h
    simp [appendToStream, SInv, FullGroups, INDEX_GROUP_SIZE]
  | cons g rest =>
    obtain ⟨ha, h1, h2, hf, hk⟩ := h
    simp only [appendToStream]
    split
    · rename_i hlt
      refine ⟨ha, by simp, by simp; omega, hf, ?_⟩
      simp; omega
    · rename_i hge
      have hu : g.used = INDEX_GROUP_SIZE := by omega
      refine ⟨rfl, by simp, by simp [INDEX_GROUP_SIZE], ?_, ?_⟩
      · intro x hx
        cases hx with
        | head => exact ⟨ha, hu⟩
        | tail _ hx' => exact hf x hx'
      · simp only [List.length_cons]; rw [Nat.mul_succ]; omega

/-- Shape of an index built by `lzma_index_init` + appends only (one Stream, default group size). -/
def IInv (i : Idx) (k : Nat) : Prop := ∃ s, i.streams = [s] ∧ i.prealloc = INDEX_GROUP_SIZE ∧ SInv s k

theorem init_inv : IInv Idx.init 0 := ⟨[], rfl, rfl, rfl⟩

theorem append_inv (b : Build) (i : Idx) (k : Nat) (h : IInv i k) : IInv (i.append b).1 (k + 1) := by
  obtain ⟨s, hs, hp, hi⟩ := h
  have h' := appendToStream_inv s k hi
  cases i with
  | mk streams prealloc =>
    simp only at hs hp
    subst hs; subst hp
    simp only [Idx.append]
    cases hr : appendToStream s INDEX_GROUP_SIZE with
    | mk s' a =>
      rw [hr] at h'
      cases a with
      | none => exact ⟨s', rfl, rfl, h'⟩
      | some p => exact ⟨s', rfl, rfl, h'⟩

theorem appendN_inv (b : Build) : ∀ (n : Nat) (i : Idx) (k : Nat), IInv i k → IInv (Idx.appendN b n i).1 (k + n)
  | 0, i, k, h => by simpa [Idx.appendN] using h
  | n + 1, i, k, h => by
    have h1 := append_inv b i k h
    have h2 := appendN_inv b n (i.append b).1 (k + 1) h1
    simp only [Idx.appendN]
    have : k + (n + 1) = k + 1 + n := by omega
    rw [this]
    exact h2

theorem sum_groupBytes_full (b : Build) (l : List IdxGroup) (h : ∀ g ∈ l, g.allocated = INDEX_GROUP_SIZE) :
    (l.map (groupBytes b)).sum = l.length * (b.szIndexGroup + INDEX_GROUP_SIZE * b.szIndexRecord) := by
  induction l with
  | nil => simp
  | cons g rest ih =>
    have hg := h g (List.mem_cons_self ..)
    have hr := ih (fun x hx => h x (List.mem_cons_of_mem _ hx))
    simp only [List.map_cons, List.sum_cons, List.length_cons, hr, groupBytes, hg]
    rw [Nat.succ_mul]; omega

theorem sum_used_full (l : List IdxGroup) (h : FullGroups l) : (l.map (·.used)).sum = INDEX_GROUP_SIZE * l.length := by
  induction l with
  | nil => simp
  | cons g rest ih =>
    have hg := (h g (List.mem_cons_self ..)).2
    have hr := ih (fun x hx => h x (List.mem_cons_of_mem _ hx))
    simp only [List.map_cons, List.sum_cons, List.length_cons, hr, hg]
    rw [Nat.mul_succ]; omega

/-- With the shape invariant: the number of groups is ceil(k / 512), every group has the default size, and the
    Records add up to k. -/
theorem sinv_facts (b : Build) (s : List IdxGroup) (k : Nat) (h : SInv s k) :
    s.length = (k + INDEX_GROUP_SIZE - 1) / INDEX_GROUP_SIZE
    ∧ (s.map (groupBytes b)).sum = s.length * (b.szIndexGroup + INDEX_GROUP_SIZE * b.szIndexRecord)
    ∧ streamBlocks s = k := by
  cases s with
  | nil =>
    simp only [SInv] at h; subst h
    simp [INDEX_GROUP_SIZE, streamBlocks]
  | cons g rest =>
    obtain ⟨ha, h1, h2, hf, hk⟩ := h
    refine ⟨?_, ?_, ?_⟩
    · simp only [List.length_cons, INDEX_GROUP_SIZE] at *
      omega
    · apply sum_groupBytes_full
      intro x hx
      cases hx with
      | head => exact ha
      | tail _ hx' => exact (hf x hx').1
    · simp only [streamBlocks, List.map_cons, List.sum_cons, sum_used_full rest hf]
      omega

end XzVerif.Memusage
