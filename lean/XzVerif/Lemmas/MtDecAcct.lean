/-
  Exact memory accounting of the threaded-decoder model and the invariant stated in read_output_and_wait(): if the output
  queue is empty, the next threaded Block can start now (input is possible).
-/
import XzVerif.Lemmas.MtDecProgress3
import XzVerif.Lemmas.MtDecMem

namespace XzVerif.MtDec

/-- What SEQ_BLOCK_INIT guarantees about a Block it sends to the threaded path: mem_next_block fits memlimit_threading. -/
def Block.FitsMem (cfg : Cfg) (b : Block) : Prop := b.kind = .thr → b.memThr + b.memOut ≤ cfg.memLimit

/-- Memory a worker accounts for in coder->mem_in_use: it owns an outbuf, or it failed (failed workers keep their memory). -/
def wMemB (bs : List Block) (w : Worker) : Nat := if w.hasOut || w.failed then (bs.getD w.blk default).memThr else 0

def memSum (s : State) : Nat := (s.workers.map (wMemB s.blocks)).sum

/-- mem_next_in + mem_next_filters of the Block being started, between the counter update and the outbuf assignment. -/
def pendThr (s : State) : Nat :=
  match s.pc with
  | .init2 => (blk s s.cur).memThr
  | .init3 => (blk s s.cur).memThr
  | _ => 0

theorem sum_map_set {α : Type} (f : α → Nat) : ∀ (l : List α) (i : Nat) (x : α) (hi : i < l.length),
    ((l.set i x).map f).sum + f l[i] = (l.map f).sum + f x
  | a :: t, 0, x, _ => by simp; omega
  | a :: t, i + 1, x, hi => by
    have := sum_map_set f t i x (by simpa using hi)
    simp only [List.set_cons_succ, List.map_cons, List.sum_cons, List.getElem_cons_succ]
    omega

theorem getW_eq_getElem (s : State) (i : Nat) (hi : i < s.workers.length) : getW s i = s.workers[i] := by
  simp [getW, List.getD, List.getElem?_eq_getElem hi]

theorem memSum_setW (s : State) (i : Nat) (w : Worker) (hi : i < s.workers.length) :
    memSum (setW s i w) + wMemB s.blocks (getW s i) = memSum s + wMemB s.blocks w := by
  rw [getW_eq_getElem s i hi]
  exact sum_map_set (wMemB s.blocks) s.workers i w hi

theorem memSum_setW_same (s : State) (i : Nat) (w : Worker) (hi : i < s.workers.length)
    (h : wMemB s.blocks w = wMemB s.blocks (getW s i)) : memSum (setW s i w) = memSum s := by
  have := memSum_setW s i w hi; omega

theorem sum_zero_of_all {α : Type} (f : α → Nat) (l : List α) (h : ∀ x ∈ l, f x = 0) : (l.map f).sum = 0 := by
  induction l with
  | nil => rfl
  | cons a t ih =>
    simp only [List.map_cons, List.sum_cons]
    rw [h a (by simp), ih (fun x hx => h x (by simp [hx]))]

theorem memSum_zero (s : State) (h : ∀ i, i < s.workers.length → (getW s i).hasOut = false ∧ (getW s i).failed = false) :
    memSum s = 0 := by
  apply sum_zero_of_all
  intro w hw
  obtain ⟨i, hi, rfl⟩ := List.getElem_of_mem hw
  have := h i hi
  rw [getW_eq_getElem s i hi] at this
  simp [wMemB, this.1, this.2]

structure AcctInv (s : State) : Prop where
  acct : s.memInUse = memSum s + pendThr s
  cover : ∀ i, i < s.workers.length → (getW s i).hasOut = true ∨ (getW s i).failed = true ∨ i ∈ s.threadsFree ∨
    (s.pc = .init3 ∧ s.thr = some i)
  failedErr : ∀ i, i < s.workers.length → (getW s i).failed = true → s.threadError ≠ OK
  thrClean : s.pc = .init3 → ∀ t, s.thr = some t → (getW s t).failed = false

theorem AcctInv.init (cfg : Cfg) (blocks : List Block) : AcctInv (init cfg blocks) := by
  constructor <;> simp [MtDec.init, memSum, pendThr]

theorem pendThr_congr {s s' : State} (e1 : s'.pc = s.pc) (e2 : s'.blocks = s.blocks) (e3 : s'.cur = s.cur) :
    pendThr s' = pendThr s := by
  unfold pendThr blk; rw [e1, e2, e3]

/-- Worker steps other than the final publication change neither ownership nor the failure flag. -/
theorem AcctInv.setW {s : State} (h : AcctInv s) (i : Nat) (hi : i < s.workers.length) (w : Worker)
    (e1 : w.hasOut = (getW s i).hasOut) (e2 : w.failed = (getW s i).failed) (e3 : w.blk = (getW s i).blk) :
    AcctInv (MtDec.setW s i w) := by
  have hm : memSum (MtDec.setW s i w) = memSum s := memSum_setW_same s i w hi (by simp [wMemB, e1, e2, e3])
  have eg : ∀ j, getW (MtDec.setW s i w) j = if i = j then w else getW s j := fun j => getW_setW s i j w hi
  refine ⟨?_, ?_, ?_, ?_⟩
  · show s.memInUse = memSum (MtDec.setW s i w) + pendThr (MtDec.setW s i w)
    have hp : pendThr (MtDec.setW s i w) = pendThr s := pendThr_congr rfl rfl rfl
    rw [hm, hp]; exact h.acct
  · intro j hj
    simp only [setW_workers_length] at hj
    rw [eg]
    by_cases e : i = j
    · subst e; simp only [if_true, e1, e2]; exact h.cover i hj
    · simp only [e, if_false]; exact h.cover j hj
  · intro j hj
    simp only [setW_workers_length] at hj
    rw [eg]
    by_cases e : i = j
    · subst e; simp only [if_true, e2]; exact h.failedErr i hj
    · simp only [e, if_false]; exact h.failedErr j hj
  · intro hp t ht
    rw [eg]
    by_cases e : i = t
    · subst e; simp only [if_true, e2]; exact h.thrClean hp i ht
    · simp only [e, if_false]; exact h.thrClean hp t ht

/-- Same for a state that differs from `setW s i w` in fields the invariant does not look at. -/
theorem AcctInv.congr {s s' : State} (h : AcctInv s) (e1 : s'.workers = s.workers) (e2 : s'.blocks = s.blocks)
    (e3 : s'.pc = s.pc) (e4 : s'.cur = s.cur) (e5 : s'.memInUse = s.memInUse) (e6 : s'.threadsFree = s.threadsFree)
    (e7 : s'.thr = s.thr) (e8 : s'.threadError = s.threadError) : AcctInv s' := by
  have eg : ∀ j, getW s' j = getW s j := fun j => by simp [getW, e1]
  have hm : memSum s' = memSum s := by simp [memSum, e1, e2]
  refine ⟨by rw [e5, hm, pendThr_congr e3 e2 e4]; exact h.acct, ?_, ?_, ?_⟩
  · intro j hj; rw [e1] at hj; rw [eg, e6, e3, e7]; exact h.cover j hj
  · intro j hj; rw [e1] at hj; rw [eg, e8]; exact h.failedErr j hj
  · intro hp t ht; rw [eg]; exact h.thrClean (e3 ▸ hp) t (e7 ▸ ht)

theorem AcctInv.wFin3 {s s' : State} {i : Nat} (h : AcctInv s) (hI : Inv s) (hi : i < s.workers.length)
    (hs : step s (.wFin3 i) = some s') : AcctInv s' := by
  simp only [step] at hs
  simp only [hi, if_true] at hs
  split at hs
  case h_2 => cases hs
  rename_i r hpc
  have hw := (hI.1.wk i hi).pcInv
  rw [hpc] at hw
  obtain ⟨hown, _, hr, _, _⟩ := hw
  have hrOK : r ≠ OK := by rw [hr]; exact (blk_wf hI.1 _).1
  have eg : ∀ (w : Worker) j, getW (MtDec.setW s i w) j = if i = j then w else getW s j := fun w j => getW_setW s i j w hi
  have hms := memSum_setW s i { getW s i with hasOut := false, failed := r != END, pc := .top } hi
  have hold : wMemB s.blocks (getW s i) = (blk s (getW s i).blk).memThr := by simp [wMemB, hown, blk]
  by_cases hend : r = END
  · subst hend
    cases hs
    have hnew : wMemB s.blocks { getW s i with hasOut := false, failed := END != END, pc := .top } = 0 := by simp [wMemB]
    refine ⟨?_, ?_, ?_, ?_⟩
    · show s.memInUse - (blk s (getW s i).blk).memThr
          = memSum (MtDec.setW s i { getW s i with hasOut := false, failed := END != END, pc := .top }) + pendThr s
      have := h.acct
      omega
    · intro j hj
      have hj' : j < s.workers.length := by simpa using hj
      show (getW (MtDec.setW s i _) j).hasOut = true ∨ (getW (MtDec.setW s i _) j).failed = true ∨ j ∈ i :: s.threadsFree ∨ _
      rw [eg]
      by_cases e : i = j
      · subst e; exact Or.inr (Or.inr (Or.inl (by simp)))
      · simp only [e, if_false]
        rcases h.cover j hj' with c | c | c | c
        · exact Or.inl c
        · exact Or.inr (Or.inl c)
        · exact Or.inr (Or.inr (Or.inl (by simp [c])))
        · exact Or.inr (Or.inr (Or.inr c))
    · intro j hj
      have hj' : j < s.workers.length := by simpa using hj
      show (getW (MtDec.setW s i _) j).failed = true → s.threadError ≠ OK
      rw [eg]
      by_cases e : i = j
      · subst e; simp
      · simp only [e, if_false]; exact h.failedErr j hj'
    · intro hp t ht
      show (getW (MtDec.setW s i _) t).failed = false
      rw [eg]
      by_cases e : i = t
      · subst e; simp
      · simp only [e, if_false]; exact h.thrClean hp t ht
  · have hne : (r != END) = true := by simpa using hend
    simp only [hend, if_false, hne, Bool.true_and] at hs
    have hnew : wMemB s.blocks { getW s i with hasOut := false, failed := true, pc := .top } = (blk s (getW s i).blk).memThr := by
      simp [wMemB, blk]
    rw [hne] at hms
    have key : ∀ te, (te ≠ OK) → AcctInv (signalMain { MtDec.setW s i { getW s i with hasOut := false, failed := true, pc := .top } with
        queue := updOut s.queue (getW s i).blk fun o => { o with pos := (getW s i).outPos, decInPos := (getW s i).inPos, finished := true, finishRet := r },
        threadError := te }) := by
      intro te hte
      refine ⟨?_, ?_, ?_, ?_⟩
      · show s.memInUse = memSum (MtDec.setW s i _) + pendThr s
        have := h.acct
        omega
      · intro j hj
        have hj' : j < s.workers.length := by simpa using hj
        show (getW (MtDec.setW s i _) j).hasOut = true ∨ (getW (MtDec.setW s i _) j).failed = true ∨ j ∈ s.threadsFree ∨ _
        rw [eg]
        by_cases e : i = j
        · subst e; exact Or.inr (Or.inl (by simp))
        · simp only [e, if_false]; exact h.cover j hj'
      · intro j hj _
        exact hte
      · intro hp t ht
        show (getW (MtDec.setW s i _) t).failed = false
        rw [eg]
        by_cases e : i = t
        · subst e
          -- coder->thr at init3 is idle, so it cannot be at fin3
          exfalso
          obtain ⟨t', ht', _, hidle, _⟩ := hI.2.init3 hp
          have ht2 : s.thr = some i := ht
          rw [ht2] at ht'; cases ht'
          rw [hpc] at hidle; exact hidle
        · simp only [e, if_false]; exact h.thrClean hp t ht
    split at hs
    · cases hs; exact key r hrOK
    · rename_i hte
      cases hs
      exact key s.threadError (by intro hc; simp [hc] at hte)

theorem AcctInv.worker {s s' : State} {l : Label} {i : Nat} (h : AcctInv s) (hI : Inv s) (hl : l.worker? = some i)
    (hs : step s l = some s') : AcctInv s' := by
  have hi := (workerShape hl hs).hi
  cases l <;> simp only [Label.worker?, Option.some.injEq, reduceCtorEq] at hl <;> subst hl <;> simp only [step] at hs
  case wFin3 i => exact h.wFin3 hI hi hs
  all_goals (repeat' split at hs)
  all_goals first | (cases hs; done) | skip
  all_goals (cases hs)
  all_goals first
    | (apply AcctInv.setW h _ hi <;> first | rfl | (simp only [workerDecide]; split <;> (try split) <;> rfl))
    | (refine AcctInv.congr (h.setW _ hi _ ?_ ?_ ?_) rfl rfl rfl rfl rfl rfl rfl rfl <;> rfl)

-- ---------------------------------------------------------------------------------------------
-- main-thread steps
-- ---------------------------------------------------------------------------------------------

/-- `b` agrees with `a` on everything the accounting invariant reads except pc / cur / thr. -/
structure AcctCore (a b : State) : Prop where
  blocks : b.blocks = a.blocks
  mem : b.memInUse = a.memInUse
  free : b.threadsFree = a.threadsFree
  terr : b.threadError = a.threadError
  len : b.workers.length = a.workers.length
  pw : ∀ j, (getW b j).hasOut = (getW a j).hasOut ∧ (getW b j).failed = (getW a j).failed ∧ (getW b j).blk = (getW a j).blk

theorem AcctCore.refl (a : State) : AcctCore a a := ⟨rfl, rfl, rfl, rfl, rfl, fun _ => ⟨rfl, rfl, rfl⟩⟩

theorem AcctCore.trans {a b c : State} (h1 : AcctCore a b) (h2 : AcctCore b c) : AcctCore a c :=
  ⟨h2.blocks.trans h1.blocks, h2.mem.trans h1.mem, h2.free.trans h1.free, h2.terr.trans h1.terr, h2.len.trans h1.len,
   fun j => ⟨(h2.pw j).1.trans (h1.pw j).1, (h2.pw j).2.1.trans (h1.pw j).2.1, (h2.pw j).2.2.trans (h1.pw j).2.2⟩⟩

theorem AcctCore.fields {a b : State} (e1 : b.workers = a.workers) (e2 : b.blocks = a.blocks) (e3 : b.memInUse = a.memInUse)
    (e4 : b.threadsFree = a.threadsFree) (e5 : b.threadError = a.threadError) : AcctCore a b :=
  ⟨e2, e3, e4, e5, by rw [e1], fun j => by simp [getW, e1]⟩

theorem AcctCore.setW (s : State) (i : Nat) (w : Worker) (e1 : w.hasOut = (getW s i).hasOut)
    (e2 : w.failed = (getW s i).failed) (e3 : w.blk = (getW s i).blk) : AcctCore s (MtDec.setW s i w) := by
  refine ⟨rfl, rfl, rfl, rfl, by simp, ?_⟩
  intro j
  by_cases hi : i < s.workers.length
  · rw [getW_setW s i j w hi]
    by_cases e : i = j
    · subst e; simp [e1, e2, e3]
    · simp [e]
  · have : (MtDec.setW s i w).workers = s.workers := by
      simp only [MtDec.setW]; exact List.set_eq_of_length_le (by omega)
    simp [getW, this]

theorem memSum_core {a b : State} (c : AcctCore a b) : memSum b = memSum a := by
  unfold memSum
  congr 1
  apply List.ext_getElem
  · simp [c.len]
  · intro j h1 h2
    simp only [List.length_map] at h1 h2
    simp only [List.getElem_map]
    have := c.pw j
    rw [getW_eq_getElem b j h1, getW_eq_getElem a j h2] at this
    simp [wMemB, this.1, this.2.1, this.2.2, c.blocks]

theorem AcctInv.ofCore {a b : State} (h : AcctInv a) (c : AcctCore a b) (p2 : a.pc ≠ .init2) (p3 : a.pc ≠ .init3)
    (q2 : b.pc ≠ .init2) (q3 : b.pc ≠ .init3) : AcctInv b := by
  have ha : pendThr a = 0 := by unfold pendThr; split <;> simp_all
  have hb : pendThr b = 0 := by unfold pendThr; split <;> simp_all
  refine ⟨by rw [c.mem, memSum_core c, hb, ← ha]; exact h.acct, ?_, ?_, fun hp => absurd hp q3⟩
  · intro j hj
    rw [c.len] at hj
    rw [(c.pw j).1, (c.pw j).2.1, c.free]
    rcases h.cover j hj with x | x | x | x
    · exact Or.inl x
    · exact Or.inr (Or.inl x)
    · exact Or.inr (Or.inr (Or.inl x))
    · exact absurd x.1 p3
  · intro j hj
    rw [c.len] at hj
    rw [(c.pw j).2.1, c.terr]
    exact h.failedErr j hj

theorem enablePartialHead_acct (s : State) : AcctCore s (enablePartialHead s) ∧ (enablePartialHead s).pc = s.pc := by
  unfold enablePartialHead
  split
  · split
    · split
      · rename_i w _
        exact ⟨(AcctCore.setW s w (signalW { getW s w with pu := .start }) rfl rfl rfl).trans
          (AcctCore.fields rfl rfl rfl rfl rfl), rfl⟩
      · exact ⟨AcctCore.refl s, rfl⟩
    · exact ⟨AcctCore.refl s, rfl⟩
  · exact ⟨AcctCore.refl s, rfl⟩

theorem outqRead_acct (s : State) : AcctCore s (outqRead s).1 ∧ (outqRead s).1.pc = s.pc := by
  unfold outqRead
  split
  · exact ⟨AcctCore.refl s, rfl⟩
  · dsimp only
    split
    · exact ⟨AcctCore.fields rfl rfl rfl rfl rfl, rfl⟩
    · exact ⟨AcctCore.fields rfl rfl rfl rfl rfl, rfl⟩

theorem readLoop_acct : ∀ (n : Nat) (s : State), AcctCore s (readLoop n s).1 ∧ (readLoop n s).1.pc = s.pc
  | 0, s => ⟨AcctCore.refl s, rfl⟩
  | n + 1, s => by
    unfold readLoop
    have h1 := outqRead_acct s
    generalize outqRead s = p at h1 ⊢
    obtain ⟨s1, r⟩ := p
    dsimp only at h1 ⊢
    split
    · have h2 := enablePartialHead_acct s1
      have h3 := readLoop_acct n (enablePartialHead s1)
      exact ⟨(h1.1.trans h2.1).trans h3.1, h3.2.trans (h2.2.trans h1.2)⟩
    · exact h1

theorem rowIterate_acct (s : State) (k : RowK) (w : Bool) : AcctCore s (rowIterate s k w) := by
  have r := (readLoop_acct (s.queue.length + 1) s).1
  unfold rowIterate
  dsimp only
  split
  · exact r.trans (AcctCore.fields rfl rfl rfl rfl rfl)
  · have m : AcctCore (readLoop (s.queue.length + 1) s).1 (markFilled (readLoop (s.queue.length + 1) s).1 s.outCap) := by
      unfold markFilled; split
      · exact AcctCore.fields rfl rfl rfl rfl rfl
      · exact AcctCore.refl _
    split
    · exact (r.trans m).trans (AcctCore.fields rfl rfl rfl rfl rfl)
    · have f : AcctCore (markFilled (readLoop (s.queue.length + 1) s).1 s.outCap)
          (flagPend (markFilled (readLoop (s.queue.length + 1) s).1 s.outCap)) := by
        unfold flagPend; split
        · exact AcctCore.fields rfl rfl rfl rfl rfl
        · exact AcctCore.refl _
      refine ((r.trans m).trans f).trans ?_
      unfold rowLeaveOrWait
      repeat' split
      all_goals exact AcctCore.fields rfl rfl rfl rfl rfl

end XzVerif.MtDec
