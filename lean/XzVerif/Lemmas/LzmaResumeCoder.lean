/-
  C06 — the raw LZMA1 / LZMA2 decoders as instances of the generic coder framework (`Coder.Coder`, `Coder.runSliced` of
  Model/Coder.lean): `lzCoder kind` (Model/LzmaResumeCoder.lean) builds the per-call window of the call-level model `callR` from the
  decoder state and the offered slice.
   * `runSliced_lzCoder_eq` (via `piece_link`, `sliced_link`, invariant `Link`): a `Coder.runSliced` run over `lzCoder kind` from a fresh
     decoder IS the exact-window run `runSlicedX` (same state, status, `settled`, consumed count, output, rest of the input);
   * `lzma2Coder_slicing_independent`, `lzma1Coder_slicing_independent`: the slicing theorems of Props/C06Slice.lean
     (`lzma2_window_slicing_independent`, `lzma1_window_slicing_independent_any`) restated for `Coder.runSliced`;
   * `lzCoder_call_wellFormed`: along such runs a call consumes at most the offered slice and writes at most the capacity
     (`Coder.WellFormed` quantifies over ALL states, also ones no run reaches, and is not claimed).
  Core Lean only.
-/
import XzVerif.Props.C06Slice
import XzVerif.Model.LzmaResumeCoder

namespace XzVerif.LzmaR
open XzVerif XzVerif.RangeDec XzVerif.LzDict XzVerif.Lzma XzVerif.Lzma2

theorem callOut_eq_newOut : callOut = newOut := rfl

/-! ### byte-array facts -/

theorem toBuf_append (a b : List UInt8) : toBuf a ++ toBuf b = toBuf (a ++ b) := by
  apply ByteArray.ext
  rw [ByteArray.data_append]
  show a.toArray ++ b.toArray = (a ++ b).toArray
  simp

theorem toBuf_extract (l : List UInt8) (k : Nat) : (toBuf l).extract 0 k = toBuf (l.take k) := by
  apply ByteArray.ext
  rw [ByteArray.data_extract]
  show l.toArray.extract 0 k = (l.take k).toArray
  simp

/-- consumed bytes of the previous window ++ the offered slice = the window of the piece -/
theorem window_eq (input : List UInt8) (n k m : Nat) (hk : k ≤ n) :
    (toBuf (input.take n)).extract 0 k ++ toBuf ((input.drop k).take m) = toBuf (input.take (min (k + m) input.length)) := by
  rw [toBuf_extract, toBuf_append, List.take_take, Nat.min_eq_left hk, ← List.take_add]
  congr 1
  by_cases h : k + m ≤ input.length
  · rw [Nat.min_eq_left h]
  · rw [Nat.min_eq_right (by omega), List.take_of_length_le (by omega), List.take_of_length_le (Nat.le_refl _)]

theorem callOut_length (old new : RSt) : (callOut old new).length = new.s.hist.size - old.s.hist.size := by
  unfold callOut histFrom
  rw [List.length_drop]
  show new.s.hist.data.toList.length - _ = new.s.hist.data.size - _
  simp

/-! ### the input position never moves backwards -/

theorem post_inPos (N : Nat) (c : Ret × RSt) : (post N c).1.2.s.inPos = c.2.s.inPos := by
  unfold post
  split <;> rfl

theorem dB_inPos_mono_w {P : RSt → Prop} {code : RSt → Ret × RSt} (hc : CodeAbsorb P code) (hw : CodeWrap P code) {N : Nat}
    {b : ByteArray} : ∀ (f : Nat) (r : RSt), InvW P r b N → nuW r b N < f →
      r.s.inPos ≤ (decodeBufferR code f N (r.withInp b)).2.s.inPos
  | 0, r, _, hf => by omega
  | f + 1, r, hi, hf => by
    rw [dB_succ, prep_w]
    have st := iter_w hc hw hi
    generalize code (r.wrap.view b (lim0 N r.wrap)) = c at st
    have h1 : r.s.inPos ≤ c.2.s.inPos := st.cf.inPos_mono
    have h2 := post_inPos N c
    cases hb : (post N c).2
    · simp only [Bool.false_eq_true, if_false]
      omega
    · simp only [if_true]
      rw [← withInp_self st.pinp]
      have := st.dec hb
      have := dB_inPos_mono_w hc hw f _ st.inv (by omega)
      omega

theorem callR_inPos_mono_w {P : RSt → Prop} {kind : Kind} (hc : CodeAbsorb P (codeOf kind)) (hw : CodeWrap P (codeOf kind))
    {N : Nat} {b : ByteArray} (r : RSt) (hi : InvW P r b N) : r.s.inPos ≤ (callR kind b N r).2.s.inPos :=
  dB_inPos_mono_w hc hw (decodeBufferFuel (r.withInp b).s N) r hi (fuel_ok _ _ _)


/-! ### the generic run and the exact-window run -/

/-- the invariant linking a `Coder.Run` of `lzCoder` and the exact-window run `XRun` over the same `input` -/
structure Link (input : List UInt8) (R : Coder.Run RSt) (X : XRun) : Prop where
  state : R.state = X.r
  ret : R.ret = X.ret
  settled : R.settled = X.settled
  consumed : R.consumed = X.r.s.inPos
  rest : R.rest = input.drop X.r.s.inPos
  out : R.out = X.r.output
  /-- the decoder still holds the window of the previous call -/
  win : ∃ n, X.r.s.inPos ≤ n ∧ X.r.s.inp = toBuf (input.take n)

/-- what one `lzCoder` call on the slice `(input.drop inPos).take inLen` is, in terms of `callR` on the exact window -/
theorem lzCoder_code_eq (kind : Kind) (input : List UInt8) (X : XRun) (inLen cap : Nat) (act : Coder.Action)
    (hwin : ∃ n, X.r.s.inPos ≤ n ∧ X.r.s.inp = toBuf (input.take n)) :
    (lzCoder kind).code X.r ((input.drop X.r.s.inPos).take inLen) cap act
      = ((callR kind (winX input X inLen) (X.r.s.produced + cap) X.r).2,
         { consumed := (callR kind (winX input X inLen) (X.r.s.produced + cap) X.r).2.s.inPos - X.r.s.inPos,
           out := callOut X.r (callR kind (winX input X inLen) (X.r.s.produced + cap) X.r).2,
           ret := (callR kind (winX input X inLen) (X.r.s.produced + cap) X.r).1 }) := by
  obtain ⟨n, hn, hinp⟩ := hwin
  have hbuf : X.r.s.inp.extract 0 X.r.s.inPos ++ toBuf ((input.drop X.r.s.inPos).take inLen) = winX input X inLen := by
    rw [hinp]; exact window_eq input n _ inLen hn
  unfold lzCoder
  simp only []
  rw [hbuf]

/-- facts about one call on the window of a piece -/
structure PieceFacts (P : RSt → Prop) (input : List UInt8) (X : XRun) (inLen cap : Nat) (c : Ret × RSt) : Prop where
  inv : InvW P c.2 (winX input X inLen) (X.r.s.produced + cap)
  inp : c.2.s.inp = winX input X inLen
  mono : X.r.s.inPos ≤ c.2.s.inPos
  ext : HistExt X.r.s c.2.s
  outBase : c.2.s.outBase = X.r.s.outBase

theorem piece_facts {P : RSt → Prop} {kind : Kind} (hc : CodeAbsorb P (codeOf kind)) (hw : CodeWrap P (codeOf kind))
    (input : List UInt8) (X : XRun) (inLen cap : Nat) (hi : CInv P X.r (toBuf input)) :
    PieceFacts P input X inLen cap (callR kind (winX input X inLen) (X.r.s.produced + cap) X.r) := by
  have hi1 := cinv_window input X inLen cap hi
  have hpre := dB_noProg_w hc hw (decodeBufferFuel (X.r.withInp (winX input X inLen)).s (X.r.s.produced + cap)) X.r hi1 (fuel_ok _ _ _)
  exact ⟨hpre.2.1, hpre.2.2, callR_inPos_mono_w hc hw X.r hi1, callR_histExt _ _ _ _, callR_outBase _ _ _ _⟩

theorem piece_link {P : RSt → Prop} {kind : Kind} (hc : CodeAbsorb P (codeOf kind)) (hw : CodeWrap P (codeOf kind))
    (input : List UInt8) (fin : Bool) (R : Coder.Run RSt) (X : XRun) (inLen cap : Nat)
    (hl : Link input R X) (hi : CInv P X.r (toBuf input)) :
    Link input (Coder.runPiece (lzCoder kind) fin R inLen cap) (runPieceX kind input X inLen cap)
    ∧ CInv P (runPieceX kind input X inLen cap).r (toBuf input) := by
  obtain ⟨st, rest, out, cons, ret, setl⟩ := R
  obtain ⟨h1, h2, h3, h4, h5, h6, hwin⟩ := hl
  simp only [] at h1 h2 h3 h4 h5 h6
  subst h1 h2 h3 h4 h5 h6
  have pf := piece_facts hc hw input X inLen cap hi
  have hcode := fun act => lzCoder_code_eq kind input X inLen cap act hwin
  have hwsz : (winX input X inLen).size = min (X.r.s.inPos + inLen) input.length := by
    unfold winX; rw [toBuf_size, List.length_take]; omega
  have hin : X.r.s.inPos ≤ input.length := by have := hi.inPos; rw [toBuf_size] at this; exact this
  unfold Coder.runPiece
  simp only []
  rw [hcode]
  generalize hcd : callR kind (winX input X inLen) (X.r.s.produced + cap) X.r = c at pf
  have hX : runPieceX kind input X inLen cap = XRun.mk c.2 c.1
      (decide (c.1 ≠ .ok) || (decide (input.length ≤ X.r.s.inPos + inLen) && decide (c.2.s.produced < X.r.s.produced + cap))) := by
    rw [← hcd]; rfl
  rw [hX]
  have hle := pf.inv.c.inPos
  have hsz := pf.ext.size_le
  have hb := hi.base
  have hob := pf.outBase
  have hmono := pf.mono
  have ep : c.2.s.produced = c.2.s.hist.size - c.2.s.outBase := rfl
  have ep0 : X.r.s.produced = X.r.s.hist.size - X.r.s.outBase := rfl
  refine ⟨⟨rfl, rfl, ?_, ?_, ?_, ?_, ?_⟩, ?_⟩
  · show (decide (c.1 ≠ .ok) || (decide ((input.drop X.r.s.inPos).length ≤ inLen) && decide ((callOut X.r c.2).length < cap)))
      = (decide (c.1 ≠ .ok) || (decide (input.length ≤ X.r.s.inPos + inLen) && decide (c.2.s.produced < X.r.s.produced + cap)))
    have e1 : ((input.drop X.r.s.inPos).length ≤ inLen) ↔ (input.length ≤ X.r.s.inPos + inLen) := by
      rw [List.length_drop]; omega
    have e2 : ((callOut X.r c.2).length < cap) ↔ (c.2.s.produced < X.r.s.produced + cap) := by
      rw [callOut_length]; omega
    rw [decide_eq_decide.mpr e1, decide_eq_decide.mpr e2]
  · show X.r.s.inPos + (c.2.s.inPos - X.r.s.inPos) = c.2.s.inPos
    omega
  · show (input.drop X.r.s.inPos).drop (c.2.s.inPos - X.r.s.inPos) = input.drop c.2.s.inPos
    rw [List.drop_drop]
    congr 1; omega
  · show X.r.output ++ callOut X.r c.2 = c.2.output
    exact (output_append X.r c.2 pf.ext pf.outBase hb).symm
  · exact ⟨min (X.r.s.inPos + inLen) input.length, by rw [hwsz] at hle; exact hle, pf.inp⟩
  · exact pf.inv.c.mono (toBuf_agree_take input _)

theorem sliced_link {P : RSt → Prop} {kind : Kind} (hc : CodeAbsorb P (codeOf kind)) (hw : CodeWrap P (codeOf kind))
    (input : List UInt8) (fin : Bool) : ∀ (sl : List (Nat × Nat)) (R : Coder.Run RSt) (X : XRun),
    Link input R X → CInv P X.r (toBuf input) →
    Link input (Coder.runSliced (lzCoder kind) fin sl R) (runSlicedX kind input sl X)
  | [], R, X, hl, _ => hl
  | (inLen, cap) :: sl, R, X, hl, hi => by
    unfold Coder.runSliced runSlicedX
    have hr := hl.ret
    by_cases h : X.ret ≠ .ok
    · rw [if_pos h, if_pos (by rw [hr]; exact h)]; exact hl
    · rw [if_neg h, if_neg (by rw [hr]; exact h)]
      have := piece_link hc hw input fin R X inLen cap hl hi
      exact sliced_link hc hw input fin sl _ _ this.1 this.2


/-- the start of a run: nothing consumed, nothing written, no window yet -/
theorem init_link (input : List UInt8) (r0 : RSt) (hpos : r0.s.inPos = 0) (hbase : r0.s.outBase = r0.s.hist.size)
    (hinp : r0.s.inp = ByteArray.empty) : Link input (Coder.Run.init r0 input) { r := r0 } := by
  refine ⟨rfl, rfl, rfl, ?_, ?_, ?_, ?_⟩
  · show 0 = r0.s.inPos; rw [hpos]
  · show input = input.drop r0.s.inPos; rw [hpos]; rfl
  · show [] = histFrom r0.s.hist r0.s.outBase
    unfold histFrom
    rw [hbase]
    show [] = r0.s.hist.data.toList.drop r0.s.hist.data.size
    rw [List.drop_of_length_le (by simp)]
  · exact ⟨0, by rw [hpos]; exact Nat.le_refl _, by rw [hinp]; rfl⟩

/-- **The correspondence.** A run of the generic framework (`Coder.runSliced`) over `lzCoder kind` from a fresh decoder `r0` IS the
    exact-window run `runSlicedX` of the call-level model: same decoder state, status, `settled` flag, consumed count, output, and the
    unconsumed input is the rest of `input`. `fin` is irrelevant (the raw decoders ignore the action). -/
theorem runSliced_lzCoder_eq {P : RSt → Prop} {kind : Kind} (hc : CodeAbsorb P (codeOf kind)) (hw : CodeWrap P (codeOf kind))
    (input : List UInt8) (fin : Bool) (r0 : RSt) (hi0 : InvW P r0 ByteArray.empty 0) (hpos : r0.s.inPos = 0)
    (hbase : r0.s.outBase = r0.s.hist.size) (hinp : r0.s.inp = ByteArray.empty) (sl : List (Nat × Nat)) :
    Link input (Coder.runSliced (lzCoder kind) fin sl (Coder.Run.init r0 input)) (runSlicedX kind input sl { r := r0 }) :=
  sliced_link hc hw input fin sl _ _ (init_link input r0 hpos hbase hinp) (hi0.c.mono (agree_empty _))

/-- well-formedness of a call made along such a run (the decoder invariant `CInv` relative to the whole input holds, the decoder holds
    a previous window): it consumes no more than the offered slice and writes no more than the capacity -/
theorem lzCoder_call_wellFormed {P : RSt → Prop} {kind : Kind} (hc : CodeAbsorb P (codeOf kind)) (hw : CodeWrap P (codeOf kind))
    (input : List UInt8) (r : RSt) (inLen cap : Nat) (act : Coder.Action) (hi : CInv P r (toBuf input))
    (hwin : ∃ n, r.s.inPos ≤ n ∧ r.s.inp = toBuf (input.take n)) :
    ((lzCoder kind).code r ((input.drop r.s.inPos).take inLen) cap act).2.consumed ≤ ((input.drop r.s.inPos).take inLen).length
    ∧ ((lzCoder kind).code r ((input.drop r.s.inPos).take inLen) cap act).2.out.length ≤ cap := by
  have hcode := lzCoder_code_eq kind input { r := r } inLen cap act hwin
  have pf := piece_facts hc hw input { r := r } inLen cap hi
  have hcode' : (lzCoder kind).code r ((input.drop r.s.inPos).take inLen) cap act = _ := hcode
  rw [hcode']
  generalize callR kind (winX input { r := r } inLen) (({ r := r } : XRun).r.s.produced + cap) ({ r := r } : XRun).r = c at pf
  have hwsz : (winX input { r := r } inLen).size = min (r.s.inPos + inLen) input.length := by
    show (toBuf (input.take (min (r.s.inPos + inLen) input.length))).size = _
    rw [toBuf_size, List.length_take]; omega
  have hle : c.2.s.inPos ≤ min (r.s.inPos + inLen) input.length := by rw [← hwsz]; exact pf.inv.c.inPos
  have hsz : r.s.hist.size ≤ c.2.s.hist.size := pf.ext.size_le
  have hb := hi.base
  have hob : c.2.s.outBase = r.s.outBase := pf.outBase
  have hmono : r.s.inPos ≤ c.2.s.inPos := pf.mono
  have hpr : c.2.s.produced ≤ r.s.produced + cap := pf.inv.prod
  have ep : c.2.s.produced = c.2.s.hist.size - c.2.s.outBase := rfl
  have ep0 : r.s.produced = r.s.hist.size - r.s.outBase := rfl
  constructor
  · show c.2.s.inPos - r.s.inPos ≤ _
    rw [List.length_take, List.length_drop]
    omega
  · show (callOut r c.2).length ≤ cap
    rw [callOut_length]
    omega

/-! ### slicing independence in the vocabulary of the generic framework -/

open XzVerif.C06Slice in
/-- **LZMA2 raw decoder as a `Coder`:** any two settled `Coder.runSliced` runs over the same input (arbitrary `(avail_in, avail_out)`
    pieces, zeros included; with or without LZMA_FINISH) end with the same status, and unless both raised the chunk-overrun error
    (ghost flag `overrun`, known finding C06:lzma2-chunk-overrun) have written the same output and consumed the same number of bytes. -/
theorem lzma2Coder_slicing_independent (dictSize : Nat) (preset input : List UInt8) (fin : Bool) (sl₁ sl₂ : List (Nat × Nat)) :
    let r₁ := Coder.runSliced (lzCoder .lzma2) fin sl₁ (Coder.Run.init (initLzma2R dictSize preset) input)
    let r₂ := Coder.runSliced (lzCoder .lzma2) fin sl₂ (Coder.Run.init (initLzma2R dictSize preset) input)
    r₁.settled = true → r₂.settled = true →
      r₁.ret = r₂.ret ∧ ((r₁.state.overrun = false ∨ r₂.state.overrun = false) → r₁.out = r₂.out ∧ r₁.consumed = r₂.consumed) := by
  intro r₁ r₂ hs1 hs2
  have hi0 := invW_initLzma2R (P := P2') dictSize preset (p2'_init dictSize preset)
  have hb : (initLzma2R dictSize preset).s.outBase = (initLzma2R dictSize preset).s.hist.size :=
    (toBuf_size (presetTail dictSize preset)).symm
  have l1 := runSliced_lzCoder_eq (kind := .lzma2) lzma2_call_absorbs' lzma2_call_wraps input fin _ hi0 rfl hb rfl sl₁
  have l2 := runSliced_lzCoder_eq (kind := .lzma2) lzma2_call_absorbs' lzma2_call_wraps input fin _ hi0 rfl hb rfl sl₂
  have h := lzma2_window_slicing_independent dictSize preset input sl₁ sl₂ (l1.settled.symm.trans hs1) (l2.settled.symm.trans hs2)
  refine ⟨l1.ret.trans (h.1.trans l2.ret.symm), fun hno => ?_⟩
  have hno' : (runSlicedX .lzma2 input sl₁ { r := initLzma2R dictSize preset }).r.overrun = false
      ∨ (runSlicedX .lzma2 input sl₂ { r := initLzma2R dictSize preset }).r.overrun = false := by
    rcases hno with hn | hn
    · left; rw [← l1.state]; exact hn
    · right; rw [← l2.state]; exact hn
  have h2 := h.2 hno'
  exact ⟨l1.out.trans (h2.1.trans l2.out.symm), l1.consumed.trans (h2.2.trans l2.consumed.symm)⟩

open XzVerif.C06Slice in
/-- **LZMA1 raw decoder as a `Coder`**, any configuration (valid `lc/lp/pb`; known or unknown size, end marker allowed or not). -/
theorem lzma1Coder_slicing_independent (props : Props) (hv : props.valid = true) (dictSize : Nat) (uncomp : Option Nat)
    (allowEopm : Bool) (preset input : List UInt8) (fin : Bool) (sl₁ sl₂ : List (Nat × Nat)) :
    let r₁ := Coder.runSliced (lzCoder .lzma1) fin sl₁ (Coder.Run.init (initLzma1R props dictSize uncomp allowEopm preset) input)
    let r₂ := Coder.runSliced (lzCoder .lzma1) fin sl₂ (Coder.Run.init (initLzma1R props dictSize uncomp allowEopm preset) input)
    r₁.settled = true → r₂.settled = true →
      r₁.ret = r₂.ret ∧ ((r₁.state.overrun = false ∨ r₂.state.overrun = false) → r₁.out = r₂.out ∧ r₁.consumed = r₂.consumed) := by
  intro r₁ r₂ hs1 hs2
  have hi0 := invW_initLzma1R (P := P1Q) props dictSize uncomp allowEopm preset hv (p1q_init props dictSize uncomp allowEopm preset)
  have hb : (initLzma1R props dictSize uncomp allowEopm preset).s.outBase = (initLzma1R props dictSize uncomp allowEopm preset).s.hist.size :=
    (toBuf_size (presetTail dictSize preset)).symm
  have l1 := runSliced_lzCoder_eq (kind := .lzma1) codeAbsorb_lzma1Q' codeWrap_lzma1Q' input fin _ hi0 rfl hb rfl sl₁
  have l2 := runSliced_lzCoder_eq (kind := .lzma1) codeAbsorb_lzma1Q' codeWrap_lzma1Q' input fin _ hi0 rfl hb rfl sl₂
  have h := lzma1_window_slicing_independent_any props hv dictSize uncomp allowEopm preset input sl₁ sl₂
    (l1.settled.symm.trans hs1) (l2.settled.symm.trans hs2)
  refine ⟨l1.ret.trans (h.1.trans l2.ret.symm), fun hno => ?_⟩
  have hno' : (runSlicedX .lzma1 input sl₁ { r := initLzma1R props dictSize uncomp allowEopm preset }).r.overrun = false
      ∨ (runSlicedX .lzma1 input sl₂ { r := initLzma1R props dictSize uncomp allowEopm preset }).r.overrun = false := by
    rcases hno with hn | hn
    · left; rw [← l1.state]; exact hn
    · right; rw [← l2.state]; exact hn
  have h2 := h.2 hno'
  exact ⟨l1.out.trans (h2.1.trans l2.out.symm), l1.consumed.trans (h2.2.trans l2.consumed.symm)⟩

end XzVerif.LzmaR
