/- C17 trace invariant Q5 (only the own target is unlinked): preservation by `exec`, part 3 (generated layout, hand-checked proofs). -/
import XzVerif.Lemmas.XzIoTrace

namespace XzVerif.XzIo
variable {α : Type}
set_option linter.unusedSimpArgs false

theorem q5_exec_fsyncFile {c : Cfg α} {s : St α} (hpc : s.pc = .fsyncFile) (h : Q5 s) : Q5 (exec c s) := by
  obtain ⟨h1, h2, h3, h4⟩ := h
  unfold exec; simp only [hpc]
  repeat' split
  all_goals
    refine ⟨?_, ?_, ?_, ?_⟩ <;>
    simp_all [UnlinkGuarded, emit, msgWarn, msgError, FS.unlinkDstName, FS.unlinkSrcName, FS.unlinkIno, inoOwn]

theorem q5_exec_fsyncDir {c : Cfg α} {s : St α} (hpc : s.pc = .fsyncDir) (h : Q5 s) : Q5 (exec c s) := by
  obtain ⟨h1, h2, h3, h4⟩ := h
  unfold exec; simp only [hpc]
  repeat' split
  all_goals
    refine ⟨?_, ?_, ?_, ?_⟩ <;>
    simp_all [UnlinkGuarded, emit, msgWarn, msgError, FS.unlinkDstName, FS.unlinkSrcName, FS.unlinkIno, inoOwn]

theorem q5_exec_closeDir {c : Cfg α} {s : St α} (hpc : s.pc = .closeDir) (h : Q5 s) : Q5 (exec c s) := by
  obtain ⟨h1, h2, h3, h4⟩ := h
  unfold exec; simp only [hpc]
  repeat' split
  all_goals
    refine ⟨?_, ?_, ?_, ?_⟩ <;>
    simp_all [UnlinkGuarded, emit, msgWarn, msgError, FS.unlinkDstName, FS.unlinkSrcName, FS.unlinkIno, inoOwn]

theorem q5_exec_closeDest {c : Cfg α} {s : St α} (hpc : s.pc = .closeDest) (h : Q5 s) : Q5 (exec c s) := by
  obtain ⟨h1, h2, h3, h4⟩ := h
  unfold exec; simp only [hpc]
  repeat' split
  all_goals
    refine ⟨?_, ?_, ?_, ?_⟩ <;>
    simp_all [UnlinkGuarded, emit, msgWarn, msgError, FS.unlinkDstName, FS.unlinkSrcName, FS.unlinkIno, inoOwn]

theorem q5_exec_statDest {c : Cfg α} {s : St α} (hpc : s.pc = .statDest) (h : Q5 s) : Q5 (exec c s) := by
  unfold exec; simp only [hpc]
  split
  · exact q5_of h (.stat .dst c.o.force) _ (by simp only [closeSrcPhase_trace]; rfl) (by simp) (by simp only [closeSrcPhase_destStIno]; rfl)
      (by simp only [closeSrcPhase_fs, msgWarn, emit]; exact h.name0) (by simp)
  · exact q5_of h (.stat .dst c.o.force) _ (by simp only [closeSrcPhase_trace]; rfl) (by simp) (by simp only [closeSrcPhase_destStIno]; rfl)
      (by simp only [closeSrcPhase_fs, msgWarn, emit]; exact h.name0) (by simp)
  · rename_i i0 _ hname
    split
    · rename_i hi
      have hi : i0 = s.destStIno := hi
      have hne : s.destStIno ≠ 0 := by
        rw [← hi]; intro h0; rw [h0] at hname; exact h.name0 hname
      refine ⟨⟨fun e => by simp [emit] at e, h.guarded⟩, fun _ => ⟨c.o.force, s.trace, by simp [emit, hi], h.stIno hne, hne⟩,
        fun hh => List.mem_cons_of_mem _ (h.stIno hh), h.name0⟩
    · exact q5_of h (.stat .dst c.o.force) _ (by simp only [closeSrcPhase_trace]; rfl) (by simp) (by simp only [closeSrcPhase_destStIno]; rfl)
        (by simp only [closeSrcPhase_fs, msgWarn, emit]; exact h.name0) (by simp)

theorem q5_exec_unlinkDest {c : Cfg α} {s : St α} (hpc : s.pc = .unlinkDest) (h : Q5 s) : Q5 (exec c s) := by
  obtain ⟨h1, h2, h3, h4⟩ := h
  obtain ⟨f, r', ht, hm, hne⟩ := h2 hpc
  have g : ∀ res, UnlinkGuarded (⟨.unlink .dst, res⟩ :: s.trace) :=
    fun res => ⟨fun _ => ⟨f, s.destStIno, r', ht, hm, hne⟩, h1⟩
  unfold exec; simp only [hpc]
  repeat' split
  all_goals refine ⟨?_, ?_, ?_, ?_⟩
  all_goals first
    | (simp only [closeSrcPhase_trace, msgWarn, emit]; exact g _)
    | (simp only [closeSrcPhase_ne_unlinkDest]; intro hh; exact hh.elim)
    | (simp only [closeSrcPhase_trace, closeSrcPhase_destStIno, msgWarn, emit]; intro hh; exact List.mem_cons_of_mem _ (h3 hh))
    | (simp only [closeSrcPhase_fs, msgWarn, emit]; exact h4)
    | simp

theorem q5_exec_closeSrc {c : Cfg α} {s : St α} (hpc : s.pc = .closeSrc) (h : Q5 s) : Q5 (exec c s) := by
  obtain ⟨h1, h2, h3, h4⟩ := h
  unfold exec; simp only [hpc]
  repeat' split
  all_goals
    refine ⟨?_, ?_, ?_, ?_⟩ <;>
    simp_all [UnlinkGuarded, emit, msgWarn, msgError, FS.unlinkDstName, FS.unlinkSrcName, FS.unlinkIno, inoOwn]

theorem q5_exec_statSrc {c : Cfg α} {s : St α} (hpc : s.pc = .statSrc) (h : Q5 s) : Q5 (exec c s) := by
  unfold exec; simp only [hpc]
  repeat' split
  all_goals exact q5_of h (.stat .src c.o.force) _ rfl (by simp) rfl h.name0 (by simp)

theorem q5_exec_unlinkSrc {c : Cfg α} {s : St α} (hpc : s.pc = .unlinkSrc) (h : Q5 s) : Q5 (exec c s) := by
  obtain ⟨h1, h2, h3, h4⟩ := h
  unfold exec; simp only [hpc]
  repeat' split
  all_goals
    refine ⟨?_, ?_, ?_, ?_⟩ <;>
    simp_all [UnlinkGuarded, emit, msgWarn, msgError]

end XzVerif.XzIo
