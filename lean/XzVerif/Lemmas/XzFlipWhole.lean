/-
  Whole-file single-bit damage: a flip in a Block Header (not its size byte), Block Padding or Check of any Block
  (`BlocksRun_flip`, `streamOne_blocks_flip`), in the Index field or in the Stream Footer of an accepted Stream is
  rejected (the Blocks before it are read identically — `BlocksRun_local` —, the grammar is unambiguous —
  `BlocksRun_functional` —, so both files would carry an accepted Index/footer for the same Blocks at the same place).
  Kernel proofs, core Lean only.
-/
import XzVerif.Lemmas.XzLocal
import XzVerif.Lemmas.XzDecodeFunctional
namespace XzVerif.XzDecode
open XzVerif XzVerif.Vli XzVerif.Container XzVerif.CrcFlip

/-- The walk over the Blocks depends only on the bytes of those Blocks. -/
theorem BlocksRun_local {E : Env} (hloc : PayloadLocal E) (hbd : PayloadBounded E) {fl : Flags} {hdr : StreamFlags}
    {blocks : HashInfo} {inp : List UInt8} {cap : Nat} {out : List UInt8} {c : Nat} {final : HashInfo}
    (r : BlocksRun E fl hdr blocks inp cap out c final) :
    ∀ (inp' : List UInt8), inp'.take c = inp.take c → c ≤ inp.length → BlocksRun E fl hdr blocks inp' cap out c final := by
  induction r with
  | done blocks inp cap => intro inp' _ _; exact BlocksRun.done _ _ _
  | block blocks inp cap b0 tl h b out1 c1 final hinp hb0 hlen hh hv hbdef hbr hF hsub ih =>
    intro inp' hall hc
    have hc' := length_ge_of_take_eq hall hc
    subst hinp
    cases inp' with
    | nil => simp only [List.length_nil] at hc'; omega
    | cons b0' tl' =>
      have hb : b0' = b0 := by simpa using take_of_take_eq hall (by omega : 1 ≤ (b0.toNat + 1) * 4 + b.consumed + c1)
      subst hb
      have hbl := blockDecode_local E hloc hdr.check fl.ignoreCheck _ h _ (List.drop ((b0'.toNat + 1) * 4) (b0' :: tl')) cap b hbdef hbr
        (by rw [hF.compressed_eq]; unfold payloadCall; exact hbd _ _ _)
        (drop_take_of_take_eq hall (by omega))
      refine BlocksRun.block blocks (b0' :: tl') cap b0' tl' h b out1 c1 final rfl hb0 (by omega) ?_ hv hbl hbr
        (blockDecode_streamEnd _ _ _ _ _ _ _ _ hbl hbr) ?_
      · rw [take_of_take_eq hall (by omega : (b0'.toNat + 1) * 4 ≤ (b0'.toNat + 1) * 4 + b.consumed + c1)]; exact hh
      · apply ih
        · exact drop_take_of_take_eq hall (by omega)
        · rw [List.length_drop]; omega

/-- **Index and Stream Footer, whole file.**  If a Stream is accepted, it ends with an Index field (the canonical encoding
    of the decoded Blocks `final`, starting `12 + c` bytes into the Stream) and a 12-byte Stream Footer, and the same
    input with one bit flipped anywhere in that Index (except in the Index Indicator byte, whose change turns the Index
    into a Block Header) or in that footer is not accepted. -/
theorem streamOne_index_footer_flip (E : Env) (hloc : PayloadLocal E) (hbd : PayloadBounded E) (fl : Flags) (first : Bool)
    (inp : List UInt8) (cap : Nat) (hs : (streamOne E fl first inp cap).ret = .streamEnd) :
    ∃ (c : Nat) (final : HashInfo),
      (streamOne E fl first inp cap).consumed = STREAM_HEADER_SIZE + c + indexHashSize final + STREAM_HEADER_SIZE ∧
      (inp.drop (STREAM_HEADER_SIZE + c)).take (indexHashSize final) = indexEncode final ∧
      ∀ (i : Nat), 8 * (STREAM_HEADER_SIZE + c + 1) ≤ i → i < 8 * (streamOne E fl first inp cap).consumed →
        (streamOne E fl first (flipBit inp i) cap).ret ≠ .streamEnd := by
  obtain ⟨hdr, c, final, s1, hl1, hh, hrun, hF1, hlen1, hle1⟩ := streamOne_streamEnd E fl first inp cap _ rfl hs
  refine ⟨c, final, by rw [hlen1, hF1.consumed_eq]; omega, hF1.index_bytes, ?_⟩
  intro i hlo hhi hc
  obtain ⟨hdr2, c2, final2, s2, hl2, hh2, hrun2, hF2, hlen2, hle2⟩ := streamOne_streamEnd E fl first (flipBit inp i) cap _ rfl hc
  have hz := hF1.head_zero
  rw [← List.drop_drop] at hz
  -- the header of the flipped input is unchanged
  have hi12 : STREAM_HEADER_SIZE ≤ i / 8 := by unfold STREAM_HEADER_SIZE at hlo ⊢; omega
  have hhdr : (flipBit inp i).take STREAM_HEADER_SIZE = inp.take STREAM_HEADER_SIZE := by
    rw [flipBit_take, flipBit_out_of_range]; rw [List.length_take]; omega
  rw [hhdr, hh] at hh2
  simp only [Except.ok.injEq] at hh2
  subst hh2
  -- the Blocks of the flipped input are those of the original
  have hcle : c ≤ (inp.drop STREAM_HEADER_SIZE).length := by
    rw [List.length_drop]
    have := hF1.consumed_le
    rw [List.length_drop] at this
    omega
  have hdrop : (flipBit inp i).drop STREAM_HEADER_SIZE = flipBit (inp.drop STREAM_HEADER_SIZE) (i - 8 * STREAM_HEADER_SIZE) :=
    flipBit_drop_ge inp i _ hi12
  have hrun' : BlocksRun E fl hdr [] ((flipBit inp i).drop STREAM_HEADER_SIZE) cap (streamOne E fl first inp cap).out c final := by
    apply BlocksRun_local hloc hbd hrun _ _ hcle
    rw [hdrop, flipBit_take, flipBit_out_of_range]
    rw [List.length_take]
    unfold STREAM_HEADER_SIZE at hlo ⊢; omega
  have hz2 := hF2.head_zero
  have hz' : (((flipBit inp i).drop STREAM_HEADER_SIZE).drop c).head? = some 0 := by
    rw [List.drop_drop, flipBit_drop_ge inp i _ (by unfold STREAM_HEADER_SIZE at hlo ⊢; omega)]
    unfold flipBit
    have hne : (i - 8 * (STREAM_HEADER_SIZE + c)) / 8 ≠ 0 := by unfold STREAM_HEADER_SIZE at hlo ⊢; omega
    rw [List.drop_drop] at hz
    cases hd : List.drop (STREAM_HEADER_SIZE + c) inp with
    | nil => rw [hd] at hz; simp at hz
    | cons a l =>
      rw [hd] at hz
      obtain ⟨k, hk⟩ := Nat.exists_eq_succ_of_ne_zero hne
      rw [hk, List.modify_succ_cons]
      simpa using hz
  rw [← List.drop_drop] at hz2
  obtain ⟨_, e2, e3⟩ := BlocksRun_functional hrun2 hrun' hz2 hz'
  rw [e2, e3] at hF2
  -- now both inputs carry an accepted Index + footer for the same Blocks at the same place
  have hb1 := hF1.index_bytes
  have hb2 := hF2.index_bytes
  have hf1 := hF1.footer
  have hf2 := hF2.footer
  have hce := hF1.consumed_eq
  rw [hlen1, hce] at hhi
  generalize hic : indexHashSize final = ic at hb1 hb2 hf1 hf2 hhi
  have hdrop2 : (flipBit inp i).drop (STREAM_HEADER_SIZE + c) = flipBit (inp.drop (STREAM_HEADER_SIZE + c)) (i - 8 * (STREAM_HEADER_SIZE + c)) :=
    flipBit_drop_ge inp i _ (by unfold STREAM_HEADER_SIZE at hlo ⊢; omega)
  rw [hdrop2] at hb2 hf2
  have hrl : ic + STREAM_HEADER_SIZE ≤ (inp.drop (STREAM_HEADER_SIZE + c)).length := by
    have := hF1.consumed_le
    rw [hce, hic] at this
    exact this
  generalize hrest : inp.drop (STREAM_HEADER_SIZE + c) = rest at hb1 hb2 hf1 hf2 hrl
  generalize hj : i - 8 * (STREAM_HEADER_SIZE + c) = j at hb2 hf2
  have hjlt : j < 8 * (ic + STREAM_HEADER_SIZE) := by omega
  by_cases hidx : j < 8 * ic
  · -- inside the Index: both prefixes equal the canonical encoding
    rw [flipBit_take, ← hb1] at hb2
    exact flipBit_ne (rest.take ic) j (by rw [List.length_take]; omega) hb2
  · -- inside the footer
    obtain ⟨ftr1, hd1, _⟩ := hf1
    obtain ⟨ftr2, hd2, _⟩ := hf2
    rw [flipBit_drop_ge rest j ic (by omega), flipBit_take] at hd2
    obtain ⟨e, he⟩ := streamFooterDecode_flip _ _ hd1 (j - 8 * ic) (by unfold STREAM_HEADER_SIZE at hjlt; omega)
    rw [he] at hd2
    simp at hd2

/-! ## flips inside the Blocks -/

/-- Bits of the Blocks region that single-bit damage theorems cover: every bit of a Block Header except its first byte
    (Block Header Size), every bit of Block Padding and of the Check field.  `ProtectedBit … inp cap i`: bit `i` of `inp`
    (which starts at a Block Header) is such a bit of one of the Blocks the decoder walks through. -/
inductive ProtectedBit (E : Env) (fl : Flags) (hdr : StreamFlags) : List UInt8 → Nat → Nat → Prop
  | header (inp : List UInt8) (cap : Nat) (b0 : UInt8) (tl : List UInt8) (i : Nat) :
      inp = b0 :: tl → 8 ≤ i → i < 8 * ((b0.toNat + 1) * 4) → ProtectedBit E fl hdr inp cap i
  | tail (inp : List UInt8) (cap : Nat) (b0 : UInt8) (tl : List UInt8) (h : BlockHeader) (i : Nat) :
      inp = b0 :: tl →
      blockHeaderDecodeWith ((b0.toNat + 1) * 4) hdr.check (inp.take ((b0.toNat + 1) * 4)) = .ok h →
      8 * ((b0.toNat + 1) * 4 + (blockDecode E hdr.check fl.ignoreCheck ((b0.toNat + 1) * 4) h (inp.drop ((b0.toNat + 1) * 4)) cap).compressed) ≤ i →
      i < 8 * ((b0.toNat + 1) * 4 + (blockDecode E hdr.check fl.ignoreCheck ((b0.toNat + 1) * 4) h (inp.drop ((b0.toNat + 1) * 4)) cap).consumed) →
      ProtectedBit E fl hdr inp cap i
  | later (inp : List UInt8) (cap : Nat) (b0 : UInt8) (tl : List UInt8) (h : BlockHeader) (j : Nat) :
      inp = b0 :: tl →
      blockHeaderDecodeWith ((b0.toNat + 1) * 4) hdr.check (inp.take ((b0.toNat + 1) * 4)) = .ok h →
      ProtectedBit E fl hdr
        (inp.drop ((b0.toNat + 1) * 4 + (blockDecode E hdr.check fl.ignoreCheck ((b0.toNat + 1) * 4) h (inp.drop ((b0.toNat + 1) * 4)) cap).consumed))
        (cap - (blockDecode E hdr.check fl.ignoreCheck ((b0.toNat + 1) * 4) h (inp.drop ((b0.toNat + 1) * 4)) cap).out.length) j →
      ProtectedBit E fl hdr inp cap
        (8 * ((b0.toNat + 1) * 4 + (blockDecode E hdr.check fl.ignoreCheck ((b0.toNat + 1) * 4) h (inp.drop ((b0.toNat + 1) * 4)) cap).consumed) + j)

theorem ProtectedBit_inv {E : Env} {fl : Flags} {hdr : StreamFlags} {b0 : UInt8} {tl : List UInt8} {cap i : Nat}
    (p : ProtectedBit E fl hdr (b0 :: tl) cap i) :
    (8 ≤ i ∧ i < 8 * ((b0.toNat + 1) * 4)) ∨
    (∃ h : BlockHeader,
      blockHeaderDecodeWith ((b0.toNat + 1) * 4) hdr.check ((b0 :: tl).take ((b0.toNat + 1) * 4)) = .ok h ∧
      8 * ((b0.toNat + 1) * 4 + (blockDecode E hdr.check fl.ignoreCheck ((b0.toNat + 1) * 4) h ((b0 :: tl).drop ((b0.toNat + 1) * 4)) cap).compressed) ≤ i ∧
      i < 8 * ((b0.toNat + 1) * 4 + (blockDecode E hdr.check fl.ignoreCheck ((b0.toNat + 1) * 4) h ((b0 :: tl).drop ((b0.toNat + 1) * 4)) cap).consumed)) ∨
    (∃ (h : BlockHeader) (j : Nat),
      blockHeaderDecodeWith ((b0.toNat + 1) * 4) hdr.check ((b0 :: tl).take ((b0.toNat + 1) * 4)) = .ok h ∧
      ProtectedBit E fl hdr
        ((b0 :: tl).drop ((b0.toNat + 1) * 4 + (blockDecode E hdr.check fl.ignoreCheck ((b0.toNat + 1) * 4) h ((b0 :: tl).drop ((b0.toNat + 1) * 4)) cap).consumed))
        (cap - (blockDecode E hdr.check fl.ignoreCheck ((b0.toNat + 1) * 4) h ((b0 :: tl).drop ((b0.toNat + 1) * 4)) cap).out.length) j ∧
      i = 8 * ((b0.toNat + 1) * 4 + (blockDecode E hdr.check fl.ignoreCheck ((b0.toNat + 1) * 4) h ((b0 :: tl).drop ((b0.toNat + 1) * 4)) cap).consumed) + j) := by
  generalize hinp : b0 :: tl = inp at p
  cases p with
  | header _ _ c0 t0 _ he h8 hlt =>
    rw [← hinp] at he
    simp only [List.cons.injEq] at he
    obtain ⟨e1, e2⟩ := he
    subst e1 e2
    exact Or.inl ⟨h8, hlt⟩
  | tail _ _ c0 t0 h _ he hh hlo hhi =>
    rw [← hinp] at he
    simp only [List.cons.injEq] at he
    obtain ⟨e1, e2⟩ := he
    subst e1 e2
    subst hinp
    exact Or.inr (Or.inl ⟨h, hh, hlo, hhi⟩)
  | later _ _ c0 t0 h j he hh hp =>
    rw [← hinp] at he
    simp only [List.cons.injEq] at he
    obtain ⟨e1, e2⟩ := he
    subst e1 e2
    subst hinp
    exact Or.inr (Or.inr ⟨h, j, hh, hp, rfl⟩)

theorem flipBit_cons_ge8 (b0 : UInt8) (tl : List UInt8) (i : Nat) (h : 8 ≤ i) :
    flipBit (b0 :: tl) i = b0 :: flipBit tl (i - 8) := by
  unfold flipBit
  obtain ⟨k, hk⟩ := Nat.exists_eq_succ_of_ne_zero (by omega : i / 8 ≠ 0)
  rw [hk, List.modify_succ_cons]
  have h1 : (i - 8) / 8 = k := by omega
  have h2 : (i - 8) % 8 = i % 8 := by omega
  rw [h1, h2]

/-- No accepting walk exists over the Blocks of an input in which one protected bit has been flipped. -/
theorem BlocksRun_flip (E : Env) (hloc : PayloadLocal E) (hbd : PayloadBounded E) (fl : Flags) (hign : fl.ignoreCheck = false)
    (hdr : StreamFlags) (hsup : hdr.check ≠ 0 → E.checkSupported hdr.check = true)
    {blocks : HashInfo} {inp : List UInt8} {cap : Nat} {out : List UInt8} {c : Nat} {final : HashInfo}
    (r : BlocksRun E fl hdr blocks inp cap out c final) :
    ∀ (i : Nat), ProtectedBit E fl hdr inp cap i → i < 8 * c → c ≤ inp.length →
      ∀ (out' : List UInt8) (c' : Nat) (final' : HashInfo), BlocksRun E fl hdr blocks (flipBit inp i) cap out' c' final' →
        ((flipBit inp i).drop c').head? = some 0 → False := by
  induction r with
  | done blocks inp cap => intro i _ hi; omega
  | block blocks inp cap b0 tl h b out1 c1 final hinp hb0 hlen hh hv hbdef hbr hF hsub ih =>
    intro i hp hi hc out' c' final' r' hz'
    subst hinp
    -- the first byte is never the flipped one
    have hpi := ProtectedBit_inv hp
    have hi8 : 8 ≤ i := by
      rcases hpi with ⟨h8, _⟩ | ⟨_, _, hlo, _⟩ | ⟨_, _, _, _, he⟩ <;> omega
    rw [flipBit_cons_ge8 b0 tl i hi8] at r' hz'
    rcases BlocksRun_inv r' with ⟨_, h2, _⟩ | ⟨b0', tl', h', b', out2, c2, hinp', hb0', hh', hbd', hbr', hlen', ho, hcc, hsub'⟩
    · subst h2
      simp only [List.drop_zero, List.head?_cons, Option.some.injEq] at hz'
      rw [hz'] at hb0; simp at hb0
    · simp only [List.cons.injEq] at hinp'
      obtain ⟨e1, e2⟩ := hinp'
      subst e1
      rw [← flipBit_cons_ge8 b0 tl i hi8] at hh' hbd' hsub' hz' hlen'
      by_cases hhdr : i < 8 * ((b0.toNat + 1) * 4)
      · -- Block Header flip: CRC32
        have hflip := blockHeaderDecodeWith_flip _ _ _ h hh i hi8 hhdr
        rw [flipBit_take, hflip] at hh'
        simp at hh'
      · -- the header is untouched
        have hsame : (flipBit (b0 :: tl) i).take ((b0.toNat + 1) * 4) = (b0 :: tl).take ((b0.toNat + 1) * 4) := by
          rw [flipBit_take, flipBit_out_of_range]; rw [List.length_take]; omega
        rw [hsame, hh] at hh'
        simp only [Except.ok.injEq] at hh'
        subst hh'
        rw [flipBit_drop_ge _ i _ (by omega)] at hbd'
        have hwf : b.compressed ≤ (List.take (min (List.drop ((b0.toNat + 1) * 4) (b0 :: tl)).length
            (compressedLimit ((b0.toNat + 1) * 4) hdr.check h.compressedSize)) (List.drop ((b0.toNat + 1) * 4) (b0 :: tl))).length := by
          rw [hF.compressed_eq]; unfold payloadCall; exact hbd _ _ _
        by_cases htail : i < 8 * ((b0.toNat + 1) * 4 + b.consumed)
        · -- inside this Block, after the header
          have hlo : 8 * ((b0.toNat + 1) * 4 + b.compressed) ≤ i := by
            rcases hpi with ⟨_, hh8⟩ | ⟨h2, hh2, hlo2, _⟩ | ⟨h2, j, hh2, _, he⟩
            · omega
            · rw [hh] at hh2; simp only [Except.ok.injEq] at hh2; subst hh2
              rw [hbdef] at hlo2; exact hlo2
            · rw [hh] at hh2; simp only [Except.ok.injEq] at hh2; subst hh2
              rw [hbdef] at he; omega
          rw [hign] at hbdef hbd'
          have := blockDecode_tail_flip E hloc hdr.check _ h _ cap b hbdef hbr hsup hwf (i - 8 * ((b0.toNat + 1) * 4)) (by omega) (by omega)
          rw [hbd'] at this
          exact this hbr'
        · -- in a later Block
          have hbl := blockDecode_local E hloc hdr.check fl.ignoreCheck _ h _ (flipBit (List.drop ((b0.toNat + 1) * 4) (b0 :: tl)) (i - 8 * ((b0.toNat + 1) * 4))) cap b hbdef hbr hwf
            (by rw [flipBit_take, flipBit_out_of_range]; rw [List.length_take]; omega)
          rw [hbl] at hbd'
          subst hbd'
          have hj : ProtectedBit E fl hdr (List.drop ((b0.toNat + 1) * 4 + b.consumed) (b0 :: tl)) (cap - b.out.length)
              (i - 8 * ((b0.toNat + 1) * 4 + b.consumed)) := by
            rcases hpi with ⟨_, hh8⟩ | ⟨h2, hh2, _, hhi2⟩ | ⟨h2, j, hh2, hj2, he⟩
            · omega
            · rw [hh] at hh2; simp only [Except.ok.injEq] at hh2; subst hh2
              rw [hbdef] at hhi2; omega
            · rw [hh] at hh2; simp only [Except.ok.injEq] at hh2; subst hh2
              rw [hbdef] at hj2 he
              rw [he, Nat.add_sub_cancel_left]
              exact hj2
          rw [flipBit_drop_ge _ i _ (by omega)] at hsub'
          subst hcc
          rw [← List.drop_drop, flipBit_drop_ge _ i _ (by omega)] at hz'
          exact ih _ hj (by omega) (by rw [List.length_drop]; omega) _ _ _ hsub' hz'


/-- **Block Header, Block Padding, Check — whole file.**  If a Stream is accepted (LZMA_IGNORE_CHECK off, Check ID None or
    supported), the same input with one protected bit of any of its Blocks flipped (`ProtectedBit`: Block Header except
    the size byte, Block Padding, Check) is not accepted. -/
theorem streamOne_blocks_flip (E : Env) (hloc : PayloadLocal E) (hbd : PayloadBounded E) (fl : Flags) (hign : fl.ignoreCheck = false)
    (first : Bool) (inp : List UInt8) (cap : Nat) (hs : (streamOne E fl first inp cap).ret = .streamEnd)
    (hsup : ∀ hdr, streamHeaderDecode (inp.take STREAM_HEADER_SIZE) = .ok hdr → hdr.check ≠ 0 → E.checkSupported hdr.check = true) :
    ∃ (hdr : StreamFlags) (c : Nat) (final : HashInfo),
      streamHeaderDecode (inp.take STREAM_HEADER_SIZE) = .ok hdr ∧
      BlocksRun E fl hdr [] (inp.drop STREAM_HEADER_SIZE) cap (streamOne E fl first inp cap).out c final ∧
      ∀ (j : Nat), ProtectedBit E fl hdr (inp.drop STREAM_HEADER_SIZE) cap j → j < 8 * c →
        (streamOne E fl first (flipBit inp (8 * STREAM_HEADER_SIZE + j)) cap).ret ≠ .streamEnd := by
  obtain ⟨hdr, c, final, s1, hl1, hh, hrun, hF1, hlen1, hle1⟩ := streamOne_streamEnd E fl first inp cap _ rfl hs
  refine ⟨hdr, c, final, hh, hrun, ?_⟩
  intro j hp hj hc
  obtain ⟨hdr2, c2, final2, s2, hl2, hh2, hrun2, hF2, hlen2, hle2⟩ :=
    streamOne_streamEnd E fl first (flipBit inp (8 * STREAM_HEADER_SIZE + j)) cap _ rfl hc
  have hhdr : (flipBit inp (8 * STREAM_HEADER_SIZE + j)).take STREAM_HEADER_SIZE = inp.take STREAM_HEADER_SIZE := by
    rw [flipBit_take, flipBit_out_of_range]; rw [List.length_take]; omega
  rw [hhdr, hh] at hh2
  simp only [Except.ok.injEq] at hh2
  subst hh2
  have hdrop : (flipBit inp (8 * STREAM_HEADER_SIZE + j)).drop STREAM_HEADER_SIZE = flipBit (inp.drop STREAM_HEADER_SIZE) j := by
    rw [flipBit_drop_ge inp _ _ (by omega)]
    congr 1
    omega
  rw [hdrop] at hrun2
  have hz2 := hF2.head_zero
  rw [← List.drop_drop, hdrop] at hz2
  have hcle : c ≤ (inp.drop STREAM_HEADER_SIZE).length := by
    rw [List.length_drop]
    have := hF1.consumed_le
    rw [List.length_drop] at this
    omega
  exact BlocksRun_flip E hloc hbd fl hign hdr (hsup hdr hh) hrun j hp hj hcle _ _ _ hrun2 hz2

end XzVerif.XzDecode
