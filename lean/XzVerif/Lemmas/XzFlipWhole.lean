/-
  Whole-file single-bit damage after the Blocks: a flip in the Index field or the Stream Footer of an accepted Stream is
  rejected (the Blocks before it are read identically — `BlocksRun_local` —, the grammar is unambiguous —
  `BlocksRun_functional` —, so both files would carry an accepted Index/footer for the same Blocks at the same place).
  Kernel proofs, core Lean only.
-/
import XzVerif.Lemmas.XzLocal
import XzVerif.Lemmas.XzDecodeFunctional
namespace XzVerif.XzDecode
open XzVerif XzVerif.Vli XzVerif.Container XzVerif.CrcFlip

/-- The walk over the Blocks depends only on the bytes of those Blocks. -/
theorem BlocksRun_local {E : Env} (hloc : PayloadLocal E) (hbd : PayloadBounded E) {fl : Flags} {hdr : StreamFlags}
    {blocks : HashInfo} {inp : List UInt8} {cap : Nat} {out : List UInt8} {c : Nat} {final : HashInfo}
    (r : BlocksRun E fl hdr blocks inp cap out c final) :
    ∀ (inp' : List UInt8), inp'.take c = inp.take c → c ≤ inp.length → BlocksRun E fl hdr blocks inp' cap out c final := by
  induction r with
  | done blocks inp cap => intro inp' _ _; exact BlocksRun.done _ _ _
  | block blocks inp cap b0 tl h b out1 c1 final hinp hb0 hlen hh hv hbdef hbr hF hsub ih =>
    intro inp' hall hc
    have hc' := length_ge_of_take_eq hall hc
    subst hinp
    cases inp' with
    | nil => simp only [List.length_nil] at hc'; omega
    | cons b0' tl' =>
      have hb : b0' = b0 := by simpa using take_of_take_eq hall (by omega : 1 ≤ (b0.toNat + 1) * 4 + b.consumed + c1)
      subst hb
      have hbl := blockDecode_local E hloc hdr.check fl.ignoreCheck _ h _ (List.drop ((b0'.toNat + 1) * 4) (b0' :: tl')) cap b hbdef hbr
        (by rw [hF.compressed_eq]; unfold payloadCall; exact hbd _ _ _)
        (drop_take_of_take_eq hall (by omega))
      refine BlocksRun.block blocks (b0' :: tl') cap b0' tl' h b out1 c1 final rfl hb0 (by omega) ?_ hv hbl hbr
        (blockDecode_streamEnd _ _ _ _ _ _ _ _ hbl hbr) ?_
      · rw [take_of_take_eq hall (by omega : (b0'.toNat + 1) * 4 ≤ (b0'.toNat + 1) * 4 + b.consumed + c1)]; exact hh
      · apply ih
        · exact drop_take_of_take_eq hall (by omega)
        · rw [List.length_drop]; omega

/-- **Index and Stream Footer, whole file.**  If a Stream is accepted, it ends with an Index field (the canonical encoding
    of the decoded Blocks `final`, starting `12 + c` bytes into the Stream) and a 12-byte Stream Footer, and the same
    input with one bit flipped anywhere in that Index (except in the Index Indicator byte, whose change turns the Index
    into a Block Header) or in that footer is not accepted. -/
theorem streamOne_index_footer_flip (E : Env) (hloc : PayloadLocal E) (hbd : PayloadBounded E) (fl : Flags) (first : Bool)
    (inp : List UInt8) (cap : Nat) (hs : (streamOne E fl first inp cap).ret = .streamEnd) :
    ∃ (c : Nat) (final : HashInfo),
      (streamOne E fl first inp cap).consumed = STREAM_HEADER_SIZE + c + indexHashSize final + STREAM_HEADER_SIZE ∧
      (inp.drop (STREAM_HEADER_SIZE + c)).take (indexHashSize final) = indexEncode final ∧
      ∀ (i : Nat), 8 * (STREAM_HEADER_SIZE + c + 1) ≤ i → i < 8 * (streamOne E fl first inp cap).consumed →
        (streamOne E fl first (flipBit inp i) cap).ret ≠ .streamEnd := by
  obtain ⟨hdr, c, final, s1, hl1, hh, hrun, hF1, hlen1, hle1⟩ := streamOne_streamEnd E fl first inp cap _ rfl hs
  refine ⟨c, final, by rw [hlen1, hF1.consumed_eq]; omega, hF1.index_bytes, ?_⟩
  intro i hlo hhi hc
  obtain ⟨hdr2, c2, final2, s2, hl2, hh2, hrun2, hF2, hlen2, hle2⟩ := streamOne_streamEnd E fl first (flipBit inp i) cap _ rfl hc
  have hz := hF1.head_zero
  rw [← List.drop_drop] at hz
  -- the header of the flipped input is unchanged
  have hi12 : STREAM_HEADER_SIZE ≤ i / 8 := by unfold STREAM_HEADER_SIZE at hlo ⊢; omega
  have hhdr : (flipBit inp i).take STREAM_HEADER_SIZE = inp.take STREAM_HEADER_SIZE := by
    rw [flipBit_take, flipBit_out_of_range]; rw [List.length_take]; omega
  rw [hhdr, hh] at hh2
  simp only [Except.ok.injEq] at hh2
  subst hh2
  -- the Blocks of the flipped input are those of the original
  have hcle : c ≤ (inp.drop STREAM_HEADER_SIZE).length := by
    rw [List.length_drop]
    have := hF1.consumed_le
    rw [List.length_drop] at this
    omega
  have hdrop : (flipBit inp i).drop STREAM_HEADER_SIZE = flipBit (inp.drop STREAM_HEADER_SIZE) (i - 8 * STREAM_HEADER_SIZE) :=
    flipBit_drop_ge inp i _ hi12
  have hrun' : BlocksRun E fl hdr [] ((flipBit inp i).drop STREAM_HEADER_SIZE) cap (streamOne E fl first inp cap).out c final := by
    apply BlocksRun_local hloc hbd hrun _ _ hcle
    rw [hdrop, flipBit_take, flipBit_out_of_range]
    rw [List.length_take]
    unfold STREAM_HEADER_SIZE at hlo ⊢; omega
  have hz2 := hF2.head_zero
  have hz' : (((flipBit inp i).drop STREAM_HEADER_SIZE).drop c).head? = some 0 := by
    rw [List.drop_drop, flipBit_drop_ge inp i _ (by unfold STREAM_HEADER_SIZE at hlo ⊢; omega)]
    unfold flipBit
    have hne : (i - 8 * (STREAM_HEADER_SIZE + c)) / 8 ≠ 0 := by unfold STREAM_HEADER_SIZE at hlo ⊢; omega
    rw [List.drop_drop] at hz
    cases hd : List.drop (STREAM_HEADER_SIZE + c) inp with
    | nil => rw [hd] at hz; simp at hz
    | cons a l =>
      rw [hd] at hz
      obtain ⟨k, hk⟩ := Nat.exists_eq_succ_of_ne_zero hne
      rw [hk, List.modify_succ_cons]
      simpa using hz
  rw [← List.drop_drop] at hz2
  obtain ⟨_, e2, e3⟩ := BlocksRun_functional hrun2 hrun' hz2 hz'
  rw [e2, e3] at hF2
  -- now both inputs carry an accepted Index + footer for the same Blocks at the same place
  have hb1 := hF1.index_bytes
  have hb2 := hF2.index_bytes
  have hf1 := hF1.footer
  have hf2 := hF2.footer
  have hce := hF1.consumed_eq
  rw [hlen1, hce] at hhi
  generalize hic : indexHashSize final = ic at hb1 hb2 hf1 hf2 hhi
  have hdrop2 : (flipBit inp i).drop (STREAM_HEADER_SIZE + c) = flipBit (inp.drop (STREAM_HEADER_SIZE + c)) (i - 8 * (STREAM_HEADER_SIZE + c)) :=
    flipBit_drop_ge inp i _ (by unfold STREAM_HEADER_SIZE at hlo ⊢; omega)
  rw [hdrop2] at hb2 hf2
  have hrl : ic + STREAM_HEADER_SIZE ≤ (inp.drop (STREAM_HEADER_SIZE + c)).length := by
    have := hF1.consumed_le
    rw [hce, hic] at this
    exact this
  generalize hrest : inp.drop (STREAM_HEADER_SIZE + c) = rest at hb1 hb2 hf1 hf2 hrl
  generalize hj : i - 8 * (STREAM_HEADER_SIZE + c) = j at hb2 hf2
  have hjlt : j < 8 * (ic + STREAM_HEADER_SIZE) := by omega
  by_cases hidx : j < 8 * ic
  · -- inside the Index: both prefixes equal the canonical encoding
    rw [flipBit_take, ← hb1] at hb2
    exact flipBit_ne (rest.take ic) j (by rw [List.length_take]; omega) hb2
  · -- inside the footer
    obtain ⟨ftr1, hd1, _⟩ := hf1
    obtain ⟨ftr2, hd2, _⟩ := hf2
    rw [flipBit_drop_ge rest j ic (by omega), flipBit_take] at hd2
    obtain ⟨e, he⟩ := streamFooterDecode_flip _ _ hd1 (j - 8 * ic) (by unfold STREAM_HEADER_SIZE at hjlt; omega)
    rw [he] at hd2
    simp at hd2

end XzVerif.XzDecode
