/-
  C17 invariant Q7 (failures are reported and stick): a run that is in io_close (or at its end) without success has a
  non-zero exit status, has seen a signal, or got EPIPE; and once a hard I/O error is in the trace the run stays failed.
-/
import XzVerif.Lemmas.XzIoQ6Def

namespace XzVerif.XzIo
variable {α : Type}

/-- why an unsuccessful run ends "loudly" -/
def Loud (s : St α) : Prop :=
  s.exitSt ≠ 0 ∨ s.userAbort = true

theorem Loud.frame {s s' : St α} (f : Frame s s') (h : Loud s) : Loud s' := by
  rcases h with h | h
  · exact Or.inl (f.exitMono h)
  · exact Or.inr (by rw [f.userAbort]; exact h)

/-- an error that must make the run fail: read/write/poll failing with something else than EINTR/EAGAIN, or a failing
    open / fstat(source) / fsync / close(target) / `--force` unlink (other than ENOENT) -/
def hardErr (e : Event) : Bool :=
  match e.res, e.call with
  | .ok _, _ => false
  | .err k, .read _ => !(k == EINTR || k == EAGAIN)
  | .err k, .write _ => !(k == EINTR || k == EAGAIN)
  | .err k, .poll _ => !(k == EINTR || k == EAGAIN)
  | .err _, .openSrc _ => true
  | .err _, .fstat .src => true
  | .err _, .openDir => true
  | .err _, .openDest => true
  | .err _, .fsync _ => true
  | .err _, .close .dst => true
  | .err k, .unlinkForce => !(k == ENOENT)
  | .err _, _ => false

/-- io_close proper (the tail seek of a sparse file still belongs to the successful run), the end, and the failure paths -/
def Pc.finBad (p : Pc) : Bool := (p.fin && p != .tailSeek) || p.bad

def Pc.early : Pc → Bool
  | .openSrc | .fstatSrc | .closeSrcErr => true
  | _ => false

structure Q7 (s : St α) : Prop where
  sad : s.pc.finBad = true → s.success = false → Loud s
  hard : (∃ e ∈ s.trace, hardErr e = true) → (s.success = false ∨ s.pc = .closeDirErr) ∧ s.pc.finBad = true
  early : s.pc.early = true → s.success = false
  cde : s.pc = .closeDirErr → s.exitSt ≠ 0

theorem closing_finBad {p : Pc} (h : p.closing = true) (ht : p ≠ .tailSeek) : p.finBad = true := by
  cases p <;> simp_all [Pc.closing, Pc.fin, Pc.finBad, Pc.bad]

variable (c : Cfg α)

theorem closeBlock_ne_tailSeek (s : St α) : (closeBlock c s).pc ≠ .tailSeek := by
  unfold closeBlock closeDestPhase closeSrcPhase; repeat' split
  all_goals simp

theorem closeBlock_finBad (s : St α) : (closeBlock c s).pc.finBad = true :=
  closing_finBad (closeBlock_closing c s) (closeBlock_ne_tailSeek c s)

theorem ioFail_finBad (s : St α) : (ioFail c s).pc.finBad = true := closeBlock_finBad c _

theorem sad_ioFail (s : St α) (h : Loud s) : Loud (ioFail c s) ∧ (ioFail c s).success = false ∧ (ioFail c s).pc.finBad = true :=
  ⟨h.frame (frame_ioFail c s).1, (frame_ioFail c s).2.2, ioFail_finBad c s⟩

theorem sad_finish (s : St α) : (finish c s).success = false → Loud (finish c s) := by
  unfold finish
  split
  · intro h; rw [(frame_ioClose c _).2.2] at h; simp at h
  · intro _; exact (sad_ioFail c (msgError s) (Or.inl (by simp [msgError]))).1

theorem sad_nextMain (ops : List (Op α)) (s : St α) :
    (nextMain c ops s).pc.finBad = true → (nextMain c ops s).success = false → Loud (nextMain c ops s) := by
  induction ops generalizing s with
  | nil => unfold nextMain; exact fun _ => sad_finish c _
  | cons op r ih =>
    cases op <;> unfold nextMain
    · split
      · rename_i h; exact fun _ _ => (sad_ioFail c s (Or.inr h)).1
      · exact ih s
    · split
      · exact ih s
      · intro h; simp [Pc.finBad, Pc.fin, Pc.bad] at h
    · split
      · exact ih s
      · split
        · exact ih _
        · split
          · exact ih s
          · split <;> (intro h; simp [Pc.finBad, Pc.fin, Pc.bad] at h)
    · split
      · exact ih s
      · intro h; simp [Pc.finBad, Pc.fin, Pc.bad] at h

theorem sad_doInit (s : St α) : (doInit c s).pc.finBad = true → (doInit c s).success = false → Loud (doInit c s) := by
  unfold doInit; simp only
  split
  · exact fun _ _ => (sad_ioFail c _ (Or.inl (by simp [msgError]))).1
  · split
    · rename_i h; exact fun _ _ => (sad_ioFail c { s with main := true, ops := c.ops } (Or.inr h)).1
    · split
      · exact sad_nextMain c _ _
      · split
        · intro h; simp [Pc.finBad, Pc.fin, Pc.bad] at h
        · split
          · intro h; simp [Pc.finBad, Pc.fin, Pc.bad] at h
          · split <;> (intro h; simp [Pc.finBad, Pc.fin, Pc.bad] at h)

theorem sad_nextPre (ops : List (Op α)) (s : St α) :
    (nextPre c ops s).pc.finBad = true → (nextPre c ops s).success = false → Loud (nextPre c ops s) := by
  induction ops generalizing s with
  | nil => unfold nextPre; exact sad_doInit c s
  | cons op r ih =>
    cases op <;> unfold nextPre
    · exact ih s
    · split
      · exact ih s
      · intro h; simp [Pc.finBad, Pc.fin, Pc.bad] at h
    · exact ih s
    · exact ih s

theorem sad_continueLoop (s : St α) :
    (continueLoop c s).pc.finBad = true → (continueLoop c s).success = false → Loud (continueLoop c s) := by
  unfold continueLoop; split
  · exact sad_nextMain c _ s
  · exact sad_nextPre c _ s

theorem sad_afterWrite (s : St α) :
    (afterWrite c s).pc.finBad = true → (afterWrite c s).success = false → Loud (afterWrite c s) := by
  unfold afterWrite; split
  · rename_i h; intro _ h2; rw [closeBlock_success, h] at h2; simp at h2
  · exact sad_continueLoop c s

/-! ### only openDestErr stops at closeDirErr -/

theorem closing_ne_closeDirErr {p : Pc} (h : p.closing = true) : p ≠ .closeDirErr := by
  intro e; rw [e] at h; simp [Pc.closing] at h
theorem finish_ne_closeDirErr (s : St α) : (finish c s).pc ≠ .closeDirErr := closing_ne_closeDirErr (finish_closing c s)
theorem nextMain_ne_closeDirErr (ops : List (Op α)) (s : St α) : (nextMain c ops s).pc ≠ .closeDirErr := by
  induction ops generalizing s with
  | nil => unfold nextMain; exact finish_ne_closeDirErr c _
  | cons op r ih =>
    cases op <;> unfold nextMain
    · split
      · exact closing_ne_closeDirErr (ioFail_closing c _)
      · exact ih s
    · split
      · exact ih s
      · simp
    · split
      · exact ih s
      · split
        · exact ih _
        · split
          · exact ih s
          · split <;> simp
    · split
      · exact ih s
      · simp
theorem doInit_ne_closeDirErr (s : St α) : (doInit c s).pc ≠ .closeDirErr := by
  unfold doInit; simp only
  split
  · exact closing_ne_closeDirErr (ioFail_closing c _)
  · split
    · exact closing_ne_closeDirErr (ioFail_closing c _)
    · split
      · exact nextMain_ne_closeDirErr c _ _
      · split
        · simp
        · split
          · simp
          · split <;> simp
theorem nextPre_ne_closeDirErr (ops : List (Op α)) (s : St α) : (nextPre c ops s).pc ≠ .closeDirErr := by
  induction ops generalizing s with
  | nil => unfold nextPre; exact doInit_ne_closeDirErr c s
  | cons op r ih =>
    cases op <;> unfold nextPre
    · exact ih s
    · split
      · exact ih s
      · simp
    · exact ih s
    · exact ih s
theorem continueLoop_ne_closeDirErr (s : St α) : (continueLoop c s).pc ≠ .closeDirErr := by
  unfold continueLoop; split
  · exact nextMain_ne_closeDirErr c _ s
  · exact nextPre_ne_closeDirErr c _ s
theorem afterWrite_ne_closeDirErr (s : St α) : (afterWrite c s).pc ≠ .closeDirErr := by
  unfold afterWrite; split
  · exact closing_ne_closeDirErr (closeBlock_closing c s)
  · exact continueLoop_ne_closeDirErr c s

/-! ### step lemmas -/

theorem landing_notEarly {p : Pc} (h : p.landing = true) : p.early = false := by
  cases p <;> simp_all [Pc.landing, Pc.early]

/-- (A) the step ends in ioFail for a stated reason -/
theorem q7_ioFail (s1 : St α) (h : Loud s1) : Q7 (ioFail c s1) :=
  ⟨fun _ _ => (sad_ioFail c s1 h).1, fun _ => ⟨Or.inl (sad_ioFail c s1 h).2.1, (sad_ioFail c s1 h).2.2⟩,
   fun _ => (sad_ioFail c s1 h).2.1, fun e => absurd e (closing_ne_closeDirErr (ioFail_closing c s1))⟩

/-- (B) a step from the middle of the run that goes on with the coding loop -/
theorem q7_loop {s s1 : St α} (q : Q7 s) (hnf : s.pc.finBad = false) {ev : Event} (ht : s1.trace = ev :: s.trace)
    (hev : hardErr ev = false) : Q7 (continueLoop c s1) := by
  refine ⟨sad_continueLoop c s1, ?_, ?_, ?_⟩
  · rintro ⟨e, he, hh⟩
    rw [continueLoop_trace, ht] at he
    rcases List.mem_cons.mp he with rfl | he
    · rw [hev] at hh; simp at hh
    · have := (q.hard ⟨e, he, hh⟩).2; rw [hnf] at this; simp at this
  · intro h; rw [landing_notEarly (continueLoop_landing c s1)] at h; simp at h
  · exact fun e => absurd e (continueLoop_ne_closeDirErr c s1)

theorem q7_afterWrite {s s1 : St α} (q : Q7 s) (hnf : s.pc.finBad = false) {ev : Event} (ht : s1.trace = ev :: s.trace)
    (hev : hardErr ev = false) : Q7 (afterWrite c s1) := by
  refine ⟨sad_afterWrite c s1, ?_, ?_, ?_⟩
  · rintro ⟨e, he, hh⟩
    rw [afterWrite_trace, ht] at he
    rcases List.mem_cons.mp he with rfl | he
    · rw [hev] at hh; simp at hh
    · have := (q.hard ⟨e, he, hh⟩).2; rw [hnf] at this; simp at this
  · intro h; rw [landing_notEarly (afterWrite_landing c s1)] at h; simp at h
  · exact fun e => absurd e (afterWrite_ne_closeDirErr c s1)

omit c in
/-- (C) a step from the middle of the run to the middle of the run -/
theorem q7_mid {s s' : St α} (q : Q7 s) (hnf : s.pc.finBad = false) {ev : Event} (ht : s'.trace = ev :: s.trace)
    (hev : hardErr ev = false) (hp : s'.pc.finBad = false) (he : s'.pc.early = true → s'.success = false) : Q7 s' := by
  refine ⟨fun h => by rw [hp] at h; simp at h, ?_, he,
    fun e => by rw [e] at hp; simp [Pc.finBad, Pc.fin, Pc.bad] at hp⟩
  rintro ⟨e, hm, hh⟩
  rw [ht] at hm
  rcases List.mem_cons.mp hm with rfl | hm
  · rw [hev] at hh; simp at hh
  · have := (q.hard ⟨e, hm, hh⟩).2; rw [hnf] at this; simp at this

omit c in
/-- (D) a step that ends the run (or enters its failure path) unsuccessfully and says so -/
theorem q7_end {s' : St α} (hs : s'.success = false) (hp : s'.pc.finBad = true) (hl : Loud s')
    (hn : s'.pc ≠ .closeDirErr) : Q7 s' :=
  ⟨fun _ _ => hl, fun _ => ⟨Or.inl hs, hp⟩, fun _ => hs, fun e => absurd e hn⟩

omit c in
/-- (E) a step inside io_close: success is kept, or dropped together with an error message -/
theorem q7_close {s s1 s' : St α} (q : Q7 s) (hfb : s.pc.finBad = true) (hncd : s.pc ≠ .closeDirErr) (fr : Frame s1 s') (hsucc : s'.success = s1.success)
    (hpc' : s'.pc.finBad = true) (hne : s'.pc.early = false) (hn' : s'.pc ≠ .closeDirErr) {ev : Event} (ht : s1.trace = ev :: s.trace)
    (hexit : s.exitSt ≠ 0 → s1.exitSt ≠ 0) (hua : s1.userAbort = s.userAbort)
    (hcase : (s1.success = s.success ∧ hardErr ev = false) ∨ (s1.success = false ∧ s1.exitSt ≠ 0)) : Q7 s' := by
  have loud1 : Loud s → Loud s1 := by
    rintro (h | h)
    · exact Or.inl (hexit h)
    · exact Or.inr (by rw [hua]; exact h)
  refine ⟨?_, ?_, fun h => by rw [hne] at h; simp at h, fun e => absurd e hn'⟩
  · intro _ hs
    rw [hsucc] at hs
    rcases hcase with ⟨e1, _⟩ | ⟨_, e2⟩
    · rw [e1] at hs; exact (loud1 (q.sad hfb hs)).frame fr
    · exact Loud.frame fr (Or.inl e2)
  · rintro ⟨e, hm, hh⟩
    rw [fr.trace, ht] at hm
    refine ⟨Or.inl ?_, hpc'⟩
    rw [hsucc]
    rcases hcase with ⟨e1, e2⟩ | ⟨e1, _⟩
    · rcases List.mem_cons.mp hm with rfl | hm
      · rw [e2] at hh; simp at hh
      · rw [e1]
        rcases (q.hard ⟨e, hm, hh⟩).1 with h | h
        · exact h
        · exact absurd h hncd
    · exact e1

omit c in
/-- the error exit of io_open_dest_real with the directory still open: the failure is recorded, `success` is untouched
    until the next step (ioFail) -/
theorem q7_closeDirErr {s' : St α} (hp : s'.pc = .closeDirErr) (hl : s'.exitSt ≠ 0) : Q7 s' :=
  ⟨fun _ _ => Or.inl hl, fun _ => ⟨Or.inr hp, by rw [hp]; rfl⟩, fun h => by rw [hp] at h; simp [Pc.early] at h, fun _ => hl⟩

end XzVerif.XzIo
