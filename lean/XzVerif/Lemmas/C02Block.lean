/-
  Helper lemmas for C02: Block Header size, encoding and round trip.
-/
import XzVerif.Lemmas.C02Filter

namespace XzVerif.Container
open XzVerif XzVerif.Vli

/-- Pointwise relation between two lists of the same length (core Lean has no `List.Forall₂`). -/
inductive Forall2 {α β : Type} (R : α → β → Prop) : List α → List β → Prop
  | nil : Forall2 R [] []
  | cons {a b as bs} : R a b → Forall2 R as bs → Forall2 R (a :: as) (b :: bs)

/-- Relation between an encoder-side filter (options) and the raw Filter Flags entry a decoder reads back. -/
def FilterMatches (o : FilterOpts) (r : Filter) : Prop :=
  r.id = o.id ∧ propsEncode o = .ok r.props ∧ ∃ o', propsDecode r.id r.props = .ok o' ∧ decodesTo o o'

def optBytes : Option Nat → List UInt8
  | none => []
  | some v => vliEncode v

theorem encOptVli_ok (o : Option Nat) (avail : Nat) (x : List UInt8) (h : encOptVli o avail = .ok x) :
    x = optBytes o ∧ x.length ≤ avail ∧ (∀ v, o = some v → v ≤ VLI_MAX) := by
  cases o with
  | none =>
    simp only [encOptVli, Except.ok.injEq] at h
    subst h
    simp [optBytes]
  | some v =>
    simp only [encOptVli] at h
    obtain ⟨h1, h2, h3⟩ := vliEncodeSingle_ok v avail x h
    refine ⟨by simp [optBytes, h1], h3, ?_⟩
    intro w hw
    cases hw
    exact h2

theorem decOptVli_enc (o : Option Nat) (hv : ∀ v, o = some v → v ≤ VLI_MAX) (t : List UInt8) :
    decOptVli o.isSome (optBytes o ++ t) = .ok (o, t) := by
  cases o with
  | none => simp [decOptVli, optBytes]
  | some v => simp [decOptVli, optBytes, vliDecode_encode v (hv v rfl)]

/-- Inversion of the filter loop of `lzma_block_header_encode`, together with what the decoder's loop reads back. -/
theorem headerEncodeFilters_ok : ∀ (fs : List FilterOpts) (count avail : Nat) (ffb : List UInt8),
    (∀ o ∈ fs, o.wf) → count ≤ 4 → headerEncodeFilters fs count avail = .ok ffb →
    count + fs.length ≤ 4 ∧ ffb.length ≤ avail ∧
    ∃ raws, Forall2 FilterMatches fs raws ∧ ∀ t, headerDecodeFilters fs.length (ffb ++ t) = .ok (raws, t) := by
  intro fs
  induction fs with
  | nil =>
    intro count avail ffb _ hc h
    simp only [headerEncodeFilters, Except.ok.injEq] at h
    subst h
    exact ⟨by simpa using hc, by simp, [], Forall2.nil, fun t => by simp [headerDecodeFilters]⟩
  | cons o rest ih =>
    intro count avail ffb hw hc h
    simp only [headerEncodeFilters] at h
    by_cases h4 : count = FILTERS_MAX
    · simp [h4] at h
    · simp only [h4, if_false] at h
      have hc3 : count + 1 ≤ 4 := by simp only [FILTERS_MAX] at h4; omega
      cases h1 : filterFlagsEncodeOpts o avail with
      | error e => simp [h1] at h
      | ok bs =>
        simp only [h1] at h
        cases h2 : headerEncodeFilters rest (count + 1) (avail - bs.length) with
        | error e => simp [h2] at h
        | ok more =>
          simp only [h2, Except.ok.injEq] at h
          subst h
          obtain ⟨props, o', hpe, hbs, hlen, hpd, hrel, hdec⟩ :=
            filterFlags_roundtrip o (hw o (List.mem_cons_self ..)) avail bs h1
          obtain ⟨hcnt, hmlen, raws, hfa, hdecs⟩ :=
            ih (count + 1) (avail - bs.length) more (fun x hx => hw x (List.mem_cons_of_mem _ hx)) hc3 h2
          refine ⟨by simp only [List.length_cons]; omega, by simp only [List.length_append]; omega,
            ⟨o.id, props⟩ :: raws, Forall2.cons ⟨rfl, hpe, o', hpd, hrel⟩ hfa, ?_⟩
          intro t
          simp only [List.length_cons, headerDecodeFilters, List.append_assoc, hdec, hdecs]

theorem headerSizeFilters_ok : ∀ (fs : List FilterOpts) (i size out : Nat),
    headerSizeFilters fs i size = .ok out →
    ∃ adds, Forall2 (fun o a => filterFlagsSize o = .ok a) fs adds ∧ out = size + adds.sum := by
  intro fs
  induction fs with
  | nil =>
    intro i size out h
    simp only [headerSizeFilters, Except.ok.injEq] at h
    exact ⟨[], Forall2.nil, by simp [h]⟩
  | cons o rest ih =>
    intro i size out h
    simp only [headerSizeFilters] at h
    by_cases h4 : i = FILTERS_MAX
    · simp [h4] at h
    · simp only [h4, if_false] at h
      cases h1 : filterFlagsSize o with
      | error e => simp [h1] at h
      | ok add =>
        simp only [h1] at h
        obtain ⟨adds, hfa, hout⟩ := ih (i + 1) (size + add) out h
        exact ⟨add :: adds, Forall2.cons h1 hfa, by simp only [List.sum_cons]; omega⟩

/-- What `lzma_block_unpadded_size(block) != 0` guarantees. -/
theorem blockUnpaddedSize_ne_zero (version hs check : Nat) (cs : Option Nat)
    (h : blockUnpaddedSize version hs check cs ≠ 0) :
    version ≤ 1 ∧ 8 ≤ hs ∧ hs ≤ 1024 ∧ hs % 4 = 0 ∧ check ≤ 15 ∧ cs ≠ some 0 ∧
    (∀ c, cs = some c → c ≤ VLI_MAX ∧ c + hs + checkSize check ≤ UNPADDED_SIZE_MAX) := by
  unfold blockUnpaddedSize at h
  by_cases hg : version > 1 ∨ hs < BLOCK_HEADER_SIZE_MIN ∨ hs > BLOCK_HEADER_SIZE_MAX ∨ hs % 4 ≠ 0
      ∨ (!vliIsValid cs) = true ∨ cs = some 0 ∨ check > CHECK_ID_MAX
  · rw [if_pos hg] at h; exact absurd rfl h
  · rw [if_neg hg] at h
    simp only [BLOCK_HEADER_SIZE_MIN, BLOCK_HEADER_SIZE_MAX, CHECK_ID_MAX, not_or] at hg
    obtain ⟨g1, g2, g3, g4, g5, g6, g7⟩ := hg
    refine ⟨by omega, by omega, by omega, by omega, by omega, g6, ?_⟩
    intro c hc
    subst hc
    simp only [vliIsValid, Bool.not_eq_true', decide_eq_false_iff_not, Decidable.not_not] at g5
    refine ⟨g5, ?_⟩
    simp only at h
    by_cases hu : c + hs + checkSize check > UNPADDED_SIZE_MAX
    · rw [if_pos hu] at h; exact absurd rfl h
    · omega

theorem blockUnpaddedSize_version (v1 v2 hs check : Nat) (cs : Option Nat) (h1 : v1 ≤ 1) (h2 : v2 ≤ 1) :
    blockUnpaddedSize v1 hs check cs = blockUnpaddedSize v2 hs check cs := by
  unfold blockUnpaddedSize
  have e1 : (v1 > 1) = False := by simp; omega
  have e2 : (v2 > 1) = False := by simp; omega
  simp only [e1, e2]

theorem blockFlagsByte_bits (n : Nat) (hn1 : 1 ≤ n) (hn4 : n ≤ 4) (a b : Bool) :
    blockFlagsByte n a b < 256 ∧ blockFlagsByte n a b / 4 % 16 = 0 ∧
    (decide (blockFlagsByte n a b / 64 % 2 = 1) = a) ∧ (decide (blockFlagsByte n a b / 128 % 2 = 1) = b) ∧
    blockFlagsByte n a b % 4 + 1 = n := by
  unfold blockFlagsByte
  cases a <;> cases b <;> simp <;> omega

/-- Everything `lzma_block_header_encode` guarantees about its output, in one inversion lemma. -/
theorem blockHeaderEncodeWith_ok (version hs check : Nat) (cs us : Option Nat) (fs : List FilterOpts) (b : List UInt8)
    (hw : ∀ o ∈ fs, o.wf) (h : blockHeaderEncodeWith version hs check cs us fs = .ok b) :
    blockUnpaddedSize version hs check cs ≠ 0 ∧ (∀ v, us = some v → v ≤ VLI_MAX) ∧ 1 ≤ fs.length ∧ fs.length ≤ 4 ∧
    ∃ ffb raws body,
      Forall2 FilterMatches fs raws ∧ (∀ t, headerDecodeFilters fs.length (ffb ++ t) = .ok (raws, t)) ∧
      body = [UInt8.ofNat ((hs - 4) / 4), UInt8.ofNat (blockFlagsByte fs.length cs.isSome us.isSome)]
              ++ optBytes cs ++ optBytes us ++ ffb ∧
      body.length ≤ hs - 4 ∧
      b = body ++ List.replicate (hs - 4 - body.length) (0 : UInt8)
            ++ le32 (crc32 (body ++ List.replicate (hs - 4 - body.length) (0 : UInt8))) := by
  unfold blockHeaderEncodeWith at h
  by_cases hg : blockUnpaddedSize version hs check cs = 0 ∨ (!vliIsValid us) = true
  · rw [if_pos hg] at h; simp at h
  · rw [if_neg hg] at h
    simp only [not_or] at hg
    obtain ⟨hu, hus⟩ := hg
    have husv : ∀ v, us = some v → v ≤ VLI_MAX := by
      intro v hv; subst hv
      simpa [vliIsValid] using hus
    simp only at h
    cases h1 : encOptVli cs (hs - 4 - 2) with
    | error e => simp [h1] at h
    | ok csb =>
      simp only [h1] at h
      obtain ⟨hcsb, hcslen, -⟩ := encOptVli_ok _ _ _ h1
      cases h2 : encOptVli us (hs - 4 - 2 - csb.length) with
      | error e => simp [h2] at h
      | ok usb =>
        simp only [h2] at h
        obtain ⟨husb, huslen, -⟩ := encOptVli_ok _ _ _ h2
        by_cases he : fs.isEmpty = true
        · simp [he] at h
        · simp only [he, Bool.false_eq_true, if_false] at h
          cases h3 : headerEncodeFilters fs 0 (hs - 4 - 2 - csb.length - usb.length) with
          | error e => simp [h3] at h
          | ok ffb =>
            simp only [h3, Except.ok.injEq] at h
            obtain ⟨hcnt, hfflen, raws, hfa, hdecs⟩ := headerEncodeFilters_ok fs 0 _ ffb hw (by omega) h3
            have hne : 1 ≤ fs.length := by
              cases fs with
              | nil => simp at he
              | cons _ _ => simp
            have hs8 := (blockUnpaddedSize_ne_zero _ _ _ _ hu).2.1
            refine ⟨hu, husv, hne, by omega, ffb, raws, _, hfa, hdecs, rfl, ?_, ?_⟩
            · subst hcsb husb
              simp only [List.length_append, List.length_cons, List.length_nil]
              omega
            · subst hcsb husb
              exact h.symm

/-- `lzma_block_header_decode` reads back exactly what `lzma_block_header_encode` was given. -/
theorem blockHeader_roundtrip (version hs check : Nat) (cs us : Option Nat) (fs : List FilterOpts) (b t : List UInt8)
    (hw : ∀ o ∈ fs, o.wf) (h : blockHeaderEncodeWith version hs check cs us fs = .ok b) :
    b.length = hs ∧ hs % 4 = 0 ∧ 8 ≤ hs ∧ hs ≤ 1024 ∧ ((b.getD 0 0).toNat + 1) * 4 = hs ∧
    ∃ raws, Forall2 FilterMatches fs raws ∧
      blockHeaderDecode check (b ++ t) = .ok { compressedSize := cs, uncompressedSize := us, filters := raws } := by
  obtain ⟨hu, husv, hn1, hn4, ffb, raws, body, hfa, hdecs, hbody, hblen, hb⟩ :=
    blockHeaderEncodeWith_ok version hs check cs us fs b hw h
  obtain ⟨hver, hs8, hs1024, hs4, hchk, hcs0, hcsv⟩ := blockUnpaddedSize_ne_zero _ _ _ _ hu
  obtain ⟨hfl256, hflres, hflcs, hflus, hfln⟩ := blockFlagsByte_bits fs.length hn1 hn4 cs.isSome us.isSome
  generalize hz : List.replicate (hs - 4 - body.length) (0 : UInt8) = zeros at hb
  have hzlen : zeros.length = hs - 4 - body.length := by rw [← hz]; simp
  have hfull : (body ++ zeros).length = hs - 4 := by simp only [List.length_append, hzlen]; omega
  have hblen' : b.length = hs := by
    rw [hb]; simp only [List.length_append, le32_length] at hfull ⊢; omega
  have hsz : (hs - 4) / 4 < 256 := by omega
  -- first two bytes
  have hb0 : (b ++ t).getD 0 0 = UInt8.ofNat ((hs - 4) / 4) := by rw [hb, hbody]; simp
  have hb1 : (b ++ t).getD 1 0 = UInt8.ofNat (blockFlagsByte fs.length cs.isSome us.isSome) := by rw [hb, hbody]; simp
  have hb0' : (b.getD 0 0).toNat = (hs - 4) / 4 := by
    have : b.getD 0 0 = UInt8.ofNat ((hs - 4) / 4) := by rw [hb, hbody]; simp
    rw [this, u8_toNat_ofNat _ hsz]
  have hsize : ((hs - 4) / 4 + 1) * 4 = hs := by omega
  refine ⟨hblen', hs4, hs8, hs1024, by rw [hb0']; exact hsize, raws, hfa, ?_⟩
  unfold blockHeaderDecode blockHeaderDecodeWith
  rw [hb0, hb1, u8_toNat_ofNat _ hsz, u8_toNat_ofNat _ hfl256, hsize]
  have g1 : ¬ (hs ≠ hs ∨ check > CHECK_ID_MAX) := by simp [CHECK_ID_MAX]; omega
  have g2 : ¬ ((b ++ t).length < hs) := by simp only [List.length_append]; omega
  rw [if_neg g1, if_neg g2]
  have htake : (b ++ t).take (hs - 4) = body ++ zeros := by
    rw [hb, List.append_assoc, List.append_assoc, ← List.append_assoc body]
    exact List.take_left' hfull
  have hdrop : (b ++ t).drop (hs - 4) = le32 (crc32 (body ++ zeros)) ++ t := by
    rw [hb, List.append_assoc, List.append_assoc, ← List.append_assoc body]
    exact List.drop_left' hfull
  simp only [htake, hdrop, rd32_le32_crc]
  have g3 : ¬ (crc32 (body ++ zeros) ≠ crc32 (body ++ zeros)) := by simp
  have g4 : ¬ (blockFlagsByte fs.length cs.isSome us.isSome / 4 % 16 ≠ 0) := by simp [hflres]
  rw [if_neg g3, if_neg g4]
  have hdrop2 : (body ++ zeros).drop 2 = optBytes cs ++ (optBytes us ++ (ffb ++ zeros)) := by
    rw [hbody]; simp
  rw [hdrop2, hflcs, decOptVli_enc cs (fun v hv => (hcsv v hv).1)]
  simp only
  have g5 : ¬ (cs.isSome = true ∧ blockUnpaddedSize 1 hs check cs = 0) := by
    rw [blockUnpaddedSize_version 1 version hs check cs (by omega) hver]
    intro hc; exact hu hc.2
  rw [if_neg g5, hflus, decOptVli_enc us husv]
  simp only [hfln, hdecs]
  have hz0 : ∀ x ∈ zeros, x = 0 := by
    intro x hx
    rw [← hz] at hx
    exact (List.mem_replicate.mp hx).2
  simp
  exact hz0

end XzVerif.Container
