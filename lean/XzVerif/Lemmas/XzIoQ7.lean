/- C17 invariant Q7: assembled step theorem. -/
import XzVerif.Lemmas.XzIoQ7b
import XzVerif.Lemmas.XzIoQ6

namespace XzVerif.XzIo
variable {α : Type}

theorem q7_exec {c : Cfg α} {s : St α} (q : Q7 s) : Q7 (exec c s) := by
  cases hpc : s.pc with
  | openSrc => exact q7_exec_openSrc q hpc
  | fstatSrc => exact q7_exec_fstatSrc q hpc
  | closeSrcErr => exact q7_exec_closeSrcErr q hpc
  | openDir => exact q7_exec_openDir q hpc
  | unlinkForce => exact q7_exec_unlinkForce q hpc
  | openDest => exact q7_exec_openDest q hpc
  | closeDirErr => exact q7_exec_closeDirErr q hpc
  | fstatDest => exact q7_exec_fstatDest q hpc
  | lseekOut => exact q7_exec_lseekOut q hpc
  | read => exact q7_exec_read q hpc
  | readPoll => exact q7_exec_readPoll q hpc
  | write => exact q7_exec_write q hpc
  | writePoll => exact q7_exec_writePoll q hpc
  | seekHole => exact q7_exec_seekHole q hpc
  | fixPos => exact q7_exec_fixPos q hpc
  | tailSeek => exact q7_exec_tailSeek q hpc
  | fchownUid => exact q7_exec_attrs q (Or.inl hpc)
  | fchownGid => exact q7_exec_attrs q (Or.inr (Or.inl hpc))
  | fchmod => exact q7_exec_attrs q (Or.inr (Or.inr hpc))
  | futimens => exact q7_exec_futimens q hpc
  | fsyncFile => exact q7_exec_fsyncFile q hpc
  | fsyncDir => exact q7_exec_fsyncDir q hpc
  | closeDir => exact q7_exec_closeDir q hpc
  | closeDest => exact q7_exec_closeDest q hpc
  | statDest => exact q7_exec_statDest q hpc
  | unlinkDest => exact q7_exec_unlinkDest q hpc
  | closeSrc => exact q7_exec_closeSrc q hpc
  | statSrc => exact q7_exec_statSrc q hpc
  | unlinkSrc => exact q7_exec_unlinkSrc q hpc
  | done => unfold exec; simp only [hpc]; exact q

theorem preActions_exitSt {c : Cfg α} {s : St α} : (preActions c s).exitSt = s.exitSt := by
  unfold preActions; simp only; split <;> (try split) <;> (try split) <;> rfl

theorem preActions_userAbort_mono {c : Cfg α} {s : St α} (h : s.userAbort = true) : (preActions c s).userAbort = true := by
  unfold preActions; simp only; split <;> (try split) <;> (try split) <;> first | rfl | exact h

theorem q7_preActions {c : Cfg α} {s : St α} (q : Q7 s) : Q7 (preActions c s) := by
  refine ⟨?_, ?_, ?_, ?_⟩
  · rw [preActions_pc', preActions_success]
    intro h1 h2
    rcases q.sad h1 h2 with h | h
    · exact Or.inl (by rw [preActions_exitSt]; exact h)
    · exact Or.inr (preActions_userAbort_mono h)
  · rw [preActions_trace, preActions_pc', preActions_success]; exact q.hard
  · rw [preActions_pc', preActions_success]; exact q.early
  · rw [preActions_pc', preActions_exitSt]; exact q.cde

theorem q7_step {c : Cfg α} {s : St α} (q : Q7 s) : Q7 (step c s) := by
  unfold step
  split
  · exact q
  · exact q7_exec (q7_preActions q)

theorem q7_runN {c : Cfg α} (n : Nat) (s : St α) (q : Q7 s) : Q7 (runN c n s) := by
  induction n generalizing s with
  | zero => exact q
  | succ n ih => exact ih _ (q7_step q)

theorem q7_start {c : Cfg α} (de : Bool) (k0 e0 : Nat) : Q7 (start c de k0 e0) := by
  unfold start
  simp only
  split
  · refine ⟨sad_continueLoop c _, ?_, ?_, fun e => absurd e (continueLoop_ne_closeDirErr c _)⟩
    · rw [continueLoop_trace]; simp
    · intro h; rw [landing_notEarly (continueLoop_landing c _)] at h; simp at h
  · exact ⟨fun h => by simp [Pc.finBad, Pc.fin, Pc.bad] at h, by simp, fun _ => rfl, fun h => by simp at h⟩

end XzVerif.XzIo
