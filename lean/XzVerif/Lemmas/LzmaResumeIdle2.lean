/-
  "Starved calls are idle", LZMA2 level: `codeIdle_lzma2 : L1Idle → CodeIdle P2 lzma2CallR`
  (interface: Lemmas/LzmaResumeIdleDefs.lean; step decomposition of `lzma2CallR`: Lemmas/LzmaResumeL2.lean).
  A call of `lzma2_decode` that returned LZMA_OK without a reset request and with dictionary room left stopped in one of three
  ways: the loop guard failed (input exhausted outside SEQ_LZMA), the LZMA decoder returned LZMA_OK (then `L1Idle` applies), or
  SEQ_COPY copied all the input there was. In each case a fresh call with the same input finds nothing to do.
-/
import XzVerif.Lemmas.LzmaResumeL2
import XzVerif.Lemmas.LzmaResumeIdleDefs

namespace XzVerif.LzmaR
open XzVerif.RangeDec XzVerif.LzDict XzVerif.Lzma XzVerif.Lzma2

theorem lzma2CallR_done (r : RSt) (x : Ret × RSt) (h : l2StepR r = .done x) : lzma2CallR r = x := by
  have e : lzma2CallR r = lzma2LoopR (2 * (r.s.inp.size - r.s.inPos) + 3 + 1) r := by unfold lzma2CallR; rfl
  rw [e, lzma2LoopR_succ, h]
  simp only [runStepR]

theorem l2LzmaR_idle (w : RSt) : l2LzmaR w.s.inPos (.ok, w) = .done (.ok, w) := by
  rw [l2LzmaR_eq]
  show (if w.s.inPos - w.s.inPos > w.s.l2.compressedSize then _
    else lzTail .ok w (w.s.l2.compressedSize - (w.s.inPos - w.s.inPos))) = _
  rw [Nat.sub_self, if_neg (Nat.not_lt_zero _)]
  rfl

theorem l2LzmaR_done_ok (i : Nat) (x1 x : Ret × RSt) (h : l2LzmaR i x1 = .done x) (hok : x.1 = .ok) :
    x1.1 = .ok ∧ ∃ c : Nat, x.2 = x1.2.map fun s => setL2 s fun l => { l with compressedSize := c } := by
  rw [l2LzmaR_eq] at h
  by_cases hov : x1.2.s.inPos - i > x1.2.s.l2.compressedSize
  · rw [if_pos hov] at h
    injection h with h
    rw [← h] at hok
    cases hok
  · rw [if_neg hov] at h
    unfold lzTail at h
    simp only [] at h
    by_cases hse : (x1.1 != .streamEnd) = true
    · rw [if_pos hse] at h
      injection h with h
      rw [← h] at hok ⊢
      exact ⟨hok, _, rfl⟩
    · rw [if_neg hse] at h
      split at h
      · injection h with h
        rw [← h] at hok
        cases hok
      · cases h

theorem idle_last (i1 : L1Idle) (s1 : L1Spec) (f1 : L1L2Frame) (r : RSt) (b : ByteArray) (L L' : Nat) (hP : P2 r)
    (hag0 : Agree r.s.inPos r.s.inp b) (hin : r.s.inPos ≤ b.size) (hlim : r.s.dp.pos ≤ L) (hL : L ≤ L')
    (x : Ret × RSt) (hsx : l2StepR (r.view b L) = .done x) (hok : x.1 = .ok) (hnr : x.2.s.dp.needReset = false)
    (hpos : x.2.s.dp.pos < L) : l2StepR (x.2.view b L') = .done (.ok, x.2.view b L') := by
  by_cases hq : r.s.l2.seq = .lzma
  · rw [l2StepR_lzma (r.view b L) hq] at hsx
    have hsx' : l2LzmaR r.s.inPos (lzmaCallR (r.view b L)) = .done x := hsx
    have hpre : Pre1 r b L := ⟨hin, hlim, hag0, hP.2.1, Or.inl hP.1.1⟩
    have hi := i1 r b L L' hpre hL
    obtain ⟨hspx, hwr, _, _, _, _, _, _⟩ := s1 (r.view b L) (symPre_view r b L hP.2.1 hag0) hin hlim
    generalize hx1 : lzmaCallR (r.view b L) = x1 at hsx' hi hspx hwr
    obtain ⟨hok1, c, hg⟩ := l2LzmaR_done_ok _ _ _ hsx' hok
    have hpos1 : x1.2.s.dp.pos < L := by rw [hg] at hpos; exact hpos
    have hsame := hi hok1 hpos1
    have hxb : x1.2.s.inPos ≤ b.size := by
      have h := hwr.pos_le hin
      rw [hwr.inp] at h
      exact h
    have hxl : x1.2.s.dp.pos ≤ L' := Nat.le_trans (Nat.le_of_lt hpos1) hL
    have hagx : Agree x1.2.s.inPos x1.2.s.inp b := by
      rw [hwr.inp]
      exact ⟨hxb, hxb, fun _ _ _ _ => rfl⟩
    obtain ⟨_, hwz, _, _, _, _, _, _⟩ := s1 (x1.2.view b L') (symPre_view x1.2 b L' hspx hagx) hxb hxl
    generalize hz1 : lzmaCallR (x1.2.view b L') = z1 at hsame hwz
    have ez : z1 = (.ok, x1.2.view b L') := by
      have e2 : z1.2 = x1.2.view b L' :=
        RSt.eq_of_norm (hsame.2.trans (RSt.norm_view x1.2 b L').symm) hwz.inp hwz.limit
      exact Prod.ext (hsame.1.trans hok1) e2
    have hseq : (x.2.view b L').s.l2.seq = .lzma := by
      rw [hg]
      show x1.2.s.l2.seq = .lzma
      rw [hwr.l2]
      exact hq
    rw [l2StepR_lzma _ hseq]
    have e : x.2.view b L' = (x1.2.view b L').map fun s => setL2 s fun l => { l with compressedSize := c } := by
      rw [hg]; rfl
    have ec : lzmaCallR (x.2.view b L') = (.ok, x.2.view b L') := by
      rw [e, f1, hz1, ez]
    rw [ec]
    exact l2LzmaR_idle _
  · by_cases hb : r.s.inPos < b.size
    · by_cases hc : r.s.l2.seq = .copy
      · rw [l2StepR_copy (r.view b L) hc hb] at hsx
        have hsx' : liftStep (r.view b L) (l2Copy (vw r.s b L)) = .done x := hsx
        rw [l2Copy_eq] at hsx'
        generalize hn1 : copyCount (vw r.s b L) = n1 at hsx'
        have en1 : n1 = min (min (b.size - r.s.inPos) r.s.l2.compressedSize) (L - r.s.dp.pos) := hn1.symm
        have hsx2 : liftStep (r.view b L) (l2CopyWith (vw r.s b L) n1 (appendSlice b n1 r.s.inPos r.s.hist)) = .done x := hsx'
        rw [l2CopyWith_vw, liftStep_view] at hsx2
        by_cases hz : r.s.l2.compressedSize - n1 = 0
        · rw [l2CopyWith_eq, if_neg (by simp [hz])] at hsx2
          cases hsx2
        · rw [l2CopyWith_more r.s n1 _ hz] at hsx2
          have ex : x = (.ok, ({ r with s := copySt r.s n1 (appendSlice b n1 r.s.inPos r.s.hist) } : RSt).view b L) := by
            injection hsx2 with h
            exact h.symm
          rw [ex] at hpos ⊢
          have hpos' : r.s.dp.pos + n1 < L := hpos
          exact l2StepR_starve
            ((({ r with s := copySt r.s n1 (appendSlice b n1 r.s.inPos r.s.hist) } : RSt).view b L).view b L')
            (show r.s.l2.seq ≠ .lzma from hq) (show ¬ r.s.inPos + n1 < b.size by omega)
      · rw [l2StepR_byte (r.view b L) hq hc hb] at hsx
        have hsx' : liftStep (r.view b L) (l2Byte r.s.l2.seq (vw r.s b L) (curByte (r.view b L).s)) = .done x := hsx
        rw [l2Byte_vw, liftStep_view] at hsx'
        have hy := yields_lift_view r _ b L (l2Byte_yields r.s.l2.seq r.s (curByte (r.view b L).s))
        rw [hsx'] at hy
        have := hy hok
        rw [hnr] at this
        cases this
    · rw [l2StepR_starve (r.view b L) hq hb] at hsx
      injection hsx with h
      rw [← h]
      exact l2StepR_starve ((r.view b L).view b L') hq hb

theorem idle_main (i1 : L1Idle) (s1 : L1Spec) (f1 : L1L2Frame) (e1 : L1EndNone) (g1 : SymPreL2) (b : ByteArray) (L L' : Nat)
    (hL : L ≤ L') :
    ∀ (n : Nat) (r : RSt), mu (r.view b L).s < n → P2 r → Agree r.s.inPos r.s.inp b → r.s.inPos ≤ b.size → r.s.dp.pos ≤ L →
      r.s.dp.needReset = false →
      (lzma2CallR (r.view b L)).1 = .ok → (lzma2CallR (r.view b L)).2.s.dp.needReset = false →
      (lzma2CallR (r.view b L)).2.s.dp.pos < L →
      Same (lzma2CallR ((lzma2CallR (r.view b L)).2.view b L')) (lzma2CallR (r.view b L))
  | 0, _, hmu, _, _, _, _, _ => by omega
  | n + 1, r, hmu, hP, hag0, hin, hlim, hnr => by
    have gx : L2Good (r.view b L) := ⟨p2_view r b L hP hag0, hin, hlim, hnr⟩
    have eX := lzma2CallR_unfold s1 e1 g1 _ gx
    have hokx := l2StepR_ok s1 e1 g1 _ gx
    rw [eX]
    cases hsx : l2StepR (r.view b L) with
    | done x =>
      simp only [runStepR]
      intro hok hn hp
      have h := idle_last i1 s1 f1 r b L L' hP hag0 hin hlim hL x hsx hok hn hp
      rw [lzma2CallR_done _ _ h]
      exact ⟨hok.symm, rfl⟩
    | next rx =>
      rw [hsx] at hokx
      have hnx : L2NextOk (r.view b L).s rx.s := hokx.1
      simp only [runStepR]
      have ex : rx = rx.view b L := RSt.eq_of_norm (RSt.norm_view rx b L).symm hnx.fw.cr.inp hnx.fw.cr.limit
      have hxb : rx.s.inPos ≤ b.size := by
        have := hnx.fw.cr.pos_le hin
        rw [hnx.fw.cr.inp] at this
        exact this
      have hxl : rx.s.dp.pos ≤ L := by
        have := hnx.fw.cr.in_limit hlim
        rw [hnx.fw.cr.limit] at this
        exact this
      have hagx : Agree rx.s.inPos rx.s.inp b := by
        rw [hnx.fw.cr.inp]
        exact ⟨hxb, hxb, fun _ _ _ _ => rfl⟩
      have hmx : mu (rx.view b L).s < n := by
        rw [← ex]
        have := hnx.mu
        omega
      have ih := idle_main i1 s1 f1 e1 g1 b L L' hL n rx hmx ⟨hnx.p2, hokx.2⟩ hagx hxb hxl (hnx.nr.trans hnr)
      rw [← ex] at ih
      exact ih

/-- **starved `lzma2_decode` calls are idle**, given the same for `lzma_decode` -/
theorem codeIdle_lzma2 (i1 : L1Idle) : CodeIdle P2 lzma2CallR :=
  fun r b L L' hP ha hin hlim hL hnr _ hok hn hp =>
    idle_main i1 l1Spec lzmaCallR_setL2 lzmaCallR_end_none symPreL2 b L L' hL _ r (Nat.lt_succ_self _) hP ha hin hlim hnr hok hn hp

end XzVerif.LzmaR
