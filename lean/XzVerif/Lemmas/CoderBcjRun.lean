/-
  Sliced runs of C15's `simple_code()` model with the real filters: transfer of the C06 slicing theorem
  (Lemmas/CoderSimple.lean, proved for `Coder.simpleCoder`) along the call-by-call equivalence `code_equiv`.
-/
import XzVerif.Lemmas.CoderBcjEquiv
import XzVerif.Model.CoderMachines

namespace XzVerif.CoderBcj
open XzVerif.Bcj XzVerif.Coder

/-- `lzma_action` as C15's model spells it (`LZMA_FULL_BARRIER` is treated like `LZMA_FULL_FLUSH` by `simple_code()`: anything that is
    neither `LZMA_FINISH` nor `LZMA_SYNC_FLUSH`). -/
def actBack : Coder.Action → XzVerif.Simple.Action
  | .run => .run | .syncFlush => .syncFlush | .fullFlush => .fullFlush | .finish => .finish | .fullBarrier => .fullFlush

/-- C15's `Simple.simpleCode` packaged as a `Coder` (state = the whole coder object), so that `runSliced` applies to it. -/
def c15Coder : Coder.Coder XzVerif.Simple.Coder where
  code c inp cap a :=
    ((XzVerif.Simple.simpleCode c inp cap (actBack a)).1,
     ⟨(XzVerif.Simple.simpleCode c inp cap (actBack a)).2.consumed, (XzVerif.Simple.simpleCode c inp cap (actBack a)).2.out,
      (Ret.ofNat? (XzVerif.Simple.simpleCode c inp cap (actBack a)).2.ret).getD .progError⟩)

theorem ofNat_toNat (r : Ret) : (Ret.ofNat? r.toNat).getD .progError = r := by cases r <;> rfl

theorem actOf_actBack_run : actOf (actBack .run) = .run := rfl
theorem actOf_actBack_finish : actOf (actBack .finish) = .finish := rfl

theorem coderOf_congr {c d : XzVerif.Simple.Coder} (h : SameKind c d) : coderOf d = coderOf c := by
  obtain ⟨k1, k2, k3⟩ := sameKind_F h
  unfold coderOf; rw [k1, k2, k3]

/-- One piece of a sliced run: the C15 model and the C06 model stay in step. -/
theorem c15_piece (c₀ : XzVerif.Simple.Coder) (fin : Bool) (r : Run XzVerif.Simple.Coder) (hsz : r.state.size = r.state.buffer.length)
    (hk : SameKind c₀ r.state) (inLen cap : Nat) :
    (runPiece c15Coder fin r inLen cap).map toSimple = runPiece (coderOf c₀) fin (r.map toSimple) inLen cap
    ∧ (runPiece c15Coder fin r inLen cap).state.size = (runPiece c15Coder fin r inLen cap).state.buffer.length
    ∧ SameKind c₀ (runPiece c15Coder fin r inLen cap).state := by
  have hact : ∀ a : Coder.Action, a = pieceAct fin r.rest.length inLen → actOf (actBack a) = a := by
    intro a ha; subst ha; unfold pieceAct; split <;> rfl
  obtain ⟨e1, e2, e3, e4, e5, e6⟩ := code_equiv r.state hsz (r.rest.take inLen) cap (actBack (pieceAct fin r.rest.length inLen))
  rw [hact _ rfl, coderOf_congr hk] at e1 e2 e3 e4
  have e4' : (Ret.ofNat? (XzVerif.Simple.simpleCode r.state (r.rest.take inLen) cap (actBack (pieceAct fin r.rest.length inLen))).2.ret).getD
      .progError = ((coderOf c₀).code (toSimple r.state) (r.rest.take inLen) cap (pieceAct fin r.rest.length inLen)).2.ret := by
    rw [e4, ofNat_toNat]
  refine ⟨?_, e5, hk.trans e6⟩
  rw [runPiece_eq, runPiece_eq]
  simp only [Run.map, c15Coder, e1, e2, e3, e4']
  rfl

theorem c15_sliced (c₀ : XzVerif.Simple.Coder) (fin : Bool) (sl : List (Nat × Nat)) (r : Run XzVerif.Simple.Coder)
    (hsz : r.state.size = r.state.buffer.length) (hk : SameKind c₀ r.state) :
    (runSliced c15Coder fin sl r).map toSimple = runSliced (coderOf c₀) fin sl (r.map toSimple) := by
  induction sl generalizing r with
  | nil => rfl
  | cons p sl ih =>
    obtain ⟨inLen, cap⟩ := p
    simp only [runSliced]
    have hret : (r.map toSimple).ret = r.ret := rfl
    rw [hret]
    split
    · rfl
    · obtain ⟨h1, h2, h3⟩ := c15_piece c₀ fin r hsz hk inLen cap
      rw [ih _ h2 h3, h1]

/-- A freshly initialised coder object (`lzma_simple_coder_init` + the filter's init) is the C06 model's initial state. -/
theorem init_toSimple {id : XzVerif.Simple.FilterId} {enc : Bool} {next : XzVerif.Simple.Next} {off : BitVec 32} {c₀ : XzVerif.Simple.Coder}
    (h : XzVerif.Simple.Coder.init id enc next off = some c₀) :
    toSimple c₀ = Coder.Simple.init (X86State.init, off) () ∧ c₀.size = c₀.buffer.length ∧ c₀.id = id ∧ c₀.isEncoder = enc
      ∧ c₀.next = next ∧ c₀.allocated = 2 * id.unfilteredMax := by
  unfold XzVerif.Simple.Coder.init at h
  split at h
  · cases h
  · cases h
    exact ⟨rfl, rfl, rfl, rfl, rfl, rfl⟩

/-- **The slicing theorem for the C15 model with a real filter.** `whole` is the filter applied once to the whole input from the
    initial state (`now_pos = start_offset`, x86: `prev_mask = 0`, `prev_pos = -5`). -/
theorem c15_slicing (id : XzVerif.Simple.FilterId) (enc : Bool) (next : XzVerif.Simple.Next) (off : BitVec 32) (c₀ : XzVerif.Simple.Coder)
    (hinit : XzVerif.Simple.Coder.init id enc next off = some c₀) (input : List UInt8) (hx : id = .x86 → input.length + 5 < 2 ^ 32)
    (fin : Bool) (sl : List (Nat × Nat)) :
    let r := runSliced c15Coder fin sl (Run.init c₀ input)
    let whole := (XzVerif.Simple.filterCode id enc X86State.init off input).1
    (∃ o, whole = r.out ++ o) ∧ (r.ret = .streamEnd → r.out = whole ∧ r.consumed = input.length)
      ∧ (r.ret = .ok ∨ r.ret = .streamEnd) := by
  intro r whole
  obtain ⟨i1, i2, i3, i4, i5, i6⟩ := init_toSimple hinit
  have hmap := c15_sliced c₀ fin sl (Run.init c₀ input) i2 ⟨rfl, rfl, rfl, rfl⟩
  have hinit' : (Run.init c₀ input).map toSimple = Run.init (toSimple c₀) input := rfl
  rw [hinit', i1] at hmap
  -- the length limit: input.length + 1 for the seven filters without one, 2^32 - 5 for x86
  have hlim : ∃ lim, input.length < lim ∧ (id = .x86 → lim + 5 ≤ 2 ^ 32) := by
    by_cases h : id = .x86
    · exact ⟨2 ^ 32 - 5, by have := hx h; omega, fun _ => by omega⟩
    · exact ⟨input.length + 1, by omega, fun h' => absurd h' h⟩
  obtain ⟨lim, hl1, hl2⟩ := hlim
  have hc := bcj_contract id enc lim hl2
  have hinv : SRunInv (bcjFilter id enc) lim (X86State.init, off) input (NullG input) (fun _ => True) input.length
      (runSliced (coderOf c₀) fin sl (Run.init (Coder.Simple.init (X86State.init, off) ()) input)) := by
    unfold coderOf
    rw [i3, i4]
    exact (SRunInv.init (bcjFilter id enc) lim (X86State.init, off) input (NullG input) (fun _ => True) input hl1 () (by simp [NullG])).sliced hc
      (nullLaw (endsAtFinish c₀) fin input) c₀.allocated sl
  rw [← hmap] at hinv
  have hres := hinv.result_null
  have hret : r.ret = .ok ∨ r.ret = .streamEnd := by
    by_cases hr : r.ret = .ok
    · exact Or.inl hr
    · exact Or.inr (hinv.retEnd hr).1
  exact ⟨hres.1, hres.2, hret⟩

end XzVerif.CoderBcj
