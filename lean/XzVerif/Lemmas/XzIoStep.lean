/-
  Preservation of the C17 invariant by `preActions` and by `exec`, one lemma per program counter.
-/
import XzVerif.Lemmas.XzIo

namespace XzVerif.XzIo
variable {α : Type}

theorem inv_upd {c : Cfg α} {s : St α} (i : Inv c s) (k' : Nat) (ua : Bool) :
    Inv c { s with k := k', userAbort := ua } :=
  ⟨i.dstName, i.srcName, i.srcGone, i.openLinked, i.pend, i.sparse, i.preMain, i.pcinv⟩

theorem inv_replace {c : Cfg α} {s : St α} (i : Inv c s) (b : Bool) : Inv c { s with fs := s.fs.replace b } := by
  unfold FS.replace
  split
  · exact ⟨i.dstName, by simp [inoForeign, inoOwn], i.srcGone, i.openLinked, i.pend, i.sparse, i.preMain, i.pcinv⟩
  · exact ⟨by simp [inoForeign, inoSrc], i.srcName, i.srcGone, i.openLinked, i.pend, i.sparse, i.preMain, i.pcinv⟩

theorem inv_preActions {c : Cfg α} {s : St α} (i : Inv c s) : Inv c (preActions c s) := by
  unfold preActions
  simp only
  split
  · split
    · split
      · exact inv_upd (inv_replace (inv_upd i (s.k + 1) s.userAbort) _) (s.k + 1) true
      · exact inv_replace (inv_upd i (s.k + 1) s.userAbort) _
    · split
      · exact inv_upd i (s.k + 1) true
      · exact inv_upd i (s.k + 1) s.userAbort
  · split
    · exact inv_upd i (s.k + 1) true
    · exact inv_upd i (s.k + 1) s.userAbort

theorem preActions_pc {c : Cfg α} {s : St α} : (preActions c s).pc = s.pc := by
  unfold preActions; simp only; split <;> (try split) <;> (try split) <;> rfl

theorem preActions_srcLinked {c : Cfg α} {s : St α} : (preActions c s).fs.srcLinked = s.fs.srcLinked := by
  unfold preActions FS.replace; simp only; split <;> (try split) <;> (try split) <;> (try split) <;> rfl

/-- the new state differs from `s` only in fields the pc-independent facts do not mention -/
macro "keep% " b:term : term =>
  `(Base.congr $b rfl rfl rfl rfl rfl rfl rfl rfl rfl rfl (have hsparse := Base.sparse $b; hsparse))

theorem PcInv_done {c : Cfg α} {s : St α} (h : s.pc = .done)
    (hg : s.success = true → c.o.destStdout = false → c.o.mode ≠ .test → Good c s) : PcInv c s := by
  unfold PcInv; simp only [h]; exact hg

theorem PcInv_done_fail {c : Cfg α} {s : St α} (h : s.pc = .done) (hs : s.success = false) : PcInv c s :=
  PcInv_done h (by intro h1; rw [hs] at h1; exact absurd h1 (by simp))

section exec
variable {c : Cfg α} {s : St α} (hsp : SparseOk c.zero c.ops) (i : Inv c s) (hl : s.fs.srcLinked = true)
include i hl

theorem exec_openSrc (hpc : s.pc = .openSrc) : Inv c (exec c s) := by
  have b := i.toBase hl
  have h := i.pcinv; simp only [PcInv, hpc] at h
  unfold exec; simp only [hpc]
  have hs := (b.preMain h.1).2.2.1
  split
  · exact Base.toInv (keep% b) (PcInv_done_fail rfl hs)
  · exact Base.toInv (keep% b) (PcInv_done_fail rfl hs)
  · exact Base.toInv (keep% b) (by simp only [PcInv]; exact h)

include hsp in
theorem exec_fstatSrc (hpc : s.pc = .fstatSrc) : Inv c (exec c s) := by
  have b := i.toBase hl
  have h := i.pcinv; simp only [PcInv, hpc] at h
  unfold exec; simp only [hpc]
  split
  · exact Base.toInv (keep% b) (by simp only [PcInv]; exact (b.preMain h.1).2.2.1)
  · split
    · exact Base.toInv (keep% b) (by simp only [PcInv]; exact (b.preMain h.1).2.2.1)
    · refine inv_continueLoop hsp ?_ ?_ ?_
      · exact keep% b
      · intro _; exact ⟨h.2.1, h.2.2⟩
      · intro hm; have : s.main = true := hm; simp [h.1] at this

theorem exec_closeSrcErr (hpc : s.pc = .closeSrcErr) : Inv c (exec c s) := by
  have b := i.toBase hl
  have h := i.pcinv; simp only [PcInv, hpc] at h
  unfold exec; simp only [hpc]
  exact Base.toInv (keep% b) (PcInv_done_fail rfl h)

omit i hl in
theorem base_unlinkDst {s : St α} (b : Base c s) (hd : s.destOpen = false) : Base c { s with fs := s.fs.unlinkDstName } := by
  have hn := b.dstName
  unfold FS.unlinkDstName
  split
  · rename_i i0 hi
    have hne : i0 ≠ inoSrc := by intro h; rw [h] at hi; exact hn hi
    unfold FS.unlinkIno
    simp only [hne, if_false]
    split
    · exact ⟨by simp, b.srcName, b.srcLinked, by simp [hd], b.pend, b.sparse, b.preMain⟩
    · split
      · exact ⟨by simp, b.srcName, b.srcLinked, by simp [hd], b.pend, b.sparse, b.preMain⟩
      · exact ⟨by simp, b.srcName, b.srcLinked, by simp [hd], b.pend, b.sparse, b.preMain⟩
  · exact ⟨b.dstName, b.srcName, b.srcLinked, b.openLinked, b.pend, b.sparse, b.preMain⟩

omit i hl in
theorem inv_openDestErr {s : St α} (b : Base c s) (h1 : s.success = false) (h2 : s.destOpen = false) :
    Inv c (openDestErr c s) := by
  unfold openDestErr
  split
  · exact Base.toInv (keep% b) (by simp only [PcInv]; exact ⟨h1, h2⟩)
  · refine inv_ioFail ?_; exact keep% b

theorem exec_openDir (hpc : s.pc = .openDir) : Inv c (exec c s) := by
  have b := i.toBase hl
  have h := i.pcinv; simp only [PcInv, hpc] at h
  unfold exec; simp only [hpc]
  split
  · refine inv_ioFail ?_; exact keep% b
  · split
    · exact Base.toInv (keep% b) (by simp only [PcInv]; exact h)
    · exact Base.toInv (keep% b) (by simp only [PcInv]; exact h)

theorem exec_unlinkForce (hpc : s.pc = .unlinkForce) : Inv c (exec c s) := by
  have b := i.toBase hl
  have h := i.pcinv; simp only [PcInv, hpc] at h
  unfold exec; simp only [hpc]
  split
  · split
    · exact Base.toInv (keep% b) (by simp only [PcInv]; exact h)
    · refine inv_openDestErr ?_ h.2.2.2.1 h.2.1; exact keep% b
  · exact Base.toInv (keep% b) (by simp only [PcInv]; exact h)
  · have b2 := base_unlinkDst b h.2.1
    exact Base.toInv (b2.congr rfl rfl rfl rfl rfl rfl rfl rfl rfl rfl (have hs := b2.sparse; hs))
      (by simp only [PcInv]; exact h)

theorem exec_openDest (hpc : s.pc = .openDest) : Inv c (exec c s) := by
  have b := i.toBase hl
  have h := i.pcinv; simp only [PcInv, hpc] at h
  unfold exec; simp only [hpc]
  split
  · refine inv_openDestErr ?_ h.2.2.2.1 h.2.1; exact keep% b
  · refine inv_openDestErr ?_ h.2.2.2.1 h.2.1; exact keep% b
  · refine Base.toInv ⟨by simp [inoOwn, inoSrc], b.srcName, b.srcLinked, ?_, b.pend, b.sparse, ?_⟩ ?_
    · intro _; exact ⟨rfl, h.1, h.2.2.2.2.2.2.2.2.1⟩
    · intro hm; have : s.main = false := hm; simp [h.1] at this
    · simp only [PcInv]
      obtain ⟨h1, h2, h3, h4, h5, h6, h7, h8, h9, h10⟩ := h
      exact ⟨h1, h3, h4, h5, h6, h7, h8, h10, fun _ => by simp⟩

theorem exec_closeDirErr (hpc : s.pc = .closeDirErr) : Inv c (exec c s) := by
  have b := i.toBase hl
  unfold exec; simp only [hpc]
  refine inv_ioFail ?_; exact keep% b

omit i hl in
/-- the coding loop starts right after the target has been created (or with stdout as the target) -/
theorem loop_start {s : St α} (b : Base c s)
    (h : s.main = true ∧ s.trySparse = false ∧ s.success = false ∧ s.pending = 0 ∧ s.hole = 0 ∧ s.wr = [] ∧ s.ops = c.ops ∧
      c.o.mode ≠ .test ∧ (c.o.destStdout = false → s.destOpen = true ∧ s.fs.own = [])) : LoopSt c s s.ops := by
  obtain ⟨h1, h2, h3, h4, h5, h6, h7, h8, h9⟩ := h
  refine ⟨h1, h3, h6, h5, fun hd _ => (h9 hd).1, ?_, b.sparse h1⟩
  intro hdo
  have := (h9 (b.openLinked hdo).2.2).2
  simp [this, h4, h5, h6, h7]

include hsp in
theorem exec_fstatDest (hpc : s.pc = .fstatDest) : Inv c (exec c s) := by
  have b := i.toBase hl
  have h := i.pcinv; simp only [PcInv, hpc] at h
  have l := loop_start b h
  have hm : ∀ s' : St α, s'.main = s.main → s'.main = false → s'.wr = [] ∧ s'.pending = 0 := by
    intro s' e hm; rw [e, h.1] at hm; simp at hm
  unfold exec; simp only [hpc]
  repeat' split
  all_goals first
    | exact Base.toInv (keep% b) (by simp only [PcInv]; exact h)
    | (refine inv_continueLoop hsp ?_ (hm _ rfl) (fun _ => l)
       first
         | exact keep% b
         | exact ⟨b.dstName, b.srcName, b.srcLinked, b.openLinked, fun _ => rfl, b.sparse,
             by intro hm; have : s.main = false := hm; simp [h.1] at this⟩)

include hsp in
theorem exec_lseekOut (hpc : s.pc = .lseekOut) : Inv c (exec c s) := by
  have b := i.toBase hl
  have h := i.pcinv; simp only [PcInv, hpc] at h
  have l := loop_start b h
  unfold exec; simp only [hpc]
  split
  · refine inv_continueLoop hsp ?_ ?_ ?_
    · exact keep% b
    · intro hm; have : s.main = false := hm; simp [h.1] at this
    · intro _; exact l
  · refine inv_continueLoop hsp ?_ ?_ ?_
    · exact ⟨b.dstName, b.srcName, b.srcLinked, b.openLinked, fun _ => rfl, b.sparse,
        by intro hm; have : s.main = false := hm; simp [h.1] at this⟩
    · intro hm; have : s.main = false := hm; simp [h.1] at this
    · intro _; exact l

omit i hl in
theorem pcinv_of_pc {s' : St α} {p : Pc} (h : s'.pc = p) (hp : PcInv c { s' with pc := p }) : PcInv c s' := by
  cases s'; simp only at h; subst h; exact hp

include hsp in
theorem exec_read (hpc : s.pc = .read) : Inv c (exec c s) := by
  have b := i.toBase hl
  have h := i.pcinv; simp only [PcInv, hpc] at h
  unfold exec; simp only [hpc]
  repeat' split
  all_goals first
    | exact Base.toInv (keep% b) i.pcinv
    | exact Base.toInv (keep% b) (by simp only [PcInv]; exact h)
    | (refine inv_ioFail ?_; exact keep% b)
    | (refine inv_continueLoop hsp ?_ h.1 h.2; exact keep% b)

include hsp in
theorem exec_fixPos (hpc : s.pc = .fixPos) : Inv c (exec c s) := by
  have b := i.toBase hl
  have h := i.pcinv; simp only [PcInv, hpc] at h
  unfold exec; simp only [hpc]
  repeat' split
  all_goals (refine inv_continueLoop hsp ?_ h.1 h.2; exact keep% b)

theorem exec_readPoll (hpc : s.pc = .readPoll) : Inv c (exec c s) := by
  have b := i.toBase hl
  have h := i.pcinv; simp only [PcInv, hpc] at h
  unfold exec; simp only [hpc]
  repeat' split
  all_goals first
    | exact Base.toInv (keep% b) i.pcinv
    | exact Base.toInv (keep% b) (by simp only [PcInv]; exact h)
    | (refine inv_ioFail ?_; exact keep% b)

theorem exec_writePoll (hpc : s.pc = .writePoll) : Inv c (exec c s) := by
  have b := i.toBase hl
  have h := i.pcinv; simp only [PcInv, hpc] at h
  unfold exec; simp only [hpc]
  repeat' split
  all_goals first
    | exact Base.toInv (keep% b) i.pcinv
    | exact Base.toInv (keep% b) (by simp only [PcInv]; exact h)
    | (refine inv_ioFail ?_; exact keep% b)

theorem exec_seekHole (hpc : s.pc = .seekHole) : Inv c (exec c s) := by
  have b := i.toBase hl
  have h := i.pcinv; simp only [PcInv, hpc] at h
  unfold exec; simp only [hpc]
  split
  · refine inv_ioFail ?_; exact keep% b
  · refine Base.toInv ⟨b.dstName, b.srcName, b.srcLinked, b.openLinked, by simp, b.sparse,
      by intro hm; have : s.main = false := hm; simp [h.1] at this⟩ ?_
    simp only [PcInv]
    refine ⟨h.1, by first | rfl | trivial, h.2.2.1, ?_, ?_⟩
    · intro hdo
      have := h.2.2.2 hdo
      simpa [emit] using this
    · intro hs; have : s.success = true := hs; simp [h.2.1] at this

theorem exec_tailSeek (hpc : s.pc = .tailSeek) : Inv c (exec c s) := by
  have b := i.toBase hl
  have h := i.pcinv; simp only [PcInv, hpc] at h
  obtain ⟨h1, h2, h3, h4, h5, h6, h7⟩ := h
  unfold exec; simp only [hpc]
  split
  · refine inv_closeBlock ?_ (by simp) (by simp)
    exact ⟨b.dstName, b.srcName, b.srcLinked, b.openLinked, b.pend, b.sparse,
      by intro hm; have : s.main = false := hm; simp [h1] at this⟩
  · refine Base.toInv ⟨b.dstName, b.srcName, b.srcLinked, b.openLinked, by simp, b.sparse,
      by intro hm; have : s.main = false := hm; simp [h1] at this⟩ ?_
    simp only [PcInv]
    refine ⟨h1, by first | rfl | trivial, h6, ?_, fun _ => h3⟩
    intro hdo
    have := h7 hdo
    simp only [emit, h4, h3, payload, List.append_nil] at this ⊢
    rw [← this]
    have e : s.hole + (s.pending - 1) + 0 + 1 = s.hole + s.pending := by omega
    rw [← e, List.replicate_succ']
    simp [List.append_assoc]

omit i hl in
theorem layout_write {s : St α} (hl : LayoutEq c s s.ops) (hp : s.pending = 0) (hdo : s.destOpen = true) (n : Nat) :
    content (s.wr.take n :: List.replicate s.hole c.zero :: s.fs.own) ++ List.replicate (0 + s.pending) c.zero ++
      s.wr.drop n ++ payload s.ops = payload c.ops := by
  have := hl hdo
  rw [hp] at this ⊢
  simp only [content_cons, List.append_assoc, Nat.add_zero, List.replicate_zero, List.nil_append] at this ⊢
  rw [← List.append_assoc (List.take n s.wr), List.take_append_drop]
  exact this

omit i hl in
include hsp in
/-- after a write() that succeeded (possibly short): stay, go on with the loop, or (tail byte of io_close) close -/
theorem inv_afterWriteStep {s2 : St α} (b : Base c s2) (hpc : s2.pc = .write) (h1 : s2.main = true) (h2 : s2.pending = 0)
    (h3 : c.o.destStdout = false → c.o.mode ≠ .test → s2.destOpen = true) (h4 : LayoutEq c s2 s2.ops)
    (h5 : s2.success = true → s2.ops = []) (h6 : s2.hole = 0) :
    Inv c (if s2.wr.isEmpty then afterWrite c s2 else s2) := by
  split
  · rename_i he
    have he : s2.wr = [] := by simpa using he
    unfold afterWrite
    split
    · rename_i hs
      refine inv_closeBlock b (fun _ => h3) ?_
      intro _ hdo
      have := h4 hdo
      simpa [Complete, h2, h6, he, h5 hs, payload] using this
    · rename_i hs
      have hs : s2.success = false := by simpa using hs
      exact inv_continueLoop hsp b (by intro hm; simp [h1] at hm) (fun _ => ⟨h1, hs, he, h6, h3, h4, b.sparse h1⟩)
  · refine Base.toInv b (pcinv_of_pc hpc ?_)
    simp only [PcInv]
    exact ⟨h1, h2, h3, h4, h5⟩

include hsp in
theorem exec_write (hpc : s.pc = .write) : Inv c (exec c s) := by
  have b := i.toBase hl
  have h := i.pcinv; simp only [PcInv, hpc] at h
  obtain ⟨h1, h2, h3, h4, h5⟩ := h
  unfold exec; simp only [hpc]
  split
  · repeat' split
    all_goals first
      | exact Base.toInv (keep% b) i.pcinv
      | exact Base.toInv (keep% b) (by simp only [PcInv]; exact ⟨h1, h2, h3, h4, h5⟩)
      | (refine inv_ioFail ?_; exact keep% b)
  · generalize count (c.fault s.k) s.wr.length = n
    by_cases hdo : s.destOpen = true
    · have e : ∀ d, appendData c (emit s (Call.write s.wr.length) (Res.ok n)) d =
          { emit s (Call.write s.wr.length) (Res.ok n) with
            fs := { s.fs with own := d :: List.replicate s.hole c.zero :: s.fs.own, ownSynced := false },
            hole := 0 } := by
        intro d; simp [appendData, emit, hdo]
      rw [e]
      have key := inv_afterWriteStep hsp
        (s2 := { s with trace := ⟨Call.write s.wr.length, Res.ok n⟩ :: s.trace,
                        fs := { s.fs with own := List.take n s.wr :: List.replicate s.hole c.zero :: s.fs.own, ownSynced := false },
                        hole := 0, wr := List.drop n s.wr })
        ⟨b.dstName, b.srcName, b.srcLinked, b.openLinked, b.pend, b.sparse,
          by intro hm; have : s.main = false := hm; simp [h1] at this⟩
        hpc h1 h2 h3 (fun _ => layout_write h4 h2 hdo n) h5 rfl
      exact key
    · have hdo : s.destOpen = false := by simpa using hdo
      have e : ∀ d, appendData c (emit s (Call.write s.wr.length) (Res.ok n)) d =
          { emit s (Call.write s.wr.length) (Res.ok n) with
            fs := { s.fs with out := d :: List.replicate s.hole c.zero :: s.fs.out }, hole := 0 } := by
        intro d; simp [appendData, emit, hdo]
      rw [e]
      have key := inv_afterWriteStep hsp
        (s2 := { s with trace := ⟨Call.write s.wr.length, Res.ok n⟩ :: s.trace,
                        fs := { s.fs with out := List.take n s.wr :: List.replicate s.hole c.zero :: s.fs.out },
                        hole := 0, wr := List.drop n s.wr })
        ⟨b.dstName, b.srcName, b.srcLinked, b.openLinked, b.pend, b.sparse,
          by intro hm; have : s.main = false := hm; simp [h1] at this⟩
        hpc h1 h2 h3 (fun hd => by have : s.destOpen = true := hd; simp [hdo] at this) h5 rfl
      exact key

theorem exec_attrs (hpc : s.pc = .fchownUid ∨ s.pc = .fchownGid ∨ s.pc = .fchmod) : Inv c (exec c s) := by
  have b := i.toBase hl
  have h := i.pcinv
  rcases hpc with hpc | hpc | hpc <;> simp only [PcInv, hpc] at h <;> unfold exec <;> simp only [hpc] <;>
    repeat' split
  all_goals exact Base.toInv (keep% b) (by simp only [PcInv]; exact h)

theorem exec_futimens (hpc : s.pc = .futimens) : Inv c (exec c s) := by
  have b := i.toBase hl
  have h := i.pcinv; simp only [PcInv, hpc] at h
  unfold exec; simp only [hpc]
  unfold afterAttrs
  split
  · rename_i hsy
    exact Base.toInv (keep% b) (by simp only [PcInv]; exact ⟨h.1, h.2.1, h.2.2, hsy⟩)
  · rename_i hsy
    refine inv_closeDestPhase ?_ ?_ ?_
    · exact keep% b
    · intro hd; have : s.destOpen = false := hd; simp [h.2.1] at this
    · intro _ _; exact ⟨h.2.2, fun hs => absurd hs hsy⟩

omit i hl in
theorem base_fail {s : St α} (b : Base c s) : Base c { s with success := false } :=
  ⟨b.dstName, b.srcName, b.srcLinked, b.openLinked, b.pend, b.sparse, by
    intro hm; have := b.preMain hm; exact ⟨this.1, this.2.1, rfl, this.2.2.2⟩⟩

theorem exec_fsyncFile (hpc : s.pc = .fsyncFile) : Inv c (exec c s) := by
  have b := i.toBase hl
  have h := i.pcinv; simp only [PcInv, hpc] at h
  unfold exec; simp only [hpc]
  split
  · refine inv_closeDestPhase ?_ (by simp) (by simp)
    have b2 := base_fail b
    exact b2.congr rfl rfl rfl rfl rfl rfl rfl rfl rfl rfl (have hs := b2.sparse; hs)
  · refine Base.toInv ⟨b.dstName, b.srcName, b.srcLinked, b.openLinked, b.pend, b.sparse, b.preMain⟩ ?_
    simp only [PcInv]
    exact ⟨h.1, h.2.1, h.2.2.1, by first | rfl | trivial, h.2.2.2⟩

theorem exec_fsyncDir (hpc : s.pc = .fsyncDir) : Inv c (exec c s) := by
  have b := i.toBase hl
  have h := i.pcinv; simp only [PcInv, hpc] at h
  unfold exec; simp only [hpc]
  split
  · refine inv_closeDestPhase ?_ (by simp) (by simp)
    have b2 := base_fail b
    exact b2.congr rfl rfl rfl rfl rfl rfl rfl rfl rfl rfl (have hs := b2.sparse; hs)
  · refine inv_closeDestPhase ?_ ?_ ?_
    · exact ⟨b.dstName, b.srcName, b.srcLinked, b.openLinked, b.pend, b.sparse, b.preMain⟩
    · intro hd; have : s.destOpen = false := hd; simp [h.2.1] at this
    · intro _ _
      refine ⟨h.2.2.1, fun _ => ?_⟩
      simp [FS.durable, h.2.2.2.1]

theorem exec_closeDir (hpc : s.pc = .closeDir) : Inv c (exec c s) := by
  have b := i.toBase hl
  have h := i.pcinv; simp only [PcInv, hpc] at h
  unfold exec; simp only [hpc]
  exact Base.toInv (keep% b) (by simp only [PcInv]; exact h)

theorem exec_closeDest (hpc : s.pc = .closeDest) : Inv c (exec c s) := by
  have b := i.toBase hl
  have h := i.pcinv; simp only [PcInv, hpc] at h
  have bc : Base c { s with destOpen := false } :=
    ⟨b.dstName, b.srcName, b.srcLinked, by simp, b.pend, b.sparse, by
      intro hm; have := b.preMain hm; exact ⟨rfl, this.2.1, this.2.2.1, this.2.2.2⟩⟩
  unfold exec; simp only [hpc]
  split
  · have b2 := base_fail bc
    refine Base.toInv (b2.congr rfl rfl rfl rfl rfl rfl rfl rfl rfl rfl (have hs := b2.sparse; hs)) ?_
    simp [PcInv]
  · split
    · rename_i hs
      have hs : s.success = true := hs
      refine inv_closeSrcPhase ?_ rfl ?_
      · exact bc.congr rfl rfl rfl rfl rfl rfl rfl rfl rfl rfl (have hs := bc.sparse; hs)
      · intro _ _ _
        exact ⟨(b.openLinked h.1).1, (h.2 hs).1, (h.2 hs).2⟩
    · rename_i hs
      have hs : s.success = false := by simpa [emit] using hs
      refine Base.toInv (bc.congr rfl rfl rfl rfl rfl rfl rfl rfl rfl rfl (have hs := bc.sparse; hs)) ?_
      simp only [PcInv]
      exact ⟨hs, by first | rfl | trivial⟩

theorem exec_statDest (hpc : s.pc = .statDest) : Inv c (exec c s) := by
  have b := i.toBase hl
  have h := i.pcinv; simp only [PcInv, hpc] at h
  unfold exec; simp only [hpc]
  repeat' split
  all_goals first
    | exact Base.toInv (keep% b) (by simp only [PcInv]; exact h)
    | (refine inv_closeSrcPhase ?_ h.2 ?_
       · exact keep% b
       · intro hs; have : s.success = true := hs; simp [h.1] at this)

theorem exec_unlinkDest (hpc : s.pc = .unlinkDest) : Inv c (exec c s) := by
  have b := i.toBase hl
  have h := i.pcinv; simp only [PcInv, hpc] at h
  have b2 := base_unlinkDst b h.2
  unfold exec; simp only [hpc]
  repeat' split
  all_goals first
    | (refine inv_closeSrcPhase ?_ h.2 ?_
       · exact keep% b
       · intro hs; have : s.success = true := hs; simp [h.1] at this)
    | (refine inv_closeSrcPhase ?_ h.2 ?_
       · exact b2.congr rfl rfl rfl rfl rfl rfl rfl rfl rfl rfl (have hs := b2.sparse; hs)
       · intro hs; have : s.success = true := hs; simp [h.1] at this)

theorem exec_closeSrc (hpc : s.pc = .closeSrc) : Inv c (exec c s) := by
  have b := i.toBase hl
  have h := i.pcinv; simp only [PcInv, hpc] at h
  unfold exec; simp only [hpc]
  repeat' split
  all_goals first
    | (have hc' : s.success = true ∧ c.o.keepEff = false := by rename_i hc; simpa [emit] using hc
       have fd := fileDest_of_noKeep hc'.2 h.2.1
       exact Base.toInv (keep% b) (by simp only [PcInv]; exact ⟨hc'.1, hc'.2, h.2.1, h.1, h.2.2 hc'.1 fd.1 fd.2⟩))
    | exact Base.toInv (keep% b) (PcInv_done rfl h.2.2)

theorem exec_statSrc (hpc : s.pc = .statSrc) : Inv c (exec c s) := by
  have b := i.toBase hl
  have h := i.pcinv; simp only [PcInv, hpc] at h
  unfold exec; simp only [hpc]
  repeat' split
  all_goals first
    | exact Base.toInv (keep% b) (by simp only [PcInv]; exact h)
    | exact Base.toInv (keep% b) (PcInv_done rfl (fun _ _ _ => h.2.2.2.2))

omit i hl in
theorem unlinkSrcName_fields (fs : FS α) (h : fs.srcName ≠ some inoOwn) :
    fs.unlinkSrcName.ownLinked = fs.ownLinked ∧ fs.unlinkSrcName.own = fs.own ∧
    fs.unlinkSrcName.ownSynced = fs.ownSynced ∧ fs.unlinkSrcName.dirSynced = fs.dirSynced ∧
    fs.unlinkSrcName.dstName = fs.dstName ∧ fs.unlinkSrcName.srcName ≠ some inoOwn := by
  unfold FS.unlinkSrcName
  split
  · rename_i i0 hi
    have : i0 ≠ inoOwn := by intro e; rw [e] at hi; exact h hi
    unfold FS.unlinkIno
    split
    · simp
    · split
      · simp
      · simp [this]
  · exact ⟨rfl, rfl, rfl, rfl, rfl, h⟩

theorem exec_unlinkSrc (hpc : s.pc = .unlinkSrc) : Inv c (exec c s) := by
  have b := i.toBase hl
  have h := i.pcinv; simp only [PcInv, hpc] at h
  obtain ⟨f1, f2, f3, f4, f5, f6⟩ := unlinkSrcName_fields s.fs b.srcName
  have hgood : Good c { s with fs := s.fs.unlinkSrcName } := by
    obtain ⟨g1, g2, g3⟩ := h.2.2.2.2
    refine ⟨?_, ?_, ?_⟩
    · show s.fs.unlinkSrcName.ownLinked = true; rw [f1]; exact g1
    · show content s.fs.unlinkSrcName.own = _; rw [f2]; exact g2
    · intro hs; have := g3 hs
      show (s.fs.unlinkSrcName.ownSynced && s.fs.unlinkSrcName.dirSynced) = true
      rw [f3, f4]; exact this
  unfold exec; simp only [hpc]
  repeat' split
  all_goals first
    | exact Base.toInv (keep% b) (PcInv_done rfl (fun _ _ _ => h.2.2.2.2))
    | (refine ⟨by rw [show (_ : St α).fs.dstName = s.fs.unlinkSrcName.dstName from rfl, f5]; exact b.dstName, f6, ?_, ?_,
          b.pend, b.sparse, b.preMain, by simp only [PcInv]; exact fun _ _ _ => hgood⟩
       · intro _
         exact ⟨rfl, h.1, h.2.1, h.2.2.1, hgood⟩
       · intro hd
         have := b.openLinked hd
         refine ⟨?_, this.2.1, this.2.2⟩
         show s.fs.unlinkSrcName.ownLinked = true; rw [f1]; exact this.1)

end exec

theorem inv_exec {c : Cfg α} {s : St α} (hsp : SparseOk c.zero c.ops) (i : Inv c s) (hl : s.fs.srcLinked = true) :
    Inv c (exec c s) := by
  cases hpc : s.pc with
  | openSrc => exact exec_openSrc i hl hpc
  | fstatSrc => exact exec_fstatSrc hsp i hl hpc
  | closeSrcErr => exact exec_closeSrcErr i hl hpc
  | openDir => exact exec_openDir i hl hpc
  | unlinkForce => exact exec_unlinkForce i hl hpc
  | openDest => exact exec_openDest i hl hpc
  | closeDirErr => exact exec_closeDirErr i hl hpc
  | fstatDest => exact exec_fstatDest hsp i hl hpc
  | lseekOut => exact exec_lseekOut hsp i hl hpc
  | read => exact exec_read hsp i hl hpc
  | readPoll => exact exec_readPoll i hl hpc
  | write => exact exec_write hsp i hl hpc
  | writePoll => exact exec_writePoll i hl hpc
  | seekHole => exact exec_seekHole i hl hpc
  | fixPos => exact exec_fixPos hsp i hl hpc
  | tailSeek => exact exec_tailSeek i hl hpc
  | fchownUid => exact exec_attrs i hl (Or.inl hpc)
  | fchownGid => exact exec_attrs i hl (Or.inr (Or.inl hpc))
  | fchmod => exact exec_attrs i hl (Or.inr (Or.inr hpc))
  | futimens => exact exec_futimens i hl hpc
  | fsyncFile => exact exec_fsyncFile i hl hpc
  | fsyncDir => exact exec_fsyncDir i hl hpc
  | closeDir => exact exec_closeDir i hl hpc
  | closeDest => exact exec_closeDest i hl hpc
  | statDest => exact exec_statDest i hl hpc
  | unlinkDest => exact exec_unlinkDest i hl hpc
  | closeSrc => exact exec_closeSrc i hl hpc
  | statSrc => exact exec_statSrc i hl hpc
  | unlinkSrc => exact exec_unlinkSrc i hl hpc
  | done => unfold exec; simp only [hpc]; exact i

theorem inv_step {c : Cfg α} {s : St α} (hsp : SparseOk c.zero c.ops) (i : Inv c s) : Inv c (step c s) := by
  unfold step
  split
  · exact i
  · rename_i hpc
    have i' := inv_preActions (c := c) i
    apply inv_exec hsp i'
    rw [preActions_srcLinked]
    cases hsl : s.fs.srcLinked with
    | true => rfl
    | false => exact absurd (i.srcGone hsl).1 hpc

theorem inv_runN {c : Cfg α} (hsp : SparseOk c.zero c.ops) (n : Nat) (s : St α) (i : Inv c s) : Inv c (runN c n s) := by
  induction n generalizing s with
  | zero => exact i
  | succ n ih => exact ih _ (inv_step hsp i)

/-- the state coder_run starts from (before the stdin special case) -/
def start0 (c : Cfg α) (de : Bool) (k0 e0 : Nat) : St α :=
  { pc := .openSrc, k := k0, exitSt := e0, ops := c.pre, fs := { dstName := if de then some inoPre else none } }

theorem inv_start {c : Cfg α} (hsp : SparseOk c.zero c.ops) (de : Bool) (k0 e0 : Nat) : Inv c (start c de k0 e0) := by
  have b : Base c (start0 c de k0 e0) := by
    refine ⟨?_, by simp [start0, inoSrc, inoOwn], rfl, by simp [start0], by simp [start0], by simp [start0], by simp [start0]⟩
    cases de <;> simp [start0, inoPre, inoSrc]
  have e : start c de k0 e0 =
      if c.o.stdin then continueLoop c (start0 c de k0 e0) else { start0 c de k0 e0 with blk := (start0 c de k0 e0).blk + 1 } := rfl
  rw [e]
  split
  · exact inv_continueLoop hsp b (by simp [start0]) (by simp [start0])
  · exact Base.toInv (keep% b) (by simp [PcInv, start0])

theorem inv_run {c : Cfg α} (hsp : SparseOk c.zero c.ops) (de : Bool) (n : Nat) : Inv c (run c de n) :=
  inv_runN hsp n _ (inv_start hsp de 0 0)

end XzVerif.XzIo
