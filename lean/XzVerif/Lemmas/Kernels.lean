/-
  Helper lemmas for Props/Kernels.lean: the regenerated C kernels of Gen/Kernels.lean (translated from the clang AST by
  tools/c2lean.py) related to the hand-written models.  Only the facts that need induction live here.
-/
import XzVerif.Gen.Kernels
import XzVerif.Lemmas.KernelsSlot
import XzVerif.Model.Vli
import XzVerif.Model.Container
import XzVerif.Model.IndexSpec

namespace XzVerif.KernelLemmas
open XzVerif.Gen.Kernels

/-! ### `lzma_vli_size`: the translated do-while loop against the two hand-written recursions -/

/-- The loop of the translated `lzma_vli_size` computes `Index.vliSizeGo` as long as the 32-bit counter cannot wrap. -/
theorem vli_loop_eq_go : ∀ (f v i : Nat), i + f < 4294967296 →
    (lzma_vli_size_loop1 f v i).2 = XzVerif.Index.vliSizeGo f v i := by
  intro f
  induction f with
  | zero => intro v i _; simp [lzma_vli_size_loop1, XzVerif.Index.vliSizeGo]
  | succ f ih =>
    intro v i h
    have hi : (i + 1) % 4294967296 = i + 1 := Nat.mod_eq_of_lt (by omega)
    simp only [lzma_vli_size_loop1, XzVerif.Index.vliSizeGo, hi]
    by_cases hz : v / 128 = 0
    · simp [hz]
    · simp only [hz, ne_eq, not_false_eq_true, if_true, if_false]
      exact ih (v / 128) (i + 1) (by omega)

/-- `Index.vliSizeGo` with enough fuel is the byte count of `Vli.vliSizeAux`. -/
theorem go_eq_aux : ∀ (f v i g : Nat), v < 128 ^ (f + 1) → f + 1 ≤ g →
    XzVerif.Index.vliSizeGo g v i = i + XzVerif.Vli.vliSizeAux f v := by
  intro f
  induction f with
  | zero =>
    intro v i g hv hg
    obtain ⟨g', rfl⟩ : ∃ g', g = g' + 1 := ⟨g - 1, by omega⟩
    have : v / 128 = 0 := by simp at hv; omega
    simp [XzVerif.Index.vliSizeGo, XzVerif.Vli.vliSizeAux, this]
  | succ f ih =>
    intro v i g hv hg
    obtain ⟨g', rfl⟩ : ∃ g', g = g' + 1 := ⟨g - 1, by omega⟩
    by_cases hz : v / 128 = 0
    · have : v < 128 := by omega
      simp [XzVerif.Index.vliSizeGo, XzVerif.Vli.vliSizeAux, hz, this]
    · have hv' : v / 128 < 128 ^ (f + 1) := by
        rw [Nat.div_lt_iff_lt_mul (by decide)]
        calc v < 128 ^ (f + 1 + 1) := hv
          _ = 128 ^ (f + 1) * 128 := by rw [Nat.pow_succ]
      have : ¬ v < 128 := by omega
      simp only [XzVerif.Index.vliSizeGo, XzVerif.Vli.vliSizeAux, hz, this, if_false]
      rw [ih (v / 128) (i + 1) g' hv' (by omega)]
      omega

/-! ### `get_dist_slot` -/

/-- `get_dist_slot` (table version of fastpos.h) is the bit-scan definition for every `uint32_t` distance. -/
theorem get_dist_slot_eq (d : Nat) (h : d < 4294967296) : get_dist_slot d = XzVerif.Container.getDistSlot d := by
  unfold get_dist_slot
  by_cases h1 : d < 8192
  · rw [if_pos h1]; exact fastpos_table d h1
  · rw [if_neg h1]
    by_cases h2 : d < 33554432
    · rw [if_pos h2]
      have hq : 2 ≤ d / 2 ^ 12 := by simp; omega
      have ht := fastpos_table (d / 4096) (by omega)
      have hl := fastpos_le (d / 4096) (by omega)
      have e : (lzma_fastpos_at (d / 4096) + 24) % 4294967296 = lzma_fastpos_at (d / 4096) + 24 := Nat.mod_eq_of_lt (by omega)
      rw [e, ht, container_slot_eq d (by omega), slotOf_div_pow d 12 hq, container_slot_eq (d / 4096) (by simpa using hq)]
    · rw [if_neg h2]
      have hq : 2 ≤ d / 2 ^ 24 := by simp; omega
      have ht := fastpos_table (d / 16777216) (by omega)
      have hl := fastpos_le (d / 16777216) (by omega)
      have e : (lzma_fastpos_at (d / 16777216) + 48) % 4294967296 = lzma_fastpos_at (d / 16777216) + 48 := Nat.mod_eq_of_lt (by omega)
      rw [e, ht, container_slot_eq d (by omega), slotOf_div_pow d 24 hq, container_slot_eq (d / 16777216) (by simpa using hq)]

end XzVerif.KernelLemmas
