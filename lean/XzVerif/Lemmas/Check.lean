/-
  The integrity-check dispatch (check.c): init / update over consecutive pieces / finish yields the standard CRC32
  (little endian), CRC64 (little endian) or SHA-256 of the concatenation in the first `checkSize id` bytes of the
  buffer; unsupported IDs leave the buffer untouched.
-/
import XzVerif.Model.Check
import XzVerif.Lemmas.Sha256Stream
namespace XzVerif.Check
open XzVerif

theorem foldl_crc32Ref (pieces : List (List UInt8)) (c : BitVec 32) :
    pieces.foldl (fun c p => Crc.crc32Ref p c) c = Crc.crc32Ref pieces.flatten c := by
  induction pieces generalizing c with
  | nil => simp [Crc.crc32Ref, Crc.refRaw]
  | cons p ps ih =>
    simp only [List.foldl, List.flatten_cons, ih]
    simp [Crc.crc32Ref, Crc.refRaw, List.foldl_append]

theorem foldl_crc64Ref (pieces : List (List UInt8)) (c : BitVec 64) :
    pieces.foldl (fun c p => Crc.crc64Ref p c) c = Crc.crc64Ref pieces.flatten c := by
  induction pieces generalizing c with
  | nil => simp [Crc.crc64Ref, Crc.refRaw]
  | cons p ps ih =>
    simp only [List.foldl, List.flatten_cons, ih]
    simp [Crc.crc64Ref, Crc.refRaw, List.foldl_append]

theorem foldl_update1 (I : Impl) (pieces : List (List UInt8)) (s : State) :
    pieces.foldl (update I 1) s = { s with crc32 := pieces.foldl (fun c p => I.crc32 p c) s.crc32 } := by
  induction pieces generalizing s with
  | nil => rfl
  | cons p ps ih => simp only [List.foldl]; rw [ih]; rfl

theorem foldl_update4 (I : Impl) (pieces : List (List UInt8)) (s : State) :
    pieces.foldl (update I 4) s = { s with crc64 := pieces.foldl (fun c p => I.crc64 p c) s.crc64 } := by
  induction pieces generalizing s with
  | nil => rfl
  | cons p ps ih => simp only [List.foldl]; rw [ih]; rfl

theorem foldl_update10 (I : Impl) (pieces : List (List UInt8)) (s : State) :
    (pieces.foldl (update I 10) s) = s.withCk (pieces.foldl (Sha256.updateC (Sha256.trC I.shaK)) s.ck) := by
  induction pieces generalizing s with
  | nil => rfl
  | cons p ps ih => simp only [List.foldl]; rw [ih]; rfl

theorem foldl_update_other (I : Impl) (id : Nat) (h1 : id ≠ 1) (h4 : id ≠ 4) (h10 : id ≠ 10)
    (pieces : List (List UInt8)) (s : State) : pieces.foldl (update I id) s = s := by
  induction pieces generalizing s with
  | nil => rfl
  | cons p ps ih => simp only [List.foldl]; rw [show update I id s p = s by simp [update, h1, h4, h10]]; exact ih s

/-- CRC32 through the dispatch: the Check field is the little-endian standard CRC-32 of the concatenation. -/
theorem run_crc32 (I : Impl) (hI : I.crc32 = Crc.crc32Ref) (s0 : State) (pieces : List (List UInt8)) :
    run I 1 s0 pieces = le32bytes (Crc.crc32Ref pieces.flatten 0) := by
  simp only [run, foldl_update1, hI, foldl_crc32Ref]
  simp [finish, init, checkSize, idMax, sizeTable, le32bytes]

/-- CRC64 through the dispatch. -/
theorem run_crc64 (I : Impl) (hI : I.crc64 = Crc.crc64Ref) (s0 : State) (pieces : List (List UInt8)) :
    run I 4 s0 pieces = le64bytes (Crc.crc64Ref pieces.flatten 0) := by
  simp only [run, foldl_update4, hI, foldl_crc64Ref]
  simp [finish, init, checkSize, idMax, sizeTable, le64bytes]

theorem withCk_ck (s : State) (c : Sha256.Ck) : (s.withCk c).ck = c := rfl
theorem withCk_buf (s : State) (c : Sha256.Ck) : (s.withCk c).buf = c.buf := rfl
theorem init10 (I : Impl) (s : State) : init I 10 s = s.withCk (Sha256.initC I.shaInit s.buf) := by simp [init]
theorem finish10 (I : Impl) (s : State) : finish I 10 s = s.withCk (Sha256.finishC (Sha256.trC I.shaK) s.ck) := by
  simp [finish]

/-- SHA-256 through the dispatch. -/
theorem run_sha256 (I : Impl) (hK : I.shaK = Sha256.K) (hH : I.shaInit = Sha256.H0) (s0 : State) (hb : s0.buf.length = 64)
    (pieces : List (List UInt8)) : run I 10 s0 pieces = Sha256.sha256 pieces.flatten := by
  have h := Sha256.sha256C_eq s0.buf hb pieces
  have hsz : (if checkSize 10 ≤ 64 then checkSize 10 else 0) = 32 := by decide
  unfold run
  rw [hsz, init10, foldl_update10, finish10]
  simp only [withCk_buf, withCk_ck, hK, hH]
  exact h

/-- Unsupported and reserved IDs (and `LZMA_CHECK_NONE`): init/update/finish write nothing. -/
theorem run_other (I : Impl) (id : Nat) (h1 : id ≠ 1) (h4 : id ≠ 4) (h10 : id ≠ 10) (s0 : State)
    (pieces : List (List UInt8)) :
    run I id s0 pieces = s0.buf.take (if checkSize id ≤ 64 then checkSize id else 0) := by
  simp only [run]
  rw [show init I id s0 = s0 by simp [init, h1, h4, h10], foldl_update_other I id h1 h4 h10,
    show finish I id s0 = s0 by simp [finish, h1, h4, h10]]

end XzVerif.Check
