/-
  Instantiations of the parameters of Model/XzEncode.lean: the integrity checks of this build (Model/Check.lean) have the
  sizes the format prescribes and are the function the decoder environment `XzEnv.stdEnv` compares against; a toy
  self-delimiting payload coder shows that the payload contract of Lemmas/XzEncode.lean is satisfiable.
  Kernel proofs.
-/
import XzVerif.Lemmas.XzEncodeBound
import XzVerif.Lemmas.Check
import XzVerif.Model.XzEnv
namespace XzVerif.XzEncode
open XzVerif XzVerif.Vli XzVerif.Container XzVerif.XzDecode

theorem sha256_length (m : List UInt8) : (Sha256.sha256 m).length = 32 := by
  simp [Sha256.sha256, Sha256.digest, Sha256.St.toList, Sha256.be32bytes]

/-- The encoder's Check function is the decoder's. -/
theorem stdCheck_eq : stdCheck = XzEnv.check := rfl

/-- CRC32 / CRC64 / SHA-256 / None produce 4 / 8 / 32 / 0 bytes. -/
theorem stdCheck_len (rawInit : List FilterOpts → Ret) (enc : List FilterOpts → List UInt8 → List UInt8) :
    CheckLen { encPayload := enc, rawInit := rawInit, check := stdCheck } := by
  intro id x h
  unfold checkIsSupported at h
  simp only [decide_eq_true_eq] at h
  show (stdCheck id x).length = checkSize id
  unfold stdCheck
  rcases h with h | h | h | h <;> subst h
  · rw [Check.run_other _ 0 (by decide) (by decide) (by decide)]
    simp [Check.checkSize, Check.idMax, Check.sizeTable, checkSize, checkSizes, CHECK_ID_MAX]
  · rw [Check.run_crc32 _ rfl]
    simp [Check.le32bytes, checkSize, checkSizes, CHECK_ID_MAX]
  · rw [Check.run_crc64 _ rfl]
    simp [Check.le64bytes, checkSize, checkSizes, CHECK_ID_MAX]
  · rw [Check.run_sha256 _ rfl rfl _ (by simp [stdCheckState0]), sha256_length]
    simp [checkSize, checkSizes, CHECK_ID_MAX]

/-! ## a toy payload coder that meets the contract -/

/-- Every byte `b` becomes `01 b`, the end is `00`: self-delimiting like LZMA2 with its end marker. -/
def toyEnc (x : List UInt8) : List UInt8 := x.flatMap (fun b => [1, b]) ++ [0]

def toyDec : List UInt8 → Option (List UInt8 × Nat)
  | 0 :: _ => some ([], 1)
  | 1 :: b :: t => (toyDec t).map fun r => (b :: r.1, r.2 + 2)
  | _ => none

def toyPayload (_ : List Filter) (inp : List UInt8) (_ : Nat) : PRes :=
  match toyDec inp with
  | some (o, n) => { ret := .streamEnd, out := o, consumed := n }
  | none => { ret := .dataError, out := [], consumed := 0 }

theorem toyDec_enc (x t : List UInt8) : toyDec (toyEnc x ++ t) = some (x, (toyEnc x).length) := by
  induction x with
  | nil => simp [toyEnc, toyDec]
  | cons b x ih =>
    have e : toyEnc (b :: x) ++ t = 1 :: b :: (toyEnc x ++ t) := by simp [toyEnc]
    have l : (toyEnc (b :: x)).length = (toyEnc x).length + 2 := by simp [toyEnc]
    rw [e, l, toyDec, ih]
    rfl

def toyDE : Env := { payload := toyPayload, checkSupported := Check.isSupported, check := stdCheck }
def toyE : EncEnv := { encPayload := fun _ x => toyEnc x, rawInit := fun _ => .ok, check := stdCheck }

theorem toy_contract (fs : List FilterOpts) : PayloadContract toyDE toyE fs := by
  intro raws _ x t c _
  show toyPayload raws (toyEnc x ++ t) c = _
  unfold toyPayload
  rw [toyDec_enc]
  rfl

theorem toy_checkAgrees : CheckAgrees toyDE toyE := ⟨fun _ _ => rfl, stdCheck_len _ _⟩

end XzVerif.XzEncode
