/-
  Small helper lemmas for C04 (core Lean only): bit-tree node ranges, VLI value bounds, file_info target arithmetic.
-/
import XzVerif.Model.C04Sym
import XzVerif.Model.Vli
import XzVerif.Model.Lzma
import XzVerif.Model.Container
import XzVerif.Model.LzmaCode
import XzVerif.Lemmas.LzmaCode

namespace XzVerif.C04

/-- The node reached in a bit tree after decoding `bits` (root = 1, child = 2·node + bit): this is the `symbol`
    variable of `rc_bittree*` / `rc_bit_safe(probs[symbol], …)`, i.e. the index of the NEXT probability read. -/
def treeNode (bits : List Bool) : Nat := bits.foldl (fun s b => 2 * s + b.toNat) 1

private theorem foldl_bounds (bits : List Bool) : ∀ (s k : Nat), 1 ≤ s → s < 2 ^ k →
    1 ≤ bits.foldl (fun s b => 2 * s + b.toNat) s ∧ bits.foldl (fun s b => 2 * s + b.toNat) s < 2 ^ (k + bits.length) := by
  induction bits with
  | nil => intro s k h1 h2; simpa using ⟨h1, h2⟩
  | cons b t ih =>
    intro s k h1 h2
    have hb : b.toNat ≤ 1 := by cases b <;> simp
    have h3 : 2 * s + b.toNat < 2 ^ (k + 1) := by rw [Nat.pow_succ]; omega
    have := ih (2 * s + b.toNat) (k + 1) (by omega) h3
    simp only [List.foldl_cons, List.length_cons]
    rw [show k + (t.length + 1) = k + 1 + t.length by omega]
    exact this

theorem treeNode_bounds (bits : List Bool) (n : Nat) (h : bits.length < n) :
    1 ≤ treeNode bits ∧ treeNode bits < 2 ^ n := by
  have := foldl_bounds bits 1 1 (by omega) (by decide)
  refine ⟨this.1, Nat.lt_of_lt_of_le this.2 (Nat.pow_le_pow_right (by omega) (by omega))⟩

/-- The table the Gen probe prints from the real macros: for every valid (lc, lp) the mask and the offsets on the
    effective domain (low `lp` bits of `pos`, high `lc` bits of `prev_byte`; all the other bits are set to 1 to show that
    the mask removes them). -/
def litTableModel : List (Nat × Nat × Nat × List Nat) :=
  (List.range 5).flatMap fun lc => (List.range (5 - lc)).map fun lp =>
    (lc, lp, Lzma.literalMask lc lp,
      (List.range (2 ^ lp)).flatMap fun p => (List.range (2 ^ lc)).map fun c =>
        Lzma.literalSubcoder lc lp (0xFFFFFFF0 / 2 ^ lp * 2 ^ lp + p) ((c <<< (8 - lc)) ||| (0xFF >>> lc)) )

private theorem litMask_bound :
    ∀ lc, lc < 5 → ∀ lp, lp < 5 → lc + lp ≤ 4 →
      3 * ((Lzma.literalMask lc lp) <<< lc) + 0x300 ≤ 0x300 <<< (lc + lp) ∧ 0x300 <<< (lc + lp) ≤ 12288 := by
  decide +kernel

/-- `literal_subcoder(…)[sub]` stays inside the first `0x300 << (lc + lp)` probabilities, for EVERY position and byte -/
theorem literal_index_lt (lc lp pos prev sub : Nat) (h : lc + lp ≤ 4) (hs : sub < 0x300) :
    Lzma.literalSubcoder lc lp pos prev + sub < 0x300 <<< (lc + lp) ∧ 0x300 <<< (lc + lp) ≤ 12288 := by
  have hb := litMask_bound lc (by omega) lp (by omega) h
  have hand : ((pos <<< 8) + prev) &&& Lzma.literalMask lc lp ≤ Lzma.literalMask lc lp := Nat.and_le_right
  have hsh : (((pos <<< 8) + prev) &&& Lzma.literalMask lc lp) <<< lc ≤ (Lzma.literalMask lc lp) <<< lc := by
    rw [Nat.shiftLeft_eq _ lc, Nat.shiftLeft_eq _ lc]
    exact Nat.mul_le_mul_right _ hand
  unfold Lzma.literalSubcoder
  omega

/-- `pos_special + rep0 - symbol - 1` plus a node of the reverse bit tree, for dist_slot 4..13 -/
theorem pos_special_index :
    ∀ slot, slot < 14 → ∀ m, m < 32 → (4 ≤ slot ∧ 1 ≤ m ∧ m < 2 ^ ((slot >>> 1) - 1)) →
      (slot + 1 ≤ ((2 + (slot &&& 1)) <<< ((slot >>> 1) - 1)) + m)
      ∧ ((2 + (slot &&& 1)) <<< ((slot >>> 1) - 1)) + m - slot - 1 < 114 := by
  decide +kernel

/-- `pos_state = dict.pos & pos_mask` -/
theorem pos_state_lt (pos pb : Nat) (h : pb ≤ 4) : pos &&& ((1 <<< pb) - 1) < 16 := by
  have h1 : pos &&& ((1 <<< pb) - 1) ≤ (1 <<< pb) - 1 := Nat.and_le_right
  have h2 : (1 <<< pb) - 1 ≤ 15 := by
    have : pb = 0 ∨ pb = 1 ∨ pb = 2 ∨ pb = 3 ∨ pb = 4 := by omega
    rcases this with h | h | h | h | h <;> subst h <;> decide
  omega

/-! ### VLI -/

/-- single-call decoder: after `pos` bytes the remaining value fits in 7·(9 − pos) bits; 1..(9 − pos) bytes are used -/
theorem vliDecodeAux_bound : ∀ (b : List UInt8) (pos v : Nat) (r : List UInt8),
    Vli.vliDecodeAux pos b = some (v, r) → pos ≤ 8 →
      v < 2 ^ (7 * (9 - pos)) ∧ r.length + 1 ≤ b.length ∧ b.length ≤ r.length + (9 - pos) := by
  intro b
  induction b with
  | nil => intro pos v r h; simp [Vli.vliDecodeAux] at h
  | cons x t ih =>
    intro pos v r h hpos
    unfold Vli.vliDecodeAux at h
    by_cases hx : x.toNat < 128
    · simp only [hx, if_true] at h
      by_cases hz : x.toNat = 0 ∧ pos > 0
      · simp [hz] at h
      · simp only [hz, if_false, Option.some.injEq, Prod.mk.injEq] at h
        obtain ⟨hv, hr⟩ := h
        subst hv; subst hr
        have hpw : 2 ^ 7 ≤ 2 ^ (7 * (9 - pos)) := Nat.pow_le_pow_right (by omega) (by omega)
        refine ⟨by omega, by simp, by simp only [List.length_cons]; omega⟩
    · simp only [hx, if_false] at h
      by_cases h9 : pos + 1 = Vli.VLI_BYTES_MAX
      · simp [h9] at h
      · simp only [h9, if_false] at h
        cases hrec : Vli.vliDecodeAux (pos + 1) t with
        | none => simp [hrec] at h
        | some vr =>
          obtain ⟨v', r'⟩ := vr
          simp only [hrec, Option.some.injEq, Prod.mk.injEq] at h
          obtain ⟨hv, hr⟩ := h
          subst hv; subst hr
          have hp7 : pos ≤ 7 := by simp only [Vli.VLI_BYTES_MAX] at h9; omega
          obtain ⟨i1, i2, i3⟩ := ih (pos + 1) v' r' hrec (by omega)
          have e : 7 * (9 - pos) = 7 * (9 - (pos + 1)) + 7 := by omega
          refine ⟨?_, by simp only [List.length_cons]; omega, by simp only [List.length_cons]; omega⟩
          rw [e, Nat.pow_add]
          generalize 2 ^ (7 * (9 - (pos + 1))) = X at *
          omega

/-- multi-call decoder loop: the accumulated value always fits in 7·vli_pos bits, vli_pos never exceeds 9, and every
    shift `(byte & 0x7F) << (vli_pos * 7)` is by at most 56 bits (no shift ≥ 64, nothing above bit 62 is ever set) -/
theorem vliDecLoop_bound : ∀ (inp : List UInt8) (vli pos used : Nat), pos < 9 → vli < 2 ^ (7 * pos) →
    (Vli.vliDecLoop inp vli pos used).2.1 < 2 ^ (7 * (Vli.vliDecLoop inp vli pos used).2.2.1)
    ∧ (Vli.vliDecLoop inp vli pos used).2.2.1 ≤ 9
    ∧ (Vli.vliDecLoop inp vli pos used).2.2.2 ≤ used + inp.length := by
  intro inp
  induction inp with
  | nil => intro vli pos used hp hv; simp [Vli.vliDecLoop]; exact ⟨hv, by omega⟩
  | cons b t ih =>
    intro vli pos used hp hv
    have hb : b.toNat % 128 < 128 := Nat.mod_lt _ (by omega)
    have hnew : vli + ((b.toNat % 128) <<< (pos * 7)) < 2 ^ (7 * (pos + 1)) := by
      rw [Nat.shiftLeft_eq, show 7 * (pos + 1) = pos * 7 + 7 by omega, Nat.pow_add, show 7 * pos = pos * 7 by omega] at *
      generalize 2 ^ (pos * 7) = X at *
      have : b.toNat % 128 * X ≤ 127 * X := Nat.mul_le_mul_right _ (by omega)
      omega
    unfold Vli.vliDecLoop
    simp only []
    by_cases h128 : b.toNat < 128
    · simp only [h128, if_true]
      by_cases hz : b.toNat = 0 ∧ pos + 1 > 1
      · rw [if_pos hz]; dsimp only; exact ⟨hnew, by omega, by simp only [List.length_cons]; omega⟩
      · rw [if_neg hz]; dsimp only; exact ⟨hnew, by omega, by simp only [List.length_cons]; omega⟩
    · simp only [h128, if_false]
      by_cases h9 : pos + 1 = Vli.VLI_BYTES_MAX
      · rw [if_pos h9]
        simp only [Vli.VLI_BYTES_MAX] at h9
        dsimp only
        exact ⟨hnew, by omega, by simp only [List.length_cons]; omega⟩
      · rw [if_neg h9]
        simp only [Vli.VLI_BYTES_MAX] at h9
        obtain ⟨i1, i2, i3⟩ := ih (vli + ((b.toNat % 128) <<< (pos * 7))) (pos + 1) (used + 1) (by omega) hnew
        exact ⟨i1, i2, by simp only [List.length_cons]; omega⟩

/-! ### Block Header: nothing beyond `header_size` bytes is looked at -/

theorem rd32_append (d e : List UInt8) (h : d.length = 4) : Container.rd32 (d ++ e) = Container.rd32 d := by
  match d, h with
  | [a, b, c, f], _ => simp [Container.rd32]

theorem blockHeader_no_overread (hs c : Nat) (b e : List UInt8) (hl : b.length = hs) (h4 : 4 ≤ hs) :
    Container.blockHeaderDecodeWith hs c (b ++ e) = Container.blockHeaderDecodeWith hs c b := by
  unfold Container.blockHeaderDecodeWith
  have g0 : (b ++ e).getD 0 0 = b.getD 0 0 := by
    cases b with
    | nil => simp at hl; omega
    | cons x t => simp
  have g1 : (b ++ e).getD 1 0 = b.getD 1 0 := by
    match b, hl with
    | x :: y :: t, _ => simp
    | [x], hl => simp at hl; omega
    | [], hl => simp at hl; omega
  have t1 : (b ++ e).take (hs - 4) = b.take (hs - 4) := by
    rw [List.take_append_of_le_length (by omega)]
  have d1 : (b ++ e).drop (hs - 4) = b.drop (hs - 4) ++ e := by
    rw [List.drop_append_of_le_length (by omega)]
  have r1 : Container.rd32 ((b ++ e).drop (hs - 4)) = Container.rd32 (b.drop (hs - 4)) := by
    rw [d1]; exact rd32_append _ _ (by simp; omega)
  have l1 : ((b ++ e).length < hs) = False := by simp; omega
  have l2 : (b.length < hs) = False := by simp; omega
  simp only [g0, g1, t1, r1, l1, l2]

/-! ### file_info.c: file_target_pos only decreases -/

open C04Sym in
theorem targetStep_le (t t1 : Nat) (s : TargetStep) (hs : s ≠ .headerBack) (h : TargetStep.apply t s = some t1) : t1 ≤ t := by
  cases s with
  | padding np ts => simp only [TargetStep.apply] at h; split at h <;> simp at h; omega
  | footer => simp only [TargetStep.apply] at h; split at h <;> simp at h; omega
  | index bs => simp only [TargetStep.apply] at h; split at h <;> simp at h; omega
  | blocks tot => simp only [TargetStep.apply] at h; split at h <;> simp at h; omega
  | headerBack => exact absurd rfl hs
  | headerDone => simp only [TargetStep.apply] at h; split at h <;> simp at h; omega

open C04Sym in
theorem targetTrace_le : ∀ (steps : List TargetStep) (t : Nat), ∀ x ∈ targetTrace t steps, x ≤ t := by
  intro steps t
  fun_induction targetTrace t steps with
  | case1 t => simp
  | case2 t tot rest h => simp
  | case3 t tot rest t1 h ih =>
    intro x hx
    simp only [List.mem_cons] at hx
    have h1 : t1 + (tot + STREAM_HEADER_SIZE) ≤ t := by
      simp only [TargetStep.apply] at h; split at h <;> simp at h; omega
    rcases hx with hx | hx | hx
    · omega
    · omega
    · have := ih x hx; omega
  | case4 t rest => simp
  | case5 t s rest hnb hnh h => simp
  | case6 t s rest hnb hnh t1 h ih =>
    intro x hx
    simp only [List.mem_cons] at hx
    have : t1 ≤ t := targetStep_le t t1 s (by intro e; subst e; exact hnh rfl) h
    rcases hx with hx | hx
    · omega
    · have := ih x hx; omega

/-! ### lzma_code: the final `switch (ret)` never invents or passes an internal code -/

open LzmaCode in
theorem classify_ret_documented (i : Internal) (r : Resp) (h : r.ret ≤ 12 ∨ r.ret = LZMA_TIMED_OUT) :
    (classify i r).2 ≤ 12 := by
  unfold classify
  simp only [LZMA_OK, LZMA_TIMED_OUT, LZMA_RET_INTERNAL1, LZMA_SEEK_NEEDED, LZMA_STREAM_END, LZMA_NO_CHECK,
    LZMA_UNSUPPORTED_CHECK, LZMA_GET_CHECK, LZMA_MEMLIMIT_ERROR, LZMA_BUF_ERROR] at *
  repeat' split
  all_goals (try simp only []) <;> omega

end XzVerif.C04
