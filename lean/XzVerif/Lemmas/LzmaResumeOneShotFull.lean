/-
  UNRESTRICTED form of Lemmas/LzmaResumeOneShot.lean / LzmaResumeOneShotW.lean: the resumable LZMA1/LZMA2 decoder model
  (`Model/LzmaResume.lean`) given the COMPLETE input in its first call is the one-shot model (`Model/Lzma.lean`, `Lzma2.lean`), for any output
  allowance (dictionary wraps included, e.g. the default `UNLIMITED`) and any `uncomp` / `allowEopm`:
  `callR_eq_oneshot_lzma1`, `lzmaDecode_eq_callR` (hypothesis `props.valid = true`, needed for the alignment argument at the wrap).

  Proof: `dB_simF` = the lock-step simulation `dB_simW` of Lemmas/LzmaResumeOneShotW.lean in which the one situation excluded there
  (the one-shot decoder stuck with the window full and output room left: `decode_buffer` wraps and calls the coder once more) is
  now matched on the resumable side: that call is a no-op (`CodeInv.idle`). For LZMA1 (`idle_lzma1`): the zero-room re-call before
  the wrap is idle (`l1IdleSQ`), and `idle1wq_aux` (Lemmas/LzmaResumeIdleWrap1.lean) carries this across the wrap; the invariant
  `I1` (range decoder / probabilities `RcQ`, `AlignOk`, `FullOkS`, and `J`: no output step pending while `rc_read_init` is
  unfinished) holds between calls.

  LZMA2 (`callR_eq_oneshot_lzma2`, `lzma2Decode_eq_callR`: NO hypothesis at all): instance `codeInv_lzma2` with
  `I2 = P2s ∧ L2AP ∧ FullOkS ∧ J`. `lzma2Loop_simF` re-runs the lock-step induction of `lzma2Loop_sim` carrying `G2` (the invariant
  at every iteration, taken from the resumable side's step lemmas `l2StepR_ok`, `l2StepR_ap` of Lemmas/LzmaResumeL2.lean /
  LzmaResumeWrap2.lean through `Fresh`) and proves `IdleC`: where the one-shot `lzma_decode` got stuck in SEQ_LZMA, the resumable
  `lzma2_decode` called again after the wrap is a no-op (`idle_lzma1N` — the non-Q form of `idle_lzma1`, `allow_eopm = false` —
  then `lzmaCallR_setL2` and `idle_lzma2_step`: `in_used = 0`, LZMA_OK).
  Core Lean only.
-/
import XzVerif.Lemmas.LzmaResumeOneShotW
import XzVerif.Lemmas.LzmaResumeIdleWrap1
import XzVerif.Lemmas.LzmaResumeWrap2

namespace XzVerif.LzmaR.OneShot
open XzVerif.RangeDec XzVerif.LzDict XzVerif.Lzma XzVerif.Lzma2

/-! ### `decode_buffer`, any run: the stuck-at-the-end-of-the-window iteration is a no-op on both sides -/

/-- what the LZ-layer simulation needs of a pair of coders beyond `SimOut`: an invariant `I` of the (common) state between calls,
    and: a call that left the one-shot coder stuck at the end of the window, called again on the resumable side after the wrap,
    returns LZMA_OK and changes nothing -/
structure CodeInv (I : St → Prop) (codeR : RSt → Ret × RSt) (code : St → Ret × St) : Prop where
  prep : ∀ s N, I s → I (dbPrep N s)
  reset : ∀ s, I s → I { s with dp := s.dp.reset }
  keep : ∀ r s, Fresh r s → I s → s.inPos ≤ s.inp.size → s.dp.pos ≤ s.dp.limit → s.dp.needReset = false →
    Fresh (codeR r).2 (code s).2 → I (code s).2
  idle : ∀ r s, Fresh r s → I s → s.inPos ≤ s.inp.size → s.dp.pos ≤ s.dp.limit → s.dp.limit = s.dp.size → 576 ≤ s.dp.size →
    s.dp.needReset = false → (code s).1 = .ok → (code s).2.pending = .stuck → (code s).2.dp.pos = s.dp.size → ∀ N,
    codeR ((codeR r).2.map fun t => dbPrep N t) = (.ok, (codeR r).2.map fun t => dbPrep N t)

theorem tailS_stop (codeR : RSt → Ret × RSt) (f N : Nat) (c : Ret × RSt) (hr : c.2.s.dp.needReset = false)
    (cnd : (c.1 != .ok || c.2.s.produced == N || decide (c.2.s.dp.pos < c.2.s.dp.size)) = true) :
    tailS codeR f N c = (c.1, c.2) := by
  unfold tailS
  simp only [hr, Bool.false_eq_true, if_false]
  rw [if_pos cnd]

theorem tailS_cont (codeR : RSt → Ret × RSt) (f N : Nat) (c : Ret × RSt) (hr : c.2.s.dp.needReset = false)
    (cnd : ¬ (c.1 != .ok || c.2.s.produced == N || decide (c.2.s.dp.pos < c.2.s.dp.size)) = true) :
    tailS codeR f N c = decodeBufferR codeR f N c.2 := by
  unfold tailS
  simp only [hr, Bool.false_eq_true, if_false]
  rw [if_neg cnd]

theorem dB_simF {I : St → Prop} {codeR : RSt → Ret × RSt} {code : St → Ret × St}
    (hs : ∀ r s, Fresh r s → s.dp.pos ≤ s.dp.limit → SimOut s (codeR r) (code s))
    (hdead : ∀ s, s.pending ≠ .stuck → s.inPos ≤ s.inp.size → s.dp.pos ≤ s.dp.limit → (code s).2.pending = .stuck →
      Dead code (code s).2)
    (hcr : ∀ s, s.inPos ≤ s.inp.size → s.dp.pos ≤ s.dp.limit → Cr s (code s).2) (hI : CodeInv I codeR code) (N : Nat) :
    ∀ (fuel : Nat) (r : RSt) (s : St), Fresh r s → GW s → I s →
      (decodeBuffer code fuel N s).1 ≠ .progError →
      (decodeBufferR codeR fuel N r).1 = (decodeBuffer code fuel N s).1
      ∧ EqP (decodeBufferR codeR fuel N r).2.s (decodeBuffer code fuel N s).2
  | 0, r, s, h, _, _, _ => ⟨rfl, by show EqP r.s s; rw [h.1]; exact EqP.refl _⟩
  | f + 1, r, s, h, hg, hi, hnp => by
    rw [dB_succS]
    rw [decodeBuffer_succ] at hnp ⊢
    have hfr1 : Fresh (r.map fun s => dbPrep N s) (dbPrep N s) := by
      refine ⟨?_, h.2.1, h.2.2⟩
      show dbPrep N r.s = dbPrep N s
      rw [h.1]
    have hf := prepDp_facts s.dp (N - s.produced) hg.pos_le hg.size
    have hprep : dbPrep N s = { s with dp := (s.dp.wrap).setLimit (N - s.produced) } := rfl
    have hi1 := hI.prep s N hi
    generalize hs1 : dbPrep N s = s1 at hfr1 hprep hnp hi1 ⊢
    generalize (r.map fun s => dbPrep N s) = r1 at hfr1
    have a1 : s1.inp = s.inp := by rw [hprep]
    have a2 : s1.inPos = s.inPos := by rw [hprep]
    have a7 : s1.dp.size = s.dp.size := by rw [hprep]; exact hf.1
    have a8 : s1.dp.needReset = false := by rw [hprep]; exact hf.2.1.trans hg.noReset
    have a9 : s1.dp.limit ≤ s.dp.size := by rw [hprep]; exact hf.2.2.2.1
    have hin1 : s1.inPos ≤ s1.inp.size := by rw [a1, a2]; exact hg.inPos
    have hl1 : s1.dp.pos ≤ s1.dp.limit := by rw [hprep]; exact hf.2.2.1
    have hso := hs r1 s1 hfr1 hl1
    have hc := hcr s1 hin1 hl1
    have hd := hdead s1 hfr1.2.2 hin1 hl1
    have hic := hI.keep r1 s1 hfr1 hi1 hin1 hl1 a8
    have hid := hI.idle r1 s1 hfr1 hi1 hin1 hl1
    generalize code s1 = y at hso hc hd hnp hic hid ⊢
    generalize codeR r1 = x at hso hic hid
    obtain ⟨ret, s2⟩ := y
    obtain ⟨ret', X⟩ := x
    obtain ⟨hret, heq, hdis⟩ := hso
    simp only [] at hret heq hdis hc hd hic hid
    subst hret
    have c2 := hc.pos_le hin1; have c4 := hc.limit
    have c5 := hc.size; have c8 := hc.in_limit hl1
    have gsz : 576 ≤ s2.dp.size := by rw [c5, a7]; exact hg.size
    have gpl : s2.dp.pos ≤ s2.dp.size := by rw [c5, a7]; rw [c4] at c8; omega
    obtain ⟨xs, k, ov⟩ := X
    by_cases hr : s2.dp.needReset = true
    · have hfr2 : Fresh ⟨xs, k, ov⟩ s2 := by
        rcases hdis with ⟨_, h2⟩ | h2
        · rw [a8, hr] at h2; cases h2
        · exact h2
      have hi2 := hic hfr2
      obtain ⟨q1, q2, q3⟩ := hfr2
      simp only [] at q1 q2
      subst q1; subst q2
      unfold tailS
      simp only [hr, if_true]
      by_cases cnd : (ret' != .ok || ({ xs with dp := xs.dp.reset } : St).produced == N) = true
      · rw [if_pos (by exact cnd), dbPost_reset_stop N ret' xs hr cnd]
        exact ⟨rfl, EqP.refl _⟩
      · rw [if_neg (by exact cnd)]
        rw [dbPost_reset_cont N ret' xs hr cnd] at hnp ⊢
        exact dB_simF hs hdead hcr hI N f _ _ ⟨rfl, rfl, q3⟩
          ⟨c2, rfl, gsz, by show LZ_DICT_INIT_POS ≤ xs.dp.size; simp only [LZ_DICT_INIT_POS]; omega⟩ (hI.reset _ hi2) hnp
    · have hr' : s2.dp.needReset = false := by
        cases hh : s2.dp.needReset
        · rfl
        · exact absurd hh hr
      by_cases cnd : (ret' != .ok || s2.produced == N || decide (s2.dp.pos < s2.dp.size)) = true
      · have heq' : xs = { s2 with pending := xs.pending } := heq
        generalize xs.pending = p at heq'
        subst heq'
        unfold tailS
        simp only [hr', Bool.false_eq_true, if_false]
        rw [if_pos (by exact cnd), dbPost_stop N ret' s2 hr' cnd]
        exact ⟨rfl, rfl⟩
      · rw [dbPost_cont N ret' s2 hr' cnd] at hnp ⊢
        rcases hdis with ⟨hst, _⟩ | hfr2
        · -- the one-shot decoder is stuck at the end of the window: one idle iteration on both sides
          have hpos : s2.dp.pos = s2.dp.size := by
            have : ¬ s2.dp.pos < s2.dp.size := by
              intro hlt
              apply cnd
              simp [hlt]
            omega
          have hok : ret' = .ok := by
            cases hrr : ret' <;> first | rfl | (exfalso; apply cnd; simp [hrr])
          have hlimsz : s1.dp.limit = s1.dp.size := by rw [c4] at c8; omega
          have hidle := hid hlimsz (by rw [a7]; exact hg.size) a8 hok hst (by rw [hpos, c5]) N
          have hf2 := prepDp_facts s2.dp (N - s2.produced) gpl gsz
          cases f with
          | zero => exact absurd rfl hnp
          | succ f =>
            simp only [runStep]
            have heq' : xs = { s2 with pending := xs.pending } := heq
            generalize xs.pending = p at heq' hidle
            subst heq'
            rw [tailS_cont codeR (f + 1) N _ (by exact hr') (by exact cnd)]
            rw [db_dead code N f s2 (hd hst) hr' hpos gsz, dB_succS, hidle]
            rw [tailS_stop]
            · exact ⟨hok.symm ▸ rfl, rfl⟩
            · show ((s2.dp.wrap).setLimit (N - s2.produced)).needReset = false
              rw [hf2.2.1]; exact hr'
            · have h1 : ((s2.dp.wrap).setLimit (N - s2.produced)).pos = LZ_DICT_REPEAT_MAX := hf2.2.2.2.2 hpos
              have h2 := hf2.1
              have : decide (((s2.dp.wrap).setLimit (N - s2.produced)).pos < ((s2.dp.wrap).setLimit (N - s2.produced)).size) = true := by
                rw [h1, h2]; simp only [LZ_DICT_REPEAT_MAX, decide_eq_true_eq]; omega
              show (_ || _ || decide (((s2.dp.wrap).setLimit (N - s2.produced)).pos < ((s2.dp.wrap).setLimit (N - s2.produced)).size)) = true
              rw [this]; simp
        · have hi2 := hic hfr2
          obtain ⟨q1, q2, q3⟩ := hfr2
          simp only [] at q1 q2
          subst q1; subst q2
          unfold tailS
          simp only [hr', Bool.false_eq_true, if_false]
          rw [if_neg (by exact cnd)]
          exact dB_simF hs hdead hcr hI N f _ _ ⟨rfl, rfl, q3⟩ ⟨c2, hr', gsz, gpl⟩ hi2 hnp

/-! ### LZMA1: the invariant and the idle call -/

/-- `rc_read_init` not finished ⇒ no output step pending -/
def J (s : St) : Prop := s.initLeft ≠ 0 → s.pending = .none

def I1 (s : St) : Prop := J s ∧ RcQ s ∧ AlignOk s ∧ FullOkS s

theorem lzmaFinish_J (x : EStateM.Result Exit St Unit) (L st : Nat) (u : Option Nat) (h : (resSt x).initLeft = 0) :
    J (lzmaFinish x L st u).2 := by
  have key : ∀ (b : Bool) (p : Pending) (i : Nat), i = 0 →
      (if b = true then 5 else i) ≠ 0 → (if b = true then Pending.none else p) = .none := by
    intro b p i hi; cases b <;> simp [hi]
  unfold J lzmaFinish
  exact key _ _ _ h

theorem unstick_J (t : St) (h : J t) : J (unstick t) := by
  unfold J unstick
  split
  · intro _; rfl
  · exact h

theorem rcReadInit_pending (s : St) : (resSt (rcReadInit s)).pending = s.pending := by
  have h := (rcReadInit_frame s).1
  generalize resSt (rcReadInit s) = t at h
  rw [h]

theorem j_lzmaCallR (r : RSt) (hJ : J r.s) : J (lzmaCallR r).2.s := by
  have hfr := rcReadInit_frame r.s
  have hp := rcReadInit_pending r.s
  have hz : r.s.initLeft = 0 → rcReadInit r.s = .ok true r.s := rcReadInit_zero r.s
  unfold lzmaCallR
  cases hri : rcReadInit r.s with
  | error e s0 =>
    rw [hri] at hp
    have hne : r.s.initLeft ≠ 0 := fun h => by rw [hz h] at hri; cases hri
    intro _
    show s0.pending = .none
    have hp' : s0.pending = r.s.pending := hp
    rw [hp']; exact hJ hne
  | ok b s0 =>
    rw [hri] at hp
    have hp' : s0.pending = r.s.pending := hp
    cases b with
    | false =>
      have hne : r.s.initLeft ≠ 0 := fun h => by rw [hz h] at hri; cases hri
      intro _
      show s0.pending = .none
      rw [hp']; exact hJ hne
    | true =>
      have h00 : s0.initLeft = 0 := hfr.2.2.2 s0 hri
      show J (unstick (lzmaFinish (lzmaRunR s0 r.sym0).1 s0.dp.limit s0.hist.size s0.uncomp).2)
      apply unstick_J
      apply lzmaFinish_J
      rw [lzmaRunR_eq]
      exact (post_headR _ _ _ _ _ _).stp.initLeft.trans h00

/-- the resumable state after a call that left the one-shot decoder stuck has no output step pending -/
theorem lzmaCallR_pending_none (r : RSt) (s : St) (h : Fresh r s) (hJ : J s) (hst : (lzmaCall s).2.pending = .stuck) :
    (lzmaCallR r).2.s.pending = .none := by
  obtain ⟨rs, k, ov⟩ := r
  obtain ⟨h1, h2, h3⟩ := h
  simp only [] at h1 h2
  subst h1; subst h2
  have hp := rcReadInit_pending rs
  have hz : rs.initLeft = 0 → rcReadInit rs = .ok true rs := rcReadInit_zero rs
  unfold lzmaCall at hst
  rw [if_neg (by simpa using h3)] at hst
  unfold lzmaCallR
  simp only [] at hst ⊢
  cases hri : rcReadInit rs with
  | error e s0 =>
    rw [hri] at hp hst
    have hp' : s0.pending = rs.pending := hp
    have hst' : s0.pending = .stuck := hst
    rw [hp'] at hst'
    exact absurd hst' h3
  | ok b s0 =>
    rw [hri] at hp hst
    have hp' : s0.pending = rs.pending := hp
    cases b with
    | false =>
      have hne : rs.initLeft ≠ 0 := fun h => by rw [hz h] at hri; cases hri
      show s0.pending = .none
      rw [hp']; exact hJ hne
    | true =>
      have hst' : (lzmaFinish (lzmaRun s0) s0.dp.limit s0.hist.size s0.uncomp).2.pending = .stuck := hst
      show (unstick (lzmaFinish (lzmaRunR s0 none).1 s0.dp.limit s0.hist.size s0.uncomp).2).pending = .none
      rw [lzmaRunR_none_fst]
      unfold unstick
      rw [if_pos (by rw [hst']; rfl)]

theorem eq_of_norm' {r r' : RSt} (h : r.norm = r'.norm) (h1 : r.s.inp = r'.s.inp) (h2 : r.s.dp.limit = r'.s.dp.limit) :
    r = r' :=
  calc r = r.norm.view r.s.inp r.s.dp.limit := rfl
    _ = r'.norm.view r.s.inp r.s.dp.limit := by rw [h]
    _ = r'.norm.view r'.s.inp r'.s.dp.limit := by rw [h1, h2]
    _ = r' := rfl

theorem wrapLimit_facts (d : DictPos) (n : Nat) :
    ((d.wrap).setLimit n).size = d.size
    ∧ (((d.wrap).setLimit n).hasWrapped = false →
        d.hasWrapped = false ∧ ((d.wrap).setLimit n).full = d.full ∧ ((d.wrap).setLimit n).pos = d.pos) := by
  unfold DictPos.wrap DictPos.setLimit
  by_cases hp : (d.pos == d.size) = true
  · simp only [hp, if_true]
    exact ⟨by first | rfl | trivial, fun h => by cases h⟩
  · have hb : (d.pos == d.size) = false := by simpa using hp
    simp only [hb, Bool.false_eq_true, if_false]
    exact ⟨by first | rfl | trivial, fun h => ⟨h, by first | rfl | trivial, by first | rfl | trivial⟩⟩

theorem i1_lzmaCallR (r : RSt) (h0 : r.sym0 = none) (hi : I1 r.s) (hin : r.s.inPos ≤ r.s.inp.size)
    (hl : r.s.dp.pos ≤ r.s.dp.limit) : I1 (lzmaCallR r).2.s := by
  obtain ⟨hJ, hQ, hA, hF⟩ := hi
  have kp := Wrap1.kp_lzmaCallR r
  have sp := l1Spec' r (SymPre.of_none r h0) hin hl
  refine ⟨j_lzmaCallR r hJ, (rcqr_lzmaCallR r ⟨hQ, fun k hk => by rw [h0] at hk; cases hk⟩).1, ?_, ?_⟩
  · unfold AlignOk
    rw [kp.size, kp.lc, kp.lp, kp.pb]
    exact hA
  · intro hw
    have hw0 : r.s.dp.hasWrapped = false := by rw [← sp.2.2.2.2.2.1]; exact hw
    exact sp.2.2.2.2.2.2 hw0 (hF hw0)

theorem idle_lzma1 (r : RSt) (s : St) (hfr : Fresh r s) (hi : I1 s) (hin : s.inPos ≤ s.inp.size) (hl : s.dp.pos ≤ s.dp.limit)
    (hlimsz : s.dp.limit = s.dp.size) (hsz : 576 ≤ s.dp.size) (_hnr : s.dp.needReset = false)
    (hok : (lzmaCall s).1 = .ok) (hst : (lzmaCall s).2.pending = .stuck) (hpos : (lzmaCall s).2.dp.pos = s.dp.size) (N : Nat) :
    lzmaCallR ((lzmaCallR r).2.map fun t => dbPrep N t) = (.ok, (lzmaCallR r).2.map fun t => dbPrep N t) := by
  have hsim := lzmaCall_sim r s hfr
  have hpn := lzmaCallR_pending_none r s hfr hi.1 hst
  obtain ⟨rs, k, ov⟩ := r
  obtain ⟨h1, h2, _⟩ := hfr
  simp only [] at h1 h2
  subst h1; subst h2
  have hview : (RSt.mk rs none ov).view rs.inp rs.dp.size = RSt.mk rs none ov := by
    show (⟨{ rs with inp := rs.inp, dp := { rs.dp with limit := rs.dp.size } }, none, ov⟩ : RSt) = ⟨rs, none, ov⟩
    rw [← hlimsz]
  have hpre : Pre1Q (RSt.mk rs none ov) rs.inp rs.dp.size :=
    ⟨hin, by rw [← hlimsz]; exact hl, ⟨hin, hin, fun _ _ _ _ => rfl⟩, SymPre.of_none _ rfl, ⟨hi.2.1, fun k hk => by cases hk⟩⟩
  have hi2 := i1_lzmaCallR (RSt.mk rs none ov) rfl hi hin hl
  have hsp := l1Spec (RSt.mk rs none ov) (SymPre.of_none _ rfl) hin hl
  have hrq : RcQR (lzmaCallR (RSt.mk rs none ov)).2 := rcqr_lzmaCallR _ ⟨hi.2.1, fun k hk => by cases hk⟩
  have hokR : (lzmaCallR (RSt.mk rs none ov)).1 = .ok := hsim.1.trans hok
  have hS := l1IdleSQ (RSt.mk rs none ov) rs.inp rs.dp.size rs.dp.size hpre (Nat.le_refl _)
    (by rw [hview]; exact hokR) (by rw [hview]; exact hpn)
  rw [hview] at hS
  have hposR : (lzmaCallR (RSt.mk rs none ov)).2.s.dp.pos = rs.dp.size := by
    have e : (lzmaCallR (RSt.mk rs none ov)).2.s = { (lzmaCall rs).2 with pending := (lzmaCallR (RSt.mk rs none ov)).2.s.pending } :=
      hsim.2.1
    rw [e]; exact hpos
  generalize lzmaCallR (RSt.mk rs none ov) = X at *
  obtain ⟨hsym, hwr, _⟩ := hsp
  have hXsz : X.2.s.dp.size = rs.dp.size := hwr.size
  have hXpos : X.2.s.dp.pos = X.2.s.dp.size := by rw [hXsz]; exact hposR
  have hXinp : X.2.s.inp = rs.inp := hwr.inp
  have hXin : X.2.s.inPos ≤ rs.inp.size := by
    have := hwr.pos_le hin
    rw [hXinp] at this; exact this
  have hpreX : Pre1Q X.2 rs.inp X.2.s.dp.size :=
    ⟨hXin, by rw [hXpos]; exact Nat.le_refl _, by rw [hXinp]; exact ⟨hXin, hXin, fun _ _ _ _ => rfl⟩, hsym, hrq⟩
  have hW : Same (lzmaCallR (X.2.view rs.inp X.2.s.dp.size)) (.ok, X.2) := by
    rw [hXsz]
    exact hS.trans ⟨hokR, rfl⟩
  have hf2 := prepDp_facts X.2.s.dp (N - X.2.s.produced) (by omega) (by omega)
  have hL2 : LZ_DICT_REPEAT_MAX ≤ ((X.2.s.dp.wrap).setLimit (N - X.2.s.produced)).limit := by
    have h1 := hf2.2.2.2.2 hXpos
    have h2 := hf2.2.2.1
    omega
  have hR := idle1wq_aux X.2 rs.inp ((X.2.s.dp.wrap).setLimit (N - X.2.s.produced)).limit hpreX hi2.2.2.1 hi2.2.2.2 hXpos hL2 hpn hW
  -- the state the LZ layer calls the coder with
  have hWd : (X.2.map fun t => dbPrep N t) = X.2.wrap.view rs.inp ((X.2.s.dp.wrap).setLimit (N - X.2.s.produced)).limit := by
    rw [← hXinp]
    rfl
  rw [hWd]
  generalize hWs : X.2.wrap.view rs.inp ((X.2.s.dp.wrap).setLimit (N - X.2.s.produced)).limit = Wst at hR ⊢
  have hsymW : SymPre Wst := by
    rw [← hWs]
    exact SymPre.view (Wrap1.symPre_wrap X.2 hsym hi2.2.2.1 hXpos) _ _
      (by show Agree X.2.s.inPos X.2.s.inp rs.inp; rw [hXinp]; exact ⟨hXin, hXin, fun _ _ _ _ => rfl⟩)
  have hinW : Wst.s.inPos ≤ Wst.s.inp.size := by rw [← hWs]; exact hXin
  have hlW : Wst.s.dp.pos ≤ Wst.s.dp.limit := by
    rw [← hWs]
    show (X.2.s.dp.wrap).pos ≤ ((X.2.s.dp.wrap).setLimit (N - X.2.s.produced)).limit
    exact hf2.2.2.1
  have hwrW := (l1Spec' Wst hsymW hinW hlW).1
  have hnW : (lzmaCallR Wst).2.norm = Wst.norm := by
    rw [hR.2, ← hWs]
    rfl
  have := eq_of_norm' hnW hwrW.inp hwrW.limit
  exact Prod.ext hR.1 this

theorem codeInv_lzma1 : CodeInv I1 lzmaCallR lzmaCall where
  prep := fun s N hi => by
    obtain ⟨hJ, hQ, hA, hF⟩ := hi
    have hw := wrapLimit_facts s.dp (N - s.produced)
    refine ⟨hJ, rcq_congr s _ hQ rfl rfl rfl, ⟨?_, hA.2.1, hA.2.2⟩, ?_⟩
    · show ((s.dp.wrap).setLimit (N - s.produced)).size % 16 = 0
      rw [hw.1]; exact hA.1
    · intro h
      obtain ⟨h0, h1, h2⟩ := hw.2 h
      show ((s.dp.wrap).setLimit (N - s.produced)).full + LZ_DICT_INIT_POS = ((s.dp.wrap).setLimit (N - s.produced)).pos
      rw [h1, h2]; exact hF h0
  reset := fun s hi => by
    obtain ⟨hJ, hQ, hA, _⟩ := hi
    exact ⟨hJ, rcq_congr s _ hQ rfl rfl rfl, ⟨hA.1, hA.2.1, hA.2.2⟩, fun _ => Nat.zero_add _⟩
  keep := fun r s hfr hi hin hl _ hfr2 => by
    rw [← hfr2.1]
    obtain ⟨h1, h2, _⟩ := hfr
    subst h1
    exact i1_lzmaCallR r h2 hi hin hl
  idle := idle_lzma1

theorem i1_init (props : Props) (dictSize : Nat) (uncomp : Option Nat) (a : Bool) (preset : List UInt8) (b : ByteArray)
    (hv : props.valid = true) : I1 (St.initLzma1 props dictSize uncomp a preset b) := by
  have hv' : props.lc + props.lp ≤ 4 ∧ props.pb ≤ 4 := by
    unfold Props.valid at hv
    simp only [Bool.and_eq_true, decide_eq_true_eq, LZMA_LCLP_MAX, LZMA_PB_MAX] at hv
    exact ⟨hv.1.2, hv.2⟩
  refine ⟨fun _ => rfl, ?_, ⟨?_, hv'.1, hv'.2⟩, ?_⟩
  · exact rcq_congr _ _ (rcqr_initLzma1R props dictSize uncomp false preset).1 rfl rfl rfl
  · show allocSize dictSize % 16 = 0
    unfold allocSize roundDictSize
    simp only [LZ_DICT_REPEAT_MAX]
    omega
  · intro _
    show min preset.length (roundDictSize dictSize) + LZ_DICT_INIT_POS = LZ_DICT_INIT_POS + min preset.length (roundDictSize dictSize)
    exact Nat.add_comm _ _

theorem top_simF {I : St → Prop} {codeR : RSt → Ret × RSt} {code : St → Ret × St}
    (hs : ∀ r s, Fresh r s → s.dp.pos ≤ s.dp.limit → SimOut s (codeR r) (code s))
    (hdead : ∀ s, s.pending ≠ .stuck → s.inPos ≤ s.inp.size → s.dp.pos ≤ s.dp.limit → (code s).2.pending = .stuck →
      Dead code (code s).2)
    (hcr : ∀ s, s.inPos ≤ s.inp.size → s.dp.pos ≤ s.dp.limit → Cr s (code s).2) (hI : CodeInv I codeR code)
    (s0 : St) (outCap : Nat) (hns : s0.pending ≠ .stuck) (hg : GW s0) (hi : I s0) (hp : s0.produced = 0)
    (hnp : (decodeBuffer code (decodeBufferFuel s0 (s0.produced + outCap)) (s0.produced + outCap) s0).1 ≠ .progError) :
    (decodeBufferR codeR (decodeBufferFuel s0 outCap) outCap { s := s0 }).1
        = (decodeBuffer code (decodeBufferFuel s0 (s0.produced + outCap)) (s0.produced + outCap) s0).1
    ∧ histFrom (decodeBufferR codeR (decodeBufferFuel s0 outCap) outCap { s := s0 }).2.s.hist
          (decodeBufferR codeR (decodeBufferFuel s0 outCap) outCap { s := s0 }).2.s.outBase
        = histFrom (decodeBuffer code (decodeBufferFuel s0 (s0.produced + outCap)) (s0.produced + outCap) s0).2.hist
          (decodeBuffer code (decodeBufferFuel s0 (s0.produced + outCap)) (s0.produced + outCap) s0).2.outBase
    ∧ (decodeBufferR codeR (decodeBufferFuel s0 outCap) outCap { s := s0 }).2.s.inPos
        = (decodeBuffer code (decodeBufferFuel s0 (s0.produced + outCap)) (s0.produced + outCap) s0).2.inPos := by
  rw [hp, Nat.zero_add] at hnp ⊢
  have h := dB_simF hs hdead hcr hI outCap (decodeBufferFuel s0 outCap) { s := s0 } s0 ⟨rfl, rfl, hns⟩ hg hi hnp
  refine ⟨h.1, ?_, ?_⟩
  · rw [h.2]
  · rw [h.2]

end XzVerif.LzmaR.OneShot

namespace XzVerif.LzmaR
open XzVerif.RangeDec XzVerif.LzDict XzVerif.Lzma XzVerif.Lzma2 XzVerif.LzmaR.OneShot

/-- **LZMA1, unrestricted** (any output allowance, dictionary wraps included, any `uncomp` / `allowEopm`): the resumable model
    given the complete input in one call is the one-shot model. `props.valid` (`lc + lp ≤ 4`, `pb ≤ 4`; what
    `lzma_lzma_decoder_create` checks) is needed for the alignment argument at the window wrap. -/
theorem callR_eq_oneshot_lzma1 (props : Props) (dictSize : Nat) (uncomp : Option Nat) (allowEopm : Bool)
    (preset input : List UInt8) (outCap : Nat) (hv : props.valid = true) :
    let x := callR .lzma1 (toBuf input) outCap (initLzma1R props dictSize uncomp allowEopm preset)
    let y := (Coder.initLzma1 props dictSize uncomp allowEopm preset (toBuf input)).code outCap
    x.1 = y.1 ∧ x.2.output = y.2.output ∧ x.2.s.inPos = y.2.consumed := by
  intro x y
  have hnp := (Coder.code_no_prog_error _ outCap
    (Coder.ok2_initLzma1 props dictSize uncomp allowEopm preset (toBuf input))).1
  have ey : y = _ :=
    Coder.code_lzma1 (St.initLzma1 props dictSize uncomp (allowEopm || uncomp.isNone) preset (toBuf input)) outCap
  have ey' : (Coder.initLzma1 props dictSize uncomp allowEopm preset (toBuf input)).code outCap = _ :=
    Coder.code_lzma1 (St.initLzma1 props dictSize uncomp (allowEopm || uncomp.isNone) preset (toBuf input)) outCap
  rw [ey'] at hnp
  have h := top_simF lzmaCall_simOut hdead_lzma1 (fun s _ hl => (lzmaCall_spec s hl).1.toCr) codeInv_lzma1
    (St.initLzma1 props dictSize uncomp (allowEopm || uncomp.isNone) preset (toBuf input)) outCap
    (by simp [St.initLzma1, St.resetLzma])
    (gw_init _ dictSize preset.length rfl rfl) (i1_init _ _ _ _ _ _ hv) (initLzma1_produced _ _ _ _ _ _) hnp
  rw [ey]
  exact h

/-- `lzmaDecode` (the public one-shot API) is computed by the resumable model; any output allowance, e.g. the default `UNLIMITED`. -/
theorem lzmaDecode_eq_callR (props : Props) (dictSize : Nat) (uncomp : Option Nat) (allowEopm : Bool)
    (preset input : List UInt8) (outCap : Nat) (hv : props.valid = true) :
    lzmaDecode props dictSize uncomp allowEopm input preset outCap =
      { ret := (callR .lzma1 (toBuf input) outCap (initLzma1R props dictSize uncomp allowEopm preset)).1,
        out := (callR .lzma1 (toBuf input) outCap (initLzma1R props dictSize uncomp allowEopm preset)).2.output,
        consumed := (callR .lzma1 (toBuf input) outCap (initLzma1R props dictSize uncomp allowEopm preset)).2.s.inPos } := by
  have h := callR_eq_oneshot_lzma1 props dictSize uncomp allowEopm preset input outCap hv
  simp only [] at h
  have ey := Coder.code_lzma1 (St.initLzma1 props dictSize uncomp (allowEopm || uncomp.isNone) preset (toBuf input)) outCap
  rw [initLzma1_produced, Nat.zero_add] at ey
  rw [h.1, h.2.1, h.2.2]
  show _ = DecResult.mk _ _ _
  rw [show Coder.initLzma1 props dictSize uncomp allowEopm preset (toBuf input)
        = ⟨.lzma1, St.initLzma1 props dictSize uncomp (allowEopm || uncomp.isNone) preset (toBuf input)⟩ from rfl, ey]
  rfl

end XzVerif.LzmaR

namespace XzVerif.LzmaR.OneShot
open XzVerif.RangeDec XzVerif.LzDict XzVerif.Lzma XzVerif.Lzma2

/-! ### LZMA2 -/

/-- `idle_lzma1` for a coder that never accepts an end marker (LZMA2 chunks): no range-decoder invariant needed -/
theorem idle_lzma1N (r : RSt) (s : St) (hfr : Fresh r s) (hJ : J s) (hae : s.allowEopm = false) (hA : AlignOk s) (hF : FullOkS s)
    (hin : s.inPos ≤ s.inp.size) (hl : s.dp.pos ≤ s.dp.limit)
    (hlimsz : s.dp.limit = s.dp.size) (hsz : 576 ≤ s.dp.size)
    (hok : (lzmaCall s).1 = .ok) (hst : (lzmaCall s).2.pending = .stuck) (hpos : (lzmaCall s).2.dp.pos = s.dp.size) (N : Nat) :
    lzmaCallR ((lzmaCallR r).2.map fun t => dbPrep N t) = (.ok, (lzmaCallR r).2.map fun t => dbPrep N t) := by
  have hsim := lzmaCall_sim r s hfr
  have hpn := lzmaCallR_pending_none r s hfr hJ hst
  obtain ⟨rs, k, ov⟩ := r
  obtain ⟨h1, h2, _⟩ := hfr
  simp only [] at h1 h2
  subst h1; subst h2
  have hview : (RSt.mk rs none ov).view rs.inp rs.dp.size = RSt.mk rs none ov := by
    show (⟨{ rs with inp := rs.inp, dp := { rs.dp with limit := rs.dp.size } }, none, ov⟩ : RSt) = ⟨rs, none, ov⟩
    rw [← hlimsz]
  have hpre : Pre1 (RSt.mk rs none ov) rs.inp rs.dp.size :=
    ⟨hin, by rw [← hlimsz]; exact hl, ⟨hin, hin, fun _ _ _ _ => rfl⟩, SymPre.of_none _ rfl, Or.inl hae⟩
  have kp := Wrap1.kp_lzmaCallR (RSt.mk rs none ov)
  have hsp := l1Spec (RSt.mk rs none ov) (SymPre.of_none _ rfl) hin hl
  have hokR : (lzmaCallR (RSt.mk rs none ov)).1 = .ok := hsim.1.trans hok
  have hS := l1IdleS (RSt.mk rs none ov) rs.inp rs.dp.size rs.dp.size hpre (Nat.le_refl _)
    (by rw [hview]; exact hokR) (by rw [hview]; exact hpn)
  rw [hview] at hS
  have hposR : (lzmaCallR (RSt.mk rs none ov)).2.s.dp.pos = rs.dp.size := by
    have e : (lzmaCallR (RSt.mk rs none ov)).2.s = { (lzmaCall rs).2 with pending := (lzmaCallR (RSt.mk rs none ov)).2.s.pending } :=
      hsim.2.1
    rw [e]; exact hpos
  generalize lzmaCallR (RSt.mk rs none ov) = X at *
  obtain ⟨hsym, hwr, _, _, hae2, _, hhw, hfull⟩ := hsp
  have hA2 : AlignOk X.2.s := by
    unfold AlignOk
    rw [kp.size, kp.lc, kp.lp, kp.pb]
    exact hA
  have hF2 : FullOkS X.2.s := by
    intro hw
    have hw0 : rs.dp.hasWrapped = false := by
      have e : X.2.s.dp.hasWrapped = rs.dp.hasWrapped := hhw
      rw [← e]; exact hw
    exact hfull hw0 (hF hw0)
  have hae3 : X.2.s.allowEopm = false := by
    have e : X.2.s.allowEopm = rs.allowEopm := hae2
    rw [e]; exact hae
  have hXsz : X.2.s.dp.size = rs.dp.size := hwr.size
  have hXpos : X.2.s.dp.pos = X.2.s.dp.size := by rw [hXsz]; exact hposR
  have hXinp : X.2.s.inp = rs.inp := hwr.inp
  have hXin : X.2.s.inPos ≤ rs.inp.size := by
    have := hwr.pos_le hin
    rw [hXinp] at this; exact this
  have hpreX : Pre1 X.2 rs.inp X.2.s.dp.size :=
    ⟨hXin, by rw [hXpos]; exact Nat.le_refl _, by rw [hXinp]; exact ⟨hXin, hXin, fun _ _ _ _ => rfl⟩, hsym, Or.inl hae3⟩
  have hW : Same (lzmaCallR (X.2.view rs.inp X.2.s.dp.size)) (.ok, X.2) := by
    rw [hXsz]
    exact hS.trans ⟨hokR, rfl⟩
  have hf2 := prepDp_facts X.2.s.dp (N - X.2.s.produced) (by omega) (by omega)
  have hL2 : LZ_DICT_REPEAT_MAX ≤ ((X.2.s.dp.wrap).setLimit (N - X.2.s.produced)).limit := by
    have h1 := hf2.2.2.2.2 hXpos
    have h2 := hf2.2.2.1
    omega
  have hR := idle1w_aux X.2 rs.inp ((X.2.s.dp.wrap).setLimit (N - X.2.s.produced)).limit hpreX hA2 hF2 hXpos hL2 hpn hW
  have hWd : (X.2.map fun t => dbPrep N t) = X.2.wrap.view rs.inp ((X.2.s.dp.wrap).setLimit (N - X.2.s.produced)).limit := by
    rw [← hXinp]
    rfl
  rw [hWd]
  generalize hWs : X.2.wrap.view rs.inp ((X.2.s.dp.wrap).setLimit (N - X.2.s.produced)).limit = Wst at hR ⊢
  have hsymW : SymPre Wst := by
    rw [← hWs]
    exact SymPre.view (Wrap1.symPre_wrap X.2 hsym hA2 hXpos) _ _
      (by show Agree X.2.s.inPos X.2.s.inp rs.inp; rw [hXinp]; exact ⟨hXin, hXin, fun _ _ _ _ => rfl⟩)
  have hinW : Wst.s.inPos ≤ Wst.s.inp.size := by rw [← hWs]; exact hXin
  have hlW : Wst.s.dp.pos ≤ Wst.s.dp.limit := by
    rw [← hWs]
    show (X.2.s.dp.wrap).pos ≤ ((X.2.s.dp.wrap).setLimit (N - X.2.s.produced)).limit
    exact hf2.2.2.1
  have hwrW := (l1Spec' Wst hsymW hinW hlW).1
  have hnW : (lzmaCallR Wst).2.norm = Wst.norm := by
    rw [hR.2, ← hWs]
    rfl
  have := eq_of_norm' hnW hwrW.inp hwrW.limit
  exact Prod.ext hR.1 this

/-- a header / copy step of `lzma2_decode` keeps `J` -/
theorem l2Byte_J (q : L2Seq) (s : St) (byte : Nat) (hJ : J s) : l2StepAll J (l2Byte q s byte) := by
  cases q with
  | control =>
    simp only [l2Byte, l2Control]
    split
    · exact hJ
    · split
      · exact hJ
      · generalize controlStep byte s.l2.needProperties s.l2.needDictionaryReset = a
        have key : J (controlApply { s with inPos := s.inPos + 1 } a) := by
          unfold controlApply
          simp only []
          split
          · split
            · intro _; rfl
            · exact hJ
          · exact hJ
        split
        · exact key
        · exact key
  | uncompressed1 => exact hJ
  | uncompressed2 => exact hJ
  | compressed0 => exact hJ
  | compressed1 => exact hJ
  | properties =>
    simp only [l2Byte]
    cases propsDecode byte with
    | none => exact hJ
    | some p => intro _; rfl
  | lzma => exact hJ
  | copy => exact hJ

theorem l2Step_J (s : St) (hq : s.l2.seq ≠ .lzma) (hJ : J s) : l2StepAll J (l2Step s) := by
  unfold l2Step
  split
  · exact hJ
  · cases h : s.l2.seq with
    | lzma => exact absurd h hq
    | copy =>
      show l2StepAll J (l2Copy s)
      unfold l2Copy
      simp only []
      split
      · exact hJ
      · exact hJ
    | _ => exact l2Byte_J _ s _ hJ

theorem l2StepR_lift' (r : RSt) (hq : r.s.l2.seq ≠ .lzma) : l2StepR r = liftStep r (l2Step r.s) := by
  unfold l2StepR l2Step
  by_cases hg : (!(r.s.inPos < r.s.inp.size || r.s.l2.seq == .lzma)) = true
  · rw [if_pos hg, if_pos hg]; rfl
  · rw [if_neg hg, if_neg hg]
    cases h : r.s.l2.seq with
    | lzma => exact absurd h hq
    | _ => rfl

theorem l1Lclppb : L1Lclppb := fun r =>
  ⟨(Wrap1.kp_lzmaCallR r).lc, (Wrap1.kp_lzmaCallR r).lp, (Wrap1.kp_lzmaCallR r).pb⟩

/-- the state between two iterations of `lzma2_decode` (both models: `Fresh`) -/
structure G2 (s : St) : Prop where
  p2 : P2s s
  ap : L2AP s
  fo : FullOkS s
  j : J s
  inPos : s.inPos ≤ s.inp.size
  pos : s.dp.pos ≤ s.dp.limit
  nr : s.dp.needReset = false

theorem G2.good {r : RSt} {s : St} (h : G2 s) (hfr : Fresh r s) : L2Good r := by
  obtain ⟨h1, h2, _⟩ := hfr
  subst h1
  exact ⟨⟨h.p2, symInv_none r h2⟩, h.inPos, h.pos, h.nr⟩

/-- a step outside SEQ_LZMA that goes on -/
theorem g2_next (r : RSt) (s s1 : St) (hfr : Fresh r s) (hg : G2 s) (hq : s.l2.seq ≠ .lzma) (hst : l2Step s = .next s1) :
    G2 s1 ∧ s1.dp.limit = s.dp.limit ∧ s1.dp.size = s.dp.size := by
  have hgood := hg.good hfr
  obtain ⟨h1, h2, _⟩ := hfr
  subst h1
  have hok := l2StepR_ok l1Spec lzmaCallR_end_none symPreL2 r hgood
  have hap := l2StepR_ap l1Spec l1Lclppb r hgood hg.ap
  have hj := l2Step_J r.s hq hg.j
  rw [l2StepR_lift' r hq, hst] at hok hap
  rw [hst] at hj
  have hn : L2NextOk r.s s1 := hok.1
  have hap' : L2AP s1 := hap
  have hj' : J s1 := hj
  refine ⟨⟨hn.p2, hap', ?_, hj', hn.fw.cr.pos_le hg.inPos, hn.fw.cr.in_limit hg.pos, hn.nr.trans hg.nr⟩, hn.fw.cr.limit, hn.fw.cr.size⟩
  intro hw
  have hw0 : r.s.dp.hasWrapped = false := by rw [← hn.fw.wrapped]; exact hw
  exact hn.fw.full hw0 (hg.fo hw0)

theorem G2.setL2 {t : St} (h : G2 t) (g : L2 → L2) (hp : (g t.l2).props = t.l2.props) (hc : (g t.l2).seq ≠ .copy) :
    G2 (setL2 t g) := by
  refine ⟨⟨h.p2.1, fun hh => absurd hh hc⟩, ⟨h.ap.1, ?_⟩, h.fo, h.j, h.inPos, h.pos, h.nr⟩
  show (g t.l2).props.lc + (g t.l2).props.lp ≤ 4 ∧ (g t.l2).props.pb ≤ 4
  rw [hp]; exact h.ap.2

/-- the resumable state after `lzma_decode` from a `G2` state in SEQ_LZMA -/
theorem g2_lzmaCallR (r : RSt) (h0 : r.sym0 = none) (hg : G2 r.s) (hq : r.s.l2.seq = .lzma) :
    G2 (lzmaCallR r).2.s ∧ (lzmaCallR r).2.s.l2 = r.s.l2 ∧ (lzmaCallR r).2.s.dp.limit = r.s.dp.limit
    ∧ (lzmaCallR r).2.s.dp.size = r.s.dp.size := by
  have kp := Wrap1.kp_lzmaCallR r
  have sp := l1Spec' r (SymPre.of_none r h0) hg.inPos hg.pos
  obtain ⟨hwr, _, _, hae, _, hhw, hfull⟩ := sp
  refine ⟨⟨⟨hae.trans hg.p2.1, fun hh => ?_⟩, ⟨?_, ?_⟩, ?_, j_lzmaCallR r hg.j, hwr.pos_le hg.inPos, hwr.in_limit hg.pos,
    hwr.needReset.trans hg.nr⟩, hwr.l2, hwr.limit, hwr.size⟩
  · rw [hwr.l2, hq] at hh; cases hh
  · unfold AlignOk
    rw [kp.size, kp.lc, kp.lp, kp.pb]
    exact hg.ap.1
  · unfold PropsOkS
    rw [hwr.l2]; exact hg.ap.2
  · intro hw
    have hw0 : r.s.dp.hasWrapped = false := by rw [← hhw]; exact hw
    exact hfull hw0 (hg.fo hw0)

theorem map_setL2_sub_self (W : RSt) :
    (W.map fun s => setL2 s fun l => { l with compressedSize := l.compressedSize - (W.s.inPos - W.s.inPos) }) = W := by
  show (⟨setL2 W.s fun l => { l with compressedSize := l.compressedSize - (W.s.inPos - W.s.inPos) }, W.sym0, W.overrun⟩ : RSt) = W
  rw [setL2_sub_self]

/-- SEQ_LZMA with an idle LZMA decoder: `lzma2_decode` returns LZMA_OK and changes nothing -/
theorem idle_lzma2_step (X : RSt) (g : L2 → L2) (N : Nat) (hseq : (g X.s.l2).seq = .lzma)
    (h : lzmaCallR (X.map fun t => dbPrep N t) = (.ok, X.map fun t => dbPrep N t)) :
    lzma2CallR ((X.map fun t => setL2 t g).map fun t => dbPrep N t)
      = (.ok, (X.map fun t => setL2 t g).map fun t => dbPrep N t) := by
  have hW : ((X.map fun t => setL2 t g).map fun t => dbPrep N t) = ((X.map fun t => dbPrep N t).map fun t => setL2 t g) := rfl
  generalize hWd : ((X.map fun t => setL2 t g).map fun t => dbPrep N t) = W at hW ⊢
  have hseqW : W.s.l2.seq = .lzma := by rw [← hWd]; exact hseq
  have hcall : lzmaCallR W = (.ok, W) := by
    rw [hW, lzmaCallR_setL2, h]
  have e : lzma2CallR W = lzma2LoopR (2 * (W.s.inp.size - W.s.inPos) + 3 + 1) W := rfl
  rw [e, lzma2LoopR_succS, l2StepS_lzma W hseqW, hcall]
  unfold l2LzmaS
  simp only []
  rw [if_neg (by rw [Nat.sub_self]; exact Nat.not_lt_zero _), if_pos (by decide)]
  show (Ret.ok, _) = (Ret.ok, W)
  rw [map_setL2_sub_self]

/-- what the stuck result of a `code` call on the one-shot side means for the resumable side (`CodeInv.idle` for LZMA2) -/
def IdleC (s : St) (x : Ret × RSt) (y : Ret × St) : Prop :=
  y.2.pending = .stuck → y.1 = .ok → s.dp.limit = s.dp.size → 576 ≤ s.dp.size → y.2.dp.pos = s.dp.size →
    ∀ N, lzma2CallR (x.2.map fun t => dbPrep N t) = (.ok, x.2.map fun t => dbPrep N t)

def JC (y : Ret × St) : Prop := y.2.pending ≠ .stuck → J y.2

theorem l2Lzma_simF (r : RSt) (s : St) (hfr : Fresh r s) (hg : G2 s) (hq : s.l2.seq = .lzma) :
    match l2LzmaS s.inPos (lzmaCallR r), l2Lzma s.inPos (lzmaCall s) with
    | StepS.done X', Step.done Y' => IdleC s X' Y' ∧ JC Y'
    | StepS.next _, Step.next s1 => G2 s1 ∧ s1.dp.limit = s.dp.limit ∧ s1.dp.size = s.dp.size
    | _, _ => True := by
  have hc := lzmaCall_sim r s hfr
  have hidl : (lzmaCall s).2.pending = .stuck → (lzmaCall s).1 = .ok → s.dp.limit = s.dp.size → 576 ≤ s.dp.size →
      (lzmaCall s).2.dp.pos = s.dp.size → ∀ N,
      lzmaCallR ((lzmaCallR r).2.map fun t => dbPrep N t) = (.ok, (lzmaCallR r).2.map fun t => dbPrep N t) :=
    fun hst hok hlim hsz hpos N =>
      idle_lzma1N r s hfr hg.j hg.p2.1 hg.ap.1 hg.fo hg.inPos hg.pos hlim hsz hok hst hpos N
  have hgx : G2 (lzmaCallR r).2.s ∧ (lzmaCallR r).2.s.l2 = s.l2 ∧ (lzmaCallR r).2.s.dp.limit = s.dp.limit
      ∧ (lzmaCallR r).2.s.dp.size = s.dp.size := by
    obtain ⟨h1, h2, _⟩ := hfr
    subst h1
    exact g2_lzmaCallR r h2 hg hq
  generalize lzmaCallR r = x at hc hidl hgx
  generalize lzmaCall s = y at hc hidl
  obtain ⟨ret, X⟩ := x
  obtain ⟨ret', Y⟩ := y
  obtain ⟨hret, heq, hfr2, hend⟩ := hc
  simp only [] at hret heq hfr2 hend hidl hgx
  subst hret
  obtain ⟨xs, k, ov⟩ := X
  have heq' : xs = { Y with pending := xs.pending } := heq
  obtain ⟨hgX, hl2, hlim, hsize⟩ := hgx
  simp only [] at hgX hl2 hlim hsize hfr2 hidl
  have hseqX : xs.l2.seq = .lzma := by rw [hl2]; exact hq
  have hJY : Y.pending ≠ .stuck → J Y := fun hp => by
    have e : xs = Y := (hfr2 hp).1
    rw [← e]; exact hgX.j
  generalize hp : xs.pending = p at heq'
  subst heq'
  unfold l2LzmaS l2Lzma
  simp only []
  by_cases c1 : Y.inPos - s.inPos > Y.l2.compressedSize
  · rw [if_pos c1, if_pos c1]
    exact ⟨fun _ h => absurd (show Ret.dataError = Ret.ok from h) (by decide), hJY⟩
  · rw [if_neg c1, if_neg c1]
    by_cases c2 : (ret != .streamEnd) = true
    · rw [if_pos c2, if_pos c2]
      refine ⟨?_, hJY⟩
      intro hst hok hl hs hpos N
      exact idle_lzma2_step _ _ N hseqX (hidl hst hok hl hs hpos N)
    · rw [if_neg c2, if_neg c2]
      by_cases c3 : (Y.l2.compressedSize - (Y.inPos - s.inPos) != 0) = true
      · rw [if_pos (by exact c3), if_pos (by exact c3)]
        exact ⟨fun _ h => absurd (show Ret.dataError = Ret.ok from h) (by decide), hJY⟩
      · rw [if_neg (by exact c3), if_neg (by exact c3)]
        have hre : ret = .streamEnd := by simpa using c2
        have hns : Y.pending ≠ .stuck := hend hre
        have hgY : G2 Y := by
          have e := (hfr2 hns).1
          rw [e] at hgX; exact hgX
        have hsY : Y.l2.seq = .lzma := hseqX
        refine ⟨(hgY.setL2 _ rfl (by show Y.l2.seq ≠ .copy; rw [hsY]; decide)).setL2 _ rfl (by show L2Seq.control ≠ L2Seq.copy; decide), hlim, hsize⟩

theorem IdleC.mono {s s1 : St} {x : Ret × RSt} {y : Ret × St} (h : IdleC s1 x y) (hl : s1.dp.limit = s.dp.limit)
    (hs : s1.dp.size = s.dp.size) : IdleC s x y := by
  intro a b c d e
  exact h a b (by rw [hl, hs]; exact c) (by rw [hs]; exact d) (by rw [hs]; exact e)

theorem lzma2Loop_simF : ∀ (fuel : Nat) (r : RSt) (s : St), Fresh r s → G2 s →
    IdleC s (lzma2LoopR fuel r) (lzma2Loop fuel s) ∧ JC (lzma2Loop fuel s)
  | 0, r, s, _, hg => ⟨fun _ h => absurd (show Ret.progError = Ret.ok from h) (by decide), fun _ => hg.j⟩
  | f + 1, r, s, h, hg => by
    rw [lzma2LoopR_succS, lzma2Loop_succ]
    by_cases hq : s.l2.seq = .lzma
    · have hqr : r.s.l2.seq = .lzma := by rw [h.1]; exact hq
      rw [l2StepS_lzma r hqr, l2Step_lzma s hq]
      have hc := lzmaCall_sim r s h
      have hw := (lzmaCall_spec s hg.pos).1
      have hi : r.s.inPos = s.inPos := by rw [h.1]
      rw [hi]
      have ha : After s (lzmaCallR r).2 (lzmaCall s).2 := ⟨hc.2.1, hc.2.2.1, hw.needReset⟩
      have hm := l2Lzma_sim s s.inPos (lzmaCallR r) (lzmaCall s) hc.1 ha hc.2.2.2
      have hF := l2Lzma_simF r s h hg hq
      generalize l2LzmaS s.inPos (lzmaCallR r) = SX at hm hF ⊢
      generalize l2Lzma s.inPos (lzmaCall s) = SY at hm hF ⊢
      cases SX <;> cases SY
      · exact hF
      · exact hm.elim
      · exact hm.elim
      · obtain ⟨hf, _⟩ := hm
        obtain ⟨hg1, hl1, hs1⟩ := hF
        have ih := lzma2Loop_simF f _ _ hf hg1
        exact ⟨ih.1.mono hl1 hs1, ih.2⟩
    · have hqr : r.s.l2.seq ≠ .lzma := by rw [h.1]; exact hq
      rw [l2StepS_lift r hqr, h.1]
      have hk := l2Step_keep s hq
      have hj := l2Step_J s hq hg.j
      cases hst : l2Step s with
      | done x =>
        rw [hst] at hk hj
        exact ⟨fun hs => absurd hs (hk h.2.2), fun _ => hj⟩
      | next s1 =>
        obtain ⟨hg1, hl1, hs1⟩ := g2_next r s s1 h hg hq hst
        rw [hst] at hk
        have ih := lzma2Loop_simF f { r with s := s1 } s1 ⟨rfl, h.2.1, hk.1 h.2.2⟩ hg1
        exact ⟨ih.1.mono hl1 hs1, ih.2⟩

theorem lzma2Call_simF (r : RSt) (s : St) (h : Fresh r s) (hg : G2 s) :
    IdleC s (lzma2CallR r) (lzma2Call s) ∧ JC (lzma2Call s) := by
  unfold lzma2CallR lzma2Call
  rw [h.1]
  exact lzma2Loop_simF _ r s h hg

def I2 (s : St) : Prop := P2s s ∧ L2AP s ∧ FullOkS s ∧ J s

theorem codeInv_lzma2 : CodeInv I2 lzma2CallR lzma2Call where
  prep := fun s N hi => by
    obtain ⟨hP, hAP, hF, hJ⟩ := hi
    have hw := wrapLimit_facts s.dp (N - s.produced)
    refine ⟨⟨hP.1, hP.2⟩, ⟨⟨?_, hAP.1.2.1, hAP.1.2.2⟩, hAP.2⟩, ?_, hJ⟩
    · show ((s.dp.wrap).setLimit (N - s.produced)).size % 16 = 0
      rw [hw.1]; exact hAP.1.1
    · intro h
      obtain ⟨h0, h1, h2⟩ := hw.2 h
      show ((s.dp.wrap).setLimit (N - s.produced)).full + LZ_DICT_INIT_POS = ((s.dp.wrap).setLimit (N - s.produced)).pos
      rw [h1, h2]; exact hF h0
  reset := fun s hi => by
    obtain ⟨hP, hAP, _, hJ⟩ := hi
    exact ⟨⟨hP.1, hP.2⟩, ⟨⟨hAP.1.1, hAP.1.2.1, hAP.1.2.2⟩, hAP.2⟩, fun _ => Nat.zero_add _, hJ⟩
  keep := fun r s hfr hi hin hl hnr hfr2 => by
    have hg : G2 s := ⟨hi.1, hi.2.1, hi.2.2.1, hi.2.2.2, hin, hl, hnr⟩
    have hgood := hg.good hfr
    have hJ := (lzma2Call_simF r s hfr hg).2 hfr2.2.2
    obtain ⟨h1, _, _⟩ := hfr
    subst h1
    have sp := lzma2CallR_spec l1Spec lzmaCallR_end_none symPreL2 r hgood.p2 hnr hin hl
    have ap := lzma2CallR_ap l1Lclppb r hgood hi.2.1
    rw [← hfr2.1] at hJ ⊢
    refine ⟨sp.2.2.1.1, ap, ?_, hJ⟩
    intro hw
    have hw0 : r.s.dp.hasWrapped = false := by rw [← sp.2.2.2.2.1]; exact hw
    exact sp.2.2.2.2.2 hw0 (hi.2.2.1 hw0)
  idle := fun r s hfr hi hin hl hlimsz hsz hnr hok hst hpos N =>
    (lzma2Call_simF r s hfr ⟨hi.1, hi.2.1, hi.2.2.1, hi.2.2.2, hin, hl, hnr⟩).1 hst hok hlimsz hsz hpos N

theorem i2_init (dictSize : Nat) (preset : List UInt8) (b : ByteArray) : I2 (Lzma2.initLzma2 dictSize preset b) := by
  refine ⟨⟨rfl, fun h => by cases h⟩, ⟨⟨?_, Nat.zero_le _, Nat.zero_le _⟩, Nat.zero_le _, Nat.zero_le _⟩, ?_, fun _ => rfl⟩
  · show allocSize dictSize % 16 = 0
    unfold allocSize roundDictSize
    simp only [LZ_DICT_REPEAT_MAX]
    omega
  · intro _
    show min preset.length (roundDictSize dictSize) + LZ_DICT_INIT_POS = LZ_DICT_INIT_POS + min preset.length (roundDictSize dictSize)
    exact Nat.add_comm _ _

end XzVerif.LzmaR.OneShot

namespace XzVerif.LzmaR
open XzVerif.RangeDec XzVerif.LzDict XzVerif.Lzma XzVerif.Lzma2 XzVerif.LzmaR.OneShot

/-- **LZMA2, unrestricted** (any output allowance, dictionary wraps included): the resumable model given the complete input in
    one call is the one-shot model. -/
theorem callR_eq_oneshot_lzma2 (dictSize : Nat) (preset input : List UInt8) (outCap : Nat) :
    let x := callR .lzma2 (toBuf input) outCap (initLzma2R dictSize preset)
    let y := (Coder.initLzma2 dictSize preset (toBuf input)).code outCap
    x.1 = y.1 ∧ x.2.output = y.2.output ∧ x.2.s.inPos = y.2.consumed := by
  intro x y
  have hnp := (Coder.code_no_prog_error _ outCap (Coder.ok2_initLzma2 dictSize preset (toBuf input))).1
  have ey : y = _ := Coder.code_lzma2 (Lzma2.initLzma2 dictSize preset (toBuf input)) outCap
  have ey' : (Coder.initLzma2 dictSize preset (toBuf input)).code outCap = _ :=
    Coder.code_lzma2 (Lzma2.initLzma2 dictSize preset (toBuf input)) outCap
  rw [ey'] at hnp
  have h := top_simF lzma2Call_sim hdead_lzma2 (fun s hi hl => lzma2Call_spec s hi hl) codeInv_lzma2
    (Lzma2.initLzma2 dictSize preset (toBuf input)) outCap (by simp [Lzma2.initLzma2])
    (gw_init _ dictSize preset.length rfl rfl) (i2_init _ _ _) (initLzma2_produced _ _ _) hnp
  rw [ey]
  exact h

/-- `lzma2Decode` (the public one-shot API) is computed by the resumable model; any output allowance, e.g. the default `UNLIMITED`. -/
theorem lzma2Decode_eq_callR (dictSize : Nat) (preset input : List UInt8) (outCap : Nat) :
    lzma2Decode dictSize input preset outCap =
      { ret := (callR .lzma2 (toBuf input) outCap (initLzma2R dictSize preset)).1,
        out := (callR .lzma2 (toBuf input) outCap (initLzma2R dictSize preset)).2.output,
        consumed := (callR .lzma2 (toBuf input) outCap (initLzma2R dictSize preset)).2.s.inPos } := by
  have h := callR_eq_oneshot_lzma2 dictSize preset input outCap
  simp only [] at h
  rw [h.1, h.2.1, h.2.2]
  rfl

end XzVerif.LzmaR
