/-
  Slicing independence of the resumable decoder model, LZMA2 level (`LzmaR.lzma2CallR`, Model/LzmaResume.lean):
  the loop of `lzma2_decode` as an iterated step function (`l2StepR`, `lzma2LoopR_succ`), its frame/fuel properties
  (`lzma2CallR_spec`: never LZMA_PROG_ERROR, fuel independence `lzma2LoopR_fuel_indep`, `lzma2CallR_unfold`), and ABSORPTION
  (`absorb_main`, `lzma2_stop` / `lzma2_yield` / `lzma2_resume`): a call with more input and a larger dictionary limit equals the
  call with fewer resources followed (if that returned LZMA_OK without a reset request) by a call with the larger resources.
  Everything about `lzmaCallR` is taken as HYPOTHESES: `L1Absorb`, `L1Spec` (Lemmas/LzmaResumeDefs.lean) and, defined here,
  `L1L2Frame` (lzma_decode does not read the LZMA2 layer), `L1EndNone` (LZMA_STREAM_END is never returned from inside a symbol),
  `SymPreL2` (the replay invariant does not read the LZMA2 layer).
  `codeAbsorb_lzma2`: `CodeAbsorb P2 lzma2CallR` from those hypotheses; `codeAbsorb_lzma2'`: from `L1Absorb` alone.
-/
import XzVerif.Lemmas.LzmaResumeDefs
import XzVerif.Lemmas.LzmaResumeCall
import XzVerif.Lemmas.C03Fuel
import XzVerif.Lemmas.LzmaCausalL2Rel

namespace XzVerif.LzmaR
open XzVerif.RangeDec XzVerif.LzDict XzVerif.Lzma XzVerif.Lzma2

/-- `lzma_decode` does not read the LZMA2 layer -/
def L1L2Frame : Prop :=
  ∀ (r : RSt) (f : L2 → L2), lzmaCallR (r.map fun s => setL2 s f) = ((lzmaCallR r).1, (lzmaCallR r).2.map fun s => setL2 s f)

/-- `lzma_decode` returning LZMA_STREAM_END is not inside a symbol -/
def L1EndNone : Prop := ∀ r : RSt, (lzmaCallR r).1 = .streamEnd → (lzmaCallR r).2.sym0 = none

/-- the replay invariant does not read the LZMA2 layer -/
def SymPreL2 : Prop := ∀ (r : RSt) (f : L2 → L2), SymPre r → SymPre (r.map fun s => setL2 s f)

theorem agree_trans {n : Nat} {a b c : ByteArray} (h1 : Agree n a b) (h2 : Agree n b c) : Agree n a c :=
  ⟨h1.le, h2.le', fun i hi hi' hn => (h1.eq i hi (Nat.lt_of_lt_of_le hn h1.le') hn).trans (h2.eq i _ hi' hn)⟩

theorem agree_weaken {n m : Nat} {b b' : ByteArray} (h : Agree m b b') (hn : n ≤ m) : Agree n b b' :=
  ⟨Nat.le_trans hn h.le, Nat.le_trans hn h.le', fun i hi hi' hlt => h.eq i hi hi' (Nat.lt_of_lt_of_le hlt hn)⟩

theorem symPre_view (r : RSt) (b : ByteArray) (L : Nat) (h : SymPre r) (ha : Agree r.s.inPos r.s.inp b) : SymPre (r.view b L) := by
  intro k hk
  obtain ⟨h1, h2, h3⟩ := h k hk
  refine ⟨h1, h2, fun L2 b2 hb2 => ?_⟩
  have hb2' : Agree r.s.inPos b b2 := hb2
  exact h3 L2 b2 (agree_trans ha hb2')

/-- the resume point is consistent, and outside SEQ_LZMA there is none -/
def SymInv (r : RSt) : Prop :=
  SymPre r ∧ (r.s.l2.seq ≠ .lzma → r.sym0 = none) ∧ (r.s.dp.needReset = true → r.sym0 = none)

theorem symInv_none (r : RSt) (h0 : r.sym0 = none) : SymInv r :=
  ⟨fun k h => (by rw [h0] at h; cases h), fun _ => h0, fun _ => h0⟩

inductive StepR where
  | done (x : Ret × RSt)
  | next (r : RSt)

def liftStep (r : RSt) : Step → StepR
  | .done x => .done (x.1, { r with s := x.2 })
  | .next s => .next { r with s := s }

def l2LzmaR (inStart : Nat) (x : Ret × RSt) : StepR :=
  if x.2.s.inPos - inStart > x.2.s.l2.compressedSize then .done (.dataError, { x.2 with overrun := true })
  else
    let r := x.2.map fun s => setL2 s fun l => { l with compressedSize := l.compressedSize - (x.2.s.inPos - inStart) }
    if x.1 != .streamEnd then .done (x.1, r)
    else if r.s.l2.compressedSize != 0 then .done (.dataError, r)
    else .next (r.map fun s => setL2 s fun l => { l with seq := .control })

def l2StepR (r : RSt) : StepR :=
  if !(r.s.inPos < r.s.inp.size || r.s.l2.seq == .lzma) then .done (.ok, r)
  else
    match r.s.l2.seq with
    | .lzma => l2LzmaR r.s.inPos (lzmaCallR r)
    | .copy => liftStep r (l2Copy r.s)
    | q => liftStep r (l2Byte q r.s (curByte r.s))

def runStepR (k : RSt → Ret × RSt) : StepR → Ret × RSt
  | .done x => x
  | .next r => k r

theorem runStepR_ite (k : RSt → Ret × RSt) (c : Prop) [Decidable c] (a b : StepR) :
    runStepR k (if c then a else b) = if c then runStepR k a else runStepR k b := by
  split <;> rfl

theorem liftStep_ite (r : RSt) (c : Prop) [Decidable c] (a b : Step) :
    liftStep r (if c then a else b) = if c then liftStep r a else liftStep r b := by
  split <;> rfl

theorem lzma2LoopR_succ (f : Nat) (r : RSt) : lzma2LoopR (f + 1) r = runStepR (lzma2LoopR f) (l2StepR r) := by
  rw [lzma2LoopR]
  unfold l2StepR
  by_cases hg : (!(r.s.inPos < r.s.inp.size || r.s.l2.seq == .lzma)) = true
  · simp only []
    rw [if_pos hg, if_pos hg]; rfl
  · simp only []
    rw [if_neg hg, if_neg hg]
    simp only [curByte]
    generalize (if hlt : r.s.inPos < r.s.inp.size then r.s.inp[r.s.inPos] else 0).toNat = byte
    cases hq : r.s.l2.seq with
    | control =>
      simp only [l2Byte, l2Control, liftStep_ite, runStepR_ite]
      rfl
    | uncompressed1 => rfl
    | uncompressed2 => rfl
    | compressed0 => rfl
    | compressed1 => rfl
    | properties =>
      simp only [l2Byte]
      cases propsDecode byte <;> rfl
    | lzma =>
      simp only [l2LzmaR, runStepR_ite]
      rfl
    | copy =>
      simp only [l2Copy, liftStep_ite, runStepR_ite]
      rfl

/-! ### what one iteration preserves; the termination measure -/

/-- the coder relation plus the two dictionary facts of `CodeAbsorb.spec` -/
structure L2Fw (s s' : St) : Prop where
  cr : Cr s s'
  wrapped : s'.dp.hasWrapped = s.dp.hasWrapped
  full : s.dp.hasWrapped = false → s.dp.full + LZ_DICT_INIT_POS = s.dp.pos → s'.dp.full + LZ_DICT_INIT_POS = s'.dp.pos

theorem L2Fw.refl (s : St) : L2Fw s s := ⟨Cr.refl s, rfl, fun _ h => h⟩

theorem L2Fw.trans {a b c : St} (h1 : L2Fw a b) (h2 : L2Fw b c) : L2Fw a c :=
  ⟨h1.cr.trans h2.cr, h2.wrapped.trans h1.wrapped, fun hw hf => h2.full (h1.wrapped.trans hw) (h1.full hw hf)⟩

theorem L2Fw.of_same {s s' : St} (h1 : s'.inp = s.inp) (h2 : s'.inPos = s.inPos) (h3 : s'.outBase = s.outBase)
    (h4 : s'.dp = s.dp) (h7 : s'.hist = s.hist) : L2Fw s s' :=
  ⟨Cr.of_same h1 h2 h3 (by rw [h4]) (by rw [h4]) (by rw [h4]) h7, by rw [h4], by rw [h4]; exact fun _ h => h⟩

theorem L2Fw.of_byte {s s' : St} (hb : s.inPos < s.inp.size) (h1 : s'.inp = s.inp) (h2 : s'.inPos = s.inPos + 1)
    (h3 : s'.outBase = s.outBase) (h4 : s'.dp = s.dp) (h7 : s'.hist = s.hist) : L2Fw s s' :=
  ⟨Cr.of_byte hb h1 h2 h3 (by rw [h4]) (by rw [h4]) (by rw [h4]) h7, by rw [h4], by rw [h4]; exact fun _ h => h⟩

/-- invariant of the LZMA2 coder between calls (St level) -/
def P2s (s : St) : Prop := s.allowEopm = false ∧ CopyInv s

/-- **the invariant of `lzma2CallR`**: the LZMA decoder inside never accepts an end marker (chunks have known sizes), and in
    SEQ_COPY at least one byte is still to be copied -/
def P2 (r : RSt) : Prop := P2s r.s ∧ SymInv r

theorem p2_init (dictSize : Nat) (preset : List UInt8) : P2 (initLzma2R dictSize preset) :=
  ⟨⟨rfl, fun h => by cases h⟩, symInv_none _ rfl⟩

theorem p2_view (r : RSt) (b : ByteArray) (L : Nat) (h : P2 r) (ha : Agree r.s.inPos r.s.inp b) : P2 (r.view b L) :=
  ⟨h.1, symPre_view r b L h.2.1 ha, h.2.2⟩

structure L2NextOk (s s1 : St) : Prop where
  fw : L2Fw s s1
  p2 : P2s s1
  nr : s1.dp.needReset = s.dp.needReset
  mu : mu s1 < mu s

structure L2DoneOk (s : St) (x : Ret × St) : Prop where
  fw : L2Fw s x.2
  ret : x.1 ≠ .progError
  p2 : P2s x.2
  reset : x.2.dp.needReset = true → s.dp.needReset = true ∨ s.inPos < x.2.inPos

def L2StepOk (s : St) : Step → Prop
  | .done x => L2DoneOk s x
  | .next s1 => L2NextOk s s1

def L2StepROk (r : RSt) : StepR → Prop
  | .done x => L2DoneOk r.s (x.1, x.2.s) ∧ SymInv x.2
  | .next r1 => L2NextOk r.s r1.s ∧ SymInv r1

theorem L2StepROk.lift (r : RSt) (st : Step) (h0 : r.sym0 = none) (h : L2StepOk r.s st) : L2StepROk r (liftStep r st) := by
  cases st with
  | done x => exact ⟨h, symInv_none _ h0⟩
  | next s1 => exact ⟨h, symInv_none _ h0⟩

theorem nextOk_byte (s s1 : St) (hb : s.inPos < s.inp.size) (h1 : s1.inp = s.inp) (h2 : s1.inPos = s.inPos + 1)
    (h3 : s1.outBase = s.outBase) (h4 : s1.dp = s.dp) (h7 : s1.hist = s.hist) (hae : s1.allowEopm = false)
    (hc : CopyInv s1) (hq : s.l2.seq ≠ .lzma) : L2NextOk s s1 := by
  refine ⟨L2Fw.of_byte hb h1 h2 h3 h4 h7, ⟨hae, hc⟩, by rw [h4], ?_⟩
  unfold Lzma2.mu
  rw [h1, h2, if_neg hq]
  split <;> omega

theorem controlApply_facts (s : St) (a : ControlAction) :
    (controlApply s a).l2.seq ≠ .copy ∧ (controlApply s a).l2.seq ≠ .lzma
    ∧ (controlApply s a).inPos = s.inPos ∧ (controlApply s a).inp = s.inp ∧ (controlApply s a).dp = s.dp
    ∧ (controlApply s a).outBase = s.outBase ∧ (controlApply s a).hist = s.hist
    ∧ (controlApply s a).allowEopm = s.allowEopm := by
  unfold controlApply
  simp only []
  split
  · split
    · exact ⟨by simp [setL2, St.resetLzma], by simp [setL2, St.resetLzma], rfl, rfl, rfl, rfl, rfl, rfl⟩
    · exact ⟨by simp [setL2], by simp [setL2], rfl, rfl, rfl, rfl, rfl, rfl⟩
  · exact ⟨by simp [setL2], by simp [setL2], rfl, rfl, rfl, rfl, rfl, rfl⟩

theorem l2Byte_ok (q : L2Seq) (s : St) (byte : Nat) (hP : P2s s) (hb : s.inPos < s.inp.size) (hq : s.l2.seq = q)
    (hl : q ≠ .lzma) (hc : q ≠ .copy) : L2StepOk s (l2Byte q s byte) := by
  have hql : s.l2.seq ≠ .lzma := by rw [hq]; exact hl
  have hqc : s.l2.seq ≠ .copy := by rw [hq]; exact hc
  have c1 : L2Fw s { s with inPos := s.inPos + 1 } := L2Fw.of_byte hb rfl rfl rfl rfl rfl
  have p1 : P2s { s with inPos := s.inPos + 1 } := ⟨hP.1, fun h => absurd h hqc⟩
  cases q with
  | lzma => exact absurd rfl hl
  | copy => exact absurd rfl hc
  | control =>
    simp only [l2Byte, l2Control]
    split
    · exact ⟨c1, by simp, p1, fun h => Or.inl h⟩
    · split
      · exact ⟨c1, by simp, p1, fun h => Or.inl h⟩
      · generalize controlStep byte s.l2.needProperties s.l2.needDictionaryReset = a
        have hca := controlApply_facts { s with inPos := s.inPos + 1 } a
        split
        · refine ⟨c1.trans ((L2Fw.of_same hca.2.2.2.1 hca.2.2.1 hca.2.2.2.2.2.1 hca.2.2.2.2.1 hca.2.2.2.2.2.2.1).trans
            ⟨Cr.of_same rfl rfl rfl rfl rfl rfl rfl, rfl, fun _ h => h⟩), by simp, ⟨hca.2.2.2.2.2.2.2.trans hP.1, fun h => absurd h hca.1⟩, fun _ => Or.inr ?_⟩
          show s.inPos < (controlApply { s with inPos := s.inPos + 1 } a).inPos
          rw [hca.2.2.1]; exact Nat.lt_succ_self _
        · exact nextOk_byte s _ hb hca.2.2.2.1 hca.2.2.1 hca.2.2.2.2.2.1 hca.2.2.2.2.1 hca.2.2.2.2.2.2.1
            (hca.2.2.2.2.2.2.2.trans hP.1) (fun h => absurd h hca.1) hql
  | uncompressed1 => exact nextOk_byte s _ hb rfl rfl rfl rfl rfl hP.1 (fun h => by simp [setL2] at h) hql
  | uncompressed2 => exact nextOk_byte s _ hb rfl rfl rfl rfl rfl rfl (fun h => by simp [setL2] at h) hql
  | compressed0 => exact nextOk_byte s _ hb rfl rfl rfl rfl rfl hP.1 (fun h => by simp [setL2] at h) hql
  | compressed1 => exact nextOk_byte s _ hb rfl rfl rfl rfl rfl hP.1 (fun _ => by simp [setL2]) hql
  | properties =>
    simp only [l2Byte]
    cases propsDecode byte with
    | none => exact ⟨c1, by simp, p1, fun h => Or.inl h⟩
    | some p => exact nextOk_byte s _ hb rfl rfl rfl rfl rfl hP.1 (fun h => by simp [setL2, St.resetLzma] at h) hql

theorem fw_dictWrite (s : St) (left : Nat) (hp : s.inPos ≤ s.inp.size) : L2Fw s (dictWrite s left).2 := by
  refine ⟨cr_dictWrite s left hp, rfl, ?_⟩
  unfold dictWrite DictPos.advance
  simp only []
  intro hw hf
  rw [hw]
  simp only [Bool.false_eq_true, if_false]
  simp only [LZ_DICT_INIT_POS] at hf ⊢
  omega

theorem l2Copy_ok (s : St) (hP : P2s s) (hin : s.inPos ≤ s.inp.size) (hq : s.l2.seq = .copy) : L2StepOk s (l2Copy s) := by
  have hc1 := hP.2 hq
  have hw := fw_dictWrite s s.l2.compressedSize hin
  have hwn : (dictWrite s s.l2.compressedSize).2.inPos = s.inPos + (dictWrite s s.l2.compressedSize).1
      ∧ (dictWrite s s.l2.compressedSize).2.l2 = s.l2
      ∧ (dictWrite s s.l2.compressedSize).2.dp.needReset = s.dp.needReset
      ∧ (dictWrite s s.l2.compressedSize).2.inp = s.inp
      ∧ (dictWrite s s.l2.compressedSize).2.allowEopm = s.allowEopm := by
    unfold dictWrite; exact ⟨rfl, rfl, rfl, rfl, rfl⟩
  unfold l2Copy
  generalize hd : dictWrite s s.l2.compressedSize = r at hw hwn
  obtain ⟨n, s1⟩ := r
  have hw' : L2Fw s s1 := hw
  obtain ⟨e1, e2, e3, e4, e5⟩ := hwn
  simp only [] at e1 e2 e3 e4 e5 ⊢
  split
  · next hne =>
    refine ⟨hw'.trans (L2Fw.of_same rfl rfl rfl rfl rfl), by simp, ⟨e5.trans hP.1, fun _ => ?_⟩, fun h => by left; rw [← e3]; exact h⟩
    simp only [setL2] at hne ⊢
    rw [e2] at hne ⊢
    simp at hne
    omega
  · next heq =>
    simp only [setL2] at heq
    rw [e2] at heq
    simp at heq
    refine ⟨hw'.trans (L2Fw.of_same rfl rfl rfl rfl rfl), ⟨e5.trans hP.1, fun h => by simp [setL2] at h⟩, e3, ?_⟩
    have hle := hw'.cr.pos_le hin
    rw [e1, e4] at hle
    unfold Lzma2.mu; simp [setL2, hq, e1, e4]; omega

theorem l2LzmaR_ok (s1 : L1Spec) (e1 : L1EndNone) (g1 : SymPreL2) (r : RSt) (hP : P2 r) (hin : r.s.inPos ≤ r.s.inp.size)
    (hlim : r.s.dp.pos ≤ r.s.dp.limit) (hnr0 : r.s.dp.needReset = false) (hq : r.s.l2.seq = .lzma) :
    L2StepROk r (l2LzmaR r.s.inPos (lzmaCallR r)) := by
  obtain ⟨hsp, hwr, hret, _, hae, _, hwp, hfu⟩ := s1 r hP.2.1 hin hlim
  have hen := e1 r
  generalize lzmaCallR r = x at hsp hwr hret hae hwp hfu hen
  have hfw : L2Fw r.s x.2.s := ⟨hwr.toCr, hwp, hfu⟩
  have hnr := hwr.needReset
  have hnf : x.2.s.dp.needReset = false := hnr.trans hnr0
  have hl2 := hwr.l2
  have hseq1 : x.2.s.l2.seq = .lzma := by rw [hl2]; exact hq
  have hae1 : x.2.s.allowEopm = false := hae.trans hP.1.1
  unfold l2LzmaR
  simp only []
  split
  · refine ⟨⟨hfw, by simp, ⟨hae1, fun h => ?_⟩, fun h => ?_⟩, hsp, fun hne => absurd hseq1 hne, fun h => absurd (hnf.symm.trans h) (by decide)⟩
    · rw [hseq1] at h; cases h
    · left; rw [← hnr]; exact h
  · split
    · refine ⟨⟨hfw.trans (L2Fw.of_same rfl rfl rfl rfl rfl), hret, ⟨hae1, fun h => ?_⟩, fun h => by left; rw [← hnr]; exact h⟩,
        g1 _ _ hsp, fun hne => absurd hseq1 hne, fun h => absurd (hnf.symm.trans h) (by decide)⟩
      simp [RSt.map, setL2, hseq1] at h
    · next hse =>
      have hse' : x.1 = .streamEnd := by simpa using hse
      split
      · refine ⟨⟨hfw.trans (L2Fw.of_same rfl rfl rfl rfl rfl), by simp, ⟨hae1, fun h => ?_⟩, fun h => by left; rw [← hnr]; exact h⟩,
          g1 _ _ hsp, fun hne => absurd hseq1 hne, fun h => absurd (hnf.symm.trans h) (by decide)⟩
        simp [RSt.map, setL2, hseq1] at h
      · refine ⟨⟨hfw.trans (L2Fw.of_same rfl rfl rfl rfl rfl), ⟨hae1, fun h => by simp [RSt.map, setL2] at h⟩, hnr, ?_⟩,
          symInv_none _ (hen hse')⟩
        have := hwr.pos_mono; have := hwr.inp
        unfold Lzma2.mu; simp [RSt.map, setL2, *]; omega

/-- a state a call may start from -/
structure L2Good (r : RSt) : Prop where
  p2 : P2 r
  inPos : r.s.inPos ≤ r.s.inp.size
  pos : r.s.dp.pos ≤ r.s.dp.limit
  nr : r.s.dp.needReset = false

theorem l2StepR_ok (s1 : L1Spec) (e1 : L1EndNone) (g1 : SymPreL2) (r : RSt) (hg : L2Good r) : L2StepROk r (l2StepR r) := by
  by_cases hq : r.s.l2.seq = .lzma
  · have : l2StepR r = l2LzmaR r.s.inPos (lzmaCallR r) := by unfold l2StepR; simp [hq]
    rw [this]
    exact l2LzmaR_ok s1 e1 g1 r hg.p2 hg.inPos hg.pos hg.nr hq
  · by_cases hb : r.s.inPos < r.s.inp.size
    · by_cases hc : r.s.l2.seq = .copy
      · have : l2StepR r = liftStep r (l2Copy r.s) := by unfold l2StepR; simp [hc, hb]
        rw [this]
        exact L2StepROk.lift r _ (hg.p2.2.2.1 hq) (l2Copy_ok r.s hg.p2.1 hg.inPos hc)
      · have : l2StepR r = liftStep r (l2Byte r.s.l2.seq r.s (curByte r.s)) := by
          unfold l2StepR
          rw [if_neg (by simp [hb])]
          cases h : r.s.l2.seq with
          | lzma => exact absurd h hq
          | copy => exact absurd h hc
          | _ => rfl
        rw [this]
        exact L2StepROk.lift r _ (hg.p2.2.2.1 hq) (l2Byte_ok _ r.s _ hg.p2.1 hb rfl hq hc)
    · have : l2StepR r = .done (.ok, r) := by unfold l2StepR; rw [if_pos]; simp [hb, hq]
      rw [this]
      exact ⟨⟨L2Fw.refl _, by simp, hg.p2.1, fun h => Or.inl h⟩, hg.p2.2⟩

theorem L2Good.next {r r1 : RSt} (hg : L2Good r) (h : L2NextOk r.s r1.s) (hs : SymInv r1) : L2Good r1 :=
  ⟨⟨h.p2, hs⟩, h.fw.cr.pos_le hg.inPos, h.fw.cr.in_limit hg.pos, h.nr.trans hg.nr⟩

theorem L2DoneOk.of_next {s s1 : St} {x : Ret × St} (hn : L2NextOk s s1) (h : L2DoneOk s1 x) : L2DoneOk s x :=
  ⟨hn.fw.trans h.fw, h.ret, h.p2, fun hr => by
    rcases h.reset hr with h1 | h1
    · left; rw [← hn.nr]; exact h1
    · right; exact Nat.lt_of_le_of_lt hn.fw.cr.pos_mono h1⟩

/-- `lzma2_decode` with enough fuel: coder relation, never LZMA_PROG_ERROR, invariant, reset only after progress -/
theorem lzma2LoopR_ok (s1 : L1Spec) (e1 : L1EndNone) (g1 : SymPreL2) : ∀ (f : Nat) (r : RSt), L2Good r → mu r.s < f →
    L2DoneOk r.s ((lzma2LoopR f r).1, (lzma2LoopR f r).2.s) ∧ SymInv (lzma2LoopR f r).2
  | 0, _, _, hmu => by omega
  | f + 1, r, hg, hmu => by
    rw [lzma2LoopR_succ]
    have hs := l2StepR_ok s1 e1 g1 r hg
    cases hst : l2StepR r with
    | done x => rw [hst] at hs; exact hs
    | next r1 =>
      rw [hst] at hs
      have hn : L2NextOk r.s r1.s := hs.1
      have ih := lzma2LoopR_ok s1 e1 g1 f r1 (hg.next hn hs.2) (by have := hn.mu; omega)
      exact ⟨L2DoneOk.of_next hn ih.1, ih.2⟩

/-- the result does not depend on the fuel once it exceeds the measure -/
theorem lzma2LoopR_fuel_indep (s1 : L1Spec) (e1 : L1EndNone) (g1 : SymPreL2) : ∀ (f f' : Nat) (r : RSt), L2Good r → mu r.s < f → mu r.s < f' →
    lzma2LoopR f r = lzma2LoopR f' r
  | 0, _, _, _, hmu, _ => by omega
  | _ + 1, 0, _, _, _, hmu => by omega
  | f + 1, f' + 1, r, hg, hmu, hmu' => by
    rw [lzma2LoopR_succ, lzma2LoopR_succ]
    have hs := l2StepR_ok s1 e1 g1 r hg
    cases hst : l2StepR r with
    | done x => rfl
    | next r1 =>
      rw [hst] at hs
      have hn : L2NextOk r.s r1.s := hs.1
      exact lzma2LoopR_fuel_indep s1 e1 g1 f f' r1 (hg.next hn hs.2) (by have := hn.mu; omega) (by have := hn.mu; omega)

theorem mu_lt_callFuel (s : St) : mu s < 2 * (s.inp.size - s.inPos) + 3 := by
  unfold Lzma2.mu; split <;> omega

theorem lzma2CallR_ok (s1 : L1Spec) (e1 : L1EndNone) (g1 : SymPreL2) (r : RSt) (hg : L2Good r) :
    L2DoneOk r.s ((lzma2CallR r).1, (lzma2CallR r).2.s) ∧ SymInv (lzma2CallR r).2 :=
  lzma2LoopR_ok s1 e1 g1 _ r hg (by have := mu_lt_callFuel r.s; omega)

/-- one call = one iteration, then (if the loop goes on) one call from the next state -/
theorem lzma2CallR_unfold (s1 : L1Spec) (e1 : L1EndNone) (g1 : SymPreL2) (r : RSt) (hg : L2Good r) :
    lzma2CallR r = runStepR lzma2CallR (l2StepR r) := by
  have hm := mu_lt_callFuel r.s
  have e : lzma2CallR r = lzma2LoopR (2 * (r.s.inp.size - r.s.inPos) + 3 + 1) r := by unfold lzma2CallR; rfl
  rw [e, lzma2LoopR_succ]
  have hs := l2StepR_ok s1 e1 g1 r hg
  cases hst : l2StepR r with
  | done x => simp only [runStepR]
  | next r1 =>
    rw [hst] at hs
    have hn : L2NextOk r.s r1.s := hs.1
    have hm1 := mu_lt_callFuel r1.s
    simp only [runStepR]
    unfold lzma2CallR
    exact lzma2LoopR_fuel_indep s1 e1 g1 _ _ r1 (hg.next hn hs.2) (by have := hn.mu; omega) (by omega)

/-- the `spec` field of `CodeAbsorb` -/
theorem lzma2CallR_spec (s1 : L1Spec) (e1 : L1EndNone) (g1 : SymPreL2) (r : RSt) (hP : P2 r) (hnr : r.s.dp.needReset = false)
    (hin : r.s.inPos ≤ r.s.inp.size)
    (hlim : r.s.dp.pos ≤ r.s.dp.limit) :
    Cr r.s (lzma2CallR r).2.s ∧ (lzma2CallR r).1 ≠ .progError ∧ P2 (lzma2CallR r).2
    ∧ ((lzma2CallR r).2.s.dp.needReset = true → r.s.dp.needReset = true ∨ r.s.inPos < (lzma2CallR r).2.s.inPos)
    ∧ (lzma2CallR r).2.s.dp.hasWrapped = r.s.dp.hasWrapped
    ∧ (r.s.dp.hasWrapped = false → r.s.dp.full + LZ_DICT_INIT_POS = r.s.dp.pos →
        (lzma2CallR r).2.s.dp.full + LZ_DICT_INIT_POS = (lzma2CallR r).2.s.dp.pos) := by
  have h := lzma2CallR_ok s1 e1 g1 r ⟨hP, hin, hlim, hnr⟩
  exact ⟨h.1.fw.cr, h.1.ret, ⟨h.1.p2, h.2⟩, h.1.reset, h.1.fw.wrapped, h.1.fw.full⟩

/-! ### absorption: views of steps -/

/-- `St` part of `RSt.view` -/
def vw (s : St) (b : ByteArray) (L : Nat) : St := { s with inp := b, dp := { s.dp with limit := L } }

def stepVw (b : ByteArray) (L : Nat) : Step → Step
  | .done x => .done (x.1, vw x.2 b L)
  | .next s => .next (vw s b L)

def StepR.view (b : ByteArray) (L : Nat) : StepR → StepR
  | .done x => .done (x.1, x.2.view b L)
  | .next r => .next (r.view b L)

/-- same kind of outcome, same result up to (`inp`, `dp.limit`) -/
def StepSame : StepR → StepR → Prop
  | .done x, .done y => Same x y
  | .next r, .next r' => r.norm = r'.norm
  | _, _ => False

def StepEqv : StepR → StepR → Prop
  | .done x, .done y => Eqv x y
  | .next r, .next r' => r = r'
  | _, _ => False

/-- a returning step with LZMA_OK asks for a dictionary reset -/
def StepR.yields : StepR → Prop
  | .done x => x.1 = .ok → x.2.s.dp.needReset = true
  | .next _ => True

def stepYields : Step → Prop
  | .done x => x.1 = .ok → x.2.dp.needReset = true
  | .next _ => True

theorem StepEqv.refl (st : StepR) : StepEqv st st := by
  cases st with
  | done x => exact Eqv.refl x
  | next r => rfl

theorem StepSame.of_view (st : StepR) (b b' : ByteArray) (L L' : Nat) : StepSame (st.view b' L') (st.view b L) := by
  cases st with
  | done x => exact ⟨rfl, rfl⟩
  | next r => rfl

theorem liftStep_view (r : RSt) (st : Step) (b : ByteArray) (L : Nat) :
    liftStep (r.view b L) (stepVw b L st) = (liftStep r st).view b L := by
  cases st <;> rfl

theorem yields_lift_view (r : RSt) (st : Step) (b : ByteArray) (L : Nat) (h : stepYields st) : ((liftStep r st).view b L).yields := by
  cases st with
  | done x => exact h
  | next s => trivial

theorem controlApply_vw (s : St) (a : ControlAction) (b : ByteArray) (L : Nat) :
    controlApply (vw s b L) a = vw (controlApply s a) b L := by
  unfold controlApply
  simp only []
  split
  · split <;> rfl
  · rfl

theorem l2Control_vw (t : St) (a : ControlAction) (b : ByteArray) (L : Nat) :
    l2Control (vw t b L) a = stepVw b L (l2Control t a) := by
  unfold l2Control
  split
  · rfl
  · split
    · rfl
    · simp only []
      rw [controlApply_vw]
      split <;> rfl

theorem l2Byte_vw (q : L2Seq) (s : St) (byte : Nat) (b : ByteArray) (L : Nat) :
    l2Byte q (vw s b L) byte = stepVw b L (l2Byte q s byte) := by
  cases q with
  | control => exact l2Control_vw { s with inPos := s.inPos + 1 } _ b L
  | properties =>
    simp only [l2Byte]
    cases propsDecode byte <;> rfl
  | uncompressed1 => rfl
  | uncompressed2 => rfl
  | compressed0 => rfl
  | compressed1 => rfl
  | lzma => rfl
  | copy => rfl

theorem l2Byte_yields (q : L2Seq) (s : St) (byte : Nat) : stepYields (l2Byte q s byte) := by
  cases q with
  | control =>
    simp only [l2Byte, l2Control]
    split
    · intro h; cases h
    · split
      · intro h; cases h
      · split
        · intro _; rfl
        · trivial
  | properties =>
    simp only [l2Byte]
    cases propsDecode byte with
    | none => intro h; cases h
    | some p => trivial
  | uncompressed1 => trivial
  | uncompressed2 => trivial
  | compressed0 => trivial
  | compressed1 => trivial
  | lzma => trivial
  | copy => trivial

theorem l2LzmaR_view (i : Nat) (ret : Ret) (w : RSt) (b : ByteArray) (L : Nat) :
    l2LzmaR i (ret, w.view b L) = (l2LzmaR i (ret, w)).view b L := by
  unfold l2LzmaR
  show (if w.s.inPos - i > w.s.l2.compressedSize then _ else _) = StepR.view b L (if w.s.inPos - i > w.s.l2.compressedSize then _ else _)
  split
  · rfl
  · simp only []
    split
    · rfl
    · show (if (w.s.l2.compressedSize - (w.s.inPos - i) != 0) = true then _ else _) =
        StepR.view b L (if (w.s.l2.compressedSize - (w.s.inPos - i) != 0) = true then _ else _)
      split <;> rfl

theorem RSt.view_self (r : RSt) : r.view r.s.inp r.s.dp.limit = r := rfl

theorem RSt.eq_of_norm {r r' : RSt} (h : r.norm = r'.norm) (h1 : r.s.inp = r'.s.inp) (h2 : r.s.dp.limit = r'.s.dp.limit) : r = r' := by
  have := RSt.view_congr h r.s.inp r.s.dp.limit
  rw [RSt.view_self] at this
  rw [this, h1, h2]
  rfl

theorem l2LzmaR_same (i : Nat) (x y : Ret × RSt) (h : Same x y) : StepSame (l2LzmaR i x) (l2LzmaR i y) := by
  obtain ⟨xr, xs⟩ := x
  obtain ⟨yr, ys⟩ := y
  have e1 : xr = yr := h.1
  have e2 : xs.norm = ys.norm := h.2
  subst e1
  have ex : xs = xs.norm.view xs.s.inp xs.s.dp.limit := rfl
  have ey : ys = xs.norm.view ys.s.inp ys.s.dp.limit := by rw [e2]; rfl
  rw [ex, ey, l2LzmaR_view, l2LzmaR_view]
  exact StepSame.of_view _ _ _ _ _

/-! ### absorption: one iteration -/

theorem l2StepR_lzma (r : RSt) (hq : r.s.l2.seq = .lzma) : l2StepR r = l2LzmaR r.s.inPos (lzmaCallR r) := by
  unfold l2StepR; simp [hq]

theorem l2StepR_copy (r : RSt) (hc : r.s.l2.seq = .copy) (hb : r.s.inPos < r.s.inp.size) : l2StepR r = liftStep r (l2Copy r.s) := by
  unfold l2StepR; simp [hc, hb]

theorem l2StepR_byte (r : RSt) (hq : r.s.l2.seq ≠ .lzma) (hc : r.s.l2.seq ≠ .copy) (hb : r.s.inPos < r.s.inp.size) :
    l2StepR r = liftStep r (l2Byte r.s.l2.seq r.s (curByte r.s)) := by
  unfold l2StepR
  rw [if_neg (by simp [hb])]
  cases h : r.s.l2.seq with
  | lzma => exact absurd h hq
  | copy => exact absurd h hc
  | _ => rfl

theorem l2StepR_starve (r : RSt) (hq : r.s.l2.seq ≠ .lzma) (hb : ¬ r.s.inPos < r.s.inp.size) : l2StepR r = .done (.ok, r) := by
  unfold l2StepR; rw [if_pos]; simp [hb, hq]

/-- how the iteration of the call with more resources relates to that of the call with fewer -/
inductive L2Out (b' : ByteArray) (L' : Nat) (sx sy : StepR) : Prop
  | same (h : StepSame sy sx) (hy : sx.yields)
  | overrun (x y : Ret × RSt) (hx : sx = .done x) (hy : sy = .done y) (h1 : x.1 = .dataError) (h2 : y.1 = .dataError)
      (h3 : x.2.overrun = true) (h4 : y.2.overrun = true)
  | resume (x : Ret × RSt) (hx : sx = .done x) (hok : x.1 = .ok) (hnr : x.2.s.dp.needReset = false)
      (h : StepEqv sy (l2StepR (x.2.view b' L')))

theorem absorb_byte (r : RSt) (b b' : ByteArray) (L L' : Nat) (hag : Agree b.size b b') (hb : r.s.inPos < b.size)
    (hq : r.s.l2.seq ≠ .lzma) (hc : r.s.l2.seq ≠ .copy) : L2Out b' L' (l2StepR (r.view b L)) (l2StepR (r.view b' L')) := by
  have hb' : r.s.inPos < b'.size := Nat.lt_of_lt_of_le hb hag.le'
  rw [l2StepR_byte (r.view b L) hq hc hb, l2StepR_byte (r.view b' L') hq hc hb']
  have hcur : curByte (r.view b L).s = curByte (r.view b' L').s := by
    show (if hlt : r.s.inPos < b.size then b[r.s.inPos] else 0).toNat = (if hlt : r.s.inPos < b'.size then b'[r.s.inPos] else 0).toNat
    rw [dif_pos hb, dif_pos hb', hag.eq r.s.inPos hb hb' hb]
  rw [hcur]
  show L2Out b' L' (liftStep (r.view b L) (l2Byte r.s.l2.seq (vw r.s b L) _)) (liftStep (r.view b' L') (l2Byte r.s.l2.seq (vw r.s b' L') _))
  rw [l2Byte_vw, l2Byte_vw, liftStep_view, liftStep_view]
  exact .same (StepSame.of_view _ _ _ _ _) (yields_lift_view _ _ _ _ (l2Byte_yields _ _ _))

theorem l2LzmaR_yields (i : Nat) (x : Ret × RSt) (hok : x.1 ≠ .ok) : (l2LzmaR i x).yields := by
  unfold l2LzmaR
  simp only []
  split
  · intro h; cases h
  · split
    · intro h; exact absurd h hok
    · split
      · intro h; cases h
      · trivial

/-- SEQ_LZMA after the overrun test, `c` = the new `compressed_size` -/
def lzTail (ret : Ret) (r : RSt) (c : Nat) : StepR :=
  let r' := r.map fun s => setL2 s fun l => { l with compressedSize := c }
  if ret != .streamEnd then .done (ret, r')
  else if c != 0 then .done (.dataError, r')
  else .next (r'.map fun s => setL2 s fun l => { l with seq := .control })

theorem l2LzmaR_eq (i : Nat) (x : Ret × RSt) : l2LzmaR i x =
    if x.2.s.inPos - i > x.2.s.l2.compressedSize then .done (.dataError, { x.2 with overrun := true })
    else lzTail x.1 x.2 (x.2.s.l2.compressedSize - (x.2.s.inPos - i)) := rfl

theorem l2LzmaR_shift (i j : Nat) (w : Ret × RSt) (hij : i ≤ j) (hjw : j ≤ w.2.s.inPos) (hc : j - i ≤ w.2.s.l2.compressedSize) :
    StepEqv (l2LzmaR i w)
      (l2LzmaR j (w.1, w.2.map fun s => setL2 s fun l => { l with compressedSize := l.compressedSize - (j - i) })) := by
  rw [l2LzmaR_eq, l2LzmaR_eq]
  show StepEqv (if w.2.s.inPos - i > w.2.s.l2.compressedSize then _ else _)
    (if w.2.s.inPos - j > w.2.s.l2.compressedSize - (j - i) then _
     else lzTail w.1 w.2 (w.2.s.l2.compressedSize - (j - i) - (w.2.s.inPos - j)))
  have e : w.2.s.l2.compressedSize - (j - i) - (w.2.s.inPos - j) = w.2.s.l2.compressedSize - (w.2.s.inPos - i) := by omega
  by_cases hov : w.2.s.inPos - i > w.2.s.l2.compressedSize
  · have hov' : w.2.s.inPos - j > w.2.s.l2.compressedSize - (j - i) := by omega
    rw [if_pos hov, if_pos hov']
    exact Or.inr ⟨rfl, rfl, rfl, rfl⟩
  · have hov' : ¬ w.2.s.inPos - j > w.2.s.l2.compressedSize - (j - i) := by omega
    rw [if_neg hov, if_neg hov', e]
    exact StepEqv.refl _

theorem absorb_lzma (h1 : L1Absorb) (s1 : L1Spec) (f1 : L1L2Frame) (r : RSt) (b b' : ByteArray) (L L' : Nat) (hP : P2 r)
    (hag0 : Agree r.s.inPos r.s.inp b)
    (hin : r.s.inPos ≤ b.size) (hlim : r.s.dp.pos ≤ L) (hag : Agree b.size b b') (hL : L ≤ L') (hnr : r.s.dp.needReset = false)
    (hq : r.s.l2.seq = .lzma) : L2Out b' L' (l2StepR (r.view b L)) (l2StepR (r.view b' L')) := by
  rw [l2StepR_lzma (r.view b L) hq, l2StepR_lzma (r.view b' L') hq]
  show L2Out b' L' (l2LzmaR r.s.inPos (lzmaCallR (r.view b L))) (l2LzmaR r.s.inPos (lzmaCallR (r.view b' L')))
  have hin' : r.s.inPos ≤ b'.size := Nat.le_trans hin hag.le'
  have ha := h1 r b b' L L' ⟨hin, hlim, hag0, hP.2.1, Or.inl hP.1.1⟩ hag hL
  have hag0' : Agree r.s.inPos r.s.inp b' := agree_trans hag0 (agree_weaken hag hin)
  obtain ⟨hspx, hwr, _, _, _, _, _, _⟩ := s1 (r.view b L) (symPre_view r b L hP.2.1 hag0) hin hlim
  obtain ⟨_, hwr', _, _, _, _, _, _⟩ := s1 (r.view b' L') (symPre_view r b' L' hP.2.1 hag0') hin' (Nat.le_trans hlim hL)
  generalize hx : lzmaCallR (r.view b L) = x at ha hwr hspx
  generalize hy : lzmaCallR (r.view b' L') = y at ha hwr'
  by_cases hok : x.1 = .ok
  · rw [if_pos hok] at ha
    have hxin : x.2.s.inPos ≤ b'.size := by
      have h := hwr.pos_le hin
      rw [hwr.inp] at h
      exact Nat.le_trans h hag.le'
    have hxlim : x.2.s.dp.pos ≤ L' := by
      have h := hwr.in_limit hlim
      rw [hwr.limit] at h
      exact Nat.le_trans h hL
    have hxb : x.2.s.inPos ≤ b.size := by
      have h := hwr.pos_le hin
      rw [hwr.inp] at h
      exact h
    have hagx : Agree x.2.s.inPos x.2.s.inp b' := by
      rw [hwr.inp]
      exact agree_weaken hag hxb
    obtain ⟨_, hww, _, _, _, _, _, _⟩ := s1 (x.2.view b' L') (symPre_view x.2 b' L' hspx hagx) hxin hxlim
    generalize hw : lzmaCallR (x.2.view b' L') = w at ha hww
    have hyw : y = w := by
      have e2 : y.2 = w.2 := RSt.eq_of_norm ha.2 (hwr'.inp.trans hww.inp.symm) (hwr'.limit.trans hww.limit.symm)
      exact Prod.ext ha.1 e2
    subst hyw
    have m1 : r.s.inPos ≤ x.2.s.inPos := hwr.pos_mono
    have m2 : x.2.s.inPos ≤ y.2.s.inPos := hww.pos_mono
    have l1 : y.2.s.l2 = x.2.s.l2 := hww.l2
    by_cases hover : x.2.s.inPos - r.s.inPos > x.2.s.l2.compressedSize
    · have hover' : y.2.s.inPos - r.s.inPos > y.2.s.l2.compressedSize := by rw [l1]; omega
      exact .overrun _ _ (by unfold l2LzmaR; rw [if_pos hover]) (by unfold l2LzmaR; rw [if_pos hover']) rfl rfl rfl rfl
    · have hsx : l2LzmaR r.s.inPos x = .done (x.1, x.2.map fun s => setL2 s fun l =>
          { l with compressedSize := l.compressedSize - (x.2.s.inPos - r.s.inPos) }) := by
        unfold l2LzmaR
        rw [if_neg hover]
        simp only []
        rw [if_pos (by rw [hok]; decide)]
      refine .resume _ hsx hok (hwr.needReset.trans hnr) ?_
      have hseq : ((x.2.map fun s => setL2 s fun l =>
          { l with compressedSize := l.compressedSize - (x.2.s.inPos - r.s.inPos) }).view b' L').s.l2.seq = .lzma := by
        show x.2.s.l2.seq = .lzma
        rw [hwr.l2]; exact hq
      rw [l2StepR_lzma _ hseq]
      have e : (x.2.map fun s => setL2 s fun l =>
          { l with compressedSize := l.compressedSize - (x.2.s.inPos - r.s.inPos) }).view b' L'
          = (x.2.view b' L').map fun s => setL2 s fun l =>
          { l with compressedSize := l.compressedSize - (x.2.s.inPos - r.s.inPos) } := rfl
      rw [e, f1, hw]
      exact l2LzmaR_shift r.s.inPos x.2.s.inPos y m1 m2 (by rw [l1]; omega)
  · rw [if_neg hok] at ha
    exact .same (l2LzmaR_same _ _ _ ha) (l2LzmaR_yields _ _ hok)

/-! ### SEQ_COPY -/

theorem appendSlice_add (src : ByteArray) : ∀ (n1 n2 off : Nat) (h : ByteArray),
    appendSlice src (n1 + n2) off h = appendSlice src n2 (off + n1) (appendSlice src n1 off h)
  | 0, n2, off, h => by
    rw [Nat.zero_add]
    rfl
  | n1 + 1, n2, off, h => by
    have e : n1 + 1 + n2 = (n1 + n2) + 1 := by omega
    have e2 : off + (n1 + 1) = off + 1 + n1 := by omega
    rw [e, appendSlice, appendSlice, appendSlice_add src n1 n2 (off + 1), e2]

theorem l2Copy_eq (s : St) :
    l2Copy s = l2CopyWith s (copyCount s) (appendSlice s.inp (copyCount s) s.inPos s.hist) := by
  unfold l2Copy l2CopyWith
  show (if (s.l2.compressedSize - copyCount s != 0) = true then _ else _) =
    (if (s.l2.compressedSize - copyCount s != 0) = true then _ else _)
  split <;> rfl

theorem l2CopyWith_vw (v : St) (cnt : Nat) (h : ByteArray) (b : ByteArray) (L : Nat) :
    l2CopyWith (vw v b L) cnt h = stepVw b L (l2CopyWith v cnt h) := by
  unfold l2CopyWith
  show (if (v.l2.compressedSize - cnt != 0) = true then _ else _) =
    stepVw b L (if (v.l2.compressedSize - cnt != 0) = true then _ else _)
  split <;> rfl

/-- the state after copying `cnt` bytes -/
def copySt (v : St) (cnt : Nat) (h : ByteArray) : St :=
  setL2 { v with hist := h, inPos := v.inPos + cnt, dp := v.dp.advance cnt } fun l =>
    { l with compressedSize := l.compressedSize - cnt }

theorem l2CopyWith_more (v : St) (cnt : Nat) (h : ByteArray) (hz : v.l2.compressedSize - cnt ≠ 0) :
    l2CopyWith v cnt h = .done (.ok, copySt v cnt h) := by
  unfold l2CopyWith
  show (if (v.l2.compressedSize - cnt != 0) = true then _ else _) = _
  rw [if_pos (by simpa using hz)]
  rfl

theorem l2CopyWith_yields_of_zero (v : St) (cnt : Nat) (h : ByteArray) (hz : v.l2.compressedSize - cnt = 0) :
    stepYields (l2CopyWith v cnt h) := by
  unfold l2CopyWith
  show stepYields (if (v.l2.compressedSize - cnt != 0) = true then _ else _)
  rw [if_neg (by simp [hz])]
  trivial

theorem l2CopyWith_eq (v : St) (cnt : Nat) (h : ByteArray) : l2CopyWith v cnt h =
    if (v.l2.compressedSize - cnt != 0) = true then .done (.ok, copySt v cnt h)
    else .next (setL2 (copySt v cnt h) fun l => { l with seq := .control }) := rfl

theorem copySt_split (v : St) (n1 n2 : Nat) (h1 h2 : ByteArray) (b' : ByteArray) (L' : Nat) :
    copySt (vw (copySt v n1 h1) b' L') n2 h2 = copySt (vw v b' L') (n1 + n2) h2 := by
  simp only [copySt, vw, setL2, DictPos.advance, Nat.add_assoc, Nat.sub_sub]
  congr 2
  by_cases hw : v.dp.hasWrapped = true <;> simp [hw]

theorem copy_split (v : St) (n1 n2 : Nat) (h1 h2 : ByteArray) (b' : ByteArray) (L' : Nat) :
    l2CopyWith (vw (copySt v n1 h1) b' L') n2 h2 = l2CopyWith (vw v b' L') (n1 + n2) h2 := by
  rw [l2CopyWith_eq, l2CopyWith_eq, copySt_split]
  show (if (v.l2.compressedSize - n1 - n2 != 0) = true then _ else _) = (if (v.l2.compressedSize - (n1 + n2) != 0) = true then _ else _)
  rw [Nat.sub_sub]

theorem liftStep_congr (r r' : RSt) (st : Step) (h1 : r.sym0 = r'.sym0) (h2 : r.overrun = r'.overrun) :
    liftStep r st = liftStep r' st := by
  cases st with
  | done x => simp only [liftStep, h1, h2]
  | next s => simp only [liftStep, h1, h2]

theorem absorb_copy (r : RSt) (b b' : ByteArray) (L L' : Nat) (hb : r.s.inPos < b.size) (hlim : r.s.dp.pos ≤ L)
    (hag : Agree b.size b b') (hL : L ≤ L') (hnr : r.s.dp.needReset = false) (hc : r.s.l2.seq = .copy) :
    L2Out b' L' (l2StepR (r.view b L)) (l2StepR (r.view b' L')) := by
  have hle := hag.le'
  have hb' : r.s.inPos < b'.size := Nat.lt_of_lt_of_le hb hle
  rw [l2StepR_copy (r.view b L) hc hb, l2StepR_copy (r.view b' L') hc hb']
  show L2Out b' L' (liftStep (r.view b L) (l2Copy (vw r.s b L))) (liftStep (r.view b' L') (l2Copy (vw r.s b' L')))
  rw [l2Copy_eq, l2Copy_eq]
  generalize hn1 : copyCount (vw r.s b L) = n1
  generalize hn : copyCount (vw r.s b' L') = n
  have en1 : n1 = min (min (b.size - r.s.inPos) r.s.l2.compressedSize) (L - r.s.dp.pos) := hn1.symm
  have en : n = min (min (b'.size - r.s.inPos) r.s.l2.compressedSize) (L' - r.s.dp.pos) := hn.symm
  show L2Out b' L' (liftStep (r.view b L) (l2CopyWith (vw r.s b L) n1 (appendSlice b n1 r.s.inPos r.s.hist)))
    (liftStep (r.view b' L') (l2CopyWith (vw r.s b' L') n (appendSlice b' n r.s.inPos r.s.hist)))
  rw [appendSlice_agree b.size b b' hag n1 r.s.inPos r.s.hist (by omega)]
  rw [l2CopyWith_vw _ n1, liftStep_view]
  by_cases hz : r.s.l2.compressedSize - n1 = 0
  · have e : n = n1 := by omega
    rw [e, l2CopyWith_vw, liftStep_view]
    exact .same (StepSame.of_view _ _ _ _ _) (yields_lift_view _ _ _ _ (l2CopyWith_yields_of_zero _ _ _ hz))
  · rw [l2CopyWith_more r.s n1 _ hz]
    refine .resume (.ok, ({ r with s := copySt r.s n1 (appendSlice b' n1 r.s.inPos r.s.hist) } : RSt).view b L) rfl rfl hnr ?_
    show StepEqv _ (l2StepR (({ r with s := copySt r.s n1 (appendSlice b' n1 r.s.inPos r.s.hist) } : RSt).view b' L'))
    by_cases hg : r.s.inPos + n1 < b'.size
    · rw [l2StepR_copy (({ r with s := copySt r.s n1 (appendSlice b' n1 r.s.inPos r.s.hist) } : RSt).view b' L') hc hg]
      show StepEqv _ (liftStep _ (l2Copy (vw (copySt r.s n1 (appendSlice b' n1 r.s.inPos r.s.hist)) b' L')))
      rw [l2Copy_eq]
      generalize hn2 : copyCount (vw (copySt r.s n1 (appendSlice b' n1 r.s.inPos r.s.hist)) b' L') = n2
      have en2 : n2 = min (min (b'.size - (r.s.inPos + n1)) (r.s.l2.compressedSize - n1)) (L' - (r.s.dp.pos + n1)) := hn2.symm
      show StepEqv _ (liftStep _ (l2CopyWith (vw (copySt r.s n1 (appendSlice b' n1 r.s.inPos r.s.hist)) b' L') n2
        (appendSlice b' n2 (r.s.inPos + n1) (appendSlice b' n1 r.s.inPos r.s.hist))))
      have e : n = n1 + n2 := by omega
      rw [copy_split, e, appendSlice_add, liftStep_congr _ (r.view b' L') _ rfl rfl]
      exact StepEqv.refl _
    · rw [l2StepR_starve (({ r with s := copySt r.s n1 (appendSlice b' n1 r.s.inPos r.s.hist) } : RSt).view b' L') (show r.s.l2.seq ≠ .lzma by rw [hc]; decide) hg]
      have e : n = n1 := by omega
      rw [e, l2CopyWith_vw, liftStep_view, l2CopyWith_more r.s n1 _ hz]
      exact StepEqv.refl _

theorem l2StepR_absorb (h1 : L1Absorb) (s1 : L1Spec) (f1 : L1L2Frame) (r : RSt) (b b' : ByteArray) (L L' : Nat) (hP : P2 r)
    (hag0 : Agree r.s.inPos r.s.inp b) (hin : r.s.inPos ≤ b.size) (hlim : r.s.dp.pos ≤ L) (hag : Agree b.size b b') (hL : L ≤ L') (hnr : r.s.dp.needReset = false) :
    L2Out b' L' (l2StepR (r.view b L)) (l2StepR (r.view b' L')) := by
  by_cases hq : r.s.l2.seq = .lzma
  · exact absorb_lzma h1 s1 f1 r b b' L L' hP hag0 hin hlim hag hL hnr hq
  · by_cases hb : r.s.inPos < b.size
    · by_cases hc : r.s.l2.seq = .copy
      · exact absorb_copy r b b' L L' hb hlim hag hL hnr hc
      · exact absorb_byte r b b' L L' hag hb hq hc
    · rw [l2StepR_starve (r.view b L) hq hb]
      exact .resume _ rfl rfl hnr (StepEqv.refl _)

/-! ### absorption: the whole call -/

theorem absorb_main (h1 : L1Absorb) (s1 : L1Spec) (f1 : L1L2Frame) (e1 : L1EndNone) (g1 : SymPreL2)
    (b b' : ByteArray) (L L' : Nat) (hag : Agree b.size b b') (hL : L ≤ L') :
    ∀ (n : Nat) (r : RSt), mu (r.view b L).s < n → P2 r → Agree r.s.inPos r.s.inp b → r.s.inPos ≤ b.size → r.s.dp.pos ≤ L →
      r.s.dp.needReset = false →
      ((lzma2CallR (r.view b L)).1 ≠ .ok → Eqv (lzma2CallR (r.view b' L')) (lzma2CallR (r.view b L)))
      ∧ ((lzma2CallR (r.view b L)).1 = .ok → (lzma2CallR (r.view b L)).2.s.dp.needReset = true →
          Same (lzma2CallR (r.view b' L')) (lzma2CallR (r.view b L)))
      ∧ ((lzma2CallR (r.view b L)).1 = .ok → (lzma2CallR (r.view b L)).2.s.dp.needReset = false →
          Eqv (lzma2CallR (r.view b' L')) (lzma2CallR ((lzma2CallR (r.view b L)).2.view b' L')))
  | 0, _, hmu, _, _, _, _, _ => by omega
  | n + 1, r, hmu, hP, hag0, hin, hlim, hnr => by
    have gx : L2Good (r.view b L) := ⟨p2_view r b L hP hag0, hin, hlim, hnr⟩
    have hag0' : Agree r.s.inPos r.s.inp b' := agree_trans hag0 (agree_weaken hag hin)
    have gy : L2Good (r.view b' L') := ⟨p2_view r b' L' hP hag0', Nat.le_trans hin hag.le', Nat.le_trans hlim hL, hnr⟩
    have eX := lzma2CallR_unfold s1 e1 g1 _ gx
    have eY := lzma2CallR_unfold s1 e1 g1 _ gy
    have hokx := l2StepR_ok s1 e1 g1 _ gx
    have hoky := l2StepR_ok s1 e1 g1 _ gy
    have ho := l2StepR_absorb h1 s1 f1 r b b' L L' hP hag0 hin hlim hag hL hnr
    rw [eX, eY]
    cases ho with
    | same h hy =>
      cases hsx : l2StepR (r.view b L) with
      | done x =>
        cases hsy : l2StepR (r.view b' L') with
        | done y =>
          rw [hsx, hsy] at h
          rw [hsx] at hy
          simp only [runStepR]
          exact ⟨fun _ => Or.inl h, fun _ _ => h, fun hok hn => by have := hy hok; rw [hn] at this; cases this⟩
        | next ry => rw [hsx, hsy] at h; exact absurd h id
      | next rx =>
        cases hsy : l2StepR (r.view b' L') with
        | done y => rw [hsx, hsy] at h; exact absurd h id
        | next ry =>
          rw [hsx, hsy] at h
          rw [hsx] at hokx
          rw [hsy] at hoky
          have hnx : L2NextOk (r.view b L).s rx.s := hokx.1
          have hny : L2NextOk (r.view b' L').s ry.s := hoky.1
          have h' : ry.norm = rx.norm := h
          simp only [runStepR]
          have ex : rx = rx.view b L := RSt.eq_of_norm (RSt.norm_view rx b L).symm hnx.fw.cr.inp hnx.fw.cr.limit
          have ey : ry = rx.view b' L' :=
            RSt.eq_of_norm (h'.trans (RSt.norm_view rx b' L').symm) hny.fw.cr.inp hny.fw.cr.limit
          have hxb : rx.s.inPos ≤ b.size := by
            have := hnx.fw.cr.pos_le hin
            rw [hnx.fw.cr.inp] at this
            exact this
          have hxl : rx.s.dp.pos ≤ L := by
            have := hnx.fw.cr.in_limit hlim
            rw [hnx.fw.cr.limit] at this
            exact this
          have hagx : Agree rx.s.inPos rx.s.inp b := by
            rw [hnx.fw.cr.inp]
            exact ⟨hxb, hxb, fun _ _ _ _ => rfl⟩
          have hmx : mu (rx.view b L).s < n := by
            rw [← ex]
            have := hnx.mu
            omega
          have ih := absorb_main h1 s1 f1 e1 g1 b b' L L' hag hL n rx hmx ⟨hnx.p2, hokx.2⟩ hagx hxb hxl (hnx.nr.trans hnr)
          rw [← ex] at ih
          rw [ey]
          exact ih
    | overrun x y hx hy a1 a2 a3 a4 =>
      rw [hx, hy]
      simp only [runStepR]
      exact ⟨fun _ => Or.inr ⟨a2, a1, a4, a3⟩, fun hok => (by rw [a1] at hok; cases hok), fun hok => (by rw [a1] at hok; cases hok)⟩
    | resume x hx hok hnrx h =>
      rw [hx] at hokx
      have hdx : L2DoneOk (r.view b L).s (x.1, x.2.s) := hokx.1
      rw [hx]
      simp only [runStepR]
      refine ⟨fun hne => absurd hok hne, fun _ hn => (by rw [hnrx] at hn; cases hn), fun _ _ => ?_⟩
      have hxb : x.2.s.inPos ≤ b.size := by
        have := hdx.fw.cr.pos_le hin
        rw [hdx.fw.cr.inp] at this
        exact this
      have hxl : x.2.s.dp.pos ≤ L := by
        have := hdx.fw.cr.in_limit hlim
        rw [hdx.fw.cr.limit] at this
        exact this
      have hagx : Agree x.2.s.inPos x.2.s.inp b' := by
        rw [hdx.fw.cr.inp]
        exact agree_weaken hag hxb
      have gw : L2Good (x.2.view b' L') :=
        ⟨p2_view x.2 b' L' ⟨hdx.p2, hokx.2⟩ hagx, Nat.le_trans hxb hag.le', Nat.le_trans hxl hL, hnrx⟩
      rw [lzma2CallR_unfold s1 e1 g1 _ gw]
      cases hsy : l2StepR (r.view b' L') with
      | done y =>
        cases hsw : l2StepR (x.2.view b' L') with
        | done w => rw [hsy, hsw] at h; exact h
        | next rw' => rw [hsy, hsw] at h; exact absurd h id
      | next ry =>
        cases hsw : l2StepR (x.2.view b' L') with
        | done w => rw [hsy, hsw] at h; exact absurd h id
        | next rw' =>
          rw [hsy, hsw] at h
          have h' : ry = rw' := h
          rw [h']
          exact Eqv.refl _

/-- **stop** -/
theorem lzma2_stop (h1 : L1Absorb) (s1 : L1Spec) (f1 : L1L2Frame) (e1 : L1EndNone) (g1 : SymPreL2) (r : RSt) (b b' : ByteArray)
    (L L' : Nat) (hP : P2 r) (hag0 : Agree r.s.inPos r.s.inp b) (hin : r.s.inPos ≤ b.size) (hlim : r.s.dp.pos ≤ L)
    (hag : Agree b.size b b') (hL : L ≤ L') (hnr : r.s.dp.needReset = false) (hne : (lzma2CallR (r.view b L)).1 ≠ .ok) :
    Eqv (lzma2CallR (r.view b' L')) (lzma2CallR (r.view b L)) :=
  (absorb_main h1 s1 f1 e1 g1 b b' L L' hag hL _ r (Nat.lt_succ_self _) hP hag0 hin hlim hnr).1 hne

/-- **yield** -/
theorem lzma2_yield (h1 : L1Absorb) (s1 : L1Spec) (f1 : L1L2Frame) (e1 : L1EndNone) (g1 : SymPreL2) (r : RSt) (b b' : ByteArray)
    (L L' : Nat) (hP : P2 r) (hag0 : Agree r.s.inPos r.s.inp b) (hin : r.s.inPos ≤ b.size) (hlim : r.s.dp.pos ≤ L)
    (hag : Agree b.size b b') (hL : L ≤ L') (hnr : r.s.dp.needReset = false) (hok : (lzma2CallR (r.view b L)).1 = .ok)
    (hy : (lzma2CallR (r.view b L)).2.s.dp.needReset = true) :
    Same (lzma2CallR (r.view b' L')) (lzma2CallR (r.view b L)) :=
  (absorb_main h1 s1 f1 e1 g1 b b' L L' hag hL _ r (Nat.lt_succ_self _) hP hag0 hin hlim hnr).2.1 hok hy

/-- **resume** -/
theorem lzma2_resume (h1 : L1Absorb) (s1 : L1Spec) (f1 : L1L2Frame) (e1 : L1EndNone) (g1 : SymPreL2) (r : RSt) (b b' : ByteArray)
    (L L' : Nat) (hP : P2 r) (hag0 : Agree r.s.inPos r.s.inp b) (hin : r.s.inPos ≤ b.size) (hlim : r.s.dp.pos ≤ L)
    (hag : Agree b.size b b') (hL : L ≤ L') (hnr : r.s.dp.needReset = false) (hok : (lzma2CallR (r.view b L)).1 = .ok)
    (hy : (lzma2CallR (r.view b L)).2.s.dp.needReset = false) :
    Eqv (lzma2CallR (r.view b' L')) (lzma2CallR ((lzma2CallR (r.view b L)).2.view b' L')) :=
  (absorb_main h1 s1 f1 e1 g1 b b' L L' hag hL _ r (Nat.lt_succ_self _) hP hag0 hin hlim hnr).2.2 hok hy

theorem p2_reset (r : RSt) (h : P2 r) (hn : r.s.dp.needReset = true) : P2 (r.map fun s => { s with dp := s.dp.reset }) :=
  ⟨h.1, symInv_none _ (h.2.2.2 hn)⟩

/-- **`lzma2_decode` absorbs slicing** (given the LZMA1 call-level facts) -/
theorem codeAbsorb_lzma2 (h1 : L1Absorb) (s1 : L1Spec) (f1 : L1L2Frame) (e1 : L1EndNone) (g1 : SymPreL2) :
    CodeAbsorb P2 lzma2CallR where
  spec := fun r hP hnr hin hlim => lzma2CallR_spec s1 e1 g1 r hP hnr hin hlim
  frame_view := fun r b L hP ha => p2_view r b L hP ha
  frame_reset := fun r hP hn => p2_reset r hP hn
  stop := fun r b b' L L' hP ha hin hlim hag hL hnr hne => lzma2_stop h1 s1 f1 e1 g1 r b b' L L' hP ha hin hlim hag hL hnr hne
  yield := fun r b b' L L' hP ha hin hlim hag hL hnr hok hy =>
    lzma2_yield h1 s1 f1 e1 g1 r b b' L L' hP ha hin hlim hag hL hnr hok hy
  resume := fun r b b' L L' hP ha hin hlim hag hL hnr hok hy =>
    lzma2_resume h1 s1 f1 e1 g1 r b b' L L' hP ha hin hlim hag hL hnr hok hy

/-! ### discharging the hypotheses (Lemmas/LzmaResumeCall.lean, Lemmas/LzmaResumeSym.lean) -/

theorem symPreL2 : SymPreL2 := by
  intro r f h k hk
  obtain ⟨h1, h2, h3⟩ := h k hk
  refine ⟨h1, h2, fun L b hb => ?_⟩
  have h4 := h3 L b hb
  show r.s.inPos ≤ (resSt (decodeSymbol (r.s.uncomp.isNone || r.s.eopmValid)
    (setL2 (k.restore { r.s with inp := b, dp := { r.s.dp with limit := L }, pending := .none }) f))).inPos
  rw [decodeSymbol_setL2]
  generalize decodeSymbol _ _ = x at h4 ⊢
  cases x <;> exact h4

/-- **`lzma2_decode` absorbs slicing**, given only the absorption property of `lzma_decode` -/
theorem codeAbsorb_lzma2' (h1 : L1Absorb) : CodeAbsorb P2 lzma2CallR :=
  codeAbsorb_lzma2 h1 l1Spec lzmaCallR_setL2 lzmaCallR_end_none symPreL2

end XzVerif.LzmaR
