/-
  Layer 1+2 of the range-coder round-trip proof (DESIGN Appendix A): the C encoder state denotes an exact number.

    pend e = the number written so far followed by the pending bytes `cache, 0xFF × (cache_size-1)`
    V e    = pend e · 2^32 + low                       ("everything the encoder has committed to", at the current scale)
    T e    = |out| + cache_size                        (grows by exactly one per `rc_shift_low`)

  `rc_shift_low` multiplies `V` by 256 provided a carry never meets `cache = 0xFF` (`Inv0`). That side condition follows
  from the interval invariant `J`:  low + range ≤ 2^32 + (if cache = 0xFF then 0 else 2^32), which every operation keeps.
-/
import XzVerif.Lemmas.RangeCoderNum

namespace XzVerif.RangeCoder
open XzVerif.RangeDec XzVerif.RangeEnc

def pend (e : Enc) : Nat :=
  (numLE e.outRev * 256 + e.cache) * 256 ^ (e.cacheSize - 1) + (256 ^ (e.cacheSize - 1) - 1)

def V (e : Enc) : Nat := pend e * 4294967296 + e.low

def T (e : Enc) : Nat := e.outRev.length + e.cacheSize

/-- what `rc_shift_low` needs: a carry never meets `cache = 0xFF` -/
structure Inv0 (e : Enc) : Prop where
  cs : 1 ≤ e.cacheSize
  cache : e.cache < 256
  low : e.low < 8589934592
  nocarry : e.cache = 255 → e.low < 4294967296

/-- the encoder invariant between operations -/
structure Inv (e : Enc) : Prop where
  cs : 1 ≤ e.cacheSize
  cache : e.cache < 256
  rge : 65536 ≤ e.range
  rlt : e.range < 4294967296
  J : e.low + e.range ≤ 4294967296 + (if e.cache = 255 then 0 else 4294967296)

theorem Inv.inv0 {e : Enc} (h : Inv e) : Inv0 e := by
  have hJ := h.J
  have hr := h.rge
  refine ⟨h.cs, h.cache, ?_, ?_⟩
  · split at hJ <;> omega
  · intro hc; rw [if_pos hc] at hJ; omega

theorem inv_init : Inv Enc.init := by
  refine ⟨by decide, by decide, by decide, by decide, by decide⟩

theorem V_init : V Enc.init = 0 := by decide

theorem T_init : T Enc.init = 1 := by decide

private theorem ofNat_toNat_lt {n : Nat} (h : n < 256) : (UInt8.ofNat n).toNat = n := by
  simp [Nat.mod_eq_of_lt h]

private theorem pow_cs (k : Nat) (h : 1 ≤ k) : 256 ^ (k + 1 - 1) = 256 * 256 ^ (k - 1) := by
  obtain ⟨j, rfl⟩ : ∃ j, k = j + 1 := ⟨k - 1, by omega⟩
  simp [pow_succ]; ring

theorem V_mk1 (l r c t : Nat) (o : List UInt8) :
    V { low := l, cacheSize := 1, range := r, cache := c, outTotal := t, outRev := o } = (numLE o * 256 + c) * 4294967296 + l := by
  simp only [V, pend]
  simp

theorem shiftLow_cache_pos {e : Enc} (h : e.low % U32 < 0xFF000000 ∨ (e.low / U32) % U32 ≠ 0) :
    (shiftLow e).cache = (e.low / 16777216) % 256 := by
  unfold shiftLow; rw [if_pos h]

theorem shiftLow_cache_neg {e : Enc} (h : ¬ (e.low % U32 < 0xFF000000 ∨ (e.low / U32) % U32 ≠ 0)) :
    (shiftLow e).cache = e.cache := by
  unfold shiftLow; rw [if_neg h]

theorem shiftLow_pos {e : Enc} (h : e.low % U32 < 0xFF000000 ∨ (e.low / U32) % U32 ≠ 0) :
    shiftLow e = { low := (e.low % 16777216) * 256, cacheSize := 1, range := e.range, cache := (e.low / 16777216) % 256,
                   outTotal := e.outTotal + e.cacheSize,
                   outRev := pushN (e.cacheSize - 1) (UInt8.ofNat ((0xFF + (e.low / U32) % 256) % 256))
                     (UInt8.ofNat ((e.cache + (e.low / U32) % 256) % 256) :: e.outRev) } := by
  unfold shiftLow; rw [if_pos h]

theorem shiftLow_neg {e : Enc} (h : ¬ (e.low % U32 < 0xFF000000 ∨ (e.low / U32) % U32 ≠ 0)) :
    shiftLow e = { e with cacheSize := e.cacheSize + 1, low := (e.low % 16777216) * 256 } := by
  unfold shiftLow; rw [if_neg h]

/-! pure arithmetic behind the three cases of `rc_shift_low` (`x` = prefix · 256^k, `P` = 256^k) -/

private theorem arith_nocarry (x P low : Nat) (_hP : 0 < P) (hl : low < 4278190080) :
    ((x + (P - 1)) * 256 + low / 16777216 % 256) * 4294967296 + low % 16777216 * 256
      = 256 * ((x + (P - 1)) * 4294967296 + low) := by omega

private theorem arith_carry (x P low : Nat) (hP : 0 < P) (h1 : 4294967296 ≤ low) (h2 : low < 8589934592) :
    ((x + P) * 256 + low / 16777216 % 256) * 4294967296 + low % 16777216 * 256
      = 256 * ((x + (P - 1)) * 4294967296 + low) := by omega

private theorem arith_ff (x P low : Nat) (hP : 0 < P) (h1 : 4278190080 ≤ low) (h2 : low < 4294967296) :
    (256 * x + (256 * P - 1)) * 4294967296 + low % 16777216 * 256
      = 256 * ((x + (P - 1)) * 4294967296 + low) := by omega

/-- The key lemma: one `rc_shift_low` is multiplication by 256 on the denoted number. -/
theorem shiftLow_spec {e : Enc} (h : Inv0 e) :
    V (shiftLow e) = 256 * V e ∧ T (shiftLow e) = T e + 1 ∧ Inv0 (shiftLow e) ∧ (shiftLow e).low < 4294967296
      ∧ (shiftLow e).range = e.range ∧ (shiftLow e).low = (e.low % 16777216) * 256 := by
  obtain ⟨hcs, hcache, hlow, hnc⟩ := h
  have hP : 0 < 256 ^ (e.cacheSize - 1) := Nat.pow_pos (by norm_num)
  by_cases hcond : e.low % U32 < 0xFF000000 ∨ (e.low / U32) % U32 ≠ 0
  · rw [shiftLow_pos hcond]
    simp only [U32] at hcond
    by_cases hcarry : e.low < 4294967296
    · -- no carry: the pending bytes are written as they are
      have hc0 : (e.low / U32) % 256 = 0 := by simp only [U32]; omega
      have hl : e.low < 4278190080 := by omega
      have h1 : (UInt8.ofNat ((e.cache + 0) % 256)).toNat = e.cache := by
        rw [Nat.add_zero, Nat.mod_eq_of_lt hcache]; exact ofNat_toNat_lt hcache
      have h255 : UInt8.ofNat ((255 + 0) % 256) = 255 := by decide
      rw [hc0, h255]
      refine ⟨?_, ?_, ⟨?_, ?_, ?_, ?_⟩, ?_, ?_, ?_⟩
      · rw [V_mk1, numLE_pushN_ff, numLE, h1]
        have e1 : (e.cache + 256 * numLE e.outRev) * 256 ^ (e.cacheSize - 1)
            = (numLE e.outRev * 256 + e.cache) * 256 ^ (e.cacheSize - 1) := by ring
        rw [e1]
        exact arith_nocarry _ _ _ hP hl
      · simp only [T, length_pushN, List.length_cons]; omega
      · dsimp only; omega
      · dsimp only; omega
      · dsimp only; omega
      · dsimp only; omega
      · dsimp only; omega
      · rfl
      · rfl
    · -- carry: cache + 1 is written, the pending 0xFF bytes become 0x00
      have hc1 : (e.low / U32) % 256 = 1 := by simp only [U32]; omega
      have hne : e.cache ≠ 255 := fun hc => hcarry (hnc hc)
      have h1 : (UInt8.ofNat ((e.cache + 1) % 256)).toNat = e.cache + 1 := by
        have : e.cache + 1 < 256 := by omega
        rw [Nat.mod_eq_of_lt this]; exact ofNat_toNat_lt this
      have h0 : UInt8.ofNat ((255 + 1) % 256) = 0 := by decide
      rw [hc1, h0]
      refine ⟨?_, ?_, ⟨?_, ?_, ?_, ?_⟩, ?_, ?_, ?_⟩
      · rw [V_mk1, numLE_pushN_zero, numLE, h1]
        have e1 : (e.cache + 1 + 256 * numLE e.outRev) * 256 ^ (e.cacheSize - 1)
            = (numLE e.outRev * 256 + e.cache) * 256 ^ (e.cacheSize - 1) + 256 ^ (e.cacheSize - 1) := by ring
        rw [e1]
        exact arith_carry _ _ _ hP (by omega) hlow
      · simp only [T, length_pushN, List.length_cons]; omega
      · dsimp only; omega
      · dsimp only; omega
      · dsimp only; omega
      · dsimp only; omega
      · dsimp only; omega
      · rfl
      · rfl
  · -- top byte is 0xFF and there is no carry: one more pending byte
    rw [shiftLow_neg hcond]
    simp only [U32] at hcond
    have hl1 : e.low < 4294967296 := by omega
    have hl2 : 4278190080 ≤ e.low := by omega
    refine ⟨?_, ?_, ⟨?_, ?_, ?_, ?_⟩, ?_, ?_, ?_⟩
    · show ((numLE e.outRev * 256 + e.cache) * 256 ^ (e.cacheSize + 1 - 1) + (256 ^ (e.cacheSize + 1 - 1) - 1)) * 4294967296
          + e.low % 16777216 * 256 = 256 * V e
      rw [pow_cs _ hcs]
      have e1 : (numLE e.outRev * 256 + e.cache) * (256 * 256 ^ (e.cacheSize - 1))
          = 256 * ((numLE e.outRev * 256 + e.cache) * 256 ^ (e.cacheSize - 1)) := by ring
      rw [e1]
      exact arith_ff _ _ _ hP hl2 hl1
    · simp only [T]; omega
    · dsimp only; omega
    · exact hcache
    · dsimp only; omega
    · intro _; dsimp only; omega
    · dsimp only; omega
    · rfl
    · rfl

/-- `Inv` survives `rc_shift_low` followed by `range <<= 8` when `range < 2^24` (the interval invariant `J`). -/
theorem normalize_spec {e : Enc} (h : Inv e) :
    Inv (normalize e) ∧ RC_TOP_VALUE ≤ (normalize e).range ∧
    ((e.range < RC_TOP_VALUE ∧ V (normalize e) = 256 * V e ∧ T (normalize e) = T e + 1 ∧ (normalize e).range = 256 * e.range)
     ∨ (RC_TOP_VALUE ≤ e.range ∧ normalize e = e)) := by
  unfold normalize
  by_cases hr : e.range < RC_TOP_VALUE
  · rw [if_pos hr]
    obtain ⟨hV, hT, hI0, hl, hrange, hlow⟩ := shiftLow_spec h.inv0
    simp only [RC_TOP_VALUE] at hr ⊢
    have hJ := h.J
    have hrp := h.rge
    have hmod : (shiftLow e).range * 256 % U32 = 256 * e.range := by
      rw [hrange]; simp only [U32]; omega
    refine ⟨⟨hI0.cs, hI0.cache, ?_, ?_, ?_⟩, ?_, Or.inl ⟨hr, ?_, ?_, hmod⟩⟩
    · show 65536 ≤ (shiftLow e).range * 256 % U32
      rw [hmod]; omega
    · show (shiftLow e).range * 256 % U32 < 4294967296
      rw [hmod]; omega
    · -- J for the new state, by the three cases of rc_shift_low
      have hI0' := h.inv0
      have hlo := hI0'.low
      show (shiftLow e).low + (shiftLow e).range * 256 % U32 ≤ 4294967296 + (if (shiftLow e).cache = 255 then 0 else 4294967296)
      rw [hlow, hmod]
      by_cases hcond : e.low % U32 < 0xFF000000 ∨ (e.low / U32) % U32 ≠ 0
      · rw [shiftLow_cache_pos hcond]
        simp only [U32] at hcond
        by_cases hcarry : e.low < 4294967296
        · have : e.low / 16777216 % 256 ≠ 255 := by omega
          rw [if_neg this]; omega
        · have hne : e.cache ≠ 255 := fun hc => hcarry (hI0'.nocarry hc)
          rw [if_neg hne] at hJ
          split <;> omega
      · rw [shiftLow_cache_neg hcond]
        simp only [U32] at hcond
        split at hJ
        · rename_i hc; rw [if_pos hc]; omega
        · rename_i hc; rw [if_neg hc]; omega
    · show 16777216 ≤ (shiftLow e).range * 256 % U32
      rw [hmod]; omega
    · exact hV
    · exact hT
  · rw [if_neg hr]
    exact ⟨h, by omega, Or.inr ⟨by omega, rfl⟩⟩

theorem probInv_update {p : Nat} (h : ProbInv p) (b : Bool) : ProbInv (probUpdate p b) := by
  unfold ProbInv at *
  cases b
  · simp only [probUpdate, Bool.false_eq_true, if_false, probUpdate0, RC_BIT_MODEL_TOTAL]; omega
  · simp only [probUpdate, if_true, probUpdate1]; omega

/-- `bound = (range >> 11) * p` is well inside `(0, range)` for a normalised range and an invariant probability. -/
theorem bound_lt {r p : Nat} (hr : RC_TOP_VALUE ≤ r) (hr2 : r < 4294967296) (hp : ProbInv p) :
    65536 ≤ (r / 2048) * p ∧ (r / 2048) * p + 65536 ≤ r ∧ (r / 2048) * p < 4294967296 := by
  obtain ⟨hp0, hp1⟩ := hp
  simp only [RC_TOP_VALUE] at hr
  have hq : 8192 ≤ r / 2048 := by omega
  have h1 : (r / 2048) * p ≤ (r / 2048) * 2017 := Nat.mul_le_mul_left _ hp1
  have h2 : (r / 2048) * 2048 ≤ r := Nat.div_mul_le_self r 2048
  have h3 : (r / 2048) * 31 ≤ (r / 2048) * p := Nat.mul_le_mul_left _ hp0
  omega

theorem encBit_false (e : Enc) (p : Nat) :
    encBit e p false = { normalize e with range := (((normalize e).range / RC_BIT_MODEL_TOTAL) * p) % U32 } := rfl

theorem encBit_true (e : Enc) (p : Nat) :
    encBit e p true = { normalize e with low := (normalize e).low + (p * ((normalize e).range / RC_BIT_MODEL_TOTAL)) % U32,
                                         range := (normalize e).range - (p * ((normalize e).range / RC_BIT_MODEL_TOTAL)) % U32 } := rfl

theorem encDirect_false (e : Enc) :
    encDirect e false = { normalize e with range := (normalize e).range / 2 } := rfl

theorem encDirect_true (e : Enc) :
    encDirect e true = { normalize e with low := (normalize e).low + (normalize e).range / 2, range := (normalize e).range / 2 } := rfl

/-- Effect of one bit on a state (normalisation included). -/
theorem encBit_spec {e : Enc} (h : Inv e) {p : Nat} (hp : ProbInv p) (b : Bool) :
    Inv (encBit e p b) ∧ T (encBit e p b) = T (normalize e) ∧
    (b = false → V (encBit e p b) = V (normalize e) ∧ (encBit e p b).range = ((normalize e).range / 2048) * p) ∧
    (b = true → V (encBit e p b) = V (normalize e) + ((normalize e).range / 2048) * p
                ∧ (encBit e p b).range = (normalize e).range - ((normalize e).range / 2048) * p) := by
  obtain ⟨hI, hr, _⟩ := normalize_spec h
  obtain ⟨hb0, hb1, hb2⟩ := bound_lt hr hI.rlt hp
  have hJ := hI.J
  have hrl := hI.rlt
  cases b
  · rw [encBit_false]
    generalize normalize e = e1 at *
    have hm : (e1.range / RC_BIT_MODEL_TOTAL * p) % U32 = (e1.range / 2048) * p := Nat.mod_eq_of_lt hb2
    rw [hm]
    generalize (e1.range / 2048) * p = bound at *
    refine ⟨⟨hI.cs, hI.cache, ?_, ?_, ?_⟩, rfl, fun _ => ⟨rfl, rfl⟩, ?_⟩
    · dsimp only; omega
    · dsimp only; omega
    · dsimp only; split at hJ <;> rename_i hc <;> simp only [hc, if_true, if_false] <;> omega
    · intro hh; cases hh
  · rw [encBit_true]
    generalize normalize e = e1 at *
    have hm : (p * (e1.range / RC_BIT_MODEL_TOTAL)) % U32 = (e1.range / 2048) * p := by
      rw [Nat.mul_comm]; exact Nat.mod_eq_of_lt hb2
    rw [hm]
    generalize (e1.range / 2048) * p = bound at *
    refine ⟨⟨hI.cs, hI.cache, ?_, ?_, ?_⟩, rfl, ?_, fun _ => ⟨?_, rfl⟩⟩
    · dsimp only; omega
    · dsimp only; omega
    · dsimp only; split at hJ <;> rename_i hc <;> simp only [hc, if_true, if_false] <;> omega
    · intro hh; cases hh
    · simp only [V, pend]; omega

/-- Effect of one direct bit on a state (normalisation included). -/
theorem encDirect_spec {e : Enc} (h : Inv e) (b : Bool) :
    Inv (encDirect e b) ∧ T (encDirect e b) = T (normalize e) ∧ (encDirect e b).range = (normalize e).range / 2 ∧
    V (encDirect e b) = V (normalize e) + (if b then (normalize e).range / 2 else 0) := by
  obtain ⟨hI, hr, _⟩ := normalize_spec h
  simp only [RC_TOP_VALUE] at hr
  have hJ := hI.J
  have hrl := hI.rlt
  cases b
  · rw [encDirect_false]
    generalize normalize e = e1 at *
    refine ⟨⟨hI.cs, hI.cache, ?_, ?_, ?_⟩, rfl, rfl, by simp [V, pend]⟩
    · dsimp only; omega
    · dsimp only; omega
    · dsimp only; split at hJ <;> rename_i hc <;> simp only [hc, if_true, if_false] <;> omega
  · rw [encDirect_true]
    generalize normalize e = e1 at *
    refine ⟨⟨hI.cs, hI.cache, ?_, ?_, ?_⟩, rfl, rfl, ?_⟩
    · dsimp only; omega
    · dsimp only; omega
    · dsimp only; split at hJ <;> rename_i hc <;> simp only [hc, if_true, if_false] <;> omega
    · simp only [V, pend, if_true]; omega

/-- After `rc_flush` the written bytes denote exactly the number committed before the flush, and their count is known. -/
theorem encFlush_spec {e : Enc} (h : Inv e) :
    numLE (encFlush e).outRev = V (normalize e) ∧ (encFlush e).outRev.length = T (normalize e) + 4 ∧
    T (encFlush e) = T (normalize e) + 5 := by
  obtain ⟨hI, _, _⟩ := normalize_spec h
  have hdef : encFlush e = shiftLow (shiftLow (shiftLow (shiftLow (shiftLow { normalize e with range := UINT32_MAX })))) := rfl
  rw [hdef]
  generalize normalize e = e1 at hI ⊢
  have hI0 : Inv0 { e1 with range := UINT32_MAX } := by
    have := hI.inv0
    exact ⟨this.cs, this.cache, this.low, this.nocarry⟩
  have hV0 : V { e1 with range := UINT32_MAX } = V e1 := rfl
  have hT0 : T { e1 with range := UINT32_MAX } = T e1 := rfl
  generalize ({ e1 with range := UINT32_MAX } : Enc) = a0 at hI0 hV0 hT0
  obtain ⟨hV1, hT1, hI1, _, _, hl1⟩ := shiftLow_spec hI0
  generalize shiftLow a0 = a1 at *
  obtain ⟨hV2, hT2, hI2, _, _, hl2⟩ := shiftLow_spec hI1
  generalize shiftLow a1 = a2 at *
  obtain ⟨hV3, hT3, hI3, _, _, hl3⟩ := shiftLow_spec hI2
  generalize shiftLow a2 = a3 at *
  obtain ⟨hV4, hT4, hI4, _, _, hl4⟩ := shiftLow_spec hI3
  generalize shiftLow a3 = a4 at *
  have hz : a4.low = 0 := by omega
  obtain ⟨hV5, hT5, hI5, _, _, hl5⟩ := shiftLow_spec hI4
  -- the fifth shift sees low = 0: everything pending is written, cache = 0, cache_size = 1
  have hcond : a4.low % U32 < 0xFF000000 ∨ (a4.low / U32) % U32 ≠ 0 := Or.inl (by rw [hz]; decide)
  have hcs : (shiftLow a4).cacheSize = 1 := by rw [shiftLow_pos hcond]
  have hc : (shiftLow a4).cache = 0 := by rw [shiftLow_cache_pos hcond, hz]
  generalize shiftLow a4 = a5 at *
  have hl5' : a5.low = 0 := by rw [hl5, hz]
  have hV : V a5 = numLE a5.outRev * 1099511627776 := by
    simp only [V, pend, hcs, hc, hl5', Nat.sub_self, pow_zero]; omega
  have hT : T a5 = a5.outRev.length + 1 := by simp [T, hcs]
  refine ⟨by omega, by omega, by omega⟩

end XzVerif.RangeCoder

namespace XzVerif.RangeCoder
open XzVerif.RangeDec XzVerif.RangeEnc

/-- `out_total` counts the bytes written -/
def OutOk (e : Enc) : Prop := e.outTotal = e.outRev.length

theorem outOk_init : OutOk Enc.init := rfl

theorem outOk_shiftLow {e : Enc} (h : OutOk e) (hcs : 1 ≤ e.cacheSize) : OutOk (shiftLow e) := by
  unfold OutOk at *
  by_cases hcond : e.low % U32 < 0xFF000000 ∨ (e.low / U32) % U32 ≠ 0
  · rw [shiftLow_pos hcond]
    simp only [length_pushN, List.length_cons]; omega
  · rw [shiftLow_neg hcond]; exact h

theorem outOk_normalize {e : Enc} (h : OutOk e) (hcs : 1 ≤ e.cacheSize) : OutOk (normalize e) := by
  unfold normalize
  split
  · exact outOk_shiftLow h hcs
  · exact h

theorem outOk_encBit {e : Enc} (h : OutOk e) (hcs : 1 ≤ e.cacheSize) (p : Nat) (b : Bool) : OutOk (encBit e p b) := by
  have := outOk_normalize h hcs
  cases b
  · rw [encBit_false]; exact this
  · rw [encBit_true]; exact this

theorem outOk_encDirect {e : Enc} (h : OutOk e) (hcs : 1 ≤ e.cacheSize) (b : Bool) : OutOk (encDirect e b) := by
  have := outOk_normalize h hcs
  cases b
  · rw [encDirect_false]; exact this
  · rw [encDirect_true]; exact this

end XzVerif.RangeCoder
