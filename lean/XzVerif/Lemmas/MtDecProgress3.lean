/-
  Deadlock freedom: a worker that is not waiting un-signalled and has not exited can take a step; the main thread can take a
  step unless it waits un-signalled in read_output_and_wait, and then the owner of the queue's head can.
-/
import XzVerif.Lemmas.MtDecProgress2

namespace XzVerif.MtDec

/-- A Block decoder call that makes progress: verdict, input consumed, output produced, or it was called with no input (the
    first call after PARTIAL_START). All other transitions count as progressive. -/
def Progressive (s : State) : Label → Prop
  | .wDecode i a b v => v = true ∨ (getW s i).inPos < a ∨ (getW s i).outPos < b ∨
      ∃ lim pu, (getW s i).pc = .decode lim pu ∧ lim = (getW s i).inPos
  | _ => True

theorem enabled_of_isSome {s : State} {l : Label} (h : (step s l).isSome = true) (he : l.isExpiry = false)
    (hp : Progressive s l := by exact True.intro) :
    ∃ l s', step s l = some s' ∧ l.isExpiry = false ∧ Progressive s l := by
  obtain ⟨s', hs⟩ := Option.isSome_iff_exists.mp h
  exact ⟨l, s', hs, he, hp⟩

theorem worker_can_step {s : State} (hwf : ∀ j, (blk s j).WF) (hP : PrivInv s) (i : Nat) (hi : i < s.workers.length)
    (hne : (getW s i).pc ≠ .exited) (hnw : ¬ ((getW s i).pc = .wait ∧ (getW s i).woken = false)) :
    ∃ l s', step s l = some s' ∧ l.isExpiry = false ∧ Progressive s l := by
  have hp := hP i hi
  cases hpc : (getW s i).pc with
  | top => exact enabled_of_isSome (l := .wLoop i .enter) (by simp [step, hi, hpc]) rfl
  | wait =>
    have hw : (getW s i).woken = true := by
      cases hwk : (getW s i).woken with
      | true => rfl
      | false => exact absurd ⟨hpc, hwk⟩ hnw
    exact enabled_of_isSome (l := .wLoop i .signalled) (by simp [step, hi, hpc, hw]) rfl
  | decode lim pu =>
    have hd := hp.2.2.2 lim pu hpc
    have hwfb := hwf (getW s i).blk
    by_cases hlt : lim < (blk s (getW s i).blk).needIn
    · -- the decoder consumes everything it was given and asks for more
      refine enabled_of_isSome (l := .wDecode i lim (getW s i).outPos false) ?_ rfl ?_
      · have hg : (decide ((getW s i).inPos ≤ lim) && decide (lim ≤ lim) &&
            decide (lim ≤ (blk s (getW s i).blk).needIn) && decide ((getW s i).outPos ≤ (getW s i).outPos) &&
            decide ((getW s i).outPos ≤ (blk s (getW s i).blk).data.length) &&
            (false || decide (lim < (blk s (getW s i).blk).inSize))) = true := by
          have := hwfb.2.2.1
          simp only [Bool.and_eq_true, decide_eq_true_eq, Bool.or_eq_true, Bool.false_eq_true, false_or]
          exact ⟨⟨⟨⟨⟨hd.1, Nat.le_refl _⟩, Nat.le_of_lt hlt⟩, Nat.le_refl _⟩, hp.2.2.1⟩, by omega⟩
        simp only [step, hi, if_true, hpc, hg]
        simp
        split <;> rfl
      · by_cases e : (getW s i).inPos < lim
        · exact Or.inr (Or.inl e)
        · exact Or.inr (Or.inr (Or.inr ⟨lim, pu, hpc, by have := hd.1; omega⟩))
    · -- the verdict position is within the given input: the decoder delivers its verdict
      have hle : (blk s (getW s i).blk).needIn ≤ lim := by omega
      refine enabled_of_isSome (l := .wDecode i (blk s (getW s i).blk).needIn (blk s (getW s i).blk).data.length true) ?_ rfl
        (Or.inl rfl)
      have hg : (decide ((getW s i).inPos ≤ (blk s (getW s i).blk).needIn) && decide ((blk s (getW s i).blk).needIn ≤ lim) &&
          decide ((blk s (getW s i).blk).needIn ≤ (blk s (getW s i).blk).needIn) &&
          decide ((getW s i).outPos ≤ (blk s (getW s i).blk).data.length) &&
          decide ((blk s (getW s i).blk).data.length ≤ (blk s (getW s i).blk).data.length) &&
          (true || decide ((blk s (getW s i).blk).needIn < (blk s (getW s i).blk).inSize))) = true := by
        simp [hle, hp.2.1, hp.2.2.1]
      simp only [step, hi, if_true, hpc, hg]
      simp
  | publish => exact enabled_of_isSome (l := .wPublish i) (by simp [step, hi, hpc]) rfl
  | fin1 r => exact enabled_of_isSome (l := .wFin1 i) (by simp [step, hi, hpc]) rfl
  | fin2 r => exact enabled_of_isSome (l := .wFin2 i) (by simp [step, hi, hpc]) rfl
  | fin3 r => exact enabled_of_isSome (l := .wFin3 i) (by simp [step, hi, hpc]) rfl
  | cleanup => exact enabled_of_isSome (l := .wCleanup i) (by simp [step, hi, hpc]) rfl
  | exited => exact absurd hpc hne

/-- Every item the model looks at (also the default one past the end) obeys the Block decoder contract. -/
theorem blk_wf_of_reachable {cfg : Cfg} {blocks : List Block} (hwf : ∀ b ∈ blocks, b.WF) {s : State}
    (hr : Reachable cfg blocks s) : ∀ j, (blk s j).WF := by
  have g := GInv.reachable hwf hr
  intro j
  unfold blk
  by_cases hj : j < s.blocks.length
  · have : s.blocks.getD j default = s.blocks[j] := by simp [List.getD, List.getElem?_eq_getElem hj]
    rw [this]; exact hwf _ (g.hblocks ▸ List.getElem_mem hj)
  · have : s.blocks.getD j default = default := by simp [List.getD, List.getElem?_eq_none (by omega : s.blocks.length ≤ j)]
    rw [this]
    refine ⟨by decide, by decide, Nat.le_refl _, fun _ => rfl, ?_, fun _ => rfl, ?_⟩
    · intro hk; cases hk
    · intro hk; cases hk

/-- Transitions taken by the application, not by the library: a call of lzma_code and the call of lzma_end. -/
def Label.isApp : Label → Bool
  | .call .. => true
  | .endCall => true
  | _ => false

/-- In the main-thread positions other than `rowDone`, `stopping`, `ret`, `idle` and threads_end no fatal value is on its way
    out. -/
theorem steady_of_pc {cfg : Cfg} {blocks : List Block} {s : State} (g : GInv cfg blocks s) (hne : s.pc ≠ .ended) :
    (∀ k r c, s.pc ≠ .rowDone k r c) → (∀ i r, s.pc ≠ .stopping i r) → (∀ r, s.pc ≠ .ret r) → s.pc ≠ .idle →
      ¬ isEnding s.pc → Steady s := by
  intro h1 h2 h3 h4 h5
  have hret : s.returned = none := by
    cases hrr : s.returned with
    | none => rfl
    | some r =>
      exfalso
      rcases g.retPc r hrr with e | e | ⟨i, e | e⟩
      · exact h4 e
      · exact hne e
      · rw [e] at h5; exact h5 trivial
      · rw [e] at h5; exact h5 trivial
  refine ⟨?_, h5, hne⟩
  unfold exitCode
  rw [hret]
  cases hpc : s.pc <;> simp_all

/-- The state in which every thread is blocked is unreachable: while the main thread waits un-signalled in
    read_output_and_wait, some worker is neither waiting un-signalled nor exited. -/
theorem some_worker_runs {cfg : Cfg} {blocks : List Block} (hwf : ∀ b ∈ blocks, b.WF) {s : State} (hr : Reachable cfg blocks s)
    {k : RowK} {w : Bool} (hpc : s.pc = .rowWait k w) (hm : s.mwoken = false) :
    ∃ i, i < s.workers.length ∧ ¬((getW s i).pc = .wait ∧ (getW s i).woken = false) ∧ (getW s i).pc ≠ .exited := by
  have g := GInv.reachable hwf hr
  have hst : Steady s := steady_of_pc g (by simp [hpc]) (by simp [hpc]) (by simp [hpc]) (by simp [hpc]) (by simp [hpc])
    (by rw [hpc]; intro x; cases x)
  exact head_owner_not_blocked (g.inv hst.1).1 (LiveInv.reachable hwf hr hst) (WakeInv.reachable hwf hr)
    (AllocInv.reachable hwf hr hst.1) hpc hm

/-- While threads_end is joining, only the join itself and worker transitions are enabled: the main thread touches no worker
    structure any more. -/
theorem joining_only_workers {s s' : State} {l : Label} {j : Nat} {k : EndK} (hpc : s.pc = .endJoin j k)
    (hs : step s l = some s') : l = .endJoin ∨ (l.worker?).isSome = true := by
  cases l <;> simp [Label.worker?] <;> simp [step, hpc] at hs

/-- **Deadlock freedom.** -/
theorem progress {cfg : Cfg} {blocks : List Block} (hwf : ∀ b ∈ blocks, b.WF) {s : State} (hr : Reachable cfg blocks s)
    (hne : s.pc ≠ .ended) : ∃ l s', step s l = some s' ∧ l.isExpiry = false ∧ Progressive s l := by
  have g := GInv.reachable hwf hr
  have hP := PrivInv.reachable hwf hr
  have hW := WakeInv.reachable hwf hr
  have hE := EndInv.reachable hr
  have hwfb := blk_wf_of_reachable hwf hr
  have steady := steady_of_pc g hne
  cases hpc : s.pc with
  | idle => exact enabled_of_isSome (l := .endCall) (by simp [step, hpc]) rfl
  | ended => exact absurd hpc hne
  | rowDone k r c => exact enabled_of_isSome (l := .rowDone) (by simp only [step, hpc]; split <;> (try split) <;> rfl) rfl
  | stopping i r => exact enabled_of_isSome (l := .stopOne) (by simp only [step, hpc]; split <;> rfl) rfl
  | ret r => exact enabled_of_isSome (l := .ret) (by simp [step, hpc]) rfl
  | endSet i k => exact enabled_of_isSome (l := .endSet) (by simp only [step, hpc]; split <;> rfl) rfl
  | endJoin i k =>
    by_cases hi : i < s.workers.length
    · by_cases hx : (getW s i).pc = .exited
      · exact enabled_of_isSome (l := .endJoin) (by simp [step, hpc, hi, hx]) rfl
      · -- worker i has been told to exit and is not waiting un-signalled
        have hst := (hE.join i k hpc).1 i hi
        refine worker_can_step hwfb hP i hi hx ?_
        rintro ⟨hw1, hw2⟩
        rcases hW.wk i hi hw1 with e | e | ⟨e, _⟩
        · rw [hw2] at e; cases e
        · rw [hst] at e; cases e
        · rw [hst] at e; cases e
    · exact enabled_of_isSome (l := .endJoin) (by simp only [step, hpc, hi, if_false]; cases k <;> rfl) rfl
  | row k w => exact enabled_of_isSome (l := .rowIter .enter) (by simp [step, hpc]) rfl
  | rowWait k w =>
    by_cases hm : s.mwoken = true
    · exact enabled_of_isSome (l := .rowIter .signalled) (by simp [step, hpc, hm]) rfl
    · have hm' : s.mwoken = false := by simpa using hm
      have hst : Steady s := steady (by simp [hpc]) (by simp [hpc]) (by simp [hpc]) (by simp [hpc]) (by rw [hpc]; intro x; cases x)
      have hI := g.inv hst.1
      have hL := LiveInv.reachable hwf hr hst
      have hA := AllocInv.reachable hwf hr hst.1
      obtain ⟨i, hi, hnb, hnx⟩ := head_owner_not_blocked hI.1 hL hW hA hpc hm'
      exact worker_can_step hwfb hP i hi hnx hnb
  | rowOk k c =>
    have hst : Steady s := steady (by simp [hpc]) (by simp [hpc]) (by simp [hpc]) (by simp [hpc]) (by rw [hpc]; intro x; cases x)
    have hI := g.inv hst.1
    have hL := LiveInv.reachable hwf hr hst
    cases k with
    | thrRun =>
      have hseq : s.seq = .thrRun := hI.2.rowK .thrRun (by rw [hpc]; rfl)
      obtain ⟨t, ht⟩ := hL.thrSome hseq
      exact enabled_of_isSome (l := .rowOk) (by simp only [step, hpc, ht]; repeat' split
                                                all_goals rfl) rfl
    | hdr => exact enabled_of_isSome (l := .rowOk) (by simp only [step, hpc]; split <;> rfl) rfl
    | canStart => exact enabled_of_isSome (l := .rowOk) (by simp only [step, hpc]; repeat' split
                                                            all_goals rfl) rfl
    | drainDirect => exact enabled_of_isSome (l := .rowOk) (by simp only [step, hpc]; split <;> rfl) rfl
    | drainIndex => exact enabled_of_isSome (l := .rowOk) (by simp only [step, hpc]; split <;> rfl) rfl
    | drainErr => exact enabled_of_isSome (l := .rowOk) (by simp only [step, hpc]; repeat' split
                                                            all_goals rfl) rfl
  | init1 => exact enabled_of_isSome (l := .memUpdate) (by simp [step, hpc]) rfl
  | init2 =>
    have hst : Steady s := steady (by simp [hpc]) (by simp [hpc]) (by simp [hpc]) (by simp [hpc]) (by rw [hpc]; intro x; cases x)
    have hL := LiveInv.reachable hwf hr hst
    rcases hL.canGet (by simp [hpc]) with e | e
    · refine enabled_of_isSome (l := .getThread) ?_ rfl
      simp only [step, hpc]
      cases hf : popFree s <;> simp [e]
    · refine enabled_of_isSome (l := .getThread) ?_ rfl
      simp only [step, hpc]
      cases hfl : s.threadsFree with
      | nil => exact absurd hfl e
      | cons a t => simp [popFree, hfl]
  | init3 =>
    have hst : Steady s := steady (by simp [hpc]) (by simp [hpc]) (by simp [hpc]) (by simp [hpc]) (by rw [hpc]; intro x; cases x)
    obtain ⟨t, ht, _⟩ := (g.inv hst.1).2.init3 hpc
    exact enabled_of_isSome (l := .assign) (by simp [step, hpc, ht]) rfl
  | init4 =>
    have hst : Steady s := steady (by simp [hpc]) (by simp [hpc]) (by simp [hpc]) (by simp [hpc]) (by rw [hpc]; intro x; cases x)
    obtain ⟨t, ht, _⟩ := (g.inv hst.1).2.init4 hpc
    exact enabled_of_isSome (l := .startThr) (by simp [step, hpc, ht]) rfl
  | init5 => exact enabled_of_isSome (l := .enablePartial) (by simp [step, hpc]) rfl
  | tell f n =>
    have hst : Steady s := steady (by simp [hpc]) (by simp [hpc]) (by simp [hpc]) (by simp [hpc]) (by rw [hpc]; intro x; cases x)
    obtain ⟨_, t, ht, _⟩ := (g.inv hst.1).2.tell f n hpc
    exact enabled_of_isSome (l := .tell) (by simp [step, hpc, ht]) rfl
  | seq =>
    have hst : Steady s := steady (by simp [hpc]) (by simp [hpc]) (by simp [hpc]) (by simp [hpc]) (by rw [hpc]; intro x; cases x)
    have hI := g.inv hst.1
    have hL := LiveInv.reachable hwf hr hst
    cases hseq : s.seq with
    | blockHeader => exact enabled_of_isSome (l := .hdrNeed) (by simp [step, hpc, hseq]) rfl
    | blockInit =>
      refine enabled_of_isSome (l := .blockInit) ?_ rfl
      rcases hL.kindInit hseq with e | e <;> simp [step, hpc, hseq, e]
    | thrInit => exact enabled_of_isSome (l := .thrInitEnter) (by simp [step, hpc, hseq]) rfl
    | thrRun =>
      obtain ⟨t, ht⟩ := hL.thrSome hseq
      have htl := hI.2.thrLt (by rw [hpc]; simp) t ht
      have hfl := (hI.1.wk t htl).fillLe
      exact enabled_of_isSome (l := .copyIn 0 true) (by simp [step, hpc, hseq, ht, hfl]) rfl
    | directInit => exact enabled_of_isSome (l := .directInit) (by simp [step, hpc, hseq]) rfl
    | directRun =>
      have := hI.1.dirLe
      exact enabled_of_isSome (l := .directStep 0 false) (by simp [step, hpc, hseq]; exact this) rfl
    | indexWait => exact enabled_of_isSome (l := .indexStep false) (by simp [step, hpc, hseq]) rfl
    | indexDecode => exact enabled_of_isSome (l := .indexStep false) (by simp [step, hpc, hseq]) rfl
    | error =>
      refine enabled_of_isSome (l := .seqError) ?_ rfl
      simp only [step, hpc, hseq, decide_true, Bool.and_self, if_true]
      repeat' split
      all_goals rfl

end XzVerif.MtDec
