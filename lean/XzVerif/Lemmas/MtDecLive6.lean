/-
  LiveInv across lzma_outq_enable_partial_output and the removal of a finished head (the two queue operations of
  read_output_and_wait), and label enablePartial.
-/
import XzVerif.Lemmas.MtDecLive5

namespace XzVerif.MtDec

/-- After lzma_outq_enable_partial_output: an unfinished head has partial output enabled. -/
def HeadOn (s : State) : Prop :=
  ∀ h t, s.queue = h :: t → h.finished = false → h.worker = none ∧ ∀ i, Owner s h i → (getW s i).pu ≠ .disabled

theorem HeadOn.ok {s : State} (h : HeadOn s) : HeadOk s := fun hh t hq hf => Or.inl (h hh t hq hf)

theorem HeadOk.weak {s : State} (h : HeadOk s) : HeadWeak s := fun hh t hq hf => by
  rcases h hh t hq hf with x | ⟨x, _, _⟩
  · exact Or.inl x
  · exact Or.inr x

theorem LiveG.mono {H H' : State → Prop} {s : State} (h : LiveG H s) (hh : H s → H' s) : LiveG H' s :=
  ⟨h.own, h.run, h.wrk, h.tailW, hh h.head, h.pub, h.snap, h.full, h.pos, h.thr0, h.kindThr, h.kindInit, h.thrSome, h.thr5,
   h.canGet⟩

/-- The two outcomes of lzma_outq_enable_partial_output. -/
theorem enable_cases (s : State) :
    (enablePartialHead s = s ∧ ∀ h t, s.queue = h :: t → h.finished = false → h.worker = none) ∨
    (∃ h t w, s.queue = h :: t ∧ h.finished = false ∧ h.worker = some w ∧
      enablePartialHead s = { MtDec.setW s w (signalW { getW s w with pu := .start }) with queue := { h with worker := none } :: t }) := by
  unfold enablePartialHead
  split
  · rename_i h t hq
    split
    · rename_i hf
      have hf' : h.finished = false := by simpa using hf
      split
      · rename_i w hw
        exact Or.inr ⟨h, t, w, hq, hf', hw, rfl⟩
      · rename_i hw
        refine Or.inl ⟨rfl, ?_⟩
        intro h' t' hq' _
        rw [hq] at hq'; injection hq' with e1 _; subst e1; exact hw
    · rename_i hf
      refine Or.inl ⟨rfl, ?_⟩
      intro h' t' hq' hf'
      rw [hq] at hq'; injection hq' with e1 _; subst e1
      exact absurd hf' (by simpa using hf)
  · rename_i hq
    refine Or.inl ⟨rfl, ?_⟩
    intro h' t' hq' _
    rw [hq] at hq'; cases hq'

theorem LiveG.enable {s : State} (h : LiveG HeadWeak s) (hD : DataInv s) : LiveG HeadOn (enablePartialHead s) := by
  rcases enable_cases s with ⟨e, hnone⟩ | ⟨hd0, tl, w, hq, hf, hw, e⟩
  · rw [e]
    refine h.mono ?_
    intro hweak hh t hq' hf'
    rcases hweak hh t hq' hf' with x | x
    · exact x
    · exact absurd (hnone hh t hq' hf') x
  · rw [e]
    -- the head's worker link names its owner
    have how := h.wrk hd0 (by rw [hq]; simp) w hw hf
    have hwl := how.1
    have uniq : ∀ j, Owner s hd0 j → j = w := by
      intro j hj
      by_cases ej : j = w
      · exact ej
      · exact absurd (by rw [hj.2.2, how.2.2]) (hD.distinct j w hj.1 hwl ej hj.2.1 how.2.1)
    have hg : ∀ j, getW ({ MtDec.setW s w (signalW { getW s w with pu := .start }) with
        queue := { hd0 with worker := none } :: tl } : State) j =
        if w = j then signalW { getW s w with pu := .start } else getW s j := fun j => getW_setW s w j _ hwl
    have own' : ∀ o j, Owner ({ MtDec.setW s w (signalW { getW s w with pu := .start }) with
        queue := { hd0 with worker := none } :: tl } : State) o j ↔ Owner s o j := by
      intro o j
      unfold Owner
      rw [hg]
      by_cases ej : w = j
      · subst ej; simp [signalW]
      · simp [ej]
    -- membership in the new queue
    have mem : ∀ o', o' ∈ ({ hd0 with worker := none } :: tl) →
        (o' = { hd0 with worker := none }) ∨ (o' ∈ tl ∧ o' ∈ s.queue) := by
      intro o' ho'
      rcases List.mem_cons.mp ho' with e' | e'
      · exact Or.inl e'
      · exact Or.inr ⟨e', by rw [hq]; exact List.mem_cons_of_mem _ e'⟩
    refine ⟨?_, ?_, ?_, ?_, ?_, ?_, ?_, ?_, ?_, h.thr0, h.kindThr, h.kindInit, h.thrSome, h.thr5, ?_⟩
    · intro o' ho' hf'
      rcases mem o' ho' with e' | ⟨_, e'⟩
      · subst e'; exact ⟨w, (own' _ w).mpr how⟩
      · obtain ⟨j, hj⟩ := h.own o' e' hf'
        exact ⟨j, (own' o' j).mpr hj⟩
    · intro j hj
      simp only [setW_workers_length] at hj
      rw [hg]
      by_cases ej : w = j
      · subst ej; simp only [if_true]; exact h.run w hj
      · simp only [ej, if_false]; exact h.run j hj
    · intro o' ho' w' hw' hf'
      rcases mem o' ho' with e' | ⟨_, e'⟩
      · subst e'; cases hw'
      · exact (own' o' w').mpr (h.wrk o' e' w' hw' hf')
    · intro hh t hq' o ho
      injection hq' with _ e2; subst e2
      exact h.tailW hd0 tl hq o ho
    · intro hh t hq' hf'
      injection hq' with e1 e2; subst e1 e2
      refine ⟨rfl, fun j hj => ?_⟩
      have hj' : Owner s hd0 j := (own' _ j).mp hj
      have := uniq j hj'
      subst this
      rw [hg]; simp [signalW]
    · intro j hj
      simp only [setW_workers_length] at hj
      rw [hg]
      by_cases ej : w = j
      · subst ej; simp only [if_true]; intro _ _ hpu; cases hpu
      · simp only [ej, if_false]
        intro ho hl hpu o' ho' hb
        rcases mem o' ho' with e' | ⟨_, e'⟩
        · subst e'
          exact h.pub j hj ho hl hpu hd0 (by rw [hq]; simp) hb
        · exact h.pub j hj ho hl hpu o' e' hb
    · intro j hj
      simp only [setW_workers_length] at hj
      rw [hg]
      by_cases ej : w = j
      · subst ej; simp only [if_true]; intro _ _; simp [signalW]
      · simp only [ej, if_false]; exact h.snap j hj
    · intro j hj
      simp only [setW_workers_length] at hj
      rw [hg]
      by_cases ej : w = j
      · subst ej; simp only [if_true]; exact h.full w hj
      · simp only [ej, if_false]; exact h.full j hj
    · intro j hj
      simp only [setW_workers_length] at hj
      rw [hg]
      by_cases ej : w = j
      · subst ej; simp only [if_true]; exact h.pos w hj
      · simp only [ej, if_false]; exact h.pos j hj
    · intro hx
      have := h.canGet hx
      simpa using this

end XzVerif.MtDec
